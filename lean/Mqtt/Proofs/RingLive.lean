/-
Core D — liveness invariants of the ring program (layer 2, repaired code):
lock discipline (`LInv`: a mutex is held exactly by the thread inside its
critical section), no lost wake-up (`NLW`), enabledness.  Property theorems
are in `Properties/C15.lean`.
-/
import Mqtt.Proofs.RingSafety

set_option linter.unusedSimpArgs false
set_option linter.unusedVariables false

namespace Mqtt.Proofs.Ring
open Mqtt.Model.Ring Mqtt.Iface.Ring Mqtt.Spec.Ring

/-- the program counters at which a thread holds mutex `m` (inside its critical section) -/
def holds : Pc → Mx → Bool
  | .x12, .pL | .x13, .pL => true
  | .s33 _ _, .pL | .s34 _ _, .pL | .s35 _ _, .pL | .s36 _ _, .pL | .s37 _ _, .pL | .s38 _ _ _, .pL => true
  | .r66 _ _ _, .pL | .r67 _ _ _, .pL | .k104 _, .pL | .k105 _, .pL => true
  | .x15, .cL | .x16, .cL | .w44 _, .cL | .w45 _, .cL | .c52 _, .cL | .c53 _, .cL => true
  | .r74 _ _, .cL | .r75 _ _, .cL | .r75r _ _, .cL | .r76 _ _, .cL | .r77 _ _, .cL | .r78 _ _, .cL | .r79 _, .cL => true
  | .p83 _ _ _, .cL | .p84 _ _ _, .cL | .p84r _ _ _, .cL | .p85 _ _ _, .cL | .p86 _ _ _, .cL | .p87 _ _ _, .cL | .p88 _ _ _ _, .cL => true
  | _, _ => false

@[simp] theorem holds_rfExit (th : Th) (n : Nat) (e : Err) (m : Mx) : holds (rfExit th n e).pc m = false :=
  (obs_helpers (fun pc => holds pc m) false (by cases m <;> rfl) (by cases m <;> rfl) (fun _ => by cases m <;> rfl) (fun _ _ => by cases m <;> rfl) { k := 0, src := fun _ => 0 } th).1 n e
@[simp] theorem holds_wfsErr (th : Th) (e : Err) (m : Mx) : holds (wfsErr th e).pc m = false :=
  (obs_helpers (fun pc => holds pc m) false (by cases m <;> rfl) (by cases m <;> rfl) (fun _ => by cases m <;> rfl) (fun _ _ => by cases m <;> rfl) { k := 0, src := fun _ => 0 } th).2.1 e
@[simp] theorem holds_enterWfs (cfg : Cfg) (th : Th) (n : Nat) (m : Mx) : holds (enterWfs cfg th n).pc m = false :=
  (obs_helpers (fun pc => holds pc m) false (by cases m <;> rfl) (by cases m <;> rfl) (fun _ => by cases m <;> rfl) (fun _ _ => by cases m <;> rfl) cfg th).2.2.1 n
@[simp] theorem holds_wcRet (th : Th) (n : Nat) (m : Mx) : holds (wcRet th n).pc m = false :=
  (obs_helpers (fun pc => holds pc m) false (by cases m <;> rfl) (by cases m <;> rfl) (fun _ => by cases m <;> rfl) (fun _ _ => by cases m <;> rfl) { k := 0, src := fun _ => 0 } th).2.2.2.1 n
@[simp] theorem holds_closeRet (th : Th) (m : Mx) : holds (closeRet th).pc m = false :=
  (obs_helpers (fun pc => holds pc m) false (by cases m <;> rfl) (by cases m <;> rfl) (fun _ => by cases m <;> rfl) (fun _ _ => by cases m <;> rfl) { k := 0, src := fun _ => 0 } th).2.2.2.2

@[simp] theorem owner_setOwner (sh : Sh) (m m' : Mx) (o : Option Tid) :
    (sh.setOwner m o).owner m' = if m = m' then o else sh.owner m' := by
  cases m <;> cases m' <;> rfl
@[simp] theorem owner_setNote (sh : Sh) (m m' : Mx) (b : Bool) : (sh.setNote m b).owner m' = sh.owner m' := by
  cases m <;> cases m' <;> rfl
@[simp] theorem crash_setOwner (sh : Sh) (m : Mx) (o : Option Tid) : (sh.setOwner m o).crash = sh.crash := by
  cases m <;> rfl
@[simp] theorem crash_setNote (sh : Sh) (m : Mx) (b : Bool) : (sh.setNote m b).crash = sh.crash := by
  cases m <;> rfl

theorem unlock_held (sh : Sh) (m : Mx) (t : Tid) (h : sh.owner m = some t) : sh.unlock m = sh.setOwner m none := by
  unfold Sh.unlock; rw [h]

theorem holds_wfsOk (cfg : Cfg) (th : Th) (ppos n : Nat) (m : Mx) : holds (wfsOk cfg th ppos n).pc m = false := by
  unfold wfsOk; dsimp only
  repeat' split
  all_goals (cases m <;> rfl)

set_option hygiene false in
/-- rewrite `holds` of the results of the model's helper functions -/
macro "holds_helpers" : tactic =>
  `(tactic| (try simp only [holds_rfExit, holds_wfsErr, holds_enterWfs, holds_wcRet, holds_closeRet] at *))

theorem holds_startCall (cfg : Cfg) (th : Th) (call : Call) (m : Mx) : holds (startCall cfg th call).pc m = false := by
  cases call <;> simp only [startCall]
  all_goals (repeat' split)
  all_goals (first | exact holds_enterWfs _ _ _ _ | (cases m <;> rfl))

/-- effect of one step on the lock state, seen from the stepping thread -/
theorem lock_step (cfg : Cfg) (sh sh' : Sh) (me : Tid) (th th' : Th)
    (hown : ∀ m, holds th.pc m = true ↔ sh.owner m = some me)
    (hs : tstep cfg sh me th = some (sh', th')) :
    (∀ m, holds th'.pc m = true ↔ sh'.owner m = some me) ∧
    (∀ m t, t ≠ me → (sh'.owner m = some t ↔ sh.owner m = some t)) ∧ sh'.crash = false := by
  have hcr := tstep_crash _ _ _ _ _ hs
  obtain ⟨pc, prog, cur, slice, filled, view, pending, res⟩ := th
  simp only at hown
  have hP := hown .pL
  have hC := hown .cL
  clear hown
  cases pc
  case idle =>
    simp only [tstep, Bool.false_eq_true, ↓reduceIte, hcr] at hs
    cases prog with
    | nil => simp at hs
    | cons call rest =>
      simp only [Option.some.injEq, Prod.mk.injEq] at hs
      obtain ⟨rfl, rfl⟩ := hs
      refine ⟨fun m => ?_, fun m t ht => Iff.rfl, hcr⟩
      rw [holds_startCall]
      cases m <;> simp_all [holds]
  case l21 cpos =>
    simp only [tstep, Bool.false_eq_true, ↓reduceIte, hcr] at hs
    repeat' split at hs
    all_goals (
      simp only [Option.some.injEq, Prod.mk.injEq] at hs
      obtain ⟨rfl, rfl⟩ := hs
      refine ⟨fun m => ?_, fun m t ht => Iff.rfl, hcr⟩
      cases m <;> simp_all [holds, Th.goto, Th.ret])
  case r62 n cpos =>
    simp only [tstep, Bool.false_eq_true, ↓reduceIte, hcr] at hs
    repeat' split at hs
    all_goals (
      simp only [Option.some.injEq, Prod.mk.injEq] at hs
      obtain ⟨rfl, rfl⟩ := hs
      refine ⟨fun m => ?_, fun m t ht => Iff.rfl, hcr⟩
      cases m <;> simp_all [holds, Th.goto, Th.ret])
  case w40 n =>
    tstep_norm
    rcases hs with ⟨h1, rfl, rfl⟩ | ⟨h1, rfl, rfl⟩
    all_goals (
      refine ⟨fun m => ?_, fun m t ht => Iff.rfl, hcr⟩
      holds_helpers
      cases m <;> simp_all [holds, Th.ret])
  all_goals tstep_norm
  all_goals tstep_elim
  all_goals (
    refine ⟨?_, ?_, ?_⟩
    · intro m
      holds_helpers
      first
      | (rw [holds_wfsOk]; cases m <;> simp_all [holds, Sh.unlock, Sh.owner, Sh.setOwner])
      | (cases m <;> simp_all [holds, Th.goto, Th.ret, Sh.unlock, Sh.bcast, Sh.park, Sh.owner, Sh.setOwner, Sh.setNote])
    · intro m t ht
      cases m <;> simp_all [holds, Th.goto, Th.ret, Sh.unlock, Sh.bcast, Sh.park, Sh.owner, Sh.setOwner, Sh.setNote] <;>
        (try (exact fun h => ht h.symm))
    · simp_all [holds, Th.goto, Th.ret, Sh.unlock, Sh.bcast, Sh.park, Sh.owner, Sh.setOwner, Sh.setNote])

/-! ### thread table -/

theorem getTh_sh (s : St) (sh : Sh) (t : Tid) : ({ s with sh := sh } : St).getTh t = s.getTh t := by
  cases t <;> rfl

theorem getTh_setTh_same (s : St) (t : Tid) (th th' : Th) (h : s.getTh t = some th) :
    (s.setTh t th').getTh t = some th' := by
  cases t with
  | p => rfl
  | c => rfl
  | k i =>
    simp only [St.getTh, St.setTh] at h ⊢
    rw [List.getElem?_set]
    have : i < s.K.length := by
      rcases Nat.lt_or_ge i s.K.length with hlt | hge
      · exact hlt
      · rw [List.getElem?_eq_none hge] at h; cases h
    simp [this]

theorem getTh_setTh_other (s : St) (t t' : Tid) (th' : Th) (h : t ≠ t') :
    (s.setTh t th').getTh t' = s.getTh t' := by
  cases t with
  | p => cases t' <;> first | rfl | exact absurd rfl h
  | c => cases t' <;> first | rfl | exact absurd rfl h
  | k i =>
    cases t' with
    | p => rfl
    | c => rfl
    | k j =>
      simp only [St.getTh, St.setTh]
      rw [List.getElem?_set]
      have : i ≠ j := fun e => h (by rw [e])
      simp [this]

/-- decomposition of a system step -/
theorem step_some (cfg : Cfg) (s s' : St) (t : Tid) (hs : step cfg s t = some s') :
    ∃ th sh' th', s.getTh t = some th ∧ tstep cfg s.sh t th = some (sh', th') ∧
      s' = ({ s with sh := sh' } : St).setTh t th' := by
  unfold step at hs
  split at hs
  · simp at hs
  · rename_i th hth
    split at hs
    · simp at hs
    · rename_i sh' th' hst
      simp only [Option.some.injEq] at hs
      exact ⟨th, sh', th', hth, hst, hs.symm⟩

/-- lock invariant: a mutex is held exactly by the thread whose program counter is inside that
mutex's critical section -/
structure LInv (s : St) : Prop where
  nocrash : s.sh.crash = false
  own : ∀ t th, s.getTh t = some th → ∀ m, holds th.pc m = true ↔ s.sh.owner m = some t
  real : ∀ m t, s.sh.owner m = some t → ∃ th, s.getTh t = some th

theorem linv_step (cfg : Cfg) (s s' : St) (t : Tid) (h : LInv s) (hs : step cfg s t = some s') : LInv s' := by
  obtain ⟨th, sh', th', hth, hst, rfl⟩ := step_some cfg s s' t hs
  obtain ⟨h1, h2, h3⟩ := lock_step cfg s.sh sh' t th th' (h.own t th hth) hst
  have hsame : (({ s with sh := sh' } : St).setTh t th').getTh t = some th' :=
    getTh_setTh_same _ t th th' (by rw [getTh_sh]; exact hth)
  have hsh : (({ s with sh := sh' } : St).setTh t th').sh = sh' := by cases t <;> rfl
  refine ⟨by rw [hsh]; exact h3, ?_, ?_⟩
  · intro t2 th2 hg m
    rw [hsh]
    by_cases e : t2 = t
    · subst e
      rw [hsame] at hg
      cases hg
      exact h1 m
    · rw [getTh_setTh_other _ t t2 th' (Ne.symm e), getTh_sh] at hg
      rw [h.own t2 th2 hg m]
      exact (h2 m t2 e).symm
  · intro m t2 ho
    rw [hsh] at ho
    by_cases e : t2 = t
    · subst e; exact ⟨th', hsame⟩
    · rw [getTh_setTh_other _ t t2 th' (Ne.symm e), getTh_sh]
      exact h.real m t2 ((h2 m t2 e).mp ho)

theorem linv_init (cfg : Cfg) (adv gate : Nat) (progP progC : List Call) (progsK : List (List Call)) :
    LInv (mkInit cfg adv gate progP progC progsK) := by
  refine ⟨rfl, ?_, ?_⟩
  · intro t th hg m
    have hpc : th.pc = .idle := by
      cases t with
      | p => simp only [St.getTh, mkInit, Option.some.injEq] at hg; subst hg; rfl
      | c => simp only [St.getTh, mkInit, Option.some.injEq] at hg; subst hg; rfl
      | k i =>
        simp only [St.getTh, mkInit, List.getElem?_map] at hg
        cases hpr : progsK[i]? with
        | none => simp [hpr] at hg
        | some pr => simp only [hpr, Option.map_some, Option.some.injEq] at hg; subst hg; rfl
    rw [hpc]
    cases m <;> simp [holds, mkInit, init, Sh.owner]
  · intro m t ho
    cases m <;> simp [mkInit, init, Sh.owner] at ho

theorem linv_run (cfg : Cfg) (s : St) (sched : List Tid) (h : LInv s) : LInv (run cfg s sched) := by
  induction sched generalizing s with
  | nil => exact h
  | cons t ts ih =>
    unfold run
    apply ih
    cases hs : step cfg s t with
    | none => exact h
    | some s' => exact linv_step cfg s s' t h hs

/-! ### no lost wake-up: the consumer waiting for data on ccond -/

/-- the producer has stored `pseq` and not yet broadcast ccond -/
def pendC : Pc → Bool
  | .w43 _ | .w44 _ | .c51 _ | .c52 _ => true
  | _ => false
/-- a closer has stored `done` and not yet broadcast ccond -/
def pendCd : Pc → Bool
  | .x11 | .x12 | .x13 | .x14 | .x15 => true
  | _ => false

@[simp] theorem pendC_rfExit (th : Th) (n : Nat) (e : Err) : pendC (rfExit th n e).pc = false :=
  (obs_helpers (fun pc => pendC pc) false (rfl) (rfl) (fun _ => rfl) (fun _ _ => rfl) { k := 0, src := fun _ => 0 } th).1 n e
@[simp] theorem pendC_wfsErr (th : Th) (e : Err) : pendC (wfsErr th e).pc = false :=
  (obs_helpers (fun pc => pendC pc) false (rfl) (rfl) (fun _ => rfl) (fun _ _ => rfl) { k := 0, src := fun _ => 0 } th).2.1 e
@[simp] theorem pendC_enterWfs (cfg : Cfg) (th : Th) (n : Nat) : pendC (enterWfs cfg th n).pc = false :=
  (obs_helpers (fun pc => pendC pc) false (rfl) (rfl) (fun _ => rfl) (fun _ _ => rfl) cfg th).2.2.1 n
@[simp] theorem pendC_wcRet (th : Th) (n : Nat) : pendC (wcRet th n).pc = false :=
  (obs_helpers (fun pc => pendC pc) false (rfl) (rfl) (fun _ => rfl) (fun _ _ => rfl) { k := 0, src := fun _ => 0 } th).2.2.2.1 n
@[simp] theorem pendC_closeRet (th : Th) : pendC (closeRet th).pc = false :=
  (obs_helpers (fun pc => pendC pc) false (rfl) (rfl) (fun _ => rfl) (fun _ _ => rfl) { k := 0, src := fun _ => 0 } th).2.2.2.2
@[simp] theorem pendCd_rfExit (th : Th) (n : Nat) (e : Err) : pendCd (rfExit th n e).pc = false :=
  (obs_helpers (fun pc => pendCd pc) false (rfl) (rfl) (fun _ => rfl) (fun _ _ => rfl) { k := 0, src := fun _ => 0 } th).1 n e
@[simp] theorem pendCd_wfsErr (th : Th) (e : Err) : pendCd (wfsErr th e).pc = false :=
  (obs_helpers (fun pc => pendCd pc) false (rfl) (rfl) (fun _ => rfl) (fun _ _ => rfl) { k := 0, src := fun _ => 0 } th).2.1 e
@[simp] theorem pendCd_enterWfs (cfg : Cfg) (th : Th) (n : Nat) : pendCd (enterWfs cfg th n).pc = false :=
  (obs_helpers (fun pc => pendCd pc) false (rfl) (rfl) (fun _ => rfl) (fun _ _ => rfl) cfg th).2.2.1 n
@[simp] theorem pendCd_wcRet (th : Th) (n : Nat) : pendCd (wcRet th n).pc = false :=
  (obs_helpers (fun pc => pendCd pc) false (rfl) (rfl) (fun _ => rfl) (fun _ _ => rfl) { k := 0, src := fun _ => 0 } th).2.2.2.1 n
@[simp] theorem pendCd_closeRet (th : Th) : pendCd (closeRet th).pc = false :=
  (obs_helpers (fun pc => pendCd pc) false (rfl) (rfl) (fun _ => rfl) (fun _ _ => rfl) { k := 0, src := fun _ => 0 } th).2.2.2.2

/-- the consumer is inside a wait loop: it has found no data (stage 1), has also found the ring
open (stage 2), or is parked in `ccond.Wait` -/
def cStage : Pc → Nat
  | .r75 _ _ | .p84 _ _ _ => 1
  | .r77 _ _ | .p86 _ _ _ | .r77w _ _ | .p86w _ _ _ => 2
  | _ => 0
def cParked : Pc → Bool
  | .r77w _ _ | .p86w _ _ _ => true
  | _ => false

@[simp] theorem cStage_rfExit (th : Th) (n : Nat) (e : Err) : cStage (rfExit th n e).pc = 0 :=
  (obs_helpers (fun pc => cStage pc) 0 (rfl) (rfl) (fun _ => rfl) (fun _ _ => rfl) { k := 0, src := fun _ => 0 } th).1 n e
@[simp] theorem cStage_wfsErr (th : Th) (e : Err) : cStage (wfsErr th e).pc = 0 :=
  (obs_helpers (fun pc => cStage pc) 0 (rfl) (rfl) (fun _ => rfl) (fun _ _ => rfl) { k := 0, src := fun _ => 0 } th).2.1 e
@[simp] theorem cStage_enterWfs (cfg : Cfg) (th : Th) (n : Nat) : cStage (enterWfs cfg th n).pc = 0 :=
  (obs_helpers (fun pc => cStage pc) 0 (rfl) (rfl) (fun _ => rfl) (fun _ _ => rfl) cfg th).2.2.1 n
@[simp] theorem cStage_wcRet (th : Th) (n : Nat) : cStage (wcRet th n).pc = 0 :=
  (obs_helpers (fun pc => cStage pc) 0 (rfl) (rfl) (fun _ => rfl) (fun _ _ => rfl) { k := 0, src := fun _ => 0 } th).2.2.2.1 n
@[simp] theorem cStage_closeRet (th : Th) : cStage (closeRet th).pc = 0 :=
  (obs_helpers (fun pc => cStage pc) 0 (rfl) (rfl) (fun _ => rfl) (fun _ _ => rfl) { k := 0, src := fun _ => 0 } th).2.2.2.2
@[simp] theorem cParked_rfExit (th : Th) (n : Nat) (e : Err) : cParked (rfExit th n e).pc = false :=
  (obs_helpers (fun pc => cParked pc) false (rfl) (rfl) (fun _ => rfl) (fun _ _ => rfl) { k := 0, src := fun _ => 0 } th).1 n e
@[simp] theorem cParked_wfsErr (th : Th) (e : Err) : cParked (wfsErr th e).pc = false :=
  (obs_helpers (fun pc => cParked pc) false (rfl) (rfl) (fun _ => rfl) (fun _ _ => rfl) { k := 0, src := fun _ => 0 } th).2.1 e
@[simp] theorem cParked_enterWfs (cfg : Cfg) (th : Th) (n : Nat) : cParked (enterWfs cfg th n).pc = false :=
  (obs_helpers (fun pc => cParked pc) false (rfl) (rfl) (fun _ => rfl) (fun _ _ => rfl) cfg th).2.2.1 n
@[simp] theorem cParked_wcRet (th : Th) (n : Nat) : cParked (wcRet th n).pc = false :=
  (obs_helpers (fun pc => cParked pc) false (rfl) (rfl) (fun _ => rfl) (fun _ _ => rfl) { k := 0, src := fun _ => 0 } th).2.2.2.1 n
@[simp] theorem cParked_closeRet (th : Th) : cParked (closeRet th).pc = false :=
  (obs_helpers (fun pc => cParked pc) false (rfl) (rfl) (fun _ => rfl) (fun _ _ => rfl) { k := 0, src := fun _ => 0 } th).2.2.2.2
/-- the wait condition the consumer tested, evaluated on the producer cursor `pseq` -/
def noDataAt (pseq : Nat) : Pc → Prop
  | .r75 _ cpos | .r77 _ cpos | .r77w _ cpos => pseq ≤ cpos
  | .p84 w n cpos | .p86 w n cpos | .p86w w n cpos => mustWait w n cpos pseq = true
  | _ => True

/-- what must hold while the consumer is in a wait loop and not yet woken -/
def cNeed (sh : Sh) (cpc : Pc) (ec ed : Prop) : Prop :=
  0 < cStage cpc → (cParked cpc = true → sh.cNote = false) →
    (noDataAt sh.pseq cpc ∨ ec) ∧ (cStage cpc = 2 → sh.done = false ∨ ed)

theorem cStage_holds (cpc : Pc) (h : 0 < cStage cpc) (hp : cParked cpc = false) : holds cpc .cL = true := by
  cases cpc <;> simp_all [cStage, cParked, holds]

@[simp] theorem pseq_setOwner (sh : Sh) (m : Mx) (o : Option Tid) : (sh.setOwner m o).pseq = sh.pseq := by cases m <;> rfl
@[simp] theorem pseq_setNote (sh : Sh) (m : Mx) (b : Bool) : (sh.setNote m b).pseq = sh.pseq := by cases m <;> rfl
@[simp] theorem pseq_unlock (sh : Sh) (m : Mx) : (sh.unlock m).pseq = sh.pseq := by
  unfold Sh.unlock; split <;> simp
@[simp] theorem cseq_setOwner (sh : Sh) (m : Mx) (o : Option Tid) : (sh.setOwner m o).cseq = sh.cseq := by cases m <;> rfl
@[simp] theorem cseq_setNote (sh : Sh) (m : Mx) (b : Bool) : (sh.setNote m b).cseq = sh.cseq := by cases m <;> rfl
@[simp] theorem cseq_unlock (sh : Sh) (m : Mx) : (sh.unlock m).cseq = sh.cseq := by
  unfold Sh.unlock; split <;> simp
@[simp] theorem done_setOwner (sh : Sh) (m : Mx) (o : Option Tid) : (sh.setOwner m o).done = sh.done := by cases m <;> rfl
@[simp] theorem done_setNote (sh : Sh) (m : Mx) (b : Bool) : (sh.setNote m b).done = sh.done := by cases m <;> rfl
@[simp] theorem done_unlock (sh : Sh) (m : Mx) : (sh.unlock m).done = sh.done := by
  unfold Sh.unlock; split <;> simp
@[simp] theorem note_setOwner (sh : Sh) (m m' : Mx) (o : Option Tid) : (sh.setOwner m o).note m' = sh.note m' := by
  cases m <;> cases m' <;> rfl
@[simp] theorem note_setNote (sh : Sh) (m m' : Mx) (b : Bool) :
    (sh.setNote m b).note m' = if m = m' then b else sh.note m' := by
  cases m <;> cases m' <;> rfl
@[simp] theorem note_unlock (sh : Sh) (m m' : Mx) : (sh.unlock m).note m' = sh.note m' := by
  unfold Sh.unlock; split
  · rfl
  · exact note_setOwner _ _ _ _

/-- what one step of a thread does to the data the wake-up argument is about -/
structure Eff (sh sh' : Sh) (pc pc' : Pc) : Prop where
  pseq : sh'.pseq = sh.pseq ∨ pendC pc' = true
  done : sh'.done = sh.done ∨ (pendCd pc' = true)
  keepC : pendC pc = true → pendC pc' = true ∨ (sh'.note .cL = true ∧ holds pc .cL = true)
  keepCd : pendCd pc = true → pendCd pc' = true ∨ (sh'.note .cL = true ∧ holds pc .cL = true)
  noteC : pcRole pc ≠ .cons → sh'.note .cL = sh.note .cL ∨ sh'.note .cL = true

theorem eff_step (cfg : Cfg) (sh sh' : Sh) (me : Tid) (th th' : Th)
    (hs : tstep cfg sh me th = some (sh', th')) : Eff sh sh' th.pc th'.pc := by
  have hcr := tstep_crash _ _ _ _ _ hs
  obtain ⟨pc, prog, cur, slice, filled, view, pending, res⟩ := th
  cases pc
  case idle =>
    simp only [tstep, Bool.false_eq_true, ↓reduceIte, hcr] at hs
    cases prog with
    | nil => simp at hs
    | cons call rest =>
      simp only [Option.some.injEq, Prod.mk.injEq] at hs
      obtain ⟨rfl, rfl⟩ := hs
      exact ⟨Or.inl rfl, Or.inl rfl, nofun, nofun, fun _ => Or.inl rfl⟩
  case l21 cpos =>
    simp only [tstep, Bool.false_eq_true, ↓reduceIte, hcr] at hs
    repeat' split at hs
    all_goals (
      simp only [Option.some.injEq, Prod.mk.injEq] at hs
      obtain ⟨rfl, rfl⟩ := hs
      exact ⟨Or.inl rfl, Or.inl rfl, nofun, nofun, fun _ => Or.inl rfl⟩)
  case r62 n cpos =>
    simp only [tstep, Bool.false_eq_true, ↓reduceIte, hcr] at hs
    repeat' split at hs
    all_goals (
      simp only [Option.some.injEq, Prod.mk.injEq] at hs
      obtain ⟨rfl, rfl⟩ := hs
      exact ⟨Or.inl rfl, Or.inl rfl, nofun, nofun, fun _ => Or.inl rfl⟩)
  case w40 n =>
    tstep_norm
    rcases hs with ⟨h1, rfl, rfl⟩ | ⟨h1, rfl, rfl⟩
    all_goals exact ⟨Or.inl rfl, Or.inl rfl, nofun, nofun, fun _ => Or.inl rfl⟩
  all_goals tstep_norm
  all_goals tstep_elim
  all_goals (clear hcr)
  all_goals (
    refine ⟨?_, ?_, ?_, ?_, ?_⟩ <;>
    first
    | (simp [pendC, pendCd, holds, pcRole, Th.goto, Th.ret, Sh.bcast, Sh.park]; done)
    | (simp [pendC, pendCd, holds, pcRole, Th.goto, Th.ret, Sh.bcast, Sh.park, Sh.note]; done)
    | (simp only [note_unlock]; simp [Sh.note]; done))

/-- a step of another thread `me ≠ c` keeps the consumer's requirement (the stepping thread may
itself become, stay or stop being the pending broadcaster — it stops only by broadcasting
under ccond.L, which the waiting consumer holds until it is parked) -/
theorem cNeed_other (cfg : Cfg) (sh sh' : Sh) (me : Tid) (th th' : Th) (cpc : Pc) (ec ed : Prop)
    (hme : me ≠ .c) (hrole : pcRole th.pc ≠ .cons)
    (hown : ∀ m, holds th.pc m = true ↔ sh.owner m = some me)
    (hcown : holds cpc .cL = true → sh.owner .cL = some .c)
    (h : cNeed sh cpc (pendC th.pc = true ∨ ec) (pendCd th.pc = true ∨ ed))
    (hs : tstep cfg sh me th = some (sh', th')) :
    cNeed sh' cpc (pendC th'.pc = true ∨ ec) (pendCd th'.pc = true ∨ ed) := by
  obtain ⟨e1, e2, e3, e4, e5⟩ := eff_step cfg sh sh' me th th' hs
  have e5 := e5 hrole
  unfold cNeed at h ⊢
  intro hst hpk
  have hnote : sh'.note .cL = sh'.cNote := rfl
  have hnote0 : sh.note .cL = sh.cNote := rfl
  -- the stepping thread cannot have broadcast unnoticed
  have hnb : ¬ (sh'.note .cL = true ∧ holds th.pc .cL = true) := by
    rintro ⟨hn, hh⟩
    by_cases hp : cParked cpc = true
    · rw [hnote, hpk hp] at hn; cases hn
    · have := hcown (cStage_holds cpc hst (by simpa using hp))
      rw [(hown .cL).mp hh] at this
      exact hme (by cases this; rfl)
  have H := h hst (by
    intro hp
    have hf := hpk hp
    rcases e5 with e | e
    · rw [← hnote0, ← e, hnote]; exact hf
    · rw [hnote, hf] at e; cases e)
  refine ⟨?_, ?_⟩
  · rcases e1 with e | e
    · rw [e]
      rcases H.1 with a | a | a
      · exact Or.inl a
      · rcases e3 a with b | b
        · exact Or.inr (Or.inl b)
        · exact absurd b hnb
      · exact Or.inr (Or.inr a)
    · exact Or.inr (Or.inl e)
  · intro h2
    rcases e2 with e | e
    · rw [e]
      rcases H.2 h2 with a | a | a
      · exact Or.inl a
      · rcases e4 a with b | b
        · exact Or.inr (Or.inl b)
        · exact absurd b hnb
      · exact Or.inr (Or.inr a)
    · exact Or.inr (Or.inl e)

@[simp] theorem cNote_unlock (sh : Sh) (m : Mx) : (sh.unlock m).cNote = sh.cNote := note_unlock sh m .cL
@[simp] theorem cNote_setNote_c (sh : Sh) (b : Bool) : (sh.setNote .cL b).cNote = b := rfl

theorem cStage_startCall (cfg : Cfg) (th : Th) (call : Call) : cStage (startCall cfg th call).pc = 0 := by
  cases call <;> simp only [startCall]
  all_goals (repeat' split)
  all_goals (first | exact cStage_enterWfs _ _ _ | rfl)

theorem cStage_wfsOk (cfg : Cfg) (th : Th) (ppos n : Nat) : cStage (wfsOk cfg th ppos n).pc = 0 := by
  unfold wfsOk; dsimp only
  repeat' split
  all_goals rfl

/-- the consumer's own steps establish and keep its requirement -/
theorem cNeed_own (cfg : Cfg) (sh sh' : Sh) (me : Tid) (th th' : Th) (ec ed : Prop)
    (h : cNeed sh th.pc ec ed) (hs : tstep cfg sh me th = some (sh', th')) :
    cNeed sh' th'.pc ec ed := by
  have hcr := tstep_crash _ _ _ _ _ hs
  obtain ⟨pc, prog, cur, slice, filled, view, pending, res⟩ := th
  simp only at h
  cases pc
  case idle =>
    simp only [tstep, Bool.false_eq_true, ↓reduceIte, hcr] at hs
    cases prog with
    | nil => simp at hs
    | cons call rest =>
      simp only [Option.some.injEq, Prod.mk.injEq] at hs
      obtain ⟨rfl, rfl⟩ := hs
      intro h0; rw [cStage_startCall] at h0; cases h0
  case l21 cpos =>
    simp only [tstep, Bool.false_eq_true, ↓reduceIte, hcr] at hs
    repeat' split at hs
    all_goals (
      simp only [Option.some.injEq, Prod.mk.injEq] at hs
      obtain ⟨rfl, rfl⟩ := hs
      intro h0; simp [cStage, Th.goto, Th.ret] at h0)
  case r62 n cpos =>
    simp only [tstep, Bool.false_eq_true, ↓reduceIte, hcr] at hs
    repeat' split at hs
    all_goals (
      simp only [Option.some.injEq, Prod.mk.injEq] at hs
      obtain ⟨rfl, rfl⟩ := hs
      intro h0; simp [cStage, Th.goto, Th.ret] at h0)
  case w40 n =>
    tstep_norm
    rcases hs with ⟨h1, rfl, rfl⟩ | ⟨h1, rfl, rfl⟩
    all_goals (
      intro h0
      first
      | (rw [cStage_enterWfs] at h0; cases h0)
      | (simp [cStage, Th.ret] at h0))
  all_goals tstep_norm
  all_goals tstep_elim
  all_goals (clear hcr)
  all_goals (first
    | (intro h0; rw [cStage_wfsOk] at h0; cases h0)
    | (intro h0; rw [cStage_wfsErr] at h0; cases h0)
    | (intro h0; rw [cStage_enterWfs] at h0; cases h0)
    | (intro h0; rw [cStage_wcRet] at h0; cases h0)
    | (intro h0; rw [cStage_closeRet] at h0; cases h0)
    | (intro h0; rw [cStage_rfExit] at h0; cases h0)
    | (intro h0; simp [cStage, Th.goto, Th.ret] at h0; done)
    | (unfold cNeed at h ⊢
       simp_all [cStage, cParked, noDataAt, Th.goto, Th.ret, Sh.park, mustWait]))

/-! ### no lost wake-up: the producer waiting for space on pcond -/

/-- the consumer has stored `cseq` and not yet broadcast pcond -/
def pendP : Pc → Bool
  | .r65 _ _ _ | .r66 _ _ _ | .k103 _ | .k104 _ => true
  | _ => false
/-- a closer has stored `done` and not yet broadcast pcond -/
def pendPd : Pc → Bool
  | .x11 | .x12 => true
  | _ => false

@[simp] theorem pendP_rfExit (th : Th) (n : Nat) (e : Err) : pendP (rfExit th n e).pc = false :=
  (obs_helpers (fun pc => pendP pc) false (rfl) (rfl) (fun _ => rfl) (fun _ _ => rfl) { k := 0, src := fun _ => 0 } th).1 n e
@[simp] theorem pendP_wfsErr (th : Th) (e : Err) : pendP (wfsErr th e).pc = false :=
  (obs_helpers (fun pc => pendP pc) false (rfl) (rfl) (fun _ => rfl) (fun _ _ => rfl) { k := 0, src := fun _ => 0 } th).2.1 e
@[simp] theorem pendP_enterWfs (cfg : Cfg) (th : Th) (n : Nat) : pendP (enterWfs cfg th n).pc = false :=
  (obs_helpers (fun pc => pendP pc) false (rfl) (rfl) (fun _ => rfl) (fun _ _ => rfl) cfg th).2.2.1 n
@[simp] theorem pendP_wcRet (th : Th) (n : Nat) : pendP (wcRet th n).pc = false :=
  (obs_helpers (fun pc => pendP pc) false (rfl) (rfl) (fun _ => rfl) (fun _ _ => rfl) { k := 0, src := fun _ => 0 } th).2.2.2.1 n
@[simp] theorem pendP_closeRet (th : Th) : pendP (closeRet th).pc = false :=
  (obs_helpers (fun pc => pendP pc) false (rfl) (rfl) (fun _ => rfl) (fun _ _ => rfl) { k := 0, src := fun _ => 0 } th).2.2.2.2
@[simp] theorem pendPd_rfExit (th : Th) (n : Nat) (e : Err) : pendPd (rfExit th n e).pc = false :=
  (obs_helpers (fun pc => pendPd pc) false (rfl) (rfl) (fun _ => rfl) (fun _ _ => rfl) { k := 0, src := fun _ => 0 } th).1 n e
@[simp] theorem pendPd_wfsErr (th : Th) (e : Err) : pendPd (wfsErr th e).pc = false :=
  (obs_helpers (fun pc => pendPd pc) false (rfl) (rfl) (fun _ => rfl) (fun _ _ => rfl) { k := 0, src := fun _ => 0 } th).2.1 e
@[simp] theorem pendPd_enterWfs (cfg : Cfg) (th : Th) (n : Nat) : pendPd (enterWfs cfg th n).pc = false :=
  (obs_helpers (fun pc => pendPd pc) false (rfl) (rfl) (fun _ => rfl) (fun _ _ => rfl) cfg th).2.2.1 n
@[simp] theorem pendPd_wcRet (th : Th) (n : Nat) : pendPd (wcRet th n).pc = false :=
  (obs_helpers (fun pc => pendPd pc) false (rfl) (rfl) (fun _ => rfl) (fun _ _ => rfl) { k := 0, src := fun _ => 0 } th).2.2.2.1 n
@[simp] theorem pendPd_closeRet (th : Th) : pendPd (closeRet th).pc = false :=
  (obs_helpers (fun pc => pendPd pc) false (rfl) (rfl) (fun _ => rfl) (fun _ _ => rfl) { k := 0, src := fun _ => 0 } th).2.2.2.2

def pStage : Pc → Nat
  | .s34 _ _ => 1
  | .s36 _ _ | .s36w _ _ => 2
  | _ => 0
def pParked : Pc → Bool
  | .s36w _ _ => true
  | _ => false

@[simp] theorem pStage_rfExit (th : Th) (n : Nat) (e : Err) : pStage (rfExit th n e).pc = 0 :=
  (obs_helpers (fun pc => pStage pc) 0 (rfl) (rfl) (fun _ => rfl) (fun _ _ => rfl) { k := 0, src := fun _ => 0 } th).1 n e
@[simp] theorem pStage_wfsErr (th : Th) (e : Err) : pStage (wfsErr th e).pc = 0 :=
  (obs_helpers (fun pc => pStage pc) 0 (rfl) (rfl) (fun _ => rfl) (fun _ _ => rfl) { k := 0, src := fun _ => 0 } th).2.1 e
@[simp] theorem pStage_enterWfs (cfg : Cfg) (th : Th) (n : Nat) : pStage (enterWfs cfg th n).pc = 0 :=
  (obs_helpers (fun pc => pStage pc) 0 (rfl) (rfl) (fun _ => rfl) (fun _ _ => rfl) cfg th).2.2.1 n
@[simp] theorem pStage_wcRet (th : Th) (n : Nat) : pStage (wcRet th n).pc = 0 :=
  (obs_helpers (fun pc => pStage pc) 0 (rfl) (rfl) (fun _ => rfl) (fun _ _ => rfl) { k := 0, src := fun _ => 0 } th).2.2.2.1 n
@[simp] theorem pStage_closeRet (th : Th) : pStage (closeRet th).pc = 0 :=
  (obs_helpers (fun pc => pStage pc) 0 (rfl) (rfl) (fun _ => rfl) (fun _ _ => rfl) { k := 0, src := fun _ => 0 } th).2.2.2.2
@[simp] theorem pParked_rfExit (th : Th) (n : Nat) (e : Err) : pParked (rfExit th n e).pc = false :=
  (obs_helpers (fun pc => pParked pc) false (rfl) (rfl) (fun _ => rfl) (fun _ _ => rfl) { k := 0, src := fun _ => 0 } th).1 n e
@[simp] theorem pParked_wfsErr (th : Th) (e : Err) : pParked (wfsErr th e).pc = false :=
  (obs_helpers (fun pc => pParked pc) false (rfl) (rfl) (fun _ => rfl) (fun _ _ => rfl) { k := 0, src := fun _ => 0 } th).2.1 e
@[simp] theorem pParked_enterWfs (cfg : Cfg) (th : Th) (n : Nat) : pParked (enterWfs cfg th n).pc = false :=
  (obs_helpers (fun pc => pParked pc) false (rfl) (rfl) (fun _ => rfl) (fun _ _ => rfl) cfg th).2.2.1 n
@[simp] theorem pParked_wcRet (th : Th) (n : Nat) : pParked (wcRet th n).pc = false :=
  (obs_helpers (fun pc => pParked pc) false (rfl) (rfl) (fun _ => rfl) (fun _ _ => rfl) { k := 0, src := fun _ => 0 } th).2.2.2.1 n
@[simp] theorem pParked_closeRet (th : Th) : pParked (closeRet th).pc = false :=
  (obs_helpers (fun pc => pParked pc) false (rfl) (rfl) (fun _ => rfl) (fun _ _ => rfl) { k := 0, src := fun _ => 0 } th).2.2.2.2
/-- the wait condition the producer tested, evaluated on the consumer cursor `cseq` -/
def noSpaceAt (size cseq : Nat) : Pc → Prop
  | .s34 n ppos | .s36 n ppos | .s36w n ppos => ppos + n > cseq + size
  | _ => True

def pNeed (cfg : Cfg) (sh : Sh) (ppc : Pc) (ec ed : Prop) : Prop :=
  0 < pStage ppc → (pParked ppc = true → sh.pNote = false) →
    (noSpaceAt cfg.size sh.cseq ppc ∨ ec) ∧ (pStage ppc = 2 → sh.done = false ∨ ed)

theorem pStage_holds (ppc : Pc) (h : 0 < pStage ppc) (hp : pParked ppc = false) : holds ppc .pL = true := by
  cases ppc <;> simp_all [pStage, pParked, holds]

structure EffP (sh sh' : Sh) (pc pc' : Pc) : Prop where
  cseq : sh'.cseq = sh.cseq ∨ pendP pc' = true
  done : sh'.done = sh.done ∨ (pendPd pc' = true)
  keepP : pendP pc = true → pendP pc' = true ∨ (sh'.note .pL = true ∧ holds pc .pL = true)
  keepPd : pendPd pc = true → pendPd pc' = true ∨ (sh'.note .pL = true ∧ holds pc .pL = true)
  noteP : pcRole pc ≠ .prod → sh'.note .pL = sh.note .pL ∨ sh'.note .pL = true

theorem effP_step (cfg : Cfg) (sh sh' : Sh) (me : Tid) (th th' : Th)
    (hs : tstep cfg sh me th = some (sh', th')) : EffP sh sh' th.pc th'.pc := by
  have hcr := tstep_crash _ _ _ _ _ hs
  obtain ⟨pc, prog, cur, slice, filled, view, pending, res⟩ := th
  cases pc
  case idle =>
    simp only [tstep, Bool.false_eq_true, ↓reduceIte, hcr] at hs
    cases prog with
    | nil => simp at hs
    | cons call rest =>
      simp only [Option.some.injEq, Prod.mk.injEq] at hs
      obtain ⟨rfl, rfl⟩ := hs
      exact ⟨Or.inl rfl, Or.inl rfl, nofun, nofun, fun _ => Or.inl rfl⟩
  case l21 cpos =>
    simp only [tstep, Bool.false_eq_true, ↓reduceIte, hcr] at hs
    repeat' split at hs
    all_goals (
      simp only [Option.some.injEq, Prod.mk.injEq] at hs
      obtain ⟨rfl, rfl⟩ := hs
      exact ⟨Or.inl rfl, Or.inl rfl, nofun, nofun, fun _ => Or.inl rfl⟩)
  case r62 n cpos =>
    simp only [tstep, Bool.false_eq_true, ↓reduceIte, hcr] at hs
    repeat' split at hs
    all_goals (
      simp only [Option.some.injEq, Prod.mk.injEq] at hs
      obtain ⟨rfl, rfl⟩ := hs
      exact ⟨Or.inl rfl, Or.inl rfl, nofun, nofun, fun _ => Or.inl rfl⟩)
  case w40 n =>
    tstep_norm
    rcases hs with ⟨h1, rfl, rfl⟩ | ⟨h1, rfl, rfl⟩
    all_goals exact ⟨Or.inl rfl, Or.inl rfl, nofun, nofun, fun _ => Or.inl rfl⟩
  all_goals tstep_norm
  all_goals tstep_elim
  all_goals (clear hcr)
  all_goals (
    refine ⟨?_, ?_, ?_, ?_, ?_⟩ <;>
    first
    | (simp [pendP, pendPd, holds, pcRole, Th.goto, Th.ret, Sh.bcast, Sh.park]; done)
    | (simp [pendP, pendPd, holds, pcRole, Th.goto, Th.ret, Sh.bcast, Sh.park, Sh.note]; done)
    | (simp only [note_unlock]; simp [Sh.note]; done))

theorem pNeed_other (cfg : Cfg) (sh sh' : Sh) (me : Tid) (th th' : Th) (ppc : Pc) (ec ed : Prop)
    (hme : me ≠ .p) (hrole : pcRole th.pc ≠ .prod)
    (hown : ∀ m, holds th.pc m = true ↔ sh.owner m = some me)
    (hpown : holds ppc .pL = true → sh.owner .pL = some .p)
    (h : pNeed cfg sh ppc (pendP th.pc = true ∨ ec) (pendPd th.pc = true ∨ ed))
    (hs : tstep cfg sh me th = some (sh', th')) :
    pNeed cfg sh' ppc (pendP th'.pc = true ∨ ec) (pendPd th'.pc = true ∨ ed) := by
  obtain ⟨e1, e2, e3, e4, e5⟩ := effP_step cfg sh sh' me th th' hs
  have e5 := e5 hrole
  unfold pNeed at h ⊢
  intro hst hpk
  have hnote : sh'.note .pL = sh'.pNote := rfl
  have hnote0 : sh.note .pL = sh.pNote := rfl
  have hnb : ¬ (sh'.note .pL = true ∧ holds th.pc .pL = true) := by
    rintro ⟨hn, hh⟩
    by_cases hp : pParked ppc = true
    · rw [hnote, hpk hp] at hn; cases hn
    · have := hpown (pStage_holds ppc hst (by simpa using hp))
      rw [(hown .pL).mp hh] at this
      exact hme (by cases this; rfl)
  have H := h hst (by
    intro hp
    have hf := hpk hp
    rcases e5 with e | e
    · rw [← hnote0, ← e, hnote]; exact hf
    · rw [hnote, hf] at e; cases e)
  refine ⟨?_, ?_⟩
  · rcases e1 with e | e
    · rw [e]
      rcases H.1 with a | a | a
      · exact Or.inl a
      · rcases e3 a with b | b
        · exact Or.inr (Or.inl b)
        · exact absurd b hnb
      · exact Or.inr (Or.inr a)
    · exact Or.inr (Or.inl e)
  · intro h2
    rcases e2 with e | e
    · rw [e]
      rcases H.2 h2 with a | a | a
      · exact Or.inl a
      · rcases e4 a with b | b
        · exact Or.inr (Or.inl b)
        · exact absurd b hnb
      · exact Or.inr (Or.inr a)
    · exact Or.inr (Or.inl e)

@[simp] theorem pNote_unlock (sh : Sh) (m : Mx) : (sh.unlock m).pNote = sh.pNote := note_unlock sh m .pL
@[simp] theorem pNote_setNote_p (sh : Sh) (b : Bool) : (sh.setNote .pL b).pNote = b := rfl

theorem pStage_startCall (cfg : Cfg) (th : Th) (call : Call) : pStage (startCall cfg th call).pc = 0 := by
  cases call <;> simp only [startCall]
  all_goals (repeat' split)
  all_goals (first | exact pStage_enterWfs _ _ _ | rfl)

theorem pStage_wfsOk (cfg : Cfg) (th : Th) (ppos n : Nat) : pStage (wfsOk cfg th ppos n).pc = 0 := by
  unfold wfsOk; dsimp only
  repeat' split
  all_goals rfl

/-- the producer's own steps establish and keep its requirement -/
theorem pNeed_own (cfg : Cfg) (sh sh' : Sh) (me : Tid) (th th' : Th) (ec ed : Prop)
    (h : pNeed cfg sh th.pc ec ed) (hs : tstep cfg sh me th = some (sh', th')) :
    pNeed cfg sh' th'.pc ec ed := by
  have hcr := tstep_crash _ _ _ _ _ hs
  obtain ⟨pc, prog, cur, slice, filled, view, pending, res⟩ := th
  simp only at h
  cases pc
  case idle =>
    simp only [tstep, Bool.false_eq_true, ↓reduceIte, hcr] at hs
    cases prog with
    | nil => simp at hs
    | cons call rest =>
      simp only [Option.some.injEq, Prod.mk.injEq] at hs
      obtain ⟨rfl, rfl⟩ := hs
      intro h0; rw [pStage_startCall] at h0; cases h0
  case l21 cpos =>
    simp only [tstep, Bool.false_eq_true, ↓reduceIte, hcr] at hs
    repeat' split at hs
    all_goals (
      simp only [Option.some.injEq, Prod.mk.injEq] at hs
      obtain ⟨rfl, rfl⟩ := hs
      intro h0; simp [pStage, Th.goto, Th.ret] at h0)
  case r62 n cpos =>
    simp only [tstep, Bool.false_eq_true, ↓reduceIte, hcr] at hs
    repeat' split at hs
    all_goals (
      simp only [Option.some.injEq, Prod.mk.injEq] at hs
      obtain ⟨rfl, rfl⟩ := hs
      intro h0; simp [pStage, Th.goto, Th.ret] at h0)
  case w40 n =>
    tstep_norm
    rcases hs with ⟨h1, rfl, rfl⟩ | ⟨h1, rfl, rfl⟩
    all_goals (
      intro h0
      first
      | (rw [pStage_enterWfs] at h0; cases h0)
      | (simp [pStage, Th.ret] at h0))
  all_goals tstep_norm
  all_goals tstep_elim
  all_goals (clear hcr)
  all_goals (first
    | (intro h0; rw [pStage_wfsOk] at h0; cases h0)
    | (intro h0; rw [pStage_wfsErr] at h0; cases h0)
    | (intro h0; rw [pStage_enterWfs] at h0; cases h0)
    | (intro h0; rw [pStage_wcRet] at h0; cases h0)
    | (intro h0; rw [pStage_closeRet] at h0; cases h0)
    | (intro h0; rw [pStage_rfExit] at h0; cases h0)
    | (intro h0; simp [pStage, Th.goto, Th.ret] at h0; done)
    | (unfold pNeed at h ⊢
       simp_all [pStage, pParked, noSpaceAt, Th.goto, Th.ret, Sh.park]))


/-! ### no lost wake-up, system level -/

/-- some thread other than `ex` is at a program counter satisfying `f` -/
def exPc (s : St) (ex : Tid) (f : Pc → Bool) : Prop :=
  ∃ t th, t ≠ ex ∧ s.getTh t = some th ∧ f th.pc = true

/-- no lost wake-up, consumer side -/
def NLWC (s : St) : Prop := cNeed s.sh s.C.pc (exPc s .c pendC) (exPc s .c pendCd)
/-- no lost wake-up, producer side -/
def NLWP (cfg : Cfg) (s : St) : Prop := pNeed cfg s.sh s.P.pc (exPc s .p pendP) (exPc s .p pendPd)

theorem cNeed_congr (sh : Sh) (pc : Pc) (ec ec' ed ed' : Prop) (h1 : ec ↔ ec') (h2 : ed ↔ ed') :
    cNeed sh pc ec ed ↔ cNeed sh pc ec' ed' := by
  unfold cNeed; rw [h1, h2]

theorem pNeed_congr (cfg : Cfg) (sh : Sh) (pc : Pc) (ec ec' ed ed' : Prop) (h1 : ec ↔ ec') (h2 : ed ↔ ed') :
    pNeed cfg sh pc ec ed ↔ pNeed cfg sh pc ec' ed' := by
  unfold pNeed; rw [h1, h2]

/-- the other threads, apart from the excluded one and the stepping one -/
def exPc2 (s : St) (ex t : Tid) (f : Pc → Bool) : Prop :=
  ∃ t0 th0, t0 ≠ ex ∧ t0 ≠ t ∧ s.getTh t0 = some th0 ∧ f th0.pc = true

theorem exPc_split (s : St) (ex t : Tid) (th : Th) (f : Pc → Bool) (hne : t ≠ ex) (hth : s.getTh t = some th) :
    exPc s ex f ↔ (f th.pc = true ∨ exPc2 s ex t f) := by
  constructor
  · rintro ⟨t0, th0, h1, h2, h3⟩
    by_cases e : t0 = t
    · subst e; rw [hth] at h2; cases h2; exact Or.inl h3
    · exact Or.inr ⟨t0, th0, h1, e, h2, h3⟩
  · rintro (h | ⟨t0, th0, h1, _, h2, h3⟩)
    · exact ⟨t, th, hne, hth, h⟩
    · exact ⟨t0, th0, h1, h2, h3⟩

theorem exPc2_step (s : St) (sh' : Sh) (ex t : Tid) (th' : Th) (f : Pc → Bool) :
    exPc2 (({ s with sh := sh' } : St).setTh t th') ex t f ↔ exPc2 s ex t f := by
  unfold exPc2
  constructor
  · rintro ⟨t0, th0, h1, h2, h3, h4⟩
    rw [getTh_setTh_other _ t t0 th' (Ne.symm h2), getTh_sh] at h3
    exact ⟨t0, th0, h1, h2, h3, h4⟩
  · rintro ⟨t0, th0, h1, h2, h3, h4⟩
    refine ⟨t0, th0, h1, h2, ?_, h4⟩
    rw [getTh_setTh_other _ t t0 th' (Ne.symm h2), getTh_sh]; exact h3

theorem exPc_self_step (s : St) (sh' : Sh) (ex : Tid) (th' : Th) (f : Pc → Bool) :
    exPc (({ s with sh := sh' } : St).setTh ex th') ex f ↔ exPc s ex f := by
  unfold exPc
  constructor
  · rintro ⟨t0, th0, h1, h2, h3⟩
    rw [getTh_setTh_other _ ex t0 th' (Ne.symm h1), getTh_sh] at h2
    exact ⟨t0, th0, h1, h2, h3⟩
  · rintro ⟨t0, th0, h1, h2, h3⟩
    refine ⟨t0, th0, h1, ?_, h3⟩
    rw [getTh_setTh_other _ ex t0 th' (Ne.symm h1), getTh_sh]; exact h2

theorem role_not_cons (t : Tid) (pc : Pc) (ht : t ≠ .c) (h : roleOK t (pcRole pc) = true) : pcRole pc ≠ .cons := by
  intro e; rw [e] at h; cases t <;> simp [roleOK] at h ht

theorem role_not_prod (t : Tid) (pc : Pc) (ht : t ≠ .p) (h : roleOK t (pcRole pc) = true) : pcRole pc ≠ .prod := by
  intro e; rw [e] at h; cases t <;> simp [roleOK] at h ht

theorem thOK_of_rinv (cfg : Cfg) (base : Nat) (s : St) (h : RInv cfg base s) (t : Tid) (th : Th)
    (hth : s.getTh t = some th) : ThOK t th := by
  cases t with
  | p => simp only [St.getTh, Option.some.injEq] at hth; subst hth; exact h.okP
  | c => simp only [St.getTh, Option.some.injEq] at hth; subst hth; exact h.okC
  | k i => exact h.okK i th hth

theorem nlwc_step (cfg : Cfg) (base : Nat) (s s' : St) (t : Tid) (hr : RInv cfg base s) (hl : LInv s)
    (h : NLWC s) (hs : step cfg s t = some s') : NLWC s' := by
  obtain ⟨th, sh', th', hth, hst, rfl⟩ := step_some cfg s s' t hs
  unfold NLWC at h ⊢
  by_cases e : t = .c
  · subst e
    have hC : s.C = th := by simpa [St.getTh] using hth
    have h' := cNeed_own cfg s.sh sh' .c th th' _ _ (hC ▸ h) hst
    show cNeed sh' th'.pc _ _
    exact (cNeed_congr _ _ _ _ _ _ (exPc_self_step s sh' .c th' pendC) (exPc_self_step s sh' .c th' pendCd)).mpr h'
  · have hok := thOK_of_rinv cfg base s hr t th hth
    have hsh : (({ s with sh := sh' } : St).setTh t th').sh = sh' := by cases t <;> rfl
    have hCsame : (({ s with sh := sh' } : St).setTh t th').C = s.C := by
      cases t with
      | p => rfl
      | c => exact absurd rfl e
      | k i => rfl
    have hsame : (({ s with sh := sh' } : St).setTh t th').getTh t = some th' :=
      getTh_setTh_same _ t th th' (by rw [getTh_sh]; exact hth)
    rw [hsh, hCsame]
    have h0 := (cNeed_congr _ _ _ _ _ _ (exPc_split s .c t th pendC e hth) (exPc_split s .c t th pendCd e hth)).mp h
    have h1 := cNeed_other cfg s.sh sh' t th th' s.C.pc _ _ e (role_not_cons t _ e hok.role)
      (hl.own t th hth) (fun hh => (hl.own .c s.C rfl .cL).mp hh) h0 hst
    refine (cNeed_congr _ _ _ _ _ _ ?_ ?_).mpr h1
    · rw [exPc_split _ .c t th' pendC e hsame, exPc2_step]
    · rw [exPc_split _ .c t th' pendCd e hsame, exPc2_step]

theorem nlwp_step (cfg : Cfg) (base : Nat) (s s' : St) (t : Tid) (hr : RInv cfg base s) (hl : LInv s)
    (h : NLWP cfg s) (hs : step cfg s t = some s') : NLWP cfg s' := by
  obtain ⟨th, sh', th', hth, hst, rfl⟩ := step_some cfg s s' t hs
  unfold NLWP at h ⊢
  by_cases e : t = .p
  · subst e
    have hP : s.P = th := by simpa [St.getTh] using hth
    have h' := pNeed_own cfg s.sh sh' .p th th' _ _ (hP ▸ h) hst
    show pNeed cfg sh' th'.pc _ _
    exact (pNeed_congr _ _ _ _ _ _ _ (exPc_self_step s sh' .p th' pendP) (exPc_self_step s sh' .p th' pendPd)).mpr h'
  · have hok := thOK_of_rinv cfg base s hr t th hth
    have hsh : (({ s with sh := sh' } : St).setTh t th').sh = sh' := by cases t <;> rfl
    have hPsame : (({ s with sh := sh' } : St).setTh t th').P = s.P := by
      cases t with
      | p => exact absurd rfl e
      | c => rfl
      | k i => rfl
    have hsame : (({ s with sh := sh' } : St).setTh t th').getTh t = some th' :=
      getTh_setTh_same _ t th th' (by rw [getTh_sh]; exact hth)
    rw [hsh, hPsame]
    have h0 := (pNeed_congr _ _ _ _ _ _ _ (exPc_split s .p t th pendP e hth) (exPc_split s .p t th pendPd e hth)).mp h
    have h1 := pNeed_other cfg s.sh sh' t th th' s.P.pc _ _ e (role_not_prod t _ e hok.role)
      (hl.own t th hth) (fun hh => (hl.own .p s.P rfl .pL).mp hh) h0 hst
    refine (pNeed_congr _ _ _ _ _ _ _ ?_ ?_).mpr h1
    · rw [exPc_split _ .p t th' pendP e hsame, exPc2_step]
    · rw [exPc_split _ .p t th' pendPd e hsame, exPc2_step]


end Mqtt.Proofs.Ring
