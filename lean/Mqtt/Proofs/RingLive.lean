/-
Core D — liveness invariants of the ring program (layer 2, repaired code):
lock discipline (`LInv`: a mutex is held exactly by the thread inside its
critical section), no lost wake-up (`NLW`), enabledness.  Property theorems
are in `Properties/C15.lean`.
-/
import Mqtt.Proofs.RingSafety

set_option linter.unusedSimpArgs false
set_option linter.unusedVariables false

namespace Mqtt.Proofs.Ring
open Mqtt.Model.Ring Mqtt.Iface.Ring Mqtt.Spec.Ring

/-- the program counters at which a thread holds mutex `m` (inside its critical section) -/
def holds : Pc → Mx → Bool
  | .x12, .pL | .x13, .pL => true
  | .s33 _ _, .pL | .s34 _ _, .pL | .s35 _ _, .pL | .s36 _ _, .pL | .s37 _ _, .pL | .s38 _ _ _, .pL => true
  | .r66 _ _ _, .pL | .r67 _ _ _, .pL | .k104 _, .pL | .k105 _, .pL => true
  | .x15, .cL | .x16, .cL | .w44 _, .cL | .w45 _, .cL | .c52 _, .cL | .c53 _, .cL => true
  | .r74 _ _, .cL | .r75 _ _, .cL | .r76 _ _, .cL | .r77 _ _, .cL | .r78 _ _, .cL | .r79 _, .cL => true
  | .p83 _ _ _, .cL | .p84 _ _ _, .cL | .p85 _ _ _, .cL | .p86 _ _ _, .cL | .p87 _ _ _, .cL | .p88 _ _ _ _, .cL => true
  | _, _ => false

@[simp] theorem owner_setOwner (sh : Sh) (m m' : Mx) (o : Option Tid) :
    (sh.setOwner m o).owner m' = if m = m' then o else sh.owner m' := by
  cases m <;> cases m' <;> rfl
@[simp] theorem owner_setNote (sh : Sh) (m m' : Mx) (b : Bool) : (sh.setNote m b).owner m' = sh.owner m' := by
  cases m <;> cases m' <;> rfl
@[simp] theorem crash_setOwner (sh : Sh) (m : Mx) (o : Option Tid) : (sh.setOwner m o).crash = sh.crash := by
  cases m <;> rfl
@[simp] theorem crash_setNote (sh : Sh) (m : Mx) (b : Bool) : (sh.setNote m b).crash = sh.crash := by
  cases m <;> rfl

theorem unlock_held (sh : Sh) (m : Mx) (t : Tid) (h : sh.owner m = some t) : sh.unlock m = sh.setOwner m none := by
  unfold Sh.unlock; rw [h]

theorem holds_wfsOk (cfg : Cfg) (th : Th) (ppos n : Nat) (m : Mx) : holds (wfsOk cfg th ppos n).pc m = false := by
  unfold wfsOk; dsimp only
  repeat' split
  all_goals (cases m <;> rfl)

theorem holds_startCall (cfg : Cfg) (th : Th) (call : Call) (m : Mx) : holds (startCall cfg th call).pc m = false := by
  cases call <;> simp only [startCall, enterWfs, wfsErr, Th.goto, Th.ret]
  all_goals (repeat' split)
  all_goals (cases m <;> rfl)

/-- effect of one step on the lock state, seen from the stepping thread -/
theorem lock_step (cfg : Cfg) (sh sh' : Sh) (me : Tid) (th th' : Th)
    (hown : ∀ m, holds th.pc m = true ↔ sh.owner m = some me)
    (hs : tstep cfg sh me th = some (sh', th')) :
    (∀ m, holds th'.pc m = true ↔ sh'.owner m = some me) ∧
    (∀ m t, t ≠ me → (sh'.owner m = some t ↔ sh.owner m = some t)) ∧ sh'.crash = false := by
  have hcr := tstep_crash _ _ _ _ _ hs
  obtain ⟨pc, prog, cur, slice, filled, view, pending, res⟩ := th
  simp only at hown
  have hP := hown .pL
  have hC := hown .cL
  clear hown
  cases pc
  case idle =>
    simp only [tstep, Bool.false_eq_true, ↓reduceIte, hcr] at hs
    cases prog with
    | nil => simp at hs
    | cons call rest =>
      simp only [Option.some.injEq, Prod.mk.injEq] at hs
      obtain ⟨rfl, rfl⟩ := hs
      refine ⟨fun m => ?_, fun m t ht => Iff.rfl, hcr⟩
      rw [holds_startCall]
      cases m <;> simp_all [holds]
  case l21 cpos =>
    simp only [tstep, Bool.false_eq_true, ↓reduceIte, hcr] at hs
    repeat' split at hs
    all_goals (
      simp only [Option.some.injEq, Prod.mk.injEq] at hs
      obtain ⟨rfl, rfl⟩ := hs
      refine ⟨fun m => ?_, fun m t ht => Iff.rfl, hcr⟩
      cases m <;> simp_all [holds, Th.goto, Th.ret])
  case r62 n cpos =>
    simp only [tstep, Bool.false_eq_true, ↓reduceIte, hcr] at hs
    repeat' split at hs
    all_goals (
      simp only [Option.some.injEq, Prod.mk.injEq] at hs
      obtain ⟨rfl, rfl⟩ := hs
      refine ⟨fun m => ?_, fun m t ht => Iff.rfl, hcr⟩
      cases m <;> simp_all [holds, Th.goto, Th.ret])
  case w40 n =>
    tstep_norm
    rcases hs with ⟨h1, rfl, rfl⟩ | ⟨h1, rfl, rfl⟩
    all_goals (
      refine ⟨fun m => ?_, fun m t ht => Iff.rfl, hcr⟩
      simp only [enterWfs, wfsErr, Th.goto, Th.ret]
      repeat' split
      all_goals (cases m <;> simp_all [holds]))
  all_goals tstep_norm
  all_goals tstep_elim
  all_goals (
    refine ⟨?_, ?_, ?_⟩
    · intro m
      first
      | (rw [holds_wfsOk]; cases m <;> simp_all [holds, Sh.unlock, Sh.owner, Sh.setOwner])
      | (cases m <;> simp_all [holds, Th.goto, Th.ret, Sh.unlock, Sh.bcast, Sh.park, Sh.owner, Sh.setOwner, Sh.setNote, wfsErr, enterWfs])
    · intro m t ht
      cases m <;> simp_all [holds, Th.goto, Th.ret, Sh.unlock, Sh.bcast, Sh.park, Sh.owner, Sh.setOwner, Sh.setNote, wfsErr, enterWfs] <;>
        (try (exact fun h => ht h.symm))
    · simp_all [holds, Th.goto, Th.ret, Sh.unlock, Sh.bcast, Sh.park, Sh.owner, Sh.setOwner, Sh.setNote, wfsErr, enterWfs])

/-! ### thread table -/

theorem getTh_sh (s : St) (sh : Sh) (t : Tid) : ({ s with sh := sh } : St).getTh t = s.getTh t := by
  cases t <;> rfl

theorem getTh_setTh_same (s : St) (t : Tid) (th th' : Th) (h : s.getTh t = some th) :
    (s.setTh t th').getTh t = some th' := by
  cases t with
  | p => rfl
  | c => rfl
  | k i =>
    simp only [St.getTh, St.setTh] at h ⊢
    rw [List.getElem?_set]
    have : i < s.K.length := by
      rcases Nat.lt_or_ge i s.K.length with hlt | hge
      · exact hlt
      · rw [List.getElem?_eq_none hge] at h; cases h
    simp [this]

theorem getTh_setTh_other (s : St) (t t' : Tid) (th' : Th) (h : t ≠ t') :
    (s.setTh t th').getTh t' = s.getTh t' := by
  cases t with
  | p => cases t' <;> first | rfl | exact absurd rfl h
  | c => cases t' <;> first | rfl | exact absurd rfl h
  | k i =>
    cases t' with
    | p => rfl
    | c => rfl
    | k j =>
      simp only [St.getTh, St.setTh]
      rw [List.getElem?_set]
      have : i ≠ j := fun e => h (by rw [e])
      simp [this]

/-- decomposition of a system step -/
theorem step_some (cfg : Cfg) (s s' : St) (t : Tid) (hs : step cfg s t = some s') :
    ∃ th sh' th', s.getTh t = some th ∧ tstep cfg s.sh t th = some (sh', th') ∧
      s' = ({ s with sh := sh' } : St).setTh t th' := by
  unfold step at hs
  split at hs
  · simp at hs
  · rename_i th hth
    split at hs
    · simp at hs
    · rename_i sh' th' hst
      simp only [Option.some.injEq] at hs
      exact ⟨th, sh', th', hth, hst, hs.symm⟩

/-- lock invariant: a mutex is held exactly by the thread whose program counter is inside that
mutex's critical section -/
structure LInv (s : St) : Prop where
  nocrash : s.sh.crash = false
  own : ∀ t th, s.getTh t = some th → ∀ m, holds th.pc m = true ↔ s.sh.owner m = some t
  real : ∀ m t, s.sh.owner m = some t → ∃ th, s.getTh t = some th

theorem linv_step (cfg : Cfg) (s s' : St) (t : Tid) (h : LInv s) (hs : step cfg s t = some s') : LInv s' := by
  obtain ⟨th, sh', th', hth, hst, rfl⟩ := step_some cfg s s' t hs
  obtain ⟨h1, h2, h3⟩ := lock_step cfg s.sh sh' t th th' (h.own t th hth) hst
  have hsame : (({ s with sh := sh' } : St).setTh t th').getTh t = some th' :=
    getTh_setTh_same _ t th th' (by rw [getTh_sh]; exact hth)
  have hsh : (({ s with sh := sh' } : St).setTh t th').sh = sh' := by cases t <;> rfl
  refine ⟨by rw [hsh]; exact h3, ?_, ?_⟩
  · intro t2 th2 hg m
    rw [hsh]
    by_cases e : t2 = t
    · subst e
      rw [hsame] at hg
      cases hg
      exact h1 m
    · rw [getTh_setTh_other _ t t2 th' (Ne.symm e), getTh_sh] at hg
      rw [h.own t2 th2 hg m]
      exact (h2 m t2 e).symm
  · intro m t2 ho
    rw [hsh] at ho
    by_cases e : t2 = t
    · subst e; exact ⟨th', hsame⟩
    · rw [getTh_setTh_other _ t t2 th' (Ne.symm e), getTh_sh]
      exact h.real m t2 ((h2 m t2 e).mp ho)

theorem linv_init (cfg : Cfg) (adv gate : Nat) (progP progC : List Call) (progsK : List (List Call)) :
    LInv (mkInit cfg adv gate progP progC progsK) := by
  refine ⟨rfl, ?_, ?_⟩
  · intro t th hg m
    have hpc : th.pc = .idle := by
      cases t with
      | p => simp only [St.getTh, mkInit, Option.some.injEq] at hg; subst hg; rfl
      | c => simp only [St.getTh, mkInit, Option.some.injEq] at hg; subst hg; rfl
      | k i =>
        simp only [St.getTh, mkInit, List.getElem?_map] at hg
        cases hpr : progsK[i]? with
        | none => simp [hpr] at hg
        | some pr => simp only [hpr, Option.map_some, Option.some.injEq] at hg; subst hg; rfl
    rw [hpc]
    cases m <;> simp [holds, mkInit, init, Sh.owner]
  · intro m t ho
    cases m <;> simp [mkInit, init, Sh.owner] at ho

theorem linv_run (cfg : Cfg) (s : St) (sched : List Tid) (h : LInv s) : LInv (run cfg s sched) := by
  induction sched generalizing s with
  | nil => exact h
  | cons t ts ih =>
    unfold run
    apply ih
    cases hs : step cfg s t with
    | none => exact h
    | some s' => exact linv_step cfg s s' t h hs

end Mqtt.Proofs.Ring
