/-
Core E, helper lemmas: what the fan-out (and every step other than a SUBSCRIBE)
may write - forwards to connections carry RETAIN = 0.
-/
import Mqtt.Proofs.BrokerFanout
import Mqtt.Proofs.BrokerConnect
set_option linter.unusedSimpArgs false
namespace Mqtt.Proofs.Broker
open Mqtt.Iface.Broker Mqtt.Model.Broker

/-! ### forwards carry RETAIN = 0 (connections; in-process callbacks: `fwdOk0`, `onPublish_out0`) -/

theorem encode_fields (m : Msg) (ctr : Nat) (w : Pub) (m' : Msg) (c' : Nat) (h : m.encode ctr = some (w, m', c')) :
    w.retain = m.p.retain ∧ w.topic = m.p.topic ∧ w.payload = m.p.payload ∧ w.qos = m.p.qos ∧ w.dup = m.p.dup ∧
    m'.p.retain = m.p.retain ∧ m'.p.topic = m.p.topic ∧ m'.p.payload = m.p.payload ∧ m'.p.qos = m.p.qos ∧
    m'.p.dup = m.p.dup := by
  unfold Msg.encode at h
  simp only at h
  split at h
  · cases h; split <;> simp
  · split at h
    · cases h
    · split at h
      · cases h; simp
      · cases h; split <;> simp

/-- the outputs of a fan-out: a PUBLISH with RETAIN = 0 to a connection, or a callback invocation -/
def fwdOk : Out → Bool
  | .send d (.publish w) => !w.retain && decide (d < cbBase)
  | .call cb _ => decide (cbBase ≤ cb)
  | _ => false

theorem deliverConn_out (b : B) (d : Nat) (m : Msg) (hd : d < cbBase) :
    ∀ o ∈ (deliverConn b d m).2.2, fwdOk o = true := by
  unfold deliverConn
  simp only
  split
  · simp
  · split
    · simp
    · rename_i wire m2 ctr he
      have := (encode_fields _ _ _ _ _ he).1
      intro o ho
      simp only [List.mem_singleton] at ho
      subst ho
      simp only [fwdOk, this, hd, decide_true, Bool.and_true]
      split <;> simp_all

theorem deliverConn_state (b : B) (d : Nat) (m : Msg) :
    (deliverConn b d m).1.topics = b.topics ∧ (deliverConn b d m).1.conns = b.conns ∧
    (deliverConn b d m).1.sess = b.sess := by
  unfold deliverConn
  simp only
  split
  · exact ⟨rfl, rfl, rfl⟩
  · split <;> exact ⟨rfl, rfl, rfl⟩

theorem fanout_state (subs : List (Nat × Nat)) : ∀ (b : B) (m : Msg),
    (fanout b m subs).1.topics = b.topics ∧ (fanout b m subs).1.conns = b.conns ∧
    (fanout b m subs).1.sess = b.sess := by
  induction subs with
  | nil => intro b m; exact ⟨rfl, rfl, rfl⟩
  | cons sq rest ih =>
    intro b m
    obtain ⟨s, eqos⟩ := sq
    unfold fanout
    simp only
    split
    · obtain ⟨h1, h2, h3⟩ := deliverConn_state b s (m.setQoS eqos)
      obtain ⟨g1, g2, g3⟩ := ih (deliverConn b s (m.setQoS eqos)).1 (deliverConn b s (m.setQoS eqos)).2.1
      exact ⟨g1.trans h1, g2.trans h2, g3.trans h3⟩
    · exact ih b (m.setQoS eqos)

theorem fanout_out (subs : List (Nat × Nat)) : ∀ (b : B) (m : Msg),
    ∀ o ∈ (fanout b m subs).2.2, fwdOk o = true := by
  induction subs with
  | nil => intro b m o ho; simp [fanout] at ho
  | cons sq rest ih =>
    intro b m o ho
    obtain ⟨s, eqos⟩ := sq
    unfold fanout at ho
    simp only at ho
    split at ho
    · rename_i hs
      simp only [List.mem_append] at ho
      rcases ho with ho | ho
      · exact deliverConn_out b s _ hs o ho
      · exact ih _ _ o ho
    · rename_i hs
      simp only [List.mem_append, List.mem_singleton] at ho
      rcases ho with ho | ho
      · subst ho; simp only [fwdOk]; simpa using hs
      · exact ih _ _ o ho

/-- the outputs of a fan-out over a message object whose RETAIN flag is clear: a
PUBLISH with RETAIN = 0 to a connection, or an invocation of an in-process
callback with RETAIN = 0 -/
def fwdOk0 : Out → Bool
  | .send d (.publish w) => !w.retain && decide (d < cbBase)
  | .call cb w => !w.retain && decide (cbBase ≤ cb)
  | _ => false

theorem fwdOk_of_fwdOk0 (o : Out) (h : fwdOk0 o = true) : fwdOk o = true := by
  unfold fwdOk0 at h
  unfold fwdOk
  split at h <;> simp_all

theorem setQoS_retain (m : Msg) (q : Nat) : (m.setQoS q).p.retain = m.p.retain := rfl

/-- the closure leaves a cleared flag cleared (its own clear/restore is idle then) -/
theorem deliverConn_retain (b : B) (d : Nat) (m : Msg) (hr : m.p.retain = false) :
    (deliverConn b d m).2.1.p.retain = false := by
  unfold deliverConn
  simp only [hr, Bool.false_eq_true, ↓reduceIte]
  split
  · exact hr
  · split
    · exact hr
    · rename_i wire m2 ctr he
      exact (encode_fields _ _ _ _ _ he).2.2.2.2.2.1.trans hr

theorem deliverConn_out0 (b : B) (d : Nat) (m : Msg) (hd : d < cbBase) :
    ∀ o ∈ (deliverConn b d m).2.2, fwdOk0 o = true := by
  unfold deliverConn
  simp only
  split
  · simp
  · split
    · simp
    · rename_i wire m2 ctr he
      have := (encode_fields _ _ _ _ _ he).1
      intro o ho
      simp only [List.mem_singleton] at ho
      subst ho
      simp only [fwdOk0, this, hd, decide_true, Bool.and_true]
      split <;> simp_all

/-- the loop over a message object whose RETAIN flag is clear: every subscriber -
connection or in-process callback - is handed RETAIN = 0, and the flag is still
clear afterwards -/
theorem fanout_out0 (subs : List (Nat × Nat)) : ∀ (b : B) (m : Msg), m.p.retain = false →
    (∀ o ∈ (fanout b m subs).2.2, fwdOk0 o = true) ∧ (fanout b m subs).2.1.p.retain = false := by
  induction subs with
  | nil => intro b m hr; exact ⟨by intro o ho; simp [fanout] at ho, hr⟩
  | cons sq rest ih =>
    intro b m hr
    obtain ⟨s, eqos⟩ := sq
    have hr1 : (m.setQoS eqos).p.retain = false := hr
    unfold fanout
    simp only
    split
    · rename_i hs
      obtain ⟨g1, g2⟩ := ih (deliverConn b s (m.setQoS eqos)).1 (deliverConn b s (m.setQoS eqos)).2.1
        (deliverConn_retain b s _ hr1)
      refine ⟨?_, g2⟩
      intro o ho
      simp only [List.mem_append] at ho
      rcases ho with ho | ho
      · exact deliverConn_out0 b s (m.setQoS eqos) hs o ho
      · exact g1 o ho
    · rename_i hs
      obtain ⟨g1, g2⟩ := ih b (m.setQoS eqos) hr1
      refine ⟨?_, g2⟩
      intro o ho
      simp only [List.mem_append, List.mem_singleton] at ho
      rcases ho with ho | ho
      · subst ho
        simp only [fwdOk0, hr1, Bool.not_false, Bool.true_and]
        simpa using hs
      · exact g1 o ho

/-- the message object the live fan-out runs the loop over: RETAIN cleared -/
theorem loopMsg_retain (m : Msg) :
    (if m.p.retain then m.setRetain false else m).p.retain = false := by
  cases h : m.p.retain with
  | false => simp [h]
  | true => simp [Msg.setRetain]

theorem fanoutLive_fst (b : B) (m : Msg) (subs : List (Nat × Nat)) :
    (fanoutLive b m subs).1 = (fanout b (if m.p.retain then m.setRetain false else m) subs).1 := rfl

theorem fanoutLive_outs (b : B) (m : Msg) (subs : List (Nat × Nat)) :
    (fanoutLive b m subs).2.2 = (fanout b (if m.p.retain then m.setRetain false else m) subs).2.2 := rfl

theorem fanoutLive_state (subs : List (Nat × Nat)) (b : B) (m : Msg) :
    (fanoutLive b m subs).1.topics = b.topics ∧ (fanoutLive b m subs).1.conns = b.conns ∧
    (fanoutLive b m subs).1.sess = b.sess :=
  fanout_state subs b _

/-- every output of the live fan-out - to a connection or to an in-process
callback - carries RETAIN = 0; the object has its flag back afterwards -/
theorem fanoutLive_out0 (subs : List (Nat × Nat)) (b : B) (m : Msg) :
    (∀ o ∈ (fanoutLive b m subs).2.2, fwdOk0 o = true) ∧ (fanoutLive b m subs).2.1.p.retain = m.p.retain := by
  obtain ⟨h1, h2⟩ := fanout_out0 subs b _ (loopMsg_retain m)
  refine ⟨h1, ?_⟩
  show (if m.p.retain then (fanout b (if m.p.retain then m.setRetain false else m) subs).2.1.setRetain true
        else (fanout b (if m.p.retain then m.setRetain false else m) subs).2.1).p.retain = m.p.retain
  cases hr : m.p.retain with
  | true => simp [Msg.setRetain]
  | false => rw [hr] at h2; simpa using h2

/-- every output of `onPublish` - to a connection or to an in-process callback -
carries RETAIN = 0 -/
theorem onPublish_out0 (b : B) (m : Msg) : ∀ o ∈ (onPublish b m).2.2.1, fwdOk0 o = true := by
  unfold onPublish
  simp only
  split
  · simp
  · exact (fanoutLive_out0 _ _ _).1

theorem onPublish_out (b : B) (m : Msg) : ∀ o ∈ (onPublish b m).2.2.1, fwdOk o = true :=
  fun o ho => fwdOk_of_fwdOk0 o (onPublish_out0 b m o ho)

/-- no PUBLISH with RETAIN = 1 written to a connection -/
def noRetainSend : Out → Bool
  | .send _ (.publish w) => !w.retain
  | _ => true

theorem noRetainSend_of_fwdOk (o : Out) (h : fwdOk o = true) : noRetainSend o = true := by
  unfold fwdOk at h
  unfold noRetainSend
  split at h <;> simp_all

theorem send_noRetain (b : B) (c : Nat) (p : Packet) (hp : ∀ w, p ≠ .publish w) :
    ∀ o ∈ send b c p, noRetainSend o = true := by
  intro o ho
  unfold send at ho
  split at ho
  · simp only [List.mem_singleton] at ho
    subst ho
    unfold noRetainSend
    split
    · rename_i heq; cases heq; exact absurd rfl (hp _)
    · rfl
  · cases ho

theorem releaseAll_out (l : List QEntry) : ∀ b : B, ∀ o ∈ (releaseAll b l).2, noRetainSend o = true := by
  induction l with
  | nil => intro b o ho; simp [releaseAll] at ho
  | cons e rest ih =>
    intro b o ho
    unfold releaseAll at ho
    simp only [List.mem_append] at ho
    rcases ho with ho | ho
    · exact noRetainSend_of_fwdOk o (onPublish_out _ _ o ho)
    · exact ih _ o ho

theorem stop_out (b : B) (c : Nat) : ∀ o ∈ (stop b c).2, noRetainSend o = true := by
  unfold stop
  split
  · simp
  · split
    · simp
    · simp only
      split
      · simp [noRetainSend]
      · split
        · split
          · simp [noRetainSend]
          · intro o ho
            simp only [List.mem_cons] at ho
            rcases ho with rfl | ho
            · rfl
            · exact noRetainSend_of_fwdOk o (onPublish_out _ _ o ho)
        · simp [noRetainSend]

theorem packet_out (b : B) (c : Nat) (p : Packet) (hp : ∀ id ts, p ≠ .subscribe id ts) :
    ∀ o ∈ (packet b c p).2, noRetainSend o = true := by
  unfold packet
  split
  · simp
  · split
    · simp
    · split
      · simp
      · rename_i cn _ s hs
        cases p with
        | publish pub =>
          simp only
          split
          · exact send_noRetain _ _ _ (by intro w h; cases h)
          · split
            · intro o ho
              simp only [List.mem_append] at ho
              rcases ho with ho | ho
              · exact send_noRetain _ _ _ (by intro w h; cases h) o ho
              · exact noRetainSend_of_fwdOk o (onPublish_out _ _ o ho)
            · intro o ho
              exact noRetainSend_of_fwdOk o (onPublish_out _ _ o ho)
        | pubrel id =>
          simp only
          intro o ho
          simp only [List.mem_append] at ho
          rcases ho with ho | ho
          · exact releaseAll_out _ _ o ho
          · exact send_noRetain _ _ _ (by intro w h; cases h) o ho
        | subscribe id ts => exact absurd rfl (hp id ts)
        | unsubscribe id ts => exact send_noRetain _ _ _ (by intro w h; cases h)
        | pubrec id => exact send_noRetain _ _ _ (by intro w h; cases h)
        | pingreq => exact send_noRetain _ _ _ (by intro w h; cases h)
        | disconnect => exact stop_out _ _
        | puback _ => simp
        | pubcomp _ => simp
        | pingresp => simp
        | suback _ _ => simp
        | unsuback _ => simp
        | connack _ _ => simp
        | connectAgain => simp

theorem first_out (b : B) (c : Nat) (f : First) (a : Bool) : ∀ o ∈ (first b c f a).2, noRetainSend o = true := by
  unfold first
  split
  · simp [noRetainSend]
  · simp [noRetainSend]
  · split
    · simp [noRetainSend]
    · simp [noRetainSend]
    · split
      · simp [noRetainSend]
      · simp [noRetainSend]

theorem srvPub_out (b : B) (p : Pub) : ∀ o ∈ (srvPub b p).2, noRetainSend o = true := by
  unfold srvPub
  simp only
  intro o ho
  split at ho
  · exact noRetainSend_of_fwdOk o (onPublish_out _ _ o ho)
  · simp only [List.mem_append, List.mem_singleton] at ho
    rcases ho with ho | rfl
    · exact noRetainSend_of_fwdOk o (onPublish_out _ _ o ho)
    · rfl

theorem srvSub_out (b : B) (cb : Nat) (f : Bytes) (q : Nat) : ∀ o ∈ (srvSub b cb f q).2, noRetainSend o = true := by
  unfold srvSub
  split
  · simp [noRetainSend]
  · simp only [List.mem_map]
    rintro o ⟨p, _, rfl⟩
    rfl

theorem srvUnsub_out (b : B) (cb : Nat) (f : Bytes) : ∀ o ∈ (srvUnsub b cb f).2, noRetainSend o = true := by
  unfold srvUnsub
  simp only
  split <;> simp [noRetainSend]

/-- a SUBSCRIBE packet (whose retained delivery legitimately carries RETAIN = 1) -/
def isSubscribeEv : Ev → Bool
  | .packet _ (.subscribe _ _) => true
  | _ => false

theorem step_out (b : B) (e : Ev) (he : isSubscribeEv e = false) : ∀ o ∈ (step b e).2, noRetainSend o = true := by
  cases e with
  | first c f a =>
    exact Mqtt.Proofs.Connect.connect_out (fun o => noRetainSend o = true) stop_out first_out b c f a
  | packet c p =>
    apply packet_out
    intro id ts h
    subst h
    simp [isSubscribeEv] at he
  | close c => exact stop_out b c
  | srvPub p => exact srvPub_out b p
  | srvSub cb f q => exact srvSub_out b cb f q
  | srvUnsub cb f => exact srvUnsub_out b cb f

/-! ### in-process callbacks: no live forward with RETAIN = 1 either -/

/-- no in-process callback invoked with RETAIN = 1 -/
def noRetainCall : Out → Bool
  | .call _ w => !w.retain
  | _ => true

theorem noRetainCall_of_fwdOk0 (o : Out) (h : fwdOk0 o = true) : noRetainCall o = true := by
  unfold fwdOk0 at h
  unfold noRetainCall
  split at h <;> simp_all

theorem send_noCall (b : B) (c : Nat) (p : Packet) : ∀ o ∈ send b c p, noRetainCall o = true := by
  intro o ho
  unfold send at ho
  split at ho
  · simp only [List.mem_singleton] at ho
    subst ho
    rfl
  · cases ho

theorem releaseAll_noCall (l : List QEntry) : ∀ b : B, ∀ o ∈ (releaseAll b l).2, noRetainCall o = true := by
  induction l with
  | nil => intro b o ho; simp [releaseAll] at ho
  | cons e rest ih =>
    intro b o ho
    unfold releaseAll at ho
    simp only [List.mem_append] at ho
    rcases ho with ho | ho
    · exact noRetainCall_of_fwdOk0 o (onPublish_out0 _ _ o ho)
    · exact ih _ o ho

theorem stop_noCall (b : B) (c : Nat) : ∀ o ∈ (stop b c).2, noRetainCall o = true := by
  unfold stop
  split
  · simp
  · split
    · simp
    · simp only
      split
      · simp [noRetainCall]
      · split
        · split
          · simp [noRetainCall]
          · intro o ho
            simp only [List.mem_cons] at ho
            rcases ho with rfl | ho
            · rfl
            · exact noRetainCall_of_fwdOk0 o (onPublish_out0 _ _ o ho)
        · simp [noRetainCall]

theorem noCall_of_isPublishTo (c : Nat) (o : Out) (h : isPublishTo c o = true) : noRetainCall o = true := by
  unfold isPublishTo at h
  unfold noRetainCall
  split at h <;> simp_all

theorem packet_noCall (b : B) (c : Nat) (p : Packet) : ∀ o ∈ (packet b c p).2, noRetainCall o = true := by
  unfold packet
  split
  · simp
  · split
    · simp
    · split
      · simp
      · rename_i cn _ s hs
        cases p with
        | publish pub =>
          simp only
          split
          · exact send_noCall _ _ _
          · split
            · intro o ho
              simp only [List.mem_append] at ho
              rcases ho with ho | ho
              · exact send_noCall _ _ _ o ho
              · exact noRetainCall_of_fwdOk0 o (onPublish_out0 _ _ o ho)
            · intro o ho
              exact noRetainCall_of_fwdOk0 o (onPublish_out0 _ _ o ho)
        | pubrel id =>
          simp only
          intro o ho
          simp only [List.mem_append] at ho
          rcases ho with ho | ho
          · exact releaseAll_noCall _ _ o ho
          · exact send_noCall _ _ _ o ho
        | subscribe id ts =>
          simp only
          intro o ho
          simp only [List.mem_append] at ho
          rcases ho with ho | ho
          · exact send_noCall _ _ _ o ho
          · exact noCall_of_isPublishTo c o ((sendRetained_shape c _ _).2.2.2 o ho)
        | unsubscribe id ts => exact send_noCall _ _ _
        | pubrec id => exact send_noCall _ _ _
        | pingreq => exact send_noCall _ _ _
        | disconnect => exact stop_noCall _ _
        | puback _ => simp
        | pubcomp _ => simp
        | pingresp => simp
        | suback _ _ => simp
        | unsuback _ => simp
        | connack _ _ => simp
        | connectAgain => simp

theorem first_noCall (b : B) (c : Nat) (f : First) (a : Bool) : ∀ o ∈ (first b c f a).2, noRetainCall o = true := by
  unfold first
  split
  · simp [noRetainCall]
  · simp [noRetainCall]
  · split
    · simp [noRetainCall]
    · simp [noRetainCall]
    · split
      · simp [noRetainCall]
      · simp [noRetainCall]

theorem srvPub_noCall (b : B) (p : Pub) : ∀ o ∈ (srvPub b p).2, noRetainCall o = true := by
  unfold srvPub
  simp only
  intro o ho
  split at ho
  · exact noRetainCall_of_fwdOk0 o (onPublish_out0 _ _ o ho)
  · simp only [List.mem_append, List.mem_singleton] at ho
    rcases ho with ho | rfl
    · exact noRetainCall_of_fwdOk0 o (onPublish_out0 _ _ o ho)
    · rfl

theorem srvUnsub_noCall (b : B) (cb : Nat) (f : Bytes) : ∀ o ∈ (srvUnsub b cb f).2, noRetainCall o = true := by
  unfold srvUnsub
  simp only
  split <;> simp [noRetainCall]

/-- the in-process `Subscribe` (whose retained delivery legitimately carries RETAIN = 1) -/
def isSrvSubEv : Ev → Bool
  | .srvSub _ _ _ => true
  | _ => false

/-- whatever the event, other than the in-process `Subscribe` itself: no in-process
callback is invoked with RETAIN = 1 -/
theorem step_noCall (b : B) (e : Ev) (he : isSrvSubEv e = false) : ∀ o ∈ (step b e).2, noRetainCall o = true := by
  cases e with
  | first c f a =>
    exact Mqtt.Proofs.Connect.connect_out (fun o => noRetainCall o = true) stop_noCall first_noCall b c f a
  | packet c p => exact packet_noCall b c p
  | close c => exact stop_noCall b c
  | srvPub p => exact srvPub_noCall b p
  | srvSub cb f q => simp [isSrvSubEv] at he
  | srvUnsub cb f => exact srvUnsub_noCall b cb f
end Mqtt.Proofs.Broker
