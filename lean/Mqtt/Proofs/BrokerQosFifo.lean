/-
Bridge from the broker model's inbound QoS 2 list (`q2Wait`/`q2Ack`/`q2Acked`,
`Model/Broker.lean`) to the FIFO specification of an ack queue (`Spec/Fifo.lean`)
that `Properties/C13` proves the ring-based `Ackqueue` refines.

The broker uses `Pub2in` in one way only: `Wait` with a QoS 2 PUBLISH (no
completion callback), `Ack` with a PUBREL, `Acked`.  Under the projection
`proj` of a list entry to a FIFO entry these are `Fifo.register`, `Fifo.ackId`
and `Fifo.collect`.
-/
import Mqtt.Proofs.BrokerQosInv
import Mqtt.Spec.Fifo

namespace Mqtt.Proofs.BrokerQos
open Mqtt.Iface.Broker Mqtt.Model.Broker Mqtt.Iface.AckQ
open Mqtt.Generated (tPUBREL)
open Mqtt.Spec

/-- The FIFO entry a list entry stands for.  `enc` is the encoder the real queue
stores the PUBLISH with, `ackb` the bytes of a PUBREL with a given identifier;
the tag is 0 (`Wait(msg, nil)`). -/
def proj (enc : Pub → List UInt8) (ackb : Nat → List UInt8) (e : QEntry) : Fifo.Entry :=
  ⟨Fifo.PUBLISH, e.state, e.id, enc e.msg, if e.state == Fifo.PUBREL then ackb e.id else [], 0⟩

/-- the three uses of `Pub2in` -/
inductive QOp where
  | wait (p : Pub)        -- `Pub2in.Wait(msg, nil)`, msg a QoS 2 PUBLISH
  | ack (id : Nat)        -- `Pub2in.Ack(pubrel)`
  | acked                 -- `Pub2in.Acked()`
deriving Repr

/-- the same call on the ack-queue interface of Core C -/
def toOp (enc : Pub → List UInt8) (ackb : Nat → List UInt8) : QOp → Op
  | .wait p => .wait (.publish 2 p.pktid (some (enc p))) 0
  | .ack id => .ack Fifo.PUBREL id (ackb id)
  | .acked => .acked

/-- list semantics: new queue and released entries -/
def qstep (q : List QEntry) : QOp → List QEntry × List QEntry
  | .wait p => (q2Wait q p, [])
  | .ack id => (q2Ack q id, [])
  | .acked => q2Acked q

def qrun (q : List QEntry) : List QOp → List QEntry × List (List QEntry)
  | [] => (q, [])
  | op :: ops =>
    let (q1, r) := qstep q op
    let (q2, rs) := qrun q1 ops
    (q2, r :: rs)

/-- what the FIFO specification answers -/
def qout (enc : Pub → List UInt8) (ackb : Nat → List UInt8) (rel : List QEntry) : QOp → Fifo.SOut
  | .acked => .released (rel.map (proj enc ackb))
  | _ => .ok true

/-- entry states are "waiting" or "PUBREL seen" -/
def States (q : List QEntry) : Prop := ∀ e ∈ q, e.state = 0 ∨ e.state = tPUBREL

theorem states_qstep {q : List QEntry} (h : States q) (op : QOp) : States (qstep q op).1 := by
  cases op with
  | wait p =>
    simp only [qstep, q2Wait]
    split
    · exact h
    · intro e he
      rcases List.mem_append.mp he with h1 | h1
      · exact h e h1
      · simp only [List.mem_singleton] at h1; subst h1; exact .inl rfl
  | ack id =>
    intro e he
    simp only [qstep, q2Ack] at he
    obtain ⟨x, hx, hxe⟩ := List.mem_map.mp he
    split at hxe
    · subst hxe; exact .inr rfl
    · subst hxe; exact h x hx
  | acked =>
    intro e he
    have : e ∈ q := by
      rw [← q2Acked_append q]; exact List.mem_append_right _ he
    exact h e this

section sim
variable (enc : Pub → List UInt8) (ackb : Nat → List UInt8)

theorem any_proj (q : List QEntry) (id : Nat) :
    ((q.map (proj enc ackb)).any fun x => x.id == id) = q.any fun e => e.id == id := by
  rw [List.any_map]; rfl

/-- `q2Wait` is `Fifo.register` -/
theorem sim_register (q : List QEntry) (pg : List Fifo.Entry) (p : Pub) :
    Fifo.register ⟨q.map (proj enc ackb), pg⟩ ⟨Fifo.PUBLISH, 0, p.pktid, enc p, [], 0⟩ =
      ⟨(q2Wait q p).map (proj enc ackb), pg⟩ := by
  unfold Fifo.register q2Wait
  simp only [any_proj]
  split
  · rfl
  · simp [proj, Fifo.PUBREL]

/-- `q2Ack` is `Fifo.ackId` with a PUBREL -/
theorem sim_ackId (q : List QEntry) (pg : List Fifo.Entry) (id : Nat) :
    Fifo.ackId ⟨q.map (proj enc ackb), pg⟩ Fifo.PUBREL id (ackb id) =
      ⟨(q2Ack q id).map (proj enc ackb), pg⟩ := by
  unfold Fifo.ackId q2Ack
  simp only [List.map_map, Fifo.S.mk.injEq, and_true]
  apply List.map_congr_left
  intro e _
  simp only [Function.comp_apply, proj]
  by_cases h : (e.id == id) = true
  · have : e.id = id := by simpa using h
    simp [this, tPUBREL, Fifo.PUBREL]
  · simp [h]

theorem terminal_state {e : QEntry} (h : e.state = 0 ∨ e.state = tPUBREL) :
    Fifo.terminal e.state = (e.state == tPUBREL) := by
  rcases h with h | h <;> rw [h] <;> decide

/-- `q2Acked` is `Fifo.collect` -/
theorem sim_collect (q : List QEntry) (hq : States q) (pg : List Fifo.Entry) :
    Fifo.collect ⟨q.map (proj enc ackb), pg⟩ =
      (⟨(q2Acked q).1.map (proj enc ackb), pg⟩, (q2Acked q).2.map (proj enc ackb)) := by
  unfold Fifo.collect q2Acked
  simp only
  have hd : ∀ l : List QEntry, States l →
      (l.map (proj enc ackb)).dropWhile (fun e => Fifo.terminal e.state) =
        (l.dropWhile fun e => e.state == tPUBREL).map (proj enc ackb) ∧
      (l.map (proj enc ackb)).takeWhile (fun e => Fifo.terminal e.state) =
        (l.takeWhile fun e => e.state == tPUBREL).map (proj enc ackb) := by
    intro l
    induction l with
    | nil => intro _; exact ⟨rfl, rfl⟩
    | cons x xs ih =>
      intro hl
      have hx := terminal_state (hl x (List.mem_cons_self))
      have ih' := ih (fun e he => hl e (List.mem_cons_of_mem _ he))
      have hpx : Fifo.terminal (proj enc ackb x).state = (x.state == tPUBREL) := hx
      simp only [List.map_cons, List.dropWhile_cons, List.takeWhile_cons, hpx]
      by_cases hs : (x.state == tPUBREL) = true
      · simp only [hs, ↓reduceIte, List.map_cons, ih'.1, ih'.2, and_self]
      · simp only [hs, Bool.false_eq_true, ↓reduceIte, List.map_cons, List.map_nil, and_self]
  rw [(hd q hq).1, (hd q hq).2]

/-- One call: the FIFO specification's step on the projected queue is the list
operation, output included. -/
theorem sim_step (q : List QEntry) (hq : States q) (op : QOp) :
    Fifo.step ⟨q.map (proj enc ackb), []⟩ (toOp enc ackb op) =
      (⟨(qstep q op).1.map (proj enc ackb), []⟩, qout enc ackb (qstep q op).2 op) := by
  cases op with
  | wait p =>
    simp only [toOp, Fifo.step, Fifo.regOpt, qstep, qout]
    rw [sim_register]
    rfl
  | ack id =>
    have h6 : Fifo.isIdAck Fifo.PUBREL = true := by decide
    simp only [toOp, Fifo.step, h6, ↓reduceIte, qstep, qout]
    rw [sim_ackId]
  | acked =>
    simp only [toOp, Fifo.step, qstep, qout, Fifo.collectPings, List.dropWhile_nil, List.takeWhile_nil,
      List.nil_append]
    rw [sim_collect enc ackb q hq]

/-- Any history of calls: the FIFO specification run on the projected queue ends
in the projection of the list run's queue and answers the projected releases. -/
theorem sim_run (q : List QEntry) (hq : States q) (ops : List QOp) :
    (Fifo.run ⟨q.map (proj enc ackb), []⟩ (ops.map (toOp enc ackb))).1 =
      ⟨(qrun q ops).1.map (proj enc ackb), []⟩ ∧
    (Fifo.run ⟨q.map (proj enc ackb), []⟩ (ops.map (toOp enc ackb))).2 =
      (List.zip (qrun q ops).2 ops).map (fun x => qout enc ackb x.1 x.2) ∧
    States (qrun q ops).1 := by
  induction ops generalizing q with
  | nil => exact ⟨rfl, rfl, hq⟩
  | cons op ops ih =>
    have h1 := sim_step enc ackb q hq op
    obtain ⟨i1, i2, i3⟩ := ih (qstep q op).1 (states_qstep hq op)
    simp only [List.map_cons, Fifo.run, qrun, h1]
    refine ⟨i1, ?_, i3⟩
    simp only [List.zip_cons_cons, List.map_cons, i2]

end sim

end Mqtt.Proofs.BrokerQos
