/-
Client role: the code-shaped model refines the reference client
(`Spec/Client.lean`) on histories inside the recorded exclusions - simulation
relation, output matching, one-step simulation.  Helper lemmas only.
-/
import Mqtt.Proofs.ClientTopics

set_option linter.unusedSimpArgs false

namespace Mqtt.Proofs.Client
open Mqtt.Iface.Broker (Pub Packet Bytes)
open Mqtt.Iface.Client
open Mqtt.Model.Client
open Mqtt.Model.Topics (MemTopics)
open Mqtt.Generated
open Mqtt.Proofs.Topics (good specSubs specAnswer)
open Mqtt.Spec.Match (validFilter validName topicMatches dollar)
open Mqtt.Spec.TopicStore (Sub)
open Mqtt.Spec.Client (S SOut markDone release enqueue completes dispatch subErr)

abbrev SReq := Mqtt.Spec.Client.Req

/-! ### output matching: the canonical projection of the driver

The specification's outputs are patterns (`Driver/Client.lean`, `showSpec`, and
the oracle in `lib/vcheck/props_client.py`): a delivered message fixes callback,
topic and payload (QoS and flags free), `completeAny` leaves the error value
free, `wroteAutoId` any non-zero identifier.  Per event, packets written and
completions are compared in order, message callbacks as a multiset. -/

inductive Match2 {α β} (R : α → β → Prop) : List α → List β → Prop
  | nil : Match2 R [] []
  | cons {a b as bs} : R a b → Match2 R as bs → Match2 R (a :: as) (b :: bs)

theorem Match2.append {α β} {R : α → β → Prop} {a a' : List α} {b b' : List β}
    (h : Match2 R a b) (h' : Match2 R a' b') : Match2 R (a ++ a') (b ++ b') := by
  induction h with
  | nil => exact h'
  | cons hr _ ih => exact .cons hr ih

def sameButId : Packet → Packet → Bool
  | .publish p, .publish p' => p'.pktid != 0 && { p' with pktid := p.pktid } == p
  | .subscribe _ ts, .subscribe id' ts' => id' != 0 && ts == ts'
  | .unsubscribe _ ts, .unsubscribe id' ts' => id' != 0 && ts == ts'
  | _, _ => false

/-- a specification output (pattern) covers a model output -/
def covers : SOut → Out → Bool
  | .out o, o' => o == o'
  | .wroteAutoId p, .wrote p' => sameButId p p'
  | .deliverTo cb t pl, .deliver cb' p => cb == cb' && t == p.topic && pl == p.payload
  | .completeAny tag, .complete tag' _ => tag == tag'
  | _, _ => false

def isDeliverS : SOut → Bool
  | .deliverTo _ _ _ => true
  | _ => false

def isDeliver : Out → Bool
  | .deliver _ _ => true
  | _ => false

def sDel : SOut → Option (Nat × Bytes × Bytes)
  | .deliverTo cb t pl => some (cb, t, pl)
  | _ => none

def mDel : Out → Option (Nat × Bytes × Bytes)
  | .deliver cb p => some (cb, p.topic, p.payload)
  | _ => none

/-- the outputs of one event agree after the canonical projection -/
def EvMatch (so : List SOut) (mo : List Out) : Prop :=
  Match2 (fun a b => covers a b = true) (so.filter (fun x => !isDeliverS x)) (mo.filter (fun x => !isDeliver x)) ∧
  (so.filterMap sDel).Perm (mo.filterMap mDel)

theorem EvMatch.nil : EvMatch [] [] := ⟨.nil, .nil⟩

theorem EvMatch.append {a a' : List SOut} {b b' : List Out} (h : EvMatch a b) (h' : EvMatch a' b') :
    EvMatch (a ++ a') (b ++ b') := by
  unfold EvMatch at *
  simp only [List.filter_append, List.filterMap_append]
  exact ⟨h.1.append h'.1, h.2.append h'.2⟩

/-- an output that is not a message delivery, matched literally -/
theorem EvMatch.single (o : Out) (h : isDeliver o = false) : EvMatch [.out o] [o] := by
  refine ⟨?_, ?_⟩
  · simp only [List.filter_cons, isDeliverS, h, Bool.not_false, ↓reduceIte, List.filter_nil]
    exact .cons (by simp [covers]) .nil
  · cases o with
    | deliver cb p => simp [isDeliver] at h
    | _ => exact List.Perm.nil

theorem EvMatch.cons_single (o : Out) (h : isDeliver o = false) {a : List SOut} {b : List Out} (h' : EvMatch a b) :
    EvMatch (.out o :: a) (o :: b) := (EvMatch.single o h).append h'

/-- message deliveries: the same callbacks (as a multiset) get the message -/
theorem EvMatch.deliveries (p : Pub) (cbs : List Nat) (r : List (Nat × Nat)) (h : cbs.Perm (r.map (·.1))) :
    EvMatch (cbs.map (fun cb => SOut.deliverTo cb p.topic p.payload))
      (r.map (fun s => Out.deliver s.1 { p with qos := s.2 })) := by
  refine ⟨?_, ?_⟩
  · have h1 : (cbs.map (fun cb => SOut.deliverTo cb p.topic p.payload)).filter (fun x => !isDeliverS x) = [] := by
      rw [List.filter_eq_nil_iff]; intro x hx
      obtain ⟨cb, _, rfl⟩ := List.mem_map.mp hx; simp [isDeliverS]
    have h2 : (r.map (fun s => Out.deliver s.1 { p with qos := s.2 })).filter (fun x => !isDeliver x) = [] := by
      rw [List.filter_eq_nil_iff]; intro x hx
      obtain ⟨s, _, rfl⟩ := List.mem_map.mp hx; simp [isDeliver]
    rw [h1, h2]; exact .nil
  · have h1 : (cbs.map (fun cb => SOut.deliverTo cb p.topic p.payload)).filterMap sDel =
        cbs.map (fun cb => (cb, p.topic, p.payload)) := by
      rw [List.filterMap_map]; simp [Function.comp_def, sDel]
    have h2 : (r.map (fun s => Out.deliver s.1 { p with qos := s.2 })).filterMap mDel =
        (r.map (·.1)).map (fun cb => (cb, p.topic, p.payload)) := by
      rw [List.filterMap_map]; simp [Function.comp_def, mDel]
    rw [h1, h2]
    exact h.map _

/-- completions: same tags in order, error value fixed by the specification -/
theorem EvMatch.completeOut (tag : Nat) (err : Bool) :
    EvMatch (if tag == 0 then [] else [SOut.out (.complete tag err)]) (Model.Client.completeOut tag err) := by
  unfold Model.Client.completeOut
  split
  · exact .nil
  · exact EvMatch.single _ rfl

/-- completions whose error value the specification leaves open -/
theorem EvMatch.completeAny (tag : Nat) (err : Bool) :
    EvMatch (if tag == 0 then [] else [SOut.completeAny tag]) (Model.Client.completeOut tag err) := by
  unfold Model.Client.completeOut
  split
  · exact .nil
  · refine ⟨?_, ?_⟩
    · simp only [List.filter_cons, isDeliverS, isDeliver, Bool.not_false, ↓reduceIte, List.filter_nil]
      exact .cons (by simp [covers]) .nil
    · exact List.Perm.nil

/-! ### the queues: model requests against specification requests -/

/-- what of a request is compared besides identifier and "terminal acknowledgement seen" -/
structure Proj (δ : Type) where
  m : Req → δ
  s : SReq → δ
  /-- an acknowledgement updates both sides alike -/
  upd : ∀ (e : Req) (e' : SReq) (t : Nat) (codes : List Nat), m e = s e' →
    m { e with state := t, codes := codes } = s { e' with done := true, codes := codes }

def Proj.fm {δ} (P : Proj δ) (e : Req) : Nat × Bool × δ := (e.id, terminal e.state, P.m e)
def Proj.fs {δ} (P : Proj δ) (e : SReq) : Nat × Bool × δ := (e.id, e.done, P.s e)

/-- the model queue `q` and the specification queue `sq` hold the same requests in the same order -/
def Rel {δ} (P : Proj δ) (q : Queue) (sq : List SReq) : Prop := q.map P.fm = sq.map P.fs

theorem Rel.nil {δ} (P : Proj δ) : Rel P [] [] := rfl

theorem Rel.any_id {δ} {P : Proj δ} {q : Queue} {sq : List SReq} (h : Rel P q sq) (id : Nat) :
    q.any (fun e => e.id == id) = sq.any (fun e => e.id == id) := by
  have h1 : q.any (fun e => e.id == id) = (q.map P.fm).any (fun x => x.1 == id) := by
    rw [List.any_map]; rfl
  have h2 : sq.any (fun e => e.id == id) = (sq.map P.fs).any (fun x => x.1 == id) := by
    rw [List.any_map]; rfl
  rw [h1, h2, h]

theorem Rel.wait {δ} {P : Proj δ} {q : Queue} {sq : List SReq} (h : Rel P q sq) (r : Req) (r' : SReq)
    (hr : P.fm r = P.fs r') : Rel P (q.wait r) (enqueue sq r') := by
  have hid : r.id = r'.id := congrArg (·.1) hr
  unfold Queue.wait enqueue
  rw [h.any_id r.id, hid]
  split
  · exact h
  · unfold Rel at *
    simp [h, hr]

theorem Rel.ack {δ} {P : Proj δ} {q : Queue} {sq : List SReq} (h : Rel P q sq) (t id : Nat) (codes : List Nat)
    (ht : terminal t = true) : Rel P (q.ack t id codes) (markDone sq id codes) := by
  unfold Rel at *
  induction q generalizing sq with
  | nil =>
    cases sq with
    | nil => rfl
    | cons e' sq => simp at h
  | cons e q ih =>
    cases sq with
    | nil => simp at h
    | cons e' sq =>
      simp only [List.map_cons, List.cons.injEq] at h
      obtain ⟨he, hq⟩ := h
      have hid : e.id = e'.id := congrArg (·.1) he
      have hm : P.m e = P.s e' := congrArg (·.2.2) he
      simp only [Queue.ack, markDone, List.map_cons, List.cons.injEq]
      refine ⟨?_, ih hq⟩
      by_cases hc : (e.id == id) = true
      · have hc' : (e'.id == id) = true := by rw [← hid]; exact hc
        simp only [hc, hc', ↓reduceIte]
        show (_, terminal t, P.m _) = (_, true, P.s _)
        rw [P.upd e e' t codes hm, ht]
        show (e.id, _, _) = (e'.id, _, _)
        rw [hid]
      · have hc1 : (e.id == id) = false := by simpa using hc
        have hc' : (e'.id == id) = false := by rw [← hid]; exact hc1
        simp only [hc1, hc', Bool.false_eq_true, ↓reduceIte, he]

theorem Rel.ack_nonterminal {δ} {P : Proj δ} {q : Queue} {sq : List SReq} (h : Rel P q sq) (t id : Nat)
    (ht : terminal t = false) (hnd : ∀ e ∈ sq, e.id = id → e.done = false)
    (hupd0 : ∀ (e : Req) (t : Nat), P.m { e with state := t, codes := [] } = P.m e) : Rel P (q.ack t id []) sq := by
  unfold Rel at *
  induction q generalizing sq with
  | nil => exact h
  | cons e q ih =>
    cases sq with
    | nil => simp at h
    | cons e' sq =>
      simp only [List.map_cons, List.cons.injEq] at h
      obtain ⟨he, hq⟩ := h
      have hid : e.id = e'.id := congrArg (·.1) he
      have hd : terminal e.state = e'.done := congrArg (·.2.1) he
      simp only [Queue.ack, List.map_cons, List.cons.injEq]
      refine ⟨?_, ih hq (fun x hx => hnd x (by simp [hx]))⟩
      by_cases hc : (e.id == id) = true
      · have : e'.done = false := hnd e' (by simp) (by rw [← hid]; simpa using hc)
        have hm : P.m e = P.s e' := congrArg (·.2.2) he
        simp only [hc, ↓reduceIte, Proj.fm, Proj.fs, ht, hupd0, ← hid, this, hm]
      · have hc' : (e.id == id) = false := by simpa using hc
        simp only [hc', Bool.false_eq_true, ↓reduceIte, he]

theorem Rel.acked {δ} {P : Proj δ} {q : Queue} {sq : List SReq} (h : Rel P q sq) :
    Rel P q.acked.1 (release sq).1 ∧ Rel P q.acked.2 (release sq).2 := by
  unfold Rel at *
  induction q generalizing sq with
  | nil =>
    cases sq with
    | nil => exact ⟨rfl, rfl⟩
    | cons e' sq => simp at h
  | cons e q ih =>
    cases sq with
    | nil => simp at h
    | cons e' sq =>
      simp only [List.map_cons, List.cons.injEq] at h
      obtain ⟨he, hq⟩ := h
      have hd : terminal e.state = e'.done := congrArg (·.2.1) he
      simp only [Queue.acked, release, List.dropWhile_cons, List.takeWhile_cons, hd]
      cases e'.done with
      | true =>
        simp only [↓reduceIte, List.map_cons, he, List.cons.injEq, true_and]
        exact ih hq
      | false =>
        simp only [Bool.false_eq_true, ↓reduceIte, List.map_cons, he, hq, List.map_nil, and_self]

theorem Rel.mem_s {δ} {P : Proj δ} {q : Queue} {sq : List SReq} (h : Rel P q sq) (e : Req) (he : e ∈ q) :
    ∃ e' ∈ sq, P.fm e = P.fs e' := by
  have : P.fm e ∈ sq.map P.fs := by rw [← h]; exact List.mem_map.mpr ⟨e, he, rfl⟩
  obtain ⟨e', he', heq⟩ := List.mem_map.mp this
  exact ⟨e', he', heq.symm⟩

/-- publishes in flight: the completion tag -/
def Ptag : Proj Nat := ⟨(·.tag), (·.tag), fun _ _ _ _ h => h⟩

/-- subscribes: tag, filters, message callback, return codes -/
def Psub : Proj (Nat × List (Bytes × Nat) × Nat × List Nat) :=
  ⟨fun e => (e.tag, e.topics, e.cb, e.codes), fun e => (e.tag, e.topics, e.cb, e.codes), by
    intro e e' t codes h
    simp only [Prod.mk.injEq] at h ⊢
    exact ⟨h.1, h.2.1, h.2.2.1, trivial⟩⟩

/-- unsubscribes: tag and filters (`AddTopic` of the UNSUBSCRIBE packet has dropped repeated filters) -/
def Punsub : Proj (Nat × List (Bytes × Nat)) :=
  ⟨fun e => (e.tag, e.topics),
    fun e => (e.tag, ((e.topics.map (fun (x : Bytes × Nat) => x.1)).eraseDups).map (fun t => (t, 0))),
    fun _ _ _ _ h => h⟩

/-- inbound QoS 2 exchanges: the stored first PUBLISH -/
def Pin : Proj (Option Pub) := ⟨(·.pub), (·.pub), fun _ _ _ _ h => h⟩

theorem completes_cons (e : SReq) (l : List SReq) (err : SReq → Bool) :
    completes (e :: l) err = (if e.tag == 0 then [] else [SOut.out (.complete e.tag (err e))]) ++ completes l err := by
  unfold completes
  simp only [List.filterMap_cons]
  split <;> simp_all

/-- the completions of released publishes -/
theorem completes_match (rel : Queue) (srel : List SReq) (h : Rel Ptag rel srel) :
    EvMatch (completes srel (fun _ => false)) (rel.flatMap (fun r => Model.Client.completeOut r.tag false)) := by
  unfold Rel at h
  induction rel generalizing srel with
  | nil =>
    cases srel with
    | nil => exact EvMatch.nil
    | cons e' srel => simp at h
  | cons e rel ih =>
    cases srel with
    | nil => simp at h
    | cons e' srel =>
      simp only [List.map_cons, List.cons.injEq] at h
      have ht : e.tag = e'.tag := congrArg (·.2.2) h.1
      rw [completes_cons, List.flatMap_cons, ← ht]
      exact (EvMatch.completeOut e.tag false).append (ih srel h.2)

/-! ### the topic trie against the held subscriptions of the specification -/

def keysS (store : List Sub) : List (Nat × Bytes) := store.map (fun e => (e.sub, e.filter))
def keysH (held : List (Nat × Bytes × Nat)) : List (Nat × Bytes) := held.map (fun h => (h.1, h.2.1))

/-- the abstract store of the trie and the specification's `held` list name the same (callback, filter) pairs -/
def HeldRel (store : List Sub) (held : List (Nat × Bytes × Nat)) : Prop := ∀ k, k ∈ keysS store ↔ k ∈ keysH held

theorem nodup_eraseDups_aux {α} [BEq α] [LawfulBEq α] : ∀ (n : Nat) (l : List α), l.length ≤ n → l.eraseDups.Nodup := by
  intro n
  induction n with
  | zero =>
    intro l hl
    have : l = [] := List.eq_nil_of_length_eq_zero (by omega)
    subst this; simp
  | succ n ih =>
    intro l hl
    cases l with
    | nil => simp
    | cons a as =>
      rw [List.eraseDups_cons, List.nodup_cons]
      refine ⟨?_, ih _ ?_⟩
      · rw [List.mem_eraseDups, List.mem_filter]
        rintro ⟨_, h⟩
        simp at h
      · have := List.length_filter_le (fun b => !b == a) as
        simp only [List.length_cons] at hl
        omega

theorem nodup_eraseDups {α} [BEq α] [LawfulBEq α] (l : List α) : l.eraseDups.Nodup :=
  nodup_eraseDups_aux l.length l (Nat.le_refl _)

/-- an inbound message: the model invokes the callbacks the specification prescribes - every
callback (request) with at least one matching held filter exactly once, however many of its
filters match -/
theorem dispatch_match (c : C) (s : S) (store : List Sub) (hti : TI c.topics store) (hr : HeldRel store s.held)
    (p : Pub) (hg : good p.topic = true) (hn : validName p.topic = true) (hq : p.qos ≤ 2) :
    EvMatch (dispatch s p) (onPublish c p) := by
  obtain ⟨r, hr1, hr2⟩ := onPublish_perm c store hti p hg hn hq
  rw [hr1]
  unfold dispatch
  apply EvMatch.deliveries
  refine (List.perm_ext_iff_of_nodup (nodup_eraseDups _) (firstPerCb_nodup r [])).mpr ?_
  intro cb
  rw [List.mem_eraseDups, mem_firstPerCb_cb]
  simp only [List.not_mem_nil, not_false_eq_true, and_true, List.mem_map, List.mem_filter]
  constructor
  · rintro ⟨h, ⟨hh, hm⟩, rfl⟩
    have hk : (h.1, h.2.1) ∈ keysS store := (hr _).mpr (List.mem_map.mpr ⟨h, hh, rfl⟩)
    obtain ⟨e, he, hek⟩ := List.mem_map.mp hk
    have hes : e.sub = h.1 := congrArg (·.1) hek
    have hef : e.filter = h.2.1 := congrArg (·.2) hek
    have : (e.sub, min p.qos e.qos) ∈ specAnswer store p.topic p.qos := by
      simp only [specAnswer, List.mem_map, List.mem_filter]
      exact ⟨e, ⟨he, by rw [hef]; exact hm⟩, rfl⟩
    exact ⟨_, hr2.symm.subset this, hes⟩
  · rintro ⟨x, hx, rfl⟩
    have := hr2.subset hx
    simp only [specAnswer, List.mem_map, List.mem_filter] at this
    obtain ⟨e, ⟨he, hm⟩, rfl⟩ := this
    have hk : (e.sub, e.filter) ∈ keysH s.held := (hr _).mp (List.mem_map.mpr ⟨e, he, rfl⟩)
    obtain ⟨h, hh, hhk⟩ := List.mem_map.mp hk
    have h1 : h.1 = e.sub := congrArg (·.1) hhk
    have h2 : h.2.1 = e.filter := congrArg (·.2) hhk
    exact ⟨h, ⟨hh, by rw [h2]; exact hm⟩, h1⟩

/-! ### SUBACK: the Subscribe wrappers against the specification's `held` update -/

/-- return codes a SUBACK may carry (section 3.9.3) -/
def okCode (c : Nat) : Bool := c == 0 || c == 1 || c == 2 || c == 0x80

/-- what the specification adds to `held` for one granted (filter, requested QoS, return code) triple -/
def heldOf (cb : Nat) (tc : (Bytes × Nat) × Nat) : Option (Nat × Bytes × Nat) :=
  if tc.2 == 0x80 || !validFilter tc.1.1 then none else some (cb, tc.1.1, tc.2)

theorem keysS_sub (store : List Sub) (f : Bytes) (q cb : Nat) (hd : dollar f = false) (hq : q ≤ 2)
    (hv : validFilter f = true) (k : Nat × Bytes) :
    k ∈ keysS (specSubs store (.sub f q cb)) ↔ k ∈ keysS store ∨ k = (cb, f) := by
  have hq' : ¬ q > 2 := by omega
  simp only [specSubs, hd, Bool.false_eq_true, ↓reduceIte, hq', hv, Bool.not_true, keysS, List.map_append,
    List.mem_append, List.map_cons, List.map_nil, List.mem_singleton, List.mem_map, List.mem_filter]
  constructor
  · rintro (⟨e, ⟨he, _⟩, rfl⟩ | h)
    · exact Or.inl ⟨e, he, rfl⟩
    · exact Or.inr h
  · rintro (⟨e, he, rfl⟩ | h)
    · by_cases hk : (e.sub, e.filter) = (cb, f)
      · exact Or.inr hk
      · refine Or.inl ⟨e, ⟨he, ?_⟩, rfl⟩
        simp only [Prod.mk.injEq, not_and] at hk
        by_cases hs : e.sub = cb
        · simp [hs, hk hs]
        · simp [hs]
    · exact Or.inr h

/-- a triple the hypotheses of the refinement admit: filter without empty levels, not beginning with `$`, valid,
return code 0, 1, 2 or 0x80 -/
def okTriple (tc : (Bytes × Nat) × Nat) : Prop := good tc.1.1 = true ∧ validFilter tc.1.1 = true ∧ okCode tc.2 = true

theorem okCode_le (c : Nat) (h : okCode c = true) (h80 : (c == 0x80) = false) : c ≤ 2 := by
  simp only [okCode, Bool.or_eq_true, beq_iff_eq, h80, Bool.false_eq_true, or_false] at h
  omega

theorem keysS_grantStore (cb : Nat) (tcs : List ((Bytes × Nat) × Nat)) (hok : ∀ tc ∈ tcs, okTriple tc)
    (k : Nat × Bytes) : ∀ store : List Sub,
    k ∈ keysS (grantStore cb store tcs) ↔ k ∈ keysS store ∨ k ∈ keysH (tcs.filterMap (heldOf cb)) := by
  induction tcs with
  | nil => intro store; simp [grantStore, keysH]
  | cons tc tcs ih =>
    intro store
    obtain ⟨hg, hv, hc⟩ := hok tc (by simp)
    rw [grantStore, ih (fun x hx => hok x (by simp [hx]))]
    by_cases h80 : (tc.2 == 0x80) = true
    · simp [h80, heldOf]
    · have h80' : (tc.2 == 0x80) = false := by simpa using h80
      have hd := Mqtt.Proofs.Topics.good_not_dollar _ hg
      simp only [h80', Bool.false_eq_true, ↓reduceIte, keysS_sub store tc.1.1 tc.2 cb hd (okCode_le _ hc h80') hv k,
        List.filterMap_cons, heldOf, hv, Bool.not_true, Bool.or_false, keysH, List.map_cons, List.mem_cons]
      constructor
      · rintro ((h | h) | h)
        · exact Or.inl h
        · exact Or.inr (Or.inl h)
        · exact Or.inr (Or.inr h)
      · rintro (h | h | h)
        · exact Or.inl (Or.inl h)
        · exact Or.inl (Or.inr h)
        · exact Or.inr h

theorem subFold_snd (cb : Nat) (tcs : List ((Bytes × Nat) × Nat)) (hok : ∀ tc ∈ tcs, okTriple tc) :
    ∀ acc : MemTopics × Bool, (tcs.foldl (subFold cb) acc).2 = (acc.2 || tcs.any (fun tc => tc.2 == 0x80)) := by
  induction tcs with
  | nil => intro acc; simp
  | cons tc tcs ih =>
    intro acc
    obtain ⟨hg, hv, hc⟩ := hok tc (by simp)
    rw [List.foldl_cons, ih (fun x hx => hok x (by simp [hx]))]
    by_cases h80 : (tc.2 == 0x80) = true
    · simp [subFold, h80]
    · have h80' : (tc.2 == 0x80) = false := by simpa using h80
      have hle := okCode_le _ hc h80'
      have hout := Mqtt.Proofs.Topics.subscribe_outcome acc.1 tc.1.1 tc.2 cb hg
      simp only [hle, hv, and_self, ↓reduceIte] at hout
      have : (subFold cb acc tc).2 = acc.2 := by
        unfold subFold
        simp only [h80', Bool.false_eq_true, ↓reduceIte, facts_maxQos]
        split
        · rfl
        · rename_i heq; rw [heq] at hout; cases hout
      simp [this, h80']

theorem any_zip_snd {α β} (l : List α) (m : List β) (p : β → Bool) (h : l.length = m.length) :
    (l.zip m).any (fun x => p x.2) = m.any p := by
  induction l generalizing m with
  | nil => cases m with
    | nil => rfl
    | cons b m => simp at h
  | cons a l ih =>
    cases m with
    | nil => simp at h
    | cons b m =>
      simp only [List.zip_cons_cons, List.any_cons]
      rw [ih m (by simpa using h)]

/-- what the specification adds to `held` for one released Subscribe -/
def newHeldOf (r : SReq) : List (Nat × Bytes × Nat) :=
  if r.topics.length != r.codes.length then [] else (r.topics.zip r.codes).filterMap (heldOf r.cb)

/-- the hypotheses of the refinement on one outstanding Subscribe -/
def okSub (r : SReq) : Prop :=
  (∀ t ∈ r.topics, good t.1 = true ∧ validFilter t.1 = true) ∧ (∀ c ∈ r.codes, okCode c = true)

theorem okSub_zip (r : SReq) (h : okSub r) : ∀ tc ∈ r.topics.zip r.codes, okTriple tc := by
  intro tc htc
  obtain ⟨h1, h2⟩ := List.of_mem_zip htc
  exact ⟨(h.1 _ h1).1, (h.1 _ h1).2, h.2 _ h2⟩

theorem sub_one (c : C) (e : Req) (e' : SReq) (store : List Sub) (held : List (Nat × Bytes × Nat))
    (hp : Psub.m e = Psub.s e') (hok : okSub e') (hti : TI c.topics store) (hr : HeldRel store held) :
    (∃ store', TI (subscribeDone c e).1.topics store' ∧ HeldRel store' (held ++ newHeldOf e')) ∧
    (subscribeDone c e).2 = Model.Client.completeOut e'.tag (subErr e') := by
  simp only [Psub, Prod.mk.injEq] at hp
  obtain ⟨htag, htop, hcb, hcodes⟩ := hp
  have hgood : ∀ t ∈ e.topics, good t.1 = true := by rw [htop]; exact fun t ht => (hok.1 t ht).1
  have hti' := ti_subscribeDone c e store hgood hti
  constructor
  · refine ⟨_, hti', ?_⟩
    unfold newHeldOf
    rw [htop, hcodes, hcb]
    split
    · simpa using hr
    · intro k
      rw [keysS_grantStore e'.cb _ (okSub_zip e' hok) k store, hr k]
      simp [keysH, List.map_append]
  · unfold subscribeDone
    rw [htop, hcodes, hcb, htag]
    by_cases hl : (e'.topics.length != e'.codes.length) = true
    · simp [hl, subErr]
    · have hl' : (e'.topics.length != e'.codes.length) = false := by simpa using hl
      simp only [hl', Bool.false_eq_true, ↓reduceIte]
      have h2 := subFold_snd e'.cb (e'.topics.zip e'.codes) (okSub_zip e' hok) (c.topics, false)
      have hlen : e'.topics.length = e'.codes.length := by simpa using hl'
      rw [any_zip_snd _ _ (fun c => c == 0x80) hlen] at h2
      have : subErr e' = e'.codes.any (fun c => c == 0x80) := by
        simp only [subErr, hl', Bool.false_or, List.contains_eq_any_beq]
        congr 1; funext c; exact Bool.beq_comm
      rw [this]
      change Model.Client.completeOut e'.tag ((e'.topics.zip e'.codes).foldl (subFold e'.cb) (c.topics, false)).2 = _
      rw [h2]
      simp

theorem completes_subErr_cons (e : SReq) (l : List SReq) :
    completes (e :: l) subErr = (if e.tag == 0 then [] else [SOut.out (.complete e.tag (subErr e))]) ++ completes l subErr :=
  completes_cons e l subErr

/-- all released Subscribes of one SUBACK -/
theorem subs_sim (rel : Queue) : ∀ (srel : List SReq) (c : C) (store : List Sub) (held : List (Nat × Bytes × Nat)),
    Rel Psub rel srel → (∀ r ∈ srel, okSub r) → TI c.topics store → HeldRel store held →
    (∃ store', TI (foldDone subscribeDone c rel).1.topics store' ∧ HeldRel store' (held ++ srel.flatMap newHeldOf)) ∧
    EvMatch (completes srel subErr) (foldDone subscribeDone c rel).2 := by
  induction rel with
  | nil =>
    intro srel c store held h _ hti hr
    cases srel with
    | nil => exact ⟨⟨store, hti, by simpa using hr⟩, EvMatch.nil⟩
    | cons e' srel => simp [Rel] at h
  | cons e rel ih =>
    intro srel c store held h hok hti hr
    cases srel with
    | nil => simp [Rel] at h
    | cons e' srel =>
      simp only [Rel, List.map_cons, List.cons.injEq] at h
      have hp : Psub.m e = Psub.s e' := congrArg (·.2.2) h.1
      obtain ⟨⟨store1, hti1, hr1⟩, hout⟩ := sub_one c e e' store held hp (hok e' (by simp)) hti hr
      obtain ⟨⟨store2, hti2, hr2⟩, hout2⟩ := ih srel (subscribeDone c e).1 store1 _ h.2
        (fun r hr => hok r (by simp [hr])) hti1 hr1
      simp only [foldDone]
      refine ⟨⟨store2, hti2, ?_⟩, ?_⟩
      · simpa [List.flatMap_cons, List.append_assoc] using hr2
      · rw [completes_subErr_cons, hout]
        exact (EvMatch.completeOut e'.tag (subErr e')).append hout2

/-! ### UNSUBACK -/

/-- the filters one released Unsubscribe lists -/
def goneOf (r : SReq) : List Bytes := r.topics.map (fun (x : Bytes × Nat) => x.1)

theorem heldRel_filter (store : List Sub) (held : List (Nat × Bytes × Nat)) (P : Bytes → Bool) (h : HeldRel store held) :
    HeldRel (store.filter (fun e => P e.filter)) (held.filter (fun x => P x.2.1)) := by
  intro k
  have h1 : k ∈ keysS (store.filter (fun e => P e.filter)) ↔ k ∈ keysS store ∧ P k.2 = true := by
    simp only [keysS, List.mem_map, List.mem_filter]
    constructor
    · rintro ⟨e, ⟨he1, he2⟩, rfl⟩; exact ⟨⟨e, he1, rfl⟩, he2⟩
    · rintro ⟨⟨e, he1, rfl⟩, he2⟩; exact ⟨e, ⟨he1, he2⟩, rfl⟩
  have h2 : k ∈ keysH (held.filter (fun x => P x.2.1)) ↔ k ∈ keysH held ∧ P k.2 = true := by
    simp only [keysH, List.mem_map, List.mem_filter]
    constructor
    · rintro ⟨e, ⟨he1, he2⟩, rfl⟩; exact ⟨⟨e, he1, rfl⟩, he2⟩
    · rintro ⟨⟨e, he1, rfl⟩, he2⟩; exact ⟨e, ⟨he1, he2⟩, rfl⟩
  rw [h1, h2, h k]

theorem map_fst_map_pair (l : List Bytes) : (l.map (fun t => ((t, 0) : Bytes × Nat))).map (fun x => x.1) = l := by
  simp [List.map_map, Function.comp_def]

theorem unsub_one (c : C) (e : Req) (e' : SReq) (store : List Sub) (held : List (Nat × Bytes × Nat))
    (hp : Punsub.m e = Punsub.s e') (hgood : ∀ t ∈ e'.topics, good t.1 = true) (hti : TI c.topics store)
    (hr : HeldRel store held) :
    (∃ store', TI (unsubscribeDone c e).1.topics store' ∧
      HeldRel store' (held.filter (fun x => !(goneOf e').contains x.2.1))) ∧
    EvMatch (if e'.tag == 0 then [] else [SOut.completeAny e'.tag]) (unsubscribeDone c e).2 := by
  simp only [Punsub, Prod.mk.injEq] at hp
  obtain ⟨htag, htop⟩ := hp
  have hfst : e.topics.map (fun x => x.1) = (goneOf e').eraseDups := by
    rw [htop, map_fst_map_pair]; rfl
  have hg : ∀ t ∈ e.topics, good t.1 = true := by
    intro t ht
    have : t.1 ∈ e.topics.map (fun x => x.1) := List.mem_map.mpr ⟨t, ht, rfl⟩
    rw [hfst, List.mem_eraseDups] at this
    obtain ⟨t', ht', heq⟩ := List.mem_map.mp this
    rw [← heq]; exact hgood t' ht'
  have hti' := ti_unsubscribeDone c e store hg hti
  rw [dropStore_eq] at hti'
  constructor
  · refine ⟨_, hti', ?_⟩
    have := heldRel_filter store held (fun f => !(goneOf e').contains f) hr
    have hc : (fun (e1 : Sub) => !(e.topics.map (fun x => x.1)).contains e1.filter) =
        (fun (e1 : Sub) => !(goneOf e').contains e1.filter) := by
      funext e1
      congr 1
      rw [hfst, Bool.eq_iff_iff, List.contains_iff_mem, List.contains_iff_mem, List.mem_eraseDups]
    rw [hc]
    exact this
  · unfold unsubscribeDone
    simp only [htag]
    exact EvMatch.completeAny e'.tag _

theorem filter_gone_append (held : List (Nat × Bytes × Nat)) (g1 g2 : List Bytes) :
    (held.filter (fun x => !g1.contains x.2.1)).filter (fun x => !g2.contains x.2.1) =
      held.filter (fun x => !(g1 ++ g2).contains x.2.1) := by
  rw [List.filter_filter]
  apply List.filter_congr
  intro x _
  simp only [List.contains_append, Bool.not_or]
  exact Bool.and_comm _ _

theorem unsubs_sim (rel : Queue) : ∀ (srel : List SReq) (c : C) (store : List Sub) (held : List (Nat × Bytes × Nat)),
    Rel Punsub rel srel → (∀ r ∈ srel, ∀ t ∈ r.topics, good t.1 = true) → TI c.topics store → HeldRel store held →
    (∃ store', TI (foldDone unsubscribeDone c rel).1.topics store' ∧
      HeldRel store' (held.filter (fun x => !(srel.flatMap goneOf).contains x.2.1))) ∧
    EvMatch (srel.filterMap (fun r => if r.tag == 0 then none else some (SOut.completeAny r.tag)))
      (foldDone unsubscribeDone c rel).2 := by
  induction rel with
  | nil =>
    intro srel c store held h _ hti hr
    cases srel with
    | nil =>
      refine ⟨⟨store, hti, ?_⟩, EvMatch.nil⟩
      have : held.filter (fun x => !(([] : List SReq).flatMap goneOf).contains x.2.1) = held := by
        rw [List.filter_eq_self]; intro _ _; rfl
      rw [this]; exact hr
    | cons e' srel => simp [Rel] at h
  | cons e rel ih =>
    intro srel c store held h hok hti hr
    cases srel with
    | nil => simp [Rel] at h
    | cons e' srel =>
      simp only [Rel, List.map_cons, List.cons.injEq] at h
      have hp : Punsub.m e = Punsub.s e' := congrArg (·.2.2) h.1
      obtain ⟨⟨store1, hti1, hr1⟩, hout⟩ := unsub_one c e e' store held hp (hok e' (by simp)) hti hr
      obtain ⟨⟨store2, hti2, hr2⟩, hout2⟩ := ih srel (unsubscribeDone c e).1 store1 _ h.2
        (fun r hr => hok r (by simp [hr])) hti1 hr1
      simp only [foldDone]
      refine ⟨⟨store2, hti2, ?_⟩, ?_⟩
      · rw [filter_gone_append] at hr2
        simpa [List.flatMap_cons] using hr2
      · have : (e' :: srel).filterMap (fun r => if r.tag == 0 then none else some (SOut.completeAny r.tag)) =
            (if e'.tag == 0 then [] else [SOut.completeAny e'.tag]) ++
              srel.filterMap (fun r => if r.tag == 0 then none else some (SOut.completeAny r.tag)) := by
          simp only [List.filterMap_cons]
          split <;> simp_all
        rw [this]
        exact hout.append hout2

/-! ### the simulation relation and the admitted events -/

/-- an inbound message the refinement admits: valid topic name without empty levels, not beginning with `$`, QoS <= 2 -/
def okPub (pb : Pub) : Prop := good pb.topic = true ∧ validName pb.topic = true ∧ pb.qos ≤ 2

/-- what the admitted API calls have put into the specification's queues -/
structure GoodS (s : S) : Prop where
  subs : ∀ r ∈ s.subs, okSub r
  unsubs : ∀ r ∈ s.unsubs, ∀ t ∈ r.topics, good t.1 = true
  open2 : ∀ r ∈ s.open2, ∀ pb, r.pub = some pb → okPub pb

/-- the simulation relation between the code-shaped client and the reference client -/
structure R (c : C) (s : S) : Prop where
  conn : c.connected = s.connected
  pub1 : Rel Ptag c.pub1ack s.pubs1
  pub2 : Rel Ptag c.pub2out s.pubs2
  sub : Rel Psub c.suback s.subs
  unsub : Rel Punsub c.unsuback s.unsubs
  in2 : Rel Pin c.pub2in s.open2
  ping : pingTags c = s.pings ∧ PingsWaiting c
  trie : ∃ store, TI c.topics store ∧ HeldRel store s.held
  good : GoodS s

theorem R_init : R init {} :=
  ⟨rfl, rfl, rfl, rfl, rfl, rfl, ⟨rfl, pingsWaiting_init⟩, ⟨[], ti_new, fun k => by simp [keysS, keysH]⟩,
    ⟨fun r hr => (by cases hr), fun r hr => (by cases hr), fun r hr => (by cases hr)⟩⟩

/-- the simple events the refinement theorem admits, decided on the *specification's* state: exactly the
recorded exclusions (B3 `good`; caller-supplied non-zero identifiers) and
the peer keeping to the protocol where the property is silent (valid topic names and QoS in inbound
PUBLISHes, SUBACK return codes 0/1/2/0x80, no PUBREC after the PUBCOMP of the same exchange, subscribed
filters valid and pairwise different within a request). -/
def okStepB (s : S) : Ev → Bool
  | .connect _ => true
  | .apiEarlyAck _ _ => false          -- composite: see `okStep`
  | .api (.publish p _) => p.qos == 0 || p.pktid != 0
  | .api (.subscribe id topics _ _) =>
    id != 0 && decide ((topics.map (fun (t : Bytes × Nat) => t.1)).Nodup) &&
      topics.all (fun t => good t.1 && validFilter t.1)
  | .api (.unsubscribe id topics _) => id != 0 && topics.all (fun t => good t)
  | .api (.ping _) => true
  | .peer (.publish pb) =>
    good pb.topic && validName pb.topic && decide (pb.qos ≤ 2)
  | .peer (.pubrec id) => s.pubs2.all (fun r => r.id != id || !r.done)
  | .peer (.suback _ codes) => codes.all okCode
  | .peer _ => true

/-- … and the composite event (an acknowledgement arriving between the write and the registration
of a call: since the repair of E5 it is the call followed by the packet) is admitted iff the call is
and then the packet is -/
def okStep (s : S) : Ev → Bool
  | .apiEarlyAck call ack =>
    okStepB s (.api call) && okStepB (Mqtt.Spec.Client.step s (.api call)).1 (.peer ack)
  | ev => okStepB s ev

/-- a history all of whose events are admitted -/
def Ok (s : S) : List Ev → Bool
  | [] => true
  | ev :: evs => okStep s ev && Ok (Mqtt.Spec.Client.step s ev).1 evs

/-- the specification's outputs over a history -/
def specOuts (s : S) : List Ev → List (List SOut)
  | [] => []
  | ev :: evs => (Mqtt.Spec.Client.step s ev).2 :: specOuts (Mqtt.Spec.Client.step s ev).1 evs

theorem mem_enqueue (sq : List SReq) (r x : SReq) (h : x ∈ enqueue sq r) : x ∈ sq ∨ x = r := by
  unfold enqueue at h
  split at h
  · exact Or.inl h
  · simpa using h

theorem mem_markDone (sq : List SReq) (id : Nat) (codes : List Nat) (x : SReq) (h : x ∈ markDone sq id codes) :
    x ∈ sq ∨ ∃ r0 ∈ sq, x = { r0 with done := true, codes := codes } := by
  simp only [markDone, List.mem_map] at h
  obtain ⟨r0, hr0, hx⟩ := h
  split at hx
  · exact Or.inr ⟨r0, hr0, hx.symm⟩
  · exact Or.inl (hx ▸ hr0)

theorem release_fst_subset (sq : List SReq) : ∀ x ∈ (release sq).1, x ∈ sq :=
  fun _ hx => (List.dropWhile_sublist _).subset hx

theorem release_snd_subset (sq : List SReq) : ∀ x ∈ (release sq).2, x ∈ sq :=
  fun _ hx => (List.takeWhile_sublist _).subset hx

theorem addTopics_nodup (topics : List (Bytes × Nat)) :
    ∀ acc : List (Bytes × Nat), ((acc ++ topics).map (fun t => t.1)).Nodup →
      topics.foldl (fun acc t =>
        if acc.any (fun x => x.1 == t.1) then acc.map (fun x => if x.1 == t.1 then (x.1, t.2) else x)
        else acc ++ [t]) acc = acc ++ topics := by
  induction topics with
  | nil => intro acc _; simp
  | cons t topics ih =>
    intro acc h
    have hnot : acc.any (fun x => x.1 == t.1) = false := by
      rw [List.any_eq_false]
      intro x hx heq
      simp only [List.map_append, List.map_cons, List.nodup_append] at h
      exact h.2.2 x.1 (List.mem_map.mpr ⟨x, hx, rfl⟩) t.1 (by simp) (by simpa using heq)
    simp only [List.foldl_cons, hnot, Bool.false_eq_true, ↓reduceIte]
    rw [ih (acc ++ [t]) (by simpa [List.append_assoc] using h)]
    simp

/-! ### one step: API calls -/

theorem spec_step_api (s : S) (hs : s.connected = true) (call : Api) :
    Mqtt.Spec.Client.step s (.api call) =
      ((Mqtt.Spec.Client.apiRegister s call).1,
       Mqtt.Spec.Client.apiWrite s call ++ (Mqtt.Spec.Client.apiRegister s call).2) := by
  simp [Mqtt.Spec.Client.step, hs]

theorem spec_step_peer (s : S) (hs : s.connected = true) (p : Packet) :
    Mqtt.Spec.Client.step s (.peer p) = Mqtt.Spec.Client.peer s p := by
  simp [Mqtt.Spec.Client.step, hs]

theorem sim_api_publish (c : C) (s : S) (hR : R c s) (hc : c.connected = true) (p : Pub) (tag : Nat)
    (hok : okStepB s (.api (.publish p tag)) = true) :
    R (step c (.api (.publish p tag))).1 (Mqtt.Spec.Client.step s (.api (.publish p tag))).1 ∧
    EvMatch (Mqtt.Spec.Client.step s (.api (.publish p tag))).2 (step c (.api (.publish p tag))).2 := by
  have hs : s.connected = true := by rw [← hR.conn]; exact hc
  rw [step_api c hc, spec_step_api s hs]
  by_cases h0 : p.qos = 0
  · have hb0 : (p.qos == 0) = true := by simpa using h0
    simp only [apiWrite, hb0, ↓reduceIte, apiRegister, Mqtt.Spec.Client.apiRegister, Mqtt.Spec.Client.apiWrite]
    refine ⟨hR, ?_⟩
    exact (EvMatch.single _ rfl).append (EvMatch.completeOut tag false)
  · have hb0 : (p.qos == 0) = false := by simpa using h0
    have hid : p.pktid ≠ 0 := by
      simp only [okStepB, hb0, Bool.false_or, bne_iff_ne, ne_eq] at hok
      exact hok
    have hidb : (p.pktid == 0) = false := by simpa using hid
    have hp : ({ p with pktid := p.pktid } : Pub) = p := by cases p; rfl
    have hw : apiWrite c (.publish p tag) = (c, [.wrote (.publish p)], .publish p tag) := by
      simp [apiWrite, hb0, assignId_of_ne c p.pktid hid, hp]
    rw [hw]
    simp only [apiRegister, hb0, Bool.false_eq_true, ↓reduceIte, Mqtt.Spec.Client.apiRegister,
      Mqtt.Spec.Client.apiWrite, Mqtt.Spec.Client.wrote, hidb]
    by_cases h1 : p.qos = 1
    · have hb1 : (p.qos == 1) = true := by simpa using h1
      simp only [hb1, ↓reduceIte, List.append_nil]
      refine ⟨⟨hR.conn, ?_, hR.pub2, hR.sub, hR.unsub, hR.in2, hR.ping, hR.trie, ⟨hR.good.subs, hR.good.unsubs, hR.good.open2⟩⟩,
        EvMatch.single _ rfl⟩
      exact hR.pub1.wait _ _ (by simp [Proj.fm, Proj.fs, Ptag, terminal_zero])
    · have hb1 : (p.qos == 1) = false := by simpa using h1
      simp only [hb1, Bool.false_eq_true, ↓reduceIte, List.append_nil]
      refine ⟨⟨hR.conn, hR.pub1, ?_, hR.sub, hR.unsub, hR.in2, hR.ping, hR.trie, ⟨hR.good.subs, hR.good.unsubs, hR.good.open2⟩⟩,
        EvMatch.single _ rfl⟩
      exact hR.pub2.wait _ _ (by simp [Proj.fm, Proj.fs, Ptag, terminal_zero])

theorem sim_api_subscribe (c : C) (s : S) (hR : R c s) (hc : c.connected = true) (id : Nat)
    (topics : List (Bytes × Nat)) (tag cb : Nat) (hok : okStepB s (.api (.subscribe id topics tag cb)) = true) :
    R (step c (.api (.subscribe id topics tag cb))).1 (Mqtt.Spec.Client.step s (.api (.subscribe id topics tag cb))).1 ∧
    EvMatch (Mqtt.Spec.Client.step s (.api (.subscribe id topics tag cb))).2
      (step c (.api (.subscribe id topics tag cb))).2 := by
  have hs : s.connected = true := by rw [← hR.conn]; exact hc
  rw [step_api c hc, spec_step_api s hs]
  simp only [okStepB, Bool.and_eq_true, bne_iff_ne, ne_eq, decide_eq_true_eq, List.all_eq_true] at hok
  obtain ⟨⟨hid, hnd⟩, hall⟩ := hok
  have hidb : (id == 0) = false := by simpa using hid
  have hw : apiWrite c (.subscribe id topics tag cb) =
      (c, [.wrote (.subscribe id topics)], .subscribe id topics tag cb) := by
    simp only [apiWrite, assignId_of_ne c id hid]
    rw [addTopics_nodup topics [] (by simpa using hnd)]
    rfl
  rw [hw]
  simp only [apiRegister, Mqtt.Spec.Client.apiRegister, Mqtt.Spec.Client.apiWrite, Mqtt.Spec.Client.wrote, hidb,
    Bool.false_eq_true, ↓reduceIte, List.append_nil]
  refine ⟨⟨hR.conn, hR.pub1, hR.pub2, ?_, hR.unsub, hR.in2, hR.ping, hR.trie, ⟨?_, hR.good.unsubs, hR.good.open2⟩⟩,
    EvMatch.single _ rfl⟩
  · exact hR.sub.wait _ _ (by simp [Proj.fm, Proj.fs, Psub, terminal_zero])
  · intro r hr
    rcases mem_enqueue _ _ _ hr with h | h
    · exact hR.good.subs r h
    · subst h
      refine ⟨fun t ht => ?_, fun c hc => by cases hc⟩
      have := hall t ht
      simpa using this

theorem sim_api_unsubscribe (c : C) (s : S) (hR : R c s) (hc : c.connected = true) (id : Nat)
    (topics : List Bytes) (tag : Nat) (hok : okStepB s (.api (.unsubscribe id topics tag)) = true) :
    R (step c (.api (.unsubscribe id topics tag))).1 (Mqtt.Spec.Client.step s (.api (.unsubscribe id topics tag))).1 ∧
    EvMatch (Mqtt.Spec.Client.step s (.api (.unsubscribe id topics tag))).2
      (step c (.api (.unsubscribe id topics tag))).2 := by
  have hs : s.connected = true := by rw [← hR.conn]; exact hc
  rw [step_api c hc, spec_step_api s hs]
  simp only [okStepB, Bool.and_eq_true, bne_iff_ne, ne_eq, List.all_eq_true] at hok
  obtain ⟨hid, hall⟩ := hok
  have hidb : (id == 0) = false := by simpa using hid
  have hw : apiWrite c (.unsubscribe id topics tag) =
      (c, [.wrote (.unsubscribe id topics.eraseDups)], .unsubscribe id topics.eraseDups tag) := by
    simp only [apiWrite, assignId_of_ne c id hid]
  rw [hw]
  simp only [apiRegister, Mqtt.Spec.Client.apiRegister, Mqtt.Spec.Client.apiWrite, Mqtt.Spec.Client.wrote, hidb,
    Bool.false_eq_true, ↓reduceIte, List.append_nil]
  refine ⟨⟨hR.conn, hR.pub1, hR.pub2, hR.sub, ?_, hR.in2, hR.ping, hR.trie, ⟨hR.good.subs, ?_, hR.good.open2⟩⟩,
    EvMatch.single _ rfl⟩
  · exact hR.unsub.wait _ _ (by simp [Proj.fm, Proj.fs, Punsub, terminal_zero, List.map_map, Function.comp_def])
  · intro r hr
    rcases mem_enqueue _ _ _ hr with h | h
    · exact hR.good.unsubs r h
    · subst h
      intro t ht
      obtain ⟨f, hf, rfl⟩ := List.mem_map.mp ht
      exact hall f hf

theorem sim_api_ping (c : C) (s : S) (hR : R c s) (hc : c.connected = true) (tag : Nat) :
    R (step c (.api (.ping tag))).1 (Mqtt.Spec.Client.step s (.api (.ping tag))).1 ∧
    EvMatch (Mqtt.Spec.Client.step s (.api (.ping tag))).2 (step c (.api (.ping tag))).2 := by
  have hs : s.connected = true := by rw [← hR.conn]; exact hc
  rw [step_api c hc, spec_step_api s hs]
  simp only [apiWrite, apiRegister, Mqtt.Spec.Client.apiRegister, Mqtt.Spec.Client.apiWrite, List.append_nil]
  refine ⟨⟨hR.conn, hR.pub1, hR.pub2, hR.sub, hR.unsub, hR.in2, ⟨?_, ?_⟩, hR.trie, ⟨hR.good.subs, hR.good.unsubs, hR.good.open2⟩⟩,
    EvMatch.single _ rfl⟩
  · simp [pingTags, ← hR.ping.1]
  · exact apiRegister_pingsWaiting c (.ping tag) hR.ping.2

theorem sim_api (c : C) (s : S) (hR : R c s) (hc : c.connected = true) (call : Api)
    (hok : okStepB s (.api call) = true) :
    R (step c (.api call)).1 (Mqtt.Spec.Client.step s (.api call)).1 ∧
    EvMatch (Mqtt.Spec.Client.step s (.api call)).2 (step c (.api call)).2 := by
  cases call with
  | publish p tag => exact sim_api_publish c s hR hc p tag hok
  | subscribe id topics tag cb => exact sim_api_subscribe c s hR hc id topics tag cb hok
  | unsubscribe id topics tag => exact sim_api_unsubscribe c s hR hc id topics tag hok
  | ping tag => exact sim_api_ping c s hR hc tag

/-! ### one step: packets from the peer -/

theorem pubrel_match (c : C) (s : S) (store : List Sub) (hti : TI c.topics store) (hr : HeldRel store s.held)
    (rel : Queue) : ∀ srel : List SReq, Rel Pin rel srel →
    (∀ r ∈ srel, ∀ pb, r.pub = some pb → okPub pb) →
    EvMatch (srel.flatMap (fun r => match r.pub with | some pb => dispatch s pb | none => []))
      (rel.flatMap (fun r => match r.pub with | some pb => onPublish c pb | none => [])) := by
  induction rel with
  | nil =>
    intro srel h _
    cases srel with
    | nil => exact EvMatch.nil
    | cons e' srel => simp [Rel] at h
  | cons e rel ih =>
    intro srel h hok
    cases srel with
    | nil => simp [Rel] at h
    | cons e' srel =>
      simp only [Rel, List.map_cons, List.cons.injEq] at h
      have hp : e.pub = e'.pub := congrArg (·.2.2) h.1
      simp only [List.flatMap_cons]
      refine EvMatch.append ?_ (ih srel h.2 (fun r hr => hok r (by simp [hr])))
      rw [hp]
      cases hpb : e'.pub with
      | none => exact EvMatch.nil
      | some pb =>
        obtain ⟨hg, hn, hq⟩ := hok e' (by simp) pb hpb
        exact dispatch_match c s store hti hr pb hg hn hq

theorem sim_peer_publish (c : C) (s : S) (hR : R c s) (pb : Pub) (hok : okStepB s (.peer (.publish pb)) = true) :
    R (peer c (.publish pb)).1 (Mqtt.Spec.Client.peer s (.publish pb)).1 ∧
    EvMatch (Mqtt.Spec.Client.peer s (.publish pb)).2 (peer c (.publish pb)).2 := by
  simp only [okStepB, Bool.and_eq_true, decide_eq_true_eq] at hok
  obtain ⟨⟨hg, hn⟩, hq⟩ := hok
  obtain ⟨store, hti, hr⟩ := hR.trie
  by_cases h2 : pb.qos = 2
  · have hb2 : (pb.qos == 2) = true := by simpa using h2
    simp only [peer, Mqtt.Spec.Client.peer, hb2, ↓reduceIte]
    refine ⟨⟨hR.conn, hR.pub1, hR.pub2, hR.sub, hR.unsub, ?_, hR.ping, hR.trie, ⟨hR.good.subs, hR.good.unsubs, ?_⟩⟩,
      EvMatch.single _ rfl⟩
    · exact hR.in2.wait _ _ (by simp [Proj.fm, Proj.fs, Pin, terminal_zero])
    · intro r hr' pb' hpb'
      rcases mem_enqueue _ _ _ hr' with h | h
      · exact hR.good.open2 r h pb' hpb'
      · subst h
        simp only [Option.some.injEq] at hpb'
        subst hpb'
        exact ⟨hg, hn, hq⟩
  · have hb2 : (pb.qos == 2) = false := by simpa using h2
    have hd := dispatch_match c s store hti hr pb hg hn hq
    by_cases h1 : pb.qos = 1
    · have hb1 : (pb.qos == 1) = true := by simpa using h1
      simp only [peer, Mqtt.Spec.Client.peer, hb2, hb1, Bool.false_eq_true, ↓reduceIte]
      exact ⟨hR, EvMatch.cons_single _ rfl hd⟩
    · have hb1 : (pb.qos == 1) = false := by simpa using h1
      simp only [peer, Mqtt.Spec.Client.peer, hb2, hb1, Bool.false_eq_true, ↓reduceIte]
      exact ⟨hR, hd⟩

theorem sim_peer_pubrel (c : C) (s : S) (hR : R c s) (id : Nat) :
    R (peer c (.pubrel id)).1 (Mqtt.Spec.Client.peer s (.pubrel id)).1 ∧
    EvMatch (Mqtt.Spec.Client.peer s (.pubrel id)).2 (peer c (.pubrel id)).2 := by
  obtain ⟨store, hti, hr⟩ := hR.trie
  have hack := hR.in2.ack tPUBREL id [] terminal_PUBREL
  obtain ⟨hrest, hrel⟩ := hack.acked
  simp only [peer, Mqtt.Spec.Client.peer]
  refine ⟨⟨hR.conn, hR.pub1, hR.pub2, hR.sub, hR.unsub, hrest, hR.ping, hR.trie, ⟨hR.good.subs, hR.good.unsubs, ?_⟩⟩, ?_⟩
  · intro r hr' pb hpb
    have h1 := release_fst_subset _ r hr'
    rcases mem_markDone _ _ _ _ h1 with h | ⟨r0, hr0, rfl⟩
    · exact hR.good.open2 r h pb hpb
    · exact hR.good.open2 r0 hr0 pb hpb
  · refine EvMatch.append ?_ (EvMatch.single _ rfl)
    apply pubrel_match c s store hti hr _ _ hrel
    intro r hr' pb hpb
    have h1 := release_snd_subset _ r hr'
    rcases mem_markDone _ _ _ _ h1 with h | ⟨r0, hr0, rfl⟩
    · exact hR.good.open2 r h pb hpb
    · exact hR.good.open2 r0 hr0 pb hpb

theorem sim_peer_puback (c : C) (s : S) (hR : R c s) (id : Nat) :
    R (peer c (.puback id)).1 (Mqtt.Spec.Client.peer s (.puback id)).1 ∧
    EvMatch (Mqtt.Spec.Client.peer s (.puback id)).2 (peer c (.puback id)).2 := by
  have hack := hR.pub1.ack tPUBACK id [] terminal_PUBACK
  obtain ⟨hrest, hrel⟩ := hack.acked
  simp only [peer, Mqtt.Spec.Client.peer]
  exact ⟨⟨hR.conn, hrest, hR.pub2, hR.sub, hR.unsub, hR.in2, hR.ping, hR.trie, ⟨hR.good.subs, hR.good.unsubs, hR.good.open2⟩⟩,
    completes_match _ _ hrel⟩

theorem sim_peer_pubcomp (c : C) (s : S) (hR : R c s) (id : Nat) :
    R (peer c (.pubcomp id)).1 (Mqtt.Spec.Client.peer s (.pubcomp id)).1 ∧
    EvMatch (Mqtt.Spec.Client.peer s (.pubcomp id)).2 (peer c (.pubcomp id)).2 := by
  have hack := hR.pub2.ack tPUBCOMP id [] terminal_PUBCOMP
  obtain ⟨hrest, hrel⟩ := hack.acked
  simp only [peer, Mqtt.Spec.Client.peer]
  exact ⟨⟨hR.conn, hR.pub1, hrest, hR.sub, hR.unsub, hR.in2, hR.ping, hR.trie, ⟨hR.good.subs, hR.good.unsubs, hR.good.open2⟩⟩,
    completes_match _ _ hrel⟩

theorem sim_peer_pubrec (c : C) (s : S) (hR : R c s) (id : Nat) (hok : okStepB s (.peer (.pubrec id)) = true) :
    R (peer c (.pubrec id)).1 (Mqtt.Spec.Client.peer s (.pubrec id)).1 ∧
    EvMatch (Mqtt.Spec.Client.peer s (.pubrec id)).2 (peer c (.pubrec id)).2 := by
  simp only [okStepB, List.all_eq_true, Bool.or_eq_true, bne_iff_ne, ne_eq, Bool.not_eq_true'] at hok
  simp only [peer, Mqtt.Spec.Client.peer]
  refine ⟨⟨hR.conn, hR.pub1, ?_, hR.sub, hR.unsub, hR.in2, hR.ping, hR.trie, ⟨hR.good.subs, hR.good.unsubs, hR.good.open2⟩⟩,
    EvMatch.single _ rfl⟩
  refine hR.pub2.ack_nonterminal tPUBREC id terminal_PUBREC ?_ (fun _ _ => rfl)
  intro e he hid
  rcases hok e he with h | h
  · exact absurd hid h
  · exact h

theorem R_of_frame (c0 c' : C) (s' : S) (hf : Frame c0 c') (conn : c0.connected = s'.connected)
    (pub1 : Rel Ptag c0.pub1ack s'.pubs1) (pub2 : Rel Ptag c0.pub2out s'.pubs2) (sub : Rel Psub c0.suback s'.subs)
    (unsub : Rel Punsub c0.unsuback s'.unsubs) (in2 : Rel Pin c0.pub2in s'.open2) (ping : pingTags c0 = s'.pings ∧ PingsWaiting c0)
    (trie : ∃ store, TI c'.topics store ∧ HeldRel store s'.held) (good : GoodS s') : R c' s' := by
  refine ⟨?_, ?_, ?_, ?_, ?_, ?_, ?_, trie, good⟩
  · rw [hf.connected]; exact conn
  · have := hf.queue .pub1; simp only [queue] at this; rw [this]; exact pub1
  · have := hf.queue .pub2; simp only [queue] at this; rw [this]; exact pub2
  · have := hf.queue .sub; simp only [queue] at this; rw [this]; exact sub
  · have := hf.queue .unsub; simp only [queue] at this; rw [this]; exact unsub
  · rw [hf.pub2in]; exact in2
  · unfold pingTags PingsWaiting at *; rw [hf.pings]; exact ping

theorem sim_peer_suback (c : C) (s : S) (hR : R c s) (id : Nat) (codes : List Nat)
    (hok : okStepB s (.peer (.suback id codes)) = true) :
    R (peer c (.suback id codes)).1 (Mqtt.Spec.Client.peer s (.suback id codes)).1 ∧
    EvMatch (Mqtt.Spec.Client.peer s (.suback id codes)).2 (peer c (.suback id codes)).2 := by
  simp only [okStepB, List.all_eq_true] at hok
  obtain ⟨store, hti, hr⟩ := hR.trie
  have hack := hR.sub.ack tSUBACK id codes terminal_SUBACK
  obtain ⟨hrest, hrel⟩ := hack.acked
  have hokm : ∀ r ∈ markDone s.subs id codes, okSub r := by
    intro r hr'
    rcases mem_markDone _ _ _ _ hr' with h | ⟨r0, hr0, rfl⟩
    · exact hR.good.subs r h
    · exact ⟨(hR.good.subs r0 hr0).1, fun c hc => hok c hc⟩
  have hsim := subs_sim (c.suback.ack tSUBACK id codes).acked.2 (release (markDone s.subs id codes)).2
    { c with suback := (c.suback.ack tSUBACK id codes).acked.1 } store s.held hrel
    (fun r hr' => hokm r (release_snd_subset _ r hr')) hti hr
  obtain ⟨⟨store', hti', hr'⟩, hout⟩ := hsim
  have hf := foldDone_frame subscribeDone subscribeDone_frame
    { c with suback := (c.suback.ack tSUBACK id codes).acked.1 } (c.suback.ack tSUBACK id codes).acked.2
  simp only [peer, Mqtt.Spec.Client.peer]
  refine ⟨R_of_frame _ _ _ hf hR.conn hR.pub1 hR.pub2 hrest hR.unsub hR.in2 hR.ping ⟨store', hti', ?_⟩
    ⟨fun r hr'' => hokm r (release_fst_subset _ r hr''), hR.good.unsubs, hR.good.open2⟩, hout⟩
  exact hr'

theorem sim_peer_unsuback (c : C) (s : S) (hR : R c s) (id : Nat) :
    R (peer c (.unsuback id)).1 (Mqtt.Spec.Client.peer s (.unsuback id)).1 ∧
    EvMatch (Mqtt.Spec.Client.peer s (.unsuback id)).2 (peer c (.unsuback id)).2 := by
  obtain ⟨store, hti, hr⟩ := hR.trie
  have hack := hR.unsub.ack tUNSUBACK id [] terminal_UNSUBACK
  obtain ⟨hrest, hrel⟩ := hack.acked
  have hokm : ∀ r ∈ markDone s.unsubs id [], ∀ t ∈ r.topics, good t.1 = true := by
    intro r hr'
    rcases mem_markDone _ _ _ _ hr' with h | ⟨r0, hr0, rfl⟩
    · exact hR.good.unsubs r h
    · exact hR.good.unsubs r0 hr0
  have hsim := unsubs_sim (c.unsuback.ack tUNSUBACK id).acked.2 (release (markDone s.unsubs id)).2
    { c with unsuback := (c.unsuback.ack tUNSUBACK id).acked.1 } store s.held hrel
    (fun r hr' => hokm r (release_snd_subset _ r hr')) hti hr
  obtain ⟨⟨store', hti', hr'⟩, hout⟩ := hsim
  have hf := foldDone_frame unsubscribeDone unsubscribeDone_frame
    { c with unsuback := (c.unsuback.ack tUNSUBACK id).acked.1 } (c.unsuback.ack tUNSUBACK id).acked.2
  simp only [peer, Mqtt.Spec.Client.peer]
  refine ⟨R_of_frame _ _ _ hf hR.conn hR.pub1 hR.pub2 hR.sub hrest hR.in2 hR.ping ⟨store', hti', ?_⟩
    ⟨hR.good.subs, fun r hr'' => hokm r (release_fst_subset _ r hr''), hR.good.open2⟩, hout⟩
  exact hr'

theorem sim_peer_pingresp (c : C) (s : S) (hR : R c s) :
    R (peer c .pingresp).1 (Mqtt.Spec.Client.peer s .pingresp).1 ∧
    EvMatch (Mqtt.Spec.Client.peer s .pingresp).2 (peer c .pingresp).2 := by
  obtain ⟨hp, hw⟩ := hR.ping
  have hw' := peer_pingsWaiting c .pingresp hw
  rw [peer_pingresp, pingAcked_pingAck_waiting c.pings hw] at hw' ⊢
  simp only [Mqtt.Spec.Client.peer]
  unfold pingTags at hp
  cases hcp : c.pings with
  | nil =>
    rw [hcp] at hp hw'
    have hs : s.pings = [] := hp.symm
    rw [hs]
    exact ⟨⟨hR.conn, hR.pub1, hR.pub2, hR.sub, hR.unsub, hR.in2, ⟨by simp [pingTags, hs], hw'⟩, hR.trie,
      ⟨hR.good.subs, hR.good.unsubs, hR.good.open2⟩⟩, EvMatch.nil⟩
  | cons x rest =>
    obtain ⟨st, tag⟩ := x
    rw [hcp] at hp hw'
    rw [← hp]
    simp only [List.map_cons, List.tail_cons, List.head?_cons, Option.map_some, Option.toList_some,
      List.flatMap_cons, List.flatMap_nil, List.append_nil]
    refine ⟨⟨hR.conn, hR.pub1, hR.pub2, hR.sub, hR.unsub, hR.in2, ⟨rfl, hw'⟩, hR.trie,
      ⟨hR.good.subs, hR.good.unsubs, hR.good.open2⟩⟩, ?_⟩
    exact EvMatch.completeOut tag false

theorem sim_peer (c : C) (s : S) (hR : R c s) (p : Packet) (hok : okStepB s (.peer p) = true) :
    R (peer c p).1 (Mqtt.Spec.Client.peer s p).1 ∧ EvMatch (Mqtt.Spec.Client.peer s p).2 (peer c p).2 := by
  cases p with
  | publish pb => exact sim_peer_publish c s hR pb hok
  | pubrel id => exact sim_peer_pubrel c s hR id
  | puback id => exact sim_peer_puback c s hR id
  | pubrec id => exact sim_peer_pubrec c s hR id hok
  | pubcomp id => exact sim_peer_pubcomp c s hR id
  | suback id codes => exact sim_peer_suback c s hR id codes hok
  | unsuback id => exact sim_peer_unsuback c s hR id
  | pingresp => exact sim_peer_pingresp c s hR
  | pingreq => exact ⟨hR, EvMatch.single _ rfl⟩
  | connack sp code => exact ⟨hR, EvMatch.nil⟩
  | subscribe id ts => exact ⟨hR, EvMatch.nil⟩
  | unsubscribe id ts => exact ⟨hR, EvMatch.nil⟩
  | disconnect => exact ⟨hR, EvMatch.nil⟩
  | connectAgain => exact ⟨hR, EvMatch.nil⟩

/-! ### one step; histories -/

theorem step_sim_basic (c : C) (s : S) (hR : R c s) (ev : Ev) (hok : okStepB s ev = true) :
    R (step c ev).1 (Mqtt.Spec.Client.step s ev).1 ∧ EvMatch (Mqtt.Spec.Client.step s ev).2 (step c ev).2 := by
  cases ev with
  | connect a =>
    cases a with
    | connack sp code =>
      simp only [step, connect, Mqtt.Spec.Client.step]
      by_cases h0 : (code == 0) = true
      · simp only [h0, ↓reduceIte]
        exact ⟨⟨rfl, hR.pub1, hR.pub2, hR.sub, hR.unsub, hR.in2, hR.ping, hR.trie,
          ⟨hR.good.subs, hR.good.unsubs, hR.good.open2⟩⟩, EvMatch.single _ rfl⟩
      · simp only [h0, Bool.false_eq_true, ↓reduceIte]
        exact ⟨hR, EvMatch.single _ rfl⟩
    | badConnack => exact ⟨hR, EvMatch.single _ rfl⟩
    | other => exact ⟨hR, EvMatch.single _ rfl⟩
    | close => exact ⟨hR, EvMatch.single _ rfl⟩
  | api call =>
    by_cases hc : c.connected = true
    · exact sim_api c s hR hc call hok
    · have hc' : c.connected = false := by simpa using hc
      have hs : s.connected = false := by rw [← hR.conn]; exact hc'
      simp only [step, Mqtt.Spec.Client.step, hc', hs, Bool.not_false, ↓reduceIte]
      exact ⟨hR, EvMatch.single _ rfl⟩
  | peer p =>
    by_cases hc : c.connected = true
    · have hs : s.connected = true := by rw [← hR.conn]; exact hc
      rw [step_peer c hc, spec_step_peer s hs]
      exact sim_peer c s hR p hok
    · have hc' : c.connected = false := by simpa using hc
      have hs : s.connected = false := by rw [← hR.conn]; exact hc'
      simp only [step, Mqtt.Spec.Client.step, hc', hs, Bool.not_false, ↓reduceIte]
      exact ⟨hR, EvMatch.nil⟩
  | apiEarlyAck call ack => simp [okStepB] at hok

theorem spec_apiRegister_connected (s : S) (call : Api) :
    (Mqtt.Spec.Client.apiRegister s call).1.connected = s.connected := by
  cases call with
  | publish p tag =>
    simp only [Mqtt.Spec.Client.apiRegister]
    by_cases h0 : (p.qos == 0) = true
    · simp [h0]
    · by_cases h1 : (p.qos == 1) = true <;> simp [h0, h1]
  | _ => rfl

/-- the reference client, too, takes the composite event as the call followed by the packet -/
theorem spec_step_early (s : S) (call : Api) (ack : Packet) :
    Mqtt.Spec.Client.step s (.apiEarlyAck call ack) =
      ((Mqtt.Spec.Client.step (Mqtt.Spec.Client.step s (.api call)).1 (.peer ack)).1,
       (Mqtt.Spec.Client.step s (.api call)).2 ++
         (Mqtt.Spec.Client.step (Mqtt.Spec.Client.step s (.api call)).1 (.peer ack)).2) := by
  by_cases hs : s.connected = true
  · simp [Mqtt.Spec.Client.step, hs, spec_apiRegister_connected]
  · have hs' : s.connected = false := by simpa using hs
    simp [Mqtt.Spec.Client.step, hs']

theorem step_sim (c : C) (s : S) (hR : R c s) (ev : Ev) (hok : okStep s ev = true) :
    R (step c ev).1 (Mqtt.Spec.Client.step s ev).1 ∧ EvMatch (Mqtt.Spec.Client.step s ev).2 (step c ev).2 := by
  cases ev with
  | apiEarlyAck call ack =>
    simp only [okStep, Bool.and_eq_true] at hok
    obtain ⟨h1, m1⟩ := step_sim_basic c s hR (.api call) hok.1
    obtain ⟨h2, m2⟩ := step_sim_basic _ _ h1 (.peer ack) hok.2
    rw [step_early, spec_step_early]
    exact ⟨h2, m1.append m2⟩
  | connect a => exact step_sim_basic c s hR _ hok
  | api call => exact step_sim_basic c s hR _ hok
  | peer p => exact step_sim_basic c s hR _ hok

/-- the outputs of two histories agree event by event -/
inductive RunMatch : List (List SOut) → List (List Out) → Prop
  | nil : RunMatch [] []
  | cons {so mo sos mos} : EvMatch so mo → RunMatch sos mos → RunMatch (so :: sos) (mo :: mos)

theorem run_sim (evs : List Ev) : ∀ (c : C) (s : S), R c s → Ok s evs = true →
    RunMatch (specOuts s evs) (runOuts c evs) ∧
    R (runState c evs) (evs.foldl (fun s ev => (Mqtt.Spec.Client.step s ev).1) s) := by
  induction evs with
  | nil => intro c s hR _; exact ⟨.nil, hR⟩
  | cons ev evs ih =>
    intro c s hR hok
    simp only [Ok, Bool.and_eq_true] at hok
    obtain ⟨h1, h2⟩ := step_sim c s hR ev hok.1
    obtain ⟨i1, i2⟩ := ih _ _ h1 hok.2
    exact ⟨.cons h2 i1, i2⟩

/-! ### a decidable necessary condition for `RunMatch` (used to refute it on closed histories) -/

def match2B : List SOut → List Out → Bool
  | [], [] => true
  | a :: as, b :: bs => covers a b && match2B as bs
  | _, _ => false

theorem match2B_of {so : List SOut} {mo : List Out} (h : Match2 (fun a b => covers a b = true) so mo) :
    match2B so mo = true := by
  induction h with
  | nil => rfl
  | cons hr _ ih => simp [match2B, hr, ih]

/-- packets and completions agree in order; as many message callbacks on both sides -/
def evMatchB (so : List SOut) (mo : List Out) : Bool :=
  match2B (so.filter (fun x => !isDeliverS x)) (mo.filter (fun x => !isDeliver x)) &&
    (so.filterMap sDel).length == (mo.filterMap mDel).length

theorem evMatchB_of {so : List SOut} {mo : List Out} (h : EvMatch so mo) : evMatchB so mo = true := by
  simp [evMatchB, match2B_of h.1, h.2.length_eq]

def runMatchB : List (List SOut) → List (List Out) → Bool
  | [], [] => true
  | a :: as, b :: bs => evMatchB a b && runMatchB as bs
  | _, _ => false

theorem runMatchB_of {sos : List (List SOut)} {mos : List (List Out)} (h : RunMatch sos mos) :
    runMatchB sos mos = true := by
  induction h with
  | nil => rfl
  | cons hr _ ih => simp [runMatchB, evMatchB_of hr, ih]

end Mqtt.Proofs.Client
