/-
Frame lemmas (the publish machinery touches only the tries and the packet-id
counter) and the anatomy of `stop`; helper lemmas for C09 and C10.
-/
import Mqtt.Proofs.BrokerLife

namespace Mqtt.Proofs.BrokerLife
open Mqtt.Iface.Broker Mqtt.Model.Broker
open Mqtt.Model.Topics (MemTopics)

/-! ### frame: session objects, store, connection table and reference counter -/

/-- `b'` differs from `b` at most in the tries and the packet-id counter -/
structure Frame (b b' : B) : Prop where
  sess : b'.sess = b.sess
  store : b'.store = b.store
  conns : b'.conns = b.conns
  nextRef : b'.nextRef = b.nextRef

theorem Frame.refl (b : B) : Frame b b := ⟨rfl, rfl, rfl, rfl⟩

theorem Frame.trans {a b c : B} (h1 : Frame a b) (h2 : Frame b c) : Frame a c :=
  ⟨h2.sess.trans h1.sess, h2.store.trans h1.store, h2.conns.trans h1.conns, h2.nextRef.trans h1.nextRef⟩

theorem Frame.getSess {b b' : B} (h : Frame b b') (r : Nat) : b'.getSess r = b.getSess r := by
  unfold B.getSess; rw [h.sess]

theorem Frame.getConn {b b' : B} (h : Frame b b') (c : Nat) : b'.getConn c = b.getConn c := by
  unfold B.getConn; rw [h.conns]

theorem Frame.alive {b b' : B} (h : Frame b b') (c : Nat) : b'.alive c = b.alive c := by
  unfold B.alive; rw [h.getConn]

theorem Frame.storeGet {b b' : B} (h : Frame b b') (cid : Bytes) : b'.storeGet cid = b.storeGet cid := by
  unfold B.storeGet; rw [h.store]

theorem frame_topics (b : B) (ts : MemTopics) : Frame b { b with topics := ts } := ⟨rfl, rfl, rfl, rfl⟩
theorem frame_ctr (b : B) (n : Nat) : Frame b { b with ctr := n } := ⟨rfl, rfl, rfl, rfl⟩
theorem frame_topics_ctr (b : B) (ts : MemTopics) (n : Nat) : Frame b { b with topics := ts, ctr := n } :=
  ⟨rfl, rfl, rfl, rfl⟩

theorem deliverConn_frame (b : B) (d : Nat) (m : Msg) : Frame b (deliverConn b d m).1 := by
  unfold deliverConn
  dsimp only
  split
  · exact Frame.refl b
  · split
    · exact Frame.refl b
    · exact frame_ctr b _

theorem fanout_frame (subs : List (Nat × Nat)) : ∀ (b : B) (m : Msg), Frame b (fanout b m subs).1 := by
  induction subs with
  | nil => intro b m; exact Frame.refl b
  | cons x xs ih =>
    intro b m
    obtain ⟨s, eqos⟩ := x
    simp only [fanout]
    split
    · exact (deliverConn_frame b s _).trans (ih _ _)
    · exact ih _ _

theorem retainStep_frame (b : B) (m : Msg) : Frame b (retainStep b m).1 := by
  unfold retainStep
  split
  · exact Frame.refl b
  · split
    · exact frame_topics b _
    · split
      · exact frame_topics b _
      · split
        · exact Frame.refl b
        · exact frame_topics_ctr b _ _

theorem onPublish_frame (b : B) (m : Msg) : Frame b (onPublish b m).1 := by
  unfold onPublish
  dsimp only
  split
  · exact retainStep_frame b m
  · exact (retainStep_frame b m).trans (fanout_frame _ _ _)

theorem releaseAll_frame (l : List QEntry) : ∀ b : B, Frame b (releaseAll b l).1 := by
  induction l with
  | nil => intro b; exact Frame.refl b
  | cons e es ih =>
    intro b
    simp only [releaseAll]
    exact (onPublish_frame b _).trans (ih _)

theorem sendRetained_frame (c : Nat) (l : List Msg) : ∀ b : B, Frame b (sendRetained b c l).1 := by
  induction l with
  | nil => intro b; exact Frame.refl b
  | cons m ms ih =>
    intro b
    simp only [sendRetained]
    split
    · exact Frame.refl b
    · split
      · exact Frame.refl b
      · exact (frame_ctr b _).trans (ih _)

/-- the SUBSCRIBE loop keeps the frame, and the identity of the session object it edits -/
theorem subscribeLoop_frame (c : Nat) (l : List (Bytes × Nat)) :
    ∀ (b : B) (s : Sess) (codes : List Nat) (rms : List Msg),
      Frame b (subscribeLoop b c s l codes rms).1 ∧
      (subscribeLoop b c s l codes rms).2.1.ref = s.ref ∧ (subscribeLoop b c s l codes rms).2.1.cid = s.cid ∧
      (subscribeLoop b c s l codes rms).2.1.clean = s.clean ∧
      (subscribeLoop b c s l codes rms).2.1.willFlag = s.willFlag ∧
      (subscribeLoop b c s l codes rms).2.1.will = s.will := by
  induction l with
  | nil => intro b s codes rms; exact ⟨Frame.refl b, rfl, rfl, rfl, rfl, rfl⟩
  | cons x xs ih =>
    intro b s codes rms
    obtain ⟨t, q⟩ := x
    simp only [subscribeLoop]
    split
    · rename_i ts heq
      have := ih { b with topics := ts } s (codes ++ [0x80]) rms
      exact ⟨(frame_topics b ts).trans this.1, this.2⟩
    · rename_i ts rq heq
      have := ih { b with topics := ts } { s with topics := (t, q) :: s.topics.filter (fun p => p.1 != t) }
        (codes ++ [rq])
      exact ⟨(frame_topics b ts).trans (this _).1, (this _).2⟩

/-! ### `stop` -/

/-- the connection table with `c` marked closed -/
def markDead (b : B) (c : Nat) : B :=
  { b with conns := b.conns.map (fun (x : Conn) => if x.id == c then { x with alive := false } else x) }

theorem find_markDead (l : List Conn) (c d : Nat) :
    (l.map (fun (x : Conn) => if x.id == c then { x with alive := false } else x)).find? (fun x => x.id == d) =
      (l.find? (fun x => x.id == d)).map (fun x => if x.id == c then { x with alive := false } else x) := by
  induction l with
  | nil => rfl
  | cons x xs ih =>
    rw [List.map_cons, List.find?_cons, List.find?_cons]
    by_cases hc : (x.id == c) = true
    · simp only [hc, ↓reduceIte]
      cases hd : x.id == d
      · simpa using ih
      · simp only [Option.map_some, hc, ↓reduceIte]
    · simp only [hc, Bool.false_eq_true, ↓reduceIte]
      cases hd : x.id == d
      · simpa using ih
      · simp only [Option.map_some, hc, Bool.false_eq_true, ↓reduceIte]

theorem getConn_id {b : B} {c : Nat} {cn : Conn} (h : b.getConn c = some cn) : cn.id = c := by
  unfold B.getConn at h
  have := List.find?_some h
  simpa using this

theorem getSess_ref {b : B} {r : Nat} {s : Sess} (h : b.getSess r = some s) : s.ref = r := by
  unfold B.getSess at h
  have := List.find?_some h
  simpa using this

theorem markDead_alive_self (b : B) (c : Nat) : (markDead b c).alive c = false := by
  unfold B.alive B.getConn markDead
  simp only [find_markDead]
  cases h : b.conns.find? (fun x => x.id == c) with
  | none => rfl
  | some cn =>
    have : cn.id = c := by simpa using List.find?_some h
    simp [this]

theorem markDead_alive_ne (b : B) (c d : Nat) (h : d ≠ c) : (markDead b c).alive d = b.alive d := by
  unfold B.alive B.getConn markDead
  simp only [find_markDead]
  cases hf : b.conns.find? (fun x => x.id == d) with
  | none => rfl
  | some cn =>
    have : cn.id = d := by simpa using List.find?_some hf
    have hne : ¬ d = c := h
    simp [this, hne]

/-- state in which `stop` publishes the will: `c` marked closed, its session's topics unsubscribed -/
def stopBase (b : B) (c : Nat) (s : Sess) : B :=
  { markDead b c with topics := unsubAll b.topics c s.topics }

/-- `stop` on a live connection whose session object resolves -/
theorem stop_live (b : B) (c : Nat) (cn : Conn) (s : Sess)
    (hc : b.getConn c = some cn) (ha : cn.alive = true) (hs : b.getSess cn.sess = some s) :
    stop b c =
      if s.willFlag then
        match s.will with
        | none => (stopBase b c s, [.closed c])
        | some w =>
          let r := onPublish (stopBase b c s) w
          let b3 := r.1.setSess { s with will := some r.2.1 }
          (if s.clean then b3.storeDel s.cid else b3, .closed c :: r.2.2.1)
      else (if s.clean then (stopBase b c s).storeDel s.cid else stopBase b c s, [.closed c]) := by
  unfold stop
  simp only [hc, ha, Bool.not_true, Bool.false_eq_true, ↓reduceIte]
  have : B.getSess { b with conns := b.conns.map (fun (x : Conn) => if x.id == c then { x with alive := false } else x) }
      cn.sess = some s := hs
  simp only [this]
  rfl

theorem setSess_frameless (b : B) (s : Sess) :
    (b.setSess s).conns = b.conns ∧ (b.setSess s).store = b.store ∧ (b.setSess s).topics = b.topics ∧
    (b.setSess s).nextRef = b.nextRef ∧ (b.setSess s).ctr = b.ctr := ⟨rfl, rfl, rfl, rfl, rfl⟩

theorem alive_setSess (b : B) (s : Sess) (c : Nat) : (b.setSess s).alive c = b.alive c := rfl
theorem alive_storeDel (b : B) (cid : Bytes) (c : Nat) : (b.storeDel cid).alive c = b.alive c := rfl
theorem getConn_setSess (b : B) (s : Sess) (c : Nat) : (b.setSess s).getConn c = b.getConn c := rfl

theorem stop_live_nosess (b : B) (c : Nat) (cn : Conn)
    (hc : b.getConn c = some cn) (ha : cn.alive = true) (hs : b.getSess cn.sess = none) :
    stop b c = (markDead b c, [.closed c]) := by
  unfold stop
  simp only [hc, ha, Bool.not_true, Bool.false_eq_true, ↓reduceIte]
  have : B.getSess { b with conns := b.conns.map (fun (x : Conn) => if x.id == c then { x with alive := false } else x) }
      cn.sess = none := hs
  simp only [this]
  rfl

theorem alive_true_iff (b : B) (c : Nat) : b.alive c = true ↔ ∃ cn, b.getConn c = some cn ∧ cn.alive = true := by
  unfold B.alive
  cases b.getConn c with
  | none => simp
  | some cn => simp

/-- what `stop` on a live connection leaves of the frame: the connection table
with `c` marked closed, the same reference counter -/
theorem stop_conns (b : B) (c : Nat) (h : b.alive c = true) :
    (stop b c).1.conns = (markDead b c).conns ∧ (stop b c).1.nextRef = b.nextRef := by
  obtain ⟨cn, hc, ha⟩ := (alive_true_iff b c).mp h
  cases hs : b.getSess cn.sess with
  | none => rw [stop_live_nosess b c cn hc ha hs]; exact ⟨rfl, rfl⟩
  | some s =>
    rw [stop_live b c cn s hc ha hs]
    cases s.willFlag
    · cases s.clean <;> exact ⟨rfl, rfl⟩
    · cases s.will with
      | none => exact ⟨rfl, rfl⟩
      | some w =>
        have hf := onPublish_frame (stopBase b c s) w
        cases s.clean
        · exact ⟨hf.conns, hf.nextRef⟩
        · exact ⟨hf.conns, hf.nextRef⟩

theorem alive_of_conns {b b' : B} (h : b'.conns = b.conns) (c : Nat) : b'.alive c = b.alive c := by
  unfold B.alive B.getConn; rw [h]

/-- after `stop` the connection is not live, whatever the state was -/
theorem stop_not_alive (b : B) (c : Nat) : (stop b c).1.alive c = false := by
  cases hal : b.alive c with
  | false => rw [stop_dead b c hal]; exact hal
  | true => rw [alive_of_conns (stop_conns b c hal).1]; exact markDead_alive_self b c

/-- other connections stay as live as they were -/
theorem stop_alive_ne (b : B) (c d : Nat) (h : d ≠ c) : (stop b c).1.alive d = b.alive d := by
  cases hal : b.alive c with
  | false => rw [stop_dead b c hal]
  | true => rw [alive_of_conns (stop_conns b c hal).1]; exact markDead_alive_ne b c d h

/-! ### DISCONNECT -/

theorem packet_disconnect_eq (b : B) (c : Nat) (cn : Conn) (s : Sess)
    (hc : b.getConn c = some cn) (ha : cn.alive = true) (hs : b.getSess cn.sess = some s) :
    packet b c .disconnect = stop (b.setSess { s with willFlag := false }) c := by
  unfold packet
  simp only [hc, ha, hs, Bool.not_true, Bool.false_eq_true, ↓reduceIte]

/-- DISCONNECT on a live connection: the close and nothing else -/
theorem packet_disconnect (b : B) (c : Nat) (cn : Conn) (s : Sess)
    (hc : b.getConn c = some cn) (ha : cn.alive = true) (hs : b.getSess cn.sess = some s) :
    (packet b c .disconnect).2 = [.closed c] := by
  rw [packet_disconnect_eq b c cn s hc ha hs]
  have hr : cn.sess = s.ref := (getSess_ref hs).symm
  have hs' : (b.setSess { s with willFlag := false }).getSess cn.sess = some { s with willFlag := false } := by
    rw [hr]; exact getSess_setSess b { s with willFlag := false }
  rw [stop_live _ c cn _ (by exact hc) ha hs']
  simp

/-! ### the will stored by an accepted CONNECT -/

theorem acceptedSess_will (b : B) (c : Nat) (req : Connect) :
    (acceptedSess b c req).willFlag = req.will.isSome ∧ (acceptedSess b c req).will = initWill req := by
  unfold acceptedSess
  cases resumed b c req <;> exact ⟨rfl, rfl⟩

theorem initWill_some (req : Connect) (w : Will) (h : req.will = some w) (hv : validTopic w.topic = true) :
    initWill req = some ⟨{ qos := w.qos, retain := w.retain, topic := w.topic, payload := w.payload }, true⟩ := by
  unfold initWill
  simp [h, hv]

/-! ### outputs of `stop` -/

theorem stop_out_will (b : B) (c : Nat) (cn : Conn) (s : Sess) (w : Msg)
    (hc : b.getConn c = some cn) (ha : cn.alive = true) (hs : b.getSess cn.sess = some s)
    (hf : s.willFlag = true) (hw : s.will = some w) :
    (stop b c).2 = .closed c :: (onPublish (stopBase b c s) w).2.2.1 := by
  rw [stop_live b c cn s hc ha hs]
  simp only [hf, hw, ↓reduceIte]

theorem stop_out_nowill (b : B) (c : Nat) (cn : Conn) (s : Sess)
    (hc : b.getConn c = some cn) (ha : cn.alive = true) (hs : b.getSess cn.sess = some s)
    (hf : s.willFlag = false) :
    (stop b c).2 = [.closed c] := by
  rw [stop_live b c cn s hc ha hs]
  simp only [hf, Bool.false_eq_true, ↓reduceIte]

end Mqtt.Proofs.BrokerLife
