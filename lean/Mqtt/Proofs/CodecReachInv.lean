/-
Core A (codec): the invariant of a message object that is not dirty, for an arbitrary
remaining-length encoding `V` of the decoded packet: the decode buffer is the type/flags byte,
`V`, and the body of the *current* fields; `mtypeflags` and `packetID` are views of it.
`SetDup` / `SetRetain` / `SetQoS` (within QoS > 0) / `SetPacketID` keep it; every decoder
establishes it when the accepted bytes are `V` + the body of the fields it returned.
-/
import Mqtt.Proofs.CodecReach
import Mqtt.Proofs.CodecSpecDecode

set_option linter.unusedSimpArgs false
set_option linter.unusedVariables false

namespace Mqtt.Proofs.Codec

open Mqtt.Model.Codec Mqtt.Iface.Codec Mqtt.Generated
open Mqtt.Spec

/-! ## the invariant of a message that is not dirty -/

/-- while a message object is not dirty: its decode buffer is the encoding of its current fields with the
remaining-length bytes `V`, the type/flags byte is a view of the buffer's first byte, and the packet
identifier (if the packet has one on the wire) is a view of the two identifier bytes of that encoding -/
structure CleanInv (V : Bytes) (m : Msg) : Prop where
  buf : m.hdr.dbuf = Wire.encodeV V (absMsg m)
  vlen : Wire.getVarint 4 V = some ((absMsg m).body.length, [])
  tfIn : m.hdr.tfInBuf = true
  pidIn : HasId m → m.hdr.pid.length = 2 ∧ m.hdr.pidOff = some (1 + V.length + (bpre m).length)
  pidOut : ¬ HasId m → m.hdr.pid.length ≠ 2

theorem setHdr_hdr (m : Msg) (h' : Hdr) : (m.setHdr h').hdr = h' := by cases m <;> rfl

theorem setHdr_bpre (m : Msg) (h' : Hdr) : bpre (m.setHdr h') = bpre m := by cases m <;> rfl

theorem setHdr_bpost (m : Msg) (h' : Hdr) : bpost (m.setHdr h') = bpost m := by cases m <;> rfl

theorem setHdr_hasId (m : Msg) (h' : Hdr) (e : h'.tf = m.hdr.tf) : HasId (m.setHdr h') ↔ HasId m := by
  cases m <;> simp only [Msg.setHdr, HasId, Msg.hdr, pubQoS, Hdr.flags] at e ⊢
  rw [e]

/-- `SetPacketID(v)` on an identifier slice that is a view of `dbuf[off:off+2]` -/
def writePid (h : Hdr) (v off : Nat) : Hdr :=
  { h with pid := putU16 v,
           dbuf := (h.dbuf.set off (UInt8.ofNat (v / 256))).set (off + 1) (UInt8.ofNat (v % 256)) }

/-- a setter call that leaves the object clean keeps the invariant -/
theorem clean_step {V : Bytes} {m m' : Msg} (st : Step m m') (hs : Shape m) (hs' : Shape m') (hc : CleanInv V m)
    (hd' : m'.hdr.dirty = false) : CleanInv V m' := by
  cases st with
  | same => exact hc
  | dirty _ h => rw [h] at hd'; cases hd'
  | flags h t p v hm hq =>
    subst hm
    have hb : h.dbuf = Wire.encodeV V (absMsg (.publish h t p)) := hc.buf
    have hti : h.tfInBuf = true := hc.tfIn
    have hpid : (h.setTf v).pid = h.pid := rfl
    have hpo : (h.setTf v).pidOff = h.pidOff := rfl
    have htf : (h.setTf v).tf = v := rfl
    have hbody : (absMsg (.publish (h.setTf v) t p)).body = (absMsg (.publish h t p)).body := by
      rw [body_publish, body_publish, hpid]
      by_cases h0 : pubQoS h = 0
      · have h0' := hq.mpr h0
        simp only [h0, h0', if_true]
      · have h0' : ¬ pubQoS (h.setTf v) = 0 := fun e => h0 (hq.mp e)
        simp only [h0, h0', if_false]
    constructor
    · show (h.setTf v).dbuf = _
      have : (h.setTf v).dbuf = h.dbuf.set 0 v := by unfold Hdr.setTf; simp only [hti, if_true]
      rw [this, hb, encV_hd V _ hs, encV_hd V _ hs', hbody]
      rfl
    · rw [hbody]; exact hc.vlen
    · exact hti
    · intro hid
      have hid0 : HasId (.publish h t p) := fun e => hid (hq.mpr e)
      obtain ⟨a, b⟩ := hc.pidIn hid0
      exact ⟨a, b⟩
    · intro hid
      have hid0 : ¬ HasId (.publish h t p) := fun e => hid (fun e' => e (hq.mp e'))
      exact hc.pidOut hid0
  | pid v hv hm =>
    rw [setHdr_hdr] at hd'
    by_cases hv0 : v = 0
    · have : m.hdr.setPacketID v = m.hdr := by unfold Hdr.setPacketID; rw [if_pos hv0]
      rw [this]
      have : m.setHdr m.hdr = m := by cases m <;> rfl
      rw [this]; exact hc
    · by_cases hl : m.hdr.pid.length ≠ 2
      · have : (m.hdr.setPacketID v).dirty = true := by
          unfold Hdr.setPacketID; rw [if_neg hv0, if_pos hl]
        rw [this] at hd'; cases hd'
      · simp only [ne_eq, Decidable.not_not] at hl
        have hid : HasId m := by
          by_cases hid : HasId m
          · exact hid
          · exact absurd hl (hc.pidOut hid)
        obtain ⟨_, hoff⟩ := hc.pidIn hid
        generalize hoffv : 1 + V.length + (bpre m).length = off at hoff
        have hpre : (m.hdr.tf :: (V ++ bpre m)).length = off := by
          rw [← hoffv]; simp only [List.length_cons, List.length_append]; omega
        have hset : m.hdr.setPacketID v = writePid m.hdr v off := by
          unfold Hdr.setPacketID writePid
          rw [if_neg hv0, if_neg (by simp [hl]), hoff]
        rw [hset]
        generalize hH : writePid m.hdr v off = H
        have Htf : H.tf = m.hdr.tf := by rw [← hH]; rfl
        have Hpid : H.pid = putU16 v := by rw [← hH]; rfl
        have Hoff : H.pidOff = m.hdr.pidOff := by rw [← hH]; rfl
        have Hin : H.tfInBuf = m.hdr.tfInBuf := by rw [← hH]; rfl
        have Hbuf : H.dbuf = (m.hdr.dbuf.set off (UInt8.ofNat (v / 256))).set (off + 1) (UInt8.ofNat (v % 256)) := by
          rw [← hH]; rfl
        have hid' : HasId (m.setHdr H) := (setHdr_hasId m H Htf).mpr hid
        have hsH : Shape (m.setHdr H) := by rw [← hH, ← hset]; exact hs'
        have hpl' : (m.setHdr H).hdr.pid.length = 2 := by rw [setHdr_hdr, Hpid]; rfl
        constructor
        · rw [setHdr_hdr, Hbuf, hc.buf, encV_split V m hs hid hl]
          rw [encV_split V (m.setHdr H) hsH hid' hpl']
          rw [setHdr_hdr, setHdr_bpre, setHdr_bpost, Hpid, Htf, ← hpre]
          match hp : m.hdr.pid, hl with
          | [a, b], _ =>
            simp only [List.cons_append, List.nil_append]
            have := set_two (m.hdr.tf :: (V ++ bpre m)) (bpost m) a b (UInt8.ofNat (v / 256)) (UInt8.ofNat (v % 256))
            simp only [List.cons_append] at this
            rw [this]
            rfl
        · have e1 := body_split m hid hl
          have e2 := body_split (m.setHdr H) hid' hpl'
          rw [setHdr_hdr, setHdr_bpre, setHdr_bpost] at e2
          have hlen : (absMsg (m.setHdr H)).body.length = (absMsg m).body.length := by
            rw [e1, e2]
            simp only [List.length_append, Hpid, hl]
            rfl
          rw [hlen]; exact hc.vlen
        · rw [setHdr_hdr, Hin]; exact hc.tfIn
        · intro _
          rw [setHdr_hdr, Hpid, Hoff, hoff, setHdr_bpre, hoffv]
          exact ⟨rfl, rfl⟩
        · intro hn; exact absurd hid' hn

/-! ## reachable messages -/

/-- the invariant of every message object reachable through the API from `New()` or from a decoder whose
input was the encoding, with remaining-length bytes `V`, of the fields it returned -/
def RInv (V : Bytes) (m : Msg) : Prop := Shape m ∧ (m.hdr.dirty = false → CleanInv V m)

theorem step_dirty {m m' : Msg} (st : Step m m') (hd : m.hdr.dirty = true) : m'.hdr.dirty = true := by
  cases st with
  | same => exact hd
  | dirty _ h => exact h
  | flags h t p v hm _ => subst hm; exact hd
  | pid v _ _ => rw [setHdr_hdr]; exact (setPacketID_keeps m.hdr v).2.2 hd

theorem setter_dirty (m : Msg) (s : Setter) (hd : m.hdr.dirty = true) : (applySetter m s).1.hdr.dirty = true :=
  step_dirty (step_of_setter m s) hd

theorem rinv_set (V : Bytes) (m : Msg) (s : Setter) (hi : RInv V m) : RInv V (applySetter m s).1 := by
  obtain ⟨hs, hc⟩ := hi
  have hs' := shape_set m s hs
  refine ⟨hs', fun hd' => ?_⟩
  have hd : m.hdr.dirty = false := by
    cases hdm : m.hdr.dirty with
    | false => rfl
    | true => rw [setter_dirty m s hdm] at hd'; cases hd'
  exact clean_step (step_of_setter m s) hs hs' (hc hd) hd'

theorem rinv_new (V : Bytes) {t : Nat} {m : Msg} (h : Msg.new t = some m) : RInv V m := by
  obtain ⟨hd, hs⟩ := freshInv_new h
  exact ⟨hs, fun hc => by rw [hd] at hc; cases hc⟩

/-! ## what a decoder establishes -/

/-- the bytes a decoder accepted are the type/flags byte, the remaining-length bytes `V` (a 1–4 byte
encoding of the body length, section 2.2.3) and the body of the fields it returned -/
def BodyCanonical (src : Bytes) (d : Decoded) (V : Bytes) : Prop :=
  src.take d.n = Wire.encodeV V (absMsg d.msg) ∧ Wire.getVarint 4 V = some ((absMsg d.msg).body.length, [])

/-- the bytes a decoder accepted are the reference encoding of the fields it returned
(minimal remaining-length encoding; every CONNECT field announced by a flag present) -/
def CanonicalSrc (src : Bytes) (d : Decoded) : Prop := Wire.encode (absMsg d.msg) = src.take d.n

instance (src : Bytes) (d : Decoded) : Decidable (CanonicalSrc src d) :=
  inferInstanceAs (Decidable (Wire.encode (absMsg d.msg) = src.take d.n))

theorem shape_dec {t : Nat} {src : Bytes} {d : Decoded} (h : decodeNew t src = .ok d) : Shape d.msg :=
  (decodeNew_alias h).shape

/-- `binary.Uvarint` consumes exactly the bytes of a remaining length that the algorithm of section 2.2.3 reads -/
theorem uvarintAux_getVarint : ∀ (fuel : Nat) (V : Bytes) (v : Nat) (tail : Bytes) (i x : Nat),
    Wire.getVarint fuel V = some (v, []) → i + fuel ≤ 9 →
    (uvarintAux (V ++ tail) i x).2 = (i : Int) + V.length := by
  intro fuel
  induction fuel with
  | zero => intro V v tail i x h; simp [Wire.getVarint] at h
  | succ k ih =>
    intro V v tail i x h hi
    cases V with
    | nil => simp [Wire.getVarint] at h
    | cons b r =>
      unfold Wire.getVarint at h
      simp only [List.cons_append]
      unfold uvarintAux
      rw [if_neg (by omega)]
      split at h
      · rename_i hb
        injection h with h
        injection h with h1 h2
        subst h2
        rw [if_pos hb, if_neg (by omega)]
        simp
      · rename_i hb
        rw [if_neg hb]
        cases hg : Wire.getVarint k r with
        | none => rw [hg] at h; simp at h
        | some y =>
          rw [hg] at h
          simp only [Option.some.injEq, Prod.mk.injEq] at h
          have hy : Wire.getVarint k r = some (y.1, []) := by rw [hg, ← h.2]
          rw [ih r y.1 tail (i + 1) _ hy (by omega)]
          simp only [List.length_cons]
          omega

theorem uvarint_count_of_getVarint (V : Bytes) (v : Nat) (tail : Bytes) (h : Wire.getVarint 4 V = some (v, [])) :
    (uvarint (V ++ tail)).2 = (V.length : Int) := by
  unfold uvarint
  rw [uvarintAux_getVarint 4 V v tail 0 0 h (by omega)]
  simp

/-- a decoder whose input was `V` + body establishes the invariant -/
theorem rinv_dec {t : Nat} {src : Bytes} {d : Decoded} {V : Bytes} (h : decodeNew t src = .ok d)
    (hcan : BodyCanonical src d V) : RInv V d.msg := by
  have ok := (decodeNew_total t src).of_ok h
  obtain ⟨hs, htf, h', hn, hdec, hbuf, hpid⟩ := decodeNew_alias h
  refine ⟨hs, fun _ => ?_⟩
  obtain ⟨htake, hV⟩ := hcan
  have hsrc : src = Wire.encodeV V (absMsg d.msg) ++ src.drop d.n := by rw [← htake, List.take_append_drop]
  have hd1 : src.drop 1 = V ++ ((absMsg d.msg).body ++ src.drop d.n) := by
    have e : src.drop 1 = (Wire.encodeV V (absMsg d.msg) ++ src.drop d.n).drop 1 := by rw [← hsrc]
    rw [e]
    unfold Wire.encodeV
    simp
  have hhn : hn = 1 + V.length := by
    rw [hdr_decode_count hdec, hd1, uvarint_count_of_getVarint V _ _ hV]
    simp
  refine ⟨ok.dbuf.trans htake, hV, htf, ?_, ?_⟩
  · intro hid
    cases hm : d.msg with
    | publish hd t p =>
      rw [hm] at hid hpid
      have hq : ¬ pubQoS hd = 0 := hid
      simp only [PidDec, hq, if_false] at hpid
      refine ⟨hpid.1, ?_⟩
      simp only [Msg.hdr]
      rw [hpid.2, hhn]
      simp [bpre, Wire.str]; omega
    | ack hd =>
      rw [hm] at hpid
      refine ⟨hpid.1, ?_⟩
      simp only [Msg.hdr]
      rw [hpid.2, hhn]
      simp [bpre]
    | subscribe hd ts qs =>
      rw [hm] at hpid
      refine ⟨hpid.1, ?_⟩
      simp only [Msg.hdr]
      rw [hpid.2, hhn]
      simp [bpre]
    | suback hd codes =>
      rw [hm] at hpid
      refine ⟨hpid.1, ?_⟩
      simp only [Msg.hdr]
      rw [hpid.2, hhn]
      simp [bpre]
    | unsubscribe hd ts =>
      rw [hm] at hpid
      refine ⟨hpid.1, ?_⟩
      simp only [Msg.hdr]
      rw [hpid.2, hhn]
      simp [bpre]
    | connect hd c => rw [hm] at hid; exact absurd hid id
    | connack hd a b => rw [hm] at hid; exact absurd hid id
    | bare hd => rw [hm] at hid; exact absurd hid id
  · intro hid
    cases hm : d.msg with
    | publish hd t p =>
      rw [hm] at hid hpid
      have hq : pubQoS hd = 0 := Decidable.not_not.mp hid
      simp only [PidDec, hq, if_true] at hpid
      simp only [Msg.hdr]; rw [hpid]; simp
    | ack hd => rw [hm] at hid; exact absurd trivial hid
    | subscribe hd ts qs => rw [hm] at hid; exact absurd trivial hid
    | suback hd codes => rw [hm] at hid; exact absurd trivial hid
    | unsubscribe hd ts => rw [hm] at hid; exact absurd trivial hid
    | connect hd c => rw [hm] at hpid; simp only [Msg.hdr]; rw [show hd.pid = [] from hpid]; simp
    | connack hd a b => rw [hm] at hpid; simp only [Msg.hdr]; rw [show hd.pid = [] from hpid]; simp
    | bare hd => rw [hm] at hpid; simp only [Msg.hdr]; rw [show hd.pid = [] from hpid]; simp

/-- a reference encoding is the encoding with the minimal remaining-length bytes -/
theorem canonical_body {t : Nat} {src : Bytes} {d : Decoded} (h : decodeNew t src = .ok d) (hcan : CanonicalSrc src d) :
    BodyCanonical src d (Wire.varint (absMsg d.msg).body.length) ∧ (absMsg d.msg).body.length ≤ 268435455 := by
  have ok := (decodeNew_total t src).of_ok h
  obtain ⟨hs, htf, h', hn, hdec, hbuf, hpid⟩ := decodeNew_alias h
  have hh := hdr_decode_ok hdec
  have hn_eq : d.n = hn + h'.remlen := by
    have e1 : d.msg.hdr.dbuf = src.take d.n := ok.dbuf
    have e2 : h'.dbuf = src.take (hn + h'.remlen) := hh.dbuf
    have := congrArg List.length (e1.symm.trans (hbuf.trans e2))
    rw [List.length_take, List.length_take] at this
    have := ok.n_le
    have := hh.fits
    omega
  obtain ⟨_, hL⟩ := hn_of_canonical hdec (absMsg d.msg) d.n hcan.symm ok.n_le hn_eq
  refine ⟨⟨hcan.symm, ?_⟩, hL⟩
  have := getVarint_varint (absMsg d.msg).body.length hL []
  rwa [List.append_nil] at this

/-- with the minimal remaining-length bytes the invariant's buffer is the reference encoding -/
theorem clean_reference {L0 : Nat} (hL0 : L0 ≤ 268435455) {m : Msg} (hc : CleanInv (Wire.varint L0) m) :
    m.hdr.dbuf = Wire.encode (absMsg m) := by
  have h1 := hc.vlen
  have h2 := getVarint_varint L0 hL0 []
  rw [List.append_nil] at h2
  rw [h2] at h1
  simp only [Option.some.injEq, Prod.mk.injEq, and_true] at h1
  rw [hc.buf, h1]
  rfl

end Mqtt.Proofs.Codec
