/-
Refinement step, first part: events that leave the session / connection /
subscription bookkeeping alone - packets on a connection the broker does not
know, PINGREQ, acknowledgements, PUBLISH with QoS 0 and 1, `Server.Publish`.
-/
import Mqtt.Proofs.BrokerRefineDefs

set_option linter.unusedSimpArgs false

namespace Mqtt.Proofs.BrokerRefine
open Mqtt.Iface.Broker Mqtt.Model.Broker
open Mqtt.Model.Topics (MemTopics RMsg RNode)
open Mqtt.Proofs.Topics (WF RWF abs absR good entryLevels)
open Mqtt.Spec.Match (split validName validFilter topicMatches)
open Mqtt.Proofs.Broker (HeldInv RetInv heldEntry)
open Mqtt.Proofs.BrokerQos (toOpen2)
open Mqtt.Spec.Broker (Accepts SOut)

/-- the three representation invariants of the model are kept by every event -/
theorem R.step_invs {b : B} {s : Spec.Broker.S} (h : R b s) (e : Ev) :
    Mqtt.Proofs.Broker.Inv (step b e).1 ∧ Mqtt.Proofs.BrokerLife.Inv (step b e).1 ∧
    Mqtt.Proofs.BrokerQos.BInv (step b e).1 :=
  ⟨Mqtt.Proofs.Broker.Inv_step b e h.inv, Mqtt.Proofs.BrokerLife.inv_step h.linv e,
   Mqtt.Proofs.BrokerQos.step_inv h.qinv e⟩

theorem heldOf_congr {s s' : Spec.Broker.S} (h : s'.held = s.held) (c : Nat) :
    Spec.Broker.heldOf s' c = Spec.Broker.heldOf s c := by
  unfold Spec.Broker.heldOf; rw [h]

theorem spec_getConn_congr {s s' : Spec.Broker.S} (h : s'.conns = s.conns) (c : Nat) :
    Spec.Broker.getConn s' c = Spec.Broker.getConn s c := by
  unfold Spec.Broker.getConn; rw [h]

theorem LiveRel.congr {b b' : B} {s s' : Spec.Broker.S} {c : Nat} {σ : Sess} {k : Spec.Broker.Conn}
    (h : LiveRel b s c σ k) (hst : b'.store = b.store) (hheld : Spec.Broker.heldOf s' c = Spec.Broker.heldOf s c) :
    LiveRel b' s' c σ k :=
  ⟨h.cid, h.clean, h.willFlag, h.will, h.willOk, h.open2, h.q2ok, by rw [hheld]; exact h.topics,
   by rw [storeGet_congr hst]; exact h.store⟩

theorem StoredRel.congr {b b' : B} {s s' : Spec.Broker.S} {x : Bytes} (h : StoredRel b s x)
    (hr : resumable b' x = resumable b x) (hl : s'.stored.lookup x = s.stored.lookup x) : StoredRel b' s' x :=
  ⟨by intro σ hσ; rw [hl]; exact h.some σ (hr ▸ hσ), by intro hn; rw [hl]; exact h.none (hr ▸ hn)⟩

/-- transfer of `R` across an event that changes only the retained store and
the identifier counter (model) / the retained messages (reference broker) -/
theorem R_frame {b b' : B} {s s' : Spec.Broker.S} (h : R b s)
    (inv' : Mqtt.Proofs.Broker.Inv b') (linv' : Mqtt.Proofs.BrokerLife.Inv b') (qinv' : Mqtt.Proofs.BrokerQos.BInv b')
    (hc : b'.conns = b.conns) (hs : b'.sess = b.sess) (hst : b'.store = b.store)
    (hsr : b'.topics.sroot = b.topics.sroot)
    (hheld : s'.held = s.held) (hstored : s'.stored = s.stored) (hconns : s'.conns = s.conns)
    (hrets : RetInv b'.topics.rroot s'.rets) (hretsOk : ∀ r ∈ s'.rets, validName r.topic = true)
    (hids : IdsOk b'.topics.rroot) : R b' s' := by
  have hal : ∀ c, b'.alive c = b.alive c := Mqtt.Proofs.Broker.alive_congr b b' hc
  refine ⟨inv', linv', qinv', by rw [hsr, hheld]; exact h.held,
    by rw [hheld]; exact h.heldGood, ?_, hrets, hretsOk, hids, ?_, by rw [hc]; exact h.mconns, by rw [hconns]; exact h.sconns, ?_, ?_, ?_, ?_⟩
  · intro x hx hlt; rw [hal]; rw [hheld] at hx; exact h.owners x hx hlt
  · intro c hc'; rw [hal] at hc'; exact h.connLt c hc'
  · intro c; rw [hal, spec_getConn_congr hconns]; exact h.connsIff c
  · intro c σ hl
    rw [liveSess_congr hc hs] at hl
    obtain ⟨k, hk, hrel⟩ := h.live c σ hl
    exact ⟨k, by rw [spec_getConn_congr hconns]; exact hk, hrel.congr hst (heldOf_congr hheld c)⟩
  · intro c c' σ σ' h1 h2
    rw [liveSess_congr hc hs] at h1 h2
    exact h.cidUniq c c' σ σ' h1 h2
  · intro x hx hfree
    refine (h.stored x hx ?_).congr (resumable_congr hst hs x) (by rw [hstored])
    intro c σ hl
    exact hfree c σ (by rw [liveSess_congr hc hs]; exact hl)

theorem spec_retainStep_retsOk (s : Spec.Broker.S) (p : Pub) (h : ∀ r ∈ s.rets, validName r.topic = true)
    (hp : validName p.topic = true) : ∀ r ∈ (Spec.Broker.retainStep s p).rets, validName r.topic = true := by
  unfold Spec.Broker.retainStep
  split
  · exact h
  · split
    · intro r hr; exact h r (List.mem_filter.mp hr).1
    · intro r hr
      rcases List.mem_append.mp hr with h1 | h1
      · exact h r (List.mem_filter.mp h1).1
      · simp only [List.mem_singleton] at h1; subst h1; exact hp

/-- `onPublish` / `accept` as a whole: `R` is kept and the outputs are a fan-out.
The three model invariants of the new state are supplied by the caller (they
come from the `step` the `onPublish` is part of). -/
theorem R_onPublish {b : B} {s : Spec.Broker.S} (h : R b s) (m : Msg)
    (hg : good m.p.topic = true) (hn : validName m.p.topic = true) (hq : m.p.qos ≤ 2)
    (hok : m.p.pktid ≠ 0 ∨ m.dirty = true ∨ m.p.qos = 0)
    (inv' : Mqtt.Proofs.Broker.Inv (onPublish b m).1) (linv' : Mqtt.Proofs.BrokerLife.Inv (onPublish b m).1)
    (qinv' : Mqtt.Proofs.BrokerQos.BInv (onPublish b m).1) :
    R (onPublish b m).1 (Spec.Broker.accept s m.p).1 ∧ Fan (Spec.Broker.accept s m.p).2 (onPublish b m).2.2.1 ∧
    (onPublish b m).2.2.2 = true := by
  obtain ⟨r1, r2, r3, r4⟩ := onPublish_refines b m s h.inv.wf h.held h.owners h.rets h.retIds hg hn hq hok
  obtain ⟨fr, _⟩ := Mqtt.Proofs.BrokerQos.onPublish_frame b m
  obtain ⟨g1, g2, g3⟩ := spec_retainStep_frame s m.p
  refine ⟨R_frame h inv' linv' qinv' fr.conns fr.sess fr.store fr.sroot g1 g2 g3 r2 ?_ r3, r4, r1⟩
  exact spec_retainStep_retsOk s m.p h.retsOk hn

/-! ### packets -/

/-- a live connection: table entry, session object, the reference broker's record -/
theorem R.liveConn {b : B} {s : Spec.Broker.S} (h : R b s) {c : Nat} (hl : b.alive c = true) :
    ∃ cn σ k, b.getConn c = some cn ∧ cn.alive = true ∧ b.getSess cn.sess = some σ ∧
      Spec.Broker.getConn s c = some k ∧ LiveRel b s c σ k := by
  obtain ⟨cn, σ, hc, ha, hs⟩ := h.inv.live b c hl
  obtain ⟨k, hk, hrel⟩ := h.live c σ (liveSess_eq hc ha hs)
  exact ⟨cn, σ, k, hc, ha, hs, hk, hrel⟩

theorem R.specConn_none {b : B} {s : Spec.Broker.S} (h : R b s) {c : Nat} (hl : b.alive c = false) :
    Spec.Broker.getConn s c = none := by
  have := h.connsIff c
  rw [hl] at this
  cases hg : Spec.Broker.getConn s c with
  | none => rfl
  | some k => rw [hg] at this; cases this

/-- a packet on a connection the broker does not know (never accepted, or closed) -/
theorem step_packet_dead {b : B} {s : Spec.Broker.S} (h : R b s) (c : Nat) (p : Packet) (hl : b.alive c = false) :
    R (step b (.packet c p)).1 (Spec.Broker.step1 s (.packet c p)).1 ∧
    Accepts (Spec.Broker.step1 s (.packet c p)).2 (step b (.packet c p)).2 := by
  have hm : step b (.packet c p) = (b, []) := Mqtt.Proofs.BrokerLife.packet_dead b c p hl
  have hsp : Spec.Broker.step1 s (.packet c p) = (s, [.unspecified]) := by
    simp only [Spec.Broker.step1, h.specConn_none hl]
  rw [hm, hsp]
  exact ⟨h, accepts_unspecified _⟩

/-- packets that change nothing and are answered by at most one fixed packet -/
theorem step_packet_simple {b : B} {s : Spec.Broker.S} (h : R b s) (c : Nat) (hl : b.alive c = true) (p : Packet)
    (hp : p = .pingreq ∨ (∃ id, p = .pubrec id) ∨ (∃ id, p = .puback id) ∨ (∃ id, p = .pubcomp id) ∨
      p = .pingresp ∨ (∃ id cs, p = .suback id cs) ∨ (∃ id, p = .unsuback id) ∨ (∃ sp k, p = .connack sp k) ∨
      p = .connectAgain) :
    R (step b (.packet c p)).1 (Spec.Broker.step1 s (.packet c p)).1 ∧
    Accepts (Spec.Broker.step1 s (.packet c p)).2 (step b (.packet c p)).2 := by
  obtain ⟨cn, σ, k, hc, ha, hs, hk, _⟩ := h.liveConn hl
  have hsend : ∀ q, send b c q = [.send c q] := fun q => Mqtt.Proofs.BrokerQos.send_alive hl q
  rcases hp with rfl | ⟨id, rfl⟩ | ⟨id, rfl⟩ | ⟨id, rfl⟩ | rfl | ⟨id, cs, rfl⟩ | ⟨id, rfl⟩ | ⟨sp, kk, rfl⟩ | rfl
  · have hm : step b (.packet c .pingreq) = (b, [.send c .pingresp]) := by
      simp [step, packet, hc, ha, hs, hsend]
    have hsp : Spec.Broker.step1 s (.packet c .pingreq) = (s, [.send c .pingresp]) := by
      simp only [Spec.Broker.step1, hk]
    rw [hm, hsp]
    exact ⟨h, accepts_lits (.cons (.send c _ (by intro w h; cases h)) .nil)⟩
  · have hm : step b (.packet c (.pubrec id)) = (b, [.send c (.pubrel id)]) := by
      simp [step, packet, hc, ha, hs, hsend]
    have hsp : Spec.Broker.step1 s (.packet c (.pubrec id)) = (s, [.send c (.pubrel id)]) := by
      simp only [Spec.Broker.step1, hk]
    rw [hm, hsp]
    exact ⟨h, accepts_lits (.cons (.send c _ (by intro w h; cases h)) .nil)⟩
  · have hm : step b (.packet c (.puback id)) = (b, []) := by simp [step, packet, hc, ha, hs]
    have hsp : Spec.Broker.step1 s (.packet c (.puback id)) = (s, []) := by simp only [Spec.Broker.step1, hk]
    rw [hm, hsp]; exact ⟨h, accepts_nil⟩
  · have hm : step b (.packet c (.pubcomp id)) = (b, []) := by simp [step, packet, hc, ha, hs]
    have hsp : Spec.Broker.step1 s (.packet c (.pubcomp id)) = (s, []) := by simp only [Spec.Broker.step1, hk]
    rw [hm, hsp]; exact ⟨h, accepts_nil⟩
  · have hm : step b (.packet c .pingresp) = (b, []) := by simp [step, packet, hc, ha, hs]
    have hsp : Spec.Broker.step1 s (.packet c .pingresp) = (s, [.unspecified]) := by
      simp only [Spec.Broker.step1, hk]
    rw [hm, hsp]; exact ⟨h, accepts_unspecified _⟩
  · have hm : step b (.packet c (.suback id cs)) = (b, []) := by simp [step, packet, hc, ha, hs]
    have hsp : Spec.Broker.step1 s (.packet c (.suback id cs)) = (s, [.unspecified]) := by
      simp only [Spec.Broker.step1, hk]
    rw [hm, hsp]; exact ⟨h, accepts_unspecified _⟩
  · have hm : step b (.packet c (.unsuback id)) = (b, []) := by simp [step, packet, hc, ha, hs]
    have hsp : Spec.Broker.step1 s (.packet c (.unsuback id)) = (s, [.unspecified]) := by
      simp only [Spec.Broker.step1, hk]
    rw [hm, hsp]; exact ⟨h, accepts_unspecified _⟩
  · have hm : step b (.packet c (.connack sp kk)) = (b, []) := by simp [step, packet, hc, ha, hs]
    have hsp : Spec.Broker.step1 s (.packet c (.connack sp kk)) = (s, [.unspecified]) := by
      simp only [Spec.Broker.step1, hk]
    rw [hm, hsp]; exact ⟨h, accepts_unspecified _⟩
  · have hm : step b (.packet c .connectAgain) = (b, []) := by simp [step, packet, hc, ha, hs]
    have hsp : Spec.Broker.step1 s (.packet c .connectAgain) = (s, [.unspecified]) := by
      simp only [Spec.Broker.step1, hk]
    rw [hm, hsp]; exact ⟨h, accepts_unspecified _⟩

theorem pubOk_iff (p : Pub) (h : pubOk p = true) :
    good p.topic = true ∧ validName p.topic = true ∧ p.qos ≤ 2 ∧ (p.qos = 0 ∨ p.pktid ≠ 0) := by
  simp only [pubOk, Bool.and_eq_true, decide_eq_true_eq, Bool.or_eq_true, beq_iff_eq, bne_iff_ne, ne_eq] at h
  exact ⟨h.1.1.1, h.1.1.2, h.1.2, h.2⟩

/-- PUBLISH with QoS 0 or 1 on a live connection -/
theorem step_publish01 {b : B} {s : Spec.Broker.S} (h : R b s) (c : Nat) (hl : b.alive c = true) (p : Pub)
    (hp : pubOk p = true) (hq : p.qos = 0 ∨ p.qos = 1) :
    R (step b (.packet c (.publish p))).1 (Spec.Broker.step1 s (.packet c (.publish p))).1 ∧
    Accepts (Spec.Broker.step1 s (.packet c (.publish p))).2 (step b (.packet c (.publish p))).2 := by
  obtain ⟨cn, σ, k, hc, ha, hs, hk, _⟩ := h.liveConn hl
  obtain ⟨hg, hn, hq2, hid⟩ := pubOk_iff p hp
  obtain ⟨i1, i2, i3⟩ := h.step_invs (.packet c (.publish p))
  have hok : (⟨p, false⟩ : Msg).p.pktid ≠ 0 ∨ (⟨p, false⟩ : Msg).dirty = true ∨ (⟨p, false⟩ : Msg).p.qos = 0 := by
    rcases hid with h0 | h0
    · exact .inr (.inr h0)
    · exact .inl h0
  rcases hq with hq | hq
  · have hm : step b (.packet c (.publish p)) = ((onPublish b ⟨p, false⟩).1, (onPublish b ⟨p, false⟩).2.2.1) :=
      Mqtt.Proofs.BrokerQos.packet_publish0 hc ha hs p hq
    have hsp : Spec.Broker.step1 s (.packet c (.publish p)) = Spec.Broker.accept s p := by
      simp only [Spec.Broker.step1, hk, hq, BEq.rfl, ↓reduceIte]
    rw [hm] at i1 i2 i3 ⊢
    rw [hsp]
    obtain ⟨r1, r2, _⟩ := R_onPublish h ⟨p, false⟩ hg hn hq2 hok i1 i2 i3
    exact ⟨r1, accepts_fan r2⟩
  · have hm : step b (.packet c (.publish p)) =
        ((onPublish b ⟨p, false⟩).1, .send c (.puback p.pktid) :: (onPublish b ⟨p, false⟩).2.2.1) :=
      Mqtt.Proofs.BrokerQos.packet_publish1 hc ha hs p hq
    have hsp : Spec.Broker.step1 s (.packet c (.publish p)) =
        ((Spec.Broker.accept s p).1, .send c (.puback p.pktid) :: (Spec.Broker.accept s p).2) := by
      simp only [Spec.Broker.step1, hk, hq, BEq.rfl, ↓reduceIte]
      rfl
    rw [hm] at i1 i2 i3 ⊢
    rw [hsp]
    obtain ⟨r1, r2, _⟩ := R_onPublish h ⟨p, false⟩ hg hn hq2 hok i1 i2 i3
    refine ⟨r1, ?_⟩
    have := accepts_shape (.cons (.send c (.puback p.pktid) (by intro w h; cases h)) .nil) r2 .nil
    simpa using this

/-- `Server.Publish` -/
theorem step_srvPub {b : B} {s : Spec.Broker.S} (h : R b s) (p : Pub)
    (hg : good p.topic = true) (hn : validName p.topic = true) (hq : p.qos ≤ 2) :
    R (step b (.srvPub p)).1 (Spec.Broker.step1 s (.srvPub p)).1 ∧
    Accepts (Spec.Broker.step1 s (.srvPub p)).2 (step b (.srvPub p)).2 := by
  obtain ⟨i1, i2, i3⟩ := h.step_invs (.srvPub p)
  have e1 : (step b (.srvPub p)).1 = (onPublish b ⟨p, true⟩).1 := rfl
  rw [e1] at i1 i2 i3
  obtain ⟨r1, r2, r3⟩ := R_onPublish h ⟨p, true⟩ hg hn hq (.inr (.inl rfl)) i1 i2 i3
  have hm : step b (.srvPub p) = ((onPublish b ⟨p, true⟩).1, (onPublish b ⟨p, true⟩).2.2.1) := by
    simp only [step, srvPub, r3, ↓reduceIte]
  have hsp : Spec.Broker.step1 s (.srvPub p) = Spec.Broker.accept s p := rfl
  rw [hm, hsp]
  exact ⟨r1, accepts_fan r2⟩

end Mqtt.Proofs.BrokerRefine
