/-
Core A (codec): `Encode` — canonical re-encoding of decoded messages, and the dirty
path writes the reference wire encoding of the message's fields.
-/
import Mqtt.Proofs.CodecWire

set_option linter.unusedSimpArgs false
set_option linter.unusedVariables false

namespace Mqtt.Proofs.Codec

open Mqtt.Model.Codec Mqtt.Iface.Codec Mqtt.Generated
open Mqtt.Spec


/-- `Encode` of a message that is not dirty copies its decode buffer; `Len` is that buffer's length -/
theorem encode_clean (m : Msg) (ctr : UInt64) (hd : m.hdr.dirty = false) :
    m.len = m.hdr.dbuf.length ∧ encode m ctr m.len = .ok ⟨m, ctr, m.hdr.dbuf⟩ := by
  cases m <;> simp only [Msg.hdr] at hd <;>
    simp [Msg.len, Msg.hdr, encode, encodeClean, hd]

/-- re-encoding a freshly decoded message reproduces exactly the bytes of the packet, and `Len() = n` -/
theorem canonical (t : Nat) (src : Bytes) (d : Decoded) (ctr : UInt64) (h : decodeNew t src = .ok d) :
    d.msg.len = d.n ∧ encode d.msg ctr d.msg.len = .ok ⟨d.msg, ctr, src.take d.n⟩ := by
  have ok := (decodeNew_total t src).of_ok h
  obtain ⟨h1, h2⟩ := encode_clean d.msg ctr ok.clean
  rw [ok.dbuf] at h1 h2
  have : (src.take d.n).length = d.n := by rw [List.length_take]; have := ok.n_le; omega
  rw [this] at h1
  exact ⟨h1, h2⟩


theorem tf_eq (h : Hdr) : UInt8.ofNat (h.type * 16 + h.flags) = h.tf := by
  unfold Hdr.type Hdr.flags
  have : h.tf.toNat / 16 * 16 + h.tf.toNat % 16 = h.tf.toNat := by omega
  rw [this]; simp

theorem hdr_encode_ok {h : Hdr} {ml avail : Nat} {hb : Bytes} (he : h.encode ml avail = .ok hb) :
    hb = h.tf :: Wire.varint ml ∧ ml ≤ 268435455 := by
  unfold Hdr.encode at he
  split at he
  · cases he
  · split at he
    · cases he
    · rename_i hml
      split at he
      · cases he
      · simp only [] at he
        split at he
        · cases he
        · simp only [maxRemainingLength] at hml
          injection he with he
          rw [← he, putUvarint_eq_varint ml (by omega)]
          exact ⟨rfl, by omega⟩

theorem writeLP_ok {avail : Nat} {b out : Bytes} (h : writeLPBytes avail b = .ok out) :
    out = Wire.str b ∧ b.length ≤ 65535 := by
  unfold writeLPBytes at h
  split at h
  · cases h
  · rename_i hl
    split at h
    · cases h
    · injection h with h
      simp only [maxLPString] at hl
      rw [← h]
      exact ⟨rfl, by omega⟩

/-- the structural conditions under which a message object denotes a packet -/
def Canon : Msg → Prop
  | .connect h c =>
    h.flags = 0 ∧ c.connectFlags.toNat % 2 = 0 ∧
    (c.willFlag = false → c.willQos = 0 ∧ c.willRetain = false) ∧ c.keepAlive < 65536
  | .connack h _ _ => h.type = 2 ∧ h.flags = 0
  | .publish h _ _ => h.type = 3
  | .ack h => (h.type = 4 ∨ h.type = 5 ∨ h.type = 6 ∨ h.type = 7 ∨ h.type = 11) ∧ h.flags = defaultFlagsOf h.type
  | .subscribe h _ _ => h.type = 8 ∧ h.flags = 2
  | .suback h _ => h.type = 9 ∧ h.flags = 0
  | .unsubscribe h _ => h.type = 10 ∧ h.flags = 2
  | .bare h => (h.type = 12 ∨ h.type = 13 ∨ h.type = 14) ∧ h.flags = 0 ∧ h.remlen = 0

theorem pidOrZero_eq (h : Hdr) : pidOrZero h = Wire.u16 (u16of h.pid) := by
  unfold pidOrZero
  split
  · rename_i hl
    match hp : h.pid, hl with
    | [a, b], _ =>
      unfold u16of Wire.u16 beU16
      simp only []
      have ha := a.toNat_lt
      have hb := b.toNat_lt
      have e : (UInt16.ofNat (a.toNat * 256 + b.toNat)).toNat = a.toNat * 256 + b.toNat := by
        simp; omega
      rw [e]
      have e1 : (a.toNat * 256 + b.toNat) / 256 = a.toNat := by omega
      have e2 : (a.toNat * 256 + b.toNat) % 256 = b.toNat := by omega
      rw [e1, e2]; simp
  · rename_i hl
    have : u16of h.pid = 0 := by
      unfold u16of
      split
      · rename_i a b hp; rw [hp] at hl; simp at hl
      · rfl
    rw [this]; rfl

theorem encode_wire_ack (h : Hdr) (ctr : UInt64) (e : Encoded) (hd : h.dirty = true) (hc : Canon (.ack h))
    (he : encode (.ack h) ctr (Msg.ack h).len = .ok e) : e.out = Wire.encode (absMsg e.msg) := by
  unfold encode at he
  simp only [hd, Bool.not_true, Bool.false_eq_true, if_false] at he
  split at he
  · cases he
  · split at he
    · cases he
    · cases hh : h.encode (Msg.ack h).msglen (Msg.ack h).len with
      | err => rw [hh] at he; cases he
      | panic => rw [hh] at he; cases he
      | ok hb =>
        rw [hh] at he
        simp only [bind_ok] at he
        injection he with he
        rw [← he]
        obtain ⟨hb1, _⟩ := hdr_encode_ok hh
        simp only []
        rw [hb1, pidOrZero_eq]
        obtain ⟨ht, hf⟩ := hc
        have hml : (Msg.ack h).msglen = 2 := rfl
        rw [hml]
        rcases ht with ht | ht | ht | ht | ht
        all_goals
          rw [← tf_eq h, hf, ht]
          simp [absMsg, ht, Wire.encode, Wire.Packet.type, Wire.Packet.flags, Wire.Packet.body, Wire.u16,
            defaultFlagsOf, defaultFlags]


theorem encode_wire_bare (h : Hdr) (ctr : UInt64) (e : Encoded) (hd : h.dirty = true) (hc : Canon (.bare h))
    (he : encode (.bare h) ctr (Msg.bare h).len = .ok e) : e.out = Wire.encode (absMsg e.msg) := by
  unfold encode at he
  simp only [hd, Bool.not_true, Bool.false_eq_true, if_false] at he
  cases hh : h.encode h.remlen (Msg.bare h).len with
  | err => rw [hh] at he; cases he
  | panic => rw [hh] at he; cases he
  | ok hb =>
    rw [hh] at he
    simp only [bind_ok] at he
    injection he with he
    rw [← he]
    obtain ⟨hb1, _⟩ := hdr_encode_ok hh
    simp only []
    obtain ⟨ht, hf, hr⟩ := hc
    rw [hb1, hr]
    rcases ht with ht | ht | ht
    all_goals
      rw [← tf_eq h, hf, ht]
      simp [absMsg, ht, Wire.encode, Wire.Packet.type, Wire.Packet.flags, Wire.Packet.body]

theorem encode_wire_connack (h : Hdr) (sp : Bool) (rc : UInt8) (ctr : UInt64) (e : Encoded) (hd : h.dirty = true)
    (hc : Canon (.connack h sp rc))
    (he : encode (.connack h sp rc) ctr (Msg.connack h sp rc).len = .ok e) : e.out = Wire.encode (absMsg e.msg) := by
  unfold encode at he
  simp only [hd, Bool.not_true, Bool.false_eq_true, if_false] at he
  split at he
  · cases he
  · split at he
    · cases he
    · cases hh : h.encode (Msg.connack h sp rc).msglen (Msg.connack h sp rc).len with
      | err => rw [hh] at he; cases he
      | panic => rw [hh] at he; cases he
      | ok hb =>
        rw [hh] at he
        simp only [bind_ok] at he
        split at he
        · cases he
        · injection he with he
          rw [← he]
          obtain ⟨hb1, _⟩ := hdr_encode_ok hh
          simp only []
          obtain ⟨ht, hf⟩ := hc
          have hml : (Msg.connack h sp rc).msglen = 2 := rfl
          rw [hb1, hml, ← tf_eq h, hf, ht]
          cases sp <;> simp [absMsg, Wire.encode, Wire.Packet.type, Wire.Packet.flags, Wire.Packet.body, Wire.b2n]

theorem encode_wire_suback (h : Hdr) (codes : Bytes) (ctr : UInt64) (e : Encoded) (hd : h.dirty = true)
    (hc : Canon (.suback h codes))
    (he : encode (.suback h codes) ctr (Msg.suback h codes).len = .ok e) : e.out = Wire.encode (absMsg e.msg) := by
  unfold encode at he
  simp only [hd, Bool.not_true, Bool.false_eq_true, if_false] at he
  split at he
  · cases he
  · split at he
    · cases he
    · split at he
      · cases he
      · cases hh : h.encode (Msg.suback h codes).msglen (Msg.suback h codes).len with
        | err => rw [hh] at he; cases he
        | panic => rw [hh] at he; cases he
        | ok hb =>
          rw [hh] at he
          simp only [bind_ok] at he
          injection he with he
          rw [← he]
          obtain ⟨hb1, _⟩ := hdr_encode_ok hh
          simp only []
          obtain ⟨ht, hf⟩ := hc
          have hml : (Msg.suback h codes).msglen = 2 + codes.length := rfl
          rw [hb1, hml, pidOrZero_eq, ← tf_eq h, hf, ht]
          simp [absMsg, Wire.encode, Wire.Packet.type, Wire.Packet.flags, Wire.Packet.body, Wire.u16]
          congr 1; omega


theorem pid_two (h : Hdr) (hl : h.pid.length = 2) : h.pid = Wire.u16 (u16of h.pid) := by
  have := pidOrZero_eq h
  unfold pidOrZero at this
  rw [if_pos hl] at this
  exact this

theorem putU16_eq (v : Nat) (hv : v < 65536) : putU16 v = Wire.u16 (UInt16.ofNat v) := by
  unfold putU16 Wire.u16
  have : (UInt16.ofNat v).toNat = v := by simp; omega
  rw [this]

theorem packetID_ne_zero_len (h : Hdr) (hp : h.packetID ≠ 0) : h.pid.length = 2 := by
  unfold Hdr.packetID at hp
  split at hp
  · rename_i a b hpid; rw [hpid]; rfl
  · exact absurd rfl hp

/-- the header after `if m.PacketID() == 0 { m.SetPacketID(nextPacketID()) }` -/
def withAutoId (h : Hdr) (ctr : UInt64) : Hdr × UInt64 :=
  if h.packetID = 0 then ((h.setPacketID (nextPacketID ctr).1), (nextPacketID ctr).2) else (h, ctr)

theorem nextPacketID_bounds (ctr : UInt64) : (nextPacketID ctr).1 ≠ 0 ∧ (nextPacketID ctr).1 < 65536 := by
  constructor
  · unfold nextPacketID
    simp only []
    split
    · assumption
    · rename_i h
      have h1 := (ctr + 1).toNat_lt
      have h2 : (1 : UInt64).toNat = 1 := rfl
      rw [UInt64.toNat_add (ctr+1) 1, h2]
      generalize (ctr + 1).toNat = x at *
      omega
  · unfold nextPacketID
    simp only []
    split <;> omega

theorem withAutoId_pid (h : Hdr) (ctr : UInt64) :
    (withAutoId h ctr).1.pid = Wire.u16 (u16of (withAutoId h ctr).1.pid) ∧ (withAutoId h ctr).1.tf = h.tf := by
  unfold withAutoId
  split
  · rename_i h0
    obtain ⟨hn0, hlt⟩ := nextPacketID_bounds ctr
    simp only []
    unfold Hdr.setPacketID
    rw [if_neg hn0]
    split
    · simp only []
      refine ⟨?_, trivial⟩
      rw [putU16_eq _ hlt]
      rw [u16of_u16]
    · split
      · simp only []
        refine ⟨?_, trivial⟩
        rw [putU16_eq _ hlt, u16of_u16]
      · simp only []
        refine ⟨?_, trivial⟩
        rw [putU16_eq _ hlt, u16of_u16]
  · rename_i h0
    exact ⟨pid_two h (packetID_ne_zero_len h h0), rfl⟩

theorem encode_wire_publish (h : Hdr) (topic payload : Bytes) (ctr : UInt64) (e : Encoded) (hd : h.dirty = true)
    (hc : Canon (.publish h topic payload))
    (he : encode (.publish h topic payload) ctr (Msg.publish h topic payload).len = .ok e) :
    e.out = Wire.encode (absMsg e.msg) := by
  unfold encode at he
  simp only [hd, Bool.not_true, Bool.false_eq_true, if_false] at he
  split at he
  · cases he
  · split at he
    · cases he
    · split at he
      · cases he
      · cases hh : h.encode (Msg.publish h topic payload).msglen (Msg.publish h topic payload).len with
        | err => rw [hh] at he; cases he
        | panic => rw [hh] at he; cases he
        | ok hb =>
          rw [hh] at he
          simp only [bind_ok] at he
          obtain ⟨hb1, _⟩ := hdr_encode_ok hh
          cases hw : writeLPBytes ((Msg.publish h topic payload).len - hb.length) topic with
          | err => rw [hw] at he; cases he
          | panic => rw [hw] at he; cases he
          | ok tp =>
            rw [hw] at he
            simp only [bind_ok] at he
            obtain ⟨htp, htl⟩ := writeLP_ok hw
            have ht : h.type = 3 := hc
            have hfl := Nat.mod_lt h.tf.toNat (show 16 > 0 by omega)
            split at he
            · rename_i hq
              injection he with he
              rw [← he]
              simp only []
              have hwa := withAutoId_pid h ctr
              unfold withAutoId at hwa
              obtain ⟨hp1, hp2⟩ := hwa
              rw [hb1, htp, hp1]
              have hml : (Msg.publish h topic payload).msglen = 2 + topic.length + payload.length + 2 := by
                simp only [Msg.msglen, if_pos hq]
              rw [hml]
              have hq' : pubQoS (if h.packetID = 0 then (h.setPacketID (nextPacketID ctr).fst, (nextPacketID ctr).snd) else (h, ctr)).fst = pubQoS h := by
                unfold pubQoS Hdr.flags; rw [hp2]
              simp only [absMsg, hq', if_neg hq, Wire.encode, Wire.Packet.type, Wire.Packet.flags, Wire.Packet.body]
              have hqn : (UInt8.ofNat (pubQoS h) = 0) = False := by
                have : pubQoS h < 4 := by unfold pubQoS; omega
                simp only [eq_iff_iff, iff_false]
                intro e0
                have := congrArg UInt8.toNat e0
                simp at this
                omega
              simp only [hqn, if_false]
              rw [← tf_eq h, ht]
              have hdr : pubDup (if h.packetID = 0 then (h.setPacketID (nextPacketID ctr).fst, (nextPacketID ctr).snd) else (h, ctr)).fst = pubDup h := by
                unfold pubDup Hdr.flags; rw [hp2]
              have hrr : pubRetain (if h.packetID = 0 then (h.setPacketID (nextPacketID ctr).fst, (nextPacketID ctr).snd) else (h, ctr)).fst = pubRetain h := by
                unfold pubRetain Hdr.flags; rw [hp2]
              rw [hdr, hrr]
              have hflags : Wire.b2n (pubDup h) * 8 + (UInt8.ofNat (pubQoS h)).toNat * 2 + Wire.b2n (pubRetain h) = h.flags := by
                have : pubQoS h < 4 := by unfold pubQoS; omega
                have e1 : (UInt8.ofNat (pubQoS h)).toNat = pubQoS h := by simp; omega
                rw [e1]
                unfold pubDup pubQoS pubRetain Wire.b2n
                by_cases h1 : h.flags / 8 % 2 = 1 <;> by_cases h2 : h.flags % 2 = 1 <;> simp [h1, h2] <;> unfold Hdr.flags at * <;> omega
              rw [hflags]
              simp [Wire.str, Wire.u16]
              congr 1; omega
            · rename_i hq
              simp only [Decidable.not_not] at hq
              injection he with he
              rw [← he]
              simp only []
              rw [hb1, htp]
              have hml : (Msg.publish h topic payload).msglen = 2 + topic.length + payload.length + 0 := by
                simp only [Msg.msglen]; rw [if_neg (by omega)]
              rw [hml]
              simp only [absMsg, hq, if_true, Wire.encode, Wire.Packet.type, Wire.Packet.flags, Wire.Packet.body]
              have hz : (UInt8.ofNat 0 = 0) = True := by simp
              simp only [hz, if_true]
              rw [← tf_eq h, ht]
              have hflags : Wire.b2n (pubDup h) * 8 + (UInt8.ofNat 0).toNat * 2 + Wire.b2n (pubRetain h) = h.flags := by
                unfold pubQoS at hq
                unfold pubDup pubRetain Wire.b2n
                by_cases h1 : h.flags / 8 % 2 = 1 <;> by_cases h2 : h.flags % 2 = 1 <;> simp [h1, h2] <;> unfold Hdr.flags at * <;> omega
              rw [hflags]
              simp [Wire.str]
              congr 1; omega


theorem writeTopicsQos_ok : ∀ (ts : List Bytes) (qs : List UInt8) (avail : Nat) (body : Bytes),
    writeTopicsQos avail ts qs = .ok body →
    body = encFilters (ts.zip qs) ∧ body.length = (ts.map (fun t => 2 + t.length + 1)).sum := by
  intro ts
  induction ts with
  | nil => intro qs avail body h; simp [writeTopicsQos] at h; subst h; simp [encFilters]
  | cons t ts ih =>
    intro qs avail body h
    unfold writeTopicsQos at h
    cases hw : writeLPBytes avail t with
    | err => rw [hw] at h; cases h
    | panic => rw [hw] at h; cases h
    | ok a =>
      rw [hw] at h
      simp only [bind_ok] at h
      obtain ⟨ha, hl⟩ := writeLP_ok hw
      cases qs with
      | nil => cases h
      | cons q qs' =>
        simp only [] at h
        cases hr : writeTopicsQos (avail - a.length - 1) ts qs' with
        | err => rw [hr] at h; cases h
        | panic => rw [hr] at h; cases h
        | ok r =>
          rw [hr] at h
          simp only [bind_ok] at h
          injection h with h
          obtain ⟨h1, h2⟩ := ih qs' _ r hr
          rw [← h, ha, h1]
          constructor
          · simp [encFilters_cons]
          · rw [← h1, List.map_cons, List.sum_cons]
            simp [Wire.str]; omega

theorem writeTopics_ok : ∀ (ts : List Bytes) (avail : Nat) (body : Bytes),
    writeTopics avail ts = .ok body →
    body = encTopics ts ∧ body.length = (ts.map (fun t => 2 + t.length)).sum := by
  intro ts
  induction ts with
  | nil => intro avail body h; simp [writeTopics] at h; subst h; simp [encTopics]
  | cons t ts ih =>
    intro avail body h
    unfold writeTopics at h
    cases hw : writeLPBytes avail t with
    | err => rw [hw] at h; cases h
    | panic => rw [hw] at h; cases h
    | ok a =>
      rw [hw] at h
      simp only [bind_ok] at h
      obtain ⟨ha, hl⟩ := writeLP_ok hw
      cases hr : writeTopics (avail - a.length) ts with
      | err => rw [hr] at h; cases h
      | panic => rw [hr] at h; cases h
      | ok r =>
        rw [hr] at h
        simp only [bind_ok] at h
        injection h with h
        obtain ⟨h1, h2⟩ := ih _ r hr
        rw [← h, ha, h1]
        constructor
        · simp [encTopics_cons]
        · rw [← h1, List.map_cons, List.sum_cons]
          simp [Wire.str]; omega

theorem encode_wire_subscribe (h : Hdr) (ts : List Bytes) (qs : List UInt8) (ctr : UInt64) (e : Encoded)
    (hd : h.dirty = true) (hc : Canon (.subscribe h ts qs))
    (he : encode (.subscribe h ts qs) ctr (Msg.subscribe h ts qs).len = .ok e) :
    e.out = Wire.encode (absMsg e.msg) := by
  unfold encode at he
  simp only [hd, Bool.not_true, Bool.false_eq_true, if_false] at he
  split at he
  · cases he
  · split at he
    · cases he
    · cases hh : h.encode (Msg.subscribe h ts qs).msglen (Msg.subscribe h ts qs).len with
      | err => rw [hh] at he; cases he
      | panic => rw [hh] at he; cases he
      | ok hb =>
        rw [hh] at he
        simp only [bind_ok] at he
        obtain ⟨hb1, _⟩ := hdr_encode_ok hh
        have hwa := withAutoId_pid h ctr
        unfold withAutoId at hwa
        obtain ⟨hp1, hp2⟩ := hwa
        generalize hR : (if h.packetID = 0 then (h.setPacketID (nextPacketID ctr).fst, (nextPacketID ctr).snd) else (h, ctr)) = R at *
        cases hw : writeTopicsQos ((Msg.subscribe h ts qs).len - hb.length - R.1.pid.length) ts qs with
        | err => rw [hw] at he; cases he
        | panic => rw [hw] at he; cases he
        | ok body =>
          rw [hw] at he
          simp only [bind_ok] at he
          injection he with he
          rw [← he]
          simp only []
          obtain ⟨hbody, hblen⟩ := writeTopicsQos_ok _ _ _ _ hw
          obtain ⟨ht, hf⟩ := hc
          have hml : (Msg.subscribe h ts qs).msglen = 2 + body.length := by
            simp only [Msg.msglen]; rw [hblen]
          rw [hb1, hp1, hml, hbody]
          simp only [absMsg, Wire.encode, Wire.Packet.type, Wire.Packet.flags, Wire.Packet.body]
          rw [← tf_eq h, ht, hf]
          have : (Wire.u16 (u16of R.1.pid) ++ List.flatMap (fun f => Wire.str f.fst ++ [f.snd]) (ts.zip qs)).length =
              2 + (encFilters (ts.zip qs)).length := by
            simp [Wire.u16, encFilters]; omega
          rw [this]
          simp [encFilters]

theorem encode_wire_unsubscribe (h : Hdr) (ts : List Bytes) (ctr : UInt64) (e : Encoded)
    (hd : h.dirty = true) (hc : Canon (.unsubscribe h ts))
    (he : encode (.unsubscribe h ts) ctr (Msg.unsubscribe h ts).len = .ok e) :
    e.out = Wire.encode (absMsg e.msg) := by
  unfold encode at he
  simp only [hd, Bool.not_true, Bool.false_eq_true, if_false] at he
  split at he
  · cases he
  · split at he
    · cases he
    · cases hh : h.encode (Msg.unsubscribe h ts).msglen (Msg.unsubscribe h ts).len with
      | err => rw [hh] at he; cases he
      | panic => rw [hh] at he; cases he
      | ok hb =>
        rw [hh] at he
        simp only [bind_ok] at he
        obtain ⟨hb1, _⟩ := hdr_encode_ok hh
        have hwa := withAutoId_pid h ctr
        unfold withAutoId at hwa
        obtain ⟨hp1, hp2⟩ := hwa
        generalize hR : (if h.packetID = 0 then (h.setPacketID (nextPacketID ctr).fst, (nextPacketID ctr).snd) else (h, ctr)) = R at *
        cases hw : writeTopics ((Msg.unsubscribe h ts).len - hb.length - R.1.pid.length) ts with
        | err => rw [hw] at he; cases he
        | panic => rw [hw] at he; cases he
        | ok body =>
          rw [hw] at he
          simp only [bind_ok] at he
          injection he with he
          rw [← he]
          simp only []
          obtain ⟨hbody, hblen⟩ := writeTopics_ok _ _ _ hw
          obtain ⟨ht, hf⟩ := hc
          have hml : (Msg.unsubscribe h ts).msglen = 2 + body.length := by
            simp only [Msg.msglen]; rw [hblen]
          rw [hb1, hp1, hml, hbody]
          simp only [absMsg, Wire.encode, Wire.Packet.type, Wire.Packet.flags, Wire.Packet.body]
          rw [← tf_eq h, ht, hf]
          have : (Wire.u16 (u16of R.1.pid) ++ List.flatMap Wire.str ts).length = 2 + (encTopics ts).length := by
            simp [Wire.u16, encTopics]; omega
          rw [this]
          simp [encTopics]


/-- the CONNECT record a field block stands for -/
def absConnect (c : ConnectF) : Wire.Connect :=
  { level := c.version, clean := c.cleanSession, keepAlive := UInt16.ofNat c.keepAlive, clientId := c.clientID,
    will := if c.willFlag then some ⟨c.willTopic, c.willMessage, UInt8.ofNat c.willQos, c.willRetain⟩ else none,
    username := if c.usernameFlag then some c.username else none,
    password := if c.passwordFlag then some c.password else none }

theorem absMsg_connect (h : Hdr) (c : ConnectF) : absMsg (.connect h c) = .connect (absConnect c) := rfl

theorem versionName_protoName (v : UInt8) (n : Bytes) (h : versionName v.toNat = some n) : n = Wire.protoName v := by
  unfold versionName supportedVersions at h
  simp only [List.lookup] at h
  have hv := v.toNat_lt
  by_cases h3 : v.toNat = 3
  · have : v = 3 := UInt8.toNat_inj.mp h3
    subst this
    simp at h; rw [← h]; rfl
  · by_cases h4 : v.toNat = 4
    · have : v = 4 := UInt8.toNat_inj.mp h4
      subst this
      simp at h; rw [← h]; rfl
    · have e3 : (v.toNat == 3) = false := by simp [h3]
      have e4 : (v.toNat == 4) = false := by simp [h4]
      simp [e3, e4] at h

theorem b2n_decide_mod (x : Nat) : Wire.b2n (decide (x % 2 = 1)) = x % 2 := by
  unfold Wire.b2n
  by_cases h : x % 2 = 1
  · simp [h]
  · simp [h]; omega

theorem isSome_ite {α : Type} (b : Bool) (x : α) : (if b = true then some x else none).isSome = b := by
  cases b <;> rfl

theorem abs_flags (c : ConnectF) (h0 : c.connectFlags.toNat % 2 = 0)
    (hw : c.willFlag = false → c.willQos = 0 ∧ c.willRetain = false) :
    (absConnect c).flags = c.connectFlags.toNat := by
  have hlt := c.connectFlags.toNat_lt
  unfold ConnectF.willFlag ConnectF.willQos ConnectF.willRetain at hw
  have hq : (UInt8.ofNat (c.connectFlags.toNat / 8 % 4)).toNat = c.connectFlags.toNat / 8 % 4 := by simp; omega
  unfold absConnect Wire.Connect.flags
  simp only [ConnectF.cleanSession, ConnectF.willFlag, ConnectF.willQos, ConnectF.willRetain,
    ConnectF.usernameFlag, ConnectF.passwordFlag]
  have hr := b2n_decide_mod (c.connectFlags.toNat / 32)
  have hc := b2n_decide_mod (c.connectFlags.toNat / 2)
  by_cases b7 : c.connectFlags.toNat / 128 % 2 = 1 <;> by_cases b6 : c.connectFlags.toNat / 64 % 2 = 1 <;>
    by_cases b2 : c.connectFlags.toNat / 4 % 2 = 1
  all_goals
    simp only [b7, b6, b2, decide_true, decide_false, if_true, if_false, Bool.false_eq_true, Option.isSome_some,
      Option.isSome_none, hq, hr, hc] at hw ⊢
    simp only [Wire.b2n, if_true, Bool.false_eq_true, if_false] at hw ⊢
    try simp only [decide_eq_false_iff_not, true_implies] at hw
    omega

theorem optPart_ok (flag : Bool) (avail : Nat) (x out r : Bytes)
    (h : (if flag = true then (writeLPBytes avail x).bind (fun a => Outcome.ok (out ++ a)) else Outcome.ok out) = .ok r) :
    r = out ++ (if flag = true then Wire.str x else []) := by
  cases flag with
  | false => simp at h; simp [h]
  | true =>
    simp only [if_true] at h ⊢
    cases hw : writeLPBytes avail x with
    | err => rw [hw] at h; cases h
    | panic => rw [hw] at h; cases h
    | ok a =>
      rw [hw] at h
      simp only [bind_ok] at h
      injection h with h
      rw [← h, (writeLP_ok hw).1]

theorem willPart_ok (flag : Bool) (av1 : Nat) (av2 : Bytes → Nat) (x y out r : Bytes)
    (h : (if flag = true then (writeLPBytes av1 x).bind (fun a => (writeLPBytes (av2 a) y).bind fun b => Outcome.ok (out ++ a ++ b))
          else Outcome.ok out) = .ok r) :
    r = out ++ (if flag = true then Wire.str x ++ Wire.str y else []) := by
  cases flag with
  | false => simp at h; simp [h]
  | true =>
    simp only [if_true] at h ⊢
    cases hw : writeLPBytes av1 x with
    | err => rw [hw] at h; cases h
    | panic => rw [hw] at h; cases h
    | ok a =>
      rw [hw] at h
      simp only [bind_ok] at h
      cases hw2 : writeLPBytes (av2 a) y with
      | err => rw [hw2] at h; cases h
      | panic => rw [hw2] at h; cases h
      | ok b =>
        rw [hw2] at h
        simp only [bind_ok] at h
        injection h with h
        rw [← h, (writeLP_ok hw).1, (writeLP_ok hw2).1]
        simp

theorem encodeConnectMessage_ok (c : ConnectF) (avail : Nat) (body : Bytes) (name : Bytes)
    (hv : versionName c.version.toNat = some name)
    (h0 : c.connectFlags.toNat % 2 = 0) (hw : c.willFlag = false → c.willQos = 0 ∧ c.willRetain = false)
    (hka : c.keepAlive < 65536)
    (he : encodeConnectMessage c avail = .ok body) :
    body = (Wire.Packet.connect (absConnect c)).body ∧ body.length = connectMsglen c := by
  unfold encodeConnectMessage at he
  rw [hv] at he
  simp only [Option.getD_some] at he
  cases h1 : writeLPBytes avail name with
  | err => rw [h1] at he; cases he
  | panic => rw [h1] at he; cases he
  | ok o1 =>
    rw [h1] at he
    simp only [bind_ok] at he
    obtain ⟨e1, l1⟩ := writeLP_ok h1
    generalize hA : avail - (o1 ++ [c.version, c.connectFlags] ++ putU16 c.keepAlive).length = A at he
    cases h2 : writeLPBytes A c.clientID with
    | err => rw [h2] at he; cases he
    | panic => rw [h2] at he; cases he
    | ok o2 =>
      rw [h2] at he
      simp only [bind_ok] at he
      obtain ⟨e2, l2⟩ := writeLP_ok h2
      -- the three optional parts: each is `ok (out ++ part)` with the wire form
      have hname := versionName_protoName c.version name hv
      have hfl := abs_flags c h0 hw
      have hcf : UInt8.ofNat (absConnect c).flags = c.connectFlags := by rw [hfl]; simp
      have hkaw : Wire.u16 (absConnect c).keepAlive = putU16 c.keepAlive := by
        unfold absConnect; simp only []; rw [putU16_eq _ hka]
      -- will
      cases h3 : (if c.willFlag = true then
            (writeLPBytes (avail - (o1 ++ [c.version, c.connectFlags] ++ putU16 c.keepAlive ++ o2).length) c.willTopic).bind fun a =>
              (writeLPBytes (avail - (o1 ++ [c.version, c.connectFlags] ++ putU16 c.keepAlive ++ o2).length - a.length) c.willMessage).bind fun b =>
                Outcome.ok (o1 ++ [c.version, c.connectFlags] ++ putU16 c.keepAlive ++ o2 ++ a ++ b)
          else Outcome.ok (o1 ++ [c.version, c.connectFlags] ++ putU16 c.keepAlive ++ o2)) with
      | err => rw [h3] at he; cases he
      | panic => rw [h3] at he; cases he
      | ok out3 =>
        rw [h3] at he
        simp only [bind_ok] at he
        have e3 := willPart_ok _ _ (fun a => avail - (o1 ++ [c.version, c.connectFlags] ++ putU16 c.keepAlive ++ o2).length - a.length) _ _ _ _ h3
        cases h4 : (if c.usernameFlag = true then (writeLPBytes (avail - out3.length) c.username).bind fun a => Outcome.ok (out3 ++ a)
            else Outcome.ok out3) with
        | err => rw [h4] at he; cases he
        | panic => rw [h4] at he; cases he
        | ok out4 =>
          rw [h4] at he
          simp only [bind_ok] at he
          have e4 := optPart_ok _ _ _ _ _ h4
          have e5 := optPart_ok _ _ _ _ _ he
          rw [e5, e4, e3, e1, e2]
          constructor
          · have hbody : (Wire.Packet.connect (absConnect c)).body =
                Wire.str (Wire.protoName (absConnect c).level) ++ [(absConnect c).level, UInt8.ofNat (absConnect c).flags] ++
                  Wire.u16 (absConnect c).keepAlive ++ Wire.str (absConnect c).clientId ++
                  (match (absConnect c).will with
                   | some w => Wire.str w.topic ++ Wire.str w.message
                   | none => []) ++
                  Wire.optStr (absConnect c).username ++ Wire.optStr (absConnect c).password := rfl
            rw [hbody, hcf, hkaw]
            have hl : (absConnect c).level = c.version := rfl
            rw [hl, ← hname]
            simp only [absConnect]
            cases c.willFlag <;> cases c.usernameFlag <;> cases c.passwordFlag <;> simp [Wire.optStr]
          · unfold connectMsglen
            rw [hv]
            simp only []
            cases c.willFlag <;> cases c.usernameFlag <;> cases c.passwordFlag <;>
              simp [Wire.str, putU16] <;> omega


theorem encode_wire_connect (h : Hdr) (c : ConnectF) (ctr : UInt64) (e : Encoded) (hd : h.dirty = true)
    (hc : Canon (.connect h c))
    (he : encode (.connect h c) ctr (Msg.connect h c).len = .ok e) : e.out = Wire.encode (absMsg e.msg) := by
  unfold encode at he
  simp only [hd, Bool.not_true, Bool.false_eq_true, if_false] at he
  split at he
  · cases he
  · rename_i hty
    split at he
    · cases he
    · rename_i hvn
      split at he
      · cases he
      · split at he
        · cases he
        · cases hh : h.encode (Msg.connect h c).msglen (Msg.connect h c).len with
          | err => rw [hh] at he; cases he
          | panic => rw [hh] at he; cases he
          | ok hb =>
            rw [hh] at he
            simp only [bind_ok] at he
            obtain ⟨hb1, _⟩ := hdr_encode_ok hh
            cases hm : encodeConnectMessage c ((Msg.connect h c).len - hb.length) with
            | err => rw [hm] at he; cases he
            | panic => rw [hm] at he; cases he
            | ok body =>
              rw [hm] at he
              simp only [bind_ok] at he
              injection he with he
              rw [← he]
              simp only []
              obtain ⟨hf, h0, hw, hka⟩ := hc
              cases hvv : versionName c.version.toNat with
              | none => rw [hvv] at hvn; simp at hvn
              | some name =>
                obtain ⟨hbody, hblen⟩ := encodeConnectMessage_ok c _ body name hvv h0 hw hka hm
                have hml : (Msg.connect h c).msglen = body.length := by
                  simp only [Msg.msglen]; rw [hblen]
                simp only [Decidable.not_not, tCONNECT] at hty
                rw [hb1, hml, absMsg_connect, hbody]
                simp only [Wire.encode, Wire.Packet.type, Wire.Packet.flags]
                rw [← tf_eq h, hty, hf]
                rfl

/-- `Encode` of a dirty message that denotes a packet (`Canon`) writes the MQTT 3.1.1 wire
encoding of the message's fields (after a possible automatic identifier assignment) -/
theorem encode_wire (m : Msg) (ctr : UInt64) (e : Encoded) (hd : m.hdr.dirty = true) (hc : Canon m)
    (he : encode m ctr m.len = .ok e) : e.out = Wire.encode (absMsg e.msg) := by
  cases m with
  | connect h c => exact encode_wire_connect h c ctr e hd hc he
  | connack h sp rc => exact encode_wire_connack h sp rc ctr e hd hc he
  | publish h t p => exact encode_wire_publish h t p ctr e hd hc he
  | ack h => exact encode_wire_ack h ctr e hd hc he
  | subscribe h ts qs => exact encode_wire_subscribe h ts qs ctr e hd hc he
  | suback h cs => exact encode_wire_suback h cs ctr e hd hc he
  | unsubscribe h ts => exact encode_wire_unsubscribe h ts ctr e hd hc he
  | bare h => exact encode_wire_bare h ctr e hd hc he

end Mqtt.Proofs.Codec
