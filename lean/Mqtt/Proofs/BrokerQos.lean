/-
Helper lemmas for C02 (receiver side of QoS 1/2) over the code-shaped broker
model `Model/Broker.lean`.

Part 1: what `onPublish` / `fanout` / `releaseAll` can do (frame + shape of
outputs).  Part 2: `getSess`/`setSess` laws.  Part 3: per-packet lemmas.
-/
import Mqtt.Model.Broker

namespace Mqtt.Proofs.BrokerQos
open Mqtt.Iface.Broker Mqtt.Model.Broker

/-! ## 1. Frame and output shape of the hand-over machinery -/

/-- an output that hands a message on: a PUBLISH written to a subscriber
connection or an in-process callback invocation -/
def isHandOver : Out → Bool
  | .send _ (.publish _) => true
  | .call _ _ => true
  | _ => false

/-- an output that hands a message on: a PUBLISH written to a subscriber
connection, or an in-process callback invocation -/
def HandOver (o : Out) : Prop :=
  (∃ d w, o = .send d (.publish w)) ∨ (∃ cb p, o = .call cb p)

theorem handOver_of {o : Out} (h : isHandOver o = true) : HandOver o := by
  unfold isHandOver at h
  split at h
  · exact .inl ⟨_, _, rfl⟩
  · exact .inr ⟨_, _, rfl⟩
  · cases h

/-- what a hand-over leaves alone: connection table, session objects, session
store, reference counter and the subscription tree.  (Only the retained tree
and the packet-identifier counter may differ.) -/
structure Frame (b b' : B) : Prop where
  conns   : b'.conns = b.conns
  sess    : b'.sess = b.sess
  store   : b'.store = b.store
  nextRef : b'.nextRef = b.nextRef
  sroot   : b'.topics.sroot = b.topics.sroot

theorem Frame.refl (b : B) : Frame b b := ⟨rfl, rfl, rfl, rfl, rfl⟩

theorem Frame.trans {a b c : B} (h1 : Frame a b) (h2 : Frame b c) : Frame a c :=
  ⟨h2.conns.trans h1.conns, h2.sess.trans h1.sess, h2.store.trans h1.store,
   h2.nextRef.trans h1.nextRef, h2.sroot.trans h1.sroot⟩

theorem deliverConn_frame (b : B) (d : Nat) (m : Msg) :
    Frame b (deliverConn b d m).1 ∧ (deliverConn b d m).1.topics = b.topics ∧
    ∀ o ∈ (deliverConn b d m).2.2, isHandOver o = true := by
  unfold deliverConn
  simp only
  split
  · exact ⟨Frame.refl b, rfl, by simp⟩
  · split
    · exact ⟨Frame.refl b, rfl, by simp⟩
    · exact ⟨⟨rfl, rfl, rfl, rfl, rfl⟩, rfl, by simp [isHandOver]⟩

theorem fanout_frame (b : B) (m : Msg) (subs : List (Nat × Nat)) :
    Frame b (fanout b m subs).1 ∧ (fanout b m subs).1.topics = b.topics ∧
    ∀ o ∈ (fanout b m subs).2.2, isHandOver o = true := by
  induction subs generalizing b m with
  | nil => exact ⟨Frame.refl b, rfl, by simp [fanout]⟩
  | cons x rest ih =>
    obtain ⟨s, eqos⟩ := x
    simp only [fanout]
    by_cases hs : s < cbBase
    · simp only [hs, ↓reduceIte]
      obtain ⟨f1, t1, o1⟩ := deliverConn_frame b s (m.setQoS eqos)
      obtain ⟨f2, t2, o2⟩ := ih (deliverConn b s (m.setQoS eqos)).1 (deliverConn b s (m.setQoS eqos)).2.1
      refine ⟨f1.trans f2, t2.trans t1, ?_⟩
      intro o ho
      rcases List.mem_append.mp ho with h | h
      · exact o1 o h
      · exact o2 o h
    · simp only [hs, ↓reduceIte]
      obtain ⟨f2, t2, o2⟩ := ih b (m.setQoS eqos)
      refine ⟨f2, t2, ?_⟩
      intro o ho
      rcases List.mem_append.mp ho with h | h
      · simp only [List.mem_singleton] at h; subst h; rfl
      · exact o2 o h

/-- the message object the live fan-out runs the loop over: RETAIN cleared, nothing else touched -/
theorem loopMsg_content (m : Msg) :
    (if m.p.retain then m.setRetain false else m).p.topic = m.p.topic ∧
    (if m.p.retain then m.setRetain false else m).p.payload = m.p.payload ∧
    (if m.p.retain then m.setRetain false else m).p.qos = m.p.qos := by
  cases m.p.retain <;> exact ⟨rfl, rfl, rfl⟩

theorem fanoutLive_fst (b : B) (m : Msg) (subs : List (Nat × Nat)) :
    (fanoutLive b m subs).1 = (fanout b (if m.p.retain then m.setRetain false else m) subs).1 := rfl

theorem fanoutLive_outs (b : B) (m : Msg) (subs : List (Nat × Nat)) :
    (fanoutLive b m subs).2.2 = (fanout b (if m.p.retain then m.setRetain false else m) subs).2.2 := rfl

theorem fanoutLive_frame (b : B) (m : Msg) (subs : List (Nat × Nat)) :
    Frame b (fanoutLive b m subs).1 ∧ (fanoutLive b m subs).1.topics = b.topics ∧
    ∀ o ∈ (fanoutLive b m subs).2.2, isHandOver o = true :=
  fanout_frame b (if m.p.retain then m.setRetain false else m) subs

theorem retain_sroot (t : Mqtt.Model.Topics.MemTopics) (r : Mqtt.Model.Topics.RMsg) :
    (t.retain r).1.sroot = t.sroot := by
  unfold Mqtt.Model.Topics.MemTopics.retain
  split
  · rfl
  · split <;> rfl

theorem retainStep_frame (b : B) (m : Msg) : Frame b (retainStep b m).1 := by
  unfold retainStep
  split
  · exact Frame.refl b
  · split
    · exact ⟨rfl, rfl, rfl, rfl, retain_sroot _ _⟩
    · split
      · exact ⟨rfl, rfl, rfl, rfl, retain_sroot _ _⟩
      · split
        · exact Frame.refl b
        · exact ⟨rfl, rfl, rfl, rfl, retain_sroot _ _⟩

theorem onPublish_frame (b : B) (m : Msg) :
    Frame b (onPublish b m).1 ∧ ∀ o ∈ (onPublish b m).2.2.1, isHandOver o = true := by
  unfold onPublish
  simp only
  split
  · exact ⟨retainStep_frame b m, by simp⟩
  · rename_i subs _
    obtain ⟨f2, _, o2⟩ := fanoutLive_frame (retainStep b m).1 (retainStep b m).2 subs
    exact ⟨(retainStep_frame b m).trans f2, o2⟩

theorem releaseAll_frame (b : B) (l : List QEntry) :
    Frame b (releaseAll b l).1 ∧ ∀ o ∈ (releaseAll b l).2, isHandOver o = true := by
  induction l generalizing b with
  | nil => exact ⟨Frame.refl b, by simp [releaseAll]⟩
  | cons e rest ih =>
    simp only [releaseAll]
    obtain ⟨f1, o1⟩ := onPublish_frame b ⟨e.msg, false⟩
    obtain ⟨f2, o2⟩ := ih (onPublish b ⟨e.msg, false⟩).1
    refine ⟨f1.trans f2, ?_⟩
    intro o ho
    rcases List.mem_append.mp ho with h | h
    · exact o1 o h
    · exact o2 o h

/-! ## 2. Session objects: `getSess` / `setSess` -/

theorem getSess_ref {b : B} {r : Nat} {s : Sess} (h : b.getSess r = some s) : s.ref = r := by
  unfold B.getSess at h
  have := List.find?_some h
  simpa using this

theorem find_map_same (l : List Sess) (s : Sess) (h : (l.any fun x => x.ref == s.ref) = true) :
    (l.map fun x => if x.ref == s.ref then s else x).find? (fun x => x.ref == s.ref) = some s := by
  induction l with
  | nil => simp at h
  | cons x xs ih =>
    simp only [List.map_cons, List.find?_cons]
    by_cases hx : (x.ref == s.ref) = true
    · simp [hx]
    · simp only [hx, Bool.false_eq_true, ↓reduceIte]
      simp only [List.any_cons, hx, Bool.false_or] at h
      exact ih h

theorem getSess_setSess_same (b : B) (s : Sess) : (b.setSess s).getSess s.ref = some s := by
  unfold B.getSess B.setSess
  simp only
  by_cases h : (b.sess.any fun x => x.ref == s.ref) = true
  · simp only [h, ↓reduceIte]
    exact find_map_same b.sess s h
  · simp only [h, Bool.false_eq_true, ↓reduceIte]
    rw [List.find?_append]
    have : List.find? (fun x => x.ref == s.ref) b.sess = none := by
      rw [List.find?_eq_none]
      intro x hx hh
      exact h (List.any_eq_true.mpr ⟨x, hx, hh⟩)
    simp [this]

theorem find_map_ne (l : List Sess) (s : Sess) (r : Nat) (hs : (s.ref == r) = false) :
    (l.map fun x => if x.ref == s.ref then s else x).find? (fun x => x.ref == r) =
      l.find? (fun x => x.ref == r) := by
  induction l with
  | nil => rfl
  | cons x xs ih =>
    simp only [List.map_cons, List.find?_cons]
    by_cases hx : (x.ref == s.ref) = true
    · have hxr : (x.ref == r) = false := by
        have : x.ref = s.ref := by simpa using hx
        rw [this]; exact hs
      simp only [hx, ↓reduceIte, hs, hxr]
      exact ih
    · simp only [hx, Bool.false_eq_true, ↓reduceIte]
      split
      · rfl
      · exact ih

theorem getSess_setSess_ne (b : B) (s : Sess) (r : Nat) (h : r ≠ s.ref) :
    (b.setSess s).getSess r = b.getSess r := by
  unfold B.getSess B.setSess
  simp only
  have hs : (s.ref == r) = false := by simpa using fun e => h e.symm
  split
  · exact find_map_ne b.sess s r hs
  · rw [List.find?_append]
    simp [hs]

theorem setSess_conns (b : B) (s : Sess) : (b.setSess s).conns = b.conns := rfl
theorem setSess_nextRef (b : B) (s : Sess) : (b.setSess s).nextRef = b.nextRef := rfl
theorem setSess_store (b : B) (s : Sess) : (b.setSess s).store = b.store := rfl
theorem setSess_topics (b : B) (s : Sess) : (b.setSess s).topics = b.topics := rfl

/-- the list of session references, in creation order -/
def refs (b : B) : List Nat := b.sess.map (·.ref)

theorem getSess_isSome_iff (b : B) (r : Nat) : (b.getSess r).isSome = true ↔ r ∈ refs b := by
  unfold B.getSess refs
  rw [List.find?_isSome]
  simp only [List.mem_map, beq_iff_eq]

theorem refs_setSess_mem (b : B) (s : Sess) (h : s.ref ∈ refs b) : refs (b.setSess s) = refs b := by
  unfold refs B.setSess
  have : (b.sess.any fun x => x.ref == s.ref) = true := by
    simp only [refs, List.mem_map] at h
    obtain ⟨x, hx, e⟩ := h
    exact List.any_eq_true.mpr ⟨x, hx, by simp [e]⟩
  simp only [this, ↓reduceIte, List.map_map]
  apply List.map_congr_left
  intro x _
  simp only [Function.comp_apply]
  split
  · rename_i hx; exact (by simpa using hx : x.ref = s.ref).symm
  · rfl

theorem refs_setSess_new (b : B) (s : Sess) (h : s.ref ∉ refs b) : refs (b.setSess s) = refs b ++ [s.ref] := by
  unfold refs B.setSess
  have : (b.sess.any fun x => x.ref == s.ref) = false := by
    rw [List.any_eq_false]
    intro x hx hh
    exact h (List.mem_map.mpr ⟨x, hx, by simpa using hh⟩)
  simp [this]

/-- the inbound QoS 2 queue of the session object `r` (empty if there is none) -/
def pub2inOf (b : B) (r : Nat) : List QEntry :=
  match b.getSess r with
  | some s => s.pub2in
  | none => []

/-- connection `c` is live and bound to session object `r` -/
def bound (b : B) (c r : Nat) : Bool :=
  match b.getConn c with
  | some cn => cn.alive && cn.sess == r
  | none => false

/-- the session object of a connection -/
def sessOf (b : B) (c : Nat) : Option Sess := (b.getConn c).bind (fun cn => b.getSess cn.sess)

/-! ## 3. One packet on a live connection -/

theorem alive_congr {b b' : B} (h : b'.conns = b.conns) (c : Nat) : b'.alive c = b.alive c := by
  unfold B.alive B.getConn; rw [h]

theorem alive_of {b : B} {c : Nat} {cn : Conn} (hc : b.getConn c = some cn) (ha : cn.alive = true) :
    b.alive c = true := by
  unfold B.alive; rw [hc]; exact ha

theorem send_alive {b : B} {c : Nat} (h : b.alive c = true) (p : Packet) : send b c p = [.send c p] := by
  unfold send; simp [h]

/-- a live connection is in the table -/
theorem alive_iff (b : B) (c : Nat) :
    b.alive c = true ↔ ∃ cn, b.getConn c = some cn ∧ cn.alive = true := by
  unfold B.alive
  cases h : b.getConn c with
  | none => simp
  | some cn => simp

section packet
variable {b : B} {c : Nat} {cn : Conn} {s : Sess}

theorem packet_publish2 (hc : b.getConn c = some cn) (ha : cn.alive = true)
    (hs : b.getSess cn.sess = some s) (p : Pub) (hq : p.qos = 2) :
    packet b c (.publish p) =
      (b.setSess { s with pub2in := q2Wait s.pub2in p }, [.send c (.pubrec p.pktid)]) := by
  simp [packet, hc, ha, hs, hq, send_alive (alive_of hc ha)]

theorem packet_publish1 (hc : b.getConn c = some cn) (ha : cn.alive = true)
    (hs : b.getSess cn.sess = some s) (p : Pub) (hq : p.qos = 1) :
    packet b c (.publish p) =
      ((onPublish b ⟨p, false⟩).1, .send c (.puback p.pktid) :: (onPublish b ⟨p, false⟩).2.2.1) := by
  simp [packet, hc, ha, hs, hq, send_alive (alive_of hc ha)]

theorem packet_publish0 (hc : b.getConn c = some cn) (ha : cn.alive = true)
    (hs : b.getSess cn.sess = some s) (p : Pub) (hq : p.qos = 0) :
    packet b c (.publish p) = ((onPublish b ⟨p, false⟩).1, (onPublish b ⟨p, false⟩).2.2.1) := by
  simp [packet, hc, ha, hs, hq]

theorem packet_pubrel (hc : b.getConn c = some cn) (ha : cn.alive = true)
    (hs : b.getSess cn.sess = some s) (id : Nat) :
    packet b c (.pubrel id) =
      ((releaseAll (b.setSess { s with pub2in := (q2Acked (q2Ack s.pub2in id)).1 })
          (q2Acked (q2Ack s.pub2in id)).2).1,
       (releaseAll (b.setSess { s with pub2in := (q2Acked (q2Ack s.pub2in id)).1 })
          (q2Acked (q2Ack s.pub2in id)).2).2 ++ [.send c (.pubcomp id)]) := by
  have hal : (releaseAll (b.setSess { s with pub2in := (q2Acked (q2Ack s.pub2in id)).1 })
      (q2Acked (q2Ack s.pub2in id)).2).1.alive c = true := by
    rw [alive_congr (releaseAll_frame _ _).1.conns, alive_congr (setSess_conns _ _)]
    exact alive_of hc ha
  simp only [packet, hc, ha, hs, Bool.not_true, Bool.false_eq_true, ↓reduceIte]
  rw [send_alive hal]

theorem packet_pubrec (hc : b.getConn c = some cn) (ha : cn.alive = true)
    (hs : b.getSess cn.sess = some s) (id : Nat) :
    packet b c (.pubrec id) = (b, [.send c (.pubrel id)]) := by
  simp [packet, hc, ha, hs, send_alive (alive_of hc ha)]

end packet

end Mqtt.Proofs.BrokerQos
