/-
Helper lemmas for C02 (receiver side of QoS 1/2) over the code-shaped broker
model `Model/Broker.lean`.

Part 1: what `onPublish` / `fanout` / `releaseAll` can do (frame + shape of
outputs).  Part 2: `getSess`/`setSess` laws.  Part 3: per-packet lemmas.
-/
import Mqtt.Model.Broker

namespace Mqtt.Proofs.BrokerQos
open Mqtt.Iface.Broker Mqtt.Model.Broker

/-! ## 1. Frame and output shape of the hand-over machinery -/

/-- an output that hands a message on: a PUBLISH written to a subscriber
connection or an in-process callback invocation -/
def isHandOver : Out → Bool
  | .send _ (.publish _) => true
  | .call _ _ => true
  | _ => false

/-- an output that hands a message on: a PUBLISH written to a subscriber
connection, or an in-process callback invocation -/
def HandOver (o : Out) : Prop :=
  (∃ d w, o = .send d (.publish w)) ∨ (∃ cb p, o = .call cb p)

theorem handOver_of {o : Out} (h : isHandOver o = true) : HandOver o := by
  unfold isHandOver at h
  split at h
  · exact .inl ⟨_, _, rfl⟩
  · exact .inr ⟨_, _, rfl⟩
  · cases h

/-- what a hand-over leaves alone: connection table, session objects, session
store, reference counter and the subscription tree.  (Only the retained tree
and the packet-identifier counter may differ.) -/
structure Frame (b b' : B) : Prop where
  conns   : b'.conns = b.conns
  sess    : b'.sess = b.sess
  store   : b'.store = b.store
  nextRef : b'.nextRef = b.nextRef
  sroot   : b'.topics.sroot = b.topics.sroot

theorem Frame.refl (b : B) : Frame b b := ⟨rfl, rfl, rfl, rfl, rfl⟩

theorem Frame.trans {a b c : B} (h1 : Frame a b) (h2 : Frame b c) : Frame a c :=
  ⟨h2.conns.trans h1.conns, h2.sess.trans h1.sess, h2.store.trans h1.store,
   h2.nextRef.trans h1.nextRef, h2.sroot.trans h1.sroot⟩

theorem deliverConn_frame (b : B) (d : Nat) (m : Msg) :
    Frame b (deliverConn b d m).1 ∧ (deliverConn b d m).1.topics = b.topics ∧
    ∀ o ∈ (deliverConn b d m).2.2, isHandOver o = true := by
  unfold deliverConn
  simp only
  split
  · exact ⟨Frame.refl b, rfl, by simp⟩
  · split
    · exact ⟨Frame.refl b, rfl, by simp⟩
    · exact ⟨⟨rfl, rfl, rfl, rfl, rfl⟩, rfl, by simp [isHandOver]⟩

theorem fanout_frame (b : B) (m : Msg) (subs : List (Nat × Nat)) :
    Frame b (fanout b m subs).1 ∧ (fanout b m subs).1.topics = b.topics ∧
    ∀ o ∈ (fanout b m subs).2.2, isHandOver o = true := by
  induction subs generalizing b m with
  | nil => exact ⟨Frame.refl b, rfl, by simp [fanout]⟩
  | cons x rest ih =>
    obtain ⟨s, eqos⟩ := x
    simp only [fanout]
    by_cases hs : s < cbBase
    · simp only [hs, ↓reduceIte]
      obtain ⟨f1, t1, o1⟩ := deliverConn_frame b s (m.setQoS eqos)
      obtain ⟨f2, t2, o2⟩ := ih (deliverConn b s (m.setQoS eqos)).1 (deliverConn b s (m.setQoS eqos)).2.1
      refine ⟨f1.trans f2, t2.trans t1, ?_⟩
      intro o ho
      rcases List.mem_append.mp ho with h | h
      · exact o1 o h
      · exact o2 o h
    · simp only [hs, ↓reduceIte]
      obtain ⟨f2, t2, o2⟩ := ih b (m.setQoS eqos)
      refine ⟨f2, t2, ?_⟩
      intro o ho
      rcases List.mem_append.mp ho with h | h
      · simp only [List.mem_singleton] at h; subst h; rfl
      · exact o2 o h

theorem retain_sroot (t : Mqtt.Model.Topics.MemTopics) (r : Mqtt.Model.Topics.RMsg) :
    (t.retain r).1.sroot = t.sroot := by
  unfold Mqtt.Model.Topics.MemTopics.retain
  split <;> rfl

theorem retainStep_frame (b : B) (m : Msg) : Frame b (retainStep b m).1 := by
  unfold retainStep
  split
  · exact Frame.refl b
  · split
    · exact ⟨rfl, rfl, rfl, rfl, retain_sroot _ _⟩
    · split
      · exact ⟨rfl, rfl, rfl, rfl, retain_sroot _ _⟩
      · split
        · exact Frame.refl b
        · exact ⟨rfl, rfl, rfl, rfl, retain_sroot _ _⟩

theorem onPublish_frame (b : B) (m : Msg) :
    Frame b (onPublish b m).1 ∧ ∀ o ∈ (onPublish b m).2.2.1, isHandOver o = true := by
  unfold onPublish
  simp only
  split
  · exact ⟨retainStep_frame b m, by simp⟩
  · rename_i subs _
    obtain ⟨f2, _, o2⟩ := fanout_frame (retainStep b m).1 (retainStep b m).2 subs
    exact ⟨(retainStep_frame b m).trans f2, o2⟩

theorem releaseAll_frame (b : B) (l : List QEntry) :
    Frame b (releaseAll b l).1 ∧ ∀ o ∈ (releaseAll b l).2, isHandOver o = true := by
  induction l generalizing b with
  | nil => exact ⟨Frame.refl b, by simp [releaseAll]⟩
  | cons e rest ih =>
    simp only [releaseAll]
    obtain ⟨f1, o1⟩ := onPublish_frame b ⟨e.msg, false⟩
    obtain ⟨f2, o2⟩ := ih (onPublish b ⟨e.msg, false⟩).1
    refine ⟨f1.trans f2, ?_⟩
    intro o ho
    rcases List.mem_append.mp ho with h | h
    · exact o1 o h
    · exact o2 o h

end Mqtt.Proofs.BrokerQos
