/-
C17, wrap path — the tie of the model's `ringPut` to the regenerated translation of `service.ringCopy`.
Moved unchanged out of `Proofs/WriteWrapRing.lean`, which is model side only.  Imported by
`Properties/C17Source.lean` and by nothing else (BUILDING.md, "Source-tie modules").
-/
import Mqtt.Proofs.WriteWrapRing
import Mqtt.Proofs.XlateRingCopy

namespace Mqtt.Proofs.WriteWrap
open Mqtt.Model.WriteWrap
open Mqtt.Generated.Xlate

/-- what `service.ringCopy(ring, src, pos & mask)` — the translation of the Go function,
regenerated on every check — returns is the model's `ringPut`, for every loop budget ≥ 3 -/
theorem ringPut_is_source (fuel : Nat) (hf : 3 ≤ fuel) (size : Nat) (hsz : 0 < size)
    (ring src : List UInt8) (pos : Nat) (hlen : ring.length = size) (hS : src.length ≤ size) :
    Service.ringCopy fuel ring src ((pos % size : Nat) : Int) =
      Res.ok (ringPut ring src (pos % size), src.length) := by
  have hlt : pos % size < size := Nat.mod_lt _ hsz
  rw [ringPut_eq_copied]
  exact Mqtt.Proofs.XlateRingCopy.ringCopy_eq fuel hf ring src (pos % size) (by omega) (by omega) (by omega)

end Mqtt.Proofs.WriteWrap
