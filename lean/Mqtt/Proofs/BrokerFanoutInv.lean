/-
Core E, helper lemmas: the representation invariant `Inv` is preserved by every
event of the broker model.
-/
import Mqtt.Proofs.BrokerFanoutRetained
import Mqtt.Properties.C06

set_option linter.unusedSimpArgs false

namespace Mqtt.Proofs.Broker
open Mqtt.Iface.Broker Mqtt.Model.Broker
open Mqtt.Model.Topics (MemTopics RMsg SNode RNode levels validQos Level)
open Mqtt.Proofs.Topics (entryLevels)
open Mqtt.Proofs.Topics (WF RWF abs absR good)

theorem Inv_of_frame' (b b' : B) (h : Inv b) (hc : b'.conns = b.conns) (hs : b'.sess = b.sess)
    (hwf : WF b'.topics.sroot) (hrwf : RWF b'.topics.rroot)
    (hfl : ∀ e ∈ absR b'.topics.rroot, e.2.retain = true) : Inv b' := by
  refine ⟨hwf, hrwf, hfl, ?_⟩
  intro cn hcn ha
  rw [getSess_congr b b' hs]
  rw [hc] at hcn
  exact h.sess cn hcn ha

theorem Inv_of_frame (b b' : B) (h : Inv b) (hc : b'.conns = b.conns) (hs : b'.sess = b.sess)
    (hwf : WF b'.topics.sroot) (hr : b'.topics.rroot = b.topics.rroot) : Inv b' := by
  refine ⟨hwf, by rw [hr]; exact h.rwf, by rw [hr]; exact h.rflag, ?_⟩
  intro cn hcn ha
  rw [getSess_congr b b' hs]
  rw [hc] at hcn
  exact h.sess cn hcn ha

theorem Inv_setSess (b : B) (s : Sess) (h : Inv b) : Inv (b.setSess s) := by
  refine ⟨h.wf, h.rwf, h.rflag, ?_⟩
  intro cn hcn ha
  exact getSess_setSess_isSome b s cn.sess (Or.inl (h.sess cn hcn ha))

theorem Inv_storeDel (b : B) (k : Bytes) (h : Inv b) : Inv (b.storeDel k) :=
  Inv_of_frame b _ h rfl rfl h.wf rfl

theorem Inv_storeSet (b : B) (k : Bytes) (r : Nat) (h : Inv b) : Inv (b.storeSet k r) :=
  Inv_of_frame b _ h rfl rfl h.wf rfl

theorem Inv_nextRef (b : B) (n : Nat) (h : Inv b) : Inv { b with nextRef := n } :=
  Inv_of_frame b _ h rfl rfl h.wf rfl

/-! ### the tries -/

theorem subscribe_WF (mt : MemTopics) (mq : Nat) (t : Bytes) (q c : Nat) (h : WF mt.sroot) :
    WF (mt.subscribe mq t q c).1.sroot := by
  rw [subscribe_sroot]
  split
  · exact Mqtt.Proofs.Topics.sinsertL_WF _ _ _ _ _ h
  · exact h

theorem unsubscribe_WF (mt : MemTopics) (t : Bytes) (sub : Option Nat) (h : WF mt.sroot) :
    WF (mt.unsubscribe t sub).1.sroot := by
  rw [unsubscribe_sroot]
  exact Mqtt.Proofs.Topics.sremoveL_WF _ _ _ _ h

theorem retain_RWF (mt : MemTopics) (r : RMsg) (h : RWF mt.rroot) : RWF (mt.retain r).1.rroot := by
  rw [retain_rroot]
  split
  · exact Mqtt.Proofs.Topics.rremoveL_RWF _ _ _ h
  · exact Mqtt.Proofs.Topics.rinsertL_RWF _ _ _ _ h

theorem retainStep_RWF (b : B) (m : Msg) (h : RWF b.topics.rroot) : RWF (retainStep b m).1.topics.rroot := by
  unfold retainStep
  split
  · exact h
  · split
    · exact retain_RWF _ _ h
    · split
      · exact retain_RWF _ _ h
      · split
        · exact h
        · exact retain_RWF _ _ h

/-- storing a message whose RETAIN flag is set (or clearing) keeps all stored flags set -/
theorem retain_flag (mt : MemTopics) (r : RMsg) (hwf : RWF mt.rroot)
    (hf : ∀ e ∈ absR mt.rroot, e.2.retain = true) (hr : r.retain = true) :
    ∀ e ∈ absR (mt.retain r).1.rroot, e.2.retain = true := by
  rw [retain_rroot]
  obtain ⟨_, _, h3, h4, h5, h6⟩ := Mqtt.Properties.C06.C06_retained_trie_refines mt.rroot (entryLevels r.topic).1 r hwf
  intro e he
  split at he
  · cases hl : (entryLevels r.topic).2 with
    | true =>
      rw [hl] at he
      exact hf e (List.mem_filter.mp (h5.mem_iff.mp he)).1
    | false =>
      rw [hl, h6] at he
      exact hf e he
  · cases hl : (entryLevels r.topic).2 with
    | true =>
      rw [hl] at he
      have := h3.mem_iff.mp he
      simp only [List.mem_append, List.mem_filter, List.mem_singleton] at this
      rcases this with hx | rfl
      · exact hf e hx.1
      · exact hr
    | false =>
      rw [hl] at he
      exact hf e (h4.mem_iff.mp he)

theorem retainStep_flag (b : B) (m : Msg) (hwf : RWF b.topics.rroot)
    (hf : ∀ e ∈ absR b.topics.rroot, e.2.retain = true) :
    ∀ e ∈ absR (retainStep b m).1.topics.rroot, e.2.retain = true := by
  unfold retainStep
  split
  · exact hf
  · rename_i hr
    have hr' : m.p.retain = true := by simpa using hr
    split
    · exact retain_flag _ _ hwf hf hr'
    · split
      · exact retain_flag _ _ hwf hf hr'
      · split
        · exact hf
        · rename_i w m' ctr he
          exact retain_flag _ _ hwf hf ((encode_fields _ _ _ _ _ he).1.trans hr')

theorem Inv_retainStep (b : B) (m : Msg) (h : Inv b) : Inv (retainStep b m).1 := by
  obtain ⟨f1, f2, f3, _, _⟩ := retainStep_frame b m
  exact Inv_of_frame' b _ h f2 f3 (by rw [f1]; exact h.wf) (retainStep_RWF b m h.rwf)
    (retainStep_flag b m h.rwf h.rflag)

theorem Inv_fanout (b : B) (m : Msg) (subs : List (Nat × Nat)) (h : Inv b) : Inv (fanout b m subs).1 := by
  obtain ⟨f1, f2, f3⟩ := fanout_state subs b m
  exact Inv_of_frame b _ h f2 f3 (by rw [f1]; exact h.wf) (by rw [f1])

theorem Inv_onPublish (b : B) (m : Msg) (h : Inv b) : Inv (onPublish b m).1 := by
  unfold onPublish
  simp only
  split
  · exact Inv_retainStep b m h
  · exact Inv_fanout _ _ _ (Inv_retainStep b m h)

theorem Inv_releaseAll (l : List QEntry) : ∀ b : B, Inv b → Inv (releaseAll b l).1 := by
  induction l with
  | nil => intro b h; exact h
  | cons e rest ih =>
    intro b h
    unfold releaseAll
    exact ih _ (Inv_onPublish b _ h)

theorem subscribeLoop_WF (c : Nat) (topics : List (Bytes × Nat)) :
    ∀ (b : B) (s : Sess) (codes : List Nat) (rms : List Msg), WF b.topics.sroot →
      WF (subscribeLoop b c s topics codes rms).1.topics.sroot := by
  induction topics with
  | nil => intro b s codes rms h; exact h
  | cons tq rest ih =>
    intro b s codes rms h
    obtain ⟨t, q⟩ := tq
    unfold subscribeLoop
    have hr := subscribe_WF b.topics Mqtt.Generated.maxQosAllowed t q c h
    generalize b.topics.subscribe Mqtt.Generated.maxQosAllowed t q c = r at hr
    obtain ⟨ts, o⟩ := r
    cases o with
    | none => exact ih _ _ _ _ hr
    | some rq => exact ih _ _ _ _ hr

theorem Inv_subscribeLoop (b : B) (c : Nat) (s : Sess) (topics : List (Bytes × Nat)) (codes : List Nat)
    (rms : List Msg) (h : Inv b) : Inv (subscribeLoop b c s topics codes rms).1 := by
  obtain ⟨f1, f2, _, f4, _⟩ := subscribeLoop_conns c topics b s codes rms
  exact Inv_of_frame b _ h f1 f2 (subscribeLoop_WF c topics b s codes rms h.wf) f4

theorem Inv_sendRetained (b : B) (c : Nat) (rms : List Msg) (h : Inv b) : Inv (sendRetained b c rms).1 := by
  obtain ⟨f1, f2, f3, _⟩ := sendRetained_shape c rms b
  exact Inv_of_frame b _ h f1 f2 (by rw [f3]; exact h.wf) (by rw [f3])

theorem unsubFold_frame (c : Nat) (topics : List Bytes) : ∀ ts : MemTopics, WF ts.sroot →
    WF (topics.foldl (fun ts t => (ts.unsubscribe t (some c)).1) ts).sroot ∧
    (topics.foldl (fun ts t => (ts.unsubscribe t (some c)).1) ts).rroot = ts.rroot := by
  induction topics with
  | nil => intro ts h; exact ⟨h, rfl⟩
  | cons t rest ih =>
    intro ts h
    simp only [List.foldl_cons]
    obtain ⟨h1, h2⟩ := ih _ (unsubscribe_WF ts t (some c) h)
    exact ⟨h1, h2.trans (unsubscribe_rroot ts t (some c))⟩

theorem unsubAll_frame (c : Nat) (l : List (Bytes × Nat)) : ∀ ts : MemTopics, WF ts.sroot →
    WF (unsubAll ts c l).sroot ∧ (unsubAll ts c l).rroot = ts.rroot := by
  induction l with
  | nil => intro ts h; exact ⟨h, rfl⟩
  | cons tq rest ih =>
    intro ts h
    obtain ⟨t, q⟩ := tq
    unfold unsubAll
    obtain ⟨h1, h2⟩ := ih _ (unsubscribe_WF ts t (some c) h)
    exact ⟨h1, h2.trans (unsubscribe_rroot ts t (some c))⟩

theorem resubscribe_frame (c : Nat) (l : List (Bytes × Nat)) : ∀ ts : MemTopics, WF ts.sroot →
    WF (resubscribe ts c l).sroot ∧ (resubscribe ts c l).rroot = ts.rroot := by
  induction l with
  | nil => intro ts h; exact ⟨h, rfl⟩
  | cons tq rest ih =>
    intro ts h
    obtain ⟨t, q⟩ := tq
    unfold resubscribe
    obtain ⟨h1, h2⟩ := ih _ (subscribe_WF ts _ t q c h)
    exact ⟨h1, h2.trans (subscribe_rroot _ _ _ _ _)⟩

/-! ### end of a connection -/

theorem Inv_markDead (b : B) (c : Nat) (h : Inv b) :
    Inv { b with conns := b.conns.map (fun (x : Conn) => if x.id == c then { x with alive := false } else x) } := by
  refine ⟨h.wf, h.rwf, h.rflag, ?_⟩
  intro cn hcn ha
  simp only [List.mem_map] at hcn
  obtain ⟨x, hx, rfl⟩ := hcn
  by_cases hxc : (x.id == c) = true
  · simp [hxc] at ha
  · simp only [hxc, Bool.false_eq_true, ↓reduceIte] at ha ⊢
    exact h.sess x hx ha

theorem Inv_stop (b : B) (c : Nat) (h : Inv b) : Inv (stop b c).1 := by
  unfold stop
  split
  · exact h
  · split
    · exact h
    · have h0 := Inv_markDead b c h
      simp only
      split
      · exact h0
      · rename_i s hs
        have h1 : Inv { ({ b with conns := b.conns.map (fun (x : Conn) => if x.id == c then { x with alive := false } else x) } : B) with
            topics := unsubAll b.topics c s.topics } :=
          Inv_of_frame _ _ h0 rfl rfl (unsubAll_frame c s.topics b.topics h.wf).1
            (unsubAll_frame c s.topics b.topics h.wf).2
        split
        · split
          · exact h1
          · rename_i w hw
            simp only
            have h2 := Inv_onPublish _ w h1
            split
            · exact Inv_storeDel _ _ (Inv_setSess _ _ h2)
            · exact Inv_setSess _ _ h2
        · simp only
          split
          · exact Inv_storeDel _ _ h1
          · exact h1

/-! ### packets -/

theorem Inv_packet (b : B) (c : Nat) (p : Packet) (h : Inv b) : Inv (packet b c p).1 := by
  unfold packet
  split
  · exact h
  · split
    · exact h
    · split
      · exact h
      · rename_i cn _ s hs
        cases p with
        | publish pub =>
          simp only
          split
          · exact Inv_setSess _ _ h
          · split
            · exact Inv_onPublish _ _ h
            · exact Inv_onPublish _ _ h
        | pubrel id =>
          simp only
          exact Inv_releaseAll _ _ (Inv_setSess _ _ h)
        | subscribe id ts =>
          simp only
          exact Inv_sendRetained _ _ _ (Inv_setSess _ _ (Inv_subscribeLoop b c s ts [] [] h))
        | unsubscribe id ts =>
          simp only
          apply Inv_setSess
          obtain ⟨h1, h2⟩ := unsubFold_frame c ts b.topics h.wf
          exact Inv_of_frame b _ h rfl rfl h1 h2
        | disconnect => exact Inv_stop _ _ (Inv_setSess _ _ h)
        | pubrec id => exact h
        | pingreq => exact h
        | puback _ => exact h
        | pubcomp _ => exact h
        | pingresp => exact h
        | suback _ _ => exact h
        | unsuback _ => exact h
        | connack _ _ => exact h
        | connectAgain => exact h

/-! ### in-process API -/

theorem Inv_srvPub (b : B) (p : Pub) (h : Inv b) : Inv (srvPub b p).1 := by
  unfold srvPub
  exact Inv_onPublish _ _ h

theorem Inv_srvSub (b : B) (cb : Nat) (f : Bytes) (q : Nat) (h : Inv b) : Inv (srvSub b cb f q).1 := by
  unfold srvSub
  have hw := subscribe_WF b.topics Mqtt.Generated.maxQosAllowed f q cb h.wf
  have hr := subscribe_rroot b.topics Mqtt.Generated.maxQosAllowed f q cb
  generalize b.topics.subscribe Mqtt.Generated.maxQosAllowed f q cb = r at hw hr
  obtain ⟨ts, o⟩ := r
  cases o with
  | none => exact Inv_of_frame b _ h rfl rfl hw hr
  | some rq => exact Inv_of_frame b _ h rfl rfl hw hr

theorem Inv_srvUnsub (b : B) (cb : Nat) (f : Bytes) (h : Inv b) : Inv (srvUnsub b cb f).1 := by
  unfold srvUnsub
  exact Inv_of_frame b _ h rfl rfl (unsubscribe_WF b.topics f (some cb) h.wf)
    (unsubscribe_rroot b.topics f (some cb))

/-! ### first packet -/

/-- registering a connection whose session has just been stored -/
theorem Inv_addConn (b : B) (c : Nat) (s : Sess) (h : Inv b) (hs : (b.getSess s.ref).isSome = true) :
    Inv { ({ b with conns := b.conns.filter (fun (x : Conn) => x.id != c) ++ [({ id := c, sess := s.ref, alive := true } : Conn)] } : B) with
          topics := resubscribe b.topics c s.topics } := by
  obtain ⟨h1, h2⟩ := resubscribe_frame c s.topics b.topics h.wf
  refine ⟨h1, by rw [h2]; exact h.rwf, by rw [h2]; exact h.rflag, ?_⟩
  intro cn hcn ha
  simp only [List.mem_append, List.mem_filter, List.mem_singleton] at hcn
  rcases hcn with hcn | rfl
  · exact h.sess cn hcn.1 ha
  · exact hs

theorem Inv_first (b : B) (c : Nat) (f : First) (a : Bool) (h : Inv b) : Inv (first b c f a).1 := by
  unfold first
  split
  · exact h
  · exact h
  · split
    · exact h
    · exact h
    · split
      · exact h
      · simp only
        split
        · rename_i s hres
          exact Inv_addConn _ c _ (Inv_setSess _ _ h) (getSess_setSess_isSome _ _ _ (Or.inr rfl))
        · refine Inv_addConn _ c _ ?_ ?_
          · exact Inv_storeSet _ _ _ (Inv_setSess _ _ (Inv_nextRef b _ h))
          · rw [getSess_congr _ _ (storeSet_sess _ _ _)]
            exact getSess_setSess_isSome _ _ _ (Or.inr rfl)

/-! ### every event, every history -/

theorem Inv_step (b : B) (e : Ev) (h : Inv b) : Inv (step b e).1 := by
  cases e with
  | first c f a =>
    exact Mqtt.Proofs.Connect.connect_state Inv (fun b c h => Inv_stop b c h) (fun b c f a h => Inv_first b c f a h) b c f a h
  | packet c p => exact Inv_packet b c p h
  | close c => exact Inv_stop b c h
  | srvPub p => exact Inv_srvPub b p h
  | srvSub cb f q => exact Inv_srvSub b cb f q h
  | srvUnsub cb f => exact Inv_srvUnsub b cb f h

theorem Inv_run (es : List Ev) : ∀ b : B, Inv b → Inv (run b es).1 := by
  induction es with
  | nil => intro b h; exact h
  | cons e rest ih =>
    intro b h
    unfold run
    exact ih _ (Inv_step b e h)

end Mqtt.Proofs.Broker
