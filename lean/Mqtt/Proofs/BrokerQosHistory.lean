/-
C02 over histories: which events touch which session's inbound QoS 2 queue, the
exchanges opened and the contents handed over along a history, conservation.

Everything is indexed by the session object `r` (a connection is `bound` to one
session object for its whole life; a persistent session object outlives its
connections, and — defect E4, overlapping client identifiers — two live
connections can be bound to the same one, which is why the connection
identifier alone is not the right index).
-/
import Mqtt.Proofs.BrokerQosInv

namespace Mqtt.Proofs.BrokerQos
open Mqtt.Iface.Broker Mqtt.Model.Broker
open Mqtt.Generated (tPUBREL)

/-! ## 1. one event -/

/-- The inbound QoS 2 queue of session object `r` after one event: only a packet
on a live connection bound to `r` can change it, and then as `newQ` says
(QoS 2 PUBLISH: `q2Wait`; PUBREL: mark and drop the released prefix; any other
packet: nothing).  First packets, connection ends, the in-process API and all
packets on connections bound to other session objects leave it alone. -/
theorem step_pub2in {b : B} (hI : BInv b) (ev : Ev) (r : Nat) :
    pub2inOf (step b ev).1 r =
      match ev with
      | .packet c p => if bound b c r then newQ p (pub2inOf b r) else pub2inOf b r
      | _ => pub2inOf b r := by
  cases ev with
  | first c f a =>
    exact (Mqtt.Proofs.Connect.connect_state (fun b' => BInv b' ∧ pub2inOf b' r = pub2inOf b r)
      (fun b' c' h => ⟨h.1.same (stop_same b' c'), ((stop_same b' c').q r).trans h.2⟩)
      (fun b' c' f' a' h => ⟨first_inv h.1 c' f' a', (first_q h.1 c' f' a' r).trans h.2⟩) b c f a ⟨hI, rfl⟩).2
  | close c => exact (stop_same b c).q r
  | srvPub p => exact (onPublish_frame b _).1.same.q r
  | srvSub cb f q =>
    simp only [step, srvSub]
    split <;> rfl
  | srvUnsub cb f => rfl
  | packet c p =>
    simp only [step]
    by_cases hl : b.alive c = true
    · obtain ⟨cn, s, hc, ha, hs, hr⟩ := hI.live hl
      rw [(packet_same hc ha hs p).q r, pub2inOf_setSess]
      have hb : bound b c r = (cn.sess == r) := by simp [bound, hc, ha]
      rw [hb]
      by_cases e : r = cn.sess
      · subst e
        simp [hr, pub2inOf, hs]
      · have e' : ¬ cn.sess = r := fun h => e h.symm
        simp [hr, e, e']
    · have hd : packet b c p = (b, []) := by
        apply packet_dead
        rintro ⟨cn, s, hc, ha, _⟩
        exact hl (alive_of hc ha)
      have hb : bound b c r = false := by
        unfold bound
        cases hc : b.getConn c with
        | none => rfl
        | some cn =>
          have : cn.alive = false := by
            cases ha : cn.alive with
            | false => rfl
            | true => exact absurd (alive_of hc ha) hl
          simp [this]
      rw [hd, hb]; rfl

/-! ## 2. exchanges opened and contents handed over -/

/-- the QoS 2 exchange an event opens on session object `r`: a QoS 2 PUBLISH on a
live connection bound to `r` while no exchange with its identifier is open -/
def stepOpened (b : B) (r : Nat) : Ev → List Pub
  | .packet c (.publish p) =>
    if bound b c r && p.qos == 2 && !(pub2inOf b r).any (fun e => e.id == p.pktid) then [p] else []
  | _ => []

/-- the contents an event takes off the queue of `r` and hands on: those of the
prefix a PUBREL on a live connection bound to `r` releases -/
def stepHanded (b : B) (r : Nat) : Ev → List Pub
  | .packet c (.pubrel id) =>
    if bound b c r then (q2Acked (q2Ack (pub2inOf b r) id)).2.map (·.msg) else []
  | _ => []

def opened (b : B) (r : Nat) : List Ev → List Pub
  | [] => []
  | ev :: evs => stepOpened b r ev ++ opened (step b ev).1 r evs

def handed (b : B) (r : Nat) : List Ev → List Pub
  | [] => []
  | ev :: evs => stepHanded b r ev ++ handed (step b ev).1 r evs

theorem q2Ack_msgs (q : List QEntry) (id : Nat) : (q2Ack q id).map (·.msg) = q.map (·.msg) := by
  unfold q2Ack
  rw [List.map_map]
  apply List.map_congr_left
  intro e _
  simp only [Function.comp_apply]
  split <;> rfl

theorem step_conservation {b : B} (hI : BInv b) (ev : Ev) (r : Nat) :
    stepHanded b r ev ++ (pub2inOf (step b ev).1 r).map (·.msg) =
      (pub2inOf b r).map (·.msg) ++ stepOpened b r ev := by
  rw [step_pub2in hI ev r]
  cases ev with
  | packet c p =>
    simp only
    by_cases hb : bound b c r = true
    · simp only [hb, ↓reduceIte]
      cases p with
      | publish pub =>
        simp only [stepHanded, stepOpened, hb, Bool.true_and, List.nil_append, newQ]
        by_cases h2 : (pub.qos == 2) = true
        · simp only [h2, ↓reduceIte, Bool.true_and]
          by_cases ha : ((pub2inOf b r).any fun e => e.id == pub.pktid) = true
          · simp [ha, q2Wait_open _ _ ha]
          · have ha' : ((pub2inOf b r).any fun e => e.id == pub.pktid) = false := by simpa using ha
            rw [q2Wait_new _ _ ha']
            simp only [ha', Bool.not_false, ↓reduceIte, List.map_append, List.map_cons, List.map_nil]
        · simp [h2]
      | pubrel id =>
        simp only [stepHanded, stepOpened, hb, ↓reduceIte, newQ, List.append_nil]
        rw [← List.map_append, q2Acked_append, q2Ack_msgs]
      | _ => simp [stepHanded, stepOpened, newQ]
    · have hb' : bound b c r = false := by simpa using hb
      cases p <;> simp [stepHanded, stepOpened, hb']
  | _ => simp [stepHanded, stepOpened]

theorem run_cons (b : B) (ev : Ev) (evs : List Ev) : (run b (ev :: evs)).1 = (run (step b ev).1 evs).1 := rfl

theorem run_conservation {b : B} (hI : BInv b) (evs : List Ev) (r : Nat) :
    handed b r evs ++ (pub2inOf (run b evs).1 r).map (·.msg) =
      (pub2inOf b r).map (·.msg) ++ opened b r evs := by
  induction evs generalizing b with
  | nil => simp [handed, opened, run]
  | cons ev evs ih =>
    rw [run_cons]
    simp only [handed, opened]
    have h1 := step_conservation hI ev r
    have h2 := ih (step_inv hI ev)
    rw [List.append_assoc, h2, ← List.append_assoc, h1, List.append_assoc]

/-! ## 3. eager release -/

theorem q2Ack_marked (l : List QEntry) (id : Nat) (h : ∀ x ∈ l, x.state = tPUBREL) : q2Ack l id = l := by
  unfold q2Ack
  conv => rhs; rw [← List.map_id l]
  apply List.map_congr_left
  intro e he
  have := h e he
  split
  · cases e; simp_all
  · rfl

/-- once every older entry is PUBREL-marked, the PUBREL of `e` releases `e`
(together with the marked entries around it) -/
theorem q2Acked_release (pre post : List QEntry) (e : QEntry) (id : Nat)
    (hpre : ∀ x ∈ pre, x.state = tPUBREL) (he : e.id = id) :
    (q2Acked (q2Ack (pre ++ e :: post) id)).2 =
      pre ++ { e with state := tPUBREL } :: (q2Ack post id).takeWhile (fun x => x.state == tPUBREL) := by
  have h1 : q2Ack (pre ++ e :: post) id = pre ++ { e with state := tPUBREL } :: q2Ack post id := by
    have : q2Ack (pre ++ e :: post) id = q2Ack pre id ++ q2Ack (e :: post) id := by
      simp [q2Ack]
    rw [this, q2Ack_marked pre id hpre]
    simp [q2Ack, he]
  rw [h1]
  simp only [q2Acked]
  rw [List.takeWhile_append_of_pos (by intro x hx; simp [hpre x hx])]
  simp

/-- a connection bound to `r` in a state satisfying the invariant: its session object -/
theorem bound_sess {b : B} (hI : BInv b) {c r : Nat} (hb : bound b c r = true) :
    b.alive c = true ∧ ∃ cn s, b.getConn c = some cn ∧ cn.alive = true ∧ b.getSess cn.sess = some s ∧
      cn.sess = r ∧ s.ref = r ∧ pub2inOf b r = s.pub2in := by
  unfold bound at hb
  cases hc : b.getConn c with
  | none => simp [hc] at hb
  | some cn =>
    simp only [hc, Bool.and_eq_true, beq_iff_eq] at hb
    have hl := alive_of hc hb.1
    obtain ⟨cn', s, hc', ha, hs, hr⟩ := hI.live hl
    rw [hc] at hc'
    cases hc'
    refine ⟨hl, cn, s, rfl, ha, hs, hb.2, hr.trans hb.2, ?_⟩
    rw [← hb.2]; simp [pub2inOf, hs]

/-- after a PUBREL: every entry with that identifier still queued is marked, and
then the oldest queued entry is another, still waiting one -/
theorem pubrel_blocked {q : List QEntry} (hq : QInv q) (id : Nat) :
    ∀ x ∈ (q2Acked (q2Ack q id)).1, x.id = id →
      x.state = tPUBREL ∧
      ∃ h, (q2Acked (q2Ack q id)).1.head? = some h ∧ h.state = 0 ∧ h.id ≠ id := by
  intro x hx hid
  have hq' := qInv_pubrel hq id
  have hmark : ∀ y ∈ (q2Acked (q2Ack q id)).1, y.id = id → y.state = tPUBREL := by
    intro y hy hyid
    have hy' : y ∈ q2Ack q id := by
      rw [← q2Acked_append (q2Ack q id)]; exact List.mem_append_right _ hy
    unfold q2Ack at hy'
    obtain ⟨z, _, hz⟩ := List.mem_map.mp hy'
    split at hz
    · subst hz; rfl
    · rename_i hne
      subst hz
      exact absurd (by simpa using hyid) hne
  refine ⟨hmark x hx hid, ?_⟩
  cases hrest : (q2Acked (q2Ack q id)).1 with
  | nil => rw [hrest] at hx; cases hx
  | cons h t =>
    have hh : h ∈ (q2Acked (q2Ack q id)).1 := by rw [hrest]; exact List.mem_cons_self
    have h6 : h.state ≠ tPUBREL := hq'.head h (by rw [hrest]; rfl)
    have h0 : h.state = 0 := by
      rcases hq'.states h hh with h0 | h0
      · exact h0
      · exact absurd h0 h6
    exact ⟨h, rfl, h0, fun e => h6 (hmark h hh e)⟩

end Mqtt.Proofs.BrokerQos
