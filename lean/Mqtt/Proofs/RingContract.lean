/-
Core D → Core F — the call-level facts of `Proofs/RingCall*.lean` restated as equations about the life-cycle
model's ring functions `RingA.waitSpace / commitP / waitData / commitC / close` (`Model/Lifecycle.lean`) applied
to `absRing` of the linearisation state.  `Properties/C15.lean` states the contract with these; `Properties/C16.lean`
cites it (`C16_ring_contract_is_C15`).

Where the equation needs the `done` flag as it was at ANOTHER moment of the same call, the flag is overridden
explicitly (`{ absRing x with done := false }`): `RingA` tests `done` and the cursors atomically, the ring program
tests them at two different program counters.  That is the gap named in NOTES-ringlife.md.
-/
import Mqtt.Proofs.RingCallX
import Mqtt.Proofs.Lifecycle

set_option linter.unusedSimpArgs false
set_option linter.unusedVariables false

namespace Mqtt.Proofs.Ring
open Mqtt.Model.Ring Mqtt.Iface.Ring Mqtt.Spec.Ring
open Mqtt.Model.Lifecycle (RingA Ret)

theorem ra_commitP_ok (c : Mqtt.Model.Lifecycle.Cfg) (r : RingA) (l : Nat) (hd : r.done = false) (h : r.buf + l ≤ c.cap) :
    RingA.commitP c r l = some (.ok, { r with buf := r.buf + l }) := by
  unfold RingA.commitP
  rw [Mqtt.Proofs.Lifecycle.space_unblocks c r l hd h]

theorem ra_waitSpace_ok (c : Mqtt.Model.Lifecycle.Cfg) (r : RingA) (l : Nat) (hd : r.done = false) (h : r.buf + l ≤ c.cap) :
    RingA.waitSpace c r l = some (.ok, r) := Mqtt.Proofs.Lifecycle.space_unblocks c r l hd h

theorem ra_waitSpace_full (c : Mqtt.Model.Lifecycle.Cfg) (r : RingA) (l : Nat) (h : c.cap < l) :
    RingA.waitSpace c r l = some (.full, r) := by
  unfold RingA.waitSpace; simp [h]

theorem ra_waitSpace_eof (c : Mqtt.Model.Lifecycle.Cfg) (hd2 : c.d2 = false) (r : RingA) (l : Nat) (hd : r.done = true) (h : l ≤ c.cap) :
    RingA.waitSpace c r l = some (.eof, r) := by
  rw [Mqtt.Proofs.Lifecycle.done_waitSpace c hd2 r l hd]
  have : ¬ c.cap < l := by omega
  simp [this]

theorem ra_commitP_eof (c : Mqtt.Model.Lifecycle.Cfg) (hd2 : c.d2 = false) (r : RingA) (l : Nat) (hd : r.done = true) (h : l ≤ c.cap) :
    RingA.commitP c r l = some (.eof, r) := by
  rw [Mqtt.Proofs.Lifecycle.done_commitP c hd2 r l hd]
  have : ¬ c.cap < l := by omega
  simp [this]

theorem ra_waitData_ok (c : Mqtt.Model.Lifecycle.Cfg) (r : RingA) (n : Nat) (hn : n ≤ c.cap) (h : n ≤ r.buf) :
    RingA.waitData c r n = some (.ok, r) := Mqtt.Proofs.Lifecycle.data_unblocks c r n hn h

theorem ra_waitData_full (c : Mqtt.Model.Lifecycle.Cfg) (r : RingA) (n : Nat) (h : c.cap < n) :
    RingA.waitData c r n = some (.full, r) := by
  unfold RingA.waitData; simp [h]

theorem ra_waitData_eof (c : Mqtt.Model.Lifecycle.Cfg) (hd2 : c.d2 = false) (r : RingA) (n : Nat) (hn : n ≤ c.cap)
    (h : r.buf < n) (hd : r.done = true) : RingA.waitData c r n = some (.eof, r) := by
  unfold RingA.waitData
  have h1 : ¬ c.cap < n := by omega
  have h2 : ¬ n ≤ r.buf := by omega
  simp [h1, h2, hd, hd2]

theorem ra_commitC (c : Mqtt.Model.Lifecycle.Cfg) (hd2 : c.d2 = false) (r : RingA) (n : Nat) :
    RingA.commitC c r n = some { r with buf := r.buf - n } := Mqtt.Proofs.Lifecycle.commitC_returns c hd2 r n

theorem ra_close (c : Mqtt.Model.Lifecycle.Cfg) (hd2 : c.d2 = false) (r : RingA) :
    RingA.close c r = some { r with done := true } := Mqtt.Proofs.Lifecycle.close_returns c hd2 r

/-- the ring with its `done` flag as it was when the call tested it: still open … -/
def asOpen (r : RingA) : RingA := { buf := r.buf, done := false, pHeld := r.pHeld, cHeld := r.cHeld }
/-- … resp. already closed -/
def asClosed (r : RingA) : RingA := { buf := r.buf, done := true, pHeld := r.pHeld, cHeld := r.cHeld }

@[simp] theorem asOpen_buf (r : RingA) : (asOpen r).buf = r.buf := rfl
@[simp] theorem asOpen_done (r : RingA) : (asOpen r).done = false := rfl
@[simp] theorem asClosed_buf (r : RingA) : (asClosed r).buf = r.buf := rfl
@[simp] theorem asClosed_done (r : RingA) : (asClosed r).done = true := rfl
theorem asOpen_of_open (r : RingA) (h : r.done = false) : asOpen r = r := by
  cases r; simp only [asOpen]; simp only at h; rw [h]
theorem asClosed_of_closed (r : RingA) (h : r.done = true) : asClosed r = r := by
  cases r; simp only [asClosed]; simp only at h; rw [h]

/-! ### the linearisation steps as `RingA` steps -/

theorem absRing_ext (x y : St) (h1 : y.sh.pseq - y.sh.cseq = x.sh.pseq - x.sh.cseq) (h2 : y.sh.done = x.sh.done) :
    absRing y = absRing x := by
  unfold absRing; rw [h1, h2]

/-- a producer commit: with the `done` flag masked it is `RingA.commitP … = ok` -/
theorem linP_ringA (cfg : Cfg) (l : Nat) (x y : St) (hcp : x.sh.cseq ≤ x.sh.pseq) (h : LinP cfg l x y) :
    (absRing x).buf + l ≤ (ringCfg cfg).cap ∧
    absRing y = { absRing x with buf := (absRing x).buf + l } ∧
    RingA.commitP (ringCfg cfg) (asOpen (absRing x)) l = some (.ok, asOpen (absRing y)) := by
  obtain ⟨_, hg, hp, hc, hd⟩ := h
  have hb : (absRing x).buf + l ≤ (ringCfg cfg).cap := by simp only [absRing_buf, ringCfg_cap]; omega
  have he : absRing y = { absRing x with buf := (absRing x).buf + l } := by
    unfold absRing
    simp only [hp, hc, hd]
    congr 1
    omega
  refine ⟨hb, he, ?_⟩
  rw [ra_commitP_ok (ringCfg cfg) _ l rfl (by simpa using hb), he]
  rfl

/-- a consumer commit is `RingA.commitC` -/
theorem linC_ringA (cfg : Cfg) (l : Nat) (x y : St) (h : LinC cfg l x y) :
    l ≤ (absRing x).buf ∧ RingA.commitC (ringCfg cfg) (absRing x) l = some (absRing y) := by
  obtain ⟨_, hg, hc, hp, hd⟩ := h
  refine ⟨by simp only [absRing_buf]; omega, ?_⟩
  rw [ra_commitC (ringCfg cfg) rfl]
  unfold absRing
  simp only [hp, hc, hd]
  congr 2
  omega

/-- the first statement of `Close` is `RingA.close` -/
theorem linX_ringA (cfg : Cfg) (t : Tid) (x y : St) (h : LinX cfg t x y) :
    RingA.close (ringCfg cfg) (absRing x) = some (absRing y) := by
  obtain ⟨_, hd, hp, hc⟩ := h
  rw [ra_close (ringCfg cfg) rfl]
  unfold absRing
  simp only [hp, hc, hd]

/-- the last `isDone` test of `waitForWriteSpace(l)`, passed, IS `RingA.waitSpace … l = ok` — exactly, on the ring as it is -/
theorem linW_ringA (cfg : Cfg) (l : Nat) (x y : St) (hcp : x.sh.cseq ≤ x.sh.pseq) (h : LinW cfg l x y) :
    RingA.waitSpace (ringCfg cfg) (absRing x) l = some (.ok, absRing x) ∧ absRing y = absRing x := by
  obtain ⟨_, hd, hg, hp, hc, hdn⟩ := h
  refine ⟨ra_waitSpace_ok (ringCfg cfg) _ l hd ?_, absRing_ext x y (by rw [hp, hc]) hdn⟩
  simp only [absRing_buf, ringCfg_cap]; omega

/-- the load of the producer cursor after `done` was seen, finding too little, IS `RingA.waitData … = eof` — exactly -/
theorem linE_ringA (cfg : Cfg) (nd : Nat) (x y : St) (hnd : nd ≤ cfg.size) (h : LinE cfg nd x y) :
    RingA.waitData (ringCfg cfg) (absRing x) nd = some (.eof, absRing x) ∧ absRing y = absRing x := by
  obtain ⟨_, hd, hlt, hp, hc, hdn⟩ := h
  exact ⟨ra_waitData_eof (ringCfg cfg) rfl _ nd hnd (by simpa using hlt) hd, absRing_ext x y (by rw [hp, hc]) hdn⟩

/-! ### `ReadFrom`: what holds at its program counters -/

/-- the argument of `waitForWriteSpace` at its program counters -/
def wfsArg : Pc → Option Nat
  | .s30 n | .s31 n | .s32 n _ | .s33 n _ | .s34 n _ | .s35 n _ | .s36 n _ | .s36w n _ | .s37 n _ | .s38 n _ _
  | .s39 n _ => some n
  | _ => none

/-- inside the `WriteCommit(n)` that `ReadFrom` calls the `n` bytes fit: `buf + n ≤ cap`, before and at the
cursor store (the life-cycle model's `InvA.rcommit`) -/
theorem rfcommit_fits (cfg : Cfg) (base : Nat) (s : St) (h : RInv cfg base s) (tot : Nat) (ms : List Nat) (n : Nat)
    (hcur : s.P.cur = some (.rfcommit tot ms)) (hpc : wfsArg s.P.pc = some n ∨ ∃ ppos, s.P.pc = .c50 n ppos) :
    s.sh.pseq + n ≤ s.sh.cseq + cfg.size := by
  have hp := h.invP.pcinv
  have hf := h.invP.fill.2
  have hpcs : s.sh.pseq ≤ s.sh.cseq + cfg.size := h.glob.pc
  have key : n ≤ s.P.filled → s.sh.pseq + n ≤ s.sh.cseq + cfg.size := by
    intro hn
    by_cases hz : s.P.filled = 0
    · omega
    · have := hf (by omega)
      have this' : s.sh.pseq + s.P.filled ≤ s.sh.cseq + cfg.size := this
      omega
  unfold pcP at hp
  rcases hpc with hw | ⟨ppos, hc⟩
  · cases hpcs' : s.P.pc <;> rw [hpcs'] at hw hp <;> simp only [wfsArg, Option.some.injEq] at hw <;> try (cases hw)
    all_goals (first
      | exact key (hp.2.1 tot ms hcur)
      | exact key (hp.2.2.1 tot ms hcur)
      | exact key (hp.2.1.2.1 tot ms hcur)
      | exact key (hp.2.2.2.2.2.1 tot ms hcur)
      | exact key (hp.2.2.2.1 tot ms hcur)
      | exact absurd hcur (hp.2.2 tot ms))
  · rw [hc] at hp
    exact key hp.2

end Mqtt.Proofs.Ring
