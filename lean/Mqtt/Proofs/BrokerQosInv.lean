/-
Representation invariant of the broker model as far as C02 needs it, and its
preservation by every event: session references are unique and below the
reference counter, every connection's session reference resolves, and every
inbound QoS 2 queue is a well-formed FIFO (identifiers distinct, states
"waiting"/"PUBREL seen" only, oldest entry still waiting).

Also: which events change which session's inbound QoS 2 queue (`step_pub2in`).
-/
import Mqtt.Proofs.BrokerQos
import Mqtt.Proofs.BrokerConnect

namespace Mqtt.Proofs.BrokerQos
open Mqtt.Iface.Broker Mqtt.Model.Broker
open Mqtt.Generated (tPUBREL)

/-! ## 1. the queue invariant -/

structure QInv (q : List QEntry) : Prop where
  ids    : (q.map (·.id)).Nodup
  states : ∀ e ∈ q, e.state = 0 ∨ e.state = tPUBREL
  head   : ∀ e, q.head? = some e → e.state ≠ tPUBREL

theorem qInv_nil : QInv [] := ⟨by simp, by simp, by simp⟩

theorem q2Wait_open (q : List QEntry) (p : Pub) (h : (q.any fun e => e.id == p.pktid) = true) :
    q2Wait q p = q := by simp [q2Wait, h]

theorem q2Wait_new (q : List QEntry) (p : Pub) (h : (q.any fun e => e.id == p.pktid) = false) :
    q2Wait q p = q ++ [⟨p.pktid, 0, p⟩] := by simp [q2Wait, h]

theorem qInv_wait {q : List QEntry} (h : QInv q) (p : Pub) : QInv (q2Wait q p) := by
  by_cases ha : (q.any fun e => e.id == p.pktid) = true
  · rw [q2Wait_open q p ha]; exact h
  · have ha' : (q.any fun e => e.id == p.pktid) = false := by simpa using ha
    rw [q2Wait_new q p ha']
    refine ⟨?_, ?_, ?_⟩
    · rw [List.map_append, List.nodup_append]
      refine ⟨h.ids, by simp, ?_⟩
      intro a ha1 b hb
      simp only [List.map_cons, List.map_nil, List.mem_singleton] at hb
      subst hb
      intro e
      obtain ⟨x, hx, hxe⟩ := List.mem_map.mp ha1
      rw [List.any_eq_false] at ha'
      exact ha' x hx (by simp [hxe, e])
    · intro e he
      rcases List.mem_append.mp he with h1 | h1
      · exact h.states e h1
      · simp only [List.mem_singleton] at h1; subst h1; exact .inl rfl
    · intro e he
      cases q with
      | nil => simp at he; subst he; simp [tPUBREL]
      | cons x xs => simp at he; subst he; exact h.head _ rfl

theorem q2Ack_ids (q : List QEntry) (id : Nat) : (q2Ack q id).map (·.id) = q.map (·.id) := by
  unfold q2Ack
  rw [List.map_map]
  apply List.map_congr_left
  intro e _
  simp only [Function.comp_apply]
  split <;> rfl

theorem q2Acked_append (q : List QEntry) : (q2Acked q).2 ++ (q2Acked q).1 = q := by
  simp [q2Acked, List.takeWhile_append_dropWhile]

theorem qInv_pubrel {q : List QEntry} (h : QInv q) (id : Nat) : QInv (q2Acked (q2Ack q id)).1 := by
  have happ := q2Acked_append (q2Ack q id)
  have hsub : ∀ e ∈ (q2Acked (q2Ack q id)).1, e ∈ q2Ack q id := by
    intro e he; rw [← happ]; exact List.mem_append_right _ he
  refine ⟨?_, ?_, ?_⟩
  · have h1 : ((q2Ack q id).map (·.id)).Nodup := by rw [q2Ack_ids]; exact h.ids
    rw [← happ, List.map_append, List.nodup_append] at h1
    exact h1.2.1
  · intro e he
    have := hsub e he
    unfold q2Ack at this
    obtain ⟨x, hx, hxe⟩ := List.mem_map.mp this
    split at hxe
    · subst hxe; exact .inr rfl
    · subst hxe; exact h.states x hx
  · intro e he
    have := List.head?_dropWhile_not (fun e => e.state == tPUBREL) (q2Ack q id)
    simp only [q2Acked] at he
    rw [he] at this
    simpa using this

/-! ## 2. the broker invariant -/

structure BInv (b : B) : Prop where
  /-- every session reference in use is below the counter new sessions draw from -/
  refsLt    : ∀ r ∈ refs b, r < b.nextRef
  /-- session references are unique -/
  refsNodup : (refs b).Nodup
  /-- the session of every connection in the table resolves -/
  connSess  : ∀ cn ∈ b.conns, cn.sess ∈ refs b
  /-- every inbound QoS 2 queue is a well-formed FIFO -/
  queues    : ∀ r, QInv (pub2inOf b r)

theorem inv_init : BInv {} :=
  ⟨by simp [refs], by simp [refs], by simp, fun r => by simp [pub2inOf, B.getSess, qInv_nil]⟩

/-- a live connection's session resolves -/
theorem BInv.live {b : B} (h : BInv b) {c : Nat} (hl : b.alive c = true) :
    ∃ cn s, b.getConn c = some cn ∧ cn.alive = true ∧ b.getSess cn.sess = some s ∧ s.ref = cn.sess := by
  obtain ⟨cn, hc, ha⟩ := (alive_iff b c).mp hl
  have hm : cn ∈ b.conns := List.mem_of_find?_eq_some hc
  have := (getSess_isSome_iff b cn.sess).mpr (h.connSess cn hm)
  obtain ⟨s, hs⟩ := Option.isSome_iff_exists.mp this
  exact ⟨cn, s, hc, ha, hs, getSess_ref hs⟩

/-- `b'` has the same session references, the same reference counter, no new
session bindings and the same inbound QoS 2 queues as `b` -/
structure Same (b b' : B) : Prop where
  refs    : refs b' = refs b
  nextRef : b'.nextRef = b.nextRef
  conns   : ∀ cn ∈ b'.conns, ∃ cn0 ∈ b.conns, cn0.sess = cn.sess
  q       : ∀ r, pub2inOf b' r = pub2inOf b r

theorem Same.refl (b : B) : Same b b := ⟨rfl, rfl, fun cn h => ⟨cn, h, rfl⟩, fun _ => rfl⟩

theorem Same.trans {a b c : B} (h1 : Same a b) (h2 : Same b c) : Same a c :=
  ⟨h2.refs.trans h1.refs, h2.nextRef.trans h1.nextRef,
   fun cn h => by
     obtain ⟨c1, hc1, e1⟩ := h2.conns cn h
     obtain ⟨c0, hc0, e0⟩ := h1.conns c1 hc1
     exact ⟨c0, hc0, e0.trans e1⟩,
   fun r => (h2.q r).trans (h1.q r)⟩

theorem BInv.same {b b' : B} (h : BInv b) (hs : Same b b') : BInv b' :=
  ⟨fun r hr => by rw [hs.nextRef]; exact h.refsLt r (hs.refs ▸ hr),
   by rw [hs.refs]; exact h.refsNodup,
   fun cn hcn => by
     obtain ⟨c0, hc0, e⟩ := hs.conns cn hcn
     rw [hs.refs, ← e]; exact h.connSess c0 hc0,
   fun r => by rw [hs.q r]; exact h.queues r⟩

theorem getSess_congr {b b' : B} (h : b'.sess = b.sess) (r : Nat) : b'.getSess r = b.getSess r := by
  unfold B.getSess; rw [h]

/-- same connection table, session objects and reference counter -/
theorem same_of_eq {b b' : B} (hc : b'.conns = b.conns) (hs : b'.sess = b.sess)
    (hn : b'.nextRef = b.nextRef) : Same b b' :=
  ⟨by unfold refs; rw [hs], hn, fun cn h => ⟨cn, hc ▸ h, rfl⟩,
   fun r => by unfold pub2inOf; rw [getSess_congr hs]⟩

theorem Frame.same {b b' : B} (h : Frame b b') : Same b b' := same_of_eq h.conns h.sess h.nextRef

theorem pub2inOf_setSess (b : B) (s : Sess) (r : Nat) :
    pub2inOf (b.setSess s) r = if r = s.ref then s.pub2in else pub2inOf b r := by
  unfold pub2inOf
  by_cases h : r = s.ref
  · subst h; simp [getSess_setSess_same]
  · simp [h, getSess_setSess_ne b s r h]

/-- replacing a session object by one with the same inbound queue -/
theorem same_setSess {b : B} {s s' : Sess} (hs : b.getSess s'.ref = some s)
    (hq : s'.pub2in = s.pub2in) : Same b (b.setSess s') := by
  have hm : s'.ref ∈ refs b := (getSess_isSome_iff b s'.ref).mp (by simp [hs])
  refine ⟨refs_setSess_mem b s' hm, rfl, fun cn h => ⟨cn, h, rfl⟩, ?_⟩
  intro r
  rw [pub2inOf_setSess]
  split
  · rename_i h; subst h; simp [pub2inOf, hs, hq]
  · rfl

/-- replacing the inbound queue of an existing session object by a well-formed one -/
theorem BInv.setSess {b : B} (h : BInv b) {s s' : Sess} (hs : b.getSess s'.ref = some s)
    (hq : QInv s'.pub2in) : BInv (b.setSess s') := by
  have hm : s'.ref ∈ refs b := (getSess_isSome_iff b s'.ref).mp (by simp [hs])
  refine ⟨?_, ?_, ?_, ?_⟩
  · intro r hr; rw [refs_setSess_mem b s' hm] at hr; exact h.refsLt r hr
  · rw [refs_setSess_mem b s' hm]; exact h.refsNodup
  · intro cn hcn; rw [refs_setSess_mem b s' hm]; exact h.connSess cn hcn
  · intro r
    rw [pub2inOf_setSess]
    split
    · exact hq
    · exact h.queues r

/-! ## 3. events -/

theorem subscribeLoop_core (b : B) (c : Nat) (s : Sess) (ts : List (Bytes × Nat)) (codes : List Nat)
    (rms : List Msg) :
    (subscribeLoop b c s ts codes rms).1.conns = b.conns ∧
    (subscribeLoop b c s ts codes rms).1.sess = b.sess ∧
    (subscribeLoop b c s ts codes rms).1.nextRef = b.nextRef ∧
    (subscribeLoop b c s ts codes rms).2.1.ref = s.ref ∧
    (subscribeLoop b c s ts codes rms).2.1.pub2in = s.pub2in := by
  induction ts generalizing b s codes rms with
  | nil => simp [subscribeLoop]
  | cons x rest ih =>
    obtain ⟨t, q⟩ := x
    simp only [subscribeLoop]
    split
    · rename_i ts' _
      exact ih { b with topics := ts' } s _ _
    · rename_i ts' rq _
      exact ih { b with topics := ts' } _ _ _

theorem sendRetained_core (b : B) (c : Nat) (l : List Msg) :
    (sendRetained b c l).1.conns = b.conns ∧ (sendRetained b c l).1.sess = b.sess ∧
    (sendRetained b c l).1.nextRef = b.nextRef := by
  induction l generalizing b with
  | nil => simp [sendRetained]
  | cons m rest ih =>
    simp only [sendRetained]
    split
    · exact ⟨rfl, rfl, rfl⟩
    · split
      · exact ⟨rfl, rfl, rfl⟩
      · rename_i wire m' ctr _
        exact ih { b with ctr := ctr }

/-- the end of a connection leaves every session's inbound QoS 2 queue alone -/
theorem stop_same (b : B) (c : Nat) : Same b (stop b c).1 := by
  unfold stop
  split
  · exact Same.refl b
  · rename_i cn hc
    split
    · exact Same.refl b
    · have h0 : Same b { b with conns := b.conns.map (fun (x : Conn) => if x.id == c then { x with alive := false } else x) } := by
        refine ⟨rfl, rfl, ?_, fun _ => rfl⟩
        intro cn' hcn'
        obtain ⟨x, hx, e⟩ := List.mem_map.mp hcn'
        refine ⟨x, hx, ?_⟩
        rw [← e]; split <;> rfl
      simp only
      split
      · exact h0
      · rename_i s hs
        split
        · split
          · exact h0.trans (same_of_eq rfl rfl rfl)
          · rename_i w _
            -- onPublish on the state with this connection's subscriptions removed
            generalize hb1 : ({ b with conns := b.conns.map (fun (x : Conn) => if x.id == c then { x with alive := false } else x),
                                       topics := unsubAll b.topics c s.topics } : B) = b1
            have h1 : Same b b1 := by
              subst hb1; exact h0.trans (same_of_eq rfl rfl rfl)
            have hs1 : b1.getSess cn.sess = some s := by
              subst hb1; exact hs
            have hf := (onPublish_frame b1 w).1
            have hs2 : (onPublish b1 w).1.getSess cn.sess = some s := by
              rw [getSess_congr hf.sess]; exact hs1
            have hr : s.ref = cn.sess := getSess_ref hs2
            have h3 : Same (onPublish b1 w).1
                ((onPublish b1 w).1.setSess { s with will := some (onPublish b1 w).2.1 }) :=
              same_setSess (s := s) (by simpa [hr] using hs2) rfl
            have h4 := (h1.trans hf.same).trans h3
            split
            · exact h4.trans (same_of_eq rfl rfl rfl)
            · exact h4
        · split
          · exact h0.trans (same_of_eq rfl rfl rfl)
          · exact h0.trans (same_of_eq rfl rfl rfl)

/-- the inbound QoS 2 queue of the connection's session after one packet -/
def newQ : Packet → List QEntry → List QEntry
  | .publish p, q => if p.qos == 2 then q2Wait q p else q
  | .pubrel id, q => (q2Acked (q2Ack q id)).1
  | _, q => q

theorem qInv_newQ {q : List QEntry} (h : QInv q) (p : Packet) : QInv (newQ p q) := by
  cases p <;> simp only [newQ] <;> try exact h
  · split
    · exact qInv_wait h _
    · exact h
  · exact qInv_pubrel h _

/-- a packet on a connection that is not live, or whose session does not resolve, changes nothing -/
theorem packet_dead (b : B) (c : Nat) (p : Packet)
    (h : ¬ ∃ cn s, b.getConn c = some cn ∧ cn.alive = true ∧ b.getSess cn.sess = some s) :
    packet b c p = (b, []) := by
  unfold packet
  split
  · rfl
  · rename_i cn hc
    split
    · rfl
    · rename_i ha
      split
      · rfl
      · rename_i s hs
        exact absurd ⟨cn, s, hc, by simpa using ha, hs⟩ h

section packet
variable {b : B} {c : Nat} {cn : Conn} {s : Sess}

/-- One packet on a live connection: as far as sessions go, the effect is that
of replacing the inbound QoS 2 queue of the connection's session by `newQ`. -/
theorem packet_same (hc : b.getConn c = some cn) (ha : cn.alive = true)
    (hs : b.getSess cn.sess = some s) (p : Packet) :
    Same (b.setSess { s with pub2in := newQ p s.pub2in }) (packet b c p).1 := by
  have hr : s.ref = cn.sess := getSess_ref hs
  have hs' : b.getSess s.ref = some s := by rw [hr]; exact hs
  -- the no-change case
  have hid : Same (b.setSess { s with pub2in := s.pub2in }) b := by
    have h1 : Same b (b.setSess { s with pub2in := s.pub2in }) := same_setSess (s := s) hs' rfl
    exact ⟨h1.refs.symm, rfl, fun cn h => ⟨cn, h, rfl⟩, fun r => (h1.q r).symm⟩
  cases p with
  | publish pub =>
    by_cases h2 : pub.qos = 2
    · rw [packet_publish2 hc ha hs pub h2]
      simp only [newQ, h2, beq_self_eq_true, ↓reduceIte]
      exact Same.refl _
    · have hn : newQ (.publish pub) s.pub2in = s.pub2in := by simp [newQ, h2]
      rw [hn]
      refine hid.trans ?_
      simp only [packet, hc, ha, hs, Bool.not_true, Bool.false_eq_true, ↓reduceIte, beq_iff_eq, h2]
      split
      · exact (onPublish_frame b _).1.same
      · exact (onPublish_frame b _).1.same
  | pubrel id =>
    rw [packet_pubrel hc ha hs id]
    simp only [newQ]
    exact (releaseAll_frame _ _).1.same
  | subscribe id topics =>
    simp only [newQ]
    refine hid.trans ?_
    simp only [packet, hc, ha, hs, Bool.not_true, Bool.false_eq_true, ↓reduceIte]
    obtain ⟨l1, l2, l3, l4, l5⟩ := subscribeLoop_core b c s topics [] []
    generalize subscribeLoop b c s topics [] [] = r at l1 l2 l3 l4 l5
    obtain ⟨b1, s1, codes, rms⟩ := r
    simp only at l1 l2 l3 l4 l5 ⊢
    have hb1 : Same b b1 := same_of_eq l1 l2 l3
    have hs1 : b1.getSess s1.ref = some s := by rw [getSess_congr l2, l4]; exact hs'
    have h2 : Same b1 (b1.setSess s1) := same_setSess hs1 l5
    obtain ⟨m1, m2, m3⟩ := sendRetained_core (b1.setSess s1) c rms
    exact (hb1.trans h2).trans (same_of_eq m1 m2 m3)
  | unsubscribe id topics =>
    simp only [newQ]
    refine hid.trans ?_
    simp only [packet, hc, ha, hs, Bool.not_true, Bool.false_eq_true, ↓reduceIte]
    have h1 : Same b { b with topics := topics.foldl (fun ts t => (ts.unsubscribe t (some c)).1) b.topics } :=
      same_of_eq rfl rfl rfl
    exact h1.trans (same_setSess (s := s) hs' rfl)
  | disconnect =>
    simp only [newQ]
    refine hid.trans ?_
    simp only [packet, hc, ha, hs, Bool.not_true, Bool.false_eq_true, ↓reduceIte]
    exact (same_setSess (s := s) (s' := { s with willFlag := false }) hs' rfl).trans (stop_same _ c)
  | pubrec id => simp only [newQ]; rw [packet_pubrec hc ha hs id]; exact hid
  | pingreq => simp only [newQ, packet, hc, ha, hs, Bool.not_true, Bool.false_eq_true, ↓reduceIte]; exact hid
  | connack _ _ | puback _ | pubcomp _ | suback _ _ | unsuback _ | pingresp | connectAgain =>
    simp only [newQ, packet, hc, ha, hs, Bool.not_true, Bool.false_eq_true, ↓reduceIte]; exact hid

end packet

theorem packet_inv {b : B} (h : BInv b) (c : Nat) (p : Packet) : BInv (packet b c p).1 := by
  by_cases hl : ∃ cn s, b.getConn c = some cn ∧ cn.alive = true ∧ b.getSess cn.sess = some s
  · obtain ⟨cn, s, hc, ha, hs⟩ := hl
    have hr : s.ref = cn.sess := getSess_ref hs
    have hq : QInv s.pub2in := by
      have := h.queues cn.sess
      simpa [pub2inOf, hs] using this
    refine (h.setSess (s := s) (s' := { s with pub2in := newQ p s.pub2in }) (by rw [hr]; exact hs)
      (qInv_newQ hq p)).same (packet_same hc ha hs p)
  · rw [packet_dead b c p hl]; exact h

/-! ### the first packet -/

/-- client identifier and CleanSession as `getSession` sees them -/
def cidOf (c : Nat) (req : Connect) : Bytes × Bool :=
  if req.clientId.isEmpty
    then ((Mqtt.Model.Broker.anonId c), true)
    else (req.clientId, req.clean)

/-- the session object a CONNECT resumes, if any -/
def resumedOf (b : B) (cid : Bytes) (clean : Bool) : Option Sess :=
  if clean then none else ((b.storeGet cid).bind b.getSess).filter (fun s => !s.clean)

/-- the new connection entered into the table and re-subscribed -/
def attach (b1 : B) (c : Nat) (s : Sess) : B :=
  let b2 := { b1 with conns := b1.conns.filter (fun (x : Conn) => x.id != c) ++ [({ id := c, sess := s.ref, alive := true } : Conn)] }
  { b2 with topics := resubscribe b2.topics c s.topics }

def resumeSess (s : Sess) (req : Connect) (clean : Bool) : Sess :=
  { s with clean := clean, willFlag := req.will.isSome, will := initWill req }

def newSess (b : B) (req : Connect) (cid : Bytes) (clean : Bool) : Sess :=
  { ref := b.nextRef, cid := cid, clean := clean, willFlag := req.will.isSome,
    will := initWill req, topics := [], pub2in := [] }

theorem first_resumed (b : B) (c : Nat) (req : Connect) (s : Sess) (hd : connectDecode req = .inr true)
    (hr : resumedOf b (cidOf c req).1 (cidOf c req).2 = some s) :
    first b c (.connect req) true =
      (attach (b.setSess (resumeSess s req (cidOf c req).2)) c (resumeSess s req (cidOf c req).2),
       [.send c (.connack true 0)]) := by
  unfold resumedOf cidOf at hr
  simp only [first, hd, hr, attach, resumeSess, cidOf]
  rfl

theorem first_new (b : B) (c : Nat) (req : Connect) (hd : connectDecode req = .inr true)
    (hr : resumedOf b (cidOf c req).1 (cidOf c req).2 = none) :
    first b c (.connect req) true =
      (attach ((({ b with nextRef := b.nextRef + 1 }).setSess (newSess b req (cidOf c req).1 (cidOf c req).2)).storeSet
          (cidOf c req).1 b.nextRef) c (newSess b req (cidOf c req).1 (cidOf c req).2),
       [.send c (.connack false 0)]) := by
  unfold resumedOf cidOf at hr
  simp only [first, hd, hr, attach, newSess, cidOf]
  rfl

/-- every outcome of a first packet other than an accepted CONNECT leaves the state alone -/
theorem first_cases (b : B) (c : Nat) (f : First) (a : Bool) :
    (first b c f a).1 = b ∨ ∃ req, f = .connect req ∧ connectDecode req = .inr true ∧ a = true := by
  cases f with
  | garbage => exact .inl rfl
  | other _ => exact .inl rfl
  | connect req =>
    cases hd : connectDecode req with
    | inl code => left; simp [first, hd]
    | inr ok =>
      cases ok with
      | false => left; simp [first, hd]
      | true =>
        cases a with
        | false => left; simp [first, hd]
        | true => exact .inr ⟨req, rfl, hd, rfl⟩

theorem resumedOf_some {b : B} {cid : Bytes} {clean : Bool} {s : Sess} (h : resumedOf b cid clean = some s) :
    clean = false ∧ s.clean = false ∧ ∃ r, b.storeGet cid = some r ∧ b.getSess r = some s := by
  unfold resumedOf at h
  cases clean with
  | true => simp at h
  | false =>
    simp only [Bool.false_eq_true, ↓reduceIte] at h
    obtain ⟨h1, h2⟩ := Option.filter_eq_some_iff.mp h
    obtain ⟨r, hr1, hr2⟩ := Option.bind_eq_some_iff.mp h1
    exact ⟨rfl, by simpa using h2, r, hr1, hr2⟩

theorem attach_getSess (b1 : B) (c : Nat) (s : Sess) (r : Nat) : (attach b1 c s).getSess r = b1.getSess r := rfl

theorem attach_inv {b1 : B} (h : BInv b1) (c : Nat) (s : Sess) (hs : s.ref ∈ refs b1) : BInv (attach b1 c s) := by
  refine ⟨h.refsLt, h.refsNodup, ?_, h.queues⟩
  intro cn hcn
  simp only [attach, List.mem_append, List.mem_filter, List.mem_singleton] at hcn
  rcases hcn with ⟨h1, _⟩ | h1
  · exact h.connSess cn h1
  · subst h1; exact hs

theorem pub2inOf_new {b : B} (h : BInv b) (s : Sess) (cid : Bytes) (hr : s.ref = b.nextRef) (hq : s.pub2in = [])
    (r : Nat) :
    pub2inOf ((({ b with nextRef := b.nextRef + 1 } : B).setSess s).storeSet cid b.nextRef) r = pub2inOf b r := by
  have h0 : pub2inOf ((({ b with nextRef := b.nextRef + 1 } : B).setSess s).storeSet cid b.nextRef) r =
      pub2inOf (({ b with nextRef := b.nextRef + 1 } : B).setSess s) r := rfl
  rw [h0, pub2inOf_setSess]
  split
  · rename_i e
    have hn : b.getSess r = none := by
      cases hg : b.getSess r with
      | none => rfl
      | some x =>
        have := h.refsLt r ((getSess_isSome_iff b r).mp (by simp [hg]))
        omega
    simp [pub2inOf, hn, hq]
  · rfl

theorem first_inv {b : B} (h : BInv b) (c : Nat) (f : First) (a : Bool) : BInv (first b c f a).1 := by
  rcases first_cases b c f a with h0 | ⟨req, rfl, hd, rfl⟩
  · rw [h0]; exact h
  · cases hr : resumedOf b (cidOf c req).1 (cidOf c req).2 with
    | some s =>
      rw [first_resumed b c req s hd hr]
      obtain ⟨_, _, r, _, hg⟩ := resumedOf_some hr
      have hg' : b.getSess (resumeSess s req (cidOf c req).2).ref = some s := by
        have : (resumeSess s req (cidOf c req).2).ref = s.ref := rfl
        rw [this, getSess_ref hg]; exact hg
      have hI : BInv (b.setSess (resumeSess s req (cidOf c req).2)) := h.same (same_setSess hg' rfl)
      refine attach_inv hI c _ ?_
      exact (getSess_isSome_iff _ _).mp (by rw [getSess_setSess_same]; rfl)
    | none =>
      rw [first_new b c req hd hr]
      generalize hns : newSess b req (cidOf c req).1 (cidOf c req).2 = ns
      have hnr : ns.ref = b.nextRef := by subst hns; rfl
      have hnq : ns.pub2in = [] := by subst hns; rfl
      have hfresh : ns.ref ∉ refs ({ b with nextRef := b.nextRef + 1 } : B) := by
        intro hm
        have := h.refsLt ns.ref hm
        omega
      have hrefs : refs ((({ b with nextRef := b.nextRef + 1 } : B).setSess ns).storeSet (cidOf c req).1 b.nextRef) =
          refs b ++ [b.nextRef] := by
        have := refs_setSess_new _ ns hfresh
        rw [hnr] at this
        exact this
      refine attach_inv ⟨?_, ?_, ?_, ?_⟩ c ns ?_
      · intro r hr'
        rw [hrefs] at hr'
        show r < b.nextRef + 1
        rcases List.mem_append.mp hr' with h1 | h1
        · have := h.refsLt r h1; omega
        · simp only [List.mem_singleton] at h1; omega
      · rw [hrefs, List.nodup_append]
        refine ⟨h.refsNodup, by simp, ?_⟩
        intro x hx y hy e
        simp only [List.mem_singleton] at hy
        have := h.refsLt x hx
        omega
      · intro cn hcn
        rw [hrefs]
        exact List.mem_append_left _ (h.connSess cn hcn)
      · intro r
        rw [pub2inOf_new h ns _ hnr hnq r]
        exact h.queues r
      · rw [hrefs, hnr]; simp

/-- an accepted or refused first packet leaves every existing inbound QoS 2 queue alone
(a new session object starts with an empty one) -/
theorem first_q {b : B} (h : BInv b) (c : Nat) (f : First) (a : Bool) (r : Nat) :
    pub2inOf (first b c f a).1 r = pub2inOf b r := by
  rcases first_cases b c f a with h0 | ⟨req, rfl, hd, rfl⟩
  · rw [h0]
  · cases hr : resumedOf b (cidOf c req).1 (cidOf c req).2 with
    | some s =>
      rw [first_resumed b c req s hd hr]
      obtain ⟨_, _, r0, _, hg⟩ := resumedOf_some hr
      have hg' : b.getSess (resumeSess s req (cidOf c req).2).ref = some s := by
        have : (resumeSess s req (cidOf c req).2).ref = s.ref := rfl
        rw [this, getSess_ref hg]; exact hg
      exact (same_setSess hg' rfl).q r
    | none =>
      rw [first_new b c req hd hr]
      have hq := pub2inOf_new h (newSess b req (cidOf c req).1 (cidOf c req).2) (cidOf c req).1 rfl rfl r
      rw [← hq]; rfl

/-! ### all events -/

theorem step_inv {b : B} (h : BInv b) (ev : Ev) : BInv (step b ev).1 := by
  cases ev with
  | first c f a =>
    exact Mqtt.Proofs.Connect.connect_state BInv (fun b c h => h.same (stop_same b c))
      (fun b c f a h => first_inv h c f a) b c f a h
  | packet c p => exact packet_inv h c p
  | close c => exact h.same (stop_same b c)
  | srvPub p => exact h.same (onPublish_frame b _).1.same
  | srvSub cb f q =>
    simp only [step, srvSub]
    split <;> exact h.same (same_of_eq rfl rfl rfl)
  | srvUnsub cb f => exact h.same (same_of_eq rfl rfl rfl)

theorem run_inv {b : B} (h : BInv b) (evs : List Ev) : BInv (run b evs).1 := by
  induction evs generalizing b with
  | nil => exact h
  | cons e es ih => exact ih (step_inv h e)

/-! ## 4. acknowledgements among the outputs; the session seen from a connection -/

/-- an output that is one of the four publish acknowledgements -/
def isAck : Out → Bool
  | .send _ (.puback _) | .send _ (.pubrec _) | .send _ (.pubrel _) | .send _ (.pubcomp _) => true
  | _ => false

theorem isAck_of_handOver {o : Out} (h : isHandOver o = true) : isAck o = false := by
  unfold isHandOver at h
  split at h
  · rfl
  · rfl
  · cases h

theorem filter_isAck_handOvers {l : List Out} (h : ∀ o ∈ l, isHandOver o = true) : l.filter isAck = [] := by
  rw [List.filter_eq_nil_iff]
  intro o ho
  simp [isAck_of_handOver (h o ho)]

theorem sessOf_eq {b : B} {c : Nat} {cn : Conn} {s : Sess} (hc : b.getConn c = some cn)
    (hs : b.getSess cn.sess = some s) : sessOf b c = some s := by
  simp [sessOf, hc, hs]

theorem getConn_congr {b b' : B} (h : b'.conns = b.conns) (c : Nat) : b'.getConn c = b.getConn c := by
  unfold B.getConn; rw [h]

/-- the connection's session object after its inbound queue has been replaced and
any number of hand-overs have run -/
theorem sessOf_after {b b' : B} {c : Nat} {cn : Conn} {s : Sess} (hc : b.getConn c = some cn)
    (hs : b.getSess cn.sess = some s) (q : List QEntry)
    (hf : Frame (b.setSess { s with pub2in := q }) b') :
    sessOf b' c = some { s with pub2in := q } := by
  have hr : s.ref = cn.sess := getSess_ref hs
  have h1 : b'.getConn c = some cn := by
    rw [getConn_congr (hf.conns.trans (setSess_conns _ _))]; exact hc
  have h2 : b'.getSess cn.sess = some { s with pub2in := q } := by
    rw [getSess_congr hf.sess, ← hr]
    exact getSess_setSess_same b { s with pub2in := q }
  exact sessOf_eq h1 h2

theorem mem_takeWhile {α} (p : α → Bool) (l : List α) (a : α) (h : a ∈ l.takeWhile p) : p a = true := by
  induction l with
  | nil => simp at h
  | cons b l ih =>
    rw [List.takeWhile_cons] at h
    split at h
    · rcases List.mem_cons.mp h with rfl | h'
      · assumption
      · exact ih h'
    · simp at h

theorem q2Acked_rel_marked (q : List QEntry) : ∀ e ∈ (q2Acked q).2, e.state = tPUBREL := by
  intro e he
  have := mem_takeWhile _ _ _ he
  simpa using this

/-- with the oldest entry still waiting, collecting releases nothing -/
theorem q2Acked_headOpen {q : List QEntry} (h : QInv q) : q2Acked q = (q, []) := by
  cases q with
  | nil => rfl
  | cons x xs =>
    have hx : (x.state == tPUBREL) = false := by simpa using h.head x rfl
    simp [q2Acked, hx]

theorem q2Ack_unknown (q : List QEntry) (id : Nat) (h : ∀ e ∈ q, e.id ≠ id) : q2Ack q id = q := by
  unfold q2Ack
  conv => rhs; rw [← List.map_id q]
  apply List.map_congr_left
  intro e he
  simp [h e he]

end Mqtt.Proofs.BrokerQos
