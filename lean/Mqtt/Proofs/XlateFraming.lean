/-
Tie between the REGENERATED translation of `service.peekMessageSize`
(`Mqtt.Generated.Xlate`, produced from /repo/service/sendrecv.go by
extract/cmd/xlate on every check) and the hand-written `peekMessageSize` /
`peekSizeLoop` of `Model/Framing.lean`.

In the translation the ring buffer `svc.in` is an external object: `in_isNil`
says whether the pointer is nil and `in_ReadWait n` is what `svc.in.ReadWait(n)`
returns (`none`: the call blocks).  The model has no nil case (after
`newBuffer` the ring always exists) and stands for the oracle `rwOracle` below.
The model's `allocs` have no counterpart in the translation and are ignored.
-/
import Mqtt.Proofs.XlateVarint
import Mqtt.Model.Framing
import Mqtt.Proofs.Framing

namespace Mqtt.Proofs.XlateFraming

open Mqtt.Model.Framing
open Mqtt.Model.Codec (uvarint index)
open Mqtt.Generated (framingPostMaxCnt framingPostCntStart)
open Mqtt.Generated.Xlate
open Mqtt.Proofs.XlateVarint

/-- `svc.in.ReadWait(n)` as the model's `readWait` sees it: a ring of `sz` bytes,
`avail` sent by the peer and not committed yet -/
def rwOracle (sz : Nat) (avail : List UInt8) (n : Int) : Option (List UInt8 × Err) :=
  if n < 0 then some ([], .var "ErrNegativeCount") else
  match readWait sz avail n.toNat with
  | .ok b => some (b, .nil)
  | .blocked => none
  | .full => some ([], .var "ErrBufferFull")

/-- what the Go function returns for a model outcome on a ring of `sz` bytes.  The model's
`.error` does not say which error: it is `bufio.ErrBufferFull` from `ReadWait(cnt)` when
the ring is smaller than `framingPostMaxCnt` bytes (then `cnt` outgrows the ring first),
else the `fmt.Errorf` for a fifth continuation byte.  `.panicked` / `.stuck` are mapped to
`panic` / `fuel`; neither occurs (`peekMessageSize_total`). -/
def sizeToRes (sz : Nat) : SizeRes → Res (UInt8 × Int × Err)
  | .size mtype total _ => .ok (UInt8.ofNat mtype, total, .nil)
  | .needMore _ => .blocked
  | .error _ => .ok (0, 0, if sz < framingPostMaxCnt then .var "ErrBufferFull" else .dyn)
  | .panicked => .panic
  | .stuck => .fuel

theorem rwOracle_nat (sz : Nat) (avail : List UInt8) (cnt : Nat) :
    rwOracle sz avail (cnt : Int) =
      match readWait sz avail cnt with
      | .ok b => some (b, .nil)
      | .blocked => none
      | .full => some ([], .var "ErrBufferFull") := by
  unfold rwOracle
  have h : ¬ ((cnt : Int) < 0) := by omega
  rw [if_neg h, Int.toNat_natCast]

/-- `b[0] >> 4` is the model's `tf.toNat / 16` -/
theorem shr4 (tf : UInt8) : tf >>> (4 : UInt8) = UInt8.ofNat (tf.toNat / 16) := by
  apply UInt8.toNat_inj.mp
  rw [UInt8.toNat_shiftRight, UInt8.toNat_ofNat']
  have e : (4 : UInt8).toNat % 8 = 4 := rfl
  have := tf.toNat_lt
  rw [e, Nat.shiftRight_eq_div_pow]
  omega

/-- the code after the loop, for a buffer of `cnt ≥ 2` bytes -/
theorem after_eq (svc : Service.service) (rw : Int → Option (List UInt8 × Err)) (b : List UInt8) (cnt : Nat)
    (tf : UInt8) (h0 : b[0]? = some tf) :
    Service.service.peekMessageSize.loop1_after false rw svc b .nil cnt
      = .ok (UInt8.ofNat (tf.toNat / 16), ((uvarint (b.drop 1)).1 : Int) + 1 + (uvarint (b.drop 1)).2, .nil) := by
  have hlen : 0 < b.length := by
    cases b with
    | nil => simp at h0
    | cons _ _ => simp
  have hget : b.getD 0 0 = tf := by simp [List.getD_eq_getElem?_getD, h0]
  obtain ⟨hv1, hv2⟩ := uvarint_is_source_toNat (b.drop 1)
  unfold Service.service.peekMessageSize.loop1_after
  have h1 : (1 : Nat) ≤ b.length := hlen
  simp only [h1, hlen, decide_true, if_true, hget, hv1, hv2, shr4]
  rw [Int.natCast_add, Int.natCast_one]

/-- the loops agree from every reachable `cnt`, for any budgets that suffice on both sides -/
theorem loop_eq (sz : Nat) (avail : List UInt8) (svc : Service.service) :
    ∀ (g f cnt : Nat) (allocs : List Nat) (b : List UInt8) (err : Err),
    2 ≤ cnt → cnt ≤ 6 → 7 ≤ cnt + g → 7 ≤ cnt + f → (cnt = 2 ∨ cnt ≤ sz + 1) →
    Service.service.peekMessageSize.loop1 g false (rwOracle sz avail) svc b err cnt
      = sizeToRes sz (peekSizeLoop sz avail f cnt allocs) := by
  have hM : framingPostMaxCnt = 5 := rfl
  intro g
  induction g with
  | zero => intro f cnt allocs b err _ h6 hg _ _; omega
  | succ g ih =>
    intro f cnt allocs b err h2 h6 hg hf hsz
    cases f with
    | zero => omega
    | succ f =>
      unfold Service.service.peekMessageSize.loop1 peekSizeLoop
      rw [hM]
      by_cases hc : cnt > 5
      · have hsz5 : ¬ sz < 5 := by omega
        simp [hc, sizeToRes, hM, hsz5]
      · rw [rwOracle_nat]
        simp only [hc, decide_false, if_false, Bool.false_eq_true]
        cases hw : readWait sz avail cnt with
        | full =>
          have hlt : sz < 5 := by
            unfold readWait at hw
            split at hw
            · omega
            · split at hw <;> cases hw
          simp [sizeToRes, hM, hlt]
        | blocked => simp [sizeToRes]
        | ok b' =>
          obtain ⟨hle, _, _, hlen⟩ := Mqtt.Proofs.Framing.readWait_ok hw
          have hlast : (cnt - 1) < b'.length := by omega
          have h0 : 0 < b'.length := by omega
          have hi : (((cnt : Nat) : Int) - 1).toNat = cnt - 1 := by omega
          have hnn : (0 : Int) ≤ ((cnt : Nat) : Int) - 1 := by omega
          have hnl : ¬ b'.length < cnt := by omega
          have hidx : index b' (cnt - 1) = .ok b'[cnt - 1] := by
            unfold index; rw [List.getElem?_eq_getElem hlast]
          have hidx0 : index b' 0 = .ok b'[0] := by
            unfold index; rw [List.getElem?_eq_getElem h0]
          have hgetD : b'.getD (cnt - 1) 0 = b'[cnt - 1] := by
            rw [List.getD_eq_getElem?_getD, List.getElem?_eq_getElem hlast]; rfl
          have hnil : (Err.nil != Err.nil) = false := by decide
          simp only [hnil, hi, hnn, hnl, hlast, hidx, hidx0, hgetD, decide_true, decide_false,
            Bool.and_self, if_true, if_false, Bool.false_eq_true]
          have e128 : (128 : UInt8).toNat = 128 := rfl
          by_cases hb : b'[cnt - 1].toNat ≥ 0x80
          · have hb' : b'[cnt - 1] ≥ (128 : UInt8) := by
              rw [ge_iff_le, UInt8.le_iff_toNat_le, e128]; exact hb
            simp only [hb, hb', decide_true, if_true]
            exact ih f (cnt + 1) _ _ _ (by omega) (by omega) (by omega) (by omega) (by omega)
          · have hb' : ¬ b'[cnt - 1] ≥ (128 : UInt8) := by
              rw [ge_iff_le, UInt8.le_iff_toNat_le, e128]; exact hb
            simp only [hb, hb', decide_false, if_false, Bool.false_eq_true]
            rw [after_eq svc _ b' cnt b'[0] (List.getElem?_eq_getElem h0)]
            rfl

/-- **the regenerated `service.peekMessageSize` is the model's `peekMessageSize`**, with the
ring present (`in_isNil = false`), `ReadWait` behaving as `rwOracle`, and any iteration
budget of at least `framingPostMaxCnt` (the loop body runs for `cnt` = 2 … 6 at most) -/
theorem peekMessageSize_is_source (sz : Nat) (avail : List UInt8) (svc : Service.service) (fuel : Nat)
    (hfuel : framingPostMaxCnt ≤ fuel) :
    Service.service.peekMessageSize fuel false (rwOracle sz avail) svc
      = sizeToRes sz (peekMessageSize sz avail) := by
  have hM : framingPostMaxCnt = 5 := rfl
  have hS : framingPostCntStart = 2 := rfl
  unfold Service.service.peekMessageSize peekMessageSize
  simp only [Bool.false_eq_true, if_false]
  rw [hS]
  exact loop_eq sz avail svc fuel (framingPostMaxCnt + 2) 2 [] [] .nil (by omega) (by omega) (by omega)
    (by omega) (.inl rfl)

/-- the case the model does not have: the ring has not been created -/
theorem peekMessageSize_nil (rw : Int → Option (List UInt8 × Err)) (svc : Service.service) (fuel : Nat) :
    Service.service.peekMessageSize fuel true rw svc = .ok (0, 0, .var "ErrBufferNotReady") := by
  simp [Service.service.peekMessageSize]

/-! ### per outcome -/

theorem peekMessageSize_size {sz : Nat} {avail : List UInt8} {mtype : Nat} {total : Int} {a : List Nat}
    (svc : Service.service) {fuel : Nat} (hfuel : framingPostMaxCnt ≤ fuel)
    (h : peekMessageSize sz avail = .size mtype total a) :
    Service.service.peekMessageSize fuel false (rwOracle sz avail) svc = .ok (UInt8.ofNat mtype, total, .nil) := by
  rw [peekMessageSize_is_source sz avail svc fuel hfuel, h]; rfl

theorem peekMessageSize_needMore {sz : Nat} {avail : List UInt8} {a : List Nat}
    (svc : Service.service) {fuel : Nat} (hfuel : framingPostMaxCnt ≤ fuel)
    (h : peekMessageSize sz avail = .needMore a) :
    Service.service.peekMessageSize fuel false (rwOracle sz avail) svc = .blocked := by
  rw [peekMessageSize_is_source sz avail svc fuel hfuel, h]; rfl

theorem peekMessageSize_error {sz : Nat} {avail : List UInt8} {a : List Nat}
    (svc : Service.service) {fuel : Nat} (hfuel : framingPostMaxCnt ≤ fuel)
    (h : peekMessageSize sz avail = .error a) :
    ∃ e, e ≠ Err.nil ∧ e = (if sz < framingPostMaxCnt then Err.var "ErrBufferFull" else Err.dyn) ∧
      Service.service.peekMessageSize fuel false (rwOracle sz avail) svc = .ok (0, 0, e) := by
  refine ⟨_, ?_, rfl, ?_⟩
  · split <;> simp
  · rw [peekMessageSize_is_source sz avail svc fuel hfuel, h]; rfl

/-- with that budget the translated function neither panics nor runs out of fuel, and the
model never ends in `.panicked` / `.stuck` -/
theorem peekMessageSize_total (sz : Nat) (avail : List UInt8) (svc : Service.service) (fuel : Nat)
    (hfuel : framingPostMaxCnt ≤ fuel) :
    peekMessageSize sz avail ≠ .panicked ∧ peekMessageSize sz avail ≠ .stuck ∧
    Service.service.peekMessageSize fuel false (rwOracle sz avail) svc ≠ .panic ∧
    Service.service.peekMessageSize fuel false (rwOracle sz avail) svc ≠ .fuel := by
  have hok := Mqtt.Proofs.Framing.peekMessageSize_ok sz avail
  rw [peekMessageSize_is_source sz avail svc fuel hfuel]
  cases hm : peekMessageSize sz avail with
  | size _ _ _ => simp [sizeToRes]
  | needMore _ => simp [sizeToRes]
  | error _ => simp [sizeToRes]
  | panicked => rw [hm] at hok; exact hok.elim
  | stuck => rw [hm] at hok; exact hok.elim

end Mqtt.Proofs.XlateFraming
