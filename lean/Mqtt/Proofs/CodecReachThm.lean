/-
Core A (codec): the statements of C03 for every message object reachable through the
public API — `Type.New()` or a successful `Decode`, then any setter calls.
-/
import Mqtt.Proofs.CodecReach

set_option linter.unusedSimpArgs false
set_option linter.unusedVariables false

namespace Mqtt.Proofs.Codec

open Mqtt.Model.Codec Mqtt.Iface.Codec Mqtt.Generated
open Mqtt.Spec

/-- messages reachable through the public API: `Type.New()`, or the result of a successful
`Decode` of any byte string, followed by setter calls -/
inductive Reachable : Msg → Prop where
  | new {t : Nat} {m : Msg} : Msg.new t = some m → Reachable m
  | dec {t : Nat} {src : Bytes} {d : Decoded} : decodeNew t src = .ok d → Reachable d.msg
  | set {m : Msg} (s : Setter) : Reachable m → Reachable (applySetter m s).1

/-- where a message object comes from -/
inductive Origin where
  | new (t : Nat)
  | dec (t : Nat) (src : Bytes)
deriving Repr, DecidableEq

/-- the object an origin yields (`none`: invalid type number, or the decoder refused the input) -/
def Origin.start : Origin → Option Msg
  | .new t => Msg.new t
  | .dec t src => match decodeNew t src with
    | .ok d => some d.msg
    | _ => none

/-- the object after the setter calls `ss` (in order) -/
def run (o : Origin) (ss : List Setter) : Option Msg := o.start.map fun m0 => (applySetters m0 ss).1

/-- the accepted input was the reference encoding of the fields the decoder returned -/
def Origin.canonical : Origin → Bool
  | .new _ => true
  | .dec t src => match decodeNew t src with
    | .ok d => decide (CanonicalSrc src d)
    | _ => true

/-- the runs the `_partial` theorems leave out: the decoder's input was **not** a reference encoding
(non-minimal remaining length, or a CONNECT whose user-name/password flag announces a field that is
missing) and no setter call has marked the object dirty since, so `Encode` still copies those bytes -/
def Excluded (o : Origin) (ss : List Setter) : Bool :=
  !o.canonical && (match run o ss with
    | some m => !m.hdr.dirty
    | none => false)

theorem start_dec (t : Nat) (src : Bytes) :
    (Origin.dec t src).start = (match decodeNew t src with | .ok d => some d.msg | _ => none) := rfl

theorem canonical_dec (t : Nat) (src : Bytes) :
    (Origin.dec t src).canonical = (match decodeNew t src with | .ok d => decide (CanonicalSrc src d) | _ => true) := rfl

theorem applySetters_snoc (m : Msg) (ss : List Setter) (s : Setter) :
    (applySetters m (ss ++ [s])).1 = (applySetter (applySetters m ss).1 s).1 := by
  induction ss generalizing m with
  | nil => rfl
  | cons a ss ih => simp only [List.cons_append, applySetters]; exact ih _

theorem reachable_iff_run (m : Msg) : Reachable m ↔ ∃ o ss, run o ss = some m := by
  constructor
  · intro h
    induction h with
    | @new t m h => exact ⟨.new t, [], by simp [run, Origin.start, h, applySetters]⟩
    | @dec t src d h => exact ⟨.dec t src, [], by simp [run, Origin.start, h, applySetters]⟩
    | @set m s _ ih =>
      obtain ⟨o, ss, hr⟩ := ih
      refine ⟨o, ss ++ [s], ?_⟩
      unfold run at hr ⊢
      cases hs : o.start with
      | none => rw [hs] at hr; cases hr
      | some m0 =>
        rw [hs] at hr
        simp only [Option.map_some, Option.some.injEq] at hr ⊢
        rw [applySetters_snoc, hr]
  · rintro ⟨o, ss, hr⟩
    unfold run at hr
    cases hs : o.start with
    | none => rw [hs] at hr; cases hr
    | some m0 =>
      rw [hs] at hr
      simp only [Option.map_some, Option.some.injEq] at hr
      have h0 : Reachable m0 := by
        cases o with
        | new t => exact Reachable.new hs
        | dec t src =>
          rw [start_dec] at hs
          cases hd : decodeNew t src with
          | ok d => rw [hd] at hs; injection hs with hs; rw [← hs]; exact Reachable.dec hd
          | err => rw [hd] at hs; cases hs
          | panic => rw [hd] at hs; cases hs
      rw [← hr]
      clear hr hs
      induction ss generalizing m0 with
      | nil => exact h0
      | cons s ss ih => exact ih _ (Reachable.set s h0)

theorem shape_reachable {m : Msg} (h : Reachable m) : Shape m := by
  induction h with
  | new h => exact (freshInv_new h).2
  | dec h => exact shape_dec h
  | set s _ ih => exact shape_set _ s ih

theorem rinv_setters (m : Msg) (ss : List Setter) (hi : RInv m) : RInv (applySetters m ss).1 := by
  induction ss generalizing m with
  | nil => exact hi
  | cons s ss ih => exact ih _ (rinv_set m s hi)

theorem rinv_run {o : Origin} {ss : List Setter} {m : Msg} (hr : run o ss = some m) (hc : o.canonical = true) :
    RInv m := by
  unfold run at hr
  cases hs : o.start with
  | none => rw [hs] at hr; cases hr
  | some m0 =>
    rw [hs] at hr
    simp only [Option.map_some, Option.some.injEq] at hr
    rw [← hr]
    apply rinv_setters
    cases o with
    | new t => exact rinv_new hs
    | dec t src =>
      rw [start_dec] at hs
      rw [canonical_dec] at hc
      cases hd : decodeNew t src with
      | ok d =>
        rw [hd] at hs hc
        injection hs with hs
        rw [← hs]
        exact rinv_dec hd (of_decide_eq_true hc)
      | err => rw [hd] at hs; cases hs
      | panic => rw [hd] at hs; cases hs

/-- the reference-encoding statement, for a message with the reachable-message invariant -/
theorem rinv_encode_wire {m : Msg} (hi : RInv m) (hw : WillOk m) (ctr : UInt64) (e : Encoded)
    (he : encode m ctr m.len = .ok e) : e.out = Wire.encode (absMsg e.msg) := by
  obtain ⟨hs, hc⟩ := hi
  cases hd : m.hdr.dirty with
  | true => exact encode_wire m ctr e hd (canon_of_shape m hs hw) he
  | false =>
    obtain ⟨_, h2⟩ := encode_clean m ctr hd
    rw [h2] at he
    injection he with he
    rw [← he]
    exact (hc hd).buf

/-- … and for a reachable message that is dirty, whatever it was decoded from -/
theorem reachable_dirty_encode_wire {m : Msg} (hr : Reachable m) (hd : m.hdr.dirty = true) (hw : WillOk m)
    (ctr : UInt64) (e : Encoded) (he : encode m ctr m.len = .ok e) : e.out = Wire.encode (absMsg e.msg) :=
  encode_wire m ctr e hd (canon_of_shape m (shape_reachable hr) hw) he

theorem not_excluded {o : Origin} {ss : List Setter} {m : Msg} (hr : run o ss = some m) (hx : Excluded o ss = false) :
    o.canonical = true ∨ m.hdr.dirty = true := by
  unfold Excluded at hx
  rw [hr] at hx
  cases hc : o.canonical with
  | true => exact Or.inl rfl
  | false =>
    rw [hc] at hx
    right
    cases hd : m.hdr.dirty with
    | true => rfl
    | false => simp [hd] at hx

theorem run_encode_wire {o : Origin} {ss : List Setter} {m : Msg} (hr : run o ss = some m) (hx : Excluded o ss = false)
    (hw : WillOk m) (ctr : UInt64) (e : Encoded) (he : encode m ctr m.len = .ok e) :
    e.out = Wire.encode (absMsg e.msg) := by
  rcases not_excluded hr hx with hc | hd
  · exact rinv_encode_wire (rinv_run hr hc) hw ctr e he
  · exact reachable_dirty_encode_wire ((reachable_iff_run m).mpr ⟨o, ss, hr⟩) hd hw ctr e he

theorem run_round_trip {o : Origin} {ss : List Setter} {m : Msg} (hr : run o ss = some m) (hx : Excluded o ss = false)
    (hw : WillOk m) (ctr : UInt64) (e : Encoded) (he : encode m ctr m.len = .ok e)
    (hwf : Wire.WF (absMsg e.msg)) (rest : Bytes) :
    ∃ d, decodeNew (absMsg e.msg).type (e.out ++ rest) = .ok d ∧ d.n = e.out.length ∧ absMsg d.msg = absMsg e.msg := by
  rw [run_encode_wire hr hx hw ctr e he]
  exact accepts_wf _ hwf rest

/-- the message `Encode` leaves behind: an identifier is assigned only on the dirty path -/
def assignR (m : Msg) (ctr : UInt64) : Msg := if m.hdr.dirty then assign m ctr else m

theorem reachable_encode_succeeds {m : Msg} (hr : Reachable m) (ctr : UInt64)
    (hwf : m.hdr.dirty = true → Wire.WF (absMsg (assign m ctr))) :
    ∃ e, encode m ctr m.len = .ok e ∧ e.msg = assignR m ctr := by
  have hs := shape_reachable hr
  unfold assignR
  cases hd : m.hdr.dirty with
  | false =>
    obtain ⟨_, h2⟩ := encode_clean m ctr hd
    exact ⟨_, h2, by simp⟩
  | true =>
    have hwf := hwf hd
    simp only [if_true]
    cases m with
    | connect h c => exact succeeds_connect h c ctr hd hs hwf
    | connack h sp rc => exact succeeds_connack h sp rc ctr hd hs hwf
    | publish h t p => exact succeeds_publish h t p ctr hd hs hwf
    | ack h => exact succeeds_ack h ctr hd hs
    | subscribe h ts qs => exact succeeds_subscribe h ts qs ctr hd hs hwf
    | suback h cs => exact succeeds_suback h cs ctr hd hs hwf
    | unsubscribe h ts => exact succeeds_unsubscribe h ts ctr hd hs hwf
    | bare h => exact succeeds_bare h ctr hd hs

end Mqtt.Proofs.Codec
