/-
Core A (codec): the statements of C03 for every message object reachable through the
public API — `Type.New()` or a successful `Decode`, then any setter calls.
-/
import Mqtt.Proofs.CodecReachInv
import Mqtt.Proofs.CodecWireV

set_option linter.unusedSimpArgs false
set_option linter.unusedVariables false

namespace Mqtt.Proofs.Codec

open Mqtt.Model.Codec Mqtt.Iface.Codec Mqtt.Generated
open Mqtt.Spec

/-- messages reachable through the public API: `Type.New()`, or the result of a successful
`Decode` of any byte string, followed by setter calls -/
inductive Reachable : Msg → Prop where
  | new {t : Nat} {m : Msg} : Msg.new t = some m → Reachable m
  | dec {t : Nat} {src : Bytes} {d : Decoded} : decodeNew t src = .ok d → Reachable d.msg
  | set {m : Msg} (s : Setter) : Reachable m → Reachable (applySetter m s).1

/-- where a message object comes from -/
inductive Origin where
  | new (t : Nat)
  | dec (t : Nat) (src : Bytes)
deriving Repr, DecidableEq

/-- the object an origin yields (`none`: invalid type number, or the decoder refused the input) -/
def Origin.start : Origin → Option Msg
  | .new t => Msg.new t
  | .dec t src => match decodeNew t src with
    | .ok d => some d.msg
    | _ => none

/-- the object after the setter calls `ss` (in order) -/
def run (o : Origin) (ss : List Setter) : Option Msg := o.start.map fun m0 => (applySetters m0 ss).1

/-- the accepted input was the reference encoding of the fields the decoder returned -/
def Origin.canonical : Origin → Bool
  | .new _ => true
  | .dec t src => match decodeNew t src with
    | .ok d => decide (CanonicalSrc src d)
    | _ => true

/-- the runs the `_partial` theorems leave out: the decoder's input was **not** a reference encoding
(non-minimal remaining length, or a CONNECT whose user-name/password flag announces a field that is
missing) and no setter call has marked the object dirty since, so `Encode` still copies those bytes -/
def Excluded (o : Origin) (ss : List Setter) : Bool :=
  !o.canonical && (match run o ss with
    | some m => !m.hdr.dirty
    | none => false)

/-- the bytes between the type/flags byte and the body of the decoded fields: how the input wrote the remaining length -/
def srcLenBytes (src : Bytes) (d : Decoded) : Bytes :=
  ((src.take d.n).drop 1).take (d.n - 1 - (absMsg d.msg).body.length)

instance (src : Bytes) (d : Decoded) (V : Bytes) : Decidable (BodyCanonical src d V) :=
  inferInstanceAs (Decidable (_ ∧ _))

/-- the accepted input was the type/flags byte, some one- to four-byte form of the remaining length, and the body
of the fields the decoder returned (weaker than `canonical`: the remaining length need not be minimal) -/
def Origin.bodyCanonical : Origin → Bool
  | .new _ => true
  | .dec t src => match decodeNew t src with
    | .ok d => decide (BodyCanonical src d (srcLenBytes src d))
    | _ => true

/-- the runs the `Encodes` theorem leaves out: the accepted input was not even an encoding of the returned fields
up to the form of the remaining length (the leniently accepted CONNECT whose flag announces a missing field), and
the object is still clean -/
def ExcludedV (o : Origin) (ss : List Setter) : Bool :=
  !o.bodyCanonical && (match run o ss with
    | some m => !m.hdr.dirty
    | none => false)

/-- what the origin guarantees about the decode buffer: the input was `V` + the body of the returned fields -/
def OriginV (V : Bytes) : Origin → Prop
  | .new _ => True
  | .dec t src => ∀ d, decodeNew t src = .ok d → BodyCanonical src d V

theorem start_dec (t : Nat) (src : Bytes) :
    (Origin.dec t src).start = (match decodeNew t src with | .ok d => some d.msg | _ => none) := rfl

theorem canonical_dec (t : Nat) (src : Bytes) :
    (Origin.dec t src).canonical = (match decodeNew t src with | .ok d => decide (CanonicalSrc src d) | _ => true) := rfl

theorem applySetters_snoc (m : Msg) (ss : List Setter) (s : Setter) :
    (applySetters m (ss ++ [s])).1 = (applySetter (applySetters m ss).1 s).1 := by
  induction ss generalizing m with
  | nil => rfl
  | cons a ss ih => simp only [List.cons_append, applySetters]; exact ih _

theorem reachable_iff_run (m : Msg) : Reachable m ↔ ∃ o ss, run o ss = some m := by
  constructor
  · intro h
    induction h with
    | @new t m h => exact ⟨.new t, [], by simp [run, Origin.start, h, applySetters]⟩
    | @dec t src d h => exact ⟨.dec t src, [], by simp [run, Origin.start, h, applySetters]⟩
    | @set m s _ ih =>
      obtain ⟨o, ss, hr⟩ := ih
      refine ⟨o, ss ++ [s], ?_⟩
      unfold run at hr ⊢
      cases hs : o.start with
      | none => rw [hs] at hr; cases hr
      | some m0 =>
        rw [hs] at hr
        simp only [Option.map_some, Option.some.injEq] at hr ⊢
        rw [applySetters_snoc, hr]
  · rintro ⟨o, ss, hr⟩
    unfold run at hr
    cases hs : o.start with
    | none => rw [hs] at hr; cases hr
    | some m0 =>
      rw [hs] at hr
      simp only [Option.map_some, Option.some.injEq] at hr
      have h0 : Reachable m0 := by
        cases o with
        | new t => exact Reachable.new hs
        | dec t src =>
          rw [start_dec] at hs
          cases hd : decodeNew t src with
          | ok d => rw [hd] at hs; injection hs with hs; rw [← hs]; exact Reachable.dec hd
          | err => rw [hd] at hs; cases hs
          | panic => rw [hd] at hs; cases hs
      rw [← hr]
      clear hr hs
      induction ss generalizing m0 with
      | nil => exact h0
      | cons s ss ih => exact ih _ (Reachable.set s h0)

theorem shape_reachable {m : Msg} (h : Reachable m) : Shape m := by
  induction h with
  | new h => exact (freshInv_new h).2
  | dec h => exact shape_dec h
  | set s _ ih => exact shape_set _ s ih

theorem rinv_setters (V : Bytes) (m : Msg) (ss : List Setter) (hi : RInv V m) : RInv V (applySetters m ss).1 := by
  induction ss generalizing m with
  | nil => exact hi
  | cons s ss ih => exact ih _ (rinv_set V m s hi)

theorem rinv_run {o : Origin} {ss : List Setter} {m : Msg} {V : Bytes} (hr : run o ss = some m) (hV : OriginV V o) :
    RInv V m := by
  unfold run at hr
  cases hs : o.start with
  | none => rw [hs] at hr; cases hr
  | some m0 =>
    rw [hs] at hr
    simp only [Option.map_some, Option.some.injEq] at hr
    rw [← hr]
    apply rinv_setters
    cases o with
    | new t => exact rinv_new V hs
    | dec t src =>
      rw [start_dec] at hs
      cases hd : decodeNew t src with
      | ok d =>
        rw [hd] at hs
        injection hs with hs
        rw [← hs]
        exact rinv_dec hd (hV d hd)
      | err => rw [hd] at hs; cases hs
      | panic => rw [hd] at hs; cases hs

theorem bodyCanonical_dec (t : Nat) (src : Bytes) :
    (Origin.dec t src).bodyCanonical =
      (match decodeNew t src with | .ok d => decide (BodyCanonical src d (srcLenBytes src d)) | _ => true) := rfl

/-- a canonical origin: the remaining-length bytes are the minimal ones of some length in range -/
theorem originV_of_canonical {o : Origin} (hc : o.canonical = true) :
    ∃ L0, L0 ≤ 268435455 ∧ OriginV (Wire.varint L0) o := by
  cases o with
  | new t => exact ⟨0, by omega, trivial⟩
  | dec t src =>
    rw [canonical_dec] at hc
    cases hd : decodeNew t src with
    | ok d =>
      rw [hd] at hc
      obtain ⟨hb, hL⟩ := canonical_body hd (of_decide_eq_true hc)
      refine ⟨_, hL, ?_⟩
      intro d' hd'
      rw [hd] at hd'
      injection hd' with hd'
      rw [← hd']
      exact hb
    | err => exact ⟨0, by omega, fun d' hd' => by rw [hd] at hd'; cases hd'⟩
    | panic => exact ⟨0, by omega, fun d' hd' => by rw [hd] at hd'; cases hd'⟩

/-- a reference encoding is in particular body-canonical (so `ExcludedV` excludes fewer runs than `Excluded`) -/
theorem canonical_imp_bodyCanonical {o : Origin} (hc : o.canonical = true) : o.bodyCanonical = true := by
  cases o with
  | new t => rfl
  | dec t src =>
    rw [canonical_dec] at hc
    rw [bodyCanonical_dec]
    cases hd : decodeNew t src with
    | ok d =>
      rw [hd] at hc
      simp only []
      have hcan : CanonicalSrc src d := of_decide_eq_true hc
      obtain ⟨⟨h1, h2⟩, hL⟩ := canonical_body hd hcan
      have hV : srcLenBytes src d = Wire.varint (absMsg d.msg).body.length := by
        unfold srcLenBytes
        have hlen : d.n = 1 + (Wire.varint (absMsg d.msg).body.length).length + (absMsg d.msg).body.length := by
          have ok := (decodeNew_total t src).of_ok hd
          have := congrArg List.length h1
          unfold Wire.encodeV at this
          simp only [List.length_cons, List.length_append, List.length_take] at this
          have := ok.n_le
          omega
        rw [h1]
        unfold Wire.encodeV
        simp only [List.drop_succ_cons, List.drop_zero]
        rw [hlen]
        have e : 1 + (Wire.varint (absMsg d.msg).body.length).length + (absMsg d.msg).body.length - 1 -
            (absMsg d.msg).body.length = (Wire.varint (absMsg d.msg).body.length).length := by omega
        rw [e]
        simp
      apply decide_eq_true
      rw [hV]
      exact ⟨h1, h2⟩
    | err => rfl
    | panic => rfl

theorem originV_of_body {o : Origin} (hc : o.bodyCanonical = true) : ∃ V, OriginV V o := by
  cases o with
  | new t => exact ⟨[], trivial⟩
  | dec t src =>
    rw [bodyCanonical_dec] at hc
    cases hd : decodeNew t src with
    | ok d =>
      rw [hd] at hc
      refine ⟨srcLenBytes src d, ?_⟩
      intro d' hd'
      rw [hd] at hd'
      injection hd' with hd'
      rw [← hd']
      exact of_decide_eq_true hc
    | err => exact ⟨[], fun d' hd' => by rw [hd] at hd'; cases hd'⟩
    | panic => exact ⟨[], fun d' hd' => by rw [hd] at hd'; cases hd'⟩

/-- the reference-encoding statement, for a message with the reachable-message invariant for minimal remaining-length bytes -/
theorem rinv_encode_wire {L0 : Nat} (hL0 : L0 ≤ 268435455) {m : Msg} (hi : RInv (Wire.varint L0) m) (hw : WillOk m)
    (ctr : UInt64) (e : Encoded) (he : encode m ctr m.len = .ok e) : e.out = Wire.encode (absMsg e.msg) := by
  obtain ⟨hs, hc⟩ := hi
  cases hd : m.hdr.dirty with
  | true => exact encode_wire m ctr e hd (canon_of_shape m hs hw) he
  | false =>
    obtain ⟨_, h2⟩ := encode_clean m ctr hd
    rw [h2] at he
    injection he with he
    rw [← he]
    exact clean_reference hL0 (hc hd)

/-- a clean message with the invariant for remaining-length bytes `V` is encoded as `V` + the body of its fields -/
theorem rinv_encode_encodes {V : Bytes} {m : Msg} (hi : RInv V m) (hd : m.hdr.dirty = false)
    (ctr : UInt64) (e : Encoded) (he : encode m ctr m.len = .ok e) :
    e.msg = m ∧ e.out = Wire.encodeV V (absMsg m) ∧ Wire.Encodes e.out (absMsg e.msg) := by
  obtain ⟨_, h2⟩ := encode_clean m ctr hd
  rw [h2] at he
  injection he with he
  rw [← he]
  have hc := hi.2 hd
  exact ⟨rfl, hc.buf, V, hc.vlen, hc.buf⟩

/-- … and for a reachable message that is dirty, whatever it was decoded from -/
theorem reachable_dirty_encode_wire {m : Msg} (hr : Reachable m) (hd : m.hdr.dirty = true) (hw : WillOk m)
    (ctr : UInt64) (e : Encoded) (he : encode m ctr m.len = .ok e) : e.out = Wire.encode (absMsg e.msg) :=
  encode_wire m ctr e hd (canon_of_shape m (shape_reachable hr) hw) he

theorem not_excluded {o : Origin} {ss : List Setter} {m : Msg} (hr : run o ss = some m) (hx : Excluded o ss = false) :
    o.canonical = true ∨ m.hdr.dirty = true := by
  unfold Excluded at hx
  rw [hr] at hx
  cases hc : o.canonical with
  | true => exact Or.inl rfl
  | false =>
    rw [hc] at hx
    right
    cases hd : m.hdr.dirty with
    | true => rfl
    | false => simp [hd] at hx

theorem run_encode_wire {o : Origin} {ss : List Setter} {m : Msg} (hr : run o ss = some m) (hx : Excluded o ss = false)
    (hw : WillOk m) (ctr : UInt64) (e : Encoded) (he : encode m ctr m.len = .ok e) :
    e.out = Wire.encode (absMsg e.msg) := by
  rcases not_excluded hr hx with hc | hd
  · obtain ⟨L0, hL0, hV⟩ := originV_of_canonical hc
    exact rinv_encode_wire hL0 (rinv_run hr hV) hw ctr e he
  · exact reachable_dirty_encode_wire ((reachable_iff_run m).mpr ⟨o, ss, hr⟩) hd hw ctr e he

theorem run_round_trip {o : Origin} {ss : List Setter} {m : Msg} (hr : run o ss = some m) (hx : Excluded o ss = false)
    (hw : WillOk m) (ctr : UInt64) (e : Encoded) (he : encode m ctr m.len = .ok e)
    (hwf : Wire.WF (absMsg e.msg)) (rest : Bytes) :
    ∃ d, decodeNew (absMsg e.msg).type (e.out ++ rest) = .ok d ∧ d.n = e.out.length ∧ absMsg d.msg = absMsg e.msg := by
  rw [run_encode_wire hr hx hw ctr e he]
  exact accepts_wf _ hwf rest

/-- a clean message decoded from *an* encoding of the fields the decoder returned (any remaining-length form) is
written as an encoding of its **current** fields, with the remaining-length bytes of the input -/
theorem run_encode_encodes {o : Origin} {ss : List Setter} {m : Msg} (hr : run o ss = some m)
    (hb : o.bodyCanonical = true) (hd : m.hdr.dirty = false) (ctr : UInt64) (e : Encoded)
    (he : encode m ctr m.len = .ok e) : Wire.Encodes e.out (absMsg e.msg) := by
  obtain ⟨V, hV⟩ := originV_of_body hb
  exact (rinv_encode_encodes (rinv_run hr hV) hd ctr e he).2.2

/-- the reference encoding is an encoding -/
theorem encodes_reference (p : Wire.Packet) (hL : p.body.length ≤ 268435455) : Wire.Encodes (Wire.encode p) p := by
  refine ⟨Wire.varint p.body.length, ?_, rfl⟩
  have := getVarint_varint p.body.length hL []
  rwa [List.append_nil] at this

theorem hdrLen_le (n : Nat) : hdrLen n ≤ 5 := by
  unfold hdrLen; repeat' split
  all_goals omega

theorem len_dirty_le (m : Msg) (hd : m.hdr.dirty = true) : m.len ≤ 268435460 := by
  by_cases hb : ∃ h, m = .bare h
  · obtain ⟨h, rfl⟩ := hb
    simp only [Msg.hdr] at hd
    simp only [Msg.len, hd, Bool.not_true, Bool.false_eq_true, if_false]
    have := hdrLen_le h.remlen
    omega
  · by_cases hml : m.msglen > maxRemainingLength
    · have : m.len = 0 := by
        cases m <;> simp only [Msg.hdr] at hd <;> simp [Msg.len, Msg.hdr, hd, hml]
        exact absurd ⟨_, rfl⟩ hb
      omega
    · rw [len_dirty m hd hml (fun h e => hb ⟨h, e⟩)]
      have := hdrLen_le m.msglen
      simp only [maxRemainingLength] at hml
      omega

/-- … and once dirty, the reference encoding `Encode` writes is in particular an encoding -/
theorem reachable_dirty_encodes {m : Msg} (hr : Reachable m) (hd : m.hdr.dirty = true) (hw : WillOk m)
    (ctr : UInt64) (e : Encoded) (he : encode m ctr m.len = .ok e) : Wire.Encodes e.out (absMsg e.msg) := by
  have hwire := reachable_dirty_encode_wire hr hd hw ctr e he
  rw [hwire]
  apply encodes_reference
  have hlen := encode_len_all m ctr e he
  rw [hwire] at hlen
  have hle := len_dirty_le m hd
  have hWl : (Wire.encode (absMsg e.msg)).length =
      1 + (Wire.varint (absMsg e.msg).body.length).length + (absMsg e.msg).body.length := by
    unfold Wire.encode; simp only [List.length_cons, List.length_append]; omega
  by_cases hb : (absMsg e.msg).body.length ≤ 268435455
  · exact hb
  · have := varint_len_big (absMsg e.msg).body.length (by omega)
    omega

theorem not_excludedV {o : Origin} {ss : List Setter} {m : Msg} (hr : run o ss = some m) (hx : ExcludedV o ss = false) :
    o.bodyCanonical = true ∨ m.hdr.dirty = true := by
  unfold ExcludedV at hx
  rw [hr] at hx
  cases hc : o.bodyCanonical with
  | true => exact Or.inl rfl
  | false =>
    rw [hc] at hx
    right
    cases hd : m.hdr.dirty with
    | true => rfl
    | false => simp [hd] at hx

/-- the bytes `Encode` writes are an MQTT 3.1.1 encoding of the message's current fields, for every run that is
not `ExcludedV` -/
theorem run_encodes {o : Origin} {ss : List Setter} {m : Msg} (hr : run o ss = some m) (hx : ExcludedV o ss = false)
    (hw : WillOk m) (ctr : UInt64) (e : Encoded) (he : encode m ctr m.len = .ok e) :
    Wire.Encodes e.out (absMsg e.msg) := by
  cases hd : m.hdr.dirty with
  | true => exact reachable_dirty_encodes ((reachable_iff_run m).mpr ⟨o, ss, hr⟩) hd hw ctr e he
  | false =>
    rcases not_excludedV hr hx with hb | hd'
    · exact run_encode_encodes hr hb hd ctr e he
    · rw [hd] at hd'; cases hd'

/-- round trip for every run that is not `ExcludedV` -/
theorem run_round_trip_encodes {o : Origin} {ss : List Setter} {m : Msg} (hr : run o ss = some m)
    (hx : ExcludedV o ss = false) (hw : WillOk m) (ctr : UInt64) (e : Encoded) (he : encode m ctr m.len = .ok e)
    (hwf : Wire.WF (absMsg e.msg)) (rest : Bytes) :
    ∃ d, decodeNew (absMsg e.msg).type (e.out ++ rest) = .ok d ∧ d.n = e.out.length ∧ absMsg d.msg = absMsg e.msg :=
  accepts_encodes _ hwf _ (run_encodes hr hx hw ctr e he) rest

/-- the message `Encode` leaves behind: an identifier is assigned only on the dirty path -/
def assignR (m : Msg) (ctr : UInt64) : Msg := if m.hdr.dirty then assign m ctr else m

theorem reachable_encode_succeeds {m : Msg} (hr : Reachable m) (ctr : UInt64)
    (hwf : m.hdr.dirty = true → Wire.WF (absMsg (assign m ctr))) :
    ∃ e, encode m ctr m.len = .ok e ∧ e.msg = assignR m ctr := by
  have hs := shape_reachable hr
  unfold assignR
  cases hd : m.hdr.dirty with
  | false =>
    obtain ⟨_, h2⟩ := encode_clean m ctr hd
    exact ⟨_, h2, by simp⟩
  | true =>
    have hwf := hwf hd
    simp only [if_true]
    cases m with
    | connect h c => exact succeeds_connect h c ctr hd hs hwf
    | connack h sp rc => exact succeeds_connack h sp rc ctr hd hs hwf
    | publish h t p => exact succeeds_publish h t p ctr hd hs hwf
    | ack h => exact succeeds_ack h ctr hd hs
    | subscribe h ts qs => exact succeeds_subscribe h ts qs ctr hd hs hwf
    | suback h cs => exact succeeds_suback h cs ctr hd hs hwf
    | unsubscribe h ts => exact succeeds_unsubscribe h ts ctr hd hs hwf
    | bare h => exact succeeds_bare h ctr hd hs

end Mqtt.Proofs.Codec
