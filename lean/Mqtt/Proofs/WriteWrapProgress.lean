/-
C17, wrap path — progress under an explicitly fair environment.

`mu size s = (size + 1) · work s + (pseq − cseq)`: `work` bounds the thread steps still to be
taken (at most 8 per packet), the second summand is what the consumer has not yet taken.  No
action raises `mu`; an enabled thread step and a consumer step that takes at least one byte lower
it.  In a reachable state with a packet outstanding, a segment of the schedule that names every
thread and contains a consumer step asking for at least one byte contains an action that lowers
it: either the holder of `wmu` (or, `wmu` free, a thread with work) can move, or the holder waits
in `WriteWait` for space — only a packet that fits waits — and then there are unread bytes.
-/
import Mqtt.Proofs.WriteWrap

namespace Mqtt.Proofs.WriteWrap
open Mqtt.Model.WriteWrap

def rank : PC → Nat
  | .idle => 0 | .entered => 1 | .reserved _ => 2 | .encoded _ => 3 | .commit _ => 4
  | .wrapped => 2 | .grown => 3 | .tmpEncoded _ => 4 | .copying _ _ => 5 | .copied _ _ => 6

/-- bound on the own steps thread `th` still has to take -/
def thWork (th : Th) : Nat := 8 * th.todo.length - rank th.pc

def work (s : St) : Nat := (s.ths.map thWork).sum

def mu (size : Nat) (s : St) : Nat := (size + 1) * work s + (s.sh.pseq - s.sh.cseq)

theorem rank_le (pc : PC) : rank pc ≤ 6 := by cases pc <;> simp [rank]

theorem pcStep_goto_rank {v : Shape} {size : Nat} {sh sh' : Sh} {m : List UInt8} {pc pc' : PC}
    (h : pcStep v size sh m pc = .goto pc' sh') : rank pc' = rank pc + 1 := by
  cases pc with
  | idle => simp only [pcStep] at h; cases h
  | entered =>
    simp only [pcStep] at h
    split at h
    · cases h
    · split at h
      · cases h
      · split at h <;> (cases h; rfl)
  | reserved st => simp only [pcStep] at h; cases h; rfl
  | encoded st =>
    simp only [pcStep] at h
    split at h
    · cases h
    · split at h
      · cases h
      · cases h; rfl
  | commit st2 => simp only [pcStep] at h; cases h
  | wrapped => simp only [pcStep] at h; split at h <;> (cases h; rfl)
  | grown =>
    simp only [pcStep] at h
    split at h
    · cases h
    · cases h; rfl
  | tmpEncoded n =>
    simp only [pcStep] at h
    split at h <;> split at h <;> (try split at h) <;> first | (cases h; rfl) | cases h
  | copying st2 len => simp only [pcStep] at h; cases h; rfl
  | copied st2 len => simp only [pcStep] at h; cases h

theorem sum_set_lt (l : List Th) : ∀ (t : Nat) (a x : Th), l[t]? = some a → thWork x < thWork a →
    ((l.set t x).map thWork).sum < (l.map thWork).sum := by
  induction l with
  | nil => intro t a x h; cases h
  | cons b l ih =>
    intro t a x h hx
    cases t with
    | zero =>
      simp only [List.getElem?_cons_zero, Option.some.injEq] at h
      subst h
      simp only [List.set_cons_zero, List.map_cons, List.sum_cons]
      omega
    | succ t =>
      simp only [List.getElem?_cons_succ] at h
      have := ih t a x h hx
      simp only [List.set_cons_succ, List.map_cons, List.sum_cons]
      omega

/-- every enabled thread step lowers `work` -/
theorem work_step {size : Nat} {s s' : St} {t : Nat} (h : step code size s t = some s') :
    work s' < work s := by
  obtain ⟨th, m, rest, hth, htodo, hc⟩ := step_cases h
  rcases hc with ⟨hpc, _, rfl⟩ | ⟨hpc, pc', sh', hps, rfl⟩ | ⟨hpc, ok, sh', hps, rfl⟩
  · apply sum_set_lt _ _ _ _ hth
    simp only [thWork, hpc, htodo, rank, List.length_cons]; omega
  · apply sum_set_lt _ _ _ _ hth
    have := pcStep_goto_rank hps
    have := rank_le th.pc
    simp only [thWork, htodo, List.length_cons]; omega
  · apply sum_set_lt _ _ _ _ hth
    have := rank_le th.pc
    simp only [thWork, htodo, List.length_cons]
    show 8 * rest.length - 0 < 8 * (rest.length + 1) - rank th.pc
    omega

theorem mul_succ_le {a w w' : Nat} (h : w' < w) : a * w' + a ≤ a * w := by
  have : a * (w' + 1) ≤ a * w := Nat.mul_le_mul_left a h
  rw [Nat.mul_succ] at this
  exact this

/-- every enabled thread step lowers `mu`: it may add up to `size` bytes to the unread part, but
takes at least one unit of work away -/
theorem mu_step {size todos s s' t} (hsz : 0 < size) (hI : Inv size todos s)
    (h : step code size s t = some s') : mu size s' < mu size s := by
  have hw := work_step h
  have hle : s'.sh.pseq - s'.sh.cseq ≤ (s.sh.pseq - s.sh.cseq) + size := by
    obtain ⟨th, m, rest, hth, htodo, hc⟩ := step_cases h
    rcases hc with ⟨_, _, rfl⟩ | ⟨hpc, pc', sh', hps, rfl⟩ | ⟨hpc, ok, sh', hps, rfl⟩
    · show s.sh.pseq - s.sh.cseq ≤ _; omega
    · have hP := hI.pcOk_of_busy hth htodo hpc
      obtain ⟨_, _, h1, h2, _⟩ := pcStep_goto hsz hI.sh hP hps
      show sh'.pseq - sh'.cseq ≤ _; omega
    · have hP := hI.pcOk_of_busy hth htodo hpc
      rcases pcStep_ret hI.sh hP hps with ⟨_, hl, _, _, h2, h3, _⟩ | ⟨_, _, rfl⟩
      · show sh'.pseq - sh'.cseq ≤ _; omega
      · show s.sh.pseq - s.sh.cseq ≤ _; omega
  have := mul_succ_le (a := size + 1) hw
  unfold mu
  omega

theorem work_consume (size : Nat) (s : St) (k : Nat) : work (consume size s k) = work s := rfl

/-- a consumer step never raises `mu`, and lowers it when it asks for a byte and one is there -/
theorem mu_consume (size : Nat) (s : St) (k : Nat) :
    mu size (consume size s k) ≤ mu size s ∧
    (0 < k → s.sh.cseq < s.sh.pseq → mu size (consume size s k) < mu size s) := by
  unfold mu
  rw [work_consume]
  have e : (consume size s k).sh.pseq - (consume size s k).sh.cseq =
      s.sh.pseq - (s.sh.cseq + min k (s.sh.pseq - s.sh.cseq)) := rfl
  rw [e]
  refine ⟨by omega, fun hk hlt => ?_⟩
  have : 0 < min k (s.sh.pseq - s.sh.cseq) := by rw [Nat.min_def]; split <;> omega
  omega

/-- a consumer step that finds nothing changes nothing -/
theorem consume_nothing (size : Nat) (s : St) (k : Nat) (h : min k (s.sh.pseq - s.sh.cseq) = 0) :
    consume size s k = s := by
  rcases s with ⟨⟨pseq, cseq, ring, outtmp, got⟩, holder, ths, log⟩
  simp only [consume] at h ⊢
  rw [h]
  simp [readRing]

/-- every action either leaves the state as it is or lowers `mu` -/
theorem act_fixed_or_lt {size todos s} (hsz : 0 < size) (hI : Inv size todos s) (a : Act) :
    act code size s a = s ∨ mu size (act code size s a) < mu size s := by
  cases a with
  | th t =>
    simp only [act]
    cases h : step code size s t with
    | none => left; rfl
    | some s' => right; exact mu_step hsz hI h
  | consume k =>
    simp only [act]
    by_cases h0 : min k (s.sh.pseq - s.sh.cseq) = 0
    · left; exact consume_nothing size s k h0
    · right
      apply (mu_consume size s k).2
      · rw [Nat.min_def] at h0; split at h0 <;> omega
      · rw [Nat.min_def] at h0; split at h0 <;> omega

theorem act_mu_le {size todos s} (hsz : 0 < size) (hI : Inv size todos s) (a : Act) :
    mu size (act code size s a) ≤ mu size s := by
  rcases act_fixed_or_lt hsz hI a with h | h
  · rw [h]; exact Nat.le_refl _
  · exact Nat.le_of_lt h

/-- no schedule raises `mu` -/
theorem run_mu_le {size todos} (hsz : 0 < size) (seg : List Act) : ∀ {s}, Inv size todos s →
    mu size (run code size s seg) ≤ mu size s := by
  induction seg with
  | nil => intro s _; exact Nat.le_refl _
  | cons a as ih =>
    intro s hI
    exact Nat.le_trans (ih (inv_act hsz hI a)) (act_mu_le hsz hI a)

/-- a schedule either lowers `mu` or consists of actions that do nothing in the state it starts in -/
theorem run_fixed_or_lt {size todos} (hsz : 0 < size) (seg : List Act) : ∀ {s}, Inv size todos s →
    mu size (run code size s seg) < mu size s ∨ (∀ a ∈ seg, act code size s a = s) := by
  induction seg with
  | nil => intro s _; right; intro a ha; cases ha
  | cons a as ih =>
    intro s hI
    rcases act_fixed_or_lt hsz hI a with h | h
    · show mu size (run code size (act code size s a) as) < mu size s ∨ _
      rw [h]
      rcases ih hI with h2 | h2
      · left; exact h2
      · right
        intro b hb
        rcases List.mem_cons.mp hb with rfl | hb
        · exact h
        · exact h2 b hb
    · left
      exact Nat.lt_of_le_of_lt (run_mu_le hsz as (inv_act hsz hI a)) h

/-- the fairness hypothesis, per segment of the schedule: every thread is scheduled and the
consumer asks for at least one byte -/
def Fair (n : Nat) (seg : List Act) : Prop :=
  (∀ t, t < n → Act.th t ∈ seg) ∧ ∃ k, 0 < k ∧ Act.consume k ∈ seg

/-- in a state with a packet outstanding some action of a fair segment is effective -/
theorem fair_effective {size todos s} (hsz : 0 < size) (hI : Inv size todos s)
    (hw : ∃ th ∈ s.ths, th.todo ≠ []) {seg : List Act} (hf : Fair todos.length seg) :
    ∃ a ∈ seg, mu size (act code size s a) < mu size s := by
  cases hh : s.holder with
  | some t =>
    obtain ⟨th, m, rest, hth, htodo, hP⟩ := hI.held t hh
    have ht : t < todos.length := by rw [← hI.len]; exact lt_of_getElem? hth
    cases hs : step code size s t with
    | some s' =>
      refine ⟨.th t, hf.1 t ht, ?_⟩
      simp only [act, hs, Option.getD_some]
      exact mu_step hsz hI hs
    | none =>
      -- the holder waits for space: the consumer has something to take
      have hb : pcStep code size s.sh m th.pc = .blocked := by
        unfold step at hs
        rw [hth] at hs
        simp only [htodo, hP.not_idle, ↓reduceIte] at hs
        split at hs
        · assumption
        · cases hs
        · cases hs
      obtain ⟨_, _, hlt⟩ := pcStep_blocked hP hb
      obtain ⟨k, hk, hmem⟩ := hf.2
      exact ⟨.consume k, hmem, (mu_consume size s k).2 hk hlt⟩
  | none =>
    obtain ⟨th, hm, htd⟩ := hw
    obtain ⟨t, ht, rfl⟩ := List.getElem_of_mem hm
    have hth : s.ths[t]? = some s.ths[t] := List.getElem?_eq_getElem ht
    have hpc := hI.idle t _ hth (by rw [hh]; intro c; cases c)
    have hs : (step code size s t).isSome = true := by
      unfold step
      rw [hth]
      cases htodo : s.ths[t].todo with
      | nil => exact absurd htodo htd
      | cons m rest => simp [hpc, code, hh, htodo]
    obtain ⟨s', hs'⟩ := Option.isSome_iff_exists.mp hs
    refine ⟨.th t, hf.1 t (by rw [← hI.len]; exact ht), ?_⟩
    simp only [act, hs', Option.getD_some]
    exact mu_step hsz hI hs'

/-- **fair progress**: with a packet outstanding every fair segment lowers `mu` -/
theorem fair_lt {size todos s} (hsz : 0 < size) (hI : Inv size todos s)
    (hw : ∃ th ∈ s.ths, th.todo ≠ []) {seg : List Act} (hf : Fair todos.length seg) :
    mu size (run code size s seg) < mu size s := by
  rcases run_fixed_or_lt hsz seg hI with h | h
  · exact h
  · obtain ⟨a, ha, hlt⟩ := fair_effective hsz hI hw hf
    rw [h a ha] at hlt
    exact absurd hlt (Nat.lt_irrefl _)

/-! ## everything is delivered -/

theorem run_append (v : Shape) (size : Nat) (s : St) (a b : List Act) :
    run v size s (a ++ b) = run v size (run v size s a) b := by
  induction a generalizing s with
  | nil => rfl
  | cons x xs ih => exact ih _

theorem all_empty_act {size : Nat} {s : St} (h : ∀ th ∈ s.ths, th.todo = []) (a : Act) :
    ∀ th ∈ (act code size s a).ths, th.todo = [] := by
  cases a with
  | th t =>
    simp only [act]
    cases hs : step code size s t with
    | none => exact h
    | some s' =>
      obtain ⟨th, m, rest, hth, htodo, _⟩ := step_cases hs
      have := h th (List.mem_of_getElem? hth)
      rw [htodo] at this; cases this
  | consume k => exact h

theorem all_empty_run {size : Nat} (seg : List Act) : ∀ {s : St}, (∀ th ∈ s.ths, th.todo = []) →
    ∀ th ∈ (run code size s seg).ths, th.todo = [] := by
  induction seg with
  | nil => intro s h; exact h
  | cons a as ih => intro s h; exact ih (all_empty_act h a)

theorem le_sum_of_mem : ∀ (l : List Nat) (a : Nat), a ∈ l → a ≤ l.sum := by
  intro l
  induction l with
  | nil => intro a h; cases h
  | cons b l ih =>
    intro a h
    simp only [List.sum_cons]
    rcases List.mem_cons.mp h with h | h
    · omega
    · have := ih a h; omega

theorem work_zero {s : St} (h : work s = 0) : ∀ th ∈ s.ths, th.todo = [] := by
  intro th hm
  have h0 : thWork th = 0 := by
    have : thWork th ∈ s.ths.map thWork := List.mem_map.mpr ⟨_, hm, rfl⟩
    have := le_sum_of_mem _ _ this
    unfold work at h; omega
  cases htd : th.todo with
  | nil => rfl
  | cons m rest =>
    exfalso
    simp only [thWork, htd, List.length_cons] at h0
    have := rank_le th.pc
    omega

theorem mu_zero {size : Nat} {s : St} (h : mu size s = 0) : ∀ th ∈ s.ths, th.todo = [] := by
  apply work_zero
  unfold mu at h
  have h1 : (size + 1) * work s = 0 := by omega
  rcases Nat.mul_eq_zero.mp h1 with h2 | h2
  · omega
  · exact h2

/-- after `mu s` fair segments nothing is outstanding -/
theorem fair_run_delivers {size todos} (hsz : 0 < size) (segs : List (List Act)) : ∀ {s}, Inv size todos s →
    (∀ seg ∈ segs, Fair todos.length seg) → mu size s ≤ segs.length →
    ∀ th ∈ (run code size s segs.flatten).ths, th.todo = [] := by
  induction segs with
  | nil =>
    intro s _ _ hmu
    exact mu_zero (Nat.le_zero.mp hmu)
  | cons seg segs ih =>
    intro s hI hf hmu
    rw [List.flatten_cons, run_append]
    by_cases hw : ∃ th ∈ s.ths, th.todo ≠ []
    · have hlt := fair_lt hsz hI hw (hf seg List.mem_cons_self)
      apply ih (inv_run hsz seg hI) (fun sg hsg => hf sg (List.mem_cons_of_mem _ hsg))
      simp only [List.length_cons] at hmu
      omega
    · apply all_empty_run
      apply all_empty_run
      intro th hm
      cases htd : th.todo with
      | nil => rfl
      | cons m rest => exact absurd ⟨th, hm, by rw [htd]; exact List.cons_ne_nil _ _⟩ hw

theorem work_init (size : Nat) (tmp0 : List UInt8) (todos : List (List (List UInt8))) :
    work (init size tmp0 todos) = 8 * (todos.map List.length).sum := by
  simp only [work, init, List.map_map]
  induction todos with
  | nil => rfl
  | cons l ls ih =>
    simp only [List.map_cons, List.sum_cons, ih, Function.comp, thWork, rank]
    omega

theorem mu_init (size : Nat) (tmp0 : List UInt8) (todos : List (List (List UInt8))) :
    mu size (init size tmp0 todos) = (size + 1) * (8 * (todos.map List.length).sum) := by
  unfold mu
  rw [work_init]
  rfl

end Mqtt.Proofs.WriteWrap
