/-
Refinement step: the inbound QoS 2 exchange - PUBLISH with QoS 2 (registered,
PUBREC) and PUBREL (hand-over of the released messages in order of opening,
PUBCOMP).
-/
import Mqtt.Proofs.BrokerRefineUpdate

set_option linter.unusedSimpArgs false

namespace Mqtt.Proofs.BrokerRefine
open Mqtt.Iface.Broker Mqtt.Model.Broker
open Mqtt.Model.Topics (MemTopics RMsg RNode)
open Mqtt.Proofs.Topics (WF RWF abs absR good entryLevels)
open Mqtt.Spec.Match (split validName validFilter topicMatches)
open Mqtt.Proofs.Broker (HeldInv RetInv heldEntry)
open Mqtt.Proofs.BrokerQos (toOpen2 specReleaseAll)
open Mqtt.Spec.Broker (Accepts SOut)

theorem spec_setConn_frame (s : Spec.Broker.S) (k : Spec.Broker.Conn) :
    (Spec.Broker.setConn s k).held = s.held ∧ (Spec.Broker.setConn s k).rets = s.rets ∧
    (Spec.Broker.setConn s k).stored = s.stored :=
  ⟨rfl, rfl, rfl⟩

/-- replacing the inbound QoS 2 queue of a live connection's session by `q`
(model) and its image (reference broker) -/
theorem R_setQueue {b : B} {s : Spec.Broker.S} (h : R b s) {c : Nat} {cn : Conn} {σ : Sess} {k : Spec.Broker.Conn}
    (hc : b.getConn c = some cn) (ha : cn.alive = true) (hs : b.getSess cn.sess = some σ)
    (hk : Spec.Broker.getConn s c = some k) (hrel : LiveRel b s c σ k) (q : List QEntry)
    (hq : Mqtt.Proofs.BrokerQos.QInv q) (hqok : ∀ e ∈ q, pubOk e.msg = true) :
    R (b.setSess { σ with pub2in := q }) (Spec.Broker.setConn s { k with open2 := toOpen2 q }) := by
  have hl := liveSess_eq hc ha hs
  have hσ := liveSess_ref hl
  refine R_update (σ' := { σ with pub2in := q }) (k' := { k with open2 := toOpen2 q }) h hl hk
    (Mqtt.Proofs.Broker.Inv_setSess b _ h.inv)
    (Mqtt.Proofs.BrokerLife.inv_setSess h.linv hσ rfl rfl (h.linv.wills _ σ hσ))
    (Mqtt.Proofs.BrokerQos.BInv.setSess h.qinv (s := σ) hσ hq)
    rfl rfl rfl rfl rfl rfl h.held h.heldGood h.owners (fun _ _ => rfl) rfl rfl
    (spec_setConn_nodup s _ h.sconns)
    (spec_getConn_setConn_if s _ c (show k.id = c from Mqtt.Proofs.BrokerQos.spec_getConn_id hk)) ?_
  exact ⟨hrel.cid, hrel.clean, hrel.willFlag, hrel.will, hrel.willOk, rfl, hqok, hrel.topics, hrel.store⟩

theorem mem_q2Wait {q : List QEntry} {p : Pub} {e : QEntry} (h : e ∈ q2Wait q p) : e ∈ q ∨ e.msg = p := by
  unfold q2Wait at h
  split at h
  · exact .inl h
  · rcases List.mem_append.mp h with h | h
    · exact .inl h
    · simp only [List.mem_singleton] at h; subst h; exact .inr rfl

theorem mem_q2Ack {q : List QEntry} {id : Nat} {e : QEntry} (h : e ∈ q2Ack q id) : ∃ e0 ∈ q, e.msg = e0.msg := by
  unfold q2Ack at h
  obtain ⟨e0, he0, rfl⟩ := List.mem_map.mp h
  exact ⟨e0, he0, by split <;> rfl⟩

theorem mem_q2Acked {q : List QEntry} {e : QEntry} (h : e ∈ (q2Acked q).1 ∨ e ∈ (q2Acked q).2) : e ∈ q := by
  unfold q2Acked at h
  rcases h with h | h
  · exact (List.dropWhile_sublist _).subset h
  · exact (List.takeWhile_sublist _).subset h

/-- PUBLISH with QoS 2 on a live connection -/
theorem step_publish2 {b : B} {s : Spec.Broker.S} (h : R b s) (c : Nat) (hl : b.alive c = true) (p : Pub)
    (hp : pubOk p = true) (hq : p.qos = 2) :
    R (step b (.packet c (.publish p))).1 (Spec.Broker.step1 s (.packet c (.publish p))).1 ∧
    Accepts (Spec.Broker.step1 s (.packet c (.publish p))).2 (step b (.packet c (.publish p))).2 := by
  obtain ⟨cn, σ, k, hc, ha, hs, hk, hrel⟩ := h.liveConn hl
  have hm : step b (.packet c (.publish p)) =
      (b.setSess { σ with pub2in := q2Wait σ.pub2in p }, [.send c (.pubrec p.pktid)]) :=
    Mqtt.Proofs.BrokerQos.packet_publish2 hc ha hs p hq
  have hsp : Spec.Broker.step1 s (.packet c (.publish p)) =
      (Spec.Broker.setConn s { k with open2 := toOpen2 (q2Wait σ.pub2in p) }, [.send c (.pubrec p.pktid)]) := by
    simp only [Spec.Broker.step1, hk, hq]
    rw [hrel.open2, Mqtt.Proofs.BrokerQos.open2_wait]
    rfl
  rw [hm, hsp]
  refine ⟨R_setQueue h hc ha hs hk hrel _ ?_ ?_, accepts_lits (.cons (.send c _ (by intro w h; cases h)) .nil)⟩
  · have := h.qinv.queues cn.sess
    simp only [Mqtt.Proofs.BrokerQos.pub2inOf, hs] at this
    exact Mqtt.Proofs.BrokerQos.qInv_wait this p
  · intro e he
    rcases mem_q2Wait he with h1 | h1
    · exact hrel.q2ok e h1
    · rw [h1]; exact hp

/-- the hand-over of released messages, one `onPublish` / `accept` after the other -/
theorem R_releaseAll (rel : List QEntry) : ∀ {b : B} {s : Spec.Broker.S}, R b s → (∀ e ∈ rel, pubOk e.msg = true) →
    R (releaseAll b rel).1 (specReleaseAll s (rel.map (·.msg))).1 ∧
    Fan (specReleaseAll s (rel.map (·.msg))).2 (releaseAll b rel).2 := by
  induction rel with
  | nil => intro b s h _; exact ⟨h, Fan.nil⟩
  | cons e rest ih =>
    intro b s h hok
    obtain ⟨hg, hn, hq2, hid⟩ := pubOk_iff e.msg (hok e (List.mem_cons_self ..))
    have hmok : (⟨e.msg, false⟩ : Msg).p.pktid ≠ 0 ∨ (⟨e.msg, false⟩ : Msg).dirty = true ∨
        (⟨e.msg, false⟩ : Msg).p.qos = 0 := by
      rcases hid with h0 | h0
      · exact .inr (.inr h0)
      · exact .inl h0
    obtain ⟨r1, r2, _⟩ := R_onPublish h ⟨e.msg, false⟩ hg hn hq2 hmok
      (Mqtt.Proofs.Broker.Inv_onPublish b _ h.inv)
      (Mqtt.Proofs.BrokerLife.inv_frame (Mqtt.Proofs.BrokerLife.onPublish_frame b _) h.linv)
      (h.qinv.same (Mqtt.Proofs.BrokerQos.onPublish_frame b _).1.same)
    obtain ⟨q1, q2⟩ := ih r1 (fun e' he' => hok e' (List.mem_cons_of_mem _ he'))
    have hm : releaseAll b (e :: rest) =
        ((releaseAll (onPublish b ⟨e.msg, false⟩).1 rest).1,
         (onPublish b ⟨e.msg, false⟩).2.2.1 ++ (releaseAll (onPublish b ⟨e.msg, false⟩).1 rest).2) := rfl
    have hsp : specReleaseAll s ((e :: rest).map (·.msg)) =
        ((specReleaseAll (Spec.Broker.accept s e.msg).1 (rest.map (·.msg))).1,
         (Spec.Broker.accept s e.msg).2 ++ (specReleaseAll (Spec.Broker.accept s e.msg).1 (rest.map (·.msg))).2) := rfl
    rw [hm, hsp]
    exact ⟨q1, r2.append q2⟩

/-- the reference broker's PUBREL step in terms of `specReleaseAll` -/
theorem spec_pubrel_eq (s : Spec.Broker.S) (c : Nat) (k : Spec.Broker.Conn) (q : List QEntry) (id : Nat)
    (hk : Spec.Broker.getConn s c = some k) (ho : k.open2 = toOpen2 q) :
    Spec.Broker.step1 s (.packet c (.pubrel id)) =
      ((specReleaseAll (Spec.Broker.setConn s { k with open2 := toOpen2 (q2Acked (q2Ack q id)).1 })
          ((q2Acked (q2Ack q id)).2.map (·.msg))).1,
       (specReleaseAll (Spec.Broker.setConn s { k with open2 := toOpen2 (q2Acked (q2Ack q id)).1 })
          ((q2Acked (q2Ack q id)).2.map (·.msg))).2 ++ [.send c (.pubcomp id)]) := by
  simp only [Spec.Broker.step1, hk]
  rw [ho, Mqtt.Proofs.BrokerQos.open2_mark, (Mqtt.Proofs.BrokerQos.open2_release _).1,
    (Mqtt.Proofs.BrokerQos.open2_release _).2, Mqtt.Proofs.BrokerQos.spec_foldl_release,
    Mqtt.Proofs.BrokerQos.toOpen2_msgs]
  simp

/-- PUBREL on a live connection -/
theorem step_pubrel {b : B} {s : Spec.Broker.S} (h : R b s) (c : Nat) (hl : b.alive c = true) (id : Nat) :
    R (step b (.packet c (.pubrel id))).1 (Spec.Broker.step1 s (.packet c (.pubrel id))).1 ∧
    Accepts (Spec.Broker.step1 s (.packet c (.pubrel id))).2 (step b (.packet c (.pubrel id))).2 := by
  obtain ⟨cn, σ, k, hc, ha, hs, hk, hrel⟩ := h.liveConn hl
  have hm : step b (.packet c (.pubrel id)) = _ := Mqtt.Proofs.BrokerQos.packet_pubrel hc ha hs id
  rw [hm, spec_pubrel_eq s c k σ.pub2in id hk hrel.open2]
  have hqi : Mqtt.Proofs.BrokerQos.QInv σ.pub2in := by
    have := h.qinv.queues cn.sess
    simpa only [Mqtt.Proofs.BrokerQos.pub2inOf, hs] using this
  have hmsg : ∀ e, e ∈ (q2Acked (q2Ack σ.pub2in id)).1 ∨ e ∈ (q2Acked (q2Ack σ.pub2in id)).2 → pubOk e.msg = true := by
    intro e he
    obtain ⟨e0, he0, hmm⟩ := mem_q2Ack (mem_q2Acked he)
    rw [hmm]; exact hrel.q2ok e0 he0
  have h1 := R_setQueue h hc ha hs hk hrel (q2Acked (q2Ack σ.pub2in id)).1
    (Mqtt.Proofs.BrokerQos.qInv_pubrel hqi id) (fun e he => hmsg e (.inl he))
  obtain ⟨r1, r2⟩ := R_releaseAll (q2Acked (q2Ack σ.pub2in id)).2 h1 (fun e he => hmsg e (.inr he))
  refine ⟨r1, ?_⟩
  have := accepts_shape .nil r2 (.cons (.send c (.pubcomp id) (by intro w h; cases h)) .nil)
  simpa using this

end Mqtt.Proofs.BrokerRefine
