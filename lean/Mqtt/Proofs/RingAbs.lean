/-
Core D — layer 1 safety (`AInv` preserved by every abstract step) and the
simulation of layer 2 by layer 1.
-/
import Mqtt.Model.RingAbs
import Mqtt.Proofs.RingSafety

set_option linter.unusedSimpArgs false
set_option linter.unusedVariables false

namespace Mqtt.Proofs.Ring
open Mqtt.Model.Ring Mqtt.Model.RingAbs Mqtt.Iface.Ring Mqtt.Spec.Ring

/-- the layer-1 safety invariant (DESIGN `RingInv`) -/
structure AInv (size : Nat) (src : Nat → UInt8) (base : Nat) (a : A) : Prop where
  cp : a.cseq ≤ a.pseq
  pc : a.pseq ≤ a.cseq + size
  gc : a.gate ≤ a.cseq
  cells : ∀ i, a.cseq ≤ i → i < a.pseq → a.cell (i % size) = src i
  basele : base ≤ a.cseq
  got : a.got = segment src base (a.cseq - base)

theorem mod_ne_lt (size : Nat) (hs : 0 < size) {a b : Nat} (hab : a < b) (hb : b < a + size) :
    a % size ≠ b % size := by
  intro h
  have h1 : (b - a) % size = 0 := by
    have : b = a + (b - a) := by omega
    have e : (a + (b - a)) % size = a % size := by rw [← this]; exact h.symm
    have := Nat.add_mod a (b - a) size
    rw [e] at this
    have hlt := Nat.mod_lt a hs
    have hlt2 := Nat.mod_lt (b - a) hs
    by_cases hc : a % size + (b - a) % size < size
    · rw [Nat.mod_eq_of_lt hc] at this; omega
    · have : (a % size + (b - a) % size) % size = a % size + (b - a) % size - size := by
        rw [Nat.mod_eq_sub_mod (by omega)]
        exact Nat.mod_eq_of_lt (by omega)
      omega
  have h2 : (b - a) % size = b - a := Nat.mod_eq_of_lt (by omega)
  omega

theorem mod_ne (size : Nat) (hs : 0 < size) {a b : Nat} (hne : a ≠ b) (h1 : a < b + size) (h2 : b < a + size) :
    a % size ≠ b % size := by
  rcases Nat.lt_or_gt_of_ne hne with h | h
  · exact mod_ne_lt size hs h h2
  · exact fun e => mod_ne_lt size hs h h1 e.symm

theorem segment_cells (src : Nat → UInt8) (cell : Nat → UInt8) (size cseq n : Nat)
    (h : ∀ i, i < n → cell ((cseq + i) % size) = src (cseq + i)) :
    (List.range n).map (fun i => cell ((cseq + i) % size)) = segment src cseq n := by
  unfold segment
  apply List.map_congr_left
  intro i hi
  exact h i (List.mem_range.mp hi)

/-- **Layer 1 safety.** every abstract step preserves `AInv` -/
theorem ainv_step (size : Nat) (hs : 0 < size) (src : Nat → UInt8) (base : Nat) (a a' : A)
    (h : AInv size src base a) (st : AStep size src a a') : AInv size src base a' := by
  obtain ⟨hcp, hpc, hgc, hcells, hb, hgot⟩ := h
  cases st with
  | learnGate g h1 h2 => exact ⟨hcp, hpc, h2, hcells, hb, hgot⟩
  | write pos h1 h2 =>
    refine ⟨hcp, hpc, hgc, ?_, hb, hgot⟩
    intro i hi1 hi2
    have hi1' : a.cseq ≤ i := hi1
    have hi2' : i < a.pseq := hi2
    show upd a.cell (pos % size) (src pos) (i % size) = src i
    unfold upd
    rw [if_neg (mod_ne size hs (by omega) (by omega) (by omega))]
    exact hcells i hi1 hi2
  | commitP n h1 h2 =>
    refine ⟨by show a.cseq ≤ a.pseq + n; omega, ?_, hgc, ?_, hb, hgot⟩
    · show a.pseq + n ≤ a.cseq + size
      by_cases hn : n = 0
      · omega
      · have := h2 (by omega); omega
    · intro i hi1 hi2
      have hi1' : a.cseq ≤ i := hi1
      have hi2' : i < a.pseq + n := hi2
      by_cases hlt : i < a.pseq
      · exact hcells i hi1 hlt
      · have := h1 (i - a.pseq) (by omega)
        rwa [show a.pseq + (i - a.pseq) = i by omega] at this
  | commitC n h1 =>
    refine ⟨h1, by show a.pseq ≤ a.cseq + n + size; omega, by show a.gate ≤ a.cseq + n; omega, ?_,
      by show base ≤ a.cseq + n; omega, ?_⟩
    · intro i hi1 hi2
      have hi1' : a.cseq + n ≤ i := hi1
      exact hcells i (by omega) hi2
    · show a.got ++ (List.range n).map (fun i => a.cell ((a.cseq + i) % size)) = segment src base (a.cseq + n - base)
      rw [segment_cells src a.cell size a.cseq n (fun i hi => hcells (a.cseq + i) (by omega) (by omega)), hgot,
        show a.cseq + n - base = (a.cseq - base) + n by omega, segment_append,
        show base + (a.cseq - base) = a.cseq by omega]

/-- what the consumer obtains at a commit is the stream -/
theorem commitC_data (size : Nat) (src : Nat → UInt8) (base : Nat) (a : A) (n : Nat)
    (h : AInv size src base a) (h1 : a.cseq + n ≤ a.pseq) :
    (List.range n).map (fun i => a.cell ((a.cseq + i) % size)) = segment src a.cseq n :=
  segment_cells src a.cell size a.cseq n (fun i hi => h.cells (a.cseq + i) (by omega) (by omega))

theorem step_some' (cfg : Cfg) (s s' : St) (t : Tid) (hs : step cfg s t = some s') :
    ∃ th sh' th', s.getTh t = some th ∧ tstep cfg s.sh t th = some (sh', th') ∧
      s' = ({ s with sh := sh' } : St).setTh t th' := by
  unfold step at hs
  split at hs
  · simp at hs
  · rename_i th hth
    split at hs
    · simp at hs
    · rename_i sh' th' hst
      simp only [Option.some.injEq] at hs
      exact ⟨th, sh', th', hth, hst, hs.symm⟩

/-- abstraction of the shared state of layer 2 -/
def absSh (sh : Sh) : A :=
  { pseq := sh.pseq, cseq := sh.cseq, gate := sh.gate, cell := fun i => rd sh.buf i, got := sh.gotRev.reverse }

/-- abstraction of a layer-2 state -/
def absSt (s : St) : A := absSh s.sh

theorem absSh_core (sh sh' : Sh) (h : sh'.core = sh.core) : absSh sh' = absSh sh := by
  have h1 := congrArg Core.buf h
  have h2 := congrArg Core.pseq h
  have h3 := congrArg Core.cseq h
  have h4 := congrArg Core.gate h
  have h5 := congrArg Core.gotRev h
  simp only [Sh.core] at h1 h2 h3 h4 h5
  unfold absSh
  rw [h1, h2, h3, h4, h5]

theorem ainv_of_rinv (cfg : Cfg) (base : Nat) (s : St) (h : RInv cfg base s) :
    AInv cfg.size cfg.src base (absSt s) := by
  obtain ⟨hbs, hcp, hpc, hgc, hcells, hb, hgot⟩ := h.glob
  refine ⟨hcp, hpc, hgc, ?_, hb, hgot⟩
  intro i h1 h2
  have := hcells i h1 h2
  rw [idx_eq_mod] at this
  exact this

theorem rd_wr_upd (cfg : Cfg) (buf : Array UInt8) (pos : Nat) (v : UInt8) (hbs : buf.size = cfg.size) :
    (fun i => rd (wr buf (cfg.idx pos) v) i) = upd (fun i => rd buf i) (pos % cfg.size) v := by
  funext i
  unfold upd
  rw [← idx_eq_mod]
  by_cases e : i = cfg.idx pos
  · rw [if_pos e, e]; exact rd_wr_same _ _ _ (by rw [hbs]; exact idx_lt cfg pos)
  · rw [if_neg e]; exact rd_wr_other _ _ _ _ (Ne.symm e)

/-- a producer step that touches the core is a layer-1 step (or the last, empty iteration of a copy loop) -/
theorem sim_prod (cfg : Cfg) (base : Nat) (sh sh' : Sh) (th th' : Th)
    (hg : Glob cfg base sh.core) (hi : PInv cfg sh.core th) (hok : ThOK .p th)
    (hs : tstep cfg sh .p th = some (sh', th')) (hd : dataPc th.pc = true) :
    absSh sh' = absSh sh ∨ AStep cfg.size cfg.src (absSh sh) (absSh sh') := by
  have hcr := tstep_crash _ _ _ _ _ hs
  obtain ⟨hp, hc, hr⟩ := hok
  obtain ⟨hpc, hsl, hf⟩ := hi
  obtain ⟨hbs, hcp, hpcs, hgc, hcells, hbase, hgot⟩ := hg
  obtain ⟨pc, prog, cur, slice, filled, view, pending, res⟩ := th
  simp only [Sh.core] at hbs hcp hpcs hgc hcells hbase hgot hpc hsl hf
  cases pc
  case s38 n ppos cpos =>
    simp only [pcP] at hpc
    obtain ⟨e1, e2, e3, e4, e5⟩ := hpc
    tstep_norm
    obtain ⟨rfl, rfl⟩ := hs
    right
    have e : absSh (Sh.unlock { buf := sh.buf, pseq := sh.pseq, cseq := sh.cseq, gate := cpos, done := sh.done, pL := sh.pL, cL := sh.cL, pNote := sh.pNote, cNote := sh.cNote, gotRev := sh.gotRev } Mx.pL)
        = { absSh sh with gate := cpos } := by
      rw [absSh_core _ _ (core_unlock _ _)]; rfl
    rw [e]
    exact AStep.learnGate (absSh sh) cpos e4 e3
  case w41c n ppos j =>
    simp only [pcP] at hpc
    obtain ⟨e1, e2, e3, e4⟩ := hpc
    tstep_norm
    rcases hs with ⟨h1, rfl, rfl⟩ | ⟨h1, rfl, rfl⟩
    · right
      have e : absSh { buf := wr sh.buf (cfg.idx (ppos + j)) (cfg.src (ppos + j)), pseq := sh.pseq, cseq := sh.cseq, gate := sh.gate, done := sh.done, pL := sh.pL, cL := sh.cL, pNote := sh.pNote, cNote := sh.cNote, gotRev := sh.gotRev }
          = { absSh sh with cell := upd (absSh sh).cell ((ppos + j) % cfg.size) (cfg.src (ppos + j)) } := by
        unfold absSh
        simp only [rd_wr_upd cfg sh.buf (ppos + j) _ hbs]
      rw [e]
      exact AStep.write (absSh sh) (ppos + j) (by show sh.pseq ≤ ppos + j; omega) (by show ppos + j < sh.cseq + cfg.size; omega)
    · left; rfl
  case w42 n ppos =>
    simp only [pcP] at hpc
    obtain ⟨e1, e2, e3⟩ := hpc
    tstep_norm
    obtain ⟨rfl, rfl⟩ := hs
    right
    subst e1
    refine AStep.commitP (absSh sh) n ?_ ?_
    · intro i hi
      have := e3 i hi
      rw [idx_eq_mod] at this
      exact this
    · intro _; exact e2
  case c50 n ppos =>
    simp only [pcP] at hpc
    obtain ⟨e1, e2⟩ := hpc
    tstep_norm
    obtain ⟨rfl, rfl⟩ := hs
    right
    subst e1
    refine AStep.commitP (absSh sh) n ?_ ?_
    · intro i hi
      have := hf.1 i (by omega)
      rw [idx_eq_mod] at this
      exact this
    · intro hn
      have h2 : sh.pseq + filled ≤ sh.cseq + cfg.size := hf.2 (by omega)
      show sh.pseq + n ≤ sh.cseq + cfg.size
      omega
  case f0 start len j =>
    simp only [pcP] at hpc
    obtain ⟨e1, e2, e3, e4, e5⟩ := hpc
    tstep_norm
    rcases hs with ⟨h1, rfl, rfl⟩ | ⟨h1, rfl, rfl⟩
    · right
      have e : absSh { buf := wr sh.buf (cfg.idx (start + j)) (cfg.src (start + j)), pseq := sh.pseq, cseq := sh.cseq, gate := sh.gate, done := sh.done, pL := sh.pL, cL := sh.cL, pNote := sh.pNote, cNote := sh.cNote, gotRev := sh.gotRev }
          = { absSh sh with cell := upd (absSh sh).cell ((start + j) % cfg.size) (cfg.src (start + j)) } := by
        unfold absSh
        simp only [rd_wr_upd cfg sh.buf (start + j) _ hbs]
      rw [e]
      exact AStep.write (absSh sh) (start + j) (by show sh.pseq ≤ start + j; omega) (by show start + j < sh.cseq + cfg.size; omega)
    · left; rfl
  case g111c tot ms start n j =>
    simp only [pcP] at hpc
    obtain ⟨e1, e2, e3, e4⟩ := hpc
    tstep_norm
    rcases hs with ⟨h1, rfl, rfl⟩ | ⟨h1, rfl, rfl⟩
    · right
      have e : absSh { buf := wr sh.buf (cfg.idx (start + j)) (cfg.src (start + j)), pseq := sh.pseq, cseq := sh.cseq, gate := sh.gate, done := sh.done, pL := sh.pL, cL := sh.cL, pNote := sh.pNote, cNote := sh.cNote, gotRev := sh.gotRev }
          = { absSh sh with cell := upd (absSh sh).cell ((start + j) % cfg.size) (cfg.src (start + j)) } := by
        unfold absSh
        simp only [rd_wr_upd cfg sh.buf (start + j) _ hbs]
      rw [e]
      exact AStep.write (absSh sh) (start + j) (by show sh.pseq ≤ start + j; omega) (by show start + j < sh.cseq + cfg.size; omega)
    · left; rfl
  all_goals (first | (simp [dataPc] at hd; done) | (simp [pcRole, roleOK] at hr; done))

/-- a consumer step that touches the core is a layer-1 commit -/
theorem sim_cons (cfg : Cfg) (base : Nat) (sh sh' : Sh) (th th' : Th)
    (hg : Glob cfg base sh.core) (hi : CInv cfg sh.core th) (hok : ThOK .c th)
    (hs : tstep cfg sh .c th = some (sh', th')) (hd : dataPc th.pc = true) :
    AStep cfg.size cfg.src (absSh sh) (absSh sh') := by
  have hcr := tstep_crash _ _ _ _ _ hs
  obtain ⟨hp, hc, hr⟩ := hok
  obtain ⟨hpc, hv, hpd⟩ := hi
  obtain ⟨hbs, hcp, hpcs, hgc, hcells, hbase, hgot⟩ := hg
  obtain ⟨pc, prog, cur, slice, filled, view, pending, res⟩ := th
  simp only [Sh.core] at hbs hcp hpcs hgc hcells hbase hgot hpc hv hpd
  have hcellsA : ∀ n, sh.cseq + n ≤ sh.pseq →
      (List.range n).map (fun i => (absSh sh).cell ((sh.cseq + i) % cfg.size)) = segment cfg.src sh.cseq n := by
    intro n hn
    refine segment_cells cfg.src _ cfg.size sh.cseq n (fun i hi => ?_)
    have := hcells (sh.cseq + i) (by omega) (by omega)
    rw [idx_eq_mod] at this
    exact this
  cases pc
  case r64 b cpos acc =>
    simp only [pcC] at hpc
    obtain ⟨e1, e2, e3⟩ := hpc
    tstep_norm
    obtain ⟨rfl, rfl⟩ := hs
    subst e1
    have hg2 : (acc ++ sh.gotRev).reverse
        = (absSh sh).got ++ (List.range acc.length).map (fun i => (absSh sh).cell (((absSh sh).cseq + i) % cfg.size)) := by
      rw [List.reverse_append, e3]
      exact congrArg _ (hcellsA _ e2).symm
    have e : absSh { buf := sh.buf, pseq := sh.pseq, cseq := sh.cseq + acc.length, gate := sh.gate, done := sh.done, pL := sh.pL, cL := sh.cL, pNote := sh.pNote, cNote := sh.cNote, gotRev := acc ++ sh.gotRev }
        = ⟨sh.pseq, sh.cseq + acc.length, sh.gate, (absSh sh).cell, (absSh sh).got ++ (List.range acc.length).map (fun i => (absSh sh).cell (((absSh sh).cseq + i) % cfg.size))⟩ := by
      simp only [absSh, A.mk.injEq, true_and]
      exact hg2
    rw [e]
    exact AStep.commitC (absSh sh) acc.length e2
  case k102 n cpos =>
    simp only [pcC] at hpc
    obtain ⟨e1, e2, e3⟩ := hpc
    have e3' : n ≤ pending.length := e3
    tstep_norm
    obtain ⟨rfl, rfl⟩ := hs
    subst e1
    have hpd1 : pending = segment cfg.src sh.cseq pending.length := hpd.1
    have hg2 : ((pending.take n).reverse ++ sh.gotRev).reverse
        = (absSh sh).got ++ (List.range n).map (fun i => (absSh sh).cell (((absSh sh).cseq + i) % cfg.size)) := by
      rw [List.reverse_append, List.reverse_reverse, hpd1, segment_take cfg.src sh.cseq pending.length n e3']
      exact congrArg _ (hcellsA _ e2).symm
    have e : absSh { buf := sh.buf, pseq := sh.pseq, cseq := sh.cseq + n, gate := sh.gate, done := sh.done, pL := sh.pL, cL := sh.cL, pNote := sh.pNote, cNote := sh.cNote, gotRev := (pending.take n).reverse ++ sh.gotRev }
        = ⟨sh.pseq, sh.cseq + n, sh.gate, (absSh sh).cell, (absSh sh).got ++ (List.range n).map (fun i => (absSh sh).cell (((absSh sh).cseq + i) % cfg.size))⟩ := by
      simp only [absSh, A.mk.injEq, true_and]
      exact hg2
    rw [e]
    exact AStep.commitC (absSh sh) n e2
  all_goals (first | (simp [dataPc] at hd; done) | (simp [pcRole, roleOK] at hr; done))

/-- **Simulation.** every step of the real program (layer 2) is a step of the abstract machine
(layer 1) or invisible to it -/
theorem sim_step (cfg : Cfg) (base : Nat) (s s' : St) (t : Tid) (h : RInv cfg base s)
    (hs : step cfg s t = some s') :
    absSt s' = absSt s ∨ AStep cfg.size cfg.src (absSt s) (absSt s') := by
  obtain ⟨th, sh', th', hth, hst, rfl⟩ := step_some' cfg s s' t hs
  have hsh : (({ s with sh := sh' } : St).setTh t th').sh = sh' := by cases t <;> rfl
  unfold absSt
  rw [hsh]
  by_cases hd : dataPc th.pc = true
  · cases t with
    | p =>
      have hP : s.P = th := by simpa [St.getTh] using hth
      subst hP
      exact sim_prod cfg base s.sh sh' _ th' h.glob h.invP h.okP hst hd
    | c =>
      have hC : s.C = th := by simpa [St.getTh] using hth
      subst hC
      exact Or.inr (sim_cons cfg base s.sh sh' _ th' h.glob h.invC h.okC hst hd)
    | k i =>
      have := role_any_noData i th.pc (h.okK i th hth).role
      rw [this] at hd; cases hd
  · exact Or.inl (absSh_core _ _ (core_frame cfg _ _ _ _ _ hst (by simpa using hd)))

end Mqtt.Proofs.Ring
