/-
Core A (codec): messages built through the public API (`Type.New()` + setters) —
invariants, wire encoding, round trip.
-/
import Mqtt.Proofs.CodecEncode

set_option linter.unusedSimpArgs false
set_option linter.unusedVariables false

namespace Mqtt.Proofs.Codec

open Mqtt.Model.Codec Mqtt.Iface.Codec Mqtt.Generated
open Mqtt.Spec

theorem forall_u8 (P : UInt8 → Prop) (h : ∀ n : Fin 256, P (UInt8.ofNat n.val)) : ∀ b : UInt8, P b := by
  intro b
  have := h ⟨b.toNat, b.toNat_lt⟩
  simpa using this

theorem setBit_hi (v : Bool) : ∀ b : UInt8, (setBit b 8 v).toNat / 16 = b.toNat / 16 ∧ (setBit b 1 v).toNat / 16 = b.toNat / 16 := by
  cases v <;> (apply forall_u8; decide +kernel)

theorem setQos_hi : ∀ b : UInt8, ((b &&& 249) ||| UInt8.ofNat (0 * 2)).toNat / 16 = b.toNat / 16 ∧
    ((b &&& 249) ||| UInt8.ofNat (1 * 2)).toNat / 16 = b.toNat / 16 ∧
    ((b &&& 249) ||| UInt8.ofNat (2 * 2)).toNat / 16 = b.toNat / 16 := by
  apply forall_u8; decide +kernel

theorem setBit_even (v : Bool) : ∀ b : UInt8, b.toNat % 2 = 0 →
    (setBit b 2 v).toNat % 2 = 0 ∧ (setBit b 4 v).toNat % 2 = 0 ∧ (setBit b 32 v).toNat % 2 = 0 ∧
    (setBit b 64 v).toNat % 2 = 0 ∧ (setBit b 128 v).toNat % 2 = 0 := by
  cases v <;> (apply forall_u8; decide +kernel)

theorem setWq_even : ∀ b : UInt8, b.toNat % 2 = 0 →
    ((b &&& 231) ||| UInt8.ofNat (0 * 8)).toNat % 2 = 0 ∧ ((b &&& 231) ||| UInt8.ofNat (1 * 8)).toNat % 2 = 0 ∧
    ((b &&& 231) ||| UInt8.ofNat (2 * 8)).toNat % 2 = 0 := by
  apply forall_u8; decide +kernel

/-- the part of `Canon` that every message built through the API has -/
def Shape : Msg → Prop
  | .connect h c => h.type = 1 ∧ h.flags = 0 ∧ c.connectFlags.toNat % 2 = 0 ∧ c.keepAlive < 65536
  | .connack h _ _ => h.type = 2 ∧ h.flags = 0
  | .publish h _ _ => h.type = 3
  | .ack h => (h.type = 4 ∨ h.type = 5 ∨ h.type = 6 ∨ h.type = 7 ∨ h.type = 11) ∧ h.flags = defaultFlagsOf h.type
  | .subscribe h ts qs => h.type = 8 ∧ h.flags = 2 ∧ ts.length = qs.length
  | .suback h _ => h.type = 9 ∧ h.flags = 0
  | .unsubscribe h _ => h.type = 10 ∧ h.flags = 2
  | .bare h => (h.type = 12 ∨ h.type = 13 ∨ h.type = 14) ∧ h.flags = 0 ∧ h.remlen = 0

/-- the flags of a CONNECT describe a packet: Will QoS / Will Retain only together with the Will flag -/
def WillOk : Msg → Prop
  | .connect _ c => c.willFlag = false → c.willQos = 0 ∧ c.willRetain = false
  | _ => True

theorem canon_of_shape (m : Msg) (hs : Shape m) (hw : WillOk m) : Canon m := by
  cases m <;> simp only [Shape, WillOk, Canon] at * <;> try exact hs
  · exact ⟨hs.2.1, hs.2.2.1, hw, hs.2.2.2⟩
  · exact ⟨hs.1, hs.2.1⟩

/-- messages built through the public API: `Type.New()` followed by setter calls -/
inductive Built : Msg → Prop where
  | new {t : Nat} {m : Msg} : Msg.new t = some m → Built m
  | set {m : Msg} (s : Setter) : Built m → Built (applySetter m s).1

def FreshInv (m : Msg) : Prop := m.hdr.dirty = true ∧ Shape m

theorem setPacketID_keeps (h : Hdr) (v : Nat) :
    (h.setPacketID v).tf = h.tf ∧ (h.setPacketID v).remlen = h.remlen ∧
    (h.dirty = true → (h.setPacketID v).dirty = true) := by
  unfold Hdr.setPacketID
  split
  · exact ⟨rfl, rfl, id⟩
  · split
    · exact ⟨rfl, rfl, fun _ => rfl⟩
    · split <;> exact ⟨rfl, rfl, id⟩

theorem freshInv_new {t : Nat} {m : Msg} (h : Msg.new t = some m) : FreshInv m := by
  unfold Msg.new at h
  repeat' split at h
  all_goals (try cases h)
  all_goals
    rename_i ht
    first
      | (subst ht; exact ⟨rfl, by unfold Shape; decide⟩)
      | (rcases ht with ht | ht | ht | ht | ht <;> subst ht <;> exact ⟨rfl, by unfold Shape; decide⟩)
      | (rcases ht with ht | ht | ht <;> subst ht <;> exact ⟨rfl, by unfold Shape; decide⟩)

theorem setTf_keeps (h : Hdr) (v : UInt8) : (h.setTf v).tf = v ∧ (h.setTf v).dirty = h.dirty ∧ (h.setTf v).remlen = h.remlen := by
  unfold Hdr.setTf; exact ⟨rfl, rfl, rfl⟩

theorem fresh_connect (h : Hdr) (c' : ConnectF) (s1 : h.type = 1) (s2 : h.flags = 0)
    (hcf : c'.connectFlags.toNat % 2 = 0) (hka : c'.keepAlive < 65536) :
    FreshInv (.connect { h with dirty := true } c') := ⟨rfl, s1, s2, hcf, hka⟩

theorem freshInv_set (m : Msg) (s : Setter) (hi : FreshInv m) : FreshInv (applySetter m s).1 := by
  obtain ⟨hd, hs⟩ := hi
  cases m with
  | connect h c =>
    simp only [Msg.hdr] at hd
    obtain ⟨s1, s2, s3, s4⟩ := hs
    cases s <;> simp only [applySetter]
    all_goals try exact ⟨hd, s1, s2, s3, s4⟩
    all_goals try (split <;> first | exact ⟨hd, s1, s2, s3, s4⟩ | skip)
    all_goals try exact ⟨rfl, s1, s2, s3, s4⟩
    all_goals try first
      | exact fresh_connect h _ s1 s2 (setBit_even _ _ s3).1 s4
      | exact fresh_connect h _ s1 s2 (setBit_even _ _ s3).2.1 s4
      | exact fresh_connect h _ s1 s2 (setBit_even _ _ s3).2.2.1 s4
      | exact fresh_connect h _ s1 s2 (setBit_even _ _ s3).2.2.2.1 s4
      | exact fresh_connect h _ s1 s2 (setBit_even _ _ s3).2.2.2.2 s4
      | exact fresh_connect h _ s1 s2 s3 (Nat.mod_lt _ (by omega))
      | (split <;> first
          | exact fresh_connect h _ s1 s2 (setBit_even _ _ s3).2.1 s4
          | exact fresh_connect h _ s1 s2 s3 s4)
    · rename_i q hq
      simp only [Bool.not_eq_true', Bool.not_eq_false] at hq
      unfold validQos at hq
      simp only [qosAtMostOnce, qosAtLeastOnce, qosExactlyOnce, Bool.or_eq_true, beq_iff_eq] at hq
      have hw := setWq_even c.connectFlags s3
      rcases hq with (hq | hq) | hq <;> rw [hq]
      · exact fresh_connect h _ s1 s2 hw.1 s4
      · exact fresh_connect h _ s1 s2 hw.2.1 s4
      · exact fresh_connect h _ s1 s2 hw.2.2 s4
  | connack h sp rc =>
    simp only [Msg.hdr] at hd
    cases s <;> simp only [applySetter]
    all_goals first
      | exact ⟨hd, hs⟩
      | exact ⟨rfl, hs⟩
      | (refine ⟨(setPacketID_keeps h _).2.2 hd, ?_⟩
         simp only [Msg.setHdr, Msg.hdr, Shape, Hdr.type, Hdr.flags, (setPacketID_keeps h _).1]
         exact hs)
  | ack h =>
    simp only [Msg.hdr] at hd
    cases s <;> simp only [applySetter]
    all_goals first
      | exact ⟨hd, hs⟩
      | (refine ⟨(setPacketID_keeps h _).2.2 hd, ?_⟩
         simp only [Msg.setHdr, Msg.hdr, Shape, Hdr.type, Hdr.flags, (setPacketID_keeps h _).1]
         exact hs)
  | bare h =>
    simp only [Msg.hdr] at hd
    cases s <;> simp only [applySetter]
    all_goals first
      | exact ⟨hd, hs⟩
      | (refine ⟨(setPacketID_keeps h _).2.2 hd, ?_⟩
         simp only [Msg.setHdr, Msg.hdr, Shape, Hdr.type, Hdr.flags, (setPacketID_keeps h _).1, (setPacketID_keeps h _).2.1]
         exact hs)
  | suback h codes =>
    simp only [Msg.hdr] at hd
    cases s <;> simp only [applySetter]
    all_goals first
      | exact ⟨hd, hs⟩
      | (split <;> first | exact ⟨hd, hs⟩ | exact ⟨rfl, hs⟩)
      | (refine ⟨(setPacketID_keeps h _).2.2 hd, ?_⟩
         simp only [Msg.setHdr, Msg.hdr, Shape, Hdr.type, Hdr.flags, (setPacketID_keeps h _).1]
         exact hs)
  | unsubscribe h ts =>
    simp only [Msg.hdr] at hd
    cases s <;> simp only [applySetter]
    all_goals first
      | exact ⟨hd, hs⟩
      | (split <;> first | exact ⟨hd, hs⟩ | exact ⟨rfl, hs⟩)
      | (refine ⟨(setPacketID_keeps h _).2.2 hd, ?_⟩
         simp only [Msg.setHdr, Msg.hdr, Shape, Hdr.type, Hdr.flags, (setPacketID_keeps h _).1]
         exact hs)
  | subscribe h ts qs =>
    simp only [Msg.hdr] at hd
    obtain ⟨s1, s2, s3⟩ := hs
    have hrm : ∀ i, (removeAt ts i).length = (removeAt qs i).length := by
      intro i; unfold removeAt
      simp only [List.length_append, List.length_take, List.length_drop]; omega
    cases s <;> simp only [applySetter]
    all_goals try first
      | exact ⟨hd, s1, s2, s3⟩
      | (refine ⟨(setPacketID_keeps h _).2.2 hd, ?_⟩
         simp only [Msg.setHdr, Msg.hdr, Shape, Hdr.type, Hdr.flags, (setPacketID_keeps h _).1]
         exact ⟨s1, s2, s3⟩)
    · -- AddTopic
      split
      · exact ⟨hd, s1, s2, s3⟩
      · split
        · exact ⟨rfl, s1, s2, by simp only [List.length_set]; exact s3⟩
        · exact ⟨rfl, s1, s2, by simp only [List.length_append, List.length_cons, List.length_nil]; omega⟩
    · -- RemoveTopic
      split
      · exact ⟨rfl, s1, s2, hrm _⟩
      · exact ⟨rfl, s1, s2, s3⟩
  | publish h t p =>
    simp only [Msg.hdr] at hd
    have hs' : h.tf.toNat / 16 = 3 := hs
    cases s <;> simp only [applySetter]
    all_goals try first
      | exact ⟨hd, hs⟩
      | exact ⟨rfl, hs⟩
      | (split <;> first | exact ⟨hd, hs⟩ | exact ⟨rfl, hs⟩)
      | (refine ⟨(setPacketID_keeps h _).2.2 hd, ?_⟩
         simp only [Msg.setHdr, Msg.hdr, Shape, Hdr.type, Hdr.flags, (setPacketID_keeps h _).1]
         exact hs)
    · -- dup
      refine ⟨by simp only [Msg.hdr, (setTf_keeps h _).2.1]; exact hd, ?_⟩
      simp only [Shape, Hdr.type, (setTf_keeps h _).1, (setBit_hi _ h.tf).1]; exact hs'
    · -- retain
      refine ⟨by simp only [Msg.hdr, (setTf_keeps h _).2.1]; exact hd, ?_⟩
      simp only [Shape, Hdr.type, (setTf_keeps h _).1, (setBit_hi _ h.tf).2]; exact hs'
    · -- qos
      rename_i v
      split
      · exact ⟨hd, hs⟩
      · rename_i hv
        have hv3 : v % 256 = 0 ∨ v % 256 = 1 ∨ v % 256 = 2 := by omega
        have hq := setQos_hi h.tf
        have hty : ((h.tf &&& 249) ||| UInt8.ofNat (v % 256 * 2)).toNat / 16 = 3 := by
          rcases hv3 with e | e | e <;> rw [e]
          · rw [hq.1]; exact hs'
          · rw [hq.2.1]; exact hs'
          · rw [hq.2.2]; exact hs'
        simp only []
        split
        · refine ⟨rfl, ?_⟩
          simp only [Shape, Hdr.type, (setTf_keeps h _).1]; exact hty
        · refine ⟨by simp only [Msg.hdr, (setTf_keeps h _).2.1]; exact hd, ?_⟩
          simp only [Shape, Hdr.type, (setTf_keeps h _).1]; exact hty

theorem built_inv {m : Msg} (hb : Built m) : FreshInv m := by
  induction hb with
  | new h => exact freshInv_new h
  | set s _ ih => exact freshInv_set _ s ih

/-- a message built through the API encodes to the reference wire encoding of its fields -/
theorem built_encode_wire {m : Msg} (hb : Built m) (hw : WillOk m) (ctr : UInt64) (e : Encoded)
    (he : encode m ctr m.len = .ok e) : e.out = Wire.encode (absMsg e.msg) := by
  obtain ⟨hd, hs⟩ := built_inv hb
  exact encode_wire m ctr e hd (canon_of_shape m hs hw) he

/-- … and decoding those bytes (with anything behind them) gives back the same fields -/
theorem built_round_trip {m : Msg} (hb : Built m) (hw : WillOk m) (ctr : UInt64) (e : Encoded)
    (he : encode m ctr m.len = .ok e) (hwf : Wire.WF (absMsg e.msg)) (rest : Bytes) :
    ∃ d, decodeNew (absMsg e.msg).type (e.out ++ rest) = .ok d ∧ d.n = e.out.length ∧ absMsg d.msg = absMsg e.msg := by
  rw [built_encode_wire hb hw ctr e he]
  exact accepts_wf _ hwf rest




theorem hdrLen_varint (ml : Nat) (h : ml ≤ 268435455) : 1 + (Wire.varint ml).length = hdrLen ml := by
  unfold hdrLen Wire.varint msglenT1 msglenT2 msglenT3
  repeat' split
  all_goals (simp only [List.length_cons, List.length_nil]; try omega)

/-- `Len()` of a dirty message whose computed remaining length is in range -/
theorem len_dirty (m : Msg) (hd : m.hdr.dirty = true) (hml : ¬ m.msglen > maxRemainingLength)
    (hb : ∀ h, m ≠ .bare h) : m.len = hdrLen m.msglen + m.msglen := by
  cases m <;> simp only [Msg.hdr] at hd <;> simp [Msg.len, Msg.hdr, hd, hml]
  exact absurd rfl (hb _)


theorem encodeConnectMessage_len (c : ConnectF) (avail : Nat) (body name : Bytes)
    (hv : versionName c.version.toNat = some name) (he : encodeConnectMessage c avail = .ok body) :
    body.length = connectMsglen c := by
  unfold encodeConnectMessage at he
  rw [hv] at he
  simp only [Option.getD_some] at he
  cases h1 : writeLPBytes avail name with
  | err => rw [h1] at he; cases he
  | panic => rw [h1] at he; cases he
  | ok o1 =>
    rw [h1] at he
    simp only [bind_ok] at he
    obtain ⟨e1, l1⟩ := writeLP_ok h1
    generalize hA : avail - (o1 ++ [c.version, c.connectFlags] ++ putU16 c.keepAlive).length = A at he
    cases h2 : writeLPBytes A c.clientID with
    | err => rw [h2] at he; cases he
    | panic => rw [h2] at he; cases he
    | ok o2 =>
      rw [h2] at he
      simp only [bind_ok] at he
      obtain ⟨e2, l2⟩ := writeLP_ok h2
      cases h3 : (if c.willFlag = true then
            (writeLPBytes (avail - (o1 ++ [c.version, c.connectFlags] ++ putU16 c.keepAlive ++ o2).length) c.willTopic).bind fun a =>
              (writeLPBytes (avail - (o1 ++ [c.version, c.connectFlags] ++ putU16 c.keepAlive ++ o2).length - a.length) c.willMessage).bind fun b =>
                Outcome.ok (o1 ++ [c.version, c.connectFlags] ++ putU16 c.keepAlive ++ o2 ++ a ++ b)
          else Outcome.ok (o1 ++ [c.version, c.connectFlags] ++ putU16 c.keepAlive ++ o2)) with
      | err => rw [h3] at he; cases he
      | panic => rw [h3] at he; cases he
      | ok out3 =>
        rw [h3] at he
        simp only [bind_ok] at he
        have e3 := willPart_ok _ _ (fun a => avail - (o1 ++ [c.version, c.connectFlags] ++ putU16 c.keepAlive ++ o2).length - a.length) _ _ _ _ h3
        cases h4 : (if c.usernameFlag = true then (writeLPBytes (avail - out3.length) c.username).bind fun a => Outcome.ok (out3 ++ a)
            else Outcome.ok out3) with
        | err => rw [h4] at he; cases he
        | panic => rw [h4] at he; cases he
        | ok out4 =>
          rw [h4] at he
          simp only [bind_ok] at he
          have e4 := optPart_ok _ _ _ _ _ h4
          have e5 := optPart_ok _ _ _ _ _ he
          rw [e5, e4, e3, e1, e2]
          unfold connectMsglen
          rw [hv]
          simp only []
          cases c.willFlag <;> cases c.usernameFlag <;> cases c.passwordFlag <;>
            simp [Wire.str, putU16] <;> omega

/-- `Encode` writes exactly `Len()` bytes (dirty path; the non-dirty path is `encode_clean`) -/
theorem encode_len_dirty (m : Msg) (ctr : UInt64) (e : Encoded) (hd : m.hdr.dirty = true)
    (he : encode m ctr m.len = .ok e) : e.out.length = m.len := by
  cases m with
  | bare h =>
    simp only [Msg.hdr] at hd
    unfold encode at he
    simp only [hd, Bool.not_true, Bool.false_eq_true, if_false] at he
    cases hh : h.encode h.remlen (Msg.bare h).len with
    | err => rw [hh] at he; cases he
    | panic => rw [hh] at he; cases he
    | ok hb =>
      rw [hh] at he; simp only [bind_ok] at he; injection he with he; rw [← he]
      obtain ⟨hb1, hle⟩ := hdr_encode_ok hh
      simp only [Msg.len, hd, Bool.not_true, Bool.false_eq_true, if_false]
      rw [hb1, ← hdrLen_varint _ hle]; simp; omega
  | ack h =>
    simp only [Msg.hdr] at hd
    unfold encode at he
    simp only [hd, Bool.not_true, Bool.false_eq_true, if_false] at he
    split at he
    · cases he
    · split at he
      · cases he
      · rename_i _ hml
        cases hh : h.encode (Msg.ack h).msglen (Msg.ack h).len with
        | err => rw [hh] at he; cases he
        | panic => rw [hh] at he; cases he
        | ok hb =>
          rw [hh] at he; simp only [bind_ok] at he; injection he with he; rw [← he]
          obtain ⟨hb1, hle⟩ := hdr_encode_ok hh
          rw [len_dirty (Msg.ack h) hd hml (by intro h'; simp)]
          simp only []
          rw [hb1, pidOrZero_eq, ← hdrLen_varint _ hle]
          simp [Wire.u16, Msg.msglen]; omega
  | connack h sp rc =>
    simp only [Msg.hdr] at hd
    unfold encode at he
    simp only [hd, Bool.not_true, Bool.false_eq_true, if_false] at he
    split at he
    · cases he
    · split at he
      · cases he
      · rename_i _ hml
        cases hh : h.encode (Msg.connack h sp rc).msglen (Msg.connack h sp rc).len with
        | err => rw [hh] at he; cases he
        | panic => rw [hh] at he; cases he
        | ok hb =>
          rw [hh] at he; simp only [bind_ok] at he
          split at he
          · cases he
          · injection he with he; rw [← he]
            obtain ⟨hb1, hle⟩ := hdr_encode_ok hh
            rw [len_dirty (Msg.connack h sp rc) hd hml (by intro h'; simp)]
            simp only []
            rw [hb1, ← hdrLen_varint _ hle]
            simp [Msg.msglen]; omega
  | suback h codes =>
    simp only [Msg.hdr] at hd
    unfold encode at he
    simp only [hd, Bool.not_true, Bool.false_eq_true, if_false] at he
    split at he
    · cases he
    · split at he
      · cases he
      · split at he
        · cases he
        · rename_i _ _ hml
          cases hh : h.encode (Msg.suback h codes).msglen (Msg.suback h codes).len with
          | err => rw [hh] at he; cases he
          | panic => rw [hh] at he; cases he
          | ok hb =>
            rw [hh] at he; simp only [bind_ok] at he; injection he with he; rw [← he]
            obtain ⟨hb1, hle⟩ := hdr_encode_ok hh
            rw [len_dirty (Msg.suback h codes) hd hml (by intro h'; simp)]
            simp only []
            rw [hb1, pidOrZero_eq, ← hdrLen_varint _ hle]
            simp [Wire.u16, Msg.msglen]; omega
  | publish h topic payload =>
    simp only [Msg.hdr] at hd
    unfold encode at he
    simp only [hd, Bool.not_true, Bool.false_eq_true, if_false] at he
    split at he
    · cases he
    · split at he
      · cases he
      · rename_i _ hml
        split at he
        · cases he
        · cases hh : h.encode (Msg.publish h topic payload).msglen (Msg.publish h topic payload).len with
          | err => rw [hh] at he; cases he
          | panic => rw [hh] at he; cases he
          | ok hb =>
            rw [hh] at he; simp only [bind_ok] at he
            obtain ⟨hb1, hle⟩ := hdr_encode_ok hh
            cases hw : writeLPBytes ((Msg.publish h topic payload).len - hb.length) topic with
            | err => rw [hw] at he; cases he
            | panic => rw [hw] at he; cases he
            | ok tp =>
              rw [hw] at he; simp only [bind_ok] at he
              obtain ⟨htp, _⟩ := writeLP_ok hw
              rw [len_dirty (Msg.publish h topic payload) hd hml (by intro h'; simp)]
              split at he
              · rename_i hq
                injection he with he; rw [← he]
                simp only []
                have hwa := withAutoId_pid h ctr
                unfold withAutoId at hwa
                rw [hb1, htp, hwa.1, ← hdrLen_varint _ hle]
                simp [Wire.u16, Wire.str, Msg.msglen, hq]; omega
              · rename_i hq
                injection he with he; rw [← he]
                simp only []
                rw [hb1, htp, ← hdrLen_varint _ hle]
                simp [Wire.str, Msg.msglen, hq]; omega
  | subscribe h ts qs =>
    simp only [Msg.hdr] at hd
    unfold encode at he
    simp only [hd, Bool.not_true, Bool.false_eq_true, if_false] at he
    split at he
    · cases he
    · split at he
      · cases he
      · rename_i _ hml
        cases hh : h.encode (Msg.subscribe h ts qs).msglen (Msg.subscribe h ts qs).len with
        | err => rw [hh] at he; cases he
        | panic => rw [hh] at he; cases he
        | ok hb =>
          rw [hh] at he; simp only [bind_ok] at he
          obtain ⟨hb1, hle⟩ := hdr_encode_ok hh
          have hwa := withAutoId_pid h ctr
          unfold withAutoId at hwa
          generalize hR : (if h.packetID = 0 then (h.setPacketID (nextPacketID ctr).fst, (nextPacketID ctr).snd) else (h, ctr)) = R at *
          cases hw : writeTopicsQos ((Msg.subscribe h ts qs).len - hb.length - R.1.pid.length) ts qs with
          | err => rw [hw] at he; cases he
          | panic => rw [hw] at he; cases he
          | ok body =>
            rw [hw] at he; simp only [bind_ok] at he; injection he with he; rw [← he]
            obtain ⟨_, hblen⟩ := writeTopicsQos_ok _ _ _ _ hw
            rw [len_dirty (Msg.subscribe h ts qs) hd hml (by intro h'; simp)]
            simp only []
            rw [hb1, hwa.1, ← hdrLen_varint _ hle]
            simp only [List.length_append, List.length_cons, hblen, Msg.msglen]
            simp [Wire.u16]; omega
  | unsubscribe h ts =>
    simp only [Msg.hdr] at hd
    unfold encode at he
    simp only [hd, Bool.not_true, Bool.false_eq_true, if_false] at he
    split at he
    · cases he
    · split at he
      · cases he
      · rename_i _ hml
        cases hh : h.encode (Msg.unsubscribe h ts).msglen (Msg.unsubscribe h ts).len with
        | err => rw [hh] at he; cases he
        | panic => rw [hh] at he; cases he
        | ok hb =>
          rw [hh] at he; simp only [bind_ok] at he
          obtain ⟨hb1, hle⟩ := hdr_encode_ok hh
          have hwa := withAutoId_pid h ctr
          unfold withAutoId at hwa
          generalize hR : (if h.packetID = 0 then (h.setPacketID (nextPacketID ctr).fst, (nextPacketID ctr).snd) else (h, ctr)) = R at *
          cases hw : writeTopics ((Msg.unsubscribe h ts).len - hb.length - R.1.pid.length) ts with
          | err => rw [hw] at he; cases he
          | panic => rw [hw] at he; cases he
          | ok body =>
            rw [hw] at he; simp only [bind_ok] at he; injection he with he; rw [← he]
            obtain ⟨_, hblen⟩ := writeTopics_ok _ _ _ hw
            rw [len_dirty (Msg.unsubscribe h ts) hd hml (by intro h'; simp)]
            simp only []
            rw [hb1, hwa.1, ← hdrLen_varint _ hle]
            simp only [List.length_append, List.length_cons, hblen, Msg.msglen]
            simp [Wire.u16]; omega
  | connect h c =>
    simp only [Msg.hdr] at hd
    unfold encode at he
    simp only [hd, Bool.not_true, Bool.false_eq_true, if_false] at he
    split at he
    · cases he
    · split at he
      · cases he
      · rename_i _ hvn
        split at he
        · cases he
        · split at he
          · cases he
          · rename_i _ hml
            cases hh : h.encode (Msg.connect h c).msglen (Msg.connect h c).len with
            | err => rw [hh] at he; cases he
            | panic => rw [hh] at he; cases he
            | ok hb =>
              rw [hh] at he; simp only [bind_ok] at he
              obtain ⟨hb1, hle⟩ := hdr_encode_ok hh
              cases hm : encodeConnectMessage c ((Msg.connect h c).len - hb.length) with
              | err => rw [hm] at he; cases he
              | panic => rw [hm] at he; cases he
              | ok body =>
                rw [hm] at he; simp only [bind_ok] at he; injection he with he; rw [← he]
                cases hvv : versionName c.version.toNat with
                | none => rw [hvv] at hvn; simp at hvn
                | some name =>
                  have hbl := encodeConnectMessage_len c _ body name hvv hm
                  rw [len_dirty (Msg.connect h c) hd hml (by intro h'; simp)]
                  simp only []
                  rw [hb1, ← hdrLen_varint _ hle]
                  simp only [List.length_append, List.length_cons, hbl, Msg.msglen]
                  omega

/-- `Encode` into a buffer of `Len()` bytes writes exactly `Len()` bytes, for every message object -/
theorem encode_len_all (m : Msg) (ctr : UInt64) (e : Encoded) (he : encode m ctr m.len = .ok e) :
    e.out.length = m.len := by
  cases hd : m.hdr.dirty with
  | true => exact encode_len_dirty m ctr e hd he
  | false =>
    obtain ⟨h1, h2⟩ := encode_clean m ctr hd
    rw [h2] at he
    injection he with he
    rw [← he, h1]



theorem hdr_encode_succeeds (h : Hdr) (ml avail : Nat) (hml : ml ≤ 268435455) (hv : validType h.type = true)
    (ha : hdrLen ml ≤ avail) : h.encode ml avail = .ok (h.tf :: Wire.varint ml) := by
  unfold Hdr.encode
  rw [if_neg (by omega), if_neg (by simp only [maxRemainingLength]; omega), if_neg (by simp [hv])]
  simp only []
  rw [putUvarint_eq_varint ml (by omega)]
  have := hdrLen_varint ml hml
  rw [if_neg (by omega)]

theorem writeLP_succeeds (avail : Nat) (b : Bytes) (hb : b.length ≤ 65535) (ha : 2 + b.length ≤ avail) :
    writeLPBytes avail b = .ok (Wire.str b) := by
  unfold writeLPBytes
  rw [if_neg (by simp only [maxLPString]; omega), if_neg (by omega)]
  rfl

/-- the message after `Encode` has assigned an identifier where one is required and missing -/
def assign (m : Msg) (ctr : UInt64) : Msg :=
  match m with
  | .publish h t p => if pubQoS h ≠ 0 then .publish (withAutoId h ctr).1 t p else m
  | .subscribe h ts qs => .subscribe (withAutoId h ctr).1 ts qs
  | .unsubscribe h ts => .unsubscribe (withAutoId h ctr).1 ts
  | _ => m

theorem validType_of (t : Nat) (h : 1 ≤ t ∧ t ≤ 14) : validType t = true := by
  unfold validType typeValidAbove typeValidBelow
  simp only [Bool.and_eq_true, decide_eq_true_eq]; omega

theorem succeeds_ack (h : Hdr) (ctr : UInt64) (hd : h.dirty = true) (hs : Shape (.ack h)) :
    ∃ e, encode (.ack h) ctr (Msg.ack h).len = .ok e ∧ e.msg = .ack h := by
  obtain ⟨ht, _⟩ := hs
  have hml : (Msg.ack h).msglen = 2 := rfl
  have hlen : (Msg.ack h).len = hdrLen 2 + 2 := by
    rw [len_dirty (Msg.ack h) hd (by rw [hml]; simp [maxRemainingLength]) (by intro h'; simp), hml]
  unfold encode
  simp only [hd, Bool.not_true, Bool.false_eq_true, if_false]
  rw [hml, hlen, if_neg (by omega), if_neg (by simp [maxRemainingLength])]
  rw [hdr_encode_succeeds h 2 _ (by omega) (validType_of _ (by omega)) (by omega)]
  exact ⟨_, rfl, rfl⟩


theorem succeeds_bare (h : Hdr) (ctr : UInt64) (hd : h.dirty = true) (hs : Shape (.bare h)) :
    ∃ e, encode (.bare h) ctr (Msg.bare h).len = .ok e ∧ e.msg = .bare h := by
  obtain ⟨ht, _, hr⟩ := hs
  have hlen : (Msg.bare h).len = hdrLen 0 := by
    simp only [Msg.len, hd, Bool.not_true, Bool.false_eq_true, if_false, hr]
  unfold encode
  simp only [hd, Bool.not_true, Bool.false_eq_true, if_false]
  rw [hr, hlen, hdr_encode_succeeds h 0 _ (by omega) (validType_of _ (by omega)) (by omega)]
  exact ⟨_, rfl, rfl⟩

theorem succeeds_connack (h : Hdr) (sp : Bool) (rc : UInt8) (ctr : UInt64) (hd : h.dirty = true)
    (hs : Shape (.connack h sp rc)) (hwf : Wire.WF (absMsg (.connack h sp rc))) :
    ∃ e, encode (.connack h sp rc) ctr (Msg.connack h sp rc).len = .ok e ∧ e.msg = .connack h sp rc := by
  obtain ⟨ht, _⟩ := hs
  have hrc : rc.toNat ≤ 5 := by
    unfold Wire.WF Wire.wf absMsg at hwf
    exact of_decide_eq_true hwf
  have hml : (Msg.connack h sp rc).msglen = 2 := rfl
  have hlen : (Msg.connack h sp rc).len = hdrLen 2 + 2 := by
    rw [len_dirty (Msg.connack h sp rc) hd (by rw [hml]; simp [maxRemainingLength]) (by intro h'; simp), hml]
  unfold encode
  simp only [hd, Bool.not_true, Bool.false_eq_true, if_false]
  rw [hml, hlen, if_neg (by omega), if_neg (by simp [maxRemainingLength])]
  rw [hdr_encode_succeeds h 2 _ (by omega) (validType_of _ (by omega)) (by omega)]
  simp only [bind_ok]
  rw [if_neg (by simp only [connackMaxCode]; omega)]
  exact ⟨_, rfl, rfl⟩

theorem succeeds_suback (h : Hdr) (codes : Bytes) (ctr : UInt64) (hd : h.dirty = true)
    (hs : Shape (.suback h codes)) (hwf : Wire.WF (absMsg (.suback h codes))) :
    ∃ e, encode (.suback h codes) ctr (Msg.suback h codes).len = .ok e ∧ e.msg = .suback h codes := by
  obtain ⟨ht, _⟩ := hs
  unfold Wire.WF Wire.wf absMsg at hwf
  simp only [Bool.and_eq_true, decide_eq_true_eq, Wire.maxRemaining] at hwf
  obtain ⟨⟨_, hcodes⟩, hl⟩ := hwf
  have hl := of_decide_eq_true hl
  have hall : (codes.all fun c => c = 0 || c = 1 || c = 2 || c = 0x80) = true := by
    rw [List.all_eq_true] at hcodes ⊢
    intro c hc
    have := hcodes c hc
    simpa [Wire.returnCodeOk] using this
  have hml : (Msg.suback h codes).msglen = 2 + codes.length := rfl
  have hlen : (Msg.suback h codes).len = hdrLen (2 + codes.length) + (2 + codes.length) := by
    rw [len_dirty (Msg.suback h codes) hd (by rw [hml]; simp only [maxRemainingLength]; omega) (by intro h'; simp), hml]
  unfold encode
  simp only [hd, Bool.not_true, Bool.false_eq_true, if_false]
  rw [if_neg (by simp [hall])]
  rw [hml, hlen, if_neg (by omega), if_neg (by simp only [maxRemainingLength]; omega)]
  rw [hdr_encode_succeeds h _ _ (by omega) (validType_of _ (by omega)) (by omega)]
  exact ⟨_, rfl, rfl⟩


theorem pubQoS_assign (h : Hdr) (ctr : UInt64) : pubQoS (withAutoId h ctr).1 = pubQoS h := by
  unfold pubQoS Hdr.flags; rw [(withAutoId_pid h ctr).2]

theorem assign_publish (h : Hdr) (t p : Bytes) (ctr : UInt64) :
    assign (.publish h t p) ctr = if pubQoS h ≠ 0 then .publish (withAutoId h ctr).1 t p else .publish h t p := rfl

theorem succeeds_publish (h : Hdr) (topic payload : Bytes) (ctr : UInt64) (hd : h.dirty = true)
    (hs : Shape (.publish h topic payload)) (hwf : Wire.WF (absMsg (assign (.publish h topic payload) ctr))) :
    ∃ e, encode (.publish h topic payload) ctr (Msg.publish h topic payload).len = .ok e ∧
      e.msg = assign (.publish h topic payload) ctr := by
  have ht : h.type = 3 := hs
  have hq4 : pubQoS h < 4 := by unfold pubQoS; omega
  -- what WF gives, in both cases of the QoS
  have hfacts : topic.length ≤ 65535 ∧ topic.length ≠ 0 ∧
      2 + topic.length + payload.length + (if pubQoS h ≠ 0 then 2 else 0) ≤ 268435455 := by
    rw [assign_publish] at hwf
    by_cases hq : pubQoS h ≠ 0
    · rw [if_pos hq] at hwf
      simp only [Wire.WF, Wire.wf, absMsg, pubQoS_assign, Bool.and_eq_true, decide_eq_true_eq, Wire.maxRemaining, Wire.strOk] at hwf
      obtain ⟨⟨⟨⟨_, hts⟩, htn⟩, _⟩, hl⟩ := hwf
      have hl := of_decide_eq_true hl
      have hne : ¬ (UInt8.ofNat (pubQoS h) = 0) := by
        intro e0
        have := congrArg UInt8.toNat e0
        simp at this; omega
      rw [if_neg hne] at hl
      refine ⟨hts, ?_, by rw [if_pos hq]; omega⟩
      intro e0
      have : topic = [] := List.eq_nil_of_length_eq_zero e0
      rw [this] at htn; simp [Wire.topicNameOk] at htn
    · rw [if_neg hq] at hwf
      simp only [Decidable.not_not] at hq
      simp only [Wire.WF, Wire.wf, absMsg, Bool.and_eq_true, decide_eq_true_eq, Wire.maxRemaining, Wire.strOk] at hwf
      obtain ⟨⟨⟨⟨_, hts⟩, htn⟩, _⟩, hl⟩ := hwf
      have hl := of_decide_eq_true hl
      have he0 : (UInt8.ofNat (pubQoS h) = 0) := by rw [hq]; rfl
      rw [if_pos he0] at hl
      refine ⟨hts, ?_, by rw [if_neg (by omega)]; omega⟩
      intro e0
      have : topic = [] := List.eq_nil_of_length_eq_zero e0
      rw [this] at htn; simp [Wire.topicNameOk] at htn
  obtain ⟨hts, htne, hbound⟩ := hfacts
  have hml : (Msg.publish h topic payload).msglen = 2 + topic.length + payload.length + (if pubQoS h ≠ 0 then 2 else 0) := rfl
  generalize hML : 2 + topic.length + payload.length + (if pubQoS h ≠ 0 then 2 else 0) = ML at *
  have hML2 : 2 + topic.length ≤ ML := by rw [← hML]; omega
  have hlen : (Msg.publish h topic payload).len = hdrLen ML + ML := by
    rw [len_dirty (Msg.publish h topic payload) hd (by rw [hml]; simp only [maxRemainingLength]; omega) (by intro h'; simp), hml]
  unfold encode
  simp only [hd, Bool.not_true, Bool.false_eq_true, if_false]
  rw [if_neg htne, hml, hlen, if_neg (by simp only [maxRemainingLength]; omega), if_neg (by omega)]
  rw [hdr_encode_succeeds h _ _ (by omega) (validType_of _ (by omega)) (by omega)]
  simp only [bind_ok]
  have hvl := hdrLen_varint ML (by omega)
  rw [writeLP_succeeds _ topic hts (by simp only [List.length_cons]; omega)]
  simp only [bind_ok]
  rw [assign_publish]
  unfold withAutoId
  by_cases hq : pubQoS h ≠ 0
  · rw [if_pos hq, if_pos hq]
    exact ⟨_, rfl, rfl⟩
  · rw [if_neg hq, if_neg hq]
    exact ⟨_, rfl, rfl⟩


theorem encFilters_zip_length : ∀ (ts : List Bytes) (qs : List UInt8), ts.length = qs.length →
    (encFilters (ts.zip qs)).length = (ts.map (fun t => 2 + t.length + 1)).sum := by
  intro ts
  induction ts with
  | nil => intro qs _; simp [encFilters]
  | cons t ts ih =>
    intro qs hl
    cases qs with
    | nil => simp at hl
    | cons q qs =>
      simp only [List.zip_cons_cons, encFilters_cons, List.map_cons, List.sum_cons, List.length_append,
        List.length_cons]
      rw [ih qs (by simpa using hl)]
      simp [Wire.str]; omega

theorem writeTopicsQos_succeeds : ∀ (ts : List Bytes) (qs : List UInt8) (avail : Nat), ts.length = qs.length →
    (∀ f ∈ ts.zip qs, f.1.length ≤ 65535) → (ts.map (fun t => 2 + t.length + 1)).sum ≤ avail →
    writeTopicsQos avail ts qs = .ok (encFilters (ts.zip qs)) := by
  intro ts
  induction ts with
  | nil => intro qs avail _ _ _; simp [writeTopicsQos, encFilters]
  | cons t ts ih =>
    intro qs avail hl hs ha
    cases qs with
    | nil => simp at hl
    | cons q qs =>
      simp only [List.map_cons, List.sum_cons] at ha
      unfold writeTopicsQos
      rw [writeLP_succeeds avail t (hs (t, q) (by simp)) (by omega)]
      simp only [bind_ok]
      rw [ih qs _ (by simpa using hl) (fun f hf => hs f (by simp [hf])) (by simp [Wire.str]; omega)]
      simp only [bind_ok, List.zip_cons_cons, encFilters_cons]
      simp

theorem assign_subscribe (h : Hdr) (ts : List Bytes) (qs : List UInt8) (ctr : UInt64) :
    assign (.subscribe h ts qs) ctr = .subscribe (withAutoId h ctr).1 ts qs := rfl

theorem succeeds_subscribe (h : Hdr) (ts : List Bytes) (qs : List UInt8) (ctr : UInt64) (hd : h.dirty = true)
    (hs : Shape (.subscribe h ts qs)) (hwf : Wire.WF (absMsg (assign (.subscribe h ts qs) ctr))) :
    ∃ e, encode (.subscribe h ts qs) ctr (Msg.subscribe h ts qs).len = .ok e ∧
      e.msg = assign (.subscribe h ts qs) ctr := by
  obtain ⟨ht, _, hlq⟩ := hs
  rw [assign_subscribe] at hwf ⊢
  simp only [Wire.WF, Wire.wf, absMsg, Bool.and_eq_true, decide_eq_true_eq, Wire.maxRemaining, Wire.strOk] at hwf
  obtain ⟨⟨⟨_, _⟩, hall⟩, hl⟩ := hwf
  have hl := of_decide_eq_true hl
  have hstr : ∀ f ∈ ts.zip qs, f.1.length ≤ 65535 := by
    intro f hf
    rw [List.all_eq_true] at hall
    have := hall f hf
    simp only [Bool.and_eq_true, decide_eq_true_eq] at this
    exact this.1
  have hbody : (Wire.Packet.subscribe (u16of (withAutoId h ctr).1.pid) (ts.zip qs)).body.length =
      2 + (ts.map (fun t => 2 + t.length + 1)).sum := by
    have : (Wire.Packet.subscribe (u16of (withAutoId h ctr).1.pid) (ts.zip qs)).body =
        Wire.u16 (u16of (withAutoId h ctr).1.pid) ++ encFilters (ts.zip qs) := rfl
    rw [this, List.length_append, encFilters_zip_length ts qs hlq]; simp [Wire.u16]
  rw [hbody] at hl
  have hml : (Msg.subscribe h ts qs).msglen = 2 + (ts.map (fun t => 2 + t.length + 1)).sum := rfl
  generalize hS : (ts.map (fun t => 2 + t.length + 1)).sum = S at *
  have hlen : (Msg.subscribe h ts qs).len = hdrLen (2 + S) + (2 + S) := by
    rw [len_dirty (Msg.subscribe h ts qs) hd (by rw [hml]; simp only [maxRemainingLength]; omega) (by intro h'; simp), hml]
  unfold encode
  simp only [hd, Bool.not_true, Bool.false_eq_true, if_false]
  rw [hml, hlen, if_neg (by omega), if_neg (by simp only [maxRemainingLength]; omega)]
  rw [hdr_encode_succeeds h _ _ (by omega) (validType_of _ (by omega)) (by omega)]
  simp only [bind_ok]
  have hvl := hdrLen_varint (2 + S) (by omega)
  have hwa := withAutoId_pid h ctr
  unfold withAutoId at hwa ⊢
  have hpl : (if h.packetID = 0 then (h.setPacketID (nextPacketID ctr).fst, (nextPacketID ctr).snd) else (h, ctr)).1.pid.length = 2 := by
    rw [hwa.1]; rfl
  rw [writeTopicsQos_succeeds ts qs _ hlq hstr (by rw [hS, hpl]; simp only [List.length_cons]; omega)]
  exact ⟨_, rfl, rfl⟩


theorem encTopics_length : ∀ (ts : List Bytes), (encTopics ts).length = (ts.map (fun t => 2 + t.length)).sum := by
  intro ts
  induction ts with
  | nil => simp [encTopics]
  | cons t ts ih =>
    simp only [encTopics_cons, List.map_cons, List.sum_cons, List.length_append]
    rw [ih]; simp [Wire.str]; omega

theorem writeTopics_succeeds : ∀ (ts : List Bytes) (avail : Nat),
    (∀ f ∈ ts, f.length ≤ 65535) → (ts.map (fun t => 2 + t.length)).sum ≤ avail →
    writeTopics avail ts = .ok (encTopics ts) := by
  intro ts
  induction ts with
  | nil => intro avail _ _; simp [writeTopics, encTopics]
  | cons t ts ih =>
    intro avail hs ha
    simp only [List.map_cons, List.sum_cons] at ha
    unfold writeTopics
    rw [writeLP_succeeds avail t (hs t (by simp)) (by omega)]
    simp only [bind_ok]
    rw [ih _ (fun f hf => hs f (by simp [hf])) (by simp [Wire.str]; omega)]
    simp only [bind_ok, encTopics_cons]

theorem assign_unsubscribe (h : Hdr) (ts : List Bytes) (ctr : UInt64) :
    assign (.unsubscribe h ts) ctr = .unsubscribe (withAutoId h ctr).1 ts := rfl

theorem succeeds_unsubscribe (h : Hdr) (ts : List Bytes) (ctr : UInt64) (hd : h.dirty = true)
    (hs : Shape (.unsubscribe h ts)) (hwf : Wire.WF (absMsg (assign (.unsubscribe h ts) ctr))) :
    ∃ e, encode (.unsubscribe h ts) ctr (Msg.unsubscribe h ts).len = .ok e ∧
      e.msg = assign (.unsubscribe h ts) ctr := by
  obtain ⟨ht, _⟩ := hs
  rw [assign_unsubscribe] at hwf ⊢
  simp only [Wire.WF, Wire.wf, absMsg, Bool.and_eq_true, decide_eq_true_eq, Wire.maxRemaining] at hwf
  obtain ⟨⟨⟨_, _⟩, hall⟩, hl⟩ := hwf
  have hl := of_decide_eq_true hl
  have hstr : ∀ f ∈ ts, f.length ≤ 65535 := by
    intro f hf
    rw [List.all_eq_true] at hall
    have := hall f hf
    simpa [Wire.strOk] using this
  have hbody : (Wire.Packet.unsubscribe (u16of (withAutoId h ctr).1.pid) ts).body.length =
      2 + (ts.map (fun t => 2 + t.length)).sum := by
    have : (Wire.Packet.unsubscribe (u16of (withAutoId h ctr).1.pid) ts).body =
        Wire.u16 (u16of (withAutoId h ctr).1.pid) ++ encTopics ts := rfl
    rw [this, List.length_append, encTopics_length]; simp [Wire.u16]
  rw [hbody] at hl
  have hml : (Msg.unsubscribe h ts).msglen = 2 + (ts.map (fun t => 2 + t.length)).sum := rfl
  generalize hS : (ts.map (fun t => 2 + t.length)).sum = S at *
  have hlen : (Msg.unsubscribe h ts).len = hdrLen (2 + S) + (2 + S) := by
    rw [len_dirty (Msg.unsubscribe h ts) hd (by rw [hml]; simp only [maxRemainingLength]; omega) (by intro h'; simp), hml]
  unfold encode
  simp only [hd, Bool.not_true, Bool.false_eq_true, if_false]
  rw [hml, hlen, if_neg (by omega), if_neg (by simp only [maxRemainingLength]; omega)]
  rw [hdr_encode_succeeds h _ _ (by omega) (validType_of _ (by omega)) (by omega)]
  simp only [bind_ok]
  have hvl := hdrLen_varint (2 + S) (by omega)
  have hwa := withAutoId_pid h ctr
  unfold withAutoId at hwa ⊢
  have hpl : (if h.packetID = 0 then (h.setPacketID (nextPacketID ctr).fst, (nextPacketID ctr).snd) else (h, ctr)).1.pid.length = 2 := by
    rw [hwa.1]; rfl
  rw [writeTopics_succeeds ts _ hstr (by rw [hS, hpl]; simp only [List.length_cons]; omega)]
  exact ⟨_, rfl, rfl⟩


theorem encodeConnectMessage_succeeds (c : ConnectF) (name : Bytes) (avail : Nat)
    (hv : versionName c.version.toNat = some name) (hn : name.length ≤ 65535) (hcid : c.clientID.length ≤ 65535)
    (hw : c.willFlag = true → c.willTopic.length ≤ 65535 ∧ c.willMessage.length ≤ 65535)
    (hu : c.usernameFlag = true → c.username.length ≤ 65535)
    (hp : c.passwordFlag = true → c.password.length ≤ 65535)
    (ha : connectMsglen c ≤ avail) :
    ∃ body, encodeConnectMessage c avail = .ok body := by
  unfold connectMsglen at ha
  rw [hv] at ha
  simp only [] at ha
  unfold encodeConnectMessage
  rw [hv]
  simp only [Option.getD_some]
  rw [writeLP_succeeds avail name hn (by omega)]
  simp only [bind_ok]
  have l1 : (Wire.str name ++ [c.version, c.connectFlags] ++ putU16 c.keepAlive).length = 2 + name.length + 4 := by
    simp [Wire.str, putU16]; omega
  rw [l1]
  rw [writeLP_succeeds _ c.clientID hcid (by omega)]
  simp only [bind_ok]
  have l2 : (Wire.str name ++ [c.version, c.connectFlags] ++ putU16 c.keepAlive ++ Wire.str c.clientID).length =
      2 + name.length + 4 + (2 + c.clientID.length) := by
    simp [Wire.str, putU16]; omega
  cases hwf : c.willFlag with
  | false =>
    simp only [hwf, Bool.false_eq_true, if_false, bind_ok] at ha ⊢
    cases huf : c.usernameFlag with
    | false =>
      simp only [huf, Bool.false_eq_true, if_false, bind_ok] at ha ⊢
      cases hpf : c.passwordFlag with
      | false => simp only [Bool.false_eq_true, if_false]; exact ⟨_, rfl⟩
      | true =>
        simp only [hpf, if_true] at ha ⊢
        rw [l2, writeLP_succeeds _ c.password (hp hpf) (by omega)]
        exact ⟨_, rfl⟩
    | true =>
      simp only [huf, if_true] at ha ⊢
      rw [l2, writeLP_succeeds _ c.username (hu huf) (by omega)]
      simp only [bind_ok]
      cases hpf : c.passwordFlag with
      | false => simp only [Bool.false_eq_true, if_false]; exact ⟨_, rfl⟩
      | true =>
        simp only [hpf, if_true] at ha ⊢
        rw [writeLP_succeeds _ c.password (hp hpf) (by simp only [List.length_append, l2]; simp [Wire.str]; omega)]
        exact ⟨_, rfl⟩
  | true =>
    simp only [hwf, if_true] at ha ⊢
    obtain ⟨hw1, hw2⟩ := hw hwf
    rw [l2, writeLP_succeeds _ c.willTopic hw1 (by omega)]
    simp only [bind_ok]
    rw [writeLP_succeeds _ c.willMessage hw2 (by simp [Wire.str]; omega)]
    simp only [bind_ok]
    have l3 : (Wire.str name ++ [c.version, c.connectFlags] ++ putU16 c.keepAlive ++ Wire.str c.clientID ++
        Wire.str c.willTopic ++ Wire.str c.willMessage).length =
        2 + name.length + 4 + (2 + c.clientID.length) + (2 + c.willTopic.length) + (2 + c.willMessage.length) := by
      simp [Wire.str, putU16]; omega
    cases huf : c.usernameFlag with
    | false =>
      simp only [huf, Bool.false_eq_true, if_false, bind_ok] at ha ⊢
      cases hpf : c.passwordFlag with
      | false => simp only [Bool.false_eq_true, if_false]; exact ⟨_, rfl⟩
      | true =>
        simp only [hpf, if_true] at ha ⊢
        rw [l3, writeLP_succeeds _ c.password (hp hpf) (by omega)]
        exact ⟨_, rfl⟩
    | true =>
      simp only [huf, if_true] at ha ⊢
      rw [l3, writeLP_succeeds _ c.username (hu huf) (by omega)]
      simp only [bind_ok]
      cases hpf : c.passwordFlag with
      | false => simp only [Bool.false_eq_true, if_false]; exact ⟨_, rfl⟩
      | true =>
        simp only [hpf, if_true] at ha ⊢
        rw [writeLP_succeeds _ c.password (hp hpf) (by simp only [List.length_append, l3]; simp [Wire.str]; omega)]
        exact ⟨_, rfl⟩


theorem succeeds_connect (h : Hdr) (c : ConnectF) (ctr : UInt64) (hd : h.dirty = true)
    (hs : Shape (.connect h c)) (hwf : Wire.WF (absMsg (.connect h c))) :
    ∃ e, encode (.connect h c) ctr (Msg.connect h c).len = .ok e ∧ e.msg = .connect h c := by
  obtain ⟨ht, _, _, _⟩ := hs
  rw [absMsg_connect] at hwf
  unfold Wire.WF Wire.wf at hwf
  simp only [Bool.and_eq_true, Bool.or_eq_true, decide_eq_true_eq, absConnect] at hwf
  obtain ⟨⟨⟨⟨hlev, hcid⟩, hwill⟩, hun⟩, hpw⟩ := hwf
  obtain ⟨hc1, _, _⟩ := validClientID_of_ok _ _ hcid
  obtain ⟨name, hv, hnl⟩ : ∃ name, versionName c.version.toNat = some name ∧ name.length ≤ 6 := by
    rcases hlev with e | e
    · have e := of_decide_eq_true e; rw [e]; exact ⟨Wire.nameMQIsdp, by decide, by decide⟩
    · have e := of_decide_eq_true e; rw [e]; exact ⟨Wire.nameMQTT, by decide, by decide⟩
  have hw : c.willFlag = true → c.willTopic.length ≤ 65535 ∧ c.willMessage.length ≤ 65535 := by
    intro hf
    rw [if_pos hf] at hwill
    simp only [Bool.and_eq_true, decide_eq_true_eq, Wire.strOk] at hwill
    exact ⟨hwill.1.1, hwill.1.2⟩
  have hu : c.usernameFlag = true → c.username.length ≤ 65535 := by
    intro hf
    rw [if_pos hf] at hun
    simpa [Wire.strOk] using hun
  have hp : c.passwordFlag = true → c.password.length ≤ 65535 := by
    intro hf
    rw [if_pos hf] at hpw
    simp only [Bool.and_eq_true, decide_eq_true_eq, Wire.strOk] at hpw
    exact hpw.1
  have hmlb : connectMsglen c ≤ 268435455 := by
    unfold connectMsglen
    rw [hv]
    simp only []
    cases hwf : c.willFlag <;> cases huf : c.usernameFlag <;> cases hpf : c.passwordFlag <;>
      simp only [Bool.false_eq_true, if_false, if_true] <;>
      (first | (have := hw hwf) | skip) <;> (first | (have := hu huf) | skip) <;> (first | (have := hp hpf) | skip) <;> omega
  have hml : (Msg.connect h c).msglen = connectMsglen c := rfl
  have hlen : (Msg.connect h c).len = hdrLen (connectMsglen c) + connectMsglen c := by
    rw [len_dirty (Msg.connect h c) hd (by rw [hml]; simp only [maxRemainingLength]; omega) (by intro h'; simp), hml]
  unfold encode
  simp only [hd, Bool.not_true, Bool.false_eq_true, if_false]
  rw [if_neg (by simp only [tCONNECT]; omega), if_neg (by rw [hv]; simp)]
  rw [hml, hlen, if_neg (by omega), if_neg (by simp only [maxRemainingLength]; omega)]
  rw [hdr_encode_succeeds h _ _ hmlb (validType_of _ (by omega)) (by omega)]
  simp only [bind_ok]
  have hvl := hdrLen_varint (connectMsglen c) hmlb
  obtain ⟨body, hbody⟩ := encodeConnectMessage_succeeds c name
    (hdrLen (connectMsglen c) + connectMsglen c - (h.tf :: Wire.varint (connectMsglen c)).length)
    hv (by omega) (by omega) hw hu hp (by simp only [List.length_cons]; omega)
  rw [hbody]
  exact ⟨_, rfl, rfl⟩

/-- `Encode` does not refuse a message built through the API whose fields (with an identifier assigned
where one is missing) form a well-formed MQTT 3.1.1 packet, and the message afterwards is `assign m ctr` -/
theorem built_encode_succeeds {m : Msg} (hb : Built m) (ctr : UInt64) (hwf : Wire.WF (absMsg (assign m ctr))) :
    ∃ e, encode m ctr m.len = .ok e ∧ e.msg = assign m ctr := by
  obtain ⟨hd, hs⟩ := built_inv hb
  cases m with
  | connect h c => exact succeeds_connect h c ctr hd hs hwf
  | connack h sp rc => exact succeeds_connack h sp rc ctr hd hs hwf
  | publish h t p => exact succeeds_publish h t p ctr hd hs hwf
  | ack h => exact succeeds_ack h ctr hd hs
  | subscribe h ts qs => exact succeeds_subscribe h ts qs ctr hd hs hwf
  | suback h cs => exact succeeds_suback h cs ctr hd hs hwf
  | unsubscribe h ts => exact succeeds_unsubscribe h ts ctr hd hs hwf
  | bare h => exact succeeds_bare h ctr hd hs

end Mqtt.Proofs.Codec
