/-
Core A (codec): messages built through the public API (`Type.New()` + setters) —
invariants, wire encoding, round trip.
-/
import Mqtt.Proofs.CodecEncode

set_option linter.unusedSimpArgs false
set_option linter.unusedVariables false

namespace Mqtt.Proofs.Codec

open Mqtt.Model.Codec Mqtt.Iface.Codec Mqtt.Generated
open Mqtt.Spec

theorem forall_u8 (P : UInt8 → Prop) (h : ∀ n : Fin 256, P (UInt8.ofNat n.val)) : ∀ b : UInt8, P b := by
  intro b
  have := h ⟨b.toNat, b.toNat_lt⟩
  simpa using this

theorem setBit_hi (v : Bool) : ∀ b : UInt8, (setBit b 8 v).toNat / 16 = b.toNat / 16 ∧ (setBit b 1 v).toNat / 16 = b.toNat / 16 := by
  cases v <;> (apply forall_u8; decide +kernel)

theorem setQos_hi : ∀ b : UInt8, ((b &&& 249) ||| UInt8.ofNat (0 * 2)).toNat / 16 = b.toNat / 16 ∧
    ((b &&& 249) ||| UInt8.ofNat (1 * 2)).toNat / 16 = b.toNat / 16 ∧
    ((b &&& 249) ||| UInt8.ofNat (2 * 2)).toNat / 16 = b.toNat / 16 := by
  apply forall_u8; decide +kernel

theorem setBit_even (v : Bool) : ∀ b : UInt8, b.toNat % 2 = 0 →
    (setBit b 2 v).toNat % 2 = 0 ∧ (setBit b 4 v).toNat % 2 = 0 ∧ (setBit b 32 v).toNat % 2 = 0 ∧
    (setBit b 64 v).toNat % 2 = 0 ∧ (setBit b 128 v).toNat % 2 = 0 := by
  cases v <;> (apply forall_u8; decide +kernel)

theorem setWq_even : ∀ b : UInt8, b.toNat % 2 = 0 →
    ((b &&& 231) ||| UInt8.ofNat (0 * 8)).toNat % 2 = 0 ∧ ((b &&& 231) ||| UInt8.ofNat (1 * 8)).toNat % 2 = 0 ∧
    ((b &&& 231) ||| UInt8.ofNat (2 * 8)).toNat % 2 = 0 := by
  apply forall_u8; decide +kernel

/-- the part of `Canon` that every message built through the API has -/
def Shape : Msg → Prop
  | .connect h c => h.type = 1 ∧ h.flags = 0 ∧ c.connectFlags.toNat % 2 = 0 ∧ c.keepAlive < 65536
  | .connack h _ _ => h.type = 2 ∧ h.flags = 0
  | .publish h _ _ => h.type = 3
  | .ack h => (h.type = 4 ∨ h.type = 5 ∨ h.type = 6 ∨ h.type = 7 ∨ h.type = 11) ∧ h.flags = defaultFlagsOf h.type
  | .subscribe h _ _ => h.type = 8 ∧ h.flags = 2
  | .suback h _ => h.type = 9 ∧ h.flags = 0
  | .unsubscribe h _ => h.type = 10 ∧ h.flags = 2
  | .bare h => (h.type = 12 ∨ h.type = 13 ∨ h.type = 14) ∧ h.flags = 0 ∧ h.remlen = 0

/-- the flags of a CONNECT describe a packet: Will QoS / Will Retain only together with the Will flag -/
def WillOk : Msg → Prop
  | .connect _ c => c.willFlag = false → c.willQos = 0 ∧ c.willRetain = false
  | _ => True

theorem canon_of_shape (m : Msg) (hs : Shape m) (hw : WillOk m) : Canon m := by
  cases m <;> simp only [Shape, WillOk, Canon] at * <;> try exact hs
  exact ⟨hs.2.1, hs.2.2.1, hw, hs.2.2.2⟩

/-- messages built through the public API: `Type.New()` followed by setter calls -/
inductive Built : Msg → Prop where
  | new {t : Nat} {m : Msg} : Msg.new t = some m → Built m
  | set {m : Msg} (s : Setter) : Built m → Built (applySetter m s).1

def FreshInv (m : Msg) : Prop := m.hdr.dirty = true ∧ Shape m

theorem setPacketID_keeps (h : Hdr) (v : Nat) :
    (h.setPacketID v).tf = h.tf ∧ (h.setPacketID v).remlen = h.remlen ∧
    (h.dirty = true → (h.setPacketID v).dirty = true) := by
  unfold Hdr.setPacketID
  split
  · exact ⟨rfl, rfl, id⟩
  · split
    · exact ⟨rfl, rfl, fun _ => rfl⟩
    · split <;> exact ⟨rfl, rfl, id⟩

theorem freshInv_new {t : Nat} {m : Msg} (h : Msg.new t = some m) : FreshInv m := by
  unfold Msg.new at h
  repeat' split at h
  all_goals (try cases h)
  all_goals
    rename_i ht
    first
      | (subst ht; exact ⟨rfl, by unfold Shape; decide⟩)
      | (rcases ht with ht | ht | ht | ht | ht <;> subst ht <;> exact ⟨rfl, by unfold Shape; decide⟩)
      | (rcases ht with ht | ht | ht <;> subst ht <;> exact ⟨rfl, by unfold Shape; decide⟩)

theorem setTf_keeps (h : Hdr) (v : UInt8) : (h.setTf v).tf = v ∧ (h.setTf v).dirty = h.dirty ∧ (h.setTf v).remlen = h.remlen := by
  unfold Hdr.setTf; exact ⟨rfl, rfl, rfl⟩

theorem fresh_connect (h : Hdr) (c' : ConnectF) (s1 : h.type = 1) (s2 : h.flags = 0)
    (hcf : c'.connectFlags.toNat % 2 = 0) (hka : c'.keepAlive < 65536) :
    FreshInv (.connect { h with dirty := true } c') := ⟨rfl, s1, s2, hcf, hka⟩

theorem freshInv_set (m : Msg) (s : Setter) (hi : FreshInv m) : FreshInv (applySetter m s).1 := by
  obtain ⟨hd, hs⟩ := hi
  cases m with
  | connect h c =>
    simp only [Msg.hdr] at hd
    obtain ⟨s1, s2, s3, s4⟩ := hs
    cases s <;> simp only [applySetter]
    all_goals try exact ⟨hd, s1, s2, s3, s4⟩
    all_goals try (split <;> first | exact ⟨hd, s1, s2, s3, s4⟩ | skip)
    all_goals try exact ⟨rfl, s1, s2, s3, s4⟩
    all_goals try first
      | exact fresh_connect h _ s1 s2 (setBit_even _ _ s3).1 s4
      | exact fresh_connect h _ s1 s2 (setBit_even _ _ s3).2.1 s4
      | exact fresh_connect h _ s1 s2 (setBit_even _ _ s3).2.2.1 s4
      | exact fresh_connect h _ s1 s2 (setBit_even _ _ s3).2.2.2.1 s4
      | exact fresh_connect h _ s1 s2 (setBit_even _ _ s3).2.2.2.2 s4
      | exact fresh_connect h _ s1 s2 s3 (Nat.mod_lt _ (by omega))
      | (split <;> first
          | exact fresh_connect h _ s1 s2 (setBit_even _ _ s3).2.1 s4
          | exact fresh_connect h _ s1 s2 s3 s4)
    · rename_i q hq
      simp only [Bool.not_eq_true', Bool.not_eq_false] at hq
      unfold validQos at hq
      simp only [qosAtMostOnce, qosAtLeastOnce, qosExactlyOnce, Bool.or_eq_true, beq_iff_eq] at hq
      have hw := setWq_even c.connectFlags s3
      rcases hq with (hq | hq) | hq <;> rw [hq]
      · exact fresh_connect h _ s1 s2 hw.1 s4
      · exact fresh_connect h _ s1 s2 hw.2.1 s4
      · exact fresh_connect h _ s1 s2 hw.2.2 s4
  | connack h sp rc =>
    simp only [Msg.hdr] at hd
    cases s <;> simp only [applySetter]
    all_goals first
      | exact ⟨hd, hs⟩
      | exact ⟨rfl, hs⟩
      | (refine ⟨(setPacketID_keeps h _).2.2 hd, ?_⟩
         simp only [Msg.setHdr, Msg.hdr, Shape, Hdr.type, Hdr.flags, (setPacketID_keeps h _).1]
         exact hs)
  | ack h =>
    simp only [Msg.hdr] at hd
    cases s <;> simp only [applySetter]
    all_goals first
      | exact ⟨hd, hs⟩
      | (refine ⟨(setPacketID_keeps h _).2.2 hd, ?_⟩
         simp only [Msg.setHdr, Msg.hdr, Shape, Hdr.type, Hdr.flags, (setPacketID_keeps h _).1]
         exact hs)
  | bare h =>
    simp only [Msg.hdr] at hd
    cases s <;> simp only [applySetter]
    all_goals first
      | exact ⟨hd, hs⟩
      | (refine ⟨(setPacketID_keeps h _).2.2 hd, ?_⟩
         simp only [Msg.setHdr, Msg.hdr, Shape, Hdr.type, Hdr.flags, (setPacketID_keeps h _).1, (setPacketID_keeps h _).2.1]
         exact hs)
  | suback h codes =>
    simp only [Msg.hdr] at hd
    cases s <;> simp only [applySetter]
    all_goals first
      | exact ⟨hd, hs⟩
      | (split <;> first | exact ⟨hd, hs⟩ | exact ⟨rfl, hs⟩)
      | (refine ⟨(setPacketID_keeps h _).2.2 hd, ?_⟩
         simp only [Msg.setHdr, Msg.hdr, Shape, Hdr.type, Hdr.flags, (setPacketID_keeps h _).1]
         exact hs)
  | unsubscribe h ts =>
    simp only [Msg.hdr] at hd
    cases s <;> simp only [applySetter]
    all_goals first
      | exact ⟨hd, hs⟩
      | (split <;> first | exact ⟨hd, hs⟩ | exact ⟨rfl, hs⟩)
      | (refine ⟨(setPacketID_keeps h _).2.2 hd, ?_⟩
         simp only [Msg.setHdr, Msg.hdr, Shape, Hdr.type, Hdr.flags, (setPacketID_keeps h _).1]
         exact hs)
  | subscribe h ts qs =>
    simp only [Msg.hdr] at hd
    cases s <;> simp only [applySetter]
    all_goals first
      | exact ⟨hd, hs⟩
      | (split <;> first | exact ⟨hd, hs⟩ | exact ⟨rfl, hs⟩)
      | (split <;> first | exact ⟨hd, hs⟩ | (split <;> exact ⟨rfl, hs⟩))
      | (refine ⟨(setPacketID_keeps h _).2.2 hd, ?_⟩
         simp only [Msg.setHdr, Msg.hdr, Shape, Hdr.type, Hdr.flags, (setPacketID_keeps h _).1]
         exact hs)
  | publish h t p =>
    simp only [Msg.hdr] at hd
    have hs' : h.tf.toNat / 16 = 3 := hs
    cases s <;> simp only [applySetter]
    all_goals try first
      | exact ⟨hd, hs⟩
      | exact ⟨rfl, hs⟩
      | (split <;> first | exact ⟨hd, hs⟩ | exact ⟨rfl, hs⟩)
      | (refine ⟨(setPacketID_keeps h _).2.2 hd, ?_⟩
         simp only [Msg.setHdr, Msg.hdr, Shape, Hdr.type, Hdr.flags, (setPacketID_keeps h _).1]
         exact hs)
    · -- dup
      refine ⟨by simp only [Msg.hdr, (setTf_keeps h _).2.1]; exact hd, ?_⟩
      simp only [Shape, Hdr.type, (setTf_keeps h _).1, (setBit_hi _ h.tf).1]; exact hs'
    · -- retain
      refine ⟨by simp only [Msg.hdr, (setTf_keeps h _).2.1]; exact hd, ?_⟩
      simp only [Shape, Hdr.type, (setTf_keeps h _).1, (setBit_hi _ h.tf).2]; exact hs'
    · -- qos
      rename_i v
      split
      · exact ⟨hd, hs⟩
      · rename_i hv
        have hv3 : v % 256 = 0 ∨ v % 256 = 1 ∨ v % 256 = 2 := by omega
        have hq := setQos_hi h.tf
        have hty : ((h.tf &&& 249) ||| UInt8.ofNat (v % 256 * 2)).toNat / 16 = 3 := by
          rcases hv3 with e | e | e <;> rw [e]
          · rw [hq.1]; exact hs'
          · rw [hq.2.1]; exact hs'
          · rw [hq.2.2]; exact hs'
        simp only []
        split
        · refine ⟨rfl, ?_⟩
          simp only [Shape, Hdr.type, (setTf_keeps h _).1]; exact hty
        · refine ⟨by simp only [Msg.hdr, (setTf_keeps h _).2.1]; exact hd, ?_⟩
          simp only [Shape, Hdr.type, (setTf_keeps h _).1]; exact hty

theorem built_inv {m : Msg} (hb : Built m) : FreshInv m := by
  induction hb with
  | new h => exact freshInv_new h
  | set s _ ih => exact freshInv_set _ s ih

/-- a message built through the API encodes to the reference wire encoding of its fields -/
theorem built_encode_wire {m : Msg} (hb : Built m) (hw : WillOk m) (ctr : UInt64) (e : Encoded)
    (he : encode m ctr m.len = .ok e) : e.out = Wire.encode (absMsg e.msg) := by
  obtain ⟨hd, hs⟩ := built_inv hb
  exact encode_wire m ctr e hd (canon_of_shape m hs hw) he

/-- … and decoding those bytes (with anything behind them) gives back the same fields -/
theorem built_round_trip {m : Msg} (hb : Built m) (hw : WillOk m) (ctr : UInt64) (e : Encoded)
    (he : encode m ctr m.len = .ok e) (hwf : Wire.WF (absMsg e.msg)) (rest : Bytes) :
    ∃ d, decodeNew (absMsg e.msg).type (e.out ++ rest) = .ok d ∧ d.n = e.out.length ∧ absMsg d.msg = absMsg e.msg := by
  rw [built_encode_wire hb hw ctr e he]
  exact accepts_wf _ hwf rest




theorem hdrLen_varint (ml : Nat) (h : ml ≤ 268435455) : 1 + (Wire.varint ml).length = hdrLen ml := by
  unfold hdrLen Wire.varint msglenT1 msglenT2 msglenT3
  repeat' split
  all_goals (simp only [List.length_cons, List.length_nil]; try omega)

/-- `Len()` of a dirty message whose computed remaining length is in range -/
theorem len_dirty (m : Msg) (hd : m.hdr.dirty = true) (hml : ¬ m.msglen > maxRemainingLength)
    (hb : ∀ h, m ≠ .bare h) : m.len = hdrLen m.msglen + m.msglen := by
  cases m <;> simp only [Msg.hdr] at hd <;> simp [Msg.len, Msg.hdr, hd, hml]
  exact absurd rfl (hb _)


theorem encodeConnectMessage_len (c : ConnectF) (avail : Nat) (body name : Bytes)
    (hv : versionName c.version.toNat = some name) (he : encodeConnectMessage c avail = .ok body) :
    body.length = connectMsglen c := by
  unfold encodeConnectMessage at he
  rw [hv] at he
  simp only [Option.getD_some] at he
  cases h1 : writeLPBytes avail name with
  | err => rw [h1] at he; cases he
  | panic => rw [h1] at he; cases he
  | ok o1 =>
    rw [h1] at he
    simp only [bind_ok] at he
    obtain ⟨e1, l1⟩ := writeLP_ok h1
    generalize hA : avail - (o1 ++ [c.version, c.connectFlags] ++ putU16 c.keepAlive).length = A at he
    cases h2 : writeLPBytes A c.clientID with
    | err => rw [h2] at he; cases he
    | panic => rw [h2] at he; cases he
    | ok o2 =>
      rw [h2] at he
      simp only [bind_ok] at he
      obtain ⟨e2, l2⟩ := writeLP_ok h2
      cases h3 : (if c.willFlag = true then
            (writeLPBytes (avail - (o1 ++ [c.version, c.connectFlags] ++ putU16 c.keepAlive ++ o2).length) c.willTopic).bind fun a =>
              (writeLPBytes (avail - (o1 ++ [c.version, c.connectFlags] ++ putU16 c.keepAlive ++ o2).length - a.length) c.willMessage).bind fun b =>
                Outcome.ok (o1 ++ [c.version, c.connectFlags] ++ putU16 c.keepAlive ++ o2 ++ a ++ b)
          else Outcome.ok (o1 ++ [c.version, c.connectFlags] ++ putU16 c.keepAlive ++ o2)) with
      | err => rw [h3] at he; cases he
      | panic => rw [h3] at he; cases he
      | ok out3 =>
        rw [h3] at he
        simp only [bind_ok] at he
        have e3 := willPart_ok _ _ (fun a => avail - (o1 ++ [c.version, c.connectFlags] ++ putU16 c.keepAlive ++ o2).length - a.length) _ _ _ _ h3
        cases h4 : (if c.usernameFlag = true then (writeLPBytes (avail - out3.length) c.username).bind fun a => Outcome.ok (out3 ++ a)
            else Outcome.ok out3) with
        | err => rw [h4] at he; cases he
        | panic => rw [h4] at he; cases he
        | ok out4 =>
          rw [h4] at he
          simp only [bind_ok] at he
          have e4 := optPart_ok _ _ _ _ _ h4
          have e5 := optPart_ok _ _ _ _ _ he
          rw [e5, e4, e3, e1, e2]
          unfold connectMsglen
          rw [hv]
          simp only []
          cases c.willFlag <;> cases c.usernameFlag <;> cases c.passwordFlag <;>
            simp [Wire.str, putU16] <;> omega

/-- `Encode` writes exactly `Len()` bytes (dirty path; the non-dirty path is `encode_clean`) -/
theorem encode_len_dirty (m : Msg) (ctr : UInt64) (e : Encoded) (hd : m.hdr.dirty = true)
    (he : encode m ctr m.len = .ok e) : e.out.length = m.len := by
  cases m with
  | bare h =>
    simp only [Msg.hdr] at hd
    unfold encode at he
    simp only [hd, Bool.not_true, Bool.false_eq_true, if_false] at he
    cases hh : h.encode h.remlen (Msg.bare h).len with
    | err => rw [hh] at he; cases he
    | panic => rw [hh] at he; cases he
    | ok hb =>
      rw [hh] at he; simp only [bind_ok] at he; injection he with he; rw [← he]
      obtain ⟨hb1, hle⟩ := hdr_encode_ok hh
      simp only [Msg.len, hd, Bool.not_true, Bool.false_eq_true, if_false]
      rw [hb1, ← hdrLen_varint _ hle]; simp; omega
  | ack h =>
    simp only [Msg.hdr] at hd
    unfold encode at he
    simp only [hd, Bool.not_true, Bool.false_eq_true, if_false] at he
    split at he
    · cases he
    · split at he
      · cases he
      · rename_i _ hml
        cases hh : h.encode (Msg.ack h).msglen (Msg.ack h).len with
        | err => rw [hh] at he; cases he
        | panic => rw [hh] at he; cases he
        | ok hb =>
          rw [hh] at he; simp only [bind_ok] at he; injection he with he; rw [← he]
          obtain ⟨hb1, hle⟩ := hdr_encode_ok hh
          rw [len_dirty (Msg.ack h) hd hml (by intro h'; simp)]
          simp only []
          rw [hb1, pidOrZero_eq, ← hdrLen_varint _ hle]
          simp [Wire.u16, Msg.msglen]; omega
  | connack h sp rc =>
    simp only [Msg.hdr] at hd
    unfold encode at he
    simp only [hd, Bool.not_true, Bool.false_eq_true, if_false] at he
    split at he
    · cases he
    · split at he
      · cases he
      · rename_i _ hml
        cases hh : h.encode (Msg.connack h sp rc).msglen (Msg.connack h sp rc).len with
        | err => rw [hh] at he; cases he
        | panic => rw [hh] at he; cases he
        | ok hb =>
          rw [hh] at he; simp only [bind_ok] at he
          split at he
          · cases he
          · injection he with he; rw [← he]
            obtain ⟨hb1, hle⟩ := hdr_encode_ok hh
            rw [len_dirty (Msg.connack h sp rc) hd hml (by intro h'; simp)]
            simp only []
            rw [hb1, ← hdrLen_varint _ hle]
            simp [Msg.msglen]; omega
  | suback h codes =>
    simp only [Msg.hdr] at hd
    unfold encode at he
    simp only [hd, Bool.not_true, Bool.false_eq_true, if_false] at he
    split at he
    · cases he
    · split at he
      · cases he
      · split at he
        · cases he
        · rename_i _ _ hml
          cases hh : h.encode (Msg.suback h codes).msglen (Msg.suback h codes).len with
          | err => rw [hh] at he; cases he
          | panic => rw [hh] at he; cases he
          | ok hb =>
            rw [hh] at he; simp only [bind_ok] at he; injection he with he; rw [← he]
            obtain ⟨hb1, hle⟩ := hdr_encode_ok hh
            rw [len_dirty (Msg.suback h codes) hd hml (by intro h'; simp)]
            simp only []
            rw [hb1, pidOrZero_eq, ← hdrLen_varint _ hle]
            simp [Wire.u16, Msg.msglen]; omega
  | publish h topic payload =>
    simp only [Msg.hdr] at hd
    unfold encode at he
    simp only [hd, Bool.not_true, Bool.false_eq_true, if_false] at he
    split at he
    · cases he
    · split at he
      · cases he
      · rename_i _ hml
        split at he
        · cases he
        · cases hh : h.encode (Msg.publish h topic payload).msglen (Msg.publish h topic payload).len with
          | err => rw [hh] at he; cases he
          | panic => rw [hh] at he; cases he
          | ok hb =>
            rw [hh] at he; simp only [bind_ok] at he
            obtain ⟨hb1, hle⟩ := hdr_encode_ok hh
            cases hw : writeLPBytes ((Msg.publish h topic payload).len - hb.length) topic with
            | err => rw [hw] at he; cases he
            | panic => rw [hw] at he; cases he
            | ok tp =>
              rw [hw] at he; simp only [bind_ok] at he
              obtain ⟨htp, _⟩ := writeLP_ok hw
              rw [len_dirty (Msg.publish h topic payload) hd hml (by intro h'; simp)]
              split at he
              · rename_i hq
                injection he with he; rw [← he]
                simp only []
                have hwa := withAutoId_pid h ctr
                unfold withAutoId at hwa
                rw [hb1, htp, hwa.1, ← hdrLen_varint _ hle]
                simp [Wire.u16, Wire.str, Msg.msglen, hq]; omega
              · rename_i hq
                injection he with he; rw [← he]
                simp only []
                rw [hb1, htp, ← hdrLen_varint _ hle]
                simp [Wire.str, Msg.msglen, hq]; omega
  | subscribe h ts qs =>
    simp only [Msg.hdr] at hd
    unfold encode at he
    simp only [hd, Bool.not_true, Bool.false_eq_true, if_false] at he
    split at he
    · cases he
    · split at he
      · cases he
      · rename_i _ hml
        cases hh : h.encode (Msg.subscribe h ts qs).msglen (Msg.subscribe h ts qs).len with
        | err => rw [hh] at he; cases he
        | panic => rw [hh] at he; cases he
        | ok hb =>
          rw [hh] at he; simp only [bind_ok] at he
          obtain ⟨hb1, hle⟩ := hdr_encode_ok hh
          have hwa := withAutoId_pid h ctr
          unfold withAutoId at hwa
          generalize hR : (if h.packetID = 0 then (h.setPacketID (nextPacketID ctr).fst, (nextPacketID ctr).snd) else (h, ctr)) = R at *
          cases hw : writeTopicsQos ((Msg.subscribe h ts qs).len - hb.length - R.1.pid.length) ts qs with
          | err => rw [hw] at he; cases he
          | panic => rw [hw] at he; cases he
          | ok body =>
            rw [hw] at he; simp only [bind_ok] at he; injection he with he; rw [← he]
            obtain ⟨_, hblen⟩ := writeTopicsQos_ok _ _ _ _ hw
            rw [len_dirty (Msg.subscribe h ts qs) hd hml (by intro h'; simp)]
            simp only []
            rw [hb1, hwa.1, ← hdrLen_varint _ hle]
            simp only [List.length_append, List.length_cons, hblen, Msg.msglen]
            simp [Wire.u16]; omega
  | unsubscribe h ts =>
    simp only [Msg.hdr] at hd
    unfold encode at he
    simp only [hd, Bool.not_true, Bool.false_eq_true, if_false] at he
    split at he
    · cases he
    · split at he
      · cases he
      · rename_i _ hml
        cases hh : h.encode (Msg.unsubscribe h ts).msglen (Msg.unsubscribe h ts).len with
        | err => rw [hh] at he; cases he
        | panic => rw [hh] at he; cases he
        | ok hb =>
          rw [hh] at he; simp only [bind_ok] at he
          obtain ⟨hb1, hle⟩ := hdr_encode_ok hh
          have hwa := withAutoId_pid h ctr
          unfold withAutoId at hwa
          generalize hR : (if h.packetID = 0 then (h.setPacketID (nextPacketID ctr).fst, (nextPacketID ctr).snd) else (h, ctr)) = R at *
          cases hw : writeTopics ((Msg.unsubscribe h ts).len - hb.length - R.1.pid.length) ts with
          | err => rw [hw] at he; cases he
          | panic => rw [hw] at he; cases he
          | ok body =>
            rw [hw] at he; simp only [bind_ok] at he; injection he with he; rw [← he]
            obtain ⟨_, hblen⟩ := writeTopics_ok _ _ _ hw
            rw [len_dirty (Msg.unsubscribe h ts) hd hml (by intro h'; simp)]
            simp only []
            rw [hb1, hwa.1, ← hdrLen_varint _ hle]
            simp only [List.length_append, List.length_cons, hblen, Msg.msglen]
            simp [Wire.u16]; omega
  | connect h c =>
    simp only [Msg.hdr] at hd
    unfold encode at he
    simp only [hd, Bool.not_true, Bool.false_eq_true, if_false] at he
    split at he
    · cases he
    · split at he
      · cases he
      · rename_i _ hvn
        split at he
        · cases he
        · split at he
          · cases he
          · rename_i _ hml
            cases hh : h.encode (Msg.connect h c).msglen (Msg.connect h c).len with
            | err => rw [hh] at he; cases he
            | panic => rw [hh] at he; cases he
            | ok hb =>
              rw [hh] at he; simp only [bind_ok] at he
              obtain ⟨hb1, hle⟩ := hdr_encode_ok hh
              cases hm : encodeConnectMessage c ((Msg.connect h c).len - hb.length) with
              | err => rw [hm] at he; cases he
              | panic => rw [hm] at he; cases he
              | ok body =>
                rw [hm] at he; simp only [bind_ok] at he; injection he with he; rw [← he]
                cases hvv : versionName c.version.toNat with
                | none => rw [hvv] at hvn; simp at hvn
                | some name =>
                  have hbl := encodeConnectMessage_len c _ body name hvv hm
                  rw [len_dirty (Msg.connect h c) hd hml (by intro h'; simp)]
                  simp only []
                  rw [hb1, ← hdrLen_varint _ hle]
                  simp only [List.length_append, List.length_cons, hbl, Msg.msglen]
                  omega

/-- `Encode` into a buffer of `Len()` bytes writes exactly `Len()` bytes, for every message object -/
theorem encode_len_all (m : Msg) (ctr : UInt64) (e : Encoded) (he : encode m ctr m.len = .ok e) :
    e.out.length = m.len := by
  cases hd : m.hdr.dirty with
  | true => exact encode_len_dirty m ctr e hd he
  | false =>
    obtain ⟨h1, h2⟩ := encode_clean m ctr hd
    rw [h2] at he
    injection he with he
    rw [← he, h1]

end Mqtt.Proofs.Codec
