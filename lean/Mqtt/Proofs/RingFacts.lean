/-
Core D — tie between the regenerated facts of service/buffer.go and the model.
-/
import Mqtt.Generated.Facts
import Mqtt.Model.Ring

namespace Mqtt.Proofs.Ring
open Mqtt.Model.Ring Mqtt.Generated

/-- The lock structure regenerated from the source (marks, Lock/Unlock/Wait/Broadcast
with their condition variable, calls, returns, in source order per method) is the one
the model was written against.  Removing an `Unlock`, moving a `Broadcast`, adding a
`return` inside a lock region or changing a mark breaks this equation. -/
theorem ring_lock_facts : bufferLocks = lockFacts := by decide

/-- …and the model's step function performs, at the program counter of every mark,
exactly the lock operation `lockFacts` lists after that mark (none where it lists none). -/
theorem lockFacts_steps :
    markPcs.map (fun pc => (pc.yid, lockOpCode pc))
      = (((lockFacts.map (·.2)).flatten |> markOps).filter (fun p => p.1 != 120 && p.1 != 121)).map (fun p => (some p.1, p.2)) := by
  decide

/-- the ring cannot be smaller than two read blocks; the block sizes are what the
generators and the free-running pipe assume; the model's read block (`Cfg.rblock`, the most
`ReadFrom` offers its reader in one `Read`) is the source's -/
theorem ring_block_facts :
    defaultReadBlockSize = 8192 ∧ defaultWriteBlockSize = 8192 ∧ defaultBufferSize = 2 ^ 18 ∧
    2 * defaultReadBlockSize = 2 ^ 14 ∧
    ({ k := 14, src := fun _ => 0 } : Cfg).rblock = defaultReadBlockSize := by decide

end Mqtt.Proofs.Ring
