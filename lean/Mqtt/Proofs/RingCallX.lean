/-
Core D → Core F — `Close` at call level (any thread), and the state invariant "a thread past the first
statement of `Close` has set `done`" (so whatever returns through `Close` — `Close` itself, `ReadFrom` through
its deferred `Close` — returns with the ring closed).
-/
import Mqtt.Proofs.RingCallC

set_option linter.unusedSimpArgs false
set_option linter.unusedVariables false

namespace Mqtt.Proofs.Ring
open Mqtt.Model.Ring Mqtt.Iface.Ring Mqtt.Spec.Ring

/-! ### following an arbitrary thread -/

theorem step_t (cfg : Cfg) (s s' : St) (t : Tid) (hs : step cfg s t = some s') :
    ∃ th th', s.getTh t = some th ∧ tstep cfg s.sh t th = some (s'.sh, th') ∧ s'.getTh t = some th' := by
  obtain ⟨th, sh', th', hth, hst, rfl⟩ := step_some cfg s s' t hs
  refine ⟨th, th', hth, by rw [setTh_sh]; exact hst, ?_⟩
  exact getTh_setTh_same _ t th th' (by rw [getTh_sh]; exact hth)

theorem getTh_step_some (cfg : Cfg) (s s' : St) (t u : Tid) (th : Th) (hs : step cfg s t = some s')
    (hu : s.getTh u = some th) : ∃ th', s'.getTh u = some th' := by
  by_cases e : t = u
  · subst e
    obtain ⟨_, th', _, _, h⟩ := step_t cfg s s' t hs
    exact ⟨th', h⟩
  · exact ⟨th, by rw [step_other cfg s s' t u hs e]; exact hu⟩

theorem getTh_run_some (cfg : Cfg) (s : St) (sched : List Tid) (u : Tid) (th : Th) (hu : s.getTh u = some th) :
    ∃ th', (run cfg s sched).getTh u = some th' := by
  induction sched generalizing s th with
  | nil => exact ⟨th, hu⟩
  | cons t ts ih =>
    rw [run_cons]
    cases hs : step cfg s t with
    | none => exact ih s th hu
    | some s' =>
      obtain ⟨th1, h1⟩ := getTh_step_some cfg s s' t u th hs hu
      exact ih s' th1 h1

theorem prog_len_run_t (cfg : Cfg) (s : St) (sched : List Tid) (u : Tid) (th th' : Th) (hu : s.getTh u = some th)
    (hu' : (run cfg s sched).getTh u = some th') : th'.prog.length ≤ th.prog.length := by
  induction sched generalizing s th with
  | nil => rw [show run cfg s [] = s from rfl, hu] at hu'; cases hu'; exact Nat.le_refl _
  | cons t ts ih =>
    rw [run_cons] at hu'
    cases hs : step cfg s t with
    | none => rw [hs] at hu'; exact ih s th hu hu'
    | some s' =>
      rw [hs] at hu'
      simp only [Option.getD_some] at hu'
      by_cases e : t = u
      · subst e
        obtain ⟨th0, th1, h0, hst, h1⟩ := step_t cfg s s' t hs
        rw [hu] at h0; cases h0
        refine Nat.le_trans (ih s' th1 h1 hu') ?_
        rcases tstep_prog cfg _ _ _ _ _ hst with ⟨_, e⟩ | ⟨_, c, e, _⟩
        · rw [e]; exact Nat.le_refl _
        · rw [e]; simp
      · exact ih s' th (by rw [step_other cfg s s' t u hs e]; exact hu) hu'

/-- a thread that is between two calls and still has the same program has not moved -/
theorem idle_frame_t (cfg : Cfg) (s : St) (sched : List Tid) (u : Tid) (th th' : Th) (hu : s.getTh u = some th)
    (hidle : th.pc = .idle) (hu' : (run cfg s sched).getTh u = some th') (hprog : th'.prog = th.prog) : th' = th := by
  induction sched generalizing s with
  | nil => rw [show run cfg s [] = s from rfl, hu] at hu'; cases hu'; rfl
  | cons t ts ih =>
    rw [run_cons] at hu'
    cases hs : step cfg s t with
    | none => rw [hs] at hu'; exact ih s hu hu'
    | some s' =>
      rw [hs] at hu'
      simp only [Option.getD_some] at hu'
      by_cases e : t = u
      · subst e
        exfalso
        obtain ⟨th0, th1, h0, hst, h1⟩ := step_t cfg s s' t hs
        rw [hu] at h0; cases h0
        rcases tstep_prog cfg _ _ _ _ _ hst with ⟨e, _⟩ | ⟨_, c, e, _⟩
        · exact e hidle
        · have := prog_len_run_t cfg s' ts t th1 th' h1 hu'
          rw [hprog, e] at this
          simp at this
          omega
      · exact ih s' (by rw [step_other cfg s s' t u hs e]; exact hu) hu'

/-- thread `t` has returned from its call -/
def tRet (a : St) (t : Tid) (rest : List Call) (r : Res) : Prop :=
  ∃ th, a.getTh t = some th ∧ th.pc = .idle ∧ th.prog = rest ∧ th.res = some r

/-! ### `Close` -/

/-- inside a `Close()` called by the thread program (not the deferred `Close` of `ReadFrom`) -/
structure XIn (rest : List Call) (sh : Sh) (th : Th) : Prop where
  cur : th.cur = some .close
  prog : th.prog = rest
  pc : 0 < closeRank th.pc
  dn : th.pc ≠ .x10 → sh.done = true

theorem close_own (cfg : Cfg) (rest : List Call) (sh sh' : Sh) (me : Tid) (th th' : Th)
    (hx : XIn rest sh th) (hs : tstep cfg sh me th = some (sh', th')) :
    sh'.pseq = sh.pseq ∧ sh'.cseq = sh.cseq ∧ sh'.done = true ∧
    (XIn rest sh' th' ∨ (th'.pc = .idle ∧ th'.prog = rest ∧ ∃ r, th'.res = some r ∧ r.err = .ok)) := by
  have hcr := tstep_crash _ _ _ _ _ hs
  obtain ⟨hcur, hprog, hpc, hdn⟩ := hx
  obtain ⟨pc, prog, cur, slice, filled, view, pending, res⟩ := th
  simp only at hcur hprog hpc hdn
  subst hcur hprog
  cases pc <;> simp only [closeRank, Nat.lt_irrefl] at hpc
  case x10 =>
    tstep_norm
    obtain ⟨rfl, rfl⟩ := hs
    exact ⟨rfl, rfl, rfl, Or.inl ⟨rfl, rfl, by simp [closeRank, Th.goto], fun _ => rfl⟩⟩
  case x11 =>
    have hd : sh.done = true := hdn (by simp)
    tstep_norm
    obtain ⟨_, rfl, rfl⟩ := hs
    exact ⟨by simp, by simp, by simpa using hd, Or.inl ⟨rfl, rfl, by simp [closeRank, Th.goto], fun _ => by simpa using hd⟩⟩
  case x12 =>
    have hd : sh.done = true := hdn (by simp)
    tstep_norm
    obtain ⟨rfl, rfl⟩ := hs
    exact ⟨by simp [Sh.bcast], by simp [Sh.bcast], by simpa [Sh.bcast] using hd,
      Or.inl ⟨rfl, rfl, by simp [closeRank, Th.goto], fun _ => by simpa [Sh.bcast] using hd⟩⟩
  case x13 =>
    have hd : sh.done = true := hdn (by simp)
    tstep_norm
    obtain ⟨rfl, rfl⟩ := hs
    exact ⟨by simp, by simp, by simpa using hd, Or.inl ⟨rfl, rfl, by simp [closeRank, Th.goto], fun _ => by simpa using hd⟩⟩
  case x14 =>
    have hd : sh.done = true := hdn (by simp)
    tstep_norm
    obtain ⟨_, rfl, rfl⟩ := hs
    exact ⟨by simp, by simp, by simpa using hd, Or.inl ⟨rfl, rfl, by simp [closeRank, Th.goto], fun _ => by simpa using hd⟩⟩
  case x15 =>
    have hd : sh.done = true := hdn (by simp)
    tstep_norm
    obtain ⟨rfl, rfl⟩ := hs
    exact ⟨by simp [Sh.bcast], by simp [Sh.bcast], by simpa [Sh.bcast] using hd,
      Or.inl ⟨rfl, rfl, by simp [closeRank, Th.goto], fun _ => by simpa [Sh.bcast] using hd⟩⟩
  case x16 =>
    have hd : sh.done = true := hdn (by simp)
    tstep_norm
    obtain ⟨rfl, rfl⟩ := hs
    exact ⟨by simp, by simp, by simpa using hd, Or.inr ⟨rfl, rfl, _, rfl, rfl⟩⟩

/-- the linearisation step of `Close`: an own step `x → y` of thread `t` that sets `done` and leaves the cursors -/
def LinX (cfg : Cfg) (t : Tid) (x y : St) : Prop :=
  step cfg x t = some y ∧ y.sh.done = true ∧ y.sh.pseq = x.sh.pseq ∧ y.sh.cseq = x.sh.cseq

/-- `Close` seen from inside: it returns `ok`, the ring is closed when it does; if it has not yet executed its
first statement, that statement is the linearisation step -/
theorem xcall_in (cfg : Cfg) (t : Tid) (rest : List Call) (s : St) (sched : List Tid) (th : Th)
    (hth : s.getTh t = some th) (hx : XIn rest s.sh th) (r : Res) (hret : tRet (run cfg s sched) t rest r) :
    r.err = .ok ∧ (run cfg s sched).sh.done = true ∧
    (th.pc = .x10 → ∃ pre post, sched = pre ++ t :: post ∧ LinX cfg t (run cfg s pre) (run cfg s (pre ++ [t]))) := by
  induction sched generalizing s th with
  | nil =>
    exfalso
    obtain ⟨th', h1, h2, _⟩ := hret
    rw [show run cfg s [] = s from rfl, hth] at h1
    cases h1
    have := hx.pc
    rw [h2] at this
    simp [closeRank] at this
  | cons u ts ih =>
    cases hs : step cfg s u with
    | none =>
      have hrun : run cfg s (u :: ts) = run cfg s ts := by rw [run_cons, hs]; rfl
      rw [hrun] at hret ⊢
      obtain ⟨a1, a2, a3⟩ := ih s th hth hx hret
      refine ⟨a1, a2, fun h10 => ?_⟩
      obtain ⟨pre, post, b3, b4⟩ := a3 h10
      refine ⟨u :: pre, post, by rw [b3]; rfl, ?_⟩
      have e1 : run cfg s (u :: pre) = run cfg s pre := by rw [run_cons, hs]; rfl
      have e2 : run cfg s (u :: pre ++ [t]) = run cfg s (pre ++ [t]) := by
        rw [List.cons_append, run_cons, hs]; rfl
      rw [e1, e2]; exact b4
    | some s' =>
      have hrun : run cfg s (u :: ts) = run cfg s' ts := by rw [run_cons, hs]; rfl
      rw [hrun] at hret ⊢
      have hpre1 : ∀ pre : List Tid, run cfg s (u :: pre) = run cfg s' pre := fun pre => by rw [run_cons, hs]; rfl
      by_cases e : u = t
      · subst e
        obtain ⟨th0, th1, h0, hst, h1⟩ := step_t cfg s s' u hs
        rw [hth] at h0; cases h0
        obtain ⟨ep, ec, ed, hcase⟩ := close_own cfg rest _ _ _ _ _ hx hst
        have hlin : ∃ pre post, u :: ts = pre ++ u :: post ∧ LinX cfg u (run cfg s pre) (run cfg s (pre ++ [u])) := by
          refine ⟨[], ts, rfl, ?_⟩
          have : run cfg s ([] ++ [u]) = s' := by
            show run cfg s [u] = s'
            rw [run_one, hs]; rfl
          rw [this]
          exact ⟨hs, ed, ep, ec⟩
        rcases hcase with hx' | ⟨hi, hpr, r1, hr1, hok⟩
        · obtain ⟨a1, a2, _⟩ := ih s' th1 h1 hx' hret
          exact ⟨a1, a2, fun _ => hlin⟩
        · obtain ⟨th', g1, g2, g3, g4⟩ := hret
          have := idle_frame_t cfg s' ts u th1 th' h1 hi g1 (by rw [g3, hpr])
          subst this
          rw [hr1] at g4
          cases g4
          exact ⟨hok, run_done_mono cfg s' ts ed, fun _ => hlin⟩
      · have hth' : s'.getTh t = some th := by rw [step_other cfg s s' u t hs e]; exact hth
        have hx' : XIn rest s'.sh th := ⟨hx.cur, hx.prog, hx.pc, fun h => step_done_mono cfg s s' u hs (hx.dn h)⟩
        obtain ⟨a1, a2, a3⟩ := ih s' th hth' hx' hret
        refine ⟨a1, a2, fun h10 => ?_⟩
        obtain ⟨pre, post, b3, b4⟩ := a3 h10
        refine ⟨u :: pre, post, by rw [b3]; rfl, ?_⟩
        rw [hpre1 pre, show u :: pre ++ [t] = u :: (pre ++ [t]) from rfl, hpre1]; exact b4

/-- **`Close` at call level**: from the state in which thread `t` is about to call `Close`, through any
schedule, to its return: it returns `ok`, the ring is closed, and one own step — the first statement — is the
linearisation step: it sets `done` and leaves the cursors alone -/
theorem xcall_start (cfg : Cfg) (t : Tid) (rest : List Call) (s : St) (sched : List Tid) (th : Th)
    (hth : s.getTh t = some th) (hidle : th.pc = .idle) (hprog : th.prog = .close :: rest)
    (r : Res) (hret : tRet (run cfg s sched) t rest r) :
    r.err = .ok ∧ (run cfg s sched).sh.done = true ∧
    ∃ pre post, sched = pre ++ t :: post ∧ LinX cfg t (run cfg s pre) (run cfg s (pre ++ [t])) := by
  induction sched generalizing s with
  | nil =>
    exfalso
    obtain ⟨th', h1, _, h3, _⟩ := hret
    rw [show run cfg s [] = s from rfl, hth] at h1
    cases h1
    rw [hprog] at h3
    have := congrArg List.length h3
    simp at this
  | cons u ts ih =>
    cases hs : step cfg s u with
    | none =>
      have hrun : run cfg s (u :: ts) = run cfg s ts := by rw [run_cons, hs]; rfl
      rw [hrun] at hret ⊢
      obtain ⟨a1, a2, pre, post, b3, b4⟩ := ih s hth hret
      refine ⟨a1, a2, u :: pre, post, by rw [b3]; rfl, ?_⟩
      have e1 : run cfg s (u :: pre) = run cfg s pre := by rw [run_cons, hs]; rfl
      have e2 : run cfg s (u :: pre ++ [t]) = run cfg s (pre ++ [t]) := by
        rw [List.cons_append, run_cons, hs]; rfl
      rw [e1, e2]; exact b4
    | some s' =>
      have hrun : run cfg s (u :: ts) = run cfg s' ts := by rw [run_cons, hs]; rfl
      rw [hrun] at hret ⊢
      have hpre1 : ∀ pre : List Tid, run cfg s (u :: pre) = run cfg s' pre := fun pre => by rw [run_cons, hs]; rfl
      by_cases e : u = t
      · subst e
        obtain ⟨th0, th1, h0, hst, h1⟩ := step_t cfg s s' u hs
        rw [hth] at h0; cases h0
        have hcr := tstep_crash _ _ _ _ _ hst
        -- the first step: to the first statement of `Close`
        have hx1 : XIn rest s'.sh th1 ∧ th1.pc = .x10 := by
          obtain ⟨pc, prog, cur, slice, filled, view, pending, res⟩ := th
          simp only at hidle hprog
          subst hidle hprog
          simp only [tstep, Bool.false_eq_true, ↓reduceIte, hcr, Option.some.injEq, Prod.mk.injEq, startCall] at hst
          obtain ⟨_, rfl⟩ := hst
          exact ⟨⟨rfl, rfl, by simp [Th.goto, closeRank], fun h => absurd rfl h⟩, rfl⟩
        obtain ⟨a1, a2, a3⟩ := xcall_in cfg u rest s' ts th1 h1 hx1.1 r hret
        obtain ⟨pre, post, b3, b4⟩ := a3 hx1.2
        refine ⟨a1, a2, u :: pre, post, by rw [b3]; rfl, ?_⟩
        rw [hpre1 pre, show u :: pre ++ [u] = u :: (pre ++ [u]) from rfl, hpre1]; exact b4
      · have hth' : s'.getTh t = some th := by rw [step_other cfg s s' u t hs e]; exact hth
        obtain ⟨a1, a2, pre, post, b3, b4⟩ := ih s' hth' hret
        refine ⟨a1, a2, u :: pre, post, by rw [b3]; rfl, ?_⟩
        rw [hpre1 pre, show u :: pre ++ [t] = u :: (pre ++ [t]) from rfl, hpre1]; exact b4

/-! ### past the first statement of `Close` the ring is closed -/

def closeTail : Pc → Bool
  | .x11 | .x12 | .x13 | .x14 | .x15 | .x16 => true
  | _ => false

@[simp] theorem closeTail_rfExit (th : Th) (n : Nat) (e : Err) : closeTail (rfExit th n e).pc = false :=
  (obs_helpers (fun pc => closeTail pc) false (rfl) (rfl) (fun _ => rfl) (fun _ _ => rfl) { k := 0, src := fun _ => 0 } th).1 n e
@[simp] theorem closeTail_wfsErr (th : Th) (e : Err) : closeTail (wfsErr th e).pc = false :=
  (obs_helpers (fun pc => closeTail pc) false (rfl) (rfl) (fun _ => rfl) (fun _ _ => rfl) { k := 0, src := fun _ => 0 } th).2.1 e
@[simp] theorem closeTail_enterWfs (cfg : Cfg) (th : Th) (n : Nat) : closeTail (enterWfs cfg th n).pc = false :=
  (obs_helpers (fun pc => closeTail pc) false (rfl) (rfl) (fun _ => rfl) (fun _ _ => rfl) cfg th).2.2.1 n
@[simp] theorem closeTail_wcRet (th : Th) (n : Nat) : closeTail (wcRet th n).pc = false :=
  (obs_helpers (fun pc => closeTail pc) false (rfl) (rfl) (fun _ => rfl) (fun _ _ => rfl) { k := 0, src := fun _ => 0 } th).2.2.2.1 n
@[simp] theorem closeTail_closeRet (th : Th) : closeTail (closeRet th).pc = false :=
  (obs_helpers (fun pc => closeTail pc) false (rfl) (rfl) (fun _ => rfl) (fun _ _ => rfl) { k := 0, src := fun _ => 0 } th).2.2.2.2
theorem closeTail_wfsOk (cfg : Cfg) (th : Th) (ppos n : Nat) : closeTail (wfsOk cfg th ppos n).pc = false := by
  unfold wfsOk; dsimp only
  repeat' split
  all_goals rfl
theorem closeTail_startCall (cfg : Cfg) (th : Th) (call : Call) : closeTail (startCall cfg th call).pc = false := by
  cases call <;> simp only [startCall]
  all_goals (repeat' split)
  all_goals (first | exact closeTail_enterWfs _ _ _ | rfl)

/-- the tail of `Close` is entered only from its first statement -/
theorem closeTail_step (cfg : Cfg) (sh sh' : Sh) (me : Tid) (th th' : Th)
    (hs : tstep cfg sh me th = some (sh', th')) (ht : closeTail th'.pc = true) :
    th.pc = .x10 ∨ closeTail th.pc = true := by
  have hcr := tstep_crash _ _ _ _ _ hs
  obtain ⟨pc, prog, cur, slice, filled, view, pending, res⟩ := th
  cases pc
  case idle =>
    simp only [tstep, Bool.false_eq_true, ↓reduceIte, hcr] at hs
    cases prog with
    | nil => simp at hs
    | cons call rest =>
      simp only [Option.some.injEq, Prod.mk.injEq] at hs
      obtain ⟨rfl, rfl⟩ := hs
      rw [closeTail_startCall] at ht; cases ht
  case l21 cpos =>
    simp only [tstep, Bool.false_eq_true, ↓reduceIte, hcr] at hs
    repeat' split at hs
    all_goals (simp only [Option.some.injEq, Prod.mk.injEq] at hs; obtain ⟨rfl, rfl⟩ := hs; simp [closeTail, Th.goto, Th.ret] at ht)
  case r62 n cpos =>
    simp only [tstep, Bool.false_eq_true, ↓reduceIte, hcr] at hs
    repeat' split at hs
    all_goals (simp only [Option.some.injEq, Prod.mk.injEq] at hs; obtain ⟨rfl, rfl⟩ := hs; simp [closeTail, Th.goto, Th.ret] at ht)
  case p88 w n cpos ppos =>
    simp only [tstep, Bool.false_eq_true, ↓reduceIte, hcr] at hs
    repeat' split at hs
    all_goals (simp only [Option.some.injEq, Prod.mk.injEq] at hs; obtain ⟨rfl, rfl⟩ := hs; simp [closeTail, Th.goto, Th.ret] at ht)
  case x10 => exact Or.inl rfl
  case x11 => exact Or.inr rfl
  case x12 => exact Or.inr rfl
  case x13 => exact Or.inr rfl
  case x14 => exact Or.inr rfl
  case x15 => exact Or.inr rfl
  case x16 => exact Or.inr rfl
  all_goals tstep_norm
  all_goals tstep_elim
  all_goals (first
    | (rw [closeTail_wfsOk] at ht; cases ht)
    | (simp only [closeTail_rfExit, closeTail_wfsErr, closeTail_enterWfs, closeTail_wcRet, closeTail_closeRet] at ht; cases ht)
    | (simp [closeTail, Th.goto, Th.ret] at ht))

/-- a thread past the first statement of `Close` has set `done` -/
def DInv (s : St) : Prop := ∀ t th, s.getTh t = some th → closeTail th.pc = true → s.sh.done = true

theorem dinv_step (cfg : Cfg) (s s' : St) (t : Tid) (h : DInv s) (hs : step cfg s t = some s') : DInv s' := by
  intro u thu hu htail
  by_cases e : t = u
  · subst e
    obtain ⟨th0, th1, h0, hst, h1⟩ := step_t cfg s s' t hs
    rw [hu] at h1; cases h1
    rcases closeTail_step cfg _ _ _ _ _ hst htail with h10 | htl
    · rcases tstep_done cfg _ _ _ _ _ hst with e | ⟨_, e⟩
      · -- the step at x10 sets done
        obtain ⟨pc, prog, cur, slice, filled, view, pending, res⟩ := th0
        simp only at h10
        subst h10
        have hcr := tstep_crash _ _ _ _ _ hst
        have hs := hst
        tstep_norm
        rw [← hs.1]
      · exact e
    · exact step_done_mono cfg s s' t hs (h t th0 h0 htl)
  · exact step_done_mono cfg s s' t hs (h u thu (by rw [← step_other cfg s s' t u hs e]; exact hu) htail)

theorem dinv_init (cfg : Cfg) (adv gate : Nat) (progP progC : List Call) (progsK : List (List Call)) :
    DInv (mkInit cfg adv gate progP progC progsK) := by
  intro t th hg ht
  have hpc : th.pc = .idle := by
    cases t with
    | p => simp only [St.getTh, mkInit, Option.some.injEq] at hg; subst hg; rfl
    | c => simp only [St.getTh, mkInit, Option.some.injEq] at hg; subst hg; rfl
    | k i =>
      simp only [St.getTh, mkInit, List.getElem?_map] at hg
      cases hpr : progsK[i]? with
      | none => simp [hpr] at hg
      | some pr => simp only [hpr, Option.map_some, Option.some.injEq] at hg; subst hg; rfl
  rw [hpc] at ht; cases ht

theorem dinv_run (cfg : Cfg) (s : St) (sched : List Tid) (h : DInv s) : DInv (run cfg s sched) := by
  induction sched generalizing s with
  | nil => exact h
  | cons t ts ih =>
    rw [run_cons]
    cases hs : step cfg s t with
    | none => exact ih s h
    | some s' => exact ih s' (dinv_step cfg s s' t h hs)

/-- whatever returns through the last statement of `Close` returns with the ring closed -/
theorem close_return_done (cfg : Cfg) (s s' : St) (t : Tid) (th : Th) (h : DInv s) (hth : s.getTh t = some th)
    (hpc : th.pc = .x16) (hs : step cfg s t = some s') : s'.sh.done = true :=
  step_done_mono cfg s s' t hs (h t th hth (by rw [hpc]; rfl))

/-- `Close` never waits: in a state in which no thread can take a step nobody is inside `Close` -/
theorem quiescent_no_close (cfg : Cfg) (base : Nat) (s : St) (h : Live cfg base s) (hq : ∀ t, step cfg s t = none)
    (t : Tid) (th : Th) (hth : s.getTh t = some th) : closeRank th.pc = 0 := by
  rcases quiescent_legit cfg base s h.safe h.lock h.nlwc h.nlwp hq t th hth with ⟨hi, _⟩ | ⟨_, hpk, _⟩ | ⟨_, hpk, _⟩
  · rw [hi]; rfl
  · cases hpc : th.pc <;> rw [hpc] at hpk <;> simp [cParked, closeRank] at hpk ⊢
  · cases hpc : th.pc <;> rw [hpc] at hpk <;> simp [pParked, closeRank] at hpk ⊢

end Mqtt.Proofs.Ring
