/-
Tools for establishing `Accepts` (Spec/BrokerAccepts.lean): the outputs of every
broker event have the shape

    literal items ++ fan-out ++ literal items

on both sides - `Lits` relates literal items (`send`/`closed`/`sendOrClose`
against the same packet or close), `Fan` relates a list of `deliver`/`retained`
items to a list of PUBLISH outputs that hands every addressee exactly the
copies demanded for it.  `accepts_shape` turns the three parts into `Accepts`.
-/
import Mqtt.Spec.BrokerAccepts

set_option linter.unusedSimpArgs false

namespace Mqtt.Proofs.BrokerRefine
open Mqtt.Iface.Broker Mqtt.Spec.Broker

/-! ### groups -/

theorem specGroup_append (g : Nat) (a b : List SOut) : specGroup g (a ++ b) = specGroup g a ++ specGroup g b := by
  simp [specGroup]

theorem modelGroup_append (g : Nat) (a b : List Out) : modelGroup g (a ++ b) = modelGroup g a ++ modelGroup g b := by
  simp [modelGroup]

theorem specGroup_nil (g : Nat) : specGroup g [] = [] := rfl
theorem modelGroup_nil (g : Nat) : modelGroup g [] = [] := rfl

theorem mem_specGroup {g : Nat} {so : List SOut} {x : SOut} (h : x ∈ specGroup g so) :
    x ∈ so ∧ x.owner = some g ∧ isEmptyRetained x = false := by
  simp only [specGroup, List.mem_filter, Bool.and_eq_true, beq_iff_eq, Bool.not_eq_true'] at h
  exact ⟨h.1, h.2.1, h.2.2⟩

theorem mem_modelGroup {g : Nat} {o : List Out} {y : Out} (h : y ∈ modelGroup g o) :
    y ∈ o ∧ outOwner y = some g := by
  simp only [modelGroup, List.mem_filter, beq_iff_eq] at h
  exact h

/-! ### literal items -/

inductive Lit : SOut → Out → Prop
  | send (c : Nat) (p : Packet) : (∀ w, p ≠ Packet.publish w) → Lit (.send c p) (.send c p)
  | closed (c : Nat) : Lit (.closed c) (.closed c)
  | sent (c : Nat) (p : Packet) : (∀ w, p ≠ Packet.publish w) → Lit (.sendOrClose c p) (.send c p)

inductive Lits : List SOut → List Out → Prop
  | nil : Lits [] []
  | cons {x : SOut} {y : Out} {xs : List SOut} {ys : List Out} : Lit x y → Lits xs ys → Lits (x :: xs) (y :: ys)

theorem Lit.owner {x : SOut} {y : Out} (h : Lit x y) : x.owner = outOwner y := by
  cases h <;> rfl

theorem Lit.notPool {x : SOut} {y : Out} (h : Lit x y) : isPoolItem x = false := by
  cases h <;> rfl

theorem Lit.notEmptyRetained {x : SOut} {y : Out} (h : Lit x y) : isEmptyRetained x = false := by
  cases h <;> rfl

theorem Lit.notPub {x : SOut} {y : Out} (h : Lit x y) : (pubOf y).isSome = false := by
  cases h with
  | send c p hp => cases p <;> first | rfl | exact absurd rfl (hp _)
  | closed c => rfl
  | sent c p hp => cases p <;> first | rfl | exact absurd rfl (hp _)

theorem Lit.notApiErr {x : SOut} {y : Out} (h : Lit x y) :
    isApiErr x = false ∧ (y == Out.apiErr) = false ∧ isUnspecified x = false := by
  cases h <;> exact ⟨rfl, by simp, rfl⟩

theorem Lits.group (g : Nat) {xs : List SOut} {ys : List Out} (h : Lits xs ys) :
    Lits (specGroup g xs) (modelGroup g ys) := by
  induction h with
  | nil => exact .nil
  | @cons x y xs ys hxy _ ih =>
    have ho := hxy.owner
    have he := hxy.notEmptyRetained
    by_cases hg : outOwner y = some g
    · have h1 : specGroup g (x :: xs) = x :: specGroup g xs := by
        simp [specGroup, List.filter_cons, ho, hg, he]
      have h2 : modelGroup g (y :: ys) = y :: modelGroup g ys := by
        simp [modelGroup, List.filter_cons, hg]
      rw [h1, h2]; exact .cons hxy ih
    · have h1 : specGroup g (x :: xs) = specGroup g xs := by
        simp [specGroup, List.filter_cons, ho, hg]
      have h2 : modelGroup g (y :: ys) = modelGroup g ys := by
        simp [modelGroup, List.filter_cons, hg]
      rw [h1, h2]; exact ih

theorem Lits.matchGroup (cb : Bool) {xs : List SOut} {ys : List Out} (h : Lits xs ys) {ss : List SOut} {os : List Out}
    (hm : MatchGroup cb ss os) : MatchGroup cb (xs ++ ss) (ys ++ os) := by
  induction h with
  | nil => exact hm
  | @cons x y xs ys hxy _ ih =>
    cases hxy with
    | send c p _ => exact .send c p ih
    | closed c => exact .closed c ih
    | sent c p _ => exact .sendOrClose_sent c p ih

theorem Lits.head_notPool {xs : List SOut} {ys : List Out} (h : Lits xs ys) :
    ∀ x, xs.head? = some x → isPoolItem x = false := by
  intro x hx
  cases h with
  | nil => cases hx
  | cons hxy _ => simp only [List.head?_cons, Option.some.injEq] at hx; subst hx; exact hxy.notPool

theorem Lits.head_notPub {xs : List SOut} {ys : List Out} (h : Lits xs ys) :
    ∀ y, ys.head? = some y → (pubOf y).isSome = false := by
  intro y hy
  cases h with
  | nil => cases hy
  | cons hxy _ => simp only [List.head?_cons, Option.some.injEq] at hy; subst hy; exact hxy.notPub

theorem Lits.noApiErr {xs : List SOut} {ys : List Out} (h : Lits xs ys) :
    xs.any isApiErr = false ∧ ys.any (fun y => y == Out.apiErr) = false ∧ xs.any isUnspecified = false := by
  induction h with
  | nil => exact ⟨rfl, rfl, rfl⟩
  | cons hxy _ ih =>
    obtain ⟨a, b, c⟩ := hxy.notApiErr
    simp only [List.any_cons, a, b, c, ih.1, ih.2.1, ih.2.2, Bool.or_self]
    exact ⟨trivial, trivial, trivial⟩

/-! ### fan-out -/

/-- the copies a pool item stands for, DUP and identifier wildcarded -/
def itemCopies : SOut → List Pub
  | .deliver _ cs => cs.map wild
  | .retained _ ms => ms.map wild
  | _ => []

def copiesOf (pool : List SOut) : List Pub := (pool.map itemCopies).flatten

/-- a PUBLISH output as the model produces them: to a connection with an
identifier exactly when its QoS is not 0, or an invocation of an in-process callback -/
def okOut : Out → Bool
  | .send _ (.publish w) => idOk w
  | .call cb _ => decide (cbBase ≤ cb)
  | _ => false

theorem okOut_pub {y : Out} (h : okOut y = true) : (pubOf y).isSome = true := by
  unfold okOut at h
  split at h
  · rfl
  · rfl
  · cases h

theorem okOut_notApiErr {y : Out} (h : okOut y = true) : (y == Out.apiErr) = false := by
  cases y <;> first | rfl | (simp [okOut] at h)

/-- `fo` hands every addressee exactly the copies the pool items `fs` demand for it -/
structure Fan (fs : List SOut) (fo : List Out) : Prop where
  items : ∀ x ∈ fs, isPoolItem x = true
  nonempty : ∀ o cs, SOut.deliver o cs ∈ fs → cs ≠ []
  outs : ∀ y ∈ fo, okOut y = true
  perm : ∀ g, (((modelGroup g fo).filterMap pubOf).map wild).Perm (copiesOf (specGroup g fs))

theorem Fan.nil : Fan [] [] :=
  ⟨by simp, by simp, by simp, fun g => by simp [modelGroup, specGroup, copiesOf]⟩

theorem copiesOf_append (a b : List SOut) : copiesOf (a ++ b) = copiesOf a ++ copiesOf b := by
  simp [copiesOf]

theorem Fan.append {a b : List SOut} {a' b' : List Out} (h1 : Fan a a') (h2 : Fan b b') : Fan (a ++ b) (a' ++ b') := by
  refine ⟨?_, ?_, ?_, ?_⟩
  · intro x hx
    rcases List.mem_append.mp hx with h | h
    · exact h1.items x h
    · exact h2.items x h
  · intro o cs hx
    rcases List.mem_append.mp hx with h | h
    · exact h1.nonempty o cs h
    · exact h2.nonempty o cs h
  · intro y hy
    rcases List.mem_append.mp hy with h | h
    · exact h1.outs y h
    · exact h2.outs y h
  · intro g
    rw [modelGroup_append, specGroup_append, copiesOf_append, List.filterMap_append, List.map_append]
    exact (h1.perm g).append (h2.perm g)

theorem gots_of_pool (pool : List SOut) (hp : ∀ x ∈ pool, isPoolItem x = true)
    (hn : ∀ o cs, SOut.deliver o cs ∈ pool → cs ≠ []) : Gots pool (pool.map itemCopies) := by
  induction pool with
  | nil => exact .nil
  | cons x xs ih =>
    refine .cons ?_ (ih (fun y hy => hp y (List.mem_cons_of_mem _ hy))
      (fun o cs h => hn o cs (List.mem_cons_of_mem _ h)))
    have hx := hp x (List.mem_cons_self ..)
    cases x with
    | deliver o cs =>
      have hne := hn o cs (List.mem_cons_self ..)
      refine ⟨?_, [], ?_⟩
      · simp only [itemCopies, ne_eq, List.map_eq_nil_iff]; exact hne
      · simp only [itemCopies, List.append_nil]; exact List.Perm.refl _
    | retained o ms => exact List.Perm.refl _
    | _ => simp [isPoolItem] at hx

theorem Fan.poolMatch {fs : List SOut} {fo : List Out} (h : Fan fs fo) (g : Nat) :
    PoolMatch (decide (cbBase ≤ g)) (specGroup g fs) ((modelGroup g fo).filterMap pubOf) := by
  refine ⟨?_, (specGroup g fs).map itemCopies, ?_, h.perm g⟩
  · intro hcb w hw
    obtain ⟨y, hy, hyw⟩ := List.mem_filterMap.mp hw
    obtain ⟨hyo, hown⟩ := mem_modelGroup hy
    have hok := h.outs y hyo
    cases y with
    | send c p =>
      cases p with
      | publish w' =>
        simp only [pubOf, Option.some.injEq] at hyw
        subst hyw
        exact hok
      | _ => simp [pubOf] at hyw
    | call cb p =>
      simp only [okOut, decide_eq_true_eq] at hok
      simp only [outOwner, Option.some.injEq] at hown
      subst hown
      simp only [decide_eq_false_iff_not] at hcb
      exact absurd hok hcb
    | closed c => simp [pubOf] at hyw
    | apiErr => simp [pubOf] at hyw
  · apply gots_of_pool
    · intro x hx; exact h.items x (mem_specGroup hx).1
    · intro o cs hx; exact h.nonempty o cs (mem_specGroup hx).1

theorem Fan.noApiErr {fs : List SOut} {fo : List Out} (h : Fan fs fo) :
    fs.any isApiErr = false ∧ fo.any (fun y => y == Out.apiErr) = false ∧ fs.any isUnspecified = false := by
  refine ⟨?_, ?_, ?_⟩
  · rw [List.any_eq_false]
    intro x hx
    have := h.items x hx
    cases x <;> simp_all [isPoolItem, isApiErr]
  · rw [List.any_eq_false]
    intro y hy
    simp [okOut_notApiErr (h.outs y hy)]
  · rw [List.any_eq_false]
    intro x hx
    have := h.items x hx
    cases x <;> simp_all [isPoolItem, isUnspecified]

/-! ### the shape theorem -/

theorem accepts_shape {preS postS fs : List SOut} {preO postO fo : List Out}
    (h1 : Lits preS preO) (hf : Fan fs fo) (h2 : Lits postS postO) :
    Accepts (preS ++ fs ++ postS) (preO ++ fo ++ postO) := by
  right
  constructor
  · obtain ⟨a1, b1, _⟩ := h1.noApiErr
    obtain ⟨a2, b2, _⟩ := h2.noApiErr
    obtain ⟨a3, b3, _⟩ := hf.noApiErr
    simp only [List.any_append, a1, a2, a3, b1, b2, b3, Bool.or_self]
  · intro g
    rw [List.append_assoc, List.append_assoc, specGroup_append, specGroup_append, modelGroup_append, modelGroup_append]
    apply (h1.group g).matchGroup
    have hpost : MatchGroup (decide (cbBase ≤ g)) (specGroup g postS) (modelGroup g postO) := by
      have := (h2.group g).matchGroup (decide (cbBase ≤ g)) MatchGroup.nil
      simpa using this
    refine MatchGroup.pool (specGroup g fs) (modelGroup g fo) ?_ (h2.group g).head_notPool ?_ (h2.group g).head_notPub
      (hf.poolMatch g) hpost
    · intro x hx; exact hf.items x (mem_specGroup hx).1
    · intro y hy; exact okOut_pub (hf.outs y (mem_modelGroup hy).1)

/-- no fan-out part -/
theorem accepts_lits {xs : List SOut} {ys : List Out} (h : Lits xs ys) : Accepts xs ys := by
  have := accepts_shape h Fan.nil Lits.nil
  simpa using this

/-- only a fan-out part -/
theorem accepts_fan {fs : List SOut} {fo : List Out} (h : Fan fs fo) : Accepts fs fo := by
  have := accepts_shape Lits.nil h Lits.nil
  simpa using this

theorem accepts_unspecified (o : List Out) : Accepts [.unspecified] o := Or.inl rfl

theorem accepts_nil : Accepts [] [] := accepts_lits Lits.nil

theorem accepts_apiErr : Accepts [.apiErr] [.apiErr] := by
  right
  refine ⟨rfl, fun g => ?_⟩
  exact MatchGroup.nil

/-- a refused first packet: close, or CONNACK with one of the codes and close -/
theorem accepts_refused_plain (c : Nat) (codes : List (Option Nat)) (h : none ∈ codes) :
    Accepts [.refused c codes] [.closed c] := by
  right
  refine ⟨rfl, fun g => ?_⟩
  by_cases hg : c = g
  · subst hg
    have h1 : specGroup c [SOut.refused c codes] = [SOut.refused c codes] := by
      simp [specGroup, SOut.owner, isEmptyRetained]
    have h2 : modelGroup c [Out.closed c] = [Out.closed c] := by simp [modelGroup, outOwner]
    rw [h1, h2]
    exact .refused_plain c codes [] h
  · have h1 : specGroup g [SOut.refused c codes] = [] := by
      simp [specGroup, SOut.owner, hg]
    have h2 : modelGroup g [Out.closed c] = [] := by simp [modelGroup, outOwner, hg]
    rw [h1, h2]
    exact .nil

theorem accepts_refused_code (c : Nat) (codes : List (Option Nat)) (k : Nat) (h : some k ∈ codes) :
    Accepts [.refused c codes] [.send c (.connack false k), .closed c] := by
  right
  refine ⟨rfl, fun g => ?_⟩
  by_cases hg : c = g
  · subst hg
    have h1 : specGroup c [SOut.refused c codes] = [SOut.refused c codes] := by
      simp [specGroup, SOut.owner, isEmptyRetained]
    have h2 : modelGroup c [Out.send c (.connack false k), Out.closed c] =
        [Out.send c (.connack false k), Out.closed c] := by simp [modelGroup, outOwner]
    rw [h1, h2]
    exact .refused_code c codes k [] h
  · have h1 : specGroup g [SOut.refused c codes] = [] := by
      simp [specGroup, SOut.owner, hg]
    have h2 : modelGroup g [Out.send c (.connack false k), Out.closed c] = [] := by
      simp [modelGroup, outOwner, hg]
    rw [h1, h2]
    exact .nil

/-! ### `Accepts` is not vacuous: a missing and a surplus delivery are rejected -/

theorem gots_flatten_nil {pool : List SOut} {gots : List (List Pub)} (h : Gots pool gots) (hf : gots.flatten = []) :
    ∀ o cs, SOut.deliver o cs ∉ pool := by
  induction h with
  | nil => intro o cs hm; cases hm
  | @cons x got xs gots hx _ ih =>
    simp only [List.flatten_cons, List.append_eq_nil_iff] at hf
    intro o cs hm
    rcases List.mem_cons.mp hm with rfl | hm
    · exact hx.1 hf.1
    · exact ih hf.2 o cs hm

/-- nothing written to an addressee: the reference broker demanded no delivery to it -/
theorem matchGroup_nil_right {cb : Bool} {ss : List SOut} (h : MatchGroup cb ss []) : ∀ o cs, SOut.deliver o cs ∉ ss := by
  generalize hos : ([] : List Out) = os at h
  induction h with
  | nil => intro o cs hm; cases hm
  | send => cases hos
  | closed => cases hos
  | sendOrClose_sent => cases hos
  | sendOrClose_closed => cases hos
  | refused_plain => cases hos
  | refused_code => cases hos
  | pool pool run _ _ _ _ hpm _ ih =>
    have hr : run = [] := by
      cases run with
      | nil => rfl
      | cons => cases hos
    subst hr
    simp only [List.nil_append] at hos
    obtain ⟨_, gots, hg, hperm⟩ := hpm
    simp only [List.filterMap_nil, List.map_nil] at hperm
    have hfl : gots.flatten = [] := List.Perm.eq_nil (hperm.symm)
    intro o cs hm
    rcases List.mem_append.mp hm with hm | hm
    · exact gots_flatten_nil hg hfl o cs hm
    · exact ih hos o cs hm

/-- a demanded delivery that does not happen is not accepted -/
theorem accepts_missing_delivery_rejected (o : Nat) (p : Pub) : ¬ Accepts [.deliver o [p]] [] := by
  intro h
  rcases h with h | ⟨_, h⟩
  · simp [isUnspecified] at h
  · have := matchGroup_nil_right (h o) o [p]
    apply this
    simp [specGroup, SOut.owner, isEmptyRetained]

/-- a PUBLISH nobody demanded is not accepted -/
theorem accepts_surplus_publish_rejected (c : Nat) (p : Pub) : ¬ Accepts [] [.send c (.publish p)] := by
  intro h
  rcases h with h | ⟨_, h⟩
  · simp at h
  · have hg := h c
    have h2 : modelGroup c [Out.send c (.publish p)] = [Out.send c (.publish p)] := by simp [modelGroup, outOwner]
    rw [specGroup_nil, h2] at hg
    generalize hss : ([] : List SOut) = ss at hg
    generalize hos : [Out.send c (.publish p)] = os at hg
    induction hg with
    | nil => cases hos
    | send => cases hss
    | closed => cases hss
    | sendOrClose_sent => cases hss
    | sendOrClose_closed => cases hss
    | refused_plain => cases hss
    | refused_code => cases hss
    | pool pool run _ _ _ hmax hpm _ ih =>
      have hp : pool = [] := by
        cases pool with
        | nil => rfl
        | cons => cases hss
      subst hp
      simp only [List.nil_append] at hss
      cases run with
      | nil =>
        simp only [List.nil_append] at hos
        exact ih hss hos
      | cons y ys =>
        simp only [List.cons_append, List.cons.injEq] at hos
        obtain ⟨_, gots, hg, hperm⟩ := hpm
        cases hg
        rw [← hos.1] at hperm
        simp only [List.filterMap_cons, pubOf, List.map_cons, List.flatten_nil] at hperm
        exact absurd hperm.length_eq (by simp)

end Mqtt.Proofs.BrokerRefine
