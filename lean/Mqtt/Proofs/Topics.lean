/- Helper lemmas for Core B (topic store). -/
import Mqtt.Model.Topics
import Mqtt.Spec.TopicStore

namespace Mqtt.Proofs.Topics
open Mqtt.Model.Topics

theorem lookup_map_replace (subs : List (Nat × Nat)) (sub qos s : Nat) :
    (subs.map (fun p => if p.1 == sub then (sub, qos) else p)).lookup s =
      if s = sub then (if subs.any (fun p => p.1 == sub) then some qos else none) else subs.lookup s := by
  induction subs with
  | nil => simp
  | cons p rest ih =>
    obtain ⟨a, b⟩ := p
    simp only [List.map_cons, List.any_cons]
    by_cases ha : a = sub
    · subst ha
      simp only [beq_self_eq_true, ↓reduceIte, Bool.true_or, List.lookup_cons]
      by_cases hs : s = a
      · simp [hs]
      · have : (s == a) = false := by simp [hs]
        simp only [this, hs, ↓reduceIte]
        rw [ih]; simp [hs]
    · have hab : (a == sub) = false := by simp [ha]
      simp only [hab, Bool.false_eq_true, ↓reduceIte, Bool.false_or, List.lookup_cons]
      by_cases hs : s = a
      · subst hs
        have : ¬ s = sub := ha
        simp [this]
      · have : (s == a) = false := by simp [hs]
        simp only [this]
        exact ih

theorem map_fst_replace (subs : List (Nat × Nat)) (sub qos : Nat) :
    (subs.map (fun p => if p.1 == sub then (sub, qos) else p)).map (·.1) = subs.map (·.1) := by
  induction subs with
  | nil => rfl
  | cons p rest ih =>
    simp only [List.map_cons, ih]
    by_cases h : p.1 = sub
    · simp [h]
    · have : (p.1 == sub) = false := by simp [h]
      simp [this]

theorem subsInsert_spec (subs : List (Nat × Nat)) (sub qos : Nat)
    (hu : (subs.map (·.1)).Nodup) :
    (subsInsert subs sub qos).lookup sub = some qos ∧
    ((subsInsert subs sub qos).map (·.1)).Nodup ∧
    ∀ s, s ≠ sub → (subsInsert subs sub qos).lookup s = subs.lookup s := by
  unfold subsInsert
  by_cases h : subs.any (fun p => p.1 == sub) = true
  · simp only [h, ↓reduceIte]
    refine ⟨?_, ?_, ?_⟩
    · rw [lookup_map_replace]; simp [h]
    · rw [map_fst_replace]; exact hu
    · intro s hs; rw [lookup_map_replace]; simp [hs]
  · simp only [h, Bool.false_eq_true, ↓reduceIte]
    have hno : ∀ p ∈ subs, p.1 ≠ sub := by
      intro p hp e
      apply h
      rw [List.any_eq_true]
      exact ⟨p, hp, by simp [e]⟩
    have hl : subs.lookup sub = none := by
      rw [List.lookup_eq_none_iff]; intro p hp
      have := hno p hp
      exact bne_iff_ne.mpr (fun e => this e.symm)
    refine ⟨?_, ?_, ?_⟩
    · rw [List.lookup_append, hl]; simp
    · rw [List.map_append, List.nodup_append]
      refine ⟨hu, by simp, ?_⟩
      intro a ha b hb
      simp only [List.map_cons, List.map_nil, List.mem_singleton] at hb
      subst hb
      obtain ⟨p, hp, rfl⟩ := List.mem_map.mp ha
      exact hno p hp
    · intro s hs
      rw [List.lookup_append]
      cases hx : subs.lookup s with
      | some v => simp
      | none =>
        have : (s == sub) = false := by simp [hs]
        simp [List.lookup_cons, this]

end Mqtt.Proofs.Topics
