/-
C17, wrap path — the contents of the scratch buffer `svc.outtmp` are invisible: two runs of the
program as it is, on the same schedule, from initial states that differ only in the scratch
buffer, agree in every step on the ring, both cursors, the observed stream, `wmu`, every thread's
program counter and list, and the log of finished deliveries.  (The scratch buffers themselves
may differ for ever: their lengths record the growth history.)
-/
import Mqtt.Proofs.WriteWrap

namespace Mqtt.Proofs.WriteWrap
open Mqtt.Model.WriteWrap

/-- equal up to the scratch buffer -/
def EqvSh (a b : Sh) : Prop := a.pseq = b.pseq ∧ a.cseq = b.cseq ∧ a.ring = b.ring ∧ a.got = b.got

inductive EqvOut : Out → Out → Prop
  | blocked : EqvOut .blocked .blocked
  | goto (pc : PC) (a b : Sh) : EqvSh a b → EqvOut (.goto pc a) (.goto pc b)
  | ret (ok : Bool) (a b : Sh) : EqvSh a b → EqvOut (.ret ok a) (.ret ok b)

/-- under the assertions of the delivery in progress a step's outcome does not depend on the
scratch buffer (only `Encode` and `ringCopy` read it, and what they read is the packet) -/
theorem pcStep_eqv {size : Nat} {a b : Sh} {m : List UInt8} {pc : PC} (h : EqvSh a b)
    (hPa : PcOk size a m pc) (hPb : PcOk size b m pc) :
    EqvOut (pcStep code size a m pc) (pcStep code size b m pc) := by
  rcases a with ⟨p, c, r, o, g⟩
  rcases b with ⟨p', c', r', o', g'⟩
  obtain ⟨h1, h2, h3, h4⟩ := h
  simp only at h1 h2 h3 h4
  subst h1 h2 h3 h4
  have e : ∀ x y : List UInt8, EqvSh ⟨p, c, r, x, g⟩ ⟨p, c, r, y, g⟩ := fun _ _ => ⟨rfl, rfl, rfl, rfl⟩
  cases pc with
  | idle => exact absurd hPa id
  | entered =>
    simp only [pcStep]
    split
    · exact .ret _ _ _ (e _ _)
    · split
      · exact .blocked
      · split
        · exact .goto _ _ _ (e _ _)
        · exact .goto _ _ _ (e _ _)
  | reserved st => exact .goto _ _ _ ⟨rfl, rfl, rfl, rfl⟩
  | encoded st =>
    simp only [pcStep]
    split
    · exact .ret _ _ _ (e _ _)
    · split
      · exact .blocked
      · exact .goto _ _ _ (e _ _)
  | commit st2 => exact .ret _ _ _ ⟨rfl, rfl, rfl, rfl⟩
  | wrapped =>
    simp only [pcStep]
    split <;> split <;> exact .goto _ _ _ ⟨rfl, rfl, rfl, rfl⟩
  | grown =>
    have ha : m.length ≤ o.length := hPa.2
    have hb : m.length ≤ o'.length := hPb.2
    simp only [pcStep]
    rw [if_neg (by omega), if_neg (by omega)]
    exact .goto _ _ _ ⟨rfl, rfl, rfl, rfl⟩
  | tmpEncoded n =>
    simp only [pcStep, code, ↓reduceIte]
    split
    · exact .ret _ _ _ (e _ _)
    · split
      · exact .blocked
      · exact .goto _ _ _ (e _ _)
  | copying st2 len =>
    obtain ⟨_, rfl, _, ha⟩ := hPa
    obtain ⟨_, _, _, hb⟩ := hPb
    simp only at ha hb
    simp only [pcStep]
    rw [ha, hb]
    exact .goto _ _ _ ⟨rfl, rfl, rfl, rfl⟩
  | copied st2 len => exact .ret _ _ _ ⟨rfl, rfl, rfl, rfl⟩

/-- equal up to the scratch buffer -/
def EqvSt (s1 s2 : St) : Prop :=
  EqvSh s1.sh s2.sh ∧ s1.holder = s2.holder ∧ s1.ths = s2.ths ∧ s1.log = s2.log

def EqvOpt : Option St → Option St → Prop
  | none, none => True
  | some a, some b => EqvSt a b
  | _, _ => False

theorem step_eqv {size todos s1 s2} (hI1 : Inv size todos s1) (hI2 : Inv size todos s2)
    (h : EqvSt s1 s2) (t : Nat) : EqvOpt (step code size s1 t) (step code size s2 t) := by
  obtain ⟨hsh, hho, hths, hlog⟩ := h
  unfold step
  rw [← hths]
  cases hth : s1.ths[t]? with
  | none => exact trivial
  | some th =>
    simp only []
    cases htodo : th.todo with
    | nil => exact trivial
    | cons m rest =>
      simp only []
      by_cases hpc : th.pc = .idle
      · simp only [hpc, code, ↓reduceIte, ← hho]
        cases s1.holder with
        | none => exact ⟨hsh, rfl, rfl, hlog⟩
        | some x => exact trivial
      · simp only [hpc, ↓reduceIte]
        have hP1 := hI1.pcOk_of_busy hth htodo hpc
        have hP2 := hI2.pcOk_of_busy (by rw [← hths]; exact hth) htodo hpc
        have ho := pcStep_eqv hsh hP1 hP2
        generalize pcStep code size s1.sh m th.pc = o1 at ho
        generalize pcStep code size s2.sh m th.pc = o2 at ho
        cases ho with
        | blocked => exact trivial
        | goto pc' a b hab => exact ⟨hab, hho, rfl, hlog⟩
        | ret ok a b hab => exact ⟨hab, rfl, rfl, by simp only [hlog]⟩

theorem consume_eqv {size : Nat} {s1 s2 : St} (h : EqvSt s1 s2) (k : Nat) :
    EqvSt (consume size s1 k) (consume size s2 k) := by
  obtain ⟨⟨h1, h2, h3, h4⟩, hho, hths, hlog⟩ := h
  refine ⟨⟨h1, ?_, h3, ?_⟩, hho, hths, hlog⟩
  · show s1.sh.cseq + min k (s1.sh.pseq - s1.sh.cseq) = s2.sh.cseq + min k (s2.sh.pseq - s2.sh.cseq)
    rw [h1, h2]
  · show s1.sh.got ++ readRing s1.sh.ring size s1.sh.cseq (min k (s1.sh.pseq - s1.sh.cseq)) =
      s2.sh.got ++ readRing s2.sh.ring size s2.sh.cseq (min k (s2.sh.pseq - s2.sh.cseq))
    rw [h1, h2, h3, h4]

theorem act_eqv {size todos s1 s2} (hI1 : Inv size todos s1) (hI2 : Inv size todos s2)
    (h : EqvSt s1 s2) (a : Act) : EqvSt (act code size s1 a) (act code size s2 a) := by
  cases a with
  | th t =>
    have := step_eqv hI1 hI2 h t
    simp only [act]
    cases h1 : step code size s1 t <;> cases h2 : step code size s2 t <;> rw [h1, h2] at this
    · exact h
    · exact absurd this id
    · exact absurd this id
    · exact this
  | consume k => exact consume_eqv h k

theorem run_eqv {size todos} (hsz : 0 < size) (sched : List Act) : ∀ {s1 s2}, Inv size todos s1 →
    Inv size todos s2 → EqvSt s1 s2 → EqvSt (run code size s1 sched) (run code size s2 sched) := by
  induction sched with
  | nil => intro s1 s2 _ _ h; exact h
  | cons a as ih =>
    intro s1 s2 hI1 hI2 h
    exact ih (inv_act hsz hI1 a) (inv_act hsz hI2 a) (act_eqv hI1 hI2 h a)

/-- two runs that differ only in the initial scratch buffer stay equal up to the scratch buffer -/
theorem scratch_irrelevant (size : Nat) (hsz : 0 < size) (tmp0 tmp1 : List UInt8)
    (todos : List (List (List UInt8))) (sched : List Act) :
    EqvSt (run code size (init size tmp0 todos) sched) (run code size (init size tmp1 todos) sched) :=
  run_eqv hsz sched (inv_init size tmp0 todos) (inv_init size tmp1 todos)
    ⟨⟨rfl, rfl, rfl, rfl⟩, rfl, rfl, rfl⟩

end Mqtt.Proofs.WriteWrap
