/-
Core D — a termination measure for the ring program: every enabled step of every
thread strictly decreases `mu` (rank of the program counters + weight of the calls
not yet started + credit of pending wake-ups).  Hence no schedule contains more
than `mu (initial state)` enabled steps: no livelock, every run that keeps
scheduling enabled threads reaches a state where nothing can run, to which
`quiescent_legit` applies.  Property theorems: `Properties/C15.lean`.
-/
import Mqtt.Proofs.RingProgress

set_option linter.unusedSimpArgs false
set_option linter.unusedVariables false

namespace Mqtt.Proofs.Ring
open Mqtt.Model.Ring Mqtt.Iface.Ring Mqtt.Spec.Ring

/-! ### a termination measure: every enabled step decreases it -/

/-- weight of one iteration of `ReadFrom`'s loop whose reader offers `m` bytes, and of a whole
`ReadFrom` with the reader script `ms` (the last iteration finds the reader at its end; then `Close`) -/
def iterW (m : Nat) : Nat := 2 * m + 70
def rfW : List Nat → Nat
  | [] => 30
  | m :: ms => iterW m + rfW ms

theorem rfW_ge (ms : List Nat) : 30 ≤ rfW ms := by
  induction ms with
  | nil => exact Nat.le_refl _
  | cons m ms ih => unfold rfW; omega

/-- what a `ReadFrom` that is inside `waitForWriteSpace` / `WriteCommit` still has to do after that call -/
def contW : Option Call → Nat
  | some (.rfrom _ ms) => rfW ms
  | some (.rfcommit _ ms) => rfW ms + 40
  | _ => 0

/-- weight of a call that has not started: more than the rank of its first program counter -/
def callW (cfg : Cfg) : Call → Nat
  | .write n => n + 27 | .wwait n => n + 26 | .wcommit n => n + 26 | .wfill => cfg.size + 3
  | .rfrom _ ms => rfW ms + 31 | .rfcommit _ _ => 1 | .rfret _ _ => 1
  | .read n => n + 28 | .peek n => n + 15 | .rwait n => n + 15 | .use => cfg.size + 3 | .commit _ => 15
  | .close => 24 | .len => 3

/-- rank of a program counter: an upper bound on the own steps to the end of the call, where a
`Broadcast` is worth 9 (it may wake a waiter, credit 8) and a wake-up costs the waiter 7 -/
def pcRank (sh : Sh) (cur : Option Call) : Pc → Nat
  | .idle => 0
  | .x10 => 23 | .x11 => 22 | .x12 => 21 | .x13 => 12 | .x14 => 11 | .x15 => 10 | .x16 => 1
  | .l20 => match cur with | some (.read n) => n + 26 | _ => 2
  | .l21 _ => match cur with | some (.read n) => n + 25 | _ => 1
  | .s30 n => n + 25 + contW cur | .s31 n => n + 24 + contW cur | .s32 n _ => n + 23 + contW cur
  | .s33 n _ => n + 22 + contW cur | .s34 n _ => n + 16 + contW cur
  | .s35 _ _ => 1 + contW cur | .s36 n _ => n + 15 + contW cur | .s36w n _ => n + 14 + contW cur
  | .s37 n _ => n + 21 + contW cur | .s38 n _ _ => n + 15 + contW cur | .s39 n _ => n + 14 + contW cur
  | .w40 n => n + 26 + contW cur | .w41c n _ j => (n - j) + 13 | .w42 _ _ => 12 | .w43 _ => 11 | .w44 _ => 10 | .w45 _ => 1
  | .c50 _ _ => 12 + contW cur | .c51 _ => 11 + contW cur | .c52 _ => 10 + contW cur | .c53 _ => 1 + contW cur
  | .f0 _ len j => (len - j) + 1
  | .g110 _ ms => rfW ms + 30 | .g112 _ ms _ => rfW ms + 10 | .g111 _ ms _ _ => rfW ms + 9
  | .g111c _ ms _ n j => (n - j) + n + 68 + rfW ms | .g111r _ ms n => n + 67 + rfW ms
  | .r60 n => n + 27
  | .r61 n => if sh.cseq < sh.pseq then n + 15 else n + 24
  | .r62 n cpos => if cpos < sh.pseq then n + 14 else n + 23
  | .r63c _ _ k j _ => (k - j) + 13
  | .r64 _ _ _ => 12 | .r65 _ _ _ => 11 | .r66 _ _ _ => 10 | .r67 _ _ _ => 1
  | .r73 n _ => n + 22 | .r74 n _ => n + 21 | .r75 n _ => n + 20 | .r75r n _ => n + 17 | .r76 _ _ => 1 | .r77 n _ => n + 19
  | .r77w n _ => n + 18 | .r78 n _ => n + 21 | .r79 n => n + 16
  | .p80 _ n => n + 14 | .p81 _ n _ => n + 13 | .p82 _ n _ => n + 12 | .p83 _ n _ => n + 11 | .p84 _ n _ => n + 10
  | .p84r _ n _ => n + 4 | .p85 _ _ _ => 1 | .p86 _ n _ => n + 9 | .p86w _ n _ => n + 8 | .p87 _ n _ => n + 15 | .p88 _ n _ _ => n + 3
  | .p89c _ _ m _ j _ => (m - j) + 1
  | .k100 _ => 14 | .k101 _ _ => 13 | .k102 _ _ => 12 | .k103 _ => 11 | .k104 _ => 10 | .k105 _ => 1
  | .u0 _ m j _ => (m - j) + 1

def progW (cfg : Cfg) (prog : List Call) : Nat := (prog.map (callW cfg)).sum

def thRank (cfg : Cfg) (sh : Sh) (th : Th) : Nat := progW cfg th.prog + pcRank sh th.cur th.pc

/-- credit of a pending wake-up -/
def noteT (sh : Sh) : Nat := (if sh.pNote then 8 else 0) + (if sh.cNote then 8 else 0)

theorem pcRank_wfsOk (cfg : Cfg) (sh : Sh) (th : Th) (ppos n : Nat) :
    pcRank sh (wfsOk cfg th ppos n).cur (wfsOk cfg th ppos n).pc ≤ n + 13 + contW th.cur ∧
      (wfsOk cfg th ppos n).prog = th.prog := by
  unfold wfsOk; dsimp only
  split
  · rename_i h; simp [pcRank, Th.goto, h, contW]
  · split <;> simp [pcRank, Th.goto, Th.ret]
  · rename_i h; simp [pcRank, Th.goto, h, contW]
  · rename_i h; simp [pcRank, Th.goto, h, contW] <;> omega
  · rename_i h; simp [pcRank, Th.goto, h, contW] <;> omega
  · simp [pcRank, Th.goto, Th.ret]

theorem noteT_setOwner (sh : Sh) (m : Mx) (o : Option Tid) : noteT (sh.setOwner m o) = noteT sh := by cases m <;> rfl
theorem noteT_unlock (sh : Sh) (m : Mx) : noteT (sh.unlock m) = noteT sh := by
  unfold Sh.unlock; split
  · rfl
  · exact noteT_setOwner _ _ _

theorem noteT_bcast (sh : Sh) (m : Mx) : noteT (sh.bcast m) ≤ noteT sh + 8 := by
  cases m <;> cases hp : sh.pNote <;> cases hc : sh.cNote <;> simp [Sh.bcast, Sh.setNote, noteT, hp, hc]
theorem noteT_park (sh : Sh) (m : Mx) : noteT (sh.park m) ≤ noteT sh := by
  unfold Sh.park; rw [noteT_unlock]
  cases m <;> cases hp : sh.pNote <;> cases hc : sh.cNote <;> simp [Sh.setNote, noteT, hp, hc]
theorem noteT_resume (sh : Sh) (m : Mx) (o : Option Tid) (h : sh.note m = true) :
    noteT ((sh.setOwner m o).setNote m false) + 8 = noteT sh := by
  cases m <;> simp only [Sh.note] at h <;> cases hp : sh.pNote <;> cases hc : sh.cNote <;>
    simp_all [Sh.setNote, Sh.setOwner, noteT]

theorem thRank_rfExit (cfg : Cfg) (sh : Sh) (th : Th) (n : Nat) (e : Err) :
    thRank cfg sh (rfExit th n e) = progW cfg th.prog + 23 := rfl

theorem thRank_wfsErr (cfg : Cfg) (sh : Sh) (th : Th) (e : Err) :
    thRank cfg sh (wfsErr th e) ≤ progW cfg th.prog + contW th.cur := by
  unfold wfsErr
  split
  · rename_i tot ms h
    have := rfW_ge ms
    rw [thRank_rfExit, h]; show _ ≤ _ + rfW ms; omega
  · rename_i tot ms h
    have := rfW_ge ms
    rw [thRank_rfExit, h]; show _ ≤ _ + (rfW ms + 40); omega
  · simp [thRank, pcRank, Th.ret]

theorem thRank_enterWfs (cfg : Cfg) (sh : Sh) (th : Th) (n : Nat) :
    thRank cfg sh (enterWfs cfg th n) ≤ progW cfg th.prog + (n + 25 + contW th.cur) := by
  unfold enterWfs
  split
  · have := thRank_wfsErr cfg sh th .full; omega
  · simp [thRank, pcRank, Th.goto]

theorem thRank_wcRet (cfg : Cfg) (sh : Sh) (th : Th) (n : Nat) :
    thRank cfg sh (wcRet th n) ≤ progW cfg th.prog + contW th.cur := by
  unfold wcRet
  split
  · rename_i tot ms h
    rw [h]; show progW cfg th.prog + (rfW ms + 30) ≤ progW cfg th.prog + (rfW ms + 40); omega
  · simp [thRank, pcRank, Th.ret]

theorem thRank_closeRet (cfg : Cfg) (sh : Sh) (th : Th) : thRank cfg sh (closeRet th) = progW cfg th.prog := by
  unfold closeRet
  split <;> simp [thRank, pcRank, Th.ret]

theorem rfW_tail (ms : List Nat) (h : ms ≠ []) : rfW ms = iterW (ms.headD 0) + rfW ms.tail := by
  cases ms with
  | nil => exact absurd rfl h
  | cons m rest => rfl

/-- one own step strictly decreases rank + wake-up credit -/
theorem rank_own (cfg : Cfg) (sh sh' : Sh) (me : Tid) (th th' : Th)
    (h79 : ∀ n, th.pc = .r79 n → sh.cseq < sh.pseq)
    (h60 : ∀ n, th.pc = .r60 n → th.cur = some (.read n))
    (h62 : ∀ n cpos, th.pc = .r62 n cpos → cpos = sh.cseq)
    (hview : ∀ rest cpos m, th.prog = .use :: rest → th.view = .alias cpos m → m ≤ cfg.size)
    (hslice : ∀ rest st len, th.prog = .wfill :: rest → th.slice = some (st, len) → len ≤ cfg.size)
    (hs : tstep cfg sh me th = some (sh', th')) :
    thRank cfg sh' th' + noteT sh' < thRank cfg sh th + noteT sh := by
  have hcr := tstep_crash _ _ _ _ _ hs
  obtain ⟨pc, prog, cur, slice, filled, view, pending, res⟩ := th
  simp only at h79 h60 h62 hview hslice
  cases pc
  case idle =>
    simp only [tstep, Bool.false_eq_true, ↓reduceIte, hcr] at hs
    cases prog with
    | nil => simp at hs
    | cons call rest =>
      simp only [Option.some.injEq, Prod.mk.injEq] at hs
      obtain ⟨rfl, rfl⟩ := hs
      have hv := hview rest
      have hsl := hslice rest
      cases call
      case wwait n =>
        simp only [startCall]
        refine Nat.lt_of_le_of_lt (Nat.add_le_add_right (thRank_enterWfs cfg sh _ n) _) ?_
        simp only [thRank, progW, pcRank, callW, contW, List.map_cons, List.sum_cons]
        omega
      case wcommit n =>
        simp only [startCall]
        have := Nat.min_le_left n filled
        refine Nat.lt_of_le_of_lt (Nat.add_le_add_right (thRank_enterWfs cfg sh _ (min n filled)) _) ?_
        simp only [thRank, progW, pcRank, callW, contW, List.map_cons, List.sum_cons]
        omega
      all_goals simp only [startCall, Th.goto, Th.ret, thRank, progW, pcRank, callW, contW,
        List.map_cons, List.sum_cons]
      case wfill =>
        split
        · have := hsl _ _ rfl rfl
          (try dsimp only); (try simp only [pcRank]); omega
        · (try dsimp only); (try simp only [pcRank]); omega
      case use =>
        split
        · have := hv _ _ rfl rfl
          (try dsimp only); (try simp only [pcRank]); omega
        · (try dsimp only); (try simp only [pcRank]); omega
        · (try dsimp only); (try simp only [pcRank]); omega
      all_goals (first
        | omega
        | ((try dsimp only); (try simp only [pcRank]); omega)
        | (split <;> (try dsimp only) <;> (try simp only [pcRank]) <;> omega))
  case l21 cpos =>
    simp only [tstep, Bool.false_eq_true, ↓reduceIte, hcr] at hs
    split at hs
    · split at hs
      · simp only [Option.some.injEq, Prod.mk.injEq] at hs
        obtain ⟨rfl, rfl⟩ := hs
        simp only [thRank, progW, pcRank, Th.goto, Th.ret]
        omega
      · simp only [Option.some.injEq, Prod.mk.injEq] at hs
        obtain ⟨rfl, rfl⟩ := hs
        simp only [thRank, progW, pcRank, Th.goto, Th.ret]
        split <;> omega
    · simp only [Option.some.injEq, Prod.mk.injEq] at hs
      obtain ⟨rfl, rfl⟩ := hs
      rename_i hne
      simp only [thRank, progW, pcRank, Th.goto, Th.ret]
      first
      | omega
      | (split
         · rename_i n hcur; exact absurd hcur (hne n)
         · omega)
  case r60 n =>
    have hc := h60 n rfl
    subst hc
    tstep_norm
    rcases hs with ⟨h1, rfl, rfl⟩ | ⟨h1, rfl, rfl⟩
    · simp only [thRank, progW, pcRank, Th.goto]; omega
    · simp only [thRank, progW, pcRank, Th.goto]; split <;> omega
  case r62 n cpos =>
    have hcp := h62 n cpos rfl
    simp only [tstep, Bool.false_eq_true, ↓reduceIte, hcr] at hs
    split at hs
    · simp only [Option.some.injEq, Prod.mk.injEq] at hs; obtain ⟨rfl, rfl⟩ := hs
      have hlt : cpos < sh.pseq := by omega
      simp only [thRank, progW, pcRank, Th.goto, hlt, ↓reduceIte]
      have := Nat.min_le_left n (cfg.size - cfg.idx cpos)
      omega
    · split at hs
      · simp only [Option.some.injEq, Prod.mk.injEq] at hs; obtain ⟨rfl, rfl⟩ := hs
        have hlt : cpos < sh.pseq := by assumption
        simp only [thRank, progW, pcRank, Th.goto, hlt, ↓reduceIte]
        split
        · have := Nat.min_le_left n (sh.pseq - cpos); omega
        · have := Nat.min_le_left n (cfg.size - cfg.idx cpos); omega
      · simp only [Option.some.injEq, Prod.mk.injEq] at hs; obtain ⟨rfl, rfl⟩ := hs
        have hlt : ¬ cpos < sh.pseq := by assumption
        simp only [thRank, progW, pcRank, Th.goto, hlt, ↓reduceIte]; omega
  case w40 n =>
    tstep_norm
    rcases hs with ⟨h1, rfl, rfl⟩ | ⟨h1, rfl, rfl⟩
    · simp only [thRank, progW, pcRank, Th.ret]; omega
    · refine Nat.lt_of_le_of_lt (Nat.add_le_add_right (thRank_enterWfs cfg sh _ n) _) ?_
      simp only [thRank, progW, pcRank]
      omega
  case s30 n =>
    tstep_norm
    rcases hs with ⟨h1, rfl, rfl⟩ | ⟨h1, rfl, rfl⟩
    · refine Nat.lt_of_le_of_lt (Nat.add_le_add_right (thRank_wfsErr cfg sh _ _) _) ?_
      simp only [thRank, progW, pcRank]
      omega
    · simp only [thRank, progW, pcRank, Th.goto]; omega
  case s39 n ppos =>
    tstep_norm
    rcases hs with ⟨h1, rfl, rfl⟩ | ⟨h1, rfl, rfl⟩
    · refine Nat.lt_of_le_of_lt (Nat.add_le_add_right (thRank_wfsErr cfg sh _ _) _) ?_
      simp only [thRank, progW, pcRank]
      omega
    · obtain ⟨a, b⟩ := pcRank_wfsOk cfg sh
        { pc := Pc.s39 n ppos, prog := prog, cur := cur, slice := slice, filled := filled, view := view, pending := pending } ppos n
      have h1 : thRank cfg sh (wfsOk cfg
          { pc := Pc.s39 n ppos, prog := prog, cur := cur, slice := slice, filled := filled, view := view, pending := pending } ppos n)
          ≤ progW cfg prog + (n + 13 + contW cur) := by unfold thRank; rw [b]; dsimp only at a ⊢; omega
      have h2 : thRank cfg sh ⟨Pc.s39 n ppos, prog, cur, slice, filled, view, pending, res⟩ = progW cfg prog + (n + 14 + contW cur) := rfl
      omega
  case s35 n ppos =>
    tstep_norm
    obtain ⟨rfl, rfl⟩ := hs
    refine Nat.lt_of_le_of_lt (Nat.add_le_add_right (thRank_wfsErr cfg _ _ _) _) ?_
    simp only [thRank, progW, pcRank, noteT_unlock]
    omega
  case c53 n =>
    tstep_norm
    obtain ⟨rfl, rfl⟩ := hs
    refine Nat.lt_of_le_of_lt (Nat.add_le_add_right (thRank_wcRet cfg _ _ n) _) ?_
    simp only [thRank, progW, pcRank, noteT_unlock]
    omega
  case x16 =>
    tstep_norm
    obtain ⟨rfl, rfl⟩ := hs
    rw [thRank_closeRet]
    simp only [thRank, progW, pcRank, noteT_unlock]
    omega
  case g110 tot ms =>
    tstep_norm
    rcases hs with ⟨h1, rfl, rfl⟩ | ⟨h1, rfl, rfl⟩
    · rw [thRank_rfExit]
      have := rfW_ge ms
      simp only [thRank, progW, pcRank]; omega
    · refine Nat.lt_of_le_of_lt (Nat.add_le_add_right (thRank_enterWfs cfg sh _ 1) _) ?_
      simp only [thRank, progW, pcRank, contW]
      omega
  case g111 tot ms start len =>
    tstep_norm
    rcases hs with ⟨h1, rfl, rfl⟩ | ⟨h1, rfl, rfl⟩
    · rw [thRank_rfExit]
      have := rfW_ge ms
      simp only [thRank, progW, pcRank]; omega
    · have ht := rfW_tail ms h1
      have hm := Nat.min_le_left (ms.headD 0) len
      simp only [thRank, progW, pcRank, Th.goto, ht, iterW]
      omega
  case g111r tot ms n =>
    tstep_norm
    rcases hs with ⟨h1, rfl, rfl⟩ | ⟨h1, rfl, rfl⟩
    · refine Nat.lt_of_le_of_lt (Nat.add_le_add_right (thRank_enterWfs cfg sh _ n) _) ?_
      simp only [thRank, progW, pcRank, contW]
      omega
    · simp only [thRank, progW, pcRank, Th.goto]; omega
  case p88 w n cpos ppos =>
    tstep_norm
    rcases hs with ⟨h1, rfl, rfl⟩ | ⟨h1, rfl, rfl⟩
    all_goals (
      simp only [thRank, progW, pcRank, Th.goto, Th.ret, noteT_unlock]
      repeat' split
      all_goals omega)
  case r79 n =>
    have := h79 n rfl
    tstep_norm
    obtain ⟨rfl, rfl⟩ := hs
    simp only [thRank, progW, pcRank, Th.goto, noteT_unlock, pseq_unlock, cseq_unlock, this, ↓reduceIte]
    omega
  all_goals tstep_norm
  all_goals tstep_elim
  all_goals (
    simp only [thRank, progW, pcRank, Th.goto, Th.ret, noteT_setOwner, noteT_unlock, pseq_unlock, cseq_unlock,
      pseq_setOwner, cseq_setOwner]
    first
    | omega
    | (have := noteT_bcast sh .pL; have := noteT_bcast sh .cL; have := noteT_park sh .pL; have := noteT_park sh .cL; omega)
    | (have := noteT_resume sh .pL (some me) (by assumption); omega)
    | (have := noteT_resume sh .cL (some me) (by assumption); omega)
    | (simp only [noteT]; omega)
    | (split <;> omega))


/-- another thread's step can only lower a thread's rank: the rank depends on the shared state
only at the head of `Read`'s loop, where more committed data means a shorter way to the return -/
theorem rank_mono (cfg : Cfg) (sh sh' : Sh) (th : Th) (hp : sh.pseq ≤ sh'.pseq) (hc : sh'.cseq = sh.cseq) :
    thRank cfg sh' th ≤ thRank cfg sh th := by
  unfold thRank
  apply Nat.add_le_add_left
  cases hpc : th.pc <;> simp only [pcRank, Nat.le_refl, hc]
  all_goals (split <;> split <;> omega)

theorem rank_indep (cfg : Cfg) (sh sh' : Sh) (th : Th) (hr : pcRole th.pc ≠ .cons) :
    thRank cfg sh' th = thRank cfg sh th := by
  unfold thRank
  congr 1
  cases hpc : th.pc <;> rw [hpc] at hr <;> simp only [pcRank] <;> simp [pcRole] at hr

/-- the measure of the whole system -/
def mu (cfg : Cfg) (s : St) : Nat :=
  thRank cfg s.sh s.P + thRank cfg s.sh s.C + (s.K.map (thRank cfg s.sh)).sum + noteT s.sh

theorem sum_set (f : Th → Nat) (K : List Th) (i : Nat) (th th' : Th) (h : K[i]? = some th) :
    ((K.set i th').map f).sum + f th = (K.map f).sum + f th' := by
  induction K generalizing i with
  | nil => simp at h
  | cons a K ih =>
    cases i with
    | zero =>
      simp only [List.getElem?_cons_zero, Option.some.injEq] at h
      subst h
      simp only [List.set_cons_zero, List.map_cons, List.sum_cons]; omega
    | succ i =>
      simp only [List.getElem?_cons_succ] at h
      have := ih i h
      simp only [List.set_cons_succ, List.map_cons, List.sum_cons]; omega

theorem sum_le_sum (f g : Th → Nat) (K : List Th) (h : ∀ th ∈ K, f th ≤ g th) : (K.map f).sum ≤ (K.map g).sum := by
  induction K with
  | nil => simp
  | cons a K ih =>
    simp only [List.map_cons, List.sum_cons]
    have := h a (List.mem_cons_self ..)
    have := ih (fun th hth => h th (List.mem_cons_of_mem _ hth))
    omega


theorem not_cons_pc (t : Tid) (th : Th) (ht : t ≠ .c) (hok : ThOK t th) : pcRole th.pc ≠ .cons :=
  role_not_cons t th.pc ht hok.role

/-- the side conditions of `rank_own` hold for every thread of a reachable state -/
theorem rank_hyps (cfg : Cfg) (base : Nat) (s : St) (hr : RInv cfg base s) (t : Tid) (th : Th)
    (hth : s.getTh t = some th) :
    (∀ n, th.pc = .r79 n → s.sh.cseq < s.sh.pseq) ∧
    (∀ n, th.pc = .r60 n → th.cur = some (.read n)) ∧
    (∀ n cpos, th.pc = .r62 n cpos → cpos = s.sh.cseq) ∧
    (∀ rest cpos m, th.prog = .use :: rest → th.view = .alias cpos m → m ≤ cfg.size) ∧
    (∀ rest st len, th.prog = .wfill :: rest → th.slice = some (st, len) → len ≤ cfg.size) := by
  have hok := thOK_of_rinv cfg base s hr t th hth
  have hg := hr.glob
  have hcp : s.sh.cseq ≤ s.sh.pseq := hg.cp
  have hpc : s.sh.pseq ≤ s.sh.cseq + cfg.size := hg.pc
  have hgc : s.sh.gate ≤ s.sh.cseq := hg.gc
  by_cases hc : t = .c
  · subst hc
    have hC : s.C = th := by simpa [St.getTh] using hth
    subst hC
    have hi := hr.invC
    refine ⟨?_, ?_, ?_, ?_, ?_⟩
    · intro n h; have := hi.pcinv; unfold pcC at this; rw [h] at this; exact this
    · intro n h; have := hi.pcinv; unfold pcC at this; rw [h] at this; exact this
    · intro n cpos h; have := hi.pcinv; unfold pcC at this; rw [h] at this; exact this
    · intro rest cpos m _ h
      have := hi.view; rw [h] at this
      obtain ⟨a, b⟩ := this
      have a' : cpos = s.sh.cseq := a
      have b' : cpos + m ≤ s.sh.pseq := b
      omega
    · intro rest st len h _
      have := hok.prog .wfill (by rw [h]; exact List.mem_cons_self ..)
      simp [Tid.allowed, Call.isConsumer] at this
  · have hrole := role_not_cons t th.pc hc hok.role
    refine ⟨?_, ?_, ?_, ?_, ?_⟩
    · intro n h; rw [h] at hrole; simp [pcRole] at hrole
    · intro n h; rw [h] at hrole; simp [pcRole] at hrole
    · intro n cpos h; rw [h] at hrole; simp [pcRole] at hrole
    · intro rest cpos m h _
      have := hok.prog .use (by rw [h]; exact List.mem_cons_self ..)
      cases t <;> simp [Tid.allowed, Call.isProducer] at this hc
    · intro rest st len h hsl
      by_cases hp : t = .p
      · subst hp
        have hP : s.P = th := by simpa [St.getTh] using hth
        subst hP
        obtain ⟨a, b⟩ := hr.invP.slice st len hsl
        have a' : st = s.sh.pseq := a
        have b' : st + len ≤ s.sh.cseq + cfg.size := b
        omega
      · have := hok.prog .wfill (by rw [h]; exact List.mem_cons_self ..)
        cases t <;> simp [Tid.allowed, Call.isProducer, Call.isConsumer] at this hc hp

/-- **Termination measure.** every enabled step of every thread strictly decreases `mu` -/
theorem mu_step (cfg : Cfg) (base : Nat) (s s' : St) (t : Tid) (hr : RInv cfg base s)
    (hs : step cfg s t = some s') : mu cfg s' < mu cfg s := by
  obtain ⟨hcore_c, hcore_nc⟩ := step_core cfg base s s' t hr hs
  obtain ⟨th, sh', th', hth, hst, rfl⟩ := step_some cfg s s' t hs
  obtain ⟨h79, h60, h62, hview, hslice⟩ := rank_hyps cfg base s hr t th hth
  have hown := rank_own cfg s.sh sh' t th th' h79 h60 h62 hview hslice hst
  have hsh : (({ s with sh := sh' } : St).setTh t th').sh = sh' := by cases t <;> rfl
  have hKrole : ∀ (i : Nat) (thk : Th), s.K[i]? = some thk → pcRole thk.pc ≠ .cons := fun i thk h =>
    role_not_cons (.k i) thk.pc (by simp) (hr.okK i thk h).role
  have hKeq : (s.K.map (thRank cfg sh')).sum = (s.K.map (thRank cfg s.sh)).sum := by
    congr 1
    apply List.map_congr_left
    intro thk hk
    obtain ⟨i, hi, rfl⟩ := List.mem_iff_getElem.mp hk
    exact rank_indep cfg s.sh sh' _ (hKrole i _ (List.getElem?_eq_getElem hi))
  unfold mu
  cases t with
  | p =>
    have hP : s.P = th := by simpa [St.getTh] using hth
    obtain ⟨e1, e2⟩ := hcore_nc (by simp)
    have e1' : sh'.cseq = s.sh.cseq := by rw [← hsh]; exact e1
    have e2' : s.sh.pseq ≤ sh'.pseq := by rw [← hsh]; exact e2
    have hC := rank_mono cfg s.sh sh' s.C e2' e1'
    show thRank cfg sh' th' + thRank cfg sh' s.C + (s.K.map (thRank cfg sh')).sum + noteT sh' < _
    rw [hKeq, hP]; omega
  | c =>
    have hC : s.C = th := by simpa [St.getTh] using hth
    have hPi := rank_indep cfg s.sh sh' s.P (role_not_cons .p s.P.pc (by simp) hr.okP.role)
    show thRank cfg sh' s.P + thRank cfg sh' th' + (s.K.map (thRank cfg sh')).sum + noteT sh' < _
    rw [hKeq, hC, hPi]; omega
  | k i =>
    have hthk : s.K[i]? = some th := hth
    obtain ⟨e1, e2⟩ := hcore_nc (by simp)
    have e1' : sh'.cseq = s.sh.cseq := by rw [← hsh]; exact e1
    have e2' : s.sh.pseq ≤ sh'.pseq := by rw [← hsh]; exact e2
    have hC := rank_mono cfg s.sh sh' s.C e2' e1'
    have hPi := rank_indep cfg s.sh sh' s.P (role_not_cons .p s.P.pc (by simp) hr.okP.role)
    have hset := sum_set (thRank cfg sh') s.K i th th' hthk
    have hthi := rank_indep cfg s.sh sh' th (hKrole i th hthk)
    show thRank cfg sh' s.P + thRank cfg sh' s.C + ((s.K.set i th').map (thRank cfg sh')).sum + noteT sh' < _
    rw [hPi]
    rw [hKeq] at hset
    omega

/-- number of steps of a schedule that were enabled (and therefore taken) -/
def taken (cfg : Cfg) (s : St) : List Tid → Nat
  | [] => 0
  | t :: ts =>
    match step cfg s t with
    | none => taken cfg s ts
    | some s' => taken cfg s' ts + 1

/-- no livelock: along any schedule at most `mu` steps are ever enabled -/
theorem taken_le_mu (cfg : Cfg) (base : Nat) (s : St) (sched : List Tid) (hr : RInv cfg base s) :
    taken cfg s sched + mu cfg (run cfg s sched) ≤ mu cfg s := by
  induction sched generalizing s with
  | nil => simp [taken, run]
  | cons t ts ih =>
    unfold taken run
    cases hs : step cfg s t with
    | none => simpa [hs] using ih s hr
    | some s' =>
      have h1 := mu_step cfg base s s' t hr hs
      have h2 := ih s' (inv_step cfg base s s' t hr hs)
      simp only [Option.getD_some]
      omega


/-! ### running to quiescence -/

def allTids (s : St) : List Tid := [Tid.p, Tid.c] ++ (List.range s.K.length).map Tid.k

def firstEnabled (cfg : Cfg) (s : St) : Option Tid := (allTids s).find? (fun t => (step cfg s t).isSome)

/-- keep stepping the first enabled thread, at most `fuel` times -/
def drain (cfg : Cfg) (s : St) : Nat → St
  | 0 => s
  | fuel + 1 =>
    match firstEnabled cfg s with
    | none => s
    | some t => drain cfg ((step cfg s t).getD s) fuel

theorem firstEnabled_none (cfg : Cfg) (s : St) (h : firstEnabled cfg s = none) : ∀ t, step cfg s t = none := by
  intro t
  unfold firstEnabled at h
  rw [List.find?_eq_none] at h
  cases hs : step cfg s t with
  | none => rfl
  | some s' =>
    exfalso
    have hmem : t ∈ allTids s := by
      cases t with
      | p => simp [allTids]
      | c => simp [allTids]
      | k i =>
        have : i < s.K.length := by
          rcases Nat.lt_or_ge i s.K.length with hlt | hge
          · exact hlt
          · unfold step at hs
            simp only [St.getTh, List.getElem?_eq_none hge] at hs
            cases hs
        simp [allTids, this]
    have := h t hmem
    rw [hs] at this
    simp at this

/-- from any state satisfying the invariant, at most `mu` enabled steps lead to a state in which
no thread can take a step -/
theorem drain_quiescent (cfg : Cfg) (base : Nat) (s : St) (fuel : Nat) (hr : RInv cfg base s)
    (hf : mu cfg s ≤ fuel) : ∀ t, step cfg (drain cfg s fuel) t = none := by
  induction fuel generalizing s with
  | zero =>
    -- mu = 0: nothing can be enabled
    intro t
    cases hs : step cfg s t with
    | none => simpa [drain] using hs
    | some s' => have := mu_step cfg base s s' t hr hs; omega
  | succ fuel ih =>
    unfold drain
    cases he : firstEnabled cfg s with
    | none => exact firstEnabled_none cfg s he
    | some t =>
      simp only
      have hsome : (step cfg s t).isSome = true := by
        unfold firstEnabled at he
        exact List.find?_some (p := fun t => (step cfg s t).isSome) he
      cases hs : step cfg s t with
      | none => rw [hs] at hsome; cases hsome
      | some s' =>
        simp only [Option.getD_some]
        have := mu_step cfg base s s' t hr hs
        exact ih s' (inv_step cfg base s s' t hr hs) (by omega)

theorem drain_reach (cfg : Cfg) (s : St) (fuel : Nat) : ∃ sched, drain cfg s fuel = run cfg s sched := by
  induction fuel generalizing s with
  | zero => exact ⟨[], rfl⟩
  | succ fuel ih =>
    unfold drain
    cases he : firstEnabled cfg s with
    | none => exact ⟨[], rfl⟩
    | some t =>
      obtain ⟨sched, h⟩ := ih ((step cfg s t).getD s)
      exact ⟨t :: sched, by simp only [run]; exact h⟩

end Mqtt.Proofs.Ring
