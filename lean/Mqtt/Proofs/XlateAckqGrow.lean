/-
Tie between the regenerated translation of `sessions/ackqueue.go` and the model
`Model/AckQueue.lean`, part 1: the map abstraction, the small accessors,
`removeHead`, `grow` and `newAckqueue` (statements in `XlateAckqBase.lean`).
-/
import Mqtt.Proofs.XlateAckqBase
import Mqtt.Proofs.XlatePow2

namespace Mqtt.Proofs.XlateAckq

open Mqtt.Generated
open Mqtt.Generated.Xlate
open Mqtt.Model.AckQueue
open Mqtt.Proofs.AckQueue (Inv)
open Mqtt.Proofs.XlatePow2

/-! ### the map abstraction (general: any translated `map[uint16]int64`) -/

/-- a translated `map[uint16]int64` as the model's association list -/
def absMap (m : List (UInt16 × Int)) : List (Nat × Nat) := m.map (fun p => (p.1.toNat, p.2.toNat))

theorem absQ_emap (aq : Sessions.Ackqueue) : (absQ aq).emap = absMap aq.emap := rfl

theorem absMap_nil : absMap [] = [] := rfl

theorem absMap_cons (k : UInt16) (v : Int) (m : List (UInt16 × Int)) :
    absMap ((k, v) :: m) = (k.toNat, v.toNat) :: absMap m := rfl

theorem u16_bne (a b : UInt16) : (a.toNat != b.toNat) = (a != b) := by
  rw [Bool.eq_iff_iff]
  simp only [bne_iff_ne, ne_eq]
  exact not_congr UInt16.toNat_inj

theorem u16_beq (a b : UInt16) : (a.toNat == b.toNat) = (a == b) := by
  rw [Bool.eq_iff_iff]
  simp only [beq_iff_eq]
  exact UInt16.toNat_inj

theorem absMap_get (m : List (UInt16 × Int)) (k : UInt16) :
    emapGet (absMap m) k.toNat = (Go.mapGet m k).map Int.toNat := by
  induction m with
  | nil => rfl
  | cons p m ih =>
    obtain ⟨a, b⟩ := p
    unfold emapGet Go.mapGet at *
    rw [absMap_cons, List.lookup_cons, List.lookup_cons, u16_beq]
    cases h : (k == a)
    · exact ih
    · rfl

theorem absMap_del (m : List (UInt16 × Int)) (k : UInt16) :
    absMap (Go.mapDel m k) = emapDel (absMap m) k.toNat := by
  induction m with
  | nil => rfl
  | cons p m ih =>
    obtain ⟨a, b⟩ := p
    unfold emapDel Go.mapDel at *
    rw [absMap_cons, List.filter_cons, List.filter_cons]
    simp only [u16_bne]
    cases h : (a != k)
    · exact ih
    · simp only [↓reduceIte, absMap_cons, ih]

theorem absMap_set (m : List (UInt16 × Int)) (k : UInt16) (v : Int) :
    absMap (Go.mapSet m k v) = emapSet (absMap m) k.toNat v.toNat := by
  unfold Go.mapSet emapSet
  rw [absMap_cons, absMap_del]

/-- "the indices stored in the map are not negative" (the `emap` field of `GWf`) -/
def MapNonneg (m : List (UInt16 × Int)) : Prop := ∀ p ∈ m, 0 ≤ p.2

theorem GWf.mapNonneg {aq : Sessions.Ackqueue} (h : GWf aq) : MapNonneg aq.emap := h.emap

theorem mapNonneg_nil : MapNonneg [] := by intro p hp; cases hp

theorem mapDel_nonneg {m : List (UInt16 × Int)} (h : MapNonneg m) (k : UInt16) :
    MapNonneg (Go.mapDel m k) := by
  intro p hp
  unfold Go.mapDel at hp
  exact h p (List.mem_filter.mp hp).1

theorem mapSet_nonneg {m : List (UInt16 × Int)} (h : MapNonneg m) (k : UInt16) {v : Int}
    (hv : 0 ≤ v) : MapNonneg (Go.mapSet m k v) := by
  intro p hp
  unfold Go.mapSet at hp
  rcases List.mem_cons.mp hp with rfl | hp
  · exact hv
  · exact mapDel_nonneg h k p hp

theorem mapGet_nonneg {m : List (UInt16 × Int)} (h : MapNonneg m) {k : UInt16} {i : Int}
    (hg : Go.mapGet m k = some i) : 0 ≤ i := by
  induction m with
  | nil => cases hg
  | cons p m ih =>
    obtain ⟨a, b⟩ := p
    unfold Go.mapGet at hg ih
    rw [List.lookup_cons] at hg
    cases hk : (k == a)
    · rw [hk] at hg
      exact ih (fun p hp => h p (List.mem_cons_of_mem _ hp)) hg
    · rw [hk] at hg
      have hb : 0 ≤ b := h (a, b) (List.mem_cons_self ..)
      cases hg
      exact hb

/-- a successful lookup in the translated map is the model's lookup -/
theorem absMap_get_some {m : List (UInt16 × Int)} {k : UInt16} {i : Int}
    (hg : Go.mapGet m k = some i) : emapGet (absMap m) k.toNat = some i.toNat := by
  rw [absMap_get, hg]; rfl

theorem absMap_get_none {m : List (UInt16 × Int)} {k : UInt16}
    (hg : Go.mapGet m k = none) : emapGet (absMap m) k.toNat = none := by
  rw [absMap_get, hg]; rfl

/-! ### `AckMsg` -/

theorem absMsg_zero : absMsg Sessions.AckMsg.zero = AckMsg.zero := rfl

theorem absMsg_zero' :
    absMsg (⟨(0 : UInt8), (0 : UInt8), (0 : UInt16), ([] : List UInt8), ([] : List UInt8), (0 : Nat)⟩ : Sessions.AckMsg)
      = AckMsg.zero := rfl

theorem absMsg_pktid (a : Sessions.AckMsg) : (absMsg a).pktid = a.Pktid.toNat := rfl

theorem map_getD_absMsg (l : List Sessions.AckMsg) (i : Nat) :
    (l.map absMsg).getD i AckMsg.zero = absMsg (l.getD i Sessions.AckMsg.zero) := by
  simp only [List.getD_eq_getElem?_getD, List.getElem?_map]
  cases l[i]? <;> rfl

theorem absQ_get (aq : Sessions.Ackqueue) (i : Nat) :
    (absQ aq).get i = absMsg (aq.ring.getD i Sessions.AckMsg.zero) :=
  map_getD_absMsg aq.ring i

/-! ### facts under `GWf` / `Inv` -/

theorem mask_eq {aq : Sessions.Ackqueue} (hw : GWf aq) (hi : Inv (absQ aq)) :
    aq.mask = ((aq.size.toNat - 1 : Nat) : Int) := by
  have h1 : aq.mask.toNat = aq.size.toNat - 1 := hi.mask
  have := hw.mask
  omega

theorem ring_length {aq : Sessions.Ackqueue} (hi : Inv (absQ aq)) :
    aq.ring.length = aq.size.toNat := by
  have h1 : (aq.ring.map absMsg).length = aq.size.toNat := hi.len
  simpa using h1

/-! ### the small accessors -/

theorem len_is_source (aq : Sessions.Ackqueue) (hw : GWf aq) :
    Sessions.Ackqueue.len aq = (((absQ aq).count : Nat) : Int) := by
  have := hw.count
  show aq.count = ((aq.count.toNat : Nat) : Int)
  omega

theorem cap_is_source (aq : Sessions.Ackqueue) (hw : GWf aq) :
    Sessions.Ackqueue.cap aq = (((absQ aq).size : Nat) : Int) := by
  have := hw.size
  show aq.size = ((aq.size.toNat : Nat) : Int)
  omega

theorem full_is_source (aq : Sessions.Ackqueue) (hw : GWf aq) :
    Sessions.Ackqueue.full aq = (absQ aq).full := by
  have h1 := hw.count
  have h2 := hw.size
  show (aq.count == aq.size) = (aq.count.toNat == aq.size.toNat)
  rw [Bool.eq_iff_iff]; simp only [beq_iff_eq]; omega

theorem empty_is_source (aq : Sessions.Ackqueue) (hw : GWf aq) :
    Sessions.Ackqueue.empty aq = (absQ aq).empty := by
  have h1 := hw.count
  show (aq.count == 0) = (aq.count.toNat == 0)
  rw [Bool.eq_iff_iff]; simp only [beq_iff_eq]; omega

theorem index_is_source (aq : Sessions.Ackqueue) (hw : GWf aq) (hi : Inv (absQ aq))
    (hs : aq.size ≤ 2 ^ 61) (n : Int) (hn : 0 ≤ n ∧ n < 2 ^ 63) :
    Sessions.Ackqueue.index aq n = (((absQ aq).index n.toNat : Nat) : Int) := by
  unfold Sessions.Ackqueue.index
  have hm := mask_eq hw hi
  have e : n = ((n.toNat : Nat) : Int) := by omega
  rw [hm]
  conv => lhs; rw [e]
  rw [andInt_natCast n.toNat (aq.size.toNat - 1) (by omega) (by omega)]
  show _ = ((n.toNat &&& aq.mask.toNat : Nat) : Int)
  rw [hm]; rfl

theorem increment_is_source (aq : Sessions.Ackqueue) (hw : GWf aq) (hi : Inv (absQ aq))
    (hs : aq.size ≤ 2 ^ 61) (n : Int) (hn : 0 ≤ n ∧ n < 2 ^ 63 - 1) :
    Sessions.Ackqueue.increment aq n = (((absQ aq).increment n.toNat : Nat) : Int) := by
  unfold Sessions.Ackqueue.increment Q.increment
  rw [index_is_source aq hw hi hs (n + 1) (by omega)]
  have : (n + 1).toNat = n.toNat + 1 := by omega
  rw [this]
/-! ### `removeHead` -/

theorem removeHead_is_source : RemoveHeadSpec := by
  intro aq hw hi hs
  unfold Sessions.Ackqueue.removeHead
  rw [empty_is_source aq hw]
  cases he : (absQ aq).empty
  · have hlen := ring_length hi
    have hhead : aq.head.toNat < aq.ring.length := by rw [hlen]; exact hi.head
    have h0 := hw.head
    have hc0 := hw.count
    have hcnt : aq.count ≠ 0 := by
      intro h
      have : (aq.count.toNat == 0) = false := he
      rw [h] at this; exact Bool.noConfusion this
    have hsz : aq.size.toNat = aq.ring.length := hlen.symm
    simp only [Bool.false_eq_true, ↓reduceIte, h0, hhead, decide_true, Bool.and_self]
    have hinc := increment_is_source aq hw hi hs aq.head (by omega)
    refine ⟨_, rfl, ?_, ?_, rfl⟩
    · rw [Q.removeHead, he]
      simp only [Bool.false_eq_true, ↓reduceIte]
      unfold absQ
      simp only [Q.mk.injEq, true_and]
      refine ⟨?_, ?_, ?_, ?_⟩
      · omega
      · show (Sessions.Ackqueue.increment aq aq.head).toNat = _
        rw [hinc]; rfl
      · rw [List.map_set]; rfl
      · show absMap (Go.mapDel aq.emap _) = _
        rw [absMap_del, ← absMsg_pktid, ← absQ_get]; rfl
    · refine ⟨hw.size, hw.mask, ?_, ?_, hw.tail, mapDel_nonneg hw.emap _⟩
      · show 0 ≤ aq.count - 1
        omega
      · show 0 ≤ Sessions.Ackqueue.increment aq aq.head
        rw [hinc]; omega
  · simp only [↓reduceIte]
    exact ⟨aq, rfl, by rw [Q.removeHead, he]; rfl, hw, rfl⟩

/-! ### `grow`: the map-rebuilding loop -/

/-- the map after the iterations `i, …, i+n-1` of `for i < aq.tail` in `grow` -/
def growFold (ring : List Sessions.AckMsg) (m0 : List (UInt16 × Int)) (i n : Nat) : List (UInt16 × Int) :=
  (List.range' i n).foldl
    (fun m j => Go.mapSet m (ring.getD j Sessions.AckMsg.zero).Pktid ((j : Nat) : Int)) m0

theorem growFold_zero (ring : List Sessions.AckMsg) (m0 : List (UInt16 × Int)) (i : Nat) :
    growFold ring m0 i 0 = m0 := rfl

theorem growFold_succ (ring : List Sessions.AckMsg) (m0 : List (UInt16 × Int)) (i n : Nat) :
    growFold ring m0 i (n + 1) =
      growFold ring (Go.mapSet m0 (ring.getD i Sessions.AckMsg.zero).Pktid ((i : Nat) : Int)) (i + 1) n := rfl

theorem grow_loop1 (n : Nat) : ∀ (fuel : Nat) (aq : Sessions.Ackqueue) (i : Nat),
    0 ≤ aq.tail → aq.tail.toNat = i + n → aq.tail.toNat ≤ aq.ring.length → n + 1 ≤ fuel →
    Sessions.Ackqueue.grow.loop1 fuel aq i = .ok { aq with emap := growFold aq.ring aq.emap i n } := by
  induction n with
  | zero =>
    intro fuel aq i h0 ht hl hf
    obtain ⟨f, rfl⟩ : ∃ f, fuel = f + 1 := ⟨fuel - 1, by omega⟩
    unfold Sessions.Ackqueue.grow.loop1
    have : ¬ ((i : Int) < aq.tail) := by omega
    simp only [this, decide_false, Bool.false_eq_true, ↓reduceIte, growFold_zero]
  | succ n ih =>
    intro fuel aq i h0 ht hl hf
    obtain ⟨f, rfl⟩ : ∃ f, fuel = f + 1 := ⟨fuel - 1, by omega⟩
    unfold Sessions.Ackqueue.grow.loop1
    have h1 : ((i : Int) < aq.tail) := by omega
    have h2 : i < aq.ring.length := by omega
    simp only [h1, h2, decide_true, ↓reduceIte]
    have := ih f { aq with emap := Go.mapSet aq.emap (aq.ring.getD i Sessions.AckMsg.zero).Pktid ((i : Nat) : Int) } (i + 1) h0 (by show aq.tail.toNat = _; omega) hl (by omega)
    rw [this, growFold_succ]

theorem absMap_growFold (ring : List Sessions.AckMsg) (n : Nat) : ∀ (m0 : List (UInt16 × Int)) (i : Nat),
    absMap (growFold ring m0 i n) =
      (List.range' i n).foldl
        (fun m j => emapSet m ((ring.map absMsg).getD j AckMsg.zero).pktid j) (absMap m0) := by
  induction n with
  | zero => intro m0 i; rfl
  | succ n ih =>
    intro m0 i
    rw [growFold_succ, ih, absMap_set, List.range'_succ, List.foldl_cons, map_getD_absMsg]
    rfl

theorem growFold_nonneg (ring : List Sessions.AckMsg) (n : Nat) : ∀ (m0 : List (UInt16 × Int)) (i : Nat),
    MapNonneg m0 → MapNonneg (growFold ring m0 i n) := by
  induction n with
  | zero => intro m0 i h; exact h
  | succ n ih =>
    intro m0 i h
    rw [growFold_succ]
    exact ih _ _ (mapSet_nonneg h _ (by omega))

/-! ### `grow`: the two `copy` shapes -/

theorem copy_one {α : Type} (F : List α) (N : Nat) (z : α) (h : F.length ≤ N) :
    F.take (List.replicate N z).length ++ (List.replicate N z).drop F.length
      = F ++ List.replicate (N - F.length) z := by
  rw [List.length_replicate, List.take_of_length_le h, List.drop_replicate]

theorem copy_two {α : Type} (A B : List α) (N a : Nat) (z : α) (ha : A.length = a)
    (h : a + B.length ≤ N) :
    (A ++ List.replicate (N - a) z).take a ++
        (B.take ((A ++ List.replicate (N - a) z).length - a) ++
          (A ++ List.replicate (N - a) z).drop (a + B.length))
      = (A ++ B) ++ List.replicate (N - (A ++ B).length) z := by
  subst ha
  rw [List.take_left', List.length_append, List.length_replicate,
    List.take_of_length_le (by omega), List.drop_append, List.drop_of_length_le (by omega),
    List.drop_replicate, List.length_append, List.append_assoc, List.nil_append]
  · congr 3; omega
  · rfl

/-- the live window moved to the front, as both `grow`s compute it -/
def growFront {α : Type} (R : List α) (h t : Nat) : List α :=
  if t > h then (R.drop h).take (t - h) else R.drop h ++ R.take t

theorem growFront_map {α β : Type} (f : α → β) (R : List α) (h t : Nat) :
    (growFront R h t).map f = growFront (R.map f) h t := by
  unfold growFront
  split
  · rw [List.map_take, List.map_drop]
  · rw [List.map_append, List.map_take, List.map_drop]

theorem inv_nat {aq : Sessions.Ackqueue} (hi : Inv (absQ aq)) :
    aq.ring.length = aq.size.toNat ∧ aq.head.toNat < aq.size.toNat ∧ aq.count.toNat ≤ aq.size.toNat ∧
      aq.tail.toNat = (aq.head.toNat + aq.count.toNat) % aq.size.toNat ∧ aq.tail.toNat < aq.size.toNat :=
  ⟨ring_length hi, hi.head, hi.cnt, hi.tail, Mqtt.Proofs.AckQueue.tail_lt hi⟩

theorem grow_copies (aq : Sessions.Ackqueue) (hw : GWf aq) (hi : Inv (absQ aq)) (hs : aq.size ≤ 2 ^ 61) :
    Sessions.Ackqueue.grow aq = Sessions.Ackqueue.grow.join1 aq (aq.size * 2) (aq.size * 2 - 1)
      (growFront aq.ring aq.head.toNat aq.tail.toNat ++
        List.replicate (aq.size.toNat * 2 - (growFront aq.ring aq.head.toNat aq.tail.toNat).length)
          Sessions.AckMsg.zero) := by
  obtain ⟨hlen, hhead, hcnt, htail, htl⟩ := inv_nat hi
  have h0s := hw.size
  have h0h := hw.head
  have h0t := hw.tail
  have hp : (2 : Int) ^ (1 : Nat) = 2 := rfl
  have hN : (aq.size * 2).toNat = aq.size.toNat * 2 := by omega
  unfold Sessions.Ackqueue.grow
  rw [hp]
  have hnp : ¬ ((4611686018427387903 : Int) < aq.size) := by omega
  have hns : (0 : Int) ≤ aq.size * 2 := by omega
  simp only [hnp, hns, decide_false, decide_true, Bool.false_eq_true, ↓reduceIte, hN]
  by_cases hth : aq.tail > aq.head
  · have c1 : aq.head.toNat ≤ aq.tail.toNat := by omega
    have c2 : aq.tail.toNat ≤ aq.ring.length := by omega
    have c3 : aq.tail.toNat > aq.head.toNat := by omega
    simp only [hth, h0h, h0t, c1, c2, decide_true, Bool.and_self, ↓reduceIte]
    rw [copy_one _ _ _ (by rw [List.length_take, List.length_drop]; omega)]
    unfold growFront
    rw [if_pos c3]
  · have c1 : aq.head.toNat ≤ aq.ring.length := by omega
    have c2 : aq.tail.toNat ≤ aq.ring.length := by omega
    have c3 : ¬ aq.tail.toNat > aq.head.toNat := by omega
    have c4 : (0 : Int) ≤ aq.size - aq.head := by omega
    have hA : (aq.ring.drop aq.head.toNat).length = (aq.size - aq.head).toNat := by
      rw [List.length_drop]; omega
    simp only [hth, h0h, c1, decide_true, decide_false, Bool.and_self, Bool.false_eq_true, ↓reduceIte]
    rw [copy_one _ _ _ (by rw [hA]; omega), hA]
    have c5 : (aq.size - aq.head).toNat ≤
        (aq.ring.drop aq.head.toNat ++ List.replicate (aq.size.toNat * 2 - (aq.size - aq.head).toNat)
          Sessions.AckMsg.zero).length := by
      rw [List.length_append, List.length_replicate, hA]; omega
    simp only [c4, h0t, c2, c5, decide_true, Bool.and_self, ↓reduceIte]
    rw [copy_two _ _ _ _ _ hA (by rw [List.length_take]; omega)]
    unfold growFront
    rw [if_neg c3]

theorem growFront_length_map {α β : Type} (f : α → β) (R : List α) (h t : Nat) :
    (growFront (R.map f) h t).length = (growFront R h t).length := by
  rw [← growFront_map, List.length_map]

/-- the model's `grow` with the front named -/
theorem Q_grow_eq (q : Q) :
    q.grow =
      { q with size := q.size * 2, mask := q.size * 2 - 1,
               ring := growFront q.ring q.head q.tail ++ List.replicate (q.size * 2 - (growFront q.ring q.head q.tail).length) AckMsg.zero,
               head := 0, tail := q.count,
               emap := (List.range' 0 q.count).foldl (fun m i => emapSet m ((growFront q.ring q.head q.tail ++ List.replicate (q.size * 2 - (growFront q.ring q.head q.tail).length) AckMsg.zero).getD i AckMsg.zero).pktid i) [] } := by
  unfold Q.grow growFront
  simp only [List.range_eq_range']

theorem grow_is_source : GrowSpec := by
  intro aq hw hi hs
  obtain ⟨hlen, hhead, hcnt, htail, htl⟩ := inv_nat hi
  have h0c := hw.count
  have h0s := hw.size
  rw [grow_copies aq hw hi hs]
  unfold Sessions.Ackqueue.grow.join1
  simp only []
  rw [grow_loop1 aq.count.toNat]
  · refine ⟨_, rfl, ?_, ?_, rfl⟩
    · rw [Q_grow_eq]
      unfold absQ
      simp only [Q.mk.injEq]
      refine ⟨by omega, by omega, trivial, rfl, trivial, trivial, ?_, ?_⟩
      · rw [List.map_append, List.map_replicate, growFront_map, growFront_length_map, absMsg_zero]
      · show absMap (growFold _ _ _ _) = _
        rw [absMap_growFold, List.map_append, List.map_replicate, growFront_map, growFront_length_map, absMsg_zero]
        rfl
    · refine ⟨by show (0 : Int) ≤ aq.size * 2; omega, by show (0 : Int) ≤ aq.size * 2 - 1; omega, h0c, Int.le_refl 0, h0c, ?_⟩
      exact growFold_nonneg _ _ _ _ mapNonneg_nil
  · exact h0c
  · show aq.count.toNat = 0 + aq.count.toNat
    omega
  · show aq.count.toNat ≤ (_ ++ _ : List Sessions.AckMsg).length
    rw [List.length_append, List.length_replicate]
    omega
  · show aq.count.toNat + 1 ≤ (aq.count - ((0 : Nat) : Int)).toNat + 2
    omega

/-! ### `newAckqueue` -/

/-- the size both constructors choose -/
theorem newAckqueue_size (n : Int) (hn : 0 < n ∧ n ≤ 2 ^ 62) :
    ∃ m : Int, (if (!(Sessions.powerOfTwo64 n)) then Sessions.roundUpPowerOfTwo64 n else n) = m ∧
      0 < m ∧ m < 2 ^ 63 ∧
      (if Mqtt.Model.AckQueue.powerOfTwo64 (BitVec.ofNat 64 n.toNat) then BitVec.ofNat 64 n.toNat
        else Mqtt.Model.AckQueue.roundUpPowerOfTwo64 (BitVec.ofNat 64 n.toNat)).toNat = m.toNat := by
  have hcast : BitVec.ofNat 64 n.toNat = BitVec.ofInt 64 n := by
    rw [← BitVec.ofInt_natCast]; congr 1; omega
  rw [hcast, ← powerOfTwo64_is_source n (by omega)]
  cases hp : Sessions.powerOfTwo64 n
  · refine ⟨Sessions.roundUpPowerOfTwo64 n, rfl, ?_⟩
    obtain ⟨k, hk, h1, h2⟩ := roundUpPowerOfTwo64_least n hn
    have hpart := roundUpPowerOfTwo64_partial n (by omega)
    simp only [Bool.false_eq_true, ↓reduceIte]
    generalize Mqtt.Model.AckQueue.roundUpPowerOfTwo64 (BitVec.ofInt 64 n) = x at hpart
    have hx := x.isLt
    rw [BitVec.toInt_eq_toNat_cond] at hpart
    refine ⟨by omega, by omega, ?_⟩
    split at hpart <;> omega
  · refine ⟨n, rfl, hn.1, by omega, ?_⟩
    simp only [↓reduceIte]
    rw [← hcast, BitVec.toNat_ofNat]
    omega

theorem newAckqueue_is_source (n : Int) (hn : 0 < n ∧ n ≤ 2 ^ 62) :
    ∃ aq, Sessions.newAckqueue n = .ok aq ∧
      absQ aq = Mqtt.Model.AckQueue.newAckqueue n.toNat ∧ GWf aq := by
  obtain ⟨m, hg, h0, h1, hm⟩ := newAckqueue_size n hn
  unfold Sessions.newAckqueue Mqtt.Model.AckQueue.newAckqueue
  simp only []
  rw [hg, hm]
  have : (0 : Int) ≤ m := by omega
  simp only [this, decide_true, ↓reduceIte]
  refine ⟨_, rfl, ?_, ⟨by omega, by show (0 : Int) ≤ m - 1; omega, Int.le_refl 0, Int.le_refl 0, Int.le_refl 0, mapNonneg_nil⟩⟩
  unfold absQ
  simp only [Q.mk.injEq, List.map_nil, List.map_replicate, absMsg_zero, and_true, true_and]
  refine ⟨?_, rfl, rfl, rfl⟩
  omega

/-- outside the precondition (`n ≤ 0`, e.g. the zero `int`): both constructors build the empty
ring of size 0; the model's `mask` is `0 - 1 = 0` on `Nat`, the code's is `-1`, so the
translated value is not `GWf` (and `Inv` fails: 0 is not a power of two). -/
theorem newAckqueue_zero :
    Sessions.newAckqueue 0 = .ok ⟨0, -1, 0, 0, 0, [], [], [], []⟩ ∧
      absQ ⟨0, -1, 0, 0, 0, [], [], [], []⟩ = Mqtt.Model.AckQueue.newAckqueue 0 ∧
      ¬ GWf ⟨0, -1, 0, 0, 0, [], [], [], []⟩ := by
  refine ⟨by decide, by decide, fun h => ?_⟩
  exact absurd h.mask (by decide)

theorem msb_of_neg {n : Int} (h : -2 ^ 63 ≤ n ∧ n < 0) : (BitVec.ofInt 64 n).msb = true := by
  rw [BitVec.msb_eq_toInt, toInt_ofInt_self (by omega)]
  exact decide_eq_true h.2

theorem powerOfTwo64_nonpos (n : Int) (h : -2 ^ 63 < n ∧ n ≤ 0) : Sessions.powerOfTwo64 n = false := by
  by_cases h0 : n = 0
  · subst h0; rfl
  · unfold Sessions.powerOfTwo64 Go.andInt
    have hm : (BitVec.ofInt 64 n &&& BitVec.ofInt 64 (n - 1)).msb = true := by
      rw [BitVec.msb_and, msb_of_neg (by omega), msb_of_neg (by omega)]; rfl
    have := BitVec.toInt_neg_of_msb_true hm
    have hne : ((BitVec.ofInt 64 n &&& BitVec.ofInt 64 (n - 1)).toInt == 0) = false := by
      rw [beq_eq_false_iff_ne]; omega
    rw [hne, Bool.and_false]

theorem roundUpPowerOfTwo64_nonpos (n : Int) (h : -2 ^ 63 < n ∧ n ≤ 0) :
    Sessions.roundUpPowerOfTwo64 n = 0 := by
  obtain ⟨L, hL, hlt, hge, hg, hm⟩ := roundUp_both n (by omega)
  have hp := toNat_pred n (by omega)
  rw [if_neg (by omega)] at hp
  have hL64 : L = 64 := by
    by_cases h0 : L ≤ 63
    · have : 2 ^ L ≤ 2 ^ 63 := Nat.pow_le_pow_right (by omega) h0
      omega
    · omega
  subst hL64
  rw [hg]; decide

/-- every `n ≤ 0` (above `-2^63`) behaves like `0` on both sides -/
theorem newAckqueue_nonpos (n : Int) (h : -2 ^ 63 < n ∧ n ≤ 0) :
    Sessions.newAckqueue n = .ok ⟨0, -1, 0, 0, 0, [], [], [], []⟩ ∧
      Mqtt.Model.AckQueue.newAckqueue n.toNat = Mqtt.Model.AckQueue.newAckqueue 0 := by
  constructor
  · unfold Sessions.newAckqueue
    simp only [powerOfTwo64_nonpos n h, roundUpPowerOfTwo64_nonpos n h, Bool.not_false, ↓reduceIte]
    rfl
  · have : n.toNat = 0 := by omega
    rw [this]

end Mqtt.Proofs.XlateAckq
