/-
Core E/F, helper lemmas for C05: an event of connection `A` — first packet,
any packet, the end of the connection — leaves every other connection's table
entry and session object alone, and what it emits is addressed to `A` itself or
is the fan-out of a message (`fwdOk`: a PUBLISH with RETAIN = 0 to a connection,
or an in-process callback).
-/
import Mqtt.Proofs.BrokerLifeWillKept
import Mqtt.Proofs.BrokerFanoutOut

set_option linter.unusedSimpArgs false
set_option linter.unusedVariables false

namespace Mqtt.Proofs.BrokerIso
open Mqtt.Iface.Broker Mqtt.Model.Broker
open Mqtt.Proofs.BrokerLife
open Mqtt.Proofs.Broker (fwdOk onPublish_out)

/-- events of connection `A`: its first packet, a packet on it, its end -/
def onConn (A : Nat) : Ev → Bool
  | .first c _ _ => c == A
  | .packet c _ => c == A
  | .close c => c == A
  | _ => false

/-- an output addressed to connection `A` itself: a packet written to it, or its close -/
def ownOut (A : Nat) : Out → Bool
  | .send c _ => c == A
  | .closed c => c == A
  | _ => false

/-- what an event of `A` may emit -/
def isoOut (A : Nat) (o : Out) : Bool := ownOut A o || fwdOk o

theorem onConn_cases {A : Nat} {e : Ev} (h : onConn A e = true) :
    (∃ f a, e = .first A f a) ∨ (∃ p, e = .packet A p) ∨ e = .close A := by
  cases e with
  | first c f a => simp only [onConn, beq_iff_eq] at h; subst h; exact .inl ⟨f, a, rfl⟩
  | packet c p => simp only [onConn, beq_iff_eq] at h; subst h; exact .inr (.inl ⟨p, rfl⟩)
  | close c => simp only [onConn, beq_iff_eq] at h; subst h; exact .inr (.inr rfl)
  | srvPub p => simp [onConn] at h
  | srvSub cb f q => simp [onConn] at h
  | srvUnsub cb f => simp [onConn] at h

/-! ### take-over

The one way in which an event of `A` legitimately ends another connection: a first packet that
is an acceptable CONNECT carrying the client identifier of a live connection disconnects that
connection (MQTT-3.1.4-2, `takenOver`).  The isolation statements are about events that take
nobody over. -/

/-- the event takes nobody over -/
def noTakeOver (b : B) : Ev → Prop
  | .first _ f a => takenOver b f a = []
  | _ => True

/-- ... all along a run -/
def noTakeOverRun : B → List Ev → Prop
  | _, [] => True
  | b, e :: es => noTakeOver b e ∧ noTakeOverRun (step b e).1 es

theorem step_first_noTakeOver (b : B) (c : Nat) (f : First) (a : Bool) (h : noTakeOver b (.first c f a)) :
    step b (.first c f a) = first b c f a := by
  have h0 : takenOver b f a = [] := h
  rw [Mqtt.Proofs.Connect.step_first_eq, Mqtt.Proofs.Connect.connect_eq, takeOver_eq, h0]
  simp [Mqtt.Proofs.Connect.stopAll_nil]

theorem noTakeOverRun_of_notFirst (evs : List Ev) (h : ∀ e ∈ evs, ∀ c f a, e ≠ .first c f a) :
    ∀ b, noTakeOverRun b evs := by
  induction evs with
  | nil => intro b; trivial
  | cons e es ih =>
    intro b
    refine ⟨?_, ih (fun e' he' => h e' (List.mem_cons_of_mem _ he')) _⟩
    cases e with
    | first c f a => exact absurd rfl (h _ (List.mem_cons_self ..) c f a)
    | _ => trivial

/-! ### the other connections' table entries -/

theorem step_getConn_other (b : B) (A B' : Nat) (e : Ev) (he : onConn A e = true) (hne : B' ≠ A)
    (hto : noTakeOver b e) : (step b e).1.getConn B' = b.getConn B' := by
  apply step_conn_kept
  rcases onConn_cases he with ⟨f, a, rfl⟩ | ⟨p, rfl⟩ | rfl
  · intro h
    rcases h with h | h
    · exact hne h.symm
    · have h0 : takenOver b f a = [] := hto
      rw [h0] at h; cases h
  · cases p <;> simp only [endsConn] <;> first | exact fun h => hne h.symm | exact fun h => h
  · exact fun h => hne h.symm

theorem step_alive_other (b : B) (A B' : Nat) (e : Ev) (he : onConn A e = true) (hne : B' ≠ A)
    (hto : noTakeOver b e) : (step b e).1.alive B' = b.alive B' := by
  unfold B.alive
  rw [step_getConn_other b A B' e he hne hto]

/-! ### outputs -/

theorem fwd_iso (A : Nat) (o : Out) (h : fwdOk o = true) : isoOut A o = true := by
  simp [isoOut, h]

theorem send_iso (b : B) (c : Nat) (p : Packet) : ∀ o ∈ send b c p, isoOut c o = true := by
  intro o ho
  unfold send at ho
  split at ho
  · simp only [List.mem_singleton] at ho; subst ho; simp [isoOut, ownOut]
  · cases ho

theorem releaseAll_fwd (l : List QEntry) : ∀ (b : B), ∀ o ∈ (releaseAll b l).2, fwdOk o = true := by
  induction l with
  | nil => intro b o ho; cases ho
  | cons e es ih =>
    intro b o ho
    simp only [releaseAll, List.mem_append] at ho
    rcases ho with ho | ho
    · exact onPublish_out b _ o ho
    · exact ih _ o ho

theorem sendRetained_own (c : Nat) (l : List Msg) : ∀ (b : B), ∀ o ∈ (sendRetained b c l).2, ownOut c o = true := by
  induction l with
  | nil => intro b o ho; cases ho
  | cons m ms ih =>
    intro b o ho
    simp only [sendRetained] at ho
    split at ho
    · cases ho
    · split at ho
      · cases ho
      · simp only [List.mem_cons] at ho
        rcases ho with rfl | ho
        · simp [ownOut]
        · exact ih _ o ho

theorem stop_iso (b : B) (c : Nat) : ∀ o ∈ (stop b c).2, isoOut c o = true := by
  intro o ho
  cases hal : b.alive c with
  | false => rw [stop_dead b c hal] at ho; cases ho
  | true =>
    obtain ⟨cn, hc, ha⟩ := (alive_true_iff b c).mp hal
    cases hs : b.getSess cn.sess with
    | none =>
      rw [stop_live_nosess b c cn hc ha hs] at ho
      simp only [List.mem_singleton] at ho; subst ho; simp [isoOut, ownOut]
    | some s =>
      rw [stop_live b c cn s hc ha hs] at ho
      split at ho
      · split at ho
        · simp only [List.mem_singleton] at ho; subst ho; simp [isoOut, ownOut]
        · simp only [List.mem_cons] at ho
          rcases ho with rfl | ho
          · simp [isoOut, ownOut]
          · exact fwd_iso c o (onPublish_out _ _ o ho)
      · simp only [List.mem_singleton] at ho; subst ho; simp [isoOut, ownOut]

theorem first_iso (b : B) (c : Nat) (f : First) (a : Bool) : ∀ o ∈ (first b c f a).2, isoOut c o = true := by
  intro o ho
  cases hacc : accepts f a with
  | false =>
    rcases first_refused b c f a hacc with h1 | ⟨k, _, h1⟩
    · rw [h1] at ho; simp only [List.mem_singleton] at ho; subst ho; simp [isoOut, ownOut]
    · rw [h1] at ho
      simp only [List.mem_cons, List.not_mem_nil, or_false] at ho
      rcases ho with rfl | rfl <;> simp [isoOut, ownOut]
  | true =>
    cases f with
    | garbage => simp [accepts] at hacc
    | other t => simp [accepts] at hacc
    | connect req =>
      rw [first_accepted b c req a hacc] at ho
      simp only [List.mem_singleton] at ho; subst ho; simp [isoOut, ownOut]

theorem packet_iso (b : B) (c : Nat) (p : Packet) : ∀ o ∈ (packet b c p).2, isoOut c o = true := by
  intro o ho
  cases hal : b.alive c with
  | false => rw [packet_dead b c p hal] at ho; cases ho
  | true =>
    obtain ⟨cn, hc, ha⟩ := (alive_true_iff b c).mp hal
    cases hs1 : b.getSess cn.sess with
    | none =>
      unfold packet at ho
      simp only [hc, ha, hs1, Bool.not_true, Bool.false_eq_true, ↓reduceIte] at ho
      cases ho
    | some s1 =>
      cases p with
      | disconnect =>
        rw [packet_disconnect_eq b c cn s1 hc ha hs1] at ho
        exact stop_iso _ c o ho
      | publish pub =>
        unfold packet at ho
        simp only [hc, ha, hs1, Bool.not_true, Bool.false_eq_true, ↓reduceIte] at ho
        split at ho
        · exact send_iso _ _ _ o ho
        · split at ho
          · simp only [List.mem_append] at ho
            rcases ho with ho | ho
            · exact send_iso _ _ _ o ho
            · exact fwd_iso c o (onPublish_out _ _ o ho)
          · exact fwd_iso c o (onPublish_out _ _ o ho)
      | pubrel id =>
        unfold packet at ho
        simp only [hc, ha, hs1, Bool.not_true, Bool.false_eq_true, ↓reduceIte, List.mem_append] at ho
        rcases ho with ho | ho
        · exact fwd_iso c o (releaseAll_fwd _ _ o ho)
        · exact send_iso _ _ _ o ho
      | subscribe id topics =>
        unfold packet at ho
        simp only [hc, ha, hs1, Bool.not_true, Bool.false_eq_true, ↓reduceIte, List.mem_append] at ho
        rcases ho with ho | ho
        · exact send_iso _ _ _ o ho
        · simp [isoOut, sendRetained_own c _ _ o ho]
      | unsubscribe id topics =>
        unfold packet at ho
        simp only [hc, ha, hs1, Bool.not_true, Bool.false_eq_true, ↓reduceIte] at ho
        exact send_iso _ _ _ o ho
      | pubrec id =>
        unfold packet at ho
        simp only [hc, ha, hs1, Bool.not_true, Bool.false_eq_true, ↓reduceIte] at ho
        exact send_iso _ _ _ o ho
      | pingreq =>
        unfold packet at ho
        simp only [hc, ha, hs1, Bool.not_true, Bool.false_eq_true, ↓reduceIte] at ho
        exact send_iso _ _ _ o ho
      | connack sp code => unfold packet at ho; simp only [hc, ha, hs1] at ho; cases ho
      | puback id => unfold packet at ho; simp only [hc, ha, hs1] at ho; cases ho
      | pubcomp id => unfold packet at ho; simp only [hc, ha, hs1] at ho; cases ho
      | suback id codes => unfold packet at ho; simp only [hc, ha, hs1] at ho; cases ho
      | unsuback id => unfold packet at ho; simp only [hc, ha, hs1] at ho; cases ho
      | pingresp => unfold packet at ho; simp only [hc, ha, hs1] at ho; cases ho
      | connectAgain => unfold packet at ho; simp only [hc, ha, hs1] at ho; cases ho

theorem step_iso (b : B) (A : Nat) (e : Ev) (he : onConn A e = true) (hto : noTakeOver b e) :
    ∀ o ∈ (step b e).2, isoOut A o = true := by
  rcases onConn_cases he with ⟨f, a, rfl⟩ | ⟨p, rfl⟩ | rfl
  · rw [step_first_noTakeOver b A f a hto]; exact first_iso b A f a
  · exact packet_iso b A p
  · exact stop_iso b A

/-! ### the other connections' session objects -/

theorem packet_getSess_ne (b : B) (c : Nat) (p : Packet) (r : Nat)
    (h : ∀ cn, b.getConn c = some cn → cn.sess ≠ r) : (packet b c p).1.getSess r = b.getSess r := by
  cases hal : b.alive c with
  | false => rw [packet_dead b c p hal]
  | true =>
    obtain ⟨cn, hc, ha⟩ := (alive_true_iff b c).mp hal
    have hne := h cn hc
    cases hs1 : b.getSess cn.sess with
    | none =>
      unfold packet
      simp only [hc, ha, hs1, Bool.not_true, Bool.false_eq_true, ↓reduceIte]
    | some s1 =>
      have hr : s1.ref = cn.sess := getSess_ref hs1
      have hne' : ∀ s' : Sess, s'.ref = s1.ref → r ≠ s'.ref := fun s' e1 e2 => hne (hr.symm.trans (e1.symm.trans e2.symm))
      cases p with
      | disconnect =>
        rw [packet_disconnect_eq b c cn s1 hc ha hs1]
        rw [stop_getSess_ne _ c r (by intro cn' hc'; rw [getConn_setSess] at hc'; exact h cn' hc')]
        exact getSess_setSess_ne b _ r (hne' _ rfl)
      | publish pub =>
        unfold packet
        simp only [hc, ha, hs1, Bool.not_true, Bool.false_eq_true, ↓reduceIte]
        split
        · exact getSess_setSess_ne b _ r (hne' _ rfl)
        · split
          · exact (onPublish_frame _ _).getSess r
          · exact (onPublish_frame _ _).getSess r
      | pubrel id =>
        unfold packet
        simp only [hc, ha, hs1, Bool.not_true, Bool.false_eq_true, ↓reduceIte]
        rw [(releaseAll_frame _ _).getSess r]
        exact getSess_setSess_ne b _ r (hne' _ rfl)
      | subscribe id topics =>
        unfold packet
        simp only [hc, ha, hs1, Bool.not_true, Bool.false_eq_true, ↓reduceIte]
        have hl := subscribeLoop_frame c topics b s1 [] []
        rw [(sendRetained_frame _ _ _).getSess r, getSess_setSess_ne _ _ r (hne' _ hl.2.1), hl.1.getSess r]
      | unsubscribe id topics =>
        unfold packet
        simp only [hc, ha, hs1, Bool.not_true, Bool.false_eq_true, ↓reduceIte]
        exact getSess_setSess_ne _ _ r (hne' _ rfl)
      | connack sp code => unfold packet; simp only [hc, ha, hs1]; rfl
      | puback id => unfold packet; simp only [hc, ha, hs1]; rfl
      | pubrec id => unfold packet; simp only [hc, ha, hs1]; rfl
      | pubcomp id => unfold packet; simp only [hc, ha, hs1]; rfl
      | suback id codes => unfold packet; simp only [hc, ha, hs1]; rfl
      | unsuback id => unfold packet; simp only [hc, ha, hs1]; rfl
      | pingreq => unfold packet; simp only [hc, ha, hs1]; rfl
      | pingresp => unfold packet; simp only [hc, ha, hs1]; rfl
      | connectAgain => unfold packet; simp only [hc, ha, hs1]; rfl

/-- session object `r` is served to connection `A` before the event, or is the one an accepted
CONNECT of `A` resumes (same client identifier) -/
def sharesSession (b : B) (A r : Nat) (e : Ev) : Prop :=
  sessRefOf b A = some r ∨
  ∃ req a, e = .first A (.connect req) a ∧ (resumed b A req).map (·.ref) = some r

theorem step_getSess_other {b : B} (hi : Inv b) (A : Nat) (e : Ev) (he : onConn A e = true) (r : Nat) (s : Sess)
    (hs : b.getSess r = some s) (hsh : ¬ sharesSession b A r e) (hto : noTakeOver b e) :
    (step b e).1.getSess r = some s := by
  have hA : ∀ cn, b.getConn A = some cn → cn.sess ≠ r := by
    intro cn hc e1
    exact hsh (.inl (by unfold sessRefOf; rw [hc]; simp [e1]))
  rcases onConn_cases he with ⟨f, a, rfl⟩ | ⟨p, rfl⟩ | rfl
  · rw [step_first_noTakeOver b A f a hto]
    refine first_will_kept hi A f a r s hs ?_
    cases f with
    | connect req => exact fun h => hsh (.inr ⟨req, a, rfl, h.2⟩)
    | other t => exact fun h => h
    | garbage => exact fun h => h
  · exact (packet_getSess_ne b A p r hA).trans hs
  · exact (stop_getSess_ne b A r hA).trans hs

/-! ### any number of events of `A` -/

theorem run_iso (A : Nat) (evs : List Ev) : ∀ (b : B), (∀ e ∈ evs, onConn A e = true) → noTakeOverRun b evs →
    (∀ B', B' ≠ A → (run b evs).1.getConn B' = b.getConn B') ∧
    (∀ os ∈ (run b evs).2, ∀ o ∈ os, isoOut A o = true) := by
  induction evs with
  | nil => intro b _ _; exact ⟨fun _ _ => rfl, by intro os h; cases h⟩
  | cons e es ih =>
    intro b h hto
    have he := h e (by simp)
    obtain ⟨h1, h2⟩ := ih (step b e).1 (fun e' he' => h e' (by simp [he'])) hto.2
    simp only [run]
    constructor
    · intro B' hne
      rw [h1 B' hne, step_getConn_other b A B' e he hne hto.1]
    · intro os hos
      simp only [List.mem_cons] at hos
      rcases hos with rfl | hos
      · exact step_iso b A e he hto.1
      · exact h2 os hos

/-- nothing an event of `A` emits closes, or writes anything but a PUBLISH with RETAIN = 0 to, another connection -/
theorem isoOut_other {A B' : Nat} (hne : B' ≠ A) {o : Out} (h : isoOut A o = true) :
    o ≠ .closed B' ∧ ∀ p, o = .send B' p → ∃ w, p = .publish w ∧ w.retain = false := by
  constructor
  · intro e
    subst e
    simp only [isoOut, ownOut, fwdOk, Bool.or_false, beq_iff_eq] at h
    exact hne h
  · intro p e
    subst e
    simp only [isoOut, ownOut, Bool.or_eq_true, beq_iff_eq] at h
    rcases h with h | h
    · exact absurd h hne
    · cases p with
      | publish w =>
        simp only [fwdOk, Bool.and_eq_true, Bool.not_eq_true', decide_eq_true_eq] at h
        exact ⟨w, rfl, h.1⟩
      | _ => simp [fwdOk] at h

/-! ### events that carry no application message are answered to `A` alone -/

/-- events of a connection that hand no application message to the fan-out: everything
except a QoS 0/1 PUBLISH, a PUBREL (releases QoS 2 messages) and the end of the connection
without DISCONNECT (will) -/
def quietEv : Ev → Bool
  | .packet _ (.publish p) => p.qos == 2
  | .packet _ (.pubrel _) => false
  | .close _ => false
  | _ => true

theorem send_own (b : B) (c : Nat) (p : Packet) : ∀ o ∈ send b c p, ownOut c o = true := by
  intro o ho
  unfold send at ho
  split at ho
  · simp only [List.mem_singleton] at ho; subst ho; simp [ownOut]
  · cases ho

theorem step_quiet_own (b : B) (A : Nat) (e : Ev) (he : onConn A e = true) (hq : quietEv e = true)
    (hto : noTakeOver b e) : ∀ o ∈ (step b e).2, ownOut A o = true := by
  intro o ho
  rcases onConn_cases he with ⟨f, a, rfl⟩ | ⟨p, rfl⟩ | rfl
  · rw [step_first_noTakeOver b A f a hto] at ho
    cases hacc : accepts f a with
    | false =>
      rcases first_refused b A f a hacc with h1 | ⟨k, _, h1⟩
      · rw [h1] at ho; simp only [List.mem_singleton] at ho; subst ho; simp [ownOut]
      · rw [h1] at ho
        simp only [List.mem_cons, List.not_mem_nil, or_false] at ho
        rcases ho with rfl | rfl <;> simp [ownOut]
    | true =>
      cases f with
      | garbage => simp [accepts] at hacc
      | other t => simp [accepts] at hacc
      | connect req =>
        rw [first_accepted b A req a hacc] at ho
        simp only [List.mem_singleton] at ho; subst ho; simp [ownOut]
  · change o ∈ (packet b A p).2 at ho
    cases hal : b.alive A with
    | false => rw [packet_dead b A p hal] at ho; cases ho
    | true =>
      obtain ⟨cn, hc, ha⟩ := (alive_true_iff b A).mp hal
      cases hs1 : b.getSess cn.sess with
      | none =>
        unfold packet at ho
        simp only [hc, ha, hs1, Bool.not_true, Bool.false_eq_true, ↓reduceIte] at ho
        cases ho
      | some s1 =>
        cases p with
        | disconnect =>
          rw [packet_disconnect b A cn s1 hc ha hs1] at ho
          simp only [List.mem_singleton] at ho; subst ho; simp [ownOut]
        | publish pub =>
          simp only [quietEv, beq_iff_eq] at hq
          unfold packet at ho
          simp only [hc, ha, hs1, hq, Bool.not_true, Bool.false_eq_true, ↓reduceIte, beq_self_eq_true] at ho
          exact send_own _ _ _ o ho
        | pubrel id => simp [quietEv] at hq
        | subscribe id topics =>
          unfold packet at ho
          simp only [hc, ha, hs1, Bool.not_true, Bool.false_eq_true, ↓reduceIte, List.mem_append] at ho
          rcases ho with ho | ho
          · exact send_own _ _ _ o ho
          · exact sendRetained_own A _ _ o ho
        | unsubscribe id topics =>
          unfold packet at ho
          simp only [hc, ha, hs1, Bool.not_true, Bool.false_eq_true, ↓reduceIte] at ho
          exact send_own _ _ _ o ho
        | pubrec id =>
          unfold packet at ho
          simp only [hc, ha, hs1, Bool.not_true, Bool.false_eq_true, ↓reduceIte] at ho
          exact send_own _ _ _ o ho
        | pingreq =>
          unfold packet at ho
          simp only [hc, ha, hs1, Bool.not_true, Bool.false_eq_true, ↓reduceIte] at ho
          exact send_own _ _ _ o ho
        | connack sp code => unfold packet at ho; simp only [hc, ha, hs1] at ho; cases ho
        | puback id => unfold packet at ho; simp only [hc, ha, hs1] at ho; cases ho
        | pubcomp id => unfold packet at ho; simp only [hc, ha, hs1] at ho; cases ho
        | suback id codes => unfold packet at ho; simp only [hc, ha, hs1] at ho; cases ho
        | unsuback id => unfold packet at ho; simp only [hc, ha, hs1] at ho; cases ho
        | pingresp => unfold packet at ho; simp only [hc, ha, hs1] at ho; cases ho
        | connectAgain => unfold packet at ho; simp only [hc, ha, hs1] at ho; cases ho
  · simp [quietEv] at hq

end Mqtt.Proofs.BrokerIso
