/-
Core F — helper lemmas for C16, part 1: the ring contract the life-cycle model relies on,
and the termination measure (`rank` strictly decreases with every step of every thread).
-/
import Mqtt.Model.Lifecycle

set_option linter.unusedSimpArgs false
set_option linter.unusedVariables false

namespace Mqtt.Proofs.Lifecycle
open Mqtt.Model.Lifecycle

/-- the configuration of the code as it is: repaired ring, `stop` in the order of service.go, the
receiver closes the socket when its read fails (b77088f), `ReadFrom` waits only while the incoming
ring is completely full (8f682d1), a ring that holds the longest packet header (`room`: all that is
left of "a read block plus a header" — used in `quiescent_cases`: a processor waiting for a header
cannot face a full ring) -/
structure WF (c : Cfg) : Prop where
  d2 : c.d2 = false
  prog : c.stopProg = stopProgram
  rc : c.recvCloses = true
  bw : c.blockWait = false
  rblock : 0 < c.rblock
  wblock : 0 < c.wblock
  room : 5 ≤ c.cap

theorem spaceNeed_wf (c : Cfg) (hw : WF c) : c.spaceNeed = 1 := by simp [Cfg.spaceNeed, hw.bw]

theorem readMax_wf (c : Cfg) (hw : WF c) (sh : Sh) : readMax c sh = min c.rblock (c.cap - sh.inR.buf) := by
  simp [readMax, hw.bw]

/-! ## The ring contract (what Core D proves for the real ring, `Properties/C15.lean`)

DERIVED, not assumed: `Proofs/LifecycleRing.lean` (`ring_contract`, restated as `C16_ring_contract_is_C15` in
`Properties/C16.lean`) shows that every call of the ring PROGRAM (`Model/Ring.lean`) behaves, seen through
`absRing = (pseq - cseq, done)`, like the `RingA` function named here — from `C15_call_refines_ringA_producer / _consumer /
_close`, `C15_readfrom_refines_ringA`, `C15_parked_iff_guard_false`, `C15_step_refines_ringA` — up to ONE difference, named
there: `RingA` tests `done` and the cursors in one atomic step, the ring at two statements of a call.  The lemmas of this
section are properties of the `RingA` FUNCTIONS (used by the life-cycle proofs); the correspondence by name in the list
below is now that theorem.

* `close_returns`      — `Close` always returns and sets `done`              (C15_CloseTerminates, C15_NoLeak)
* `done_waitSpace`, `done_commitP`, `done_waitData`
                       — once `done` is set every blocked or later call returns, with end-of-stream
                         unless the data it asked for was committed before  (C15_DoneUnblocks)
* `space_unblocks`     — a producer blocked for space proceeds once enough was consumed   (C15_Progress)
* `data_unblocks`      — a consumer blocked for data proceeds once enough was committed   (C15_Progress)
* `waitSpace_none_iff`, `waitData_none_iff`
                       — a call waits only while its condition is genuinely unmet and the ring is open
                         (C15_Progress_quiescent: legitimate waiting)
* no call leaves a mutex behind: with `d2 = false` the `pHeld`/`cHeld` flags are never consulted
                         (C15_NoLeak); `Cfg.d2 = true` is the ring before 584775d.
-/

theorem close_returns (c : Cfg) (hd : c.d2 = false) (r : RingA) :
    r.close c = some { r with done := true } := by
  simp [RingA.close, hd]

theorem commitC_returns (c : Cfg) (hd : c.d2 = false) (r : RingA) (n : Nat) :
    r.commitC c n = some { r with buf := r.buf - n } := by
  simp [RingA.commitC, hd]

theorem waitSpace_none_iff (c : Cfg) (r : RingA) (n : Nat) :
    r.waitSpace c n = none ↔ n ≤ c.cap ∧ r.done = false ∧ c.cap < r.buf + n := by
  unfold RingA.waitSpace
  by_cases h1 : c.cap < n
  · simp [h1] <;> omega
  · by_cases h2 : r.done = true
    · simp [h1, h2]
    · by_cases h3 : r.buf + n ≤ c.cap
      · simp [h1, h2, h3] <;> omega
      · simp [h1, h2, h3] <;> simp at h2 <;> omega

theorem waitData_none_iff (c : Cfg) (r : RingA) (n : Nat) :
    r.waitData c n = none ↔ n ≤ c.cap ∧ r.buf < n ∧ r.done = false := by
  unfold RingA.waitData
  by_cases h1 : c.cap < n
  · simp [h1] <;> omega
  · by_cases h2 : n ≤ r.buf
    · simp [h1, h2] <;> omega
    · by_cases h3 : r.done = true
      · simp [h1, h2, h3]
      · simp [h1, h2, h3] <;> simp at h3 <;> omega

theorem waitSpace_some (c : Cfg) (hd : c.d2 = false) (r : RingA) (n : Nat) (ret : Ret) (r' : RingA)
    (h : r.waitSpace c n = some (ret, r')) :
    r' = r ∧ (ret = .ok → n ≤ c.cap ∧ r.done = false ∧ r.buf + n ≤ c.cap) ∧
    (ret = .eof → r.done = true) ∧ (ret = .full → c.cap < n) := by
  unfold RingA.waitSpace at h
  by_cases h1 : c.cap < n <;> simp [h1, hd] at h
  · obtain ⟨rfl, rfl⟩ := h; simp [h1]
  · by_cases h2 : r.done = true <;> simp [h2] at h
    · obtain ⟨rfl, rfl⟩ := h; simp [h2]
    · by_cases h3 : r.buf + n ≤ c.cap <;> simp [h3] at h
      obtain ⟨rfl, rfl⟩ := h
      simp at h2
      simp [h2, h3]; omega

theorem done_waitSpace (c : Cfg) (hd : c.d2 = false) (r : RingA) (n : Nat) (h : r.done = true) :
    r.waitSpace c n = some (if c.cap < n then .full else .eof, r) := by
  unfold RingA.waitSpace
  by_cases h1 : c.cap < n <;> simp [h1, h, hd]

theorem space_unblocks (c : Cfg) (r : RingA) (n : Nat) (hd : r.done = false) (h : r.buf + n ≤ c.cap) :
    r.waitSpace c n = some (.ok, r) := by
  unfold RingA.waitSpace
  have : ¬ c.cap < n := by omega
  simp [this, hd, h]

theorem waitData_some (c : Cfg) (hd : c.d2 = false) (r : RingA) (n : Nat) (ret : Ret) (r' : RingA)
    (h : r.waitData c n = some (ret, r')) :
    r' = r ∧ (ret = .ok → n ≤ r.buf) ∧ (ret = .eof → r.done = true ∧ r.buf < n) ∧ (ret = .full → c.cap < n) := by
  unfold RingA.waitData at h
  by_cases h1 : c.cap < n <;> simp [h1, hd] at h
  · obtain ⟨rfl, rfl⟩ := h; simp [h1]
  · by_cases h2 : n ≤ r.buf <;> simp [h2] at h
    · obtain ⟨rfl, rfl⟩ := h; simp [h2]
    · by_cases h3 : r.done = true <;> simp [h3] at h
      obtain ⟨rfl, rfl⟩ := h
      simp [h3]; omega

theorem done_waitData (c : Cfg) (hd : c.d2 = false) (r : RingA) (n : Nat) (h : r.done = true) :
    ∃ ret, r.waitData c n = some (ret, r) := by
  unfold RingA.waitData
  by_cases h1 : c.cap < n <;> simp [h1, hd, h]
  by_cases h2 : n ≤ r.buf <;> simp [h2]

theorem data_unblocks (c : Cfg) (r : RingA) (n : Nat) (hn : n ≤ c.cap) (h : n ≤ r.buf) :
    r.waitData c n = some (.ok, r) := by
  unfold RingA.waitData
  have : ¬ c.cap < n := by omega
  simp [this, h]

theorem commitP_some (c : Cfg) (hd : c.d2 = false) (r : RingA) (n : Nat) (ret : Ret) (r' : RingA)
    (h : r.commitP c n = some (ret, r')) :
    (ret = .ok ∧ r' = { r with buf := r.buf + n } ∧ r.done = false ∧ r.buf + n ≤ c.cap) ∨
    (ret ≠ .ok ∧ r' = r ∧ (r.done = true ∨ c.cap < n)) := by
  unfold RingA.commitP at h
  cases hw : r.waitSpace c n with
  | none => simp [hw] at h
  | some p =>
    obtain ⟨ret0, r0⟩ := p
    have := waitSpace_some c hd r n ret0 r0 hw
    obtain ⟨rfl, hok, heof, hfull⟩ := this
    cases ret0 <;> simp [hw] at h <;> obtain ⟨rfl, rfl⟩ := h
    · left; simp; exact ⟨(hok rfl).2.1, (hok rfl).2.2⟩
    · right; simp; left; exact heof rfl
    · right; simp; right; exact hfull rfl

theorem commitP_none_iff (c : Cfg) (r : RingA) (n : Nat) :
    r.commitP c n = none ↔ r.waitSpace c n = none := by
  unfold RingA.commitP
  cases hw : r.waitSpace c n with
  | none => simp
  | some p => obtain ⟨ret, r0⟩ := p; cases ret <;> simp

theorem done_commitP (c : Cfg) (hd : c.d2 = false) (r : RingA) (n : Nat) (h : r.done = true) :
    r.commitP c n = some (if c.cap < n then .full else .eof, r) := by
  unfold RingA.commitP
  rw [done_waitSpace c hd r n h]
  by_cases h1 : c.cap < n <;> simp [h1]

/-! ## The termination measure -/

theorem sumK_set (c : Cfg) (ks : List KPc) (i : Nat) (k k' : KPc) (h : ks[i]? = some k) :
    sumK c (ks.set i k') + rankK c k = sumK c ks + rankK c k' := by
  induction ks generalizing i with
  | nil => simp at h
  | cons x xs ih =>
    cases i with
    | zero => simp at h; subst h; simp [sumK]; omega
    | succ j => simp at h; have := ih j h; simp [sumK]; omega

theorem sumW_set (ws : List WTh) (i : Nat) (w w' : WTh) (h : ws[i]? = some w) :
    sumW (ws.set i w') + rankW w.pc = sumW ws + rankW w'.pc := by
  induction ws generalizing i with
  | nil => simp at h
  | cons x xs ih =>
    cases i with
    | zero => simp at h; subst h; simp [sumW]; omega
    | succ j => simp at h; have := ih j h; simp [sumW]; omega

theorem sumWOut_set (ws : List WTh) (i : Nat) (w w' : WTh) (h : ws[i]? = some w) :
    sumWOut (ws.set i w') + wOut w = sumWOut ws + wOut w' := by
  induction ws generalizing i with
  | nil => simp at h
  | cons x xs ih =>
    cases i with
    | zero => simp at h; subst h; simp [sumWOut]; omega
    | succ j => simp at h; have := ih j h; simp [sumWOut]; omega

theorem rankS_mono (b b' : Nat) (pc : SPc) (h : b' ≤ b) : rankS b' pc ≤ rankS b pc := by
  cases pc <;> simp [rankS] <;> omega

/-- the sender's window: what it is writing / about to commit was peeked from the ring and is
still there (only the sender consumes the outgoing ring) -/
def SWin (s : St) : Prop :=
  ∀ m, (s.send = .write m ∨ s.send = .commit m) → 1 ≤ m ∧ m ≤ s.sh.outR.buf

/-- receiver: nothing but `wire`, the incoming ring and `wg` changes; its rank drops -/
theorem rstep_rank (c : Cfg) (hw : WF c) (sh sh' : Sh) (k : Nat) (pc pc' : RPc)
    (h : rstep c sh k pc = some (sh', pc')) :
    sh'.outR = sh.outR ∧ sh'.stream = sh.stream ∧ rankR sh'.wire pc' < rankR sh.wire pc := by
  cases pc with
  | space =>
    simp only [rstep] at h
    cases hs : sh.inR.waitSpace c c.spaceNeed with
    | none => simp [hs] at h
    | some p =>
      obtain ⟨ret, r⟩ := p
      cases ret <;> simp [hs] at h <;> obtain ⟨rfl, rfl⟩ := h <;> simp [rankR] <;> omega
  | read =>
    simp only [rstep] at h
    by_cases h1 : sh.sock ≠ .open ∨ sh.timeout = true
    · simp [h1] at h; obtain ⟨rfl, rfl⟩ := h; simp [rankR] <;> omega
    · by_cases h2 : sh.wire = 0
      · simp [h1, h2] at h
      · simp only [h1, h2, if_false] at h
        simp at h
        obtain ⟨rfl, rfl⟩ := h
        simp [rankR]
        have := hw.rblock
        omega
  | commit n =>
    simp only [rstep] at h
    cases hs : sh.inR.commitP c n with
    | none => simp [hs] at h
    | some p =>
      obtain ⟨ret, r⟩ := p
      cases ret <;> simp [hs] at h <;> obtain ⟨rfl, rfl⟩ := h <;> simp [rankR] <;> omega
  | close =>
    simp only [rstep, close_returns c hw.d2, hw.rc] at h
    simp at h; obtain ⟨rfl, rfl⟩ := h; simp [rankR]
  | connClose => simp [rstep] at h; obtain ⟨rfl, rfl⟩ := h; simp [rankR]
  | wgDone => simp [rstep] at h; obtain ⟨rfl, rfl⟩ := h; simp [rankR]
  | exited => simp [rstep] at h

theorem sstep_rank (c : Cfg) (hw : WF c) (sh sh' : Sh) (pc pc' : SPc)
    (hwin : ∀ m, (pc = .write m ∨ pc = .commit m) → 1 ≤ m ∧ m ≤ sh.outR.buf)
    (h : sstep c sh pc = some (sh', pc')) :
    sh'.stream = sh.stream ∧ sh'.wire = sh.wire ∧ sh'.outR.buf ≤ sh.outR.buf ∧
    ∀ x, rankS (sh'.outR.buf + x) pc' < rankS (sh.outR.buf + x) pc := by
  cases pc with
  | peek =>
    simp only [sstep] at h
    by_cases h1 : sh.outR.done = true
    · simp [h1] at h; obtain ⟨rfl, rfl⟩ := h; simp [rankS] <;> omega
    · by_cases h2 : 0 < sh.outR.buf
      · simp [h1, h2] at h; obtain ⟨rfl, rfl⟩ := h; simp [rankS] <;> omega
      · simp [h1, h2] at h
  | write m =>
    simp only [sstep] at h
    by_cases h1 : sh.sock.wfail = true
    · simp [h1] at h; obtain ⟨rfl, rfl⟩ := h; simp [rankS] <;> omega
    · by_cases h2 : sh.peerReads = true
      · simp [h1, h2] at h; obtain ⟨rfl, rfl⟩ := h; simp [rankS] <;> omega
      · simp [h1, h2] at h
  | commit m =>
    simp only [sstep, commitC_returns c hw.d2] at h
    simp at h; obtain ⟨rfl, rfl⟩ := h
    have := hwin m (Or.inr rfl)
    simp [rankS]
    intro x; omega
  | close =>
    simp only [sstep, close_returns c hw.d2] at h
    simp at h; obtain ⟨rfl, rfl⟩ := h; simp [rankS]
  | wgDone => simp [sstep] at h; obtain ⟨rfl, rfl⟩ := h; simp [rankS]
  | exited => simp [sstep] at h

theorem execStop_frame (c : Cfg) (sh sh' : Sh) (me : Tid) (op : StopOp) (b : Bool)
    (h : execStop c sh me op = some (sh', b)) :
    sh'.wire = sh.wire ∧ sh'.stream = sh.stream ∧ sh'.outR.buf = sh.outR.buf ∧ sh'.inR.buf = sh.inR.buf ∧
    sh'.wmu = sh.wmu ∧ sh'.wg = sh.wg ∧ sh'.willFlag = sh.willFlag ∧ sh'.clean = sh.clean := by
  cases op <;> simp [execStop] at h
  case cas =>
    by_cases hc : sh.closed = true <;> simp [hc] at h <;> obtain ⟨rfl, rfl⟩ := h <;> simp
  case closeDone => obtain ⟨rfl, rfl⟩ := h; simp
  case connClose => obtain ⟨rfl, rfl⟩ := h; simp
  case inClose =>
    obtain ⟨r, hr, rfl, rfl⟩ := h
    simp [RingA.close] at hr
    obtain ⟨_, rfl⟩ := hr; simp
  case outClose =>
    obtain ⟨r, hr, rfl, rfl⟩ := h
    simp [RingA.close] at hr
    obtain ⟨_, rfl⟩ := hr; simp
  case wgWait => obtain ⟨_, rfl, rfl⟩ := h; simp
  case unsub => obtain ⟨rfl, rfl⟩ := h; simp
  case will => obtain ⟨rfl, rfl⟩ := h; by_cases hf : sh.willFlag = true <;> simp [hf]
  case sessDel => obtain ⟨rfl, rfl⟩ := h; by_cases hf : sh.clean = true <;> simp [hf]
  case clearRings => obtain ⟨rfl, rfl⟩ := h; simp

theorem kstep_rank (c : Cfg) (sh sh' : Sh) (me : Tid) (k k' : KPc)
    (h : kstep c sh me k = some (sh', k')) :
    sh'.wire = sh.wire ∧ sh'.stream = sh.stream ∧ sh'.outR.buf = sh.outR.buf ∧ rankK c k' < rankK c k := by
  cases k with
  | idle => simp [kstep] at h
  | finished => simp [kstep] at h
  | run i =>
    simp only [kstep] at h
    cases hp : c.stopProg[i]? with
    | none =>
      simp [hp] at h; obtain ⟨rfl, rfl⟩ := h; simp [rankK]
    | some op =>
      have hi : i < c.stopProg.length := by
        have := List.getElem?_eq_some_iff.mp hp; exact this.1
      cases he : execStop c sh me op with
      | none => simp [hp, he] at h
      | some q =>
        obtain ⟨sh1, b⟩ := q
        have hf := execStop_frame c sh sh1 me op b he
        cases b <;> simp [hp, he] at h <;> obtain ⟨rfl, rfl⟩ := h <;> simp [rankK, hf] <;> omega

theorem pstep_rank (c : Cfg) (hw : WF c) (sh sh' : Sh) (pc pc' : PPc)
    (h : pstep c sh pc = some (sh', pc')) :
    sh'.wire = sh.wire ∧ rankP c sh'.stream pc' < rankP c sh.stream pc ∧
    sh'.outR.buf + procOut sh'.stream pc' ≤ sh.outR.buf + procOut sh.stream pc := by
  cases pc with
  | size =>
    simp only [pstep] at h
    generalize hdrNeed sh.stream = need at h
    cases hs : sh.inR.waitData c need with
    | none => simp [hs] at h
    | some q =>
      obtain ⟨ret, r⟩ := q
      cases ret
      · cases hst : sh.stream with
        | nil => simp [hs, hst] at h; obtain ⟨rfl, rfl⟩ := h; simp [rankP, procOut, hst] <;> omega
        | cons p tl =>
          by_cases h5 : 5 < p.hdr
          · simp [hs, hst, h5] at h; obtain ⟨rfl, rfl⟩ := h; simp [rankP, procOut, hst] <;> omega
          · simp [hs, hst, h5] at h; obtain ⟨rfl, rfl⟩ := h; simp [rankP, procOut, hst] <;> omega
      · simp [hs] at h; obtain ⟨rfl, rfl⟩ := h; simp [rankP, procOut] <;> omega
      · simp [hs] at h; obtain ⟨rfl, rfl⟩ := h; simp [rankP, procOut] <;> omega
  | msg =>
    simp only [pstep] at h
    cases hst : sh.stream with
    | nil => simp [hst] at h; obtain ⟨rfl, rfl⟩ := h; simp [rankP, procOut, hst, streamCost]
    | cons p tl =>
      cases hs : sh.inR.waitData c p.total with
      | none => simp [hst, hs] at h
      | some q =>
        obtain ⟨ret, r⟩ := q
        cases ret
        · cases hk : p.kind with
          | bad => simp [hst, hs, hk] at h; obtain ⟨rfl, rfl⟩ := h; simp [rankP, procOut, hst, streamCost, pktCost] <;> omega
          | disconnect => simp [hst, hs, hk] at h; obtain ⟨rfl, rfl⟩ := h; simp [rankP, procOut, hst, streamCost, pktCost] <;> omega
          | normal as =>
            simp [hst, hs, hk] at h; obtain ⟨rfl, rfl⟩ := h
            simp [rankP, procOut, hst, streamCost, pktCost, hk, Kind.acts, streamOut] <;> omega
        · simp [hst, hs] at h; obtain ⟨rfl, rfl⟩ := h; simp [rankP, procOut, hst, streamCost, pktCost] <;> omega
        · simp [hst, hs] at h; obtain ⟨rfl, rfl⟩ := h; simp [rankP, procOut, hst, streamCost, pktCost] <;> omega
  | acts as =>
    cases as with
    | nil => simp [pstep] at h; obtain ⟨rfl, rfl⟩ := h; simp [rankP, procOut, actsCost, actsOut]
    | cons a rest =>
      cases a with
      | foreign =>
        simp only [pstep] at h
        by_cases hb : sh.extBlocked = true
        · simp [hb] at h
        · simp [hb] at h; obtain ⟨rfl, rfl⟩ := h; simp [rankP, procOut, actsCost, actCost, actsOut] <;> omega
      | own l =>
        simp only [pstep] at h
        by_cases hm : sh.wmu.isSome = true
        · simp [hm] at h
        · simp [hm] at h; obtain ⟨rfl, rfl⟩ := h; simp [rankP, procOut, actsCost, actCost, actsOut] <;> omega
  | ownWait l rest =>
    simp only [pstep] at h
    cases hs : sh.outR.waitSpace c l with
    | none => simp [hs] at h
    | some q =>
      obtain ⟨ret, r⟩ := q
      obtain ⟨rfl, -⟩ := waitSpace_some c hw.d2 _ _ _ _ hs
      cases ret <;> simp [hs] at h <;> obtain ⟨rfl, rfl⟩ := h <;> simp [rankP, procOut] <;> omega
  | ownCommit l rest =>
    simp only [pstep] at h
    cases hs : sh.outR.commitP c l with
    | none => simp [hs] at h
    | some q =>
      obtain ⟨ret, r⟩ := q
      simp [hs] at h; obtain ⟨rfl, rfl⟩ := h
      rcases commitP_some c hw.d2 _ _ _ _ hs with ⟨_, rfl, _⟩ | ⟨_, rfl, _⟩ <;> simp [rankP, procOut] <;> omega
  | commit =>
    simp only [pstep] at h
    cases hst : sh.stream with
    | nil => simp [hst] at h; obtain ⟨rfl, rfl⟩ := h; simp [rankP, procOut, hst, streamCost, streamOut]
    | cons p tl =>
      simp [hst, commitC_returns c hw.d2] at h; obtain ⟨rfl, rfl⟩ := h
      simp [rankP, procOut, hst]
  | check =>
    simp only [pstep] at h
    by_cases hc : (sh.doneCh && sh.inR.buf == 0) = true
    · simp [hc] at h; obtain ⟨rfl, rfl⟩ := h; simp [rankP, procOut] <;> omega
    · simp [hc] at h; obtain ⟨rfl, rfl⟩ := h; simp [rankP, procOut]
  | wgDone => simp [pstep] at h; obtain ⟨rfl, rfl⟩ := h; simp [rankP, rankK, procOut]
  | stop k =>
    simp only [pstep] at h
    cases hk : kstep c sh .proc k with
    | none => simp [hk] at h
    | some q =>
      obtain ⟨sh1, k1⟩ := q
      simp [hk] at h; obtain ⟨rfl, rfl⟩ := h
      have := kstep_rank c sh sh1 .proc k k1 hk
      simp [rankP, procOut, this]

theorem wstep_rank (c : Cfg) (hw : WF c) (sh sh' : Sh) (me : Tid) (w w' : WTh)
    (h : wstep c sh me w = some (sh', w')) :
    sh'.wire = sh.wire ∧ sh'.stream = sh.stream ∧ rankW w'.pc < rankW w.pc ∧
    sh'.outR.buf + wOut w' ≤ sh.outR.buf + wOut w := by
  obtain ⟨pc, len⟩ := w
  cases pc with
  | check =>
    simp only [wstep] at h
    by_cases hn : sh.ringsNil = true <;> simp [hn] at h <;> obtain ⟨rfl, rfl⟩ := h <;> simp [rankW, wOut]
  | lock =>
    simp only [wstep] at h
    by_cases hm : sh.wmu.isSome = true
    · simp [hm] at h
    · simp [hm] at h; obtain ⟨rfl, rfl⟩ := h; simp [rankW, wOut]
  | wait =>
    simp only [wstep] at h
    by_cases hn : sh.ringsNil = true
    · simp [hn] at h; obtain ⟨rfl, rfl⟩ := h; simp [rankW, wOut]
    · cases hs : sh.outR.waitSpace c len with
      | none => simp [hn, hs] at h
      | some q =>
        obtain ⟨ret, r⟩ := q
        obtain ⟨rfl, -⟩ := waitSpace_some c hw.d2 _ _ _ _ hs
        cases ret <;> simp [hn, hs] at h <;> obtain ⟨rfl, rfl⟩ := h <;> simp [rankW, wOut]
  | commit =>
    simp only [wstep] at h
    by_cases hn : sh.ringsNil = true
    · simp [hn] at h; obtain ⟨rfl, rfl⟩ := h; simp [rankW, wOut]
    · cases hs : sh.outR.commitP c len with
      | none => simp [hn, hs] at h
      | some q =>
        obtain ⟨ret, r⟩ := q
        simp [hn, hs] at h; obtain ⟨rfl, rfl⟩ := h
        rcases commitP_some c hw.d2 _ _ _ _ hs with ⟨_, rfl, _⟩ | ⟨_, rfl, _⟩ <;> simp [rankW, wOut]
  | finished => simp [wstep] at h
  | panicked => simp [wstep] at h

/-- **every step of every thread lowers the rank** -/
theorem rank_step (c : Cfg) (hw : WF c) (s s' : St) (t : Tid) (k : Nat) (hwin : SWin s)
    (h : tstep c s t k = some s') : rank c s' < rank c s := by
  cases t with
  | recv =>
    simp only [tstep] at h
    cases hr : rstep c s.sh k s.recv with
    | none => simp [hr] at h
    | some q =>
      obtain ⟨sh', pc'⟩ := q
      simp [hr] at h; subst h
      obtain ⟨h1, h2, h3⟩ := rstep_rank c hw _ _ _ _ _ hr
      simp only [rank, outBound, h1, h2]
      omega
  | send =>
    simp only [tstep] at h
    cases hr : sstep c s.sh s.send with
    | none => simp [hr] at h
    | some q =>
      obtain ⟨sh', pc'⟩ := q
      simp [hr] at h; subst h
      obtain ⟨h1, h2, h3, h4⟩ := sstep_rank c hw _ _ _ _ hwin hr
      have := h4 (procOut s.sh.stream s.proc + sumWOut s.ws)
      simp only [rank, outBound, h1, h2]
      simp only [Nat.add_assoc] at this ⊢
      omega
  | proc =>
    simp only [tstep] at h
    cases hr : pstep c s.sh s.proc with
    | none => simp [hr] at h
    | some q =>
      obtain ⟨sh', pc'⟩ := q
      simp [hr] at h; subst h
      obtain ⟨h1, h2, h3⟩ := pstep_rank c hw _ _ _ _ hr
      have hm := rankS_mono (s.sh.outR.buf + procOut s.sh.stream s.proc + sumWOut s.ws)
        (sh'.outR.buf + procOut sh'.stream pc' + sumWOut s.ws) s.send (by omega)
      simp only [rank, outBound, h1]
      omega
  | k i =>
    simp only [tstep] at h
    cases hk : s.ks[i]? with
    | none => simp [hk] at h
    | some pc =>
      cases hr : kstep c s.sh (.k i) pc with
      | none => simp [hk, hr] at h
      | some q =>
        obtain ⟨sh', pc'⟩ := q
        simp [hk, hr] at h; subst h
        obtain ⟨h1, h2, h3, h4⟩ := kstep_rank c _ _ _ _ _ hr
        have := sumK_set c s.ks i pc pc' hk
        simp only [rank, outBound, h1, h2, h3]
        omega
  | w i =>
    simp only [tstep] at h
    cases hk : s.ws[i]? with
    | none => simp [hk] at h
    | some w =>
      cases hr : wstep c s.sh (.w i) w with
      | none => simp [hk, hr] at h
      | some q =>
        obtain ⟨sh', w'⟩ := q
        simp [hk, hr] at h; subst h
        obtain ⟨h1, h2, h3, h4⟩ := wstep_rank c hw _ _ _ _ _ hr
        have e1 := sumW_set s.ws i w w' hk
        have e2 := sumWOut_set s.ws i w w' hk
        have hm := rankS_mono (s.sh.outR.buf + procOut s.sh.stream s.proc + sumWOut s.ws)
          (sh'.outR.buf + procOut s.sh.stream s.proc + sumWOut (s.ws.set i w')) s.send (by omega)
        simp only [rank, outBound, h1, h2]
        omega

/-- environment events never raise the rank -/
theorem rank_env (c : Cfg) (hw : WF c) (s s' : St) (e : Env) (h : estep c s e = some s') :
    rank c s' ≤ rank c s := by
  cases e with
  | peerClose =>
    simp only [estep] at h
    by_cases h1 : s.sh.sock = .open ∨ s.sh.sock = .peerShut <;> simp [h1] at h
    subst h; simp [rank, outBound]
  | peerShut =>
    simp only [estep] at h
    by_cases h1 : s.sh.sock = .open <;> simp [h1] at h
    subst h; simp [rank, outBound]
  | kaExpire =>
    simp only [estep] at h
    by_cases h1 : s.recv = .read ∧ s.sh.sock = .open <;> simp [h1] at h
    subst h; simp [rank, outBound, h1.1]
  | peerReads b => simp [estep] at h; subst h; simp [rank, outBound]
  | extBlock b => simp [estep] at h; subst h; simp [rank, outBound]
  | serverClose i =>
    simp only [estep] at h
    cases hk : s.ks[i]? with
    | none => simp [hk] at h
    | some pc =>
      cases pc <;> simp [hk] at h
      subst h
      have := sumK_set c s.ks i .idle (.run 0) hk
      simp [rank, outBound, rankK] at this ⊢
      omega
  | preClose =>
    simp only [estep, close_returns c hw.d2] at h
    simp at h; subst h; simp [rank, outBound]

end Mqtt.Proofs.Lifecycle
