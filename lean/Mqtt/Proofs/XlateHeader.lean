/-
Tie between the REGENERATED translation of the fixed-header codec of the Go
package `message` — `Mqtt.Generated.Xlate.Message.header.{Type_, encode, decode}`,
produced from /repo/message/header.go by extract/cmd/xlate on every check — and
the hand-written model `Hdr.encode` / `Hdr.decode` of `Model/Codec.lean`.

* `header_Type_general` / `header_Type_spec` / `header_Type_alloc`: `Type()` on every
  header, on one with `len(mtypeflags) == 1` (receiver untouched, the model's `Hdr.type`)
  and on an unallocated one (fresh zero byte, dirty, answer 0);
* `header_encode_is_source`: `encode` is `encToRes` of the model's outcome (an equation;
  the cases: `header_encode_err/ok/panic`; the panic case is empty: `hdr_encode_ne_panic`,
  `header_encode_returns`); `header_encode_negative` (negative `remlen`, not expressible
  in the model) and `header_encode_unallocated` (`len(mtypeflags) != 1`);
* `header_decode_is_source`: `decode` is related by `decToRes` to the model's outcome for
  `len(mtypeflags) ≤ 1` (the cases: `header_decode_err/ok/returns`);
  `header_decode_unallocated` (`len(mtypeflags) != 1`: always an error) and
  `header_decode_two_bytes` (why the hypothesis cannot be dropped);
* `bv32_toInt`: the translator's `int32(uint64)` is the model's `toInt32` on every value.
-/
import Mqtt.Generated.Xlate
import Mqtt.Model.Codec
import Mqtt.Proofs.CodecBasic
import Mqtt.Proofs.XlateCodec
import Mqtt.Proofs.XlateVarint
import Mqtt.Proofs.XlatePutUvarint
import Mqtt.Proofs.XlateValid

namespace Mqtt.Proofs.XlateHeader

open Mqtt.Generated
open Mqtt.Generated.Xlate
open Mqtt.Model.Codec
open Mqtt.Iface.Codec
open Mqtt.Proofs.XlateCodec
open Mqtt.Proofs.XlateVarint
open Mqtt.Proofs.XlatePutUvarint
open Mqtt.Proofs.XlateValid

/-! ## Byte facts -/

theorem shr4_toNat (b : UInt8) : (b >>> (4 : UInt8)).toNat = b.toNat / 16 := by
  simp [UInt8.toNat_shiftRight, Nat.shiftRight_eq_div_pow]

theorem and15_toNat (b : UInt8) : (b &&& (15 : UInt8)).toNat = b.toNat % 16 := by
  simp [UInt8.toNat_and, nat_and15]

theorem shr4_eq_ofNat (b : UInt8) : b >>> (4 : UInt8) = UInt8.ofNat (b.toNat / 16) := by
  rw [← UInt8.toNat_inj, shr4_toNat, UInt8.toNat_ofNat']
  have := b.toNat_lt
  omega

/-- a one-element list is its `headD` -/
theorem eq_singleton_of_length_one {l : List UInt8} (h : l.length = 1) : l = [l.headD 0] := by
  match l, h with
  | [b], _ => rfl

/-! ## `Type()` -/

/-- what `Type()` leaves in the receiver: nothing changes when `mtypeflags` has
length 1; otherwise a fresh zero byte is allocated and the header is marked dirty -/
def typeHdr (h : Message.header) : Message.header :=
  if h.mtypeflags.length = 1 then h else { h with mtypeflags := [0], dirty := true }

/-- `Type()` on every header: never panics, returns the high nibble of the (possibly fresh) byte -/
theorem header_Type_general (h : Message.header) :
    Message.header.Type_ h = .ok (typeHdr h, ((typeHdr h).mtypeflags.headD 0) >>> (4 : UInt8)) := by
  unfold Message.header.Type_ typeHdr
  by_cases h1 : h.mtypeflags.length = 1
  · have hb := eq_singleton_of_length_one h1
    simp only [h1, bne_self_eq_false, Bool.false_eq_true, if_false, if_true]
    rw [hb]
    simp
  · have : (h.mtypeflags.length != 1) = true := by simpa using h1
    simp [this, h1]

/-- `Type()` with `len(mtypeflags) == 1`: the receiver is untouched and the answer is the model's `Hdr.type` -/
theorem header_Type_spec (h : Message.header) (h1 : h.mtypeflags.length = 1) :
    Message.header.Type_ h = .ok (h, UInt8.ofNat (hdrOf h).type) := by
  rw [header_Type_general]
  simp only [typeHdr, h1, if_true]
  rw [shr4_eq_ofNat]
  rfl

theorem header_Type_toNat (h : Message.header) :
    (UInt8.ofNat (hdrOf h).type).toNat = (hdrOf h).type := by
  rw [UInt8.toNat_ofNat']
  have := (hdrOf h).tf.toNat_lt
  simp only [Hdr.type]
  omega

/-- `Type()` with `len(mtypeflags) != 1` (e.g. the zero value `header{}`): a fresh
zero byte, the header becomes dirty, the answer is 0 (`RESERVED`) -/
theorem header_Type_alloc (h : Message.header) (hn : h.mtypeflags.length ≠ 1) :
    Message.header.Type_ h = .ok ({ h with mtypeflags := [0], dirty := true }, 0) := by
  rw [header_Type_general]
  simp only [typeHdr, hn, if_false]
  rfl

theorem header_Type_one (h : Message.header) (b : UInt8) (hb : h.mtypeflags = [b]) :
    Message.header.Type_ h = .ok (h, b >>> (4 : UInt8)) := by
  rw [header_Type_general]
  simp [typeHdr, hb]

theorem header_Flags_one (h : Message.header) (b : UInt8) (hb : h.mtypeflags = [b]) :
    Message.header.Flags h = .ok (b &&& (15 : UInt8)) := by
  rw [header_Flags_spec]
  simp [hb]

/-! ## `encode` -/

/-- `uint64(r)` of a non-negative `int32` keeps the value -/
theorem ofInt_toNat (r : Int) (h0 : 0 ≤ r) (h1 : r < 2 ^ 64) : (UInt64.ofInt r).toNat = r.toNat := by
  unfold UInt64.ofInt
  rw [UInt64.toNat_ofNat']
  have e : r % 2 ^ 64 = r := Int.emod_eq_of_lt h0 h1
  rw [e]
  apply Nat.mod_eq_of_lt
  omega

/-- the translated outcome that corresponds to an outcome of the model's `Hdr.encode`:
an error return leaves receiver and buffer alone (count 0, an error made on the spot);
a normal return has written the model's bytes over the front of `dst` -/
def encToRes (h : Message.header) (dst : List UInt8) :
    Outcome Bytes → Res (Message.header × List UInt8 × Nat × Err)
  | .err => .ok (h, dst, 0, Err.dyn)
  | .ok bytes => .ok (h, bytes ++ dst.drop bytes.length, bytes.length, Err.nil)
  | .panic => .panic

theorem two_le_hdrLen (n : Nat) : 2 ≤ hdrLen n := by
  unfold hdrLen
  split
  · omega
  · split
    · omega
    · split <;> omega

theorem valid_shr4 (b : UInt8) : Message.Type_.Valid (b >>> (4 : UInt8)) = validType (b.toNat / 16) := by
  rw [Type_Valid_is_source, shr4_toNat]

theorem header_encode_is_source (h : Message.header) (h1 : h.mtypeflags.length = 1) (h0 : 0 ≤ h.remlen)
    (dst : List UInt8) (fuel : Nat) (hf : 10 ≤ fuel) :
    Message.header.encode fuel h dst = encToRes h dst (Hdr.encode (hdrOf h) h.remlen.toNat dst.length) := by
  have hb := eq_singleton_of_length_one h1
  generalize h.mtypeflags.headD 0 = b at hb
  have htf : (hdrOf h).tf = b := by simp [hdrOf, hb]
  unfold Message.header.encode Hdr.encode
  simp only [header_msglen_is_source h h0, decide_eq_true_eq]
  by_cases c1 : dst.length < hdrLen h.remlen.toNat
  · simp only [c1, if_true, encToRes]
  · simp only [c1, if_false]
    by_cases c2 : h.remlen > 268435455
    · have c2' : h.remlen.toNat > maxRemainingLength := by unfold maxRemainingLength; omega
      simp [c2, c2', encToRes]
    · have c2' : ¬ h.remlen.toNat > maxRemainingLength := by unfold maxRemainingLength; omega
      have c3 : ¬ h.remlen < 0 := by omega
      simp only [c2, c3, c2', decide_false, Bool.or_self, Bool.false_eq_true, if_false]
      rw [header_Type_one h b hb]
      simp only [Res.bind, valid_shr4, Hdr.type, htf]
      by_cases c4 : validType (b.toNat / 16) = true
      · simp only [c4, Bool.not_true, Bool.false_eq_true, if_false]
        have hlen : 2 ≤ hdrLen h.remlen.toNat := two_le_hdrLen _
        have hd0 : 0 < dst.length := by omega
        rw [putUvarint_cases _ _ _ hf]
        have hx : (UInt64.ofInt h.remlen).toNat = h.remlen.toNat := ofInt_toNat _ h0 (by omega)
        simp only [hb, List.length_cons, List.length_nil, Nat.zero_add, Nat.lt_one_iff, hd0, decide_true,
          Bool.and_self, if_true, List.length_set, hx, List.length_drop, List.getD_cons_zero]
        have hle : (0 + 1) ≤ dst.length := by omega
        simp only [hle, if_true]
        by_cases c5 : dst.length < 1 + (putUvarint h.remlen.toNat).length
        · have c5' : dst.length - (0 + 1) < (putUvarint h.remlen.toNat).length := by omega
          simp [c5, c5', encToRes]
        · have c5' : ¬ dst.length - (0 + 1) < (putUvarint h.remlen.toNat).length := by omega
          simp only [c5, c5', if_false, encToRes]
          match dst, hd0 with
          | d :: rest, _ =>
            simp
            omega
      · simp only [Bool.not_eq_true] at c4
        simp [c4, encToRes, header_Type_one h b hb]

/-- a negative stored remaining length (not expressible in the model, whose `remlen` is a
natural number): the Go function returns an error, whatever the buffer and `mtypeflags` -/
theorem header_encode_negative (h : Message.header) (hneg : h.remlen < 0) (dst : List UInt8) (fuel : Nat) :
    Message.header.encode fuel h dst = .ok (h, dst, 0, Err.dyn) := by
  unfold Message.header.encode
  simp only [decide_eq_true_eq]
  split
  · rfl
  · simp [hneg]

/-- `len(mtypeflags) != 1` (a header that did not go through `SetType`, e.g. `header{}`):
`encode` fails; when it gets as far as `h.Type()` that call allocates the zero type byte
and marks the header dirty.  (The model's `Hdr` has no such state: `hdrOf` reads `headD 0`.) -/
theorem header_encode_unallocated (h : Message.header) (hn : h.mtypeflags.length ≠ 1)
    (dst : List UInt8) (fuel : Nat) :
    Message.header.encode fuel h dst =
      if dst.length < Message.header.msglen h ∨ h.remlen > 268435455 ∨ h.remlen < 0 then .ok (h, dst, 0, Err.dyn)
      else .ok ({ h with mtypeflags := [0], dirty := true }, dst, 0, Err.dyn) := by
  unfold Message.header.encode
  simp only [decide_eq_true_eq]
  by_cases c1 : dst.length < Message.header.msglen h
  · simp [c1]
  · by_cases c2 : h.remlen > 268435455 ∨ h.remlen < 0
    · have : (decide (h.remlen > 268435455) || decide (h.remlen < 0)) = true := by simpa using c2
      simp only [c1, if_false, this, if_true, c2, or_true]
    · have : (decide (h.remlen > 268435455) || decide (h.remlen < 0)) = false := by
        simp only [not_or] at c2
        simp [c2.1, c2.2]
      simp only [c1, if_false, this, Bool.false_eq_true, c2, or_false]
      rw [header_Type_alloc h hn]
      simp only [Res.bind]
      rw [header_Type_one _ 0 rfl]
      have hv : Message.Type_.Valid 0 = false := by decide
      simp [hv]

/-! ### the three cases of `encode` -/

theorem header_encode_err (h : Message.header) (h1 : h.mtypeflags.length = 1) (h0 : 0 ≤ h.remlen)
    (dst : List UInt8) (fuel : Nat) (hf : 10 ≤ fuel)
    (hm : Hdr.encode (hdrOf h) h.remlen.toNat dst.length = .err) :
    ∃ e, Message.header.encode fuel h dst = .ok (h, dst, 0, e) ∧ e ≠ Err.nil := by
  rw [header_encode_is_source h h1 h0 dst fuel hf, hm]
  exact ⟨Err.dyn, rfl, by decide⟩

theorem header_encode_ok (h : Message.header) (h1 : h.mtypeflags.length = 1) (h0 : 0 ≤ h.remlen)
    (dst : List UInt8) (fuel : Nat) (hf : 10 ≤ fuel) (bytes : Bytes)
    (hm : Hdr.encode (hdrOf h) h.remlen.toNat dst.length = .ok bytes) :
    Message.header.encode fuel h dst = .ok (h, bytes ++ dst.drop bytes.length, bytes.length, Err.nil) := by
  rw [header_encode_is_source h h1 h0 dst fuel hf, hm]
  rfl

theorem header_encode_panic (h : Message.header) (h1 : h.mtypeflags.length = 1) (h0 : 0 ≤ h.remlen)
    (dst : List UInt8) (fuel : Nat) (hf : 10 ≤ fuel)
    (hm : Hdr.encode (hdrOf h) h.remlen.toNat dst.length = .panic) :
    Message.header.encode fuel h dst = .panic := by
  rw [header_encode_is_source h h1 h0 dst fuel hf, hm]
  rfl

/-- the varint of a remaining length in range is exactly as long as `msglen` reserves -/
theorem putUvarint_length_hdrLen (x : Nat) (hx : x ≤ 268435455) : 1 + (putUvarint x).length = hdrLen x := by
  unfold putUvarint hdrLen msglenT1 msglenT2 msglenT3
  by_cases h1 : x ≥ 128
  · by_cases h2 : x / 128 ≥ 128
    · by_cases h3 : x / 128 / 128 ≥ 128
      · have h4 : ¬ x / 128 / 128 / 128 ≥ 128 := by omega
        rw [if_neg (by omega), if_neg (by omega), if_neg (by omega)]
        simp [putUvarintAux, h1, h2, h3, h4]
      · rw [if_neg (by omega), if_neg (by omega), if_pos (by omega)]
        simp [putUvarintAux, h1, h2, h3]
    · rw [if_neg (by omega), if_pos (by omega)]
      simp [putUvarintAux, h1, h2]
  · rw [if_pos (by omega)]
    simp [putUvarintAux, h1]

/-- so the panic case does not occur: the model's `Hdr.encode` never panics (the length check
at the top covers the `PutUvarint` call), hence neither does the translated `encode` -/
theorem hdr_encode_ne_panic (mh : Hdr) (remlen avail : Nat) : Hdr.encode mh remlen avail ≠ .panic := by
  unfold Hdr.encode
  split
  · intro x; cases x
  · split
    · intro x; cases x
    · split
      · intro x; cases x
      · rename_i hlen hmax _
        simp only [maxRemainingLength] at hmax
        have := putUvarint_length_hdrLen remlen (by omega)
        simp only []
        rw [if_neg (by omega)]
        intro x; cases x

theorem header_encode_returns (h : Message.header) (h1 : h.mtypeflags.length = 1) (h0 : 0 ≤ h.remlen)
    (dst : List UInt8) (fuel : Nat) (hf : 10 ≤ fuel) :
    ∃ dst' n e, Message.header.encode fuel h dst = .ok (h, dst', n, e) := by
  rw [header_encode_is_source h h1 h0 dst fuel hf]
  generalize ho : Hdr.encode (hdrOf h) h.remlen.toNat dst.length = o
  match o with
  | .err => exact ⟨_, _, _, rfl⟩
  | .ok b => exact ⟨_, _, _, rfl⟩
  | .panic => exact absurd ho (hdr_encode_ne_panic _ _ _)

/-! ## `decode` -/

/-- the translator's `int32(v)` of a `uint64` is the model's `toInt32`, on every value -/
theorem bv32_toInt (n : Nat) : (BitVec.ofNat 32 n).toInt = toInt32 n := by
  unfold toInt32
  rw [BitVec.toInt_eq_toNat_cond, BitVec.toNat_ofNat]
  simp only []
  split <;> split <;> first | rfl | omega

/-- the part of the model's `Hdr.decode` after the checks of the first byte -/
def decTail (mh : Hdr) (src : Bytes) : Outcome (Hdr × Nat) :=
  (sliceFrom src 1).bind fun buf =>
  let r := uvarint buf
  if r.2 ≤ 0 ∨ r.2 > maxVarintBytes then .err else
  let total := 1 + r.2.toNat
  let remlen := toInt32 r.1
  if remlen > maxRemainingLength then .err else
  (sliceFrom src total).bind fun rest =>
  if remlen > rest.length then .err else
  (sliceTo src (total + remlen.toNat)).bind fun d =>
  .ok ({ mh with remlen := remlen.toNat, dbuf := d }, total)

/-- how an outcome of the translated `decode` (from the point where the receiver is `g`)
corresponds to an outcome of the model: an error return is an error made on the spot
(receiver and count not modelled); a normal return has the model's count and the model's
`remlen` / `dbuf` stored into `g` -/
def decRel (g : Message.header) (r : Res (Message.header × Int × Err)) : Outcome (Hdr × Nat) → Prop
  | .err => ∃ h' n, r = .ok (h', n, Err.dyn)
  | .ok (mh, total) => r = .ok ({ g with remlen := (mh.remlen : Int), dbuf := mh.dbuf }, (total : Int), Err.nil)
  | .panic => r = .panic

theorem join1_is_source (g : Message.header) (mh : Hdr) (src : List UInt8) :
    decRel g (Message.header.decode.join1 g src 0) (decTail mh src) := by
  unfold Message.header.decode.join1 decTail
  by_cases hl : 1 ≤ src.length
  · rw [Mqtt.Proofs.Codec.sliceFrom_ok hl]
    have hc : (decide ((0 : Int) ≤ 0 + 1) && decide (((0 : Int) + 1).toNat ≤ src.length)) = true := by
      simp; omega
    simp only [hc, if_true, Mqtt.Proofs.Codec.bind_ok]
    have e1 : ((0 : Int) + 1).toNat = 1 := rfl
    rw [e1, uvarint_is_source]
    generalize hr : uvarint (List.drop 1 src) = r
    simp only [maxVarintBytes, decide_eq_true_eq]
    by_cases hm : r.2 ≤ 0 ∨ r.2 > 4
    · have : (decide (r.2 ≤ 0) || decide (r.2 > 4)) = true := by simpa using hm
      simp only [this, hm, if_true, decRel]
      exact ⟨_, _, rfl⟩
    · have hmb : (decide (r.2 ≤ 0) || decide (r.2 > 4)) = false := by
        simp only [not_or] at hm
        simp [hm.1, hm.2]
      simp only [hmb, hm, if_false, Bool.false_eq_true]
      simp only [not_or, Int.not_le, Int.not_lt] at hm
      have hb := Mqtt.Proofs.Codec.uvarint_bounds (src.drop 1) (by rw [hr]; exact hm.1) (by rw [hr]; omega)
      rw [hr] at hb
      have hlen : (List.drop 1 src).length = src.length - 1 := List.length_drop
      rw [hlen] at hb
      have hval : (UInt64.ofNat r.1).toNat = r.1 := by
        rw [UInt64.toNat_ofNat']; apply Nat.mod_eq_of_lt; omega
      rw [hval, bv32_toInt, Mqtt.Proofs.Codec.toInt32_small hb.1]
      have hnl : ¬ (UInt64.ofNat r.1 < 0) := by
        rw [UInt64.lt_iff_toNat_lt]; exact Nat.not_lt_zero _
      simp only [hnl, decide_false, Bool.or_false, decide_eq_true_eq, maxRemainingLength]
      by_cases hmax : (r.1 : Int) > 268435455
      · have : (r.1 : Int) > ((268435455 : Nat) : Int) := by omega
        simp only [hmax, this, if_true, decRel]
        exact ⟨_, _, rfl⟩
      · have : ¬ (r.1 : Int) > ((268435455 : Nat) : Int) := by omega
        simp only [hmax, this, if_false]
        have ht : (0 + 1 + r.2).toNat = 1 + r.2.toNat := by omega
        have htl : 1 + r.2.toNat ≤ src.length := by omega
        have hc2 : (decide (0 ≤ 0 + 1 + r.2) && decide (1 + r.2.toNat ≤ src.length)) = true := by
          simp only [Bool.and_eq_true, decide_eq_true_eq]; omega
        simp only [ht, hc2, if_true]
        rw [Mqtt.Proofs.Codec.sliceFrom_ok htl]
        simp only [Mqtt.Proofs.Codec.bind_ok]
        by_cases hfit : (r.1 : Int) > ((List.drop (1 + r.2.toNat) src).length : Int)
        · simp only [hfit, if_true, decRel]
          exact ⟨_, _, rfl⟩
        · simp only [hfit, if_false]
          simp only [List.length_drop] at hfit
          have htot : (0 + 1 + r.2 + (r.1 : Int)).toNat = 1 + r.2.toNat + r.1 := by omega
          have hc3 : (decide (0 ≤ 0 + 1 + r.2 + (r.1 : Int)) && decide (1 + r.2.toNat + r.1 ≤ src.length)) = true := by
            simp only [Bool.and_eq_true, decide_eq_true_eq]; omega
          simp only [htot, hc3, if_true, Int.toNat_natCast]
          rw [Mqtt.Proofs.Codec.sliceTo_ok (by omega)]
          simp only [Mqtt.Proofs.Codec.bind_ok, decRel]
          have : (0 + 1 + r.2 : Int) = ((1 + r.2.toNat : Nat) : Int) := by omega
          rw [this]
  · have e1 : ((0 : Int) + 1).toNat = 1 := rfl
    have hc : (decide ((0 : Int) ≤ 0 + 1) && decide (((0 : Int) + 1).toNat ≤ src.length)) = false := by
      rw [e1]; simp [hl]
    have : sliceFrom src 1 = .panic := by unfold sliceFrom; rw [if_neg hl]
    simp only [hc, this, Bool.false_eq_true, if_false]
    rfl

theorem shr4_beq3 (b : UInt8) : ((b >>> (4 : UInt8)) == (3 : UInt8)) = decide (b.toNat / 16 = tPUBLISH) := by
  unfold tPUBLISH
  rw [Bool.eq_iff_iff]
  simp only [beq_iff_eq, decide_eq_true_eq]
  rw [← UInt8.toNat_inj, shr4_toNat]
  exact Iff.rfl

theorem validQos_bits (b : UInt8) :
    Message.ValidQos (((b &&& (15 : UInt8)) >>> (1 : UInt8)) &&& (3 : UInt8)) = validQos (b.toNat % 16 / 2 % 4) := by
  rw [ValidQos_is_source, u8_qos_toNat]

theorem join2_is_source (g : Message.header) (s0 : UInt8) (hb : g.mtypeflags = [s0]) (mh : Hdr) (src : List UInt8) :
    decRel g (Message.header.decode.join2 g src 0)
      (if (decide (s0.toNat / 16 = tPUBLISH) && !validQos (s0.toNat % 16 / 2 % 4)) = true then .err else decTail mh src) := by
  unfold Message.header.decode.join2
  rw [header_Type_one g s0 hb]
  simp only [Res.bind, header_Flags_one g s0 hb, shr4_beq3, validQos_bits]
  by_cases hp : s0.toNat / 16 = tPUBLISH
  · by_cases hq : validQos (s0.toNat % 16 / 2 % 4) = true
    · simp only [hp, hq, decide_true, Bool.not_true, Bool.and_false, Bool.false_eq_true, if_false, if_true]
      exact join1_is_source g mh src
    · simp only [Bool.not_eq_true] at hq
      simp only [hp, hq, decide_true, Bool.not_false, Bool.and_true, if_true, decRel]
      exact ⟨_, _, rfl⟩
  · simp only [hp, decide_false, Bool.false_and, Bool.false_eq_true, if_false]
    exact join1_is_source g mh src

/-- the translated `decode` from the point where `mtypeflags` has been re-pointed at
`src[0:1]`: `g` is the receiver then, `s0` the first byte, `mt` the type read before -/
def decBody (g : Message.header) (s0 mt : UInt8) (src : List UInt8) : Res (Message.header × Int × Err) :=
  if (!(Message.Type_.Valid (s0 >>> (4 : UInt8)))) then .ok (g, 0, Err.dyn)
  else if (mt != (s0 >>> (4 : UInt8))) then .ok (g, 0, Err.dyn)
  else if ((s0 >>> (4 : UInt8)) != (3 : UInt8)) then
    if ((s0 &&& (15 : UInt8)) != (Message.Type_.DefaultFlags (s0 >>> (4 : UInt8)))) then .ok (g, 0, Err.dyn)
    else Message.header.decode.join2 g src 0
  else Message.header.decode.join2 g src 0

theorem typeHdr_lit (r : Int) (b : UInt8) (p d : List UInt8) (dy : Bool) :
    typeHdr ⟨r, [b], p, d, dy⟩ = ⟨r, [b], p, d, dy⟩ := by
  simp [typeHdr]

theorem Flags_lit (r : Int) (b : UInt8) (p d : List UInt8) (dy : Bool) :
    Message.header.Flags ⟨r, [b], p, d, dy⟩ = .ok (b &&& (15 : UInt8)) :=
  header_Flags_one _ b rfl

theorem decode_eq_decBody (h : Message.header) (s0 : UInt8) (rest : List UInt8) :
    Message.header.decode h (s0 :: rest) =
      decBody { typeHdr { h with dbuf := s0 :: rest } with mtypeflags := [s0] } s0
        (((typeHdr { h with dbuf := s0 :: rest }).mtypeflags.headD 0) >>> (4 : UInt8)) (s0 :: rest) := by
  unfold Message.header.decode decBody
  simp only [header_Type_general, Res.bind]
  generalize typeHdr { h with dbuf := s0 :: rest } = g0
  have e : List.take (((0 : Int) + 1).toNat - Int.toNat 0) (List.drop (Int.toNat 0) (s0 :: rest)) = [s0] := rfl
  have e2 : (decide ((s0 :: rest).length < 1)) = false := by simp
  have e3 : (decide ((0 : Int) ≤ 0) && decide ((0 : Int) ≤ 0 + 1) && decide (Int.toNat 0 ≤ ((0 : Int) + 1).toNat) &&
              decide (((0 : Int) + 1).toNat ≤ (s0 :: rest).length)) = true := by
    have : ((0 : Int) + 1).toNat = 1 := rfl
    rw [this]; simp
  simp only [e, e2, e3, typeHdr_lit, Flags_lit, Bool.false_eq_true, if_false, if_true, List.headD_cons]

/-- the model's `Hdr.decode` from the same point: `mh` is the model header with the first
byte stored, `mtype` the type read before -/
def decModelBody (mh : Hdr) (mtype : Nat) (s0 : UInt8) (src : Bytes) : Outcome (Hdr × Nat) :=
  if !validType (s0.toNat / 16) then .err
  else if mtype ≠ s0.toNat / 16 then .err
  else if s0.toNat / 16 ≠ tPUBLISH && s0.toNat % 16 ≠ defaultFlagsOf (s0.toNat / 16) then .err
  else if s0.toNat / 16 = tPUBLISH && !validQos (s0.toNat % 16 / 2 % 4) then .err
  else decTail mh src

theorem model_decode_eq (mh : Hdr) (s0 : UInt8) (rest : List UInt8) :
    Hdr.decode mh (s0 :: rest) =
      decModelBody { mh with dbuf := s0 :: rest, tf := s0, tfInBuf := true } mh.type s0 (s0 :: rest) := by
  unfold Hdr.decode decModelBody decTail
  have e : slice (s0 :: rest) 0 1 = .ok [s0] := by
    rw [Mqtt.Proofs.Codec.slice_ok (by omega) (by simp)]; rfl
  have e2 : ¬ (s0 :: rest).length < 1 := by simp
  rw [if_neg e2, e]
  rfl

theorem bne_shr4 (mt s0 : UInt8) : (mt != (s0 >>> (4 : UInt8))) = decide (mt.toNat ≠ s0.toNat / 16) := by
  rw [Bool.eq_iff_iff]
  simp only [bne_iff_ne, ne_eq, decide_eq_true_eq]
  rw [← UInt8.toNat_inj, shr4_toNat]

theorem shr4_bne3 (b : UInt8) : ((b >>> (4 : UInt8)) != (3 : UInt8)) = decide (b.toNat / 16 ≠ tPUBLISH) := by
  unfold tPUBLISH
  rw [Bool.eq_iff_iff]
  simp only [bne_iff_ne, ne_eq, decide_eq_true_eq]
  rw [← UInt8.toNat_inj, shr4_toNat]
  exact Iff.rfl

theorem flags_bne_default (b : UInt8) :
    ((b &&& (15 : UInt8)) != (Message.Type_.DefaultFlags (b >>> (4 : UInt8)))) =
      decide (b.toNat % 16 ≠ defaultFlagsOf (b.toNat / 16)) := by
  rw [Bool.eq_iff_iff]
  simp only [bne_iff_ne, ne_eq, decide_eq_true_eq]
  rw [← UInt8.toNat_inj, and15_toNat, Type_DefaultFlags_is_source, shr4_toNat]

theorem decBody_is_source (g : Message.header) (s0 mt : UInt8) (hb : g.mtypeflags = [s0]) (mh : Hdr)
    (mtype : Nat) (hmt : mt.toNat = mtype) (src : List UInt8) :
    decRel g (decBody g s0 mt src) (decModelBody mh mtype s0 src) := by
  unfold decBody decModelBody
  simp only [valid_shr4, bne_shr4, shr4_bne3, flags_bne_default, hmt]
  by_cases hv : validType (s0.toNat / 16) = true
  · simp only [hv, Bool.not_true, Bool.false_eq_true, if_false]
    by_cases hm : mtype ≠ s0.toNat / 16
    · simp only [hm, decide_true, if_true, decRel, ne_eq, not_false_eq_true]
      exact ⟨_, _, rfl⟩
    · simp only [hm, decide_false, Bool.false_eq_true, if_false]
      by_cases hp : s0.toNat / 16 ≠ tPUBLISH
      · by_cases hfl : s0.toNat % 16 ≠ defaultFlagsOf (s0.toNat / 16)
        · simp only [hp, hfl, decide_true, Bool.and_self, if_true, decRel, ne_eq, not_false_eq_true]
          exact ⟨_, _, rfl⟩
        · simp only [hp, hfl, decide_true, decide_false, Bool.and_false, Bool.false_eq_true, if_false, if_true,
            ne_eq, not_false_eq_true]
          have j := join2_is_source g s0 hb mh src
          simp only [hp, decide_false] at j
          exact j
      · simp only [hp, decide_false, Bool.false_and, Bool.false_eq_true, if_false]
        exact join2_is_source g s0 hb mh src
  · simp only [Bool.not_eq_true] at hv
    simp only [hv, Bool.not_false, if_true, decRel]
    exact ⟨_, _, rfl⟩

/-- the model rejects every buffer when the type read before is 0 (`RESERVED`): a valid
type is not 0, so the "expecting" check fails -/
theorem decModelBody_zero (mh : Hdr) (s0 : UInt8) (src : Bytes) : decModelBody mh 0 s0 src = .err := by
  unfold decModelBody
  by_cases hv : validType (s0.toNat / 16) = true
  · have : 0 ≠ s0.toNat / 16 := by
      unfold validType typeValidAbove at hv
      simp only [Bool.and_eq_true, decide_eq_true_eq] at hv
      omega
    simp [hv, this]
  · simp only [Bool.not_eq_true] at hv
    simp [hv]

/-- how an outcome of the translated `decode` on receiver `h` corresponds to an outcome of
the model's `Hdr.decode`: an error return is an error made on the spot (which receiver
fields were already written and the byte count are not modelled); a normal return has the
model's byte count, and the receiver is `h` with the model's `remlen`, first byte and `dbuf` -/
def decToRes (h : Message.header) (r : Res (Message.header × Int × Err)) : Outcome (Hdr × Nat) → Prop
  | .err => ∃ h' n, r = .ok (h', n, Err.dyn)
  | .ok (mh, total) =>
    r = .ok ({ h with remlen := (mh.remlen : Int), mtypeflags := [mh.tf], dbuf := mh.dbuf }, (total : Int), Err.nil)
  | .panic => r = .panic

theorem header_decode_is_source (h : Message.header) (h1 : h.mtypeflags.length ≤ 1) (src : List UInt8) :
    decToRes h (Message.header.decode h src) (Hdr.decode (hdrOf h) src) := by
  match src with
  | [] =>
    have e1 : Hdr.decode (hdrOf h) [] = .err := by unfold Hdr.decode; simp
    have e2 : Message.header.decode h [] = .ok (h, 0, Err.dyn) := by unfold Message.header.decode; simp
    rw [e1, e2]
    exact ⟨_, _, rfl⟩
  | s0 :: rest =>
    rw [decode_eq_decBody]
    have hshape : h.mtypeflags = [] ∨ ∃ b, h.mtypeflags = [b] := by
      match h.mtypeflags, h1 with
      | [], _ => exact Or.inl rfl
      | [b], _ => exact Or.inr ⟨b, rfl⟩
    rcases hshape with hm | ⟨b, hm⟩
    ·
      have ht : typeHdr { h with dbuf := s0 :: rest } = { h with dbuf := s0 :: rest, mtypeflags := [0], dirty := true } := by
        simp [typeHdr, hm]
      rw [ht]
      have key := decBody_is_source { h with dbuf := s0 :: rest, mtypeflags := [s0], dirty := true } s0
        ((0 : UInt8) >>> (4 : UInt8)) rfl { hdrOf h with dbuf := s0 :: rest, tf := s0, tfInBuf := true } 0 (by decide) (s0 :: rest)
      have hty : (hdrOf h).type = 0 := by simp [hdrOf, Hdr.type, hm]
      rw [model_decode_eq, hty, decModelBody_zero]
      rw [decModelBody_zero] at key
      exact key
    ·
      have ht : typeHdr { h with dbuf := s0 :: rest } = { h with dbuf := s0 :: rest } := by
        simp [typeHdr, hm]
      rw [ht]
      have hty : (b >>> (4 : UInt8)).toNat = (hdrOf h).type := by
        rw [shr4_toNat]; simp [hdrOf, Hdr.type, hm]
      have key := decBody_is_source { h with dbuf := s0 :: rest, mtypeflags := [s0] } s0
        (b >>> (4 : UInt8)) rfl { hdrOf h with dbuf := s0 :: rest, tf := s0, tfInBuf := true } (hdrOf h).type hty (s0 :: rest)
      rw [← model_decode_eq] at key
      have hh : ({ h with dbuf := s0 :: rest } : Message.header).mtypeflags.headD 0 = b := by simp [hm]
      rw [hh]
      generalize ho : Hdr.decode (hdrOf h) (s0 :: rest) = o at key ⊢
      match o with
      | .err => exact key
      | .panic => exact key
      | .ok (m, n) =>
        have hd := Mqtt.Proofs.Codec.hdr_decode_ok ho
        have htf : m.tf = s0 := by
          have := hd.tf
          simp only [List.getElem?_cons_zero, Option.some.injEq] at this
          exact this.symm
        simp only [decRel] at key
        simp only [decToRes]
        rw [key, htf]

/-! ### the three cases, and what is left of the hypothesis -/

/-- model error ⇒ the Go function returns an error (never `nil`) -/
theorem header_decode_err (h : Message.header) (h1 : h.mtypeflags.length ≤ 1) (src : List UInt8)
    (hm : Hdr.decode (hdrOf h) src = .err) :
    ∃ h' n e, Message.header.decode h src = .ok (h', n, e) ∧ e ≠ Err.nil := by
  have key := header_decode_is_source h h1 src
  rw [hm] at key
  obtain ⟨h', n, e⟩ := key
  exact ⟨h', n, Err.dyn, e, by decide⟩

/-- model success ⇒ the Go function returns the model's count and `nil`, and the receiver
abstracts to the model's header up to the alias flag `tfInBuf` (`pidOff` is `none` on both sides) -/
theorem header_decode_ok (h : Message.header) (h1 : h.mtypeflags.length ≤ 1) (src : List UInt8)
    (mh : Hdr) (total : Nat) (hm : Hdr.decode (hdrOf h) src = .ok (mh, total)) :
    ∃ h', Message.header.decode h src = .ok (h', (total : Int), Err.nil) ∧
      h' = { h with remlen := (mh.remlen : Int), mtypeflags := [mh.tf], dbuf := mh.dbuf } ∧
      hdrOf h' = { mh with tfInBuf := false } := by
  have key := header_decode_is_source h h1 src
  rw [hm] at key
  refine ⟨_, key, rfl, ?_⟩
  have hd := Mqtt.Proofs.Codec.hdr_decode_ok hm
  have e1 := hd.pid
  have e2 := hd.pidOff
  have e3 := hd.dirty
  simp only [hdrOf] at e1 e2 e3
  simp only [hdrOf, List.headD_cons, Int.toNat_natCast]
  rw [← e1, ← e2, ← e3]

/-- neither side panics, and the translation has no other abnormal outcome -/
theorem header_decode_returns (h : Message.header) (h1 : h.mtypeflags.length ≤ 1) (src : List UInt8) :
    Hdr.decode (hdrOf h) src ≠ .panic ∧ ∃ h' n e, Message.header.decode h src = .ok (h', n, e) := by
  refine ⟨Mqtt.Proofs.Codec.hdr_decode_ne_panic _ _, ?_⟩
  have key := header_decode_is_source h h1 src
  generalize ho : Hdr.decode (hdrOf h) src = o at key
  match o with
  | .err => obtain ⟨h', n, e⟩ := key; exact ⟨h', n, _, e⟩
  | .panic => exact absurd ho (Mqtt.Proofs.Codec.hdr_decode_ne_panic _ _)
  | .ok (m, n) => exact ⟨_, _, _, key⟩

/-- `len(mtypeflags) != 1` (a header that did not go through `SetType`, e.g. `header{}`):
the first `h.Type()` allocates a zero byte, so the "expecting" check can never pass and
`decode` returns an error on every buffer -/
theorem header_decode_unallocated (h : Message.header) (hn : h.mtypeflags.length ≠ 1) (src : List UInt8) :
    ∃ h' n, Message.header.decode h src = .ok (h', n, Err.dyn) := by
  match src with
  | [] => exact ⟨h, 0, by unfold Message.header.decode; simp⟩
  | s0 :: rest =>
    rw [decode_eq_decBody]
    have ht : typeHdr { h with dbuf := s0 :: rest } = { h with dbuf := s0 :: rest, mtypeflags := [0], dirty := true } := by
      simp [typeHdr, hn]
    rw [ht]
    have key := decBody_is_source { h with dbuf := s0 :: rest, mtypeflags := [s0], dirty := true } s0
      ((0 : UInt8) >>> (4 : UInt8)) rfl { hdrOf h with dbuf := s0 :: rest, tf := s0, tfInBuf := true } 0 (by decide) (s0 :: rest)
    rw [decModelBody_zero] at key
    exact key

/-- the hypothesis `len(mtypeflags) ≤ 1` of `header_decode_is_source` cannot be dropped:
`hdrOf` reads `headD 0` of a two-byte `mtypeflags`, the Go code re-allocates it.
(Such a header is not reachable: only `Type`, `SetType` and `decode` assign the field.) -/
theorem header_decode_two_bytes :
    Message.header.decode ⟨0, [16, 0], [], [], false⟩ [16, 0] = .ok (⟨0, [16], [], [16, 0], true⟩, 0, Err.dyn) ∧
    Hdr.decode (hdrOf ⟨0, [16, 0], [], [], false⟩) [16, 0] =
      .ok ({ tf := 16, tfInBuf := true, remlen := 0, dbuf := [16, 0], dirty := false }, 2) := by
  constructor <;> decide +kernel

end Mqtt.Proofs.XlateHeader
