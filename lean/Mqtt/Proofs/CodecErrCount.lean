/-
Core A (codec): the byte count a decoder returns together with an error
(`Model.Codec.decodeNewErrN`) is never larger than the input.
-/
import Mqtt.Proofs.CodecAlias

set_option linter.unusedSimpArgs false
set_option linter.unusedVariables false

namespace Mqtt.Proofs.Codec

open Mqtt.Model.Codec Mqtt.Iface.Codec Mqtt.Generated
open Mqtt.Spec

theorem hdr_errN_le (h : Hdr) (src : Bytes) : h.decodeErrN src ≤ src.length := by
  unfold Hdr.decodeErrN
  split
  · omega
  · rename_i h1
    simp only []
    split
    · omega
    · split
      · omega
      · split
        · omega
        · split
          · omega
          · split
            · omega
            · rename_i hm
              simp only [not_or, Int.not_le, Int.not_lt] at hm
              have c := uvarintAux_count (src.drop 1) 0 0 hm.1
              unfold uvarint
              have : (List.drop 1 src).length = src.length - 1 := List.length_drop
              omega

theorem readLPErrN_le (buf : Bytes) : readLPErrN buf ≤ buf.length := by
  unfold readLPErrN; split <;> omega

theorem fieldErrN_le (src : Bytes) (total : Nat) (h : total ≤ src.length) : fieldErrN src total ≤ src.length := by
  unfold fieldErrN
  have := readLPErrN_le (src.drop total)
  rw [List.length_drop] at this
  omega

theorem readLP_len {buf v : Bytes} {k : Nat} (h : readLPBytes buf = .ok (v, k)) : 2 ≤ k ∧ k ≤ buf.length := by
  rcases readLP_spec buf with he | ⟨r, hr, k', h1, h2, h3, _⟩
  · rw [he] at h; cases h
  · rw [hr] at h
    injection h with h
    subst h
    simp only [] at h1 h2
    omega

theorem hdr_ok_fits {h : Hdr} {src : Bytes} {r : Hdr × Nat} (hd : h.decode src = .ok r) :
    r.2 + r.1.remlen ≤ src.length :=
  (hdr_decode_ok (h' := r.1) (n := r.2) hd).fits

theorem decodeFixedErrN_le (h : Hdr) (src : Bytes) : decodeFixedErrN h src ≤ src.length := by
  unfold decodeFixedErrN
  split
  · rename_i r hd; have := hdr_ok_fits hd; omega
  · exact hdr_errN_le h src

theorem decodeConnackErrN_le (h : Hdr) (src : Bytes) : decodeConnackErrN h src ≤ src.length := by
  unfold decodeConnackErrN
  split
  · rename_i r hd; have := hdr_ok_fits hd; split <;> omega
  · exact hdr_errN_le h src

theorem decodeSubackErrN_le (h : Hdr) (src : Bytes) : decodeSubackErrN h src ≤ src.length := by
  unfold decodeSubackErrN
  split
  · rename_i r hd; have := hdr_ok_fits hd; split <;> omega
  · exact hdr_errN_le h src

theorem decodePublishErrN_le (h : Hdr) (src : Bytes) : decodePublishErrN h src ≤ src.length := by
  unfold decodePublishErrN
  split
  · rename_i r hd
    have hf := hdr_ok_fits hd
    simp only []
    have hl : (List.take (r.2 + r.1.remlen) src).length = r.2 + r.1.remlen := by rw [List.length_take]; omega
    split
    · rename_i lp hlp
      have := (readLP_len (v := lp.1) (k := lp.2) hlp).2
      rw [List.length_drop, hl] at this
      omega
    · have := fieldErrN_le (List.take (r.2 + r.1.remlen) src) r.2 (by omega)
      omega
  · exact hdr_errN_le h src

theorem subStepErrN_le (src : Bytes) (total : Nat) (h : total ≤ src.length) : subStepErrN src total ≤ src.length := by
  unfold subStepErrN
  split
  · rename_i lp hlp
    have := (readLP_len (v := lp.1) (k := lp.2) hlp).2
    rw [List.length_drop] at this
    omega
  · exact fieldErrN_le src total h

theorem subStep_fits {src : Bytes} {total : Nat} {t : Bytes} {q : UInt8} {n : Nat}
    (h : subStep src total = .ok (t, q, n)) : total + n + 1 ≤ src.length := by
  unfold subStep at h
  obtain ⟨buf, hbuf, h⟩ := bind_eq_ok.mp h
  obtain ⟨_, rfl⟩ := sliceFrom_inv hbuf
  obtain ⟨lp, hlp, h⟩ := bind_eq_ok.mp h
  obtain ⟨rest, hrest, h⟩ := bind_eq_ok.mp h
  obtain ⟨_, rfl⟩ := sliceFrom_inv hrest
  split at h
  · cases h
  · rename_i hr
    obtain ⟨qq, hq, h⟩ := bind_eq_ok.mp h
    injection h with h
    injection h with h1 h2
    injection h2 with h2 h3
    rw [List.length_drop] at hr
    omega

theorem subLoopErrN_le (src : Bytes) : ∀ (remlen total : Nat), total ≤ src.length →
    subLoopErrN src total remlen ≤ src.length := by
  intro remlen
  induction remlen using Nat.strongRecOn with
  | ind remlen ih =>
    intro total ht
    rw [subLoopErrN]
    split
    · omega
    · split
      · rename_i t q n hstep
        exact ih (remlen - n - 1) (by omega) _ (by have := subStep_fits hstep; omega)
      · exact subStepErrN_le src total ht

theorem decodeSubscribeErrN_le (h : Hdr) (src : Bytes) : decodeSubscribeErrN h src ≤ src.length := by
  unfold decodeSubscribeErrN
  split
  · rename_i r hd
    have hf := hdr_ok_fits hd
    simp only []
    split
    · omega
    · have hl : (List.take (r.2 + r.1.remlen) src).length = r.2 + r.1.remlen := by rw [List.length_take]; omega
      have := subLoopErrN_le (List.take (r.2 + r.1.remlen) src) (r.1.remlen - 2) (r.2 + 2) (by omega)
      omega
  · exact hdr_errN_le h src

theorem unsubStep_fits {src : Bytes} {total : Nat} {t : Bytes} {k : Nat}
    (h : unsubStep src total = .ok (t, k)) : total + (2 + k) ≤ src.length := by
  unfold unsubStep at h
  obtain ⟨buf, hbuf, h⟩ := bind_eq_ok.mp h
  obtain ⟨_, rfl⟩ := sliceFrom_inv hbuf
  obtain ⟨lp, hlp, h⟩ := bind_eq_ok.mp h
  injection h with h
  injection h with h1 h2
  have := readLP_len (v := lp.1) (k := lp.2) hlp
  rw [List.length_drop] at this
  omega

theorem unsubLoopErrN_le (src : Bytes) : ∀ (remlen total : Nat), total ≤ src.length →
    unsubLoopErrN src total remlen ≤ src.length := by
  intro remlen
  induction remlen using Nat.strongRecOn with
  | ind remlen ih =>
    intro total ht
    rw [unsubLoopErrN]
    split
    · omega
    · split
      · rename_i t k hstep
        exact ih (remlen - (2 + k)) (by omega) _ (by have := unsubStep_fits hstep; omega)
      · exact fieldErrN_le src total ht

theorem decodeUnsubscribeErrN_le (h : Hdr) (src : Bytes) : decodeUnsubscribeErrN h src ≤ src.length := by
  unfold decodeUnsubscribeErrN
  split
  · rename_i r hd
    have hf := hdr_ok_fits hd
    simp only []
    split
    · omega
    · have hl : (List.take (r.2 + r.1.remlen) src).length = r.2 + r.1.remlen := by rw [List.length_take]; omega
      have := unsubLoopErrN_le (List.take (r.2 + r.1.remlen) src) (r.1.remlen - 2) (r.2 + 2) (by omega)
      omega
  · exact hdr_errN_le h src

/-! ### CONNECT -/

theorem readField_fits {src : Bytes} {total : Nat} {f : Bytes × View × Nat} (h : readField src total = .ok f) :
    total + 2 ≤ f.2.2 ∧ f.2.2 ≤ src.length := by
  unfold readField at h
  obtain ⟨buf, hbuf, h⟩ := bind_eq_ok.mp h
  obtain ⟨hle, rfl⟩ := sliceFrom_inv hbuf
  obtain ⟨lp, hlp, h⟩ := bind_eq_ok.mp h
  injection h with h
  have := readLP_len (v := lp.1) (k := lp.2) hlp
  rw [List.length_drop] at this
  rw [← h]
  simp only []
  omega

theorem connectFixedErrN_le (c : ConnectF) (src : Bytes) : connectFixedErrN c src ≤ src.length := by
  unfold connectFixedErrN
  split
  · rename_i f hf
    have := readField_fits hf
    simp only []
    split
    · omega
    · rename_i h2
      rw [List.length_drop] at h2
      repeat' split
      all_goals omega
  · exact fieldErrN_le src 0 (by omega)

theorem connectFixed_fits {c c' : ConnectF} {src : Bytes} {n : Nat} (h : connectFixed c src = .ok (c', n)) :
    n ≤ src.length := by
  unfold connectFixed at h
  obtain ⟨f, hf, h⟩ := bind_eq_ok.mp h
  have hff := readField_fits hf
  simp only [] at h
  obtain ⟨rest, hrest, h⟩ := bind_eq_ok.mp h
  split at h
  · cases h
  · obtain ⟨ver, hver, h⟩ := bind_eq_ok.mp h
    split at h
    · cases h
    · obtain ⟨cf, hcf, h⟩ := bind_eq_ok.mp h
      split at h
      · cases h
      · split at h
        · cases h
        · split at h
          · cases h
          · obtain ⟨rest2, hrest2, h⟩ := bind_eq_ok.mp h
            obtain ⟨_, rfl⟩ := sliceFrom_inv hrest2
            split at h
            · cases h
            · rename_i hk
              obtain ⟨ka, hka, h⟩ := bind_eq_ok.mp h
              injection h with h
              injection h with h1 h2
              rw [List.length_drop] at hk
              omega

theorem connectClientIDErrN_le (src : Bytes) (total : Nat) (h : total ≤ src.length) :
    connectClientIDErrN src total ≤ src.length := by
  unfold connectClientIDErrN
  split
  · rename_i lp hlp
    have := (readLP_len (v := lp.1) (k := lp.2) hlp).2
    rw [List.length_drop] at this
    omega
  · exact fieldErrN_le src total h

theorem connectClientID_fits {c : ConnectF} {src : Bytes} {total base : Nat} {r : ConnectF × View × Nat}
    (h : connectClientID c src total base = .ok r) : r.2.2 ≤ src.length := by
  unfold connectClientID at h
  obtain ⟨f, hf, h⟩ := bind_eq_ok.mp h
  have := readField_fits hf
  simp only [] at h
  split at h
  · cases h
  · split at h
    · cases h
    · injection h with h; rw [← h]; simp only []; omega

theorem connectWillErrN_le (src : Bytes) (total : Nat) (h : total ≤ src.length) :
    connectWillErrN src total ≤ src.length := by
  unfold connectWillErrN
  split
  · rename_i f hf
    exact fieldErrN_le src _ (readField_fits hf).2
  · exact fieldErrN_le src total h

theorem connectWill_fits {c : ConnectF} {src : Bytes} {total base : Nat} {r : ConnectF × View × View × Nat}
    (h : connectWill c src total base = .ok r) (ht : total ≤ src.length) : r.2.2.2 ≤ src.length := by
  unfold connectWill at h
  split at h
  · obtain ⟨f1, hf1, h⟩ := bind_eq_ok.mp h
    obtain ⟨f2, hf2, h⟩ := bind_eq_ok.mp h
    injection h with h; rw [← h]; exact (readField_fits hf2).2
  · injection h with h; rw [← h]; exact ht

theorem connectUser_fits {c : ConnectF} {src : Bytes} {total base : Nat} {r : ConnectF × View × Nat}
    (h : connectUser c src total base = .ok r) (ht : total ≤ src.length) : r.2.2 ≤ src.length := by
  unfold connectUser at h
  obtain ⟨rest, hrest, h⟩ := bind_eq_ok.mp h
  split at h
  · obtain ⟨f1, hf1, h⟩ := bind_eq_ok.mp h
    injection h with h; rw [← h]; exact (readField_fits hf1).2
  · injection h with h; rw [← h]; exact ht

theorem connectPass_fits {c : ConnectF} {src : Bytes} {total base : Nat} {r : ConnectF × View × Nat}
    (h : connectPass c src total base = .ok r) (ht : total ≤ src.length) : r.2.2 ≤ src.length := by
  unfold connectPass at h
  obtain ⟨rest, hrest, h⟩ := bind_eq_ok.mp h
  split at h
  · obtain ⟨f1, hf1, h⟩ := bind_eq_ok.mp h
    injection h with h; rw [← h]; exact (readField_fits hf1).2
  · injection h with h; rw [← h]; exact ht

theorem decodeConnectMessageErrN_le (c : ConnectF) (src : Bytes) : decodeConnectMessageErrN c src ≤ src.length := by
  unfold decodeConnectMessageErrN
  split
  · rename_i r1 h1
    have b1 := connectFixed_fits (c' := r1.1) (n := r1.2) h1
    split
    · rename_i r2 h2
      have b2 := connectClientID_fits h2
      split
      · rename_i r3 h3
        have b3 := connectWill_fits h3 b2
        split
        · rename_i r4 h4
          have b4 := connectUser_fits h4 b3
          split
          · rename_i r5 h5
            exact connectPass_fits h5 b4
          · exact fieldErrN_le src _ b4
        · exact fieldErrN_le src _ b3
      · exact connectWillErrN_le src _ b2
    · exact connectClientIDErrN_le src _ b1
  · exact connectFixedErrN_le c src

theorem decodeConnectErrN_le (h : Hdr) (c : ConnectF) (src : Bytes) : decodeConnectErrN h c src ≤ src.length := by
  unfold decodeConnectErrN
  split
  · rename_i r hd
    have hf := hdr_ok_fits hd
    simp only []
    have := decodeConnectMessageErrN_le c (List.drop r.2 (List.take (r.2 + r.1.remlen) src))
    rw [List.length_drop, List.length_take] at this
    omega
  · exact hdr_errN_le h src

/-- the byte count returned together with an error is never larger than the input (every type, every input) -/
theorem decodeNewErrN_le (t : Nat) (src : Bytes) : decodeNewErrN t src ≤ src.length := by
  unfold decodeNewErrN
  split
  · rename_i m _
    cases m with
    | connect h c => exact decodeConnectErrN_le h c src
    | connack h _ _ => exact decodeConnackErrN_le h src
    | publish h _ _ => exact decodePublishErrN_le h src
    | ack h => exact decodeFixedErrN_le h src
    | subscribe h _ _ => exact decodeSubscribeErrN_le h src
    | suback h _ => exact decodeSubackErrN_le h src
    | unsubscribe h _ => exact decodeUnsubscribeErrN_le h src
    | bare h => exact decodeFixedErrN_le h src
  · omega

end Mqtt.Proofs.Codec
