/-
Tie of the translated standard-library function `encoding/binary.PutUvarint`
(`Mqtt.Generated.Xlate.Binary.PutUvarint`, from `$GOROOT/src/encoding/binary/varint.go`)
to the hand-written model `Mqtt.Model.Codec.putUvarint` (the bytes written).

* `putUvarint_is_source`: on a buffer that is long enough the translated function
  returns the buffer with the model's bytes written over its front, and the model's
  byte count (iteration budget `fuel ≥ 10`; `putUvarint_fuel_nine` shows 10 is least).
* `putUvarint_short_panics`: on a shorter buffer it panics (the Go index panic that
  `Hdr.encode` of the model represents by `.panic`).
* `putUvarint_length`, `putUvarint_length_le_four`: 1..10 bytes; at most 4 for a
  value `≤ 268435455`.
* `putUvarint_never_fuel`.
-/
import Mqtt.Generated.Xlate
import Mqtt.Model.Codec

namespace Mqtt.Proofs.XlatePutUvarint

open Mqtt.Generated.Xlate
open Mqtt.Model.Codec

/-! ## byte-level facts -/

private theorem or128_nat : ∀ n : Nat, n < 256 → (n ||| 128) = n % 128 + 128 := by
  decide +kernel

/-- the continuation byte: `byte(x) | 0x80` is `x % 128 + 128` -/
theorem cont_byte (x : UInt64) :
    x.toUInt8 ||| (128 : UInt8) = UInt8.ofNat (x.toNat % 128 + 128) := by
  apply UInt8.toNat_inj.mp
  rw [UInt8.toNat_or, UInt64.toNat_toUInt8, UInt8.toNat_ofNat']
  have h := or128_nat (x.toNat % 256) (Nat.mod_lt _ (by decide))
  show x.toNat % 256 ||| 128 = (x.toNat % 128 + 128) % 256
  rw [h]
  omega

/-- the last byte: `byte(x)` is `UInt8.ofNat x` -/
theorem last_byte (x : UInt64) : x.toUInt8 = UInt8.ofNat x.toNat := by
  apply UInt8.toNat_inj.mp
  rw [UInt64.toNat_toUInt8, UInt8.toNat_ofNat']

theorem shift7 (x : UInt64) : (x >>> (7 : UInt64)).toNat = x.toNat / 128 := by
  rw [UInt64.toNat_shiftRight]
  have e : (7 : UInt64).toNat % 64 = 7 := rfl
  rw [e, Nat.shiftRight_eq_div_pow]

theorem ge128 (x : UInt64) : (x ≥ (128 : UInt64)) ↔ x.toNat ≥ 128 := by
  show (128 : UInt64) ≤ x ↔ _
  rw [UInt64.le_iff_toNat_le]
  exact Iff.rfl

/-! ## the loop -/

/-- the model's output is never empty -/
theorem aux_length_pos (m x : Nat) : 1 ≤ (putUvarintAux m x).length := by
  cases m with
  | zero => simp [putUvarintAux]
  | succ m =>
    unfold putUvarintAux
    split <;> simp

theorem aux_length_le (m x : Nat) : (putUvarintAux m x).length ≤ m + 1 := by
  induction m generalizing x with
  | zero => simp [putUvarintAux]
  | succ m ih =>
    unfold putUvarintAux
    split
    · have := ih (x / 128)
      simp
      omega
    · simp

/-- loop invariant, success case: with `pre` already written (`i = pre.length`) and
`rest` long enough, the loop writes the model's bytes for `x` over the front of `rest` -/
theorem loop_ok (m : Nat) : ∀ (x : UInt64) (pre rest : List UInt8) (fuel : Nat),
    x.toNat < 128 ^ (m + 1) → m + 1 ≤ fuel →
    (putUvarintAux m x.toNat).length ≤ rest.length →
    Binary.PutUvarint.loop1 fuel (pre ++ rest) x pre.length =
      .ok (pre ++ (putUvarintAux m x.toNat ++ rest.drop (putUvarintAux m x.toNat).length),
           pre.length + (putUvarintAux m x.toNat).length) := by
  induction m with
  | zero =>
    intro x pre rest fuel hx hf hl
    have hx' : ¬ x.toNat ≥ 128 := by omega
    cases fuel with
    | zero => omega
    | succ fuel =>
      cases rest with
      | nil => simp [putUvarintAux] at hl
      | cons r rest =>
        unfold Binary.PutUvarint.loop1
        simp [ge128, hx', putUvarintAux]
  | succ m ih =>
    intro x pre rest fuel hx hf hl
    cases fuel with
    | zero => omega
    | succ fuel =>
      cases rest with
      | nil => have := aux_length_pos (m + 1) x.toNat; simp only [List.length_nil] at hl; omega
      | cons r rest =>
        unfold Binary.PutUvarint.loop1
        by_cases hx' : x.toNat ≥ 128
        · have hl' : (putUvarintAux m (x.toNat / 128)).length ≤ rest.length := by
            unfold putUvarintAux at hl
            simp [hx'] at hl
            exact hl
          have hx2 : (x >>> (7 : UInt64)).toNat < 128 ^ (m + 1) := by
            rw [shift7]
            rw [Nat.pow_succ] at hx
            omega
          have := ih (x >>> (7 : UInt64)) (pre ++ [UInt8.ofNat (x.toNat % 128 + 128)]) rest fuel
            hx2 (by omega) (by rw [shift7]; exact hl')
          rw [shift7] at this
          simp at this
          simp [ge128, hx', cont_byte]
          rw [this]
          conv => rhs; unfold putUvarintAux
          simp [hx']
          omega
        · unfold putUvarintAux
          simp [ge128, hx']

/-- loop invariant, panic case: `rest` too short for the model's bytes -/
theorem loop_panic (m : Nat) : ∀ (x : UInt64) (pre rest : List UInt8) (fuel : Nat),
    m + 1 ≤ fuel →
    rest.length < (putUvarintAux m x.toNat).length →
    Binary.PutUvarint.loop1 fuel (pre ++ rest) x pre.length = .panic := by
  induction m with
  | zero =>
    intro x pre rest fuel hf hl
    cases fuel with
    | zero => omega
    | succ fuel =>
      have hr : rest = [] := by
        cases rest with
        | nil => rfl
        | cons r rest => simp [putUvarintAux] at hl
      subst hr
      unfold Binary.PutUvarint.loop1
      simp
  | succ m ih =>
    intro x pre rest fuel hf hl
    cases fuel with
    | zero => omega
    | succ fuel =>
      cases rest with
      | nil =>
        unfold Binary.PutUvarint.loop1
        simp
      | cons r rest =>
        unfold Binary.PutUvarint.loop1
        by_cases hx' : x.toNat ≥ 128
        · have hl' : rest.length < (putUvarintAux m (x.toNat / 128)).length := by
            unfold putUvarintAux at hl
            simp [hx'] at hl
            exact hl
          have := ih (x >>> (7 : UInt64)) (pre ++ [UInt8.ofNat (x.toNat % 128 + 128)]) rest fuel
            (by omega) (by rw [shift7]; exact hl')
          simp at this
          simp [ge128, hx', cont_byte]
          exact this
        · unfold putUvarintAux at hl
          simp [hx'] at hl

/-! ## the function -/

theorem toNat_lt_pow (x : UInt64) : x.toNat < 128 ^ (9 + 1) := by
  have := x.toNat_lt
  omega

/-- `binary.PutUvarint` on a buffer that is long enough: the model's bytes over the front
of the buffer, the rest of the buffer unchanged, and the model's byte count -/
theorem putUvarint_is_source (buf : List UInt8) (x : UInt64) (fuel : Nat) (hf : 10 ≤ fuel)
    (hb : (putUvarint x.toNat).length ≤ buf.length) :
    Binary.PutUvarint fuel buf x =
      .ok (putUvarint x.toNat ++ buf.drop (putUvarint x.toNat).length,
           (putUvarint x.toNat).length) := by
  have := loop_ok 9 x [] buf fuel (toNat_lt_pow x) hf hb
  simpa [Binary.PutUvarint, putUvarint] using this

/-- `binary.PutUvarint` on a buffer that is too short: the Go index panic -/
theorem putUvarint_short_panics (buf : List UInt8) (x : UInt64) (fuel : Nat) (hf : 10 ≤ fuel)
    (hb : buf.length < (putUvarint x.toNat).length) :
    Binary.PutUvarint fuel buf x = .panic := by
  have := loop_panic 9 x [] buf fuel hf hb
  simpa [Binary.PutUvarint] using this

theorem putUvarint_length (x : UInt64) :
    1 ≤ (putUvarint x.toNat).length ∧ (putUvarint x.toNat).length ≤ 10 :=
  ⟨aux_length_pos 9 x.toNat, aux_length_le 9 x.toNat⟩

/-- the MQTT remaining length (at most 268435455) takes at most four bytes -/
theorem putUvarint_length_le_four (x : Nat) (hx : x ≤ 268435455) :
    (putUvarint x).length ≤ 4 := by
  unfold putUvarint
  by_cases h1 : x ≥ 128
  · by_cases h2 : x / 128 ≥ 128
    · by_cases h3 : x / 128 / 128 ≥ 128
      · have h4 : ¬ x / 128 / 128 / 128 ≥ 128 := by omega
        simp [putUvarintAux, h1, h2, h3, h4]
      · simp [putUvarintAux, h1, h2, h3]
    · simp [putUvarintAux, h1, h2]
  · simp [putUvarintAux, h1]

/-- the iteration budget never runs out for `fuel ≥ 10` -/
theorem putUvarint_never_fuel (buf : List UInt8) (x : UInt64) (fuel : Nat) (hf : 10 ≤ fuel) :
    Binary.PutUvarint fuel buf x ≠ .fuel := by
  by_cases hb : (putUvarint x.toNat).length ≤ buf.length
  · rw [putUvarint_is_source buf x fuel hf hb]
    intro h
    cases h
  · rw [putUvarint_short_panics buf x fuel hf (by omega)]
    intro h
    cases h

/-- 10 is the least budget: with 9 the largest `uint64` runs out of fuel -/
theorem putUvarint_fuel_nine :
    Binary.PutUvarint 9 (List.replicate 10 0) (18446744073709551615 : UInt64) = .fuel := by
  decide

/-- every outcome of `binary.PutUvarint` with `fuel ≥ 10` -/
theorem putUvarint_cases (buf : List UInt8) (x : UInt64) (fuel : Nat) (hf : 10 ≤ fuel) :
    Binary.PutUvarint fuel buf x =
      if buf.length < (putUvarint x.toNat).length then .panic
      else .ok (putUvarint x.toNat ++ buf.drop (putUvarint x.toNat).length,
                (putUvarint x.toNat).length) := by
  split
  · next h => exact putUvarint_short_panics buf x fuel hf h
  · next h => exact putUvarint_is_source buf x fuel hf (by omega)

end Mqtt.Proofs.XlatePutUvarint
