/-
Refinement step: the first packet of a connection - refusals, and the accepted
CONNECT with a new session or with the resumed session of a CleanSession=0
client (re-subscription of the stored topics, open QoS 2 exchanges, will rebuilt
from the new CONNECT).
-/
import Mqtt.Proofs.BrokerRefineConnectLemmas

set_option linter.unusedSimpArgs false

namespace Mqtt.Proofs.BrokerRefine
open Mqtt.Iface.Broker Mqtt.Model.Broker
open Mqtt.Model.Topics (MemTopics RMsg RNode)
open Mqtt.Proofs.Topics (WF RWF abs absR good entryLevels)
open Mqtt.Spec.Match (split validName validFilter topicMatches)
open Mqtt.Proofs.Broker (HeldInv RetInv heldEntry accepts specSubHeld)
open Mqtt.Proofs.BrokerQos (toOpen2)
open Mqtt.Proofs.BrokerLife (effCid effClean resumed updSess newSess addConn accepted)
open Mqtt.Spec.Broker (Accepts SOut Held addHeld subCode)

/-! ### the connection table after `addConn` -/

theorem liveSess_addConn {b b1 b' : B} (c r : Nat) (σ' : Sess) (hc1 : b1.conns = b.conns)
    (hc : b'.conns = (addConn b1 c r).conns) (hs : b'.sess = b1.sess) (hr : b1.getSess r = some σ')
    (hsame : ∀ c' cn', c' ≠ c → b.getConn c' = some cn' → cn'.alive = true → b1.getSess cn'.sess = b.getSess cn'.sess)
    (c' : Nat) : liveSess b' c' = if c' = c then some σ' else liveSess b c' := by
  have hgs : ∀ r', b'.getSess r' = b1.getSess r' := fun r' => Mqtt.Proofs.Broker.getSess_congr b1 b' hs r'
  have hgc : b'.getConn c' = (addConn b1 c r).getConn c' := by unfold B.getConn; rw [hc]
  unfold liveSess
  rw [hgc]
  by_cases he : c' = c
  · subst he
    rw [Mqtt.Proofs.BrokerLife.getConn_addConn]
    simp only [↓reduceIte, hgs, hr]
  · rw [Mqtt.Proofs.BrokerLife.getConn_addConn_ne b1 c c' r he]
    have hg1 : b1.getConn c' = b.getConn c' := by unfold B.getConn; rw [hc1]
    rw [hg1]
    simp only [he, ↓reduceIte]
    cases hcn : b.getConn c' with
    | none => rfl
    | some cn' =>
      simp only
      cases ha : cn'.alive with
      | false => rfl
      | true =>
        simp only [↓reduceIte, hgs]
        exact hsame c' cn' he hcn ha

theorem alive_addConn {b b1 b' : B} (c r : Nat) (hc1 : b1.conns = b.conns)
    (hc : b'.conns = (addConn b1 c r).conns) (c' : Nat) :
    b'.alive c' = if c' = c then true else b.alive c' := by
  have hgc : b'.getConn c' = (addConn b1 c r).getConn c' := by unfold B.getConn; rw [hc]
  unfold B.alive
  rw [hgc]
  by_cases he : c' = c
  · subst he; rw [Mqtt.Proofs.BrokerLife.getConn_addConn]; simp
  · rw [Mqtt.Proofs.BrokerLife.getConn_addConn_ne b1 c c' r he]
    have hg1 : b1.getConn c' = b.getConn c' := by unfold B.getConn; rw [hc1]
    rw [hg1]; simp [he]

theorem validTopic_eq (t : Bytes) : validTopic t = validName t := rfl

theorem initWill_eq (req : Connect) (h : ∀ w, req.will = some w → willOk w = true) :
    initWill req = req.will.map willMsg := by
  unfold initWill
  cases hw : req.will with
  | none => rfl
  | some w =>
    have := (willOk_iff w (h w hw)).2.1
    simp only [Option.map_some, validTopic_eq, this, ↓reduceIte]
    rfl

/-! ### the first packet -/

theorem mconns_addConn (b1 : B) (c r : Nat) (h : (b1.conns.map (·.id)).Nodup) :
    ((addConn b1 c r).conns.map (·.id)).Nodup := by
  unfold addConn
  simp only [List.map_append, List.map_cons, List.map_nil]
  rw [List.nodup_append]
  refine ⟨h.sublist ((List.filter_sublist).map _), by simp, ?_⟩
  intro x hx y hy
  simp only [List.mem_singleton] at hy
  subst hy
  simp only [List.mem_map, List.mem_filter, bne_iff_ne, ne_eq] at hx
  obtain ⟨z, ⟨_, hz⟩, rfl⟩ := hx
  exact hz

/-- a first packet that is not an acceptable CONNECT (after `takeOver`, which does nothing then) -/
theorem first_refused_refines {b : B} {s : Spec.Broker.S} (h : R b s) (c : Nat) (f : First) (a : Bool)
    (hacc : Mqtt.Proofs.BrokerLife.accepts f a = false) :
    R (first b c f a).1 (Spec.Broker.first s c f a).1 ∧
    Accepts (Spec.Broker.first s c f a).2 (first b c f a).2 := by
    cases f with
    | garbage =>
      have : Spec.Broker.first s c .garbage a = (s, [.refused c [none]]) := rfl
      rw [this]
      exact ⟨h, accepts_refused_plain c _ (by simp)⟩
    | other t =>
      have : Spec.Broker.first s c (.other t) a = (s, [.refused c [none]]) := rfl
      rw [this]
      exact ⟨h, accepts_refused_plain c _ (by simp)⟩
    | connect req =>
      have hne : ∀ x, x ∈ Spec.Broker.refusals req a →
          Spec.Broker.first s c (.connect req) a = (s, [.refused c (Spec.Broker.refusals req a)]) := by
        intro x hx
        have : (!(Spec.Broker.refusals req a).isEmpty) = true := by
          cases hr : Spec.Broker.refusals req a with
          | nil => rw [hr] at hx; cases hx
          | cons _ _ => rfl
        simp only [Spec.Broker.first]
        rw [if_pos this]
      rcases Mqtt.Proofs.BrokerLife.first_table b c req a hacc with ⟨h1, h2⟩ | ⟨k, _, h2, h1⟩
      · rw [h1, hne _ h2]; exact ⟨h, accepts_refused_plain c _ h2⟩
      · rw [h1, hne _ h2]; exact ⟨h, accepts_refused_code c _ k h2⟩

/-- an accepted CONNECT, in a state in which no live connection uses its client
identifier (after `takeOver`): the states stay related and both sides answer with
the same CONNACK -/
theorem first_accepted_refines {b : B} {s : Spec.Broker.S} (h : R b s) (c : Nat) (req : Connect) (a : Bool)
    (hacc : Mqtt.Proofs.BrokerLife.accepts (.connect req) a = true)
    (hclt : c < cbBase) (hdead : b.alive c = false)
    (hwok : ∀ w, req.will = some w → willOk w = true)
    (hcf : ∀ c' τ, liveSess b c' = some τ → τ.cid ≠ effCid c req) :
    R (first b c (.connect req) a).1 (Spec.Broker.first s c (.connect req) a).1 ∧
    ∃ sp, (first b c (.connect req) a).2 = [.send c (.connack sp 0)] ∧
      (Spec.Broker.first s c (.connect req) a).2 = [.send c (.connack sp 0)] := by
      have i1 := Mqtt.Proofs.Broker.Inv_first b c (.connect req) a h.inv
      have i2 := Mqtt.Proofs.BrokerLife.inv_first h.linv c (.connect req) a
      have i3 := Mqtt.Proofs.BrokerQos.first_inv h.qinv c (.connect req) a
      have href : Spec.Broker.refusals req a = [] := (Mqtt.Proofs.BrokerLife.refusals_nil_iff req a).mpr hacc
      have hreal : req.clientId.isEmpty = false → realCid req.clientId = true := realCid_of_accepts hacc
      have hfa := Mqtt.Proofs.BrokerLife.first_accepted b c req a hacc
      rw [hfa] at i1 i2 i3 ⊢
      have hnoc : ∀ x ∈ s.held, x.owner ≠ c := by
        intro x hx he
        have := h.owners x hx (by rw [he]; exact hclt)
        rw [he, hdead] at this; cases this
      have hheld0 : Spec.Broker.heldOf s c = [] := by
        unfold Spec.Broker.heldOf
        rw [List.map_eq_nil_iff, List.filter_eq_nil_iff]
        intro x hx; simpa using hnoc x hx
      cases hres : resumed b c req with
      | some σ =>
        -- a stored CleanSession=0 session is resumed
        obtain ⟨hcl, hst, hσ, hσcl⟩ := Mqtt.Proofs.BrokerLife.resumed_some hres
        have hemp : req.clientId.isEmpty = false := by
          unfold effClean at hcl
          cases he : req.clientId.isEmpty with
          | true => simp [he] at hcl
          | false => rfl
        have hX : effCid c req = req.clientId := by unfold effCid; simp [hemp]
        have hXs : specCid c req = req.clientId := by unfold specCid; simp [hemp]
        have hcls : specClean req = false := by
          unfold specClean; unfold effClean at hcl; simp only [hemp, Bool.false_eq_true, ↓reduceIte] at hcl
          simp [hcl, hemp]
        have hσcid : σ.cid = req.clientId := by rw [← hX]; exact Mqtt.Proofs.BrokerLife.resumed_cid h.linv hres
        rw [hX] at hst hcf
        have hXreal := hreal hemp
        have hresum : resumable b req.clientId = some σ := by
          unfold resumable; rw [hst]; simp [hσ, Option.filter, hσcl]
        obtain ⟨subs, o2, hlk, htr, ho2, hq2⟩ := (h.stored req.clientId hXreal hcf).some σ hresum
        obtain ⟨ha1, ha2, _⟩ := Mqtt.Proofs.BrokerLife.accepted_resumed b c req σ hres
        rw [ha1] at i1 i2 i3
        rw [ha1, ha2]
        rw [spec_first_resumed s c req a href subs o2 hcls (by rw [hXs]; exact hlk), hXs]
        have hsubsnd : (subs.map (·.1)).Nodup := (htr.perm.map (·.1)).nodup_iff.mp htr.nodup
        have hfold : subs.foldl (fun h p => addHeld h c p.1 p.2) s.held = s.held ++ subs.map (mkHeld c) :=
          foldl_addHeld_fresh c subs s.held hsubsnd (fun x hx he => absurd he (hnoc x hx))
        rw [hfold]
        refine ⟨?_, true, rfl, rfl⟩
        have hσ'ref : (updSess σ req).ref = σ.ref := rfl
        refine R_connect (σ' := updSess σ req) (k' := ⟨c, req.clientId, false, req.will, o2⟩) h hclt hdead i1 i2 i3
          ?_ ?_ ?_ ?_ ?_ ?_ ?_ rfl (mconns_addConn _ c σ.ref h.mconns) ?_ ?_ ?_ ?_ ?_ ?_ ?_
        · -- live sessions
          refine liveSess_addConn (b1 := b.setSess (updSess σ req)) c σ.ref (updSess σ req) rfl rfl rfl
            (Mqtt.Proofs.BrokerLife.getSess_setSess b (updSess σ req)) ?_
          intro c' cn' _ hcn' ha'
          apply Mqtt.Proofs.BrokerLife.getSess_setSess_ne
          intro hr
          have hl' : liveSess b c' = some σ := liveSess_eq hcn' ha' (by rw [hr]; exact hσ)
          exact hcf c' σ hl' hσcid
        · exact alive_addConn (b1 := b.setSess (updSess σ req)) c σ.ref rfl rfl
        · exact (Mqtt.Proofs.Broker.resubscribe_frame c σ.topics b.topics h.inv.wf).2
        · -- the trie holds the stored subscriptions again
          have hgoodt : ∀ tq ∈ σ.topics, good tq.1 = true := by
            intro tq htq
            have := htr.ok tq htq
            simp only [subOk, Bool.and_eq_true] at this
            exact this.1.1
          have hp := resubscribe_abs c σ.topics b.topics h.inv.wf
          obtain ⟨e1, e2⟩ := Mqtt.Proofs.Broker.entriesAfterSub_held c σ.topics hgoodt s.held h.held.valid
          have hfresh := specSubHeld_fresh c σ.topics s.held htr.nodup htr.ok (fun x hx he => absurd he (hnoc x hx))
          refine ⟨?_, ?_⟩
          · show (abs (resubscribe b.topics c σ.topics).sroot).Perm _
            refine (hp.trans (Mqtt.Proofs.Broker.entriesAfterSub_perm c σ.topics _ _ h.held.perm)).trans ?_
            rw [e1, hfresh]
            exact ((List.Perm.refl _).append (htr.perm.map (mkHeld c))).map heldEntry
          · intro x hx
            rcases List.mem_append.mp hx with hx | hx
            · exact h.held.valid x hx
            · obtain ⟨p, hp', rfl⟩ := List.mem_map.mp hx
              have := htr.ok p (htr.perm.mem_iff.mpr hp')
              simp only [subOk, Bool.and_eq_true] at this
              exact this.1.2
        · intro x hx
          rcases List.mem_append.mp hx with hx | hx
          · exact h.heldGood x hx
          · obtain ⟨p, hp', rfl⟩ := List.mem_map.mp hx
            have := htr.ok p (htr.perm.mem_iff.mpr hp')
            simp only [subOk, Bool.and_eq_true] at this
            exact this.1.1
        · intro x hx hlt hne
          rcases List.mem_append.mp hx with hx | hx
          · exact h.owners x hx hlt
          · obtain ⟨p, _, rfl⟩ := List.mem_map.mp hx
            exact absurd rfl hne
        · intro c' hne
          rw [heldOf_eq, heldOf_eq]
          show heldOfL (s.held ++ subs.map (mkHeld c)) c' = _
          rw [heldOfL_append, heldOfL_mkHeld_ne c c' subs hne, List.append_nil]
        · exact spec_setConn_nodup s ⟨c, req.clientId, false, req.will, o2⟩ h.sconns
        · intro c'
          exact spec_getConn_setConn_if s ⟨c, req.clientId, false, req.will, o2⟩ c rfl c'
        · refine ⟨.inl ⟨hσcid, hXreal⟩, hcl, rfl, initWill_eq req hwok, hwok, ho2, hq2, ?_, ?_⟩
          · rw [heldOf_eq]
            show TopicsRel σ.topics (heldOfL (s.held ++ subs.map (mkHeld c)) c)
            rw [heldOfL_append, heldOfL_mkHeld_self]
            have : heldOfL s.held c = [] := by rw [← heldOf_eq]; exact hheld0
            rw [this, List.nil_append]
            exact htr
          · show b.storeGet σ.cid = some σ.ref
            rw [hσcid]; exact hst
        · intro c' τ hτ
          show τ.cid ≠ σ.cid
          rw [hσcid]; exact hcf c' τ hτ
        · intro x _; rfl
        · intro x _ hxne
          have hxne' : x ≠ req.clientId := by rw [← hσcid]; exact hxne
          unfold resumable
          show ((b.storeGet x).bind (b.setSess (updSess σ req)).getSess).filter _ = _
          cases hg : b.storeGet x with
          | none => rfl
          | some r =>
            simp only [Option.bind_some]
            rw [Mqtt.Proofs.BrokerLife.getSess_setSess_ne b (updSess σ req) r]
            intro hr
            obtain ⟨t, ht, htc⟩ := h.linv.store (x, r) (Mqtt.Proofs.BrokerLife.mem_of_lookup (by exact hg))
            simp only at ht htc
            rw [hr, hσ'ref, hσ] at ht
            cases ht
            exact hxne' (by rw [← htc, hσcid])
        · intro x _ hxne
          have hxne' : x ≠ req.clientId := by rw [← hσcid]; exact hxne
          have : (x == req.clientId) = false := by simpa using hxne'
          simp only [List.lookup_cons, this]
          exact lookup_filter_ne' _ _ _ hxne'
      | none =>
        -- a new session object
        obtain ⟨ha1, ha2, _⟩ := Mqtt.Proofs.BrokerLife.accepted_fresh b c req hres
        rw [ha1] at i1 i2 i3
        rw [ha1, ha2]
        have hcleq : specClean req = effClean req := by
          unfold specClean effClean
          cases req.clientId.isEmpty <;> simp
        have hprior : specClean req = true ∨ s.stored.lookup (specCid c req) = none := by
          cases hcl : effClean req with
          | true => left; rw [hcleq]; exact hcl
          | false =>
            right
            have hemp : req.clientId.isEmpty = false := by
              unfold effClean at hcl
              cases he : req.clientId.isEmpty with
              | true => simp [he] at hcl
              | false => rfl
            have hX : effCid c req = req.clientId := by unfold effCid; simp [hemp]
            have hXs : specCid c req = req.clientId := by unfold specCid; simp [hemp]
            rw [hXs]
            rw [hX] at hcf
            refine (h.stored req.clientId (hreal hemp) hcf).none ?_
            have : resumed b c req = resumable b req.clientId := by
              unfold resumed resumable; simp [hcl, hX]
            rw [← this]; exact hres
        rw [spec_first_fresh s c req a href hprior]
        refine ⟨?_, false, rfl, rfl⟩
        have hνref : (newSess b c req).ref = b.nextRef := rfl
        have hνcid : (newSess b c req).cid = effCid c req := rfl
        have hb1 : ((({ b with nextRef := b.nextRef + 1 } : B).setSess (newSess b c req)).storeSet (effCid c req)
            b.nextRef).getSess b.nextRef = some (newSess b c req) :=
          Mqtt.Proofs.BrokerLife.getSess_setSess ({ b with nextRef := b.nextRef + 1 } : B) (newSess b c req)
        have hfreshref : ∀ r τ, b.getSess r = some τ → r ≠ b.nextRef := by
          intro r τ hr he
          rw [he, h.linv.fresh b.nextRef (Nat.le_refl _)] at hr; cases hr
        have hgetne : ∀ r, r ≠ b.nextRef →
            ((({ b with nextRef := b.nextRef + 1 } : B).setSess (newSess b c req)).storeSet (effCid c req)
              b.nextRef).getSess r = b.getSess r := by
          intro r hr
          exact Mqtt.Proofs.BrokerLife.getSess_setSess_ne ({ b with nextRef := b.nextRef + 1 } : B) (newSess b c req) r hr
        refine R_connect (σ' := newSess b c req)
          (k' := ⟨c, specCid c req, specClean req, req.will, []⟩) h hclt hdead i1 i2 i3
          ?_ ?_ rfl h.held h.heldGood ?_ (fun _ _ => rfl) rfl (mconns_addConn _ c b.nextRef h.mconns) ?_ ?_ ?_ ?_ ?_ ?_ ?_
        · refine liveSess_addConn
            (b1 := (({ b with nextRef := b.nextRef + 1 } : B).setSess (newSess b c req)).storeSet (effCid c req) b.nextRef)
            c b.nextRef (newSess b c req) rfl rfl rfl hb1 ?_
          intro c' cn' _ hcn' _
          obtain ⟨τ, hτ⟩ := h.linv.conns cn' (by unfold B.getConn at hcn'; exact List.mem_of_find?_eq_some hcn')
          exact hgetne _ (hfreshref _ τ hτ)
        · exact alive_addConn
            (b1 := (({ b with nextRef := b.nextRef + 1 } : B).setSess (newSess b c req)).storeSet (effCid c req) b.nextRef)
            c b.nextRef rfl rfl
        · intro x hx hlt _; exact h.owners x hx hlt
        · exact spec_setConn_nodup s ⟨c, specCid c req, specClean req, req.will, []⟩ h.sconns
        · intro c'
          exact spec_getConn_setConn_if s ⟨c, specCid c req, specClean req, req.will, []⟩ c rfl c'
        · refine ⟨?_, hcleq.symm, rfl, initWill_eq req hwok, hwok, rfl, (by intro e he; cases he), ?_, ?_⟩
          · show CidRel c (effCid c req) (specCid c req) (specClean req)
            unfold effCid specCid specClean
            cases hemp : req.clientId.isEmpty with
            | true => right; simp
            | false => left; simp only [Bool.false_eq_true, ↓reduceIte, true_and]; exact hreal hemp
          · show TopicsRel [] (Spec.Broker.heldOf _ c)
            have : Spec.Broker.heldOf
                ({ held := s.held, rets := s.rets,
                   stored := if specClean req then s.stored.filter (fun p => p.1 != specCid c req)
                             else (specCid c req, ([], [])) :: s.stored.filter (fun p => p.1 != specCid c req),
                   conns := s.conns.filter (fun (x : Spec.Broker.Conn) => x.id != c) ++
                     [⟨c, specCid c req, specClean req, req.will, []⟩] } : Spec.Broker.S) c =
                Spec.Broker.heldOf s c := rfl
            rw [this, hheld0]
            exact ⟨List.Perm.refl _, by simp, by simp⟩
          · show (B.storeSet _ (effCid c req) b.nextRef).storeGet (effCid c req) = some b.nextRef
            exact Mqtt.Proofs.BrokerLife.storeGet_storeSet_self _ _ _
        · intro c' τ hτ; exact hcf c' τ hτ
        · intro x hxne
          exact Mqtt.Proofs.BrokerLife.storeGet_storeSet_ne _ (effCid c req) x b.nextRef hxne
        · intro x _ hxne
          unfold resumable
          have hsg : (addConn ((({ b with nextRef := b.nextRef + 1 } : B).setSess (newSess b c req)).storeSet
              (effCid c req) b.nextRef) c b.nextRef).storeGet x = b.storeGet x :=
            Mqtt.Proofs.BrokerLife.storeGet_storeSet_ne _ (effCid c req) x b.nextRef hxne
          rw [hsg]
          cases hg : b.storeGet x with
          | none => rfl
          | some r =>
            simp only [Option.bind_some]
            obtain ⟨t, ht, _⟩ := h.linv.store (x, r) (Mqtt.Proofs.BrokerLife.mem_of_lookup (by exact hg))
            simp only at ht
            have : (addConn ((({ b with nextRef := b.nextRef + 1 } : B).setSess (newSess b c req)).storeSet
                (effCid c req) b.nextRef) c b.nextRef).getSess r = b.getSess r := hgetne r (hfreshref r t ht)
            rw [this]
        · intro x hx hxne
          have hxs : x ≠ specCid c req := by
            unfold specCid
            cases hemp : req.clientId.isEmpty with
            | true =>
              simp only [↓reduceIte]
              intro e; rw [e, anonSpec_not_real] at hx; cases hx
            | false =>
              simp only [Bool.false_eq_true, ↓reduceIte]
              have : effCid c req = req.clientId := by unfold effCid; simp [hemp]
              rw [← this]; exact hxne
          show List.lookup x (if specClean req then _ else _) = _
          split
          · exact lookup_filter_ne' _ _ _ hxs
          · have : (x == specCid c req) = false := by simpa using hxs
            simp only [List.lookup_cons, this]
            exact lookup_filter_ne' _ _ _ hxs

/-! ### take-over (MQTT-3.1.4-2) -/

theorem mgetConn_of_mem {b : B} (hn : (b.conns.map (·.id)).Nodup) {cn : Conn} (hm : cn ∈ b.conns) :
    b.getConn cn.id = some cn := by
  unfold B.getConn
  generalize b.conns = l at hn hm
  induction l with
  | nil => cases hm
  | cons x xs ih =>
    simp only [List.map_cons, List.nodup_cons] at hn
    rw [List.find?_cons]
    rcases List.mem_cons.mp hm with rfl | hm'
    · simp
    · have hne : (x.id == cn.id) = false := by
        rw [beq_eq_false_iff_ne]
        intro he
        exact hn.1 (he ▸ List.mem_map.mpr ⟨cn, hm', rfl⟩)
      rw [hne]
      exact ih hn.2 hm'

/-- under `R` a client identifier has no live connection, or exactly one -/
theorem sameClient_cases {b : B} {s : Spec.Broker.S} (h : R b s) (X : Bytes) :
    (sameClient b X = [] ∧ ∀ c' τ, liveSess b c' = some τ → τ.cid ≠ X) ∨
    (∃ c0 σ, sameClient b X = [c0] ∧ liveSess b c0 = some σ ∧ σ.cid = X) := by
  have hmem : ∀ cn, cn ∈ b.conns.filter (fun cn => cn.alive && (match b.getSess cn.sess with
      | some s => s.cid == X
      | none => false)) → ∃ σ, liveSess b cn.id = some σ ∧ σ.cid = X := by
    intro cn hcn
    obtain ⟨hm, hp⟩ := List.mem_filter.mp hcn
    simp only [Bool.and_eq_true] at hp
    cases hs : b.getSess cn.sess with
    | none => rw [hs] at hp; simp at hp
    | some σ =>
      rw [hs] at hp
      exact ⟨σ, liveSess_eq (mgetConn_of_mem h.mconns hm) hp.1 hs, by simpa using hp.2⟩
  unfold sameClient
  cases hL : b.conns.filter (fun cn => cn.alive && (match b.getSess cn.sess with
      | some s => s.cid == X
      | none => false)) with
  | nil =>
    left
    refine ⟨rfl, ?_⟩
    intro c' τ hτ he
    obtain ⟨cn, hc, ha, hs⟩ := liveSess_some hτ
    have hm : cn ∈ b.conns := by unfold B.getConn at hc; exact List.mem_of_find?_eq_some hc
    have : cn ∈ b.conns.filter (fun cn => cn.alive && (match b.getSess cn.sess with
        | some s => s.cid == X
        | none => false)) := by
      rw [List.mem_filter]
      refine ⟨hm, ?_⟩
      simp [ha, hs, he]
    rw [hL] at this; cases this
  | cons cn rest =>
    right
    rw [hL] at hmem
    obtain ⟨σ, hσ, hcid⟩ := hmem cn (List.mem_cons_self ..)
    refine ⟨cn.id, σ, ?_, hσ, hcid⟩
    cases rest with
    | nil => rfl
    | cons cn2 rest2 =>
      exfalso
      obtain ⟨σ2, hσ2, hcid2⟩ := hmem cn2 (by simp)
      have hid : cn2.id = cn.id := h.cidUniq _ _ _ _ hσ2 hσ (by rw [hcid2, hcid])
      have hsub : (cn :: cn2 :: rest2).Sublist b.conns := by rw [← hL]; exact List.filter_sublist
      have hnd := h.mconns.sublist (hsub.map (·.id))
      simp only [List.map_cons, List.nodup_cons, List.mem_cons, not_or] at hnd
      exact hnd.1.1 hid.symm

/-- ... and the reference broker's search for it finds the record of that connection -/
theorem spec_find_cid {b : B} {s : Spec.Broker.S} (h : R b s) (X : Bytes) (hX : realCid X = true) :
    ((∀ c' τ, liveSess b c' = some τ → τ.cid ≠ X) → s.conns.find? (fun x => x.cid == X) = none) ∧
    (∀ c0 σ, liveSess b c0 = some σ → σ.cid = X →
      ∃ k, s.conns.find? (fun x => x.cid == X) = some k ∧ k.id = c0) := by
  have hback : ∀ k ∈ s.conns, k.cid = X → ∃ τ, liveSess b k.id = some τ ∧ τ.cid = X := by
    intro k hk hkc
    have hg := h.spec_getConn_of_mem hk
    have hal : b.alive k.id = true := by rw [← h.connsIff, hg]; rfl
    obtain ⟨τ, hτ⟩ := liveSess_of_alive h.inv hal
    obtain ⟨k1, hk1, hrel⟩ := h.live k.id τ hτ
    rw [hg] at hk1; cases hk1
    refine ⟨τ, hτ, ?_⟩
    rcases hrel.cid with ⟨e1, _⟩ | ⟨_, e2, _⟩
    · rw [e1, hkc]
    · rw [← hkc, e2, anonSpec_not_real] at hX; cases hX
  constructor
  · intro hfree
    rw [List.find?_eq_none]
    intro k hk hkc
    simp only [beq_iff_eq] at hkc
    obtain ⟨τ, hτ, hc⟩ := hback k hk hkc
    exact hfree _ τ hτ hc
  · intro c0 σ hσ hcid
    obtain ⟨k0, hk0, hrel⟩ := h.live c0 σ hσ
    have hk0c : k0.cid = X := by
      rcases hrel.cid with ⟨e1, _⟩ | ⟨e1, _, _⟩
      · rw [← e1, hcid]
      · rw [hcid] at e1; rw [e1, anonId_not_real] at hX; cases hX
    have hk0m := (spec_getConn_mem hk0).1
    cases hf : s.conns.find? (fun x => x.cid == X) with
    | none =>
      rw [List.find?_eq_none] at hf
      exact absurd (by simpa using hk0c) (hf k0 hk0m)
    | some k =>
      refine ⟨k, rfl, ?_⟩
      have hkm := List.mem_of_find?_eq_some hf
      have hkc : k.cid = X := by simpa using List.find?_some hf
      obtain ⟨τ, hτ, hc⟩ := hback k hkm hkc
      exact h.cidUniq _ _ _ _ hτ hσ (by rw [hc, hcid])

/-- the other live connections' session objects are as they were after `stop` of one of them -/
theorem liveSess_stop_ne {b : B} {s : Spec.Broker.S} (h : R b s) (c0 c' : Nat) (hne : c' ≠ c0) :
    liveSess (stop b c0).1 c' = liveSess b c' := by
  cases hal0 : b.alive c0 with
  | false => rw [Mqtt.Proofs.BrokerLife.stop_dead b c0 hal0]
  | true =>
    obtain ⟨σ0, hl0⟩ := liveSess_of_alive h.inv hal0
    unfold liveSess
    rw [Mqtt.Proofs.BrokerLife.stop_getConn_ne b c0 c' hne]
    cases hc : b.getConn c' with
    | none => rfl
    | some cn' =>
      simp only
      cases ha : cn'.alive with
      | false => rfl
      | true =>
        simp only [↓reduceIte]
        apply Mqtt.Proofs.BrokerLife.stop_getSess_ne
        intro cn0 hc0 he
        obtain ⟨cn0', hc0', _, hs0⟩ := liveSess_some hl0
        rw [hc0] at hc0'; cases hc0'
        obtain ⟨σ', hs'⟩ := h.linv.conns cn' (by unfold B.getConn at hc; exact List.mem_of_find?_eq_some hc)
        have hl' := liveSess_eq hc ha hs'
        have r1 := Mqtt.Proofs.BrokerLife.getSess_ref hs'
        have r0 := Mqtt.Proofs.BrokerLife.getSess_ref hs0
        exact hne (h.refUniq hl' hl0 (by rw [r1, r0, he]))

theorem spec_step_first_eq (s : Spec.Broker.S) (c : Nat) (f : First) (a : Bool) :
    Spec.Broker.step1 s (.first c f a) =
      ((Spec.Broker.first (Spec.Broker.takeOver s f a).1 c f a).1,
       (Spec.Broker.takeOver s f a).2 ++ (Spec.Broker.first (Spec.Broker.takeOver s f a).1 c f a).2) := rfl

theorem spec_takeOver_refused (s : Spec.Broker.S) (f : First) (a : Bool)
    (hacc : Mqtt.Proofs.BrokerLife.accepts f a = false) : Spec.Broker.takeOver s f a = (s, []) := by
  cases f with
  | garbage => rfl
  | other t => rfl
  | connect req =>
    have hne : Spec.Broker.refusals req a ≠ [] := by
      intro h0
      rw [(Mqtt.Proofs.BrokerLife.refusals_nil_iff req a).mp h0] at hacc; cases hacc
    unfold Spec.Broker.takeOver
    cases hr : Spec.Broker.refusals req a with
    | nil => exact absurd hr hne
    | cons _ _ => simp [hr]

theorem spec_takeOver_accepted (s : Spec.Broker.S) (req : Connect) (a : Bool)
    (hacc : Mqtt.Proofs.BrokerLife.accepts (.connect req) a = true) :
    Spec.Broker.takeOver s (.connect req) a =
      if req.clientId.isEmpty then (s, []) else
        match s.conns.find? (fun x => x.cid == req.clientId) with
        | some old => Spec.Broker.endConn s old.id false
        | none => (s, []) := by
  have href : Spec.Broker.refusals req a = [] := (Mqtt.Proofs.BrokerLife.refusals_nil_iff req a).mpr hacc
  unfold Spec.Broker.takeOver
  simp only [href, List.isEmpty_nil, Bool.not_true, Bool.false_or]
  rfl

/-- **take-over**: an acceptable CONNECT ends the live connection that carries its
client identifier, if there is one (there is at most one), on both sides - the
model by `stop`, the reference broker by `endConn`, not gracefully -, the states
stay related, and afterwards no live connection uses the identifier -/
theorem takeOver_refines {b : B} {s : Spec.Broker.S} (h : R b s) (c : Nat) (req : Connect) (a : Bool)
    (hacc : Mqtt.Proofs.BrokerLife.accepts (.connect req) a = true) (hdead : b.alive c = false) :
    R (takeOver b (.connect req) a).1 (Spec.Broker.takeOver s (.connect req) a).1 ∧
    (takeOver b (.connect req) a).1.alive c = false ∧
    (∀ c' τ, liveSess (takeOver b (.connect req) a).1 c' = some τ → τ.cid ≠ effCid c req) ∧
    ((takeOver b (.connect req) a = (b, []) ∧ Spec.Broker.takeOver s (.connect req) a = (s, [])) ∨
     ∃ c0 σ fs fo, liveSess b c0 = some σ ∧ σ.cid = req.clientId ∧ req.clientId.isEmpty = false ∧
       takeOver b (.connect req) a = stop b c0 ∧
       Spec.Broker.takeOver s (.connect req) a = Spec.Broker.endConn s c0 false ∧
       (Spec.Broker.endConn s c0 false).2 = .closed c0 :: fs ∧ (stop b c0).2 = .closed c0 :: fo ∧ Fan fs fo) := by
  rw [Mqtt.Proofs.BrokerLife.takeOver_accepted b req a hacc, spec_takeOver_accepted s req a hacc]
  cases hemp : req.clientId.isEmpty with
  | true =>
    simp only [↓reduceIte]
    refine ⟨h, hdead, ?_, .inl ⟨trivial, trivial⟩⟩
    unfold effCid; simp only [hemp, ↓reduceIte]; exact h.anon_free hdead
  | false =>
    simp only [Bool.false_eq_true, ↓reduceIte]
    have hX : effCid c req = req.clientId := by unfold effCid; simp [hemp]
    have hXreal := realCid_of_accepts hacc hemp
    obtain ⟨hfind0, hfind1⟩ := spec_find_cid h req.clientId hXreal
    rcases sameClient_cases h req.clientId with ⟨hnil, hfree⟩ | ⟨c0, σ, hone, hσ, hcid⟩
    · rw [hnil, hfind0 hfree]
      simp only [Mqtt.Proofs.Connect.stopAll_nil]
      exact ⟨h, hdead, by rw [hX]; exact hfree, .inl ⟨trivial, trivial⟩⟩
    · obtain ⟨k, hk, hkid⟩ := hfind1 c0 σ hσ hcid
      have hstopAll : stopAll b [c0] = stop b c0 := by
        simp only [Mqtt.Proofs.Connect.stopAll_cons, Mqtt.Proofs.Connect.stopAll_nil, List.append_nil]
      rw [hone, hk, hstopAll]
      simp only [hkid]
      have hal0 := liveSess_alive hσ
      obtain ⟨r0, fs, fo, e1, e2, fan⟩ := stop_refines h c0 hal0
      have hne : c ≠ c0 := by intro e; rw [e, hal0] at hdead; cases hdead
      refine ⟨r0, ?_, ?_, .inr ⟨c0, σ, fs, fo, hσ, hcid, trivial, rfl, rfl, e1, e2, fan⟩⟩
      · rw [Mqtt.Proofs.BrokerLife.stop_alive_ne b c0 c hne]; exact hdead
      · intro c' τ hτ
        rw [hX]
        by_cases he : c' = c0
        · subst he
          have := liveSess_alive hτ
          rw [Mqtt.Proofs.BrokerLife.stop_not_alive] at this; cases this
        · rw [liveSess_stop_ne h c0 c' he] at hτ
          intro hc
          exact he (h.cidUniq _ _ _ _ hτ hσ (by rw [hc, hcid]))

/-- **the first packet of a connection**, take-over included -/
theorem step_first {b : B} {s : Spec.Broker.S} (h : R b s) (c : Nat) (f : First) (a : Bool)
    (hok : okEv b (.first c f a) = true) :
    R (step b (.first c f a)).1 (Spec.Broker.step1 s (.first c f a)).1 ∧
    Accepts (Spec.Broker.step1 s (.first c f a)).2 (step b (.first c f a)).2 := by
  simp only [okEv, Bool.and_eq_true, decide_eq_true_eq, Bool.not_eq_true'] at hok
  obtain ⟨⟨hclt, hdead⟩, hreq⟩ := hok
  rw [Mqtt.Proofs.Connect.step_first_eq, Mqtt.Proofs.Connect.connect_eq, spec_step_first_eq]
  cases hacc : Mqtt.Proofs.BrokerLife.accepts f a with
  | false =>
    rw [Mqtt.Proofs.BrokerLife.takeOver_refused b f a hacc, spec_takeOver_refused s f a hacc]
    simpa using first_refused_refines h c f a hacc
  | true =>
    cases f with
    | garbage => simp [Mqtt.Proofs.BrokerLife.accepts] at hacc
    | other t => simp [Mqtt.Proofs.BrokerLife.accepts] at hacc
    | connect req =>
      simp only [hacc, Bool.not_true, Bool.false_or] at hreq
      have hwok : ∀ w, req.will = some w → willOk w = true := by
        intro w hw; rw [hw] at hreq; exact hreq
      obtain ⟨r0, hd0, hcf0, hto⟩ := takeOver_refines h c req a hacc hdead
      obtain ⟨r1, sp, e1, e2⟩ := first_accepted_refines r0 c req a hacc hclt hd0 hwok hcf0
      refine ⟨r1, ?_⟩
      rw [e1, e2]
      rcases hto with ⟨t1, t2⟩ | ⟨c0, σ, fs, fo, _, _, _, t1, t2, o1, o2, fan⟩
      · rw [t1, t2]
        exact accepts_lits (.cons (.send c _ (by intro w hw; cases hw)) .nil)
      · rw [t1, t2, o1, o2]
        have := accepts_shape (.cons (.closed c0) .nil) fan (.cons (.send c (.connack sp 0) (by intro w hw; cases hw)) .nil)
        simpa using this

end Mqtt.Proofs.BrokerRefine
