/-
Refinement step: the first packet of a connection - refusals, and the accepted
CONNECT with a new session or with the resumed session of a CleanSession=0
client (re-subscription of the stored topics, open QoS 2 exchanges, will rebuilt
from the new CONNECT).
-/
import Mqtt.Proofs.BrokerRefineConnectLemmas

set_option linter.unusedSimpArgs false

namespace Mqtt.Proofs.BrokerRefine
open Mqtt.Iface.Broker Mqtt.Model.Broker
open Mqtt.Model.Topics (MemTopics RMsg RNode)
open Mqtt.Proofs.Topics (WF RWF abs absR good entryLevels)
open Mqtt.Spec.Match (split validName validFilter topicMatches)
open Mqtt.Proofs.Broker (HeldInv RetInv heldEntry accepts specSubHeld)
open Mqtt.Proofs.BrokerQos (toOpen2)
open Mqtt.Proofs.BrokerLife (effCid effClean resumed updSess newSess addConn accepted)
open Mqtt.Spec.Broker (Accepts SOut Held addHeld subCode)

/-! ### the connection table after `addConn` -/

theorem liveSess_addConn {b b1 b' : B} (c r : Nat) (σ' : Sess) (hc1 : b1.conns = b.conns)
    (hc : b'.conns = (addConn b1 c r).conns) (hs : b'.sess = b1.sess) (hr : b1.getSess r = some σ')
    (hsame : ∀ c' cn', c' ≠ c → b.getConn c' = some cn' → cn'.alive = true → b1.getSess cn'.sess = b.getSess cn'.sess)
    (c' : Nat) : liveSess b' c' = if c' = c then some σ' else liveSess b c' := by
  have hgs : ∀ r', b'.getSess r' = b1.getSess r' := fun r' => Mqtt.Proofs.Broker.getSess_congr b1 b' hs r'
  have hgc : b'.getConn c' = (addConn b1 c r).getConn c' := by unfold B.getConn; rw [hc]
  unfold liveSess
  rw [hgc]
  by_cases he : c' = c
  · subst he
    rw [Mqtt.Proofs.BrokerLife.getConn_addConn]
    simp only [↓reduceIte, hgs, hr]
  · rw [Mqtt.Proofs.BrokerLife.getConn_addConn_ne b1 c c' r he]
    have hg1 : b1.getConn c' = b.getConn c' := by unfold B.getConn; rw [hc1]
    rw [hg1]
    simp only [he, ↓reduceIte]
    cases hcn : b.getConn c' with
    | none => rfl
    | some cn' =>
      simp only
      cases ha : cn'.alive with
      | false => rfl
      | true =>
        simp only [↓reduceIte, hgs]
        exact hsame c' cn' he hcn ha

theorem alive_addConn {b b1 b' : B} (c r : Nat) (hc1 : b1.conns = b.conns)
    (hc : b'.conns = (addConn b1 c r).conns) (c' : Nat) :
    b'.alive c' = if c' = c then true else b.alive c' := by
  have hgc : b'.getConn c' = (addConn b1 c r).getConn c' := by unfold B.getConn; rw [hc]
  unfold B.alive
  rw [hgc]
  by_cases he : c' = c
  · subst he; rw [Mqtt.Proofs.BrokerLife.getConn_addConn]; simp
  · rw [Mqtt.Proofs.BrokerLife.getConn_addConn_ne b1 c c' r he]
    have hg1 : b1.getConn c' = b.getConn c' := by unfold B.getConn; rw [hc1]
    rw [hg1]; simp [he]

theorem validTopic_eq (t : Bytes) : validTopic t = validName t := rfl

theorem initWill_eq (req : Connect) (h : ∀ w, req.will = some w → willOk w = true) :
    initWill req = req.will.map willMsg := by
  unfold initWill
  cases hw : req.will with
  | none => rfl
  | some w =>
    have := (willOk_iff w (h w hw)).2.1
    simp only [Option.map_some, validTopic_eq, this, ↓reduceIte]
    rfl

/-- no second live connection with the client identifier: the reference broker's overlap test fails -/
theorem spec_no_overlap {b : B} {s : Spec.Broker.S} (h : R b s) (c : Nat) (req : Connect)
    (hreal : req.clientId.isEmpty = false → realCid req.clientId = true)
    (hcf : ∀ c' τ, liveSess b c' = some τ → τ.cid ≠ effCid c req) :
    (s.overlap || s.conns.any (fun x => x.cid == specCid c req)) = false := by
  rw [h.overlap, Bool.false_or, List.any_eq_false]
  intro k0 hk0
  have hg := h.spec_getConn_of_mem hk0
  have hal : b.alive k0.id = true := by rw [← h.connsIff, hg]; rfl
  obtain ⟨τ, hτ⟩ := liveSess_of_alive h.inv hal
  obtain ⟨k1, hk1, hrel⟩ := h.live k0.id τ hτ
  rw [hg] at hk1; cases hk1
  have hne := hcf k0.id τ hτ
  simp only [beq_iff_eq]
  intro heq
  unfold specCid at heq
  unfold effCid at hne
  cases hemp : req.clientId.isEmpty with
  | true =>
    simp only [hemp, ↓reduceIte] at heq hne
    rcases hrel.cid with ⟨_, hr⟩ | ⟨e1, e2, _⟩
    · rw [heq, anonSpec_not_real] at hr; cases hr
    · rw [e2] at heq
      exact hne (by rw [e1]; exact anonSpec_inj_anonId heq)
  | false =>
    simp only [hemp, Bool.false_eq_true, ↓reduceIte] at heq hne
    rcases hrel.cid with ⟨e1, _⟩ | ⟨_, e2, _⟩
    · exact hne (by rw [e1, heq])
    · have := hreal hemp
      rw [← heq, e2, anonSpec_not_real] at this; cases this

/-! ### the first packet -/

theorem step_first {b : B} {s : Spec.Broker.S} (h : R b s) (c : Nat) (f : First) (a : Bool)
    (hok : okEv b (.first c f a) = true) :
    R (step b (.first c f a)).1 (Spec.Broker.step1 s (.first c f a)).1 ∧
    Accepts (Spec.Broker.step1 s (.first c f a)).2 (step b (.first c f a)).2 := by
  have hstep : step b (.first c f a) = first b c f a := rfl
  simp only [okEv, Bool.and_eq_true, decide_eq_true_eq, Bool.not_eq_true'] at hok
  obtain ⟨⟨hclt, hdead⟩, hreq⟩ := hok
  obtain ⟨i1, i2, i3⟩ := h.step_invs (.first c f a)
  rw [hstep] at i1 i2 i3 ⊢
  cases hacc : Mqtt.Proofs.BrokerLife.accepts f a with
  | false =>
    -- refused
    cases f with
    | garbage =>
      have : Spec.Broker.step1 s (.first c .garbage a) = (s, [.refused c [none]]) := rfl
      rw [this]
      exact ⟨h, accepts_refused_plain c _ (by simp)⟩
    | other t =>
      have : Spec.Broker.step1 s (.first c (.other t) a) = (s, [.refused c [none]]) := rfl
      rw [this]
      exact ⟨h, accepts_refused_plain c _ (by simp)⟩
    | connect req =>
      have hne : ∀ x, x ∈ Spec.Broker.refusals req a →
          Spec.Broker.step1 s (.first c (.connect req) a) = (s, [.refused c (Spec.Broker.refusals req a)]) := by
        intro x hx
        have : (!(Spec.Broker.refusals req a).isEmpty) = true := by
          cases hr : Spec.Broker.refusals req a with
          | nil => rw [hr] at hx; cases hx
          | cons _ _ => rfl
        simp only [Spec.Broker.step1]
        rw [if_pos this]
      rcases Mqtt.Proofs.BrokerLife.first_table b c req a hacc with ⟨h1, h2⟩ | ⟨k, _, h2, h1⟩
      · rw [h1, hne _ h2]; exact ⟨h, accepts_refused_plain c _ h2⟩
      · rw [h1, hne _ h2]; exact ⟨h, accepts_refused_code c _ k h2⟩
  | true =>
    cases f with
    | garbage => simp [Mqtt.Proofs.BrokerLife.accepts] at hacc
    | other t => simp [Mqtt.Proofs.BrokerLife.accepts] at hacc
    | connect req =>
      simp only [hacc, Bool.not_true, Bool.false_or, Bool.and_eq_true] at hreq
      obtain ⟨hcfree, hwill⟩ := hreq
      have hwok : ∀ w, req.will = some w → willOk w = true := by
        intro w hw; rw [hw] at hwill; exact hwill
      have hcf : ∀ c' τ, liveSess b c' = some τ → τ.cid ≠ effCid c req := by
        unfold effCid
        cases hemp : req.clientId.isEmpty with
        | true => simp only [↓reduceIte]; exact h.anon_free hdead
        | false =>
          simp only [hemp, Bool.false_or] at hcfree
          simp only [Bool.false_eq_true, ↓reduceIte]
          exact fun c' τ hτ => cidFree_spec hcfree hτ
      have href : Spec.Broker.refusals req a = [] := (Mqtt.Proofs.BrokerLife.refusals_nil_iff req a).mpr hacc
      have hreal : req.clientId.isEmpty = false → realCid req.clientId = true := realCid_of_accepts hacc
      have hfa := Mqtt.Proofs.BrokerLife.first_accepted b c req a hacc
      rw [hfa] at i1 i2 i3 ⊢
      have hnoc : ∀ x ∈ s.held, x.owner ≠ c := by
        intro x hx he
        have := h.owners x hx (by rw [he]; exact hclt)
        rw [he, hdead] at this; cases this
      have hheld0 : Spec.Broker.heldOf s c = [] := by
        unfold Spec.Broker.heldOf
        rw [List.map_eq_nil_iff, List.filter_eq_nil_iff]
        intro x hx; simpa using hnoc x hx
      have hov := spec_no_overlap h c req hreal hcf
      cases hres : resumed b c req with
      | some σ =>
        -- a stored CleanSession=0 session is resumed
        obtain ⟨hcl, hst, hσ, hσcl⟩ := Mqtt.Proofs.BrokerLife.resumed_some hres
        have hemp : req.clientId.isEmpty = false := by
          unfold effClean at hcl
          cases he : req.clientId.isEmpty with
          | true => simp [he] at hcl
          | false => rfl
        have hX : effCid c req = req.clientId := by unfold effCid; simp [hemp]
        have hXs : specCid c req = req.clientId := by unfold specCid; simp [hemp]
        have hcls : specClean req = false := by
          unfold specClean; unfold effClean at hcl; simp only [hemp, Bool.false_eq_true, ↓reduceIte] at hcl
          simp [hcl, hemp]
        have hσcid : σ.cid = req.clientId := by rw [← hX]; exact Mqtt.Proofs.BrokerLife.resumed_cid h.linv hres
        rw [hX] at hst hcf
        have hXreal := hreal hemp
        have hresum : resumable b req.clientId = some σ := by
          unfold resumable; rw [hst]; simp [hσ, Option.filter, hσcl]
        obtain ⟨subs, o2, hlk, htr, ho2, hq2⟩ := (h.stored req.clientId hXreal hcf).some σ hresum
        obtain ⟨ha1, ha2, _⟩ := Mqtt.Proofs.BrokerLife.accepted_resumed b c req σ hres
        rw [ha1] at i1 i2 i3
        rw [ha1, ha2]
        rw [spec_first_resumed s c req a href subs o2 hcls (by rw [hXs]; exact hlk), hXs]
        have hsubsnd : (subs.map (·.1)).Nodup := (htr.perm.map (·.1)).nodup_iff.mp htr.nodup
        have hfold : subs.foldl (fun h p => addHeld h c p.1 p.2) s.held = s.held ++ subs.map (mkHeld c) :=
          foldl_addHeld_fresh c subs s.held hsubsnd (fun x hx he => absurd he (hnoc x hx))
        rw [hfold]
        refine ⟨?_, accepts_lits (.cons (.send c _ (by intro w h; cases h)) .nil)⟩
        have hσ'ref : (updSess σ req).ref = σ.ref := rfl
        have hov' : (s.overlap || s.conns.any fun x => x.cid == req.clientId) = false := by rw [← hXs]; exact hov
        refine R_connect (σ' := updSess σ req) (k' := ⟨c, req.clientId, false, req.will, o2⟩) h hclt hdead i1 i2 i3
          ?_ ?_ ?_ ?_ ?_ ?_ ?_ rfl hov' ?_ ?_ ?_ ?_ ?_ ?_ ?_
        · -- live sessions
          refine liveSess_addConn (b1 := b.setSess (updSess σ req)) c σ.ref (updSess σ req) rfl rfl rfl
            (Mqtt.Proofs.BrokerLife.getSess_setSess b (updSess σ req)) ?_
          intro c' cn' _ hcn' ha'
          apply Mqtt.Proofs.BrokerLife.getSess_setSess_ne
          intro hr
          have hl' : liveSess b c' = some σ := liveSess_eq hcn' ha' (by rw [hr]; exact hσ)
          exact hcf c' σ hl' hσcid
        · exact alive_addConn (b1 := b.setSess (updSess σ req)) c σ.ref rfl rfl
        · exact (Mqtt.Proofs.Broker.resubscribe_frame c σ.topics b.topics h.inv.wf).2
        · -- the trie holds the stored subscriptions again
          have hgoodt : ∀ tq ∈ σ.topics, good tq.1 = true := by
            intro tq htq
            have := htr.ok tq htq
            simp only [subOk, Bool.and_eq_true] at this
            exact this.1.1
          have hp := resubscribe_abs c σ.topics b.topics h.inv.wf
          obtain ⟨e1, e2⟩ := Mqtt.Proofs.Broker.entriesAfterSub_held c σ.topics hgoodt s.held h.held.valid
          have hfresh := specSubHeld_fresh c σ.topics s.held htr.nodup htr.ok (fun x hx he => absurd he (hnoc x hx))
          refine ⟨?_, ?_⟩
          · show (abs (resubscribe b.topics c σ.topics).sroot).Perm _
            refine (hp.trans (Mqtt.Proofs.Broker.entriesAfterSub_perm c σ.topics _ _ h.held.perm)).trans ?_
            rw [e1, hfresh]
            exact ((List.Perm.refl _).append (htr.perm.map (mkHeld c))).map heldEntry
          · intro x hx
            rcases List.mem_append.mp hx with hx | hx
            · exact h.held.valid x hx
            · obtain ⟨p, hp', rfl⟩ := List.mem_map.mp hx
              have := htr.ok p (htr.perm.mem_iff.mpr hp')
              simp only [subOk, Bool.and_eq_true] at this
              exact this.1.2
        · intro x hx
          rcases List.mem_append.mp hx with hx | hx
          · exact h.heldGood x hx
          · obtain ⟨p, hp', rfl⟩ := List.mem_map.mp hx
            have := htr.ok p (htr.perm.mem_iff.mpr hp')
            simp only [subOk, Bool.and_eq_true] at this
            exact this.1.1
        · intro x hx hlt hne
          rcases List.mem_append.mp hx with hx | hx
          · exact h.owners x hx hlt
          · obtain ⟨p, _, rfl⟩ := List.mem_map.mp hx
            exact absurd rfl hne
        · intro c' hne
          rw [heldOf_eq, heldOf_eq]
          show heldOfL (s.held ++ subs.map (mkHeld c)) c' = _
          rw [heldOfL_append, heldOfL_mkHeld_ne c c' subs hne, List.append_nil]
        · exact spec_setConn_nodup s ⟨c, req.clientId, false, req.will, o2⟩ h.sconns
        · intro c'
          exact spec_getConn_setConn_if s ⟨c, req.clientId, false, req.will, o2⟩ c rfl c'
        · refine ⟨.inl ⟨hσcid, hXreal⟩, hcl, rfl, initWill_eq req hwok, hwok, ho2, hq2, ?_, ?_⟩
          · rw [heldOf_eq]
            show TopicsRel σ.topics (heldOfL (s.held ++ subs.map (mkHeld c)) c)
            rw [heldOfL_append, heldOfL_mkHeld_self]
            have : heldOfL s.held c = [] := by rw [← heldOf_eq]; exact hheld0
            rw [this, List.nil_append]
            exact htr
          · show b.storeGet σ.cid = some σ.ref
            rw [hσcid]; exact hst
        · intro c' τ hτ
          show τ.cid ≠ σ.cid
          rw [hσcid]; exact hcf c' τ hτ
        · intro x _; rfl
        · intro x _ hxne
          have hxne' : x ≠ req.clientId := by rw [← hσcid]; exact hxne
          unfold resumable
          show ((b.storeGet x).bind (b.setSess (updSess σ req)).getSess).filter _ = _
          cases hg : b.storeGet x with
          | none => rfl
          | some r =>
            simp only [Option.bind_some]
            rw [Mqtt.Proofs.BrokerLife.getSess_setSess_ne b (updSess σ req) r]
            intro hr
            obtain ⟨t, ht, htc⟩ := h.linv.store (x, r) (Mqtt.Proofs.BrokerLife.mem_of_lookup (by exact hg))
            simp only at ht htc
            rw [hr, hσ'ref, hσ] at ht
            cases ht
            exact hxne' (by rw [← htc, hσcid])
        · intro x _ hxne
          have hxne' : x ≠ req.clientId := by rw [← hσcid]; exact hxne
          have : (x == req.clientId) = false := by simpa using hxne'
          simp only [List.lookup_cons, this]
          exact lookup_filter_ne' _ _ _ hxne'
      | none =>
        -- a new session object
        obtain ⟨ha1, ha2, _⟩ := Mqtt.Proofs.BrokerLife.accepted_fresh b c req hres
        rw [ha1] at i1 i2 i3
        rw [ha1, ha2]
        have hcleq : specClean req = effClean req := by
          unfold specClean effClean
          cases req.clientId.isEmpty <;> simp
        have hprior : specClean req = true ∨ s.stored.lookup (specCid c req) = none := by
          cases hcl : effClean req with
          | true => left; rw [hcleq]; exact hcl
          | false =>
            right
            have hemp : req.clientId.isEmpty = false := by
              unfold effClean at hcl
              cases he : req.clientId.isEmpty with
              | true => simp [he] at hcl
              | false => rfl
            have hX : effCid c req = req.clientId := by unfold effCid; simp [hemp]
            have hXs : specCid c req = req.clientId := by unfold specCid; simp [hemp]
            rw [hXs]
            rw [hX] at hcf
            refine (h.stored req.clientId (hreal hemp) hcf).none ?_
            have : resumed b c req = resumable b req.clientId := by
              unfold resumed resumable; simp [hcl, hX]
            rw [← this]; exact hres
        rw [spec_first_fresh s c req a href hprior]
        refine ⟨?_, accepts_lits (.cons (.send c _ (by intro w h; cases h)) .nil)⟩
        have hνref : (newSess b c req).ref = b.nextRef := rfl
        have hνcid : (newSess b c req).cid = effCid c req := rfl
        have hb1 : ((({ b with nextRef := b.nextRef + 1 } : B).setSess (newSess b c req)).storeSet (effCid c req)
            b.nextRef).getSess b.nextRef = some (newSess b c req) :=
          Mqtt.Proofs.BrokerLife.getSess_setSess ({ b with nextRef := b.nextRef + 1 } : B) (newSess b c req)
        have hfreshref : ∀ r τ, b.getSess r = some τ → r ≠ b.nextRef := by
          intro r τ hr he
          rw [he, h.linv.fresh b.nextRef (Nat.le_refl _)] at hr; cases hr
        have hgetne : ∀ r, r ≠ b.nextRef →
            ((({ b with nextRef := b.nextRef + 1 } : B).setSess (newSess b c req)).storeSet (effCid c req)
              b.nextRef).getSess r = b.getSess r := by
          intro r hr
          exact Mqtt.Proofs.BrokerLife.getSess_setSess_ne ({ b with nextRef := b.nextRef + 1 } : B) (newSess b c req) r hr
        refine R_connect (σ' := newSess b c req)
          (k' := ⟨c, specCid c req, specClean req, req.will, []⟩) h hclt hdead i1 i2 i3
          ?_ ?_ rfl h.held h.heldGood ?_ (fun _ _ => rfl) rfl hov ?_ ?_ ?_ ?_ ?_ ?_ ?_
        · refine liveSess_addConn
            (b1 := (({ b with nextRef := b.nextRef + 1 } : B).setSess (newSess b c req)).storeSet (effCid c req) b.nextRef)
            c b.nextRef (newSess b c req) rfl rfl rfl hb1 ?_
          intro c' cn' _ hcn' _
          obtain ⟨τ, hτ⟩ := h.linv.conns cn' (by unfold B.getConn at hcn'; exact List.mem_of_find?_eq_some hcn')
          exact hgetne _ (hfreshref _ τ hτ)
        · exact alive_addConn
            (b1 := (({ b with nextRef := b.nextRef + 1 } : B).setSess (newSess b c req)).storeSet (effCid c req) b.nextRef)
            c b.nextRef rfl rfl
        · intro x hx hlt _; exact h.owners x hx hlt
        · exact spec_setConn_nodup s ⟨c, specCid c req, specClean req, req.will, []⟩ h.sconns
        · intro c'
          exact spec_getConn_setConn_if s ⟨c, specCid c req, specClean req, req.will, []⟩ c rfl c'
        · refine ⟨?_, hcleq.symm, rfl, initWill_eq req hwok, hwok, rfl, (by intro e he; cases he), ?_, ?_⟩
          · show CidRel c (effCid c req) (specCid c req) (specClean req)
            unfold effCid specCid specClean
            cases hemp : req.clientId.isEmpty with
            | true => right; simp
            | false => left; simp only [Bool.false_eq_true, ↓reduceIte, true_and]; exact hreal hemp
          · show TopicsRel [] (Spec.Broker.heldOf _ c)
            have : Spec.Broker.heldOf
                ({ held := s.held, rets := s.rets,
                   stored := if specClean req then s.stored.filter (fun p => p.1 != specCid c req)
                             else (specCid c req, ([], [])) :: s.stored.filter (fun p => p.1 != specCid c req),
                   conns := s.conns.filter (fun (x : Spec.Broker.Conn) => x.id != c) ++
                     [⟨c, specCid c req, specClean req, req.will, []⟩],
                   overlap := s.overlap || s.conns.any (fun x => x.cid == specCid c req) } : Spec.Broker.S) c =
                Spec.Broker.heldOf s c := rfl
            rw [this, hheld0]
            exact ⟨List.Perm.refl _, by simp, by simp⟩
          · show (B.storeSet _ (effCid c req) b.nextRef).storeGet (effCid c req) = some b.nextRef
            exact Mqtt.Proofs.BrokerLife.storeGet_storeSet_self _ _ _
        · intro c' τ hτ; exact hcf c' τ hτ
        · intro x hxne
          exact Mqtt.Proofs.BrokerLife.storeGet_storeSet_ne _ (effCid c req) x b.nextRef hxne
        · intro x _ hxne
          unfold resumable
          have hsg : (addConn ((({ b with nextRef := b.nextRef + 1 } : B).setSess (newSess b c req)).storeSet
              (effCid c req) b.nextRef) c b.nextRef).storeGet x = b.storeGet x :=
            Mqtt.Proofs.BrokerLife.storeGet_storeSet_ne _ (effCid c req) x b.nextRef hxne
          rw [hsg]
          cases hg : b.storeGet x with
          | none => rfl
          | some r =>
            simp only [Option.bind_some]
            obtain ⟨t, ht, _⟩ := h.linv.store (x, r) (Mqtt.Proofs.BrokerLife.mem_of_lookup (by exact hg))
            simp only at ht
            have : (addConn ((({ b with nextRef := b.nextRef + 1 } : B).setSess (newSess b c req)).storeSet
                (effCid c req) b.nextRef) c b.nextRef).getSess r = b.getSess r := hgetne r (hfreshref r t ht)
            rw [this]
        · intro x hx hxne
          have hxs : x ≠ specCid c req := by
            unfold specCid
            cases hemp : req.clientId.isEmpty with
            | true =>
              simp only [↓reduceIte]
              intro e; rw [e, anonSpec_not_real] at hx; cases hx
            | false =>
              simp only [Bool.false_eq_true, ↓reduceIte]
              have : effCid c req = req.clientId := by unfold effCid; simp [hemp]
              rw [← this]; exact hxne
          show List.lookup x (if specClean req then _ else _) = _
          split
          · exact lookup_filter_ne' _ _ _ hxs
          · have : (x == specCid c req) = false := by simpa using hxs
            simp only [List.lookup_cons, this]
            exact lookup_filter_ne' _ _ _ hxs

end Mqtt.Proofs.BrokerRefine
