/-
Core F (framing part), helper lemmas for C05: the framing functions of
`Model/Framing.lean` are total, consume only a prefix of the stream they are
given, and allocate boundedly.
-/
import Mqtt.Model.Framing
import Mqtt.Proofs.CodecDecode

set_option linter.unusedSimpArgs false
set_option linter.unusedVariables false

namespace Mqtt.Proofs.Framing

open Mqtt.Model.Framing Mqtt.Generated
open Mqtt.Model.Codec (Outcome Decoded uvarint uvarintAux decodeNew index)

/-! ### the regenerated limits -/

/-- the limits the model reads from the source are the ones the proofs below are about:
four remaining-length bytes before CONNECT (`l > 4`), `cnt` from 2 to 5 afterwards -/
theorem facts_limits :
    framingPreMaxHeader = 4 ∧ framingPostCntStart = 2 ∧ framingPostMaxCnt = 5 := by decide

/-- largest remaining length four length bytes can express -/
def maxRemlen : Nat := 268435455

/-- bound on every allocation before CONNECT: type byte, four length bytes, `maxRemlen` -/
def preBound : Nat := 1 + 4 + maxRemlen

/-! ### `binary.Uvarint` never yields more than its input can express -/

theorem uvarintAux_lt (buf : Bytes) : ∀ (i x : Nat), x < 128 ^ i →
    (uvarintAux buf i x).1 < 128 ^ (i + buf.length) := by
  induction buf with
  | nil => intro i x _; simp [uvarintAux]; exact Nat.pow_pos (by omega)
  | cons b rest ih =>
    intro i x hx
    have hpow : 128 ^ (i + 1) ≤ 128 ^ (i + (b :: rest).length) :=
      Nat.pow_le_pow_right (by omega) (by simp only [List.length_cons]; omega)
    have hpos : 0 < 128 ^ (i + (b :: rest).length) := Nat.pow_pos (by omega)
    unfold uvarintAux
    split
    · exact hpos
    · split
      · split
        · exact hpos
        · have hb : b.toNat * 128 ^ i ≤ 127 * 128 ^ i := Nat.mul_le_mul_right _ (by omega)
          have := Nat.mod_le (x + b.toNat * 128 ^ i) (2 ^ 64)
          rw [Nat.pow_succ] at hpow
          show (x + b.toNat * 128 ^ i) % 2 ^ 64 < _
          omega
      · have hb : b.toNat % 128 * 128 ^ i ≤ 127 * 128 ^ i := Nat.mul_le_mul_right _ (by omega)
        have := ih (i + 1) (x + b.toNat % 128 * 128 ^ i) (by rw [Nat.pow_succ]; omega)
        have e : i + 1 + rest.length = i + (b :: rest).length := by simp only [List.length_cons]; omega
        rw [e] at this
        exact this

theorem uvarint_lt (buf : Bytes) : (uvarint buf).1 < 128 ^ buf.length := by
  have := uvarintAux_lt buf 0 0 (by simp)
  simpa [uvarint] using this

theorem uvarint_le4 (buf : Bytes) (h : buf.length ≤ 4) : (uvarint buf).1 ≤ maxRemlen := by
  have h1 := uvarint_lt buf
  have h2 : 128 ^ buf.length ≤ 128 ^ 4 := Nat.pow_le_pow_right (by omega) h
  have h3 : (128 : Nat) ^ 4 = 268435456 := by decide
  unfold maxRemlen
  omega

/-! ### `getMessageBuffer` -/

theorem readHeader_done (stream : Bytes) : ∀ (acc buf rest : Bytes), readHeader stream acc = .done buf rest →
    buf ++ rest = acc ++ stream ∧ acc.length < buf.length ∧ 2 ≤ buf.length ∧
      buf.length ≤ framingPreMaxHeader + 1 := by
  induction stream with
  | nil =>
    intro acc buf rest h
    unfold readHeader at h
    split at h <;> cases h
  | cons b tl ih =>
    intro acc buf rest h
    unfold readHeader at h
    split at h
    · cases h
    · simp only at h
      split at h
      · rename_i hcond
        injection h with h1 h2
        subst h1 h2
        simp only [Bool.and_eq_true, decide_eq_true_eq] at hcond
        simp only [List.append_assoc, List.singleton_append, List.length_append, List.length_singleton, true_and] at hcond ⊢
        omega
      · obtain ⟨h1, h2, h3, h4⟩ := ih _ _ _ h
        simp only [List.append_assoc, List.singleton_append, List.length_append, List.length_singleton] at h1 h2
        exact ⟨h1, by omega, h3, h4⟩

theorem readHeader_eof (stream : Bytes) : ∀ (acc : Bytes) (l : Nat), readHeader stream acc = .eof l →
    l = acc.length + stream.length ∧ l ≤ framingPreMaxHeader + 1 := by
  induction stream with
  | nil =>
    intro acc l h
    unfold readHeader at h
    split at h
    · cases h
    · injection h with h1
      subst h1
      simp only [List.length_nil, Nat.add_zero, true_and]; omega
  | cons b tl ih =>
    intro acc l h
    unfold readHeader at h
    split at h
    · cases h
    · simp only at h
      split at h
      · cases h
      · obtain ⟨h1, h2⟩ := ih _ _ h
        simp only [List.length_append, List.length_singleton] at h1
        simp only [List.length_cons]
        exact ⟨by omega, h2⟩

theorem readHeader_tooLong (stream : Bytes) : ∀ (acc : Bytes) (l : Nat), readHeader stream acc = .tooLong l →
    acc.length ≤ framingPreMaxHeader + 1 → l ≤ framingPreMaxHeader + 1 := by
  induction stream with
  | nil =>
    intro acc l h hacc
    unfold readHeader at h
    split at h
    · injection h with h1; omega
    · cases h
  | cons b tl ih =>
    intro acc l h hacc
    unfold readHeader at h
    split at h
    · injection h with h1; omega
    · simp only at h
      split at h
      · cases h
      · refine ih _ _ h ?_
        simp only [List.length_append, List.length_singleton]
        omega

theorem getMessageBuffer_eof {stream : Bytes} {l : Nat} (h : readHeader stream [] = .eof l) :
    getMessageBuffer stream = ⟨.needMore, [1, l]⟩ := by
  unfold getMessageBuffer; rw [h]

theorem getMessageBuffer_tooLong {stream : Bytes} {l : Nat} (h : readHeader stream [] = .tooLong l) :
    getMessageBuffer stream = ⟨.error, [1, l]⟩ := by
  unfold getMessageBuffer; rw [h]

theorem getMessageBuffer_done {stream hb rest : Bytes} (h : readHeader stream [] = .done hb rest) :
    getMessageBuffer stream =
      if rest.length < (uvarint (hb.drop 1)).1 then
        ⟨.needMore, [1, hb.length, (uvarint (hb.drop 1)).1, hb.length + (uvarint (hb.drop 1)).1]⟩
      else ⟨.buffer (hb ++ rest.take (uvarint (hb.drop 1)).1) (hb.length + (uvarint (hb.drop 1)).1),
            [1, hb.length, (uvarint (hb.drop 1)).1, hb.length + (uvarint (hb.drop 1)).1]⟩ := by
  unfold getMessageBuffer; rw [h]

/-- what `getMessageBuffer` returns is a prefix of the stream, and everything it allocates is
bounded by what four length bytes can announce -/
theorem getMessageBuffer_spec (stream : Bytes) :
    (∀ buf n, (getMessageBuffer stream).outcome = .buffer buf n → n ≤ stream.length ∧ buf = stream.take n ∧ 2 ≤ n) ∧
    (∀ a ∈ (getMessageBuffer stream).allocs, a ≤ preBound) := by
  have hl := facts_limits.1
  cases hr : readHeader stream [] with
  | eof l =>
    have h2 := (readHeader_eof stream [] l hr).2
    rw [getMessageBuffer_eof hr]
    refine ⟨(by intro buf n h; cases h), ?_⟩
    intro a ha
    simp only [List.mem_cons, List.not_mem_nil, or_false] at ha
    unfold preBound maxRemlen
    rcases ha with rfl | rfl <;> omega
  | tooLong l =>
    have h2 := readHeader_tooLong stream [] l hr (by simp)
    rw [getMessageBuffer_tooLong hr]
    refine ⟨(by intro buf n h; cases h), ?_⟩
    intro a ha
    simp only [List.mem_cons, List.not_mem_nil, or_false] at ha
    unfold preBound maxRemlen
    rcases ha with rfl | rfl <;> omega
  | done hb rest =>
    obtain ⟨h1, _, h2, h3⟩ := readHeader_done stream [] hb rest hr
    simp only [List.nil_append] at h1
    have hrem : (uvarint (hb.drop 1)).1 ≤ maxRemlen := uvarint_le4 _ (by simp only [List.length_drop]; omega)
    have hlen : stream.length = hb.length + rest.length := by rw [← h1]; simp
    rw [getMessageBuffer_done hr]
    generalize (uvarint (List.drop 1 hb)).1 = remlen at hrem ⊢
    constructor
    · intro buf n h
      split at h
      · cases h
      · rename_i hge
        injection h with hbuf hn
        subst hbuf hn
        refine ⟨by omega, ?_, by omega⟩
        rw [← h1, List.take_length_add_append]
    · intro a ha
      have hmem : a ∈ [1, hb.length, remlen, hb.length + remlen] := by
        split at ha <;> exact ha
      simp only [List.mem_cons, List.not_mem_nil, or_false] at hmem
      unfold preBound
      unfold maxRemlen at hrem ⊢
      rcases hmem with rfl | rfl | rfl | rfl <;> omega

/-! ### the first packet -/

/-- bytes of the stream a first-packet outcome has consumed -/
def FirstOutcome.consumed : FirstOutcome → Nat
  | .connect _ n | .refused _ n => n
  | _ => 0

theorem decodeNew_ne_panic (t : Nat) (src : Bytes) : decodeNew t src ≠ .panic :=
  (Mqtt.Proofs.Codec.decodeNew_total t src).ne_panic

/-- `getConnectMessage` never panics, consumes a prefix of the stream, hands the decoder exactly
that prefix, and allocates boundedly -/
theorem getConnectMessage_spec (stream : Bytes) :
    (getConnectMessage stream).outcome ≠ .panicked ∧
    FirstOutcome.consumed (getConnectMessage stream).outcome ≤ stream.length ∧
    (∀ c n, (getConnectMessage stream).outcome = .connect c n →
      2 ≤ n ∧ ∃ d h, decodeNew tCONNECT (stream.take n) = .ok d ∧ d.msg = .connect h c) ∧
    (∀ code n, (getConnectMessage stream).outcome = .refused code n →
      decodeNew tCONNECT (stream.take n) = .err ∨ ∃ d, decodeNew tCONNECT (stream.take n) = .ok d) ∧
    (∀ a ∈ (getConnectMessage stream).allocs, a ≤ preBound) := by
  obtain ⟨hbuf, hal⟩ := getMessageBuffer_spec stream
  unfold getConnectMessage
  cases ho : (getMessageBuffer stream).outcome with
  | needMore => simp only [ho]; exact ⟨by simp, by simp [FirstOutcome.consumed], by simp, by simp, hal⟩
  | error => simp only [ho]; exact ⟨by simp, by simp [FirstOutcome.consumed], by simp, by simp, hal⟩
  | buffer buf n =>
    obtain ⟨hn, hb, h2⟩ := hbuf buf n ho
    subst hb
    simp only [ho]
    cases hd : decodeNew tCONNECT (List.take n stream) with
    | panic => exact absurd hd (decodeNew_ne_panic _ _)
    | err =>
      simp only []
      refine ⟨by simp, by simpa [FirstOutcome.consumed] using hn, by simp, ?_, hal⟩
      intro code n' he
      injection he with _ e2
      subst e2
      exact .inl hd
    | ok d =>
      simp only
      cases hm : d.msg with
      | connect h c =>
        refine ⟨by simp, by simpa [FirstOutcome.consumed] using hn, ?_, by simp, hal⟩
        intro c' n' he
        injection he with e1 e2
        subst e1 e2
        exact ⟨h2, d, h, hd, hm⟩
      | connack _ _ _ | publish _ _ _ | ack _ | subscribe _ _ _ | suback _ _ | unsubscribe _ _ | bare _ =>
        refine ⟨by simp, by simpa [FirstOutcome.consumed] using hn, by simp, ?_, hal⟩
        intro code n' he
        injection he with _ e2
        subst e2
        exact .inr ⟨d, hd⟩

/-! ### after CONNECT -/

theorem readWait_ok {sz : Nat} {avail : Bytes} {n : Nat} {b : Bytes} (h : readWait sz avail n = .ok b) :
    n ≤ sz ∧ n ≤ avail.length ∧ b = avail.take n ∧ b.length = n := by
  unfold readWait at h
  split at h
  · cases h
  · split at h
    · cases h
    · injection h with h
      subst h
      refine ⟨by omega, by omega, rfl, ?_⟩
      rw [List.length_take]; omega

/-- what `peekMessageSize` may end in: never a panic, never the model's loop bound; every
(possibly copying) `ReadWait` it performed asked for at most the ring size -/
def SizeOk (sz : Nat) : SizeRes → Prop
  | .size _ _ a | .needMore a | .error a => ∀ x ∈ a, x ≤ sz
  | .panicked | .stuck => False

theorem index_ok {b : Bytes} {i : Nat} (h : i < b.length) : ∃ v, index b i = .ok v := by
  unfold index
  rw [List.getElem?_eq_getElem h]
  exact ⟨_, rfl⟩

theorem peekSizeLoop_ok (sz : Nat) (avail : Bytes) : ∀ (fuel cnt : Nat) (allocs : List Nat),
    1 ≤ cnt → cnt ≤ framingPostMaxCnt + 1 → framingPostMaxCnt + 2 ≤ cnt + fuel → (∀ a ∈ allocs, a ≤ sz) →
    SizeOk sz (peekSizeLoop sz avail fuel cnt allocs) := by
  intro fuel
  induction fuel with
  | zero => intro cnt allocs _ h2 h3 _; omega
  | succ fuel ih =>
    intro cnt allocs h1 h2 h3 ha
    unfold peekSizeLoop
    split
    · exact ha
    · rename_i hle
      cases hw : readWait sz avail cnt with
      | full => exact ha
      | blocked => exact ha
      | ok b =>
        obtain ⟨hsz, _, _, hlen⟩ := readWait_ok hw
        simp only
        have ha' : ∀ a ∈ allocs ++ [cnt], a ≤ sz := by
          intro a hm
          simp only [List.mem_append, List.mem_singleton] at hm
          rcases hm with hm | rfl
          · exact ha a hm
          · exact hsz
        obtain ⟨last, hlast⟩ := index_ok (b := b) (i := cnt - 1) (by omega)
        rw [hlast]
        simp only
        split
        · exact ih (cnt + 1) _ (by omega) (by omega) (by omega) ha'
        · obtain ⟨tf, htf⟩ := index_ok (b := b) (i := 0) (by omega)
          rw [htf]
          exact ha'

theorem peekMessageSize_ok (sz : Nat) (avail : Bytes) : SizeOk sz (peekMessageSize sz avail) := by
  obtain ⟨_, h2, h3⟩ := facts_limits
  unfold peekMessageSize
  exact peekSizeLoop_ok sz avail _ _ [] (by omega) (by omega) (by omega) (by simp)

theorem decodeNew_nil (t : Nat) : decodeNew t [] = .err := by
  unfold decodeNew
  cases Mqtt.Model.Codec.Msg.new t with
  | none => rfl
  | some m => cases m <;> rfl

/-- One round of the processor loop: never a panic, never the model's loop bound; a packet
is decoded from exactly the first `total` bytes of the stream, `1 ≤ total ≤` ring size; every
allocation is at most the ring size. -/
theorem nextPacket_spec (sz : Nat) (avail : Bytes) :
    (nextPacket sz avail).outcome ≠ .panicked ∧ (nextPacket sz avail).outcome ≠ .stuck ∧
    (∀ d total, (nextPacket sz avail).outcome = .packet d total →
      1 ≤ total ∧ total ≤ avail.length ∧ total ≤ sz ∧ (∃ t, decodeNew t (avail.take total) = .ok d) ∧
      publishIdMissing d.msg = false) ∧
    (∀ a ∈ (nextPacket sz avail).allocs, a ≤ sz) := by
  have hs := peekMessageSize_ok sz avail
  unfold nextPacket
  cases hp : peekMessageSize sz avail with
  | stuck => rw [hp] at hs; exact hs.elim
  | panicked => rw [hp] at hs; exact hs.elim
  | error a => rw [hp] at hs; exact ⟨by simp, by simp, by simp, hs⟩
  | needMore a => rw [hp] at hs; exact ⟨by simp, by simp, by simp, hs⟩
  | size mtype total a =>
    rw [hp] at hs
    have hs : ∀ x ∈ a, x ≤ sz := hs
    simp only
    split
    · exact ⟨by simp, by simp, by simp, hs⟩
    · cases hw : readWait sz avail total.toNat with
      | full => exact ⟨by simp, by simp, by simp, hs⟩
      | blocked => exact ⟨by simp, by simp, by simp, hs⟩
      | ok b =>
        obtain ⟨hsz, hlen, hb, _⟩ := readWait_ok hw
        subst hb
        have ha' : ∀ x ∈ a ++ [total.toNat], x ≤ sz := by
          intro x hm
          simp only [List.mem_append, List.mem_singleton] at hm
          rcases hm with hm | rfl
          · exact hs x hm
          · exact hsz
        simp only
        cases hd : decodeNew mtype (List.take total.toNat avail) with
        | panic => exact absurd hd (decodeNew_ne_panic _ _)
        | err => exact ⟨by simp, by simp, by simp, ha'⟩
        | ok d =>
          simp only
          have hfact : framingRejectsPublishIdZero = true := by decide
          cases hm : publishIdMissing d.msg with
          | true =>
            simp only [hfact, Bool.and_self, ↓reduceIte]
            exact ⟨by simp, by simp, by simp, ha'⟩
          | false =>
            simp only [hfact, Bool.true_and, Bool.false_eq_true, ↓reduceIte]
            refine ⟨by simp, by simp, ?_, ha'⟩
            intro d' total' he
            injection he with e1 e2
            subst e1 e2
            refine ⟨?_, hlen, hsz, ⟨mtype, hd⟩, hm⟩
            cases h0 : total.toNat with
            | zero => rw [h0, List.take_zero, decodeNew_nil] at hd; cases hd
            | succ k => omega

end Mqtt.Proofs.Framing
