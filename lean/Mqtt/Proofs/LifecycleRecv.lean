/-
Core F — helper lemmas for C16/C19, part 3b: what no thread step undoes (`FrameE`), and the
receiver's exit (`InvR`): since b77088f the receiver closes the socket when its read has failed, so
a receiver that has called `wgStopped.Done()` has left a closed socket behind; and a fired read
deadline is seen by the receiver, which is inside that read or already past its loop.
-/
import Mqtt.Proofs.LifecycleStop

set_option linter.unusedSimpArgs false
set_option linter.unusedVariables false

namespace Mqtt.Proofs.Lifecycle
open Mqtt.Model.Lifecycle

/-- what no thread step undoes -/
structure FrameE (sh sh' : Sh) : Prop where
  timeout : sh'.timeout = sh.timeout
  ext : sh'.extBlocked = sh.extBlocked
  sock : sh.sock ≠ .open → sh'.sock ≠ .open
  sockc : sh.sock = .closed → sh'.sock = .closed
  closed : sh.closed = true → sh'.closed = true

theorem rstep_frameE (c : Cfg) (hw : WF c) (sh sh' : Sh) (k : Nat) (pc pc' : RPc)
    (h : rstep c sh k pc = some (sh', pc')) : FrameE sh sh' ∧ (RPc.pastLoop pc = true → RPc.pastLoop pc' = true) := by
  cases pc with
  | space =>
    simp only [rstep] at h
    cases hs : sh.inR.waitSpace c c.spaceNeed with
    | none => simp [hs] at h
    | some q =>
      obtain ⟨ret, r⟩ := q
      cases ret <;> simp [hs] at h <;> obtain ⟨rfl, rfl⟩ := h <;> refine ⟨by constructor <;> simp, by simp [RPc.pastLoop]⟩
  | read =>
    simp only [rstep] at h
    by_cases h1 : sh.sock ≠ .open ∨ sh.timeout = true
    · simp [h1] at h; obtain ⟨rfl, rfl⟩ := h; refine ⟨by constructor <;> simp, by simp [RPc.pastLoop]⟩
    · by_cases h2 : sh.wire = 0
      · simp [h1, h2] at h
      · simp only [h1, h2, if_false] at h; simp at h; obtain ⟨rfl, rfl⟩ := h
        refine ⟨by constructor <;> simp, by simp [RPc.pastLoop]⟩
  | commit n =>
    simp only [rstep] at h
    cases hs : sh.inR.commitP c n with
    | none => simp [hs] at h
    | some q =>
      obtain ⟨ret, r⟩ := q
      cases ret <;> simp [hs] at h <;> obtain ⟨rfl, rfl⟩ := h <;> refine ⟨by constructor <;> simp, by simp [RPc.pastLoop]⟩
  | close =>
    simp only [rstep, close_returns c hw.d2, hw.rc] at h; simp at h; obtain ⟨rfl, rfl⟩ := h
    refine ⟨by constructor <;> simp, by simp [RPc.pastLoop]⟩
  | connClose => simp [rstep] at h; obtain ⟨rfl, rfl⟩ := h; refine ⟨by constructor <;> simp, by simp [RPc.pastLoop]⟩
  | wgDone => simp [rstep] at h; obtain ⟨rfl, rfl⟩ := h; refine ⟨by constructor <;> simp, by simp [RPc.pastLoop]⟩
  | exited => simp [rstep] at h

theorem sstep_frameE (c : Cfg) (hw : WF c) (sh sh' : Sh) (pc pc' : SPc)
    (h : sstep c sh pc = some (sh', pc')) : FrameE sh sh' := by
  cases pc with
  | peek =>
    simp only [sstep] at h
    by_cases h1 : sh.outR.done = true
    · simp [h1] at h; obtain ⟨rfl, rfl⟩ := h; constructor <;> simp
    · by_cases h2 : 0 < sh.outR.buf <;> simp [h1, h2] at h
      obtain ⟨rfl, rfl⟩ := h; constructor <;> simp
  | write m =>
    simp only [sstep] at h
    by_cases h1 : sh.sock.wfail = true
    · simp [h1] at h; obtain ⟨rfl, rfl⟩ := h; constructor <;> simp
    · by_cases h2 : sh.peerReads = true <;> simp [h1, h2] at h
      obtain ⟨rfl, rfl⟩ := h; constructor <;> simp
  | commit m => simp only [sstep, commitC_returns c hw.d2] at h; simp at h; obtain ⟨rfl, rfl⟩ := h; constructor <;> simp
  | close => simp only [sstep, close_returns c hw.d2] at h; simp at h; obtain ⟨rfl, rfl⟩ := h; constructor <;> simp
  | wgDone => simp [sstep] at h; obtain ⟨rfl, rfl⟩ := h; constructor <;> simp
  | exited => simp [sstep] at h

theorem kstep_frameE (c : Cfg) (hw : WF c) (sh sh' : Sh) (me : Tid) (k k' : KPc)
    (h : kstep c sh me k = some (sh', k')) : FrameE sh sh' ∧ k' ≠ .idle := by
  cases k with
  | idle => simp [kstep] at h
  | finished => simp [kstep] at h
  | run i =>
    simp only [kstep] at h
    cases hp : c.stopProg[i]? with
    | none => simp [hp] at h; obtain ⟨rfl, rfl⟩ := h; exact ⟨by constructor <;> simp, by simp⟩
    | some op =>
      cases he : execStop c sh me op with
      | none => simp [hp, he] at h
      | some q =>
        obtain ⟨sh1, b⟩ := q
        have hfe : FrameE sh sh1 := by
          cases op <;> simp [execStop, close_returns c hw.d2] at he
          case cas =>
            by_cases hc : sh.closed = true <;> simp [hc] at he <;> obtain ⟨rfl, rfl⟩ := he <;> constructor <;> simp [hc]
          case closeDone => obtain ⟨rfl, rfl⟩ := he; constructor <;> simp
          case connClose => obtain ⟨rfl, rfl⟩ := he; constructor <;> simp
          case inClose => obtain ⟨rfl, rfl⟩ := he; constructor <;> simp
          case outClose => obtain ⟨rfl, rfl⟩ := he; constructor <;> simp
          case wgWait => obtain ⟨_, rfl, rfl⟩ := he; constructor <;> simp
          case unsub => obtain ⟨rfl, rfl⟩ := he; constructor <;> simp
          case will => obtain ⟨rfl, rfl⟩ := he; by_cases hf : sh.willFlag = true <;> constructor <;> simp [hf]
          case sessDel => obtain ⟨rfl, rfl⟩ := he; by_cases hf : sh.clean = true <;> constructor <;> simp [hf]
          case clearRings => obtain ⟨rfl, rfl⟩ := he; constructor <;> simp
        cases b <;> simp [hp, he] at h <;> obtain ⟨rfl, rfl⟩ := h <;> exact ⟨hfe, by simp⟩

theorem pstep_frameE (c : Cfg) (hw : WF c) (sh sh' : Sh) (pc pc' : PPc)
    (h : pstep c sh pc = some (sh', pc')) : FrameE sh sh' ∧ (PPc.pastLoop pc = true → PPc.pastLoop pc' = true) := by
  cases pc with
  | size =>
    simp only [pstep] at h
    generalize hdrNeed sh.stream = need at h
    cases hs : sh.inR.waitData c need with
    | none => simp [hs] at h
    | some q =>
      obtain ⟨ret, r⟩ := q
      cases ret
      · cases hst : sh.stream with
        | nil => simp [hs, hst] at h; obtain ⟨rfl, rfl⟩ := h; exact ⟨by constructor <;> simp, by simp [PPc.pastLoop]⟩
        | cons p tl =>
          by_cases h5 : 5 < p.hdr <;> simp [hs, hst, h5] at h <;> obtain ⟨rfl, rfl⟩ := h <;>
            exact ⟨by constructor <;> simp, by simp [PPc.pastLoop]⟩
      · simp [hs] at h; obtain ⟨rfl, rfl⟩ := h; exact ⟨by constructor <;> simp, by simp [PPc.pastLoop]⟩
      · simp [hs] at h; obtain ⟨rfl, rfl⟩ := h; exact ⟨by constructor <;> simp, by simp [PPc.pastLoop]⟩
  | msg =>
    simp only [pstep] at h
    cases hst : sh.stream with
    | nil => simp [hst] at h; obtain ⟨rfl, rfl⟩ := h; exact ⟨by constructor <;> simp, by simp [PPc.pastLoop]⟩
    | cons p tl =>
      cases hs : sh.inR.waitData c p.total with
      | none => simp [hst, hs] at h
      | some q =>
        obtain ⟨ret, r⟩ := q
        cases ret
        · cases hk : p.kind <;> simp [hst, hs, hk] at h <;> obtain ⟨rfl, rfl⟩ := h <;>
            exact ⟨by constructor <;> simp, by simp [PPc.pastLoop]⟩
        · simp [hst, hs] at h; obtain ⟨rfl, rfl⟩ := h; exact ⟨by constructor <;> simp, by simp [PPc.pastLoop]⟩
        · simp [hst, hs] at h; obtain ⟨rfl, rfl⟩ := h; exact ⟨by constructor <;> simp, by simp [PPc.pastLoop]⟩
  | acts as =>
    cases as with
    | nil => simp [pstep] at h; obtain ⟨rfl, rfl⟩ := h; exact ⟨by constructor <;> simp, by simp [PPc.pastLoop]⟩
    | cons a rest =>
      cases a with
      | foreign =>
        simp only [pstep] at h
        by_cases hb : sh.extBlocked = true <;> simp [hb] at h
        obtain ⟨rfl, rfl⟩ := h; exact ⟨by constructor <;> simp, by simp [PPc.pastLoop]⟩
      | own l =>
        simp only [pstep] at h
        by_cases hm : sh.wmu.isSome = true <;> simp [hm] at h
        obtain ⟨rfl, rfl⟩ := h; exact ⟨by constructor <;> simp, by simp [PPc.pastLoop]⟩
  | ownWait l rest =>
    simp only [pstep] at h
    cases hs : sh.outR.waitSpace c l with
    | none => simp [hs] at h
    | some q =>
      obtain ⟨ret, r⟩ := q
      cases ret <;> simp [hs] at h <;> obtain ⟨rfl, rfl⟩ := h <;> exact ⟨by constructor <;> simp, by simp [PPc.pastLoop]⟩
  | ownCommit l rest =>
    simp only [pstep] at h
    cases hs : sh.outR.commitP c l with
    | none => simp [hs] at h
    | some q =>
      obtain ⟨ret, r⟩ := q
      simp [hs] at h; obtain ⟨rfl, rfl⟩ := h; exact ⟨by constructor <;> simp, by simp [PPc.pastLoop]⟩
  | commit =>
    simp only [pstep] at h
    cases hst : sh.stream with
    | nil => simp [hst] at h; obtain ⟨rfl, rfl⟩ := h; exact ⟨by constructor <;> simp, by simp [PPc.pastLoop]⟩
    | cons p tl =>
      simp [hst, commitC_returns c hw.d2] at h; obtain ⟨rfl, rfl⟩ := h
      exact ⟨by constructor <;> simp, by simp [PPc.pastLoop]⟩
  | check =>
    simp only [pstep] at h
    by_cases hc : (sh.doneCh && sh.inR.buf == 0) = true <;> simp [hc] at h <;> obtain ⟨rfl, rfl⟩ := h <;>
      exact ⟨by constructor <;> simp, by simp [PPc.pastLoop]⟩
  | wgDone => simp [pstep] at h; obtain ⟨rfl, rfl⟩ := h; exact ⟨by constructor <;> simp, by simp [PPc.pastLoop]⟩
  | stop k =>
    simp only [pstep] at h
    cases hk : kstep c sh .proc k with
    | none => simp [hk] at h
    | some q =>
      obtain ⟨sh1, k1⟩ := q
      simp [hk] at h; obtain ⟨rfl, rfl⟩ := h
      exact ⟨(kstep_frameE c hw _ _ _ _ _ hk).1, by simp [PPc.pastLoop]⟩

theorem wstep_frameE (c : Cfg) (hw : WF c) (sh sh' : Sh) (me : Tid) (w w' : WTh)
    (h : wstep c sh me w = some (sh', w')) : FrameE sh sh' := by
  obtain ⟨pc, len⟩ := w
  cases pc with
  | check =>
    simp only [wstep] at h
    by_cases hn : sh.ringsNil = true <;> simp [hn] at h <;> obtain ⟨rfl, rfl⟩ := h <;> constructor <;> simp
  | lock =>
    simp only [wstep] at h
    by_cases hm : sh.wmu.isSome = true <;> simp [hm] at h
    obtain ⟨rfl, rfl⟩ := h; constructor <;> simp
  | wait =>
    simp only [wstep] at h
    by_cases hn : sh.ringsNil = true
    · simp [hn] at h; obtain ⟨rfl, rfl⟩ := h; constructor <;> simp
    · cases hs : sh.outR.waitSpace c len with
      | none => simp [hn, hs] at h
      | some q =>
        obtain ⟨ret, r⟩ := q
        cases ret <;> simp [hn, hs] at h <;> obtain ⟨rfl, rfl⟩ := h <;> constructor <;> simp
  | commit =>
    simp only [wstep] at h
    by_cases hn : sh.ringsNil = true
    · simp [hn] at h; obtain ⟨rfl, rfl⟩ := h; constructor <;> simp
    · cases hs : sh.outR.commitP c len with
      | none => simp [hn, hs] at h
      | some q =>
        obtain ⟨ret, r⟩ := q
        simp [hn, hs] at h; obtain ⟨rfl, rfl⟩ := h; constructor <;> simp
  | finished => simp [wstep] at h
  | panicked => simp [wstep] at h

/-! ## The receiver's exit -/

/-- the receiver has executed its `conn.Close()` -/
def RPc.sockClosed : RPc → Bool
  | .wgDone => true | .exited => true | _ => false

structure InvR (s : St) : Prop where
  rsock : RPc.sockClosed s.recv = true → s.sh.sock = .closed
  tmo : s.sh.timeout = true → s.recv = .read ∨ RPc.pastLoop s.recv = true

theorem invR_init (c : Cfg) (s : St) (h : Init c s) : InvR s := by
  refine ⟨?_, ?_⟩
  · simp [h.recv, RPc.sockClosed]
  · intro ht; rw [h.noTimeout] at ht; cases ht

theorem invR_recv (c : Cfg) (hw : WF c) (s : St) (sh' : Sh) (pc' : RPc) (k : Nat) (hi : InvR s)
    (h : rstep c s.sh k s.recv = some (sh', pc')) : InvR { s with sh := sh', recv := pc' } := by
  obtain ⟨hf, hp⟩ := rstep_frameE c hw _ _ _ _ _ h
  cases hpc : s.recv with
  | space =>
    rw [hpc] at h
    have ht : s.sh.timeout = false := by
      cases hto : s.sh.timeout with
      | false => rfl
      | true => rcases hi.tmo hto with h1 | h1 <;> simp [hpc, RPc.pastLoop] at h1
    simp only [rstep] at h
    cases hs : s.sh.inR.waitSpace c c.spaceNeed with
    | none => simp [hs] at h
    | some q =>
      obtain ⟨ret, r⟩ := q
      cases ret <;> simp [hs] at h <;> obtain ⟨rfl, rfl⟩ := h <;>
        exact ⟨by simp [RPc.sockClosed], by intro hx; simp [ht] at hx⟩
  | read =>
    rw [hpc] at h
    simp only [rstep] at h
    by_cases h1 : s.sh.sock ≠ .open ∨ s.sh.timeout = true
    · simp [h1] at h; obtain ⟨rfl, rfl⟩ := h
      exact ⟨by simp [RPc.sockClosed], fun _ => Or.inr rfl⟩
    · by_cases h2 : s.sh.wire = 0
      · simp [h1, h2] at h
      · simp only [h1, h2, if_false] at h; simp at h; obtain ⟨rfl, rfl⟩ := h
        simp at h1
        exact ⟨by simp [RPc.sockClosed], by intro hx; simp [h1.2] at hx⟩
  | commit n =>
    rw [hpc] at h
    have ht : s.sh.timeout = false := by
      cases hto : s.sh.timeout with
      | false => rfl
      | true => rcases hi.tmo hto with h1 | h1 <;> simp [hpc, RPc.pastLoop] at h1
    simp only [rstep] at h
    cases hs : s.sh.inR.commitP c n with
    | none => simp [hs] at h
    | some q =>
      obtain ⟨ret, r⟩ := q
      cases ret <;> simp [hs] at h <;> obtain ⟨rfl, rfl⟩ := h <;>
        exact ⟨by simp [RPc.sockClosed], by intro hx; simp [ht] at hx⟩
  | close =>
    rw [hpc] at h
    simp only [rstep, close_returns c hw.d2, hw.rc] at h; simp at h; obtain ⟨rfl, rfl⟩ := h
    exact ⟨by simp [RPc.sockClosed], fun _ => Or.inr rfl⟩
  | connClose =>
    rw [hpc] at h
    simp [rstep] at h; obtain ⟨rfl, rfl⟩ := h
    exact ⟨fun _ => rfl, fun _ => Or.inr rfl⟩
  | wgDone =>
    rw [hpc] at h
    simp [rstep] at h; obtain ⟨rfl, rfl⟩ := h
    exact ⟨fun _ => hi.rsock (by simp [hpc, RPc.sockClosed]), fun _ => Or.inr rfl⟩
  | exited => rw [hpc] at h; simp [rstep] at h

/-- `InvR` is preserved by every step of every thread … -/
theorem invR_step (c : Cfg) (hw : WF c) (s s' : St) (t : Tid) (k : Nat) (hi : InvR s)
    (h : tstep c s t k = some s') : InvR s' := by
  have other : ∀ sh' : Sh, FrameE s.sh sh' →
      (RPc.sockClosed s.recv = true → sh'.sock = .closed) ∧
      (sh'.timeout = true → s.recv = .read ∨ RPc.pastLoop s.recv = true) := by
    intro sh' hf
    exact ⟨fun hr => hf.sockc (hi.rsock hr), fun ht => hi.tmo (by rw [← hf.timeout]; exact ht)⟩
  cases t with
  | recv =>
    simp only [tstep] at h
    cases hr : rstep c s.sh k s.recv with
    | none => simp [hr] at h
    | some q => obtain ⟨sh', pc'⟩ := q; simp [hr] at h; subst h; exact invR_recv c hw s sh' pc' k hi hr
  | send =>
    simp only [tstep] at h
    cases hr : sstep c s.sh s.send with
    | none => simp [hr] at h
    | some q =>
      obtain ⟨sh', pc'⟩ := q; simp [hr] at h; subst h
      obtain ⟨a, b⟩ := other sh' (sstep_frameE c hw _ _ _ _ hr)
      exact ⟨a, b⟩
  | proc =>
    simp only [tstep] at h
    cases hr : pstep c s.sh s.proc with
    | none => simp [hr] at h
    | some q =>
      obtain ⟨sh', pc'⟩ := q; simp [hr] at h; subst h
      obtain ⟨a, b⟩ := other sh' (pstep_frameE c hw _ _ _ _ hr).1
      exact ⟨a, b⟩
  | k i =>
    simp only [tstep] at h
    cases hk : s.ks[i]? with
    | none => simp [hk] at h
    | some pc =>
      cases hr : kstep c s.sh (.k i) pc with
      | none => simp [hk, hr] at h
      | some q =>
        obtain ⟨sh', pc'⟩ := q
        simp [hk, hr] at h; subst h
        obtain ⟨a, b⟩ := other sh' (kstep_frameE c hw _ _ _ _ _ hr).1
        exact ⟨a, b⟩
  | w i =>
    simp only [tstep] at h
    cases hk : s.ws[i]? with
    | none => simp [hk] at h
    | some w =>
      cases hr : wstep c s.sh (.w i) w with
      | none => simp [hk, hr] at h
      | some q =>
        obtain ⟨sh', w'⟩ := q
        simp [hk, hr] at h; subst h
        obtain ⟨a, b⟩ := other sh' (wstep_frameE c hw _ _ _ _ _ hr)
        exact ⟨a, b⟩

/-- … and by every environment event (the read deadline fires only on a pending read; the peer
cannot re-open a socket the broker has closed) -/
theorem invR_env (c : Cfg) (hw : WF c) (s s' : St) (e : Env) (hi : InvR s)
    (h : estep c s e = some s') : InvR s' := by
  cases e with
  | peerClose =>
    simp only [estep] at h
    by_cases h1 : s.sh.sock = .open ∨ s.sh.sock = .peerShut <;> simp [h1] at h
    subst h
    refine ⟨?_, hi.tmo⟩
    intro hr; have := hi.rsock hr; rcases h1 with h1 | h1 <;> (rw [h1] at this; cases this)
  | peerShut =>
    simp only [estep] at h
    by_cases h1 : s.sh.sock = .open <;> simp [h1] at h
    subst h
    refine ⟨?_, hi.tmo⟩
    intro hr; have := hi.rsock hr; rw [h1] at this; cases this
  | kaExpire =>
    simp only [estep] at h
    by_cases h1 : s.recv = .read ∧ s.sh.sock = .open
    · rw [if_pos h1] at h; injection h with h; subst h
      exact ⟨hi.rsock, fun _ => Or.inl h1.1⟩
    · rw [if_neg h1] at h; cases h
  | peerReads b => simp [estep] at h; subst h; exact ⟨hi.rsock, hi.tmo⟩
  | extBlock b => simp [estep] at h; subst h; exact ⟨hi.rsock, hi.tmo⟩
  | serverClose i =>
    simp only [estep] at h
    cases hk : s.ks[i]? with
    | none => simp [hk] at h
    | some pc =>
      cases pc <;> simp [hk] at h
      subst h; exact ⟨hi.rsock, hi.tmo⟩
  | preClose =>
    simp only [estep, close_returns c hw.d2] at h
    simp at h; subst h; exact ⟨hi.rsock, hi.tmo⟩

/-! ## The will flag -/

/-- receiver, sender and external writers touch neither the will flag nor the packet stream -/
theorem rstep_will (c : Cfg) (sh sh' : Sh) (k : Nat) (pc pc' : RPc)
    (h : rstep c sh k pc = some (sh', pc')) : sh'.willFlag = sh.willFlag ∧ sh'.stream = sh.stream := by
  cases pc <;> simp only [rstep] at h <;> (repeat' split at h) <;>
    simp [Option.map_eq_some_iff] at h <;>
    first
    | (obtain ⟨rfl, rfl⟩ := h; exact ⟨rfl, rfl⟩)
    | (obtain ⟨_, _, rfl, rfl⟩ := h; exact ⟨rfl, rfl⟩)

theorem sstep_will (c : Cfg) (sh sh' : Sh) (pc pc' : SPc)
    (h : sstep c sh pc = some (sh', pc')) : sh'.willFlag = sh.willFlag ∧ sh'.stream = sh.stream := by
  cases pc <;> simp only [sstep] at h <;> (repeat' split at h) <;>
    simp [Option.map_eq_some_iff] at h <;>
    first
    | (obtain ⟨rfl, rfl⟩ := h; exact ⟨rfl, rfl⟩)
    | (obtain ⟨_, _, rfl, rfl⟩ := h; exact ⟨rfl, rfl⟩)

theorem wstep_will (c : Cfg) (sh sh' : Sh) (me : Tid) (w w' : WTh)
    (h : wstep c sh me w = some (sh', w')) : sh'.willFlag = sh.willFlag ∧ sh'.stream = sh.stream := by
  obtain ⟨pc, len⟩ := w
  cases pc <;> simp only [wstep] at h <;> (repeat' split at h) <;>
    simp [Option.map_eq_some_iff] at h <;>
    first
    | (obtain ⟨rfl, rfl⟩ := h; exact ⟨rfl, rfl⟩)
    | (obtain ⟨_, _, rfl, rfl⟩ := h; exact ⟨rfl, rfl⟩)

theorem kstep_will (c : Cfg) (sh sh' : Sh) (me : Tid) (k k' : KPc)
    (h : kstep c sh me k = some (sh', k')) : sh'.willFlag = sh.willFlag ∧ sh'.stream = sh.stream := by
  cases k with
  | idle => simp [kstep] at h
  | finished => simp [kstep] at h
  | run i =>
    simp only [kstep] at h
    cases hp : c.stopProg[i]? with
    | none => simp [hp] at h; obtain ⟨rfl, rfl⟩ := h; exact ⟨rfl, rfl⟩
    | some op =>
      cases he : execStop c sh me op with
      | none => simp [hp, he] at h
      | some q =>
        obtain ⟨sh1, b⟩ := q
        have hf := execStop_frame c sh sh1 me op b he
        cases b <;> simp [hp, he] at h <;> obtain ⟨rfl, rfl⟩ := h <;> exact ⟨hf.2.2.2.2.2.2.1, hf.2.1⟩

/-- the processor clears the will flag only when it consumes a DISCONNECT -/
theorem pstep_will (c : Cfg) (sh sh' : Sh) (pc pc' : PPc)
    (h : pstep c sh pc = some (sh', pc')) (hn : ∀ p, p ∈ sh.stream → p.kind ≠ .disconnect) :
    sh'.willFlag = sh.willFlag ∧ ∀ p, p ∈ sh'.stream → p.kind ≠ .disconnect := by
  cases pc with
  | stop k =>
    simp only [pstep] at h
    cases hk : kstep c sh .proc k with
    | none => simp [hk] at h
    | some q =>
      obtain ⟨sh1, k1⟩ := q
      simp [hk] at h; obtain ⟨rfl, rfl⟩ := h
      obtain ⟨h1, h2⟩ := kstep_will c _ _ _ _ _ hk
      exact ⟨h1, by rw [h2]; exact hn⟩
  | msg =>
    simp only [pstep] at h
    cases hst : sh.stream with
    | nil => simp [hst] at h; obtain ⟨rfl, rfl⟩ := h; exact ⟨rfl, hn⟩
    | cons p tl =>
      have hp : p.kind ≠ .disconnect := hn p (by rw [hst]; exact List.mem_cons_self ..)
      have hn' : ∀ q, q ∈ p :: tl → q.kind ≠ .disconnect := fun q hq => hn q (by rw [hst]; exact hq)
      cases hs : sh.inR.waitData c p.total with
      | none => simp [hst, hs] at h
      | some q =>
        obtain ⟨ret, r⟩ := q
        cases ret
        · cases hk : p.kind with
          | disconnect => exact absurd hk hp
          | bad => simp [hst, hs, hk] at h; obtain ⟨rfl, rfl⟩ := h; exact ⟨rfl, hn'⟩
          | normal as => simp [hst, hs, hk] at h; obtain ⟨rfl, rfl⟩ := h; exact ⟨rfl, hn'⟩
        · simp [hst, hs] at h; obtain ⟨rfl, rfl⟩ := h; exact ⟨rfl, hn'⟩
        · simp [hst, hs] at h; obtain ⟨rfl, rfl⟩ := h; exact ⟨rfl, hn'⟩
  | commit =>
    simp only [pstep] at h
    cases hst : sh.stream with
    | nil => simp [hst] at h; obtain ⟨rfl, rfl⟩ := h; exact ⟨rfl, hn⟩
    | cons p tl =>
      simp [hst, Option.map_eq_some_iff] at h
      obtain ⟨r, _, rfl, rfl⟩ := h
      exact ⟨rfl, fun q hq => hn q (by rw [hst]; exact List.mem_cons_of_mem _ hq)⟩
  | size =>
    simp only [pstep] at h
    (repeat' split at h) <;> simp at h <;> obtain ⟨rfl, rfl⟩ := h <;> exact ⟨rfl, hn⟩
  | acts as =>
    cases as with
    | nil => simp [pstep] at h; obtain ⟨rfl, rfl⟩ := h; exact ⟨rfl, hn⟩
    | cons a rest =>
      cases a <;> simp only [pstep] at h <;> (repeat' split at h) <;> simp at h <;> obtain ⟨rfl, rfl⟩ := h <;> exact ⟨rfl, hn⟩
  | ownWait l rest =>
    simp only [pstep] at h
    (repeat' split at h) <;> simp at h <;> obtain ⟨rfl, rfl⟩ := h <;> exact ⟨rfl, hn⟩
  | ownCommit l rest =>
    simp only [pstep] at h
    (repeat' split at h) <;> simp at h <;> obtain ⟨rfl, rfl⟩ := h <;> exact ⟨rfl, hn⟩
  | check =>
    simp only [pstep] at h
    (repeat' split at h) <;> simp at h <;> obtain ⟨rfl, rfl⟩ := h <;> exact ⟨rfl, hn⟩
  | wgDone => simp [pstep] at h; obtain ⟨rfl, rfl⟩ := h; exact ⟨rfl, hn⟩

/-- no DISCONNECT among the packets the processor has still to consume -/
def NoDisc (s : St) : Prop := ∀ p, p ∈ s.sh.stream → p.kind ≠ .disconnect

/-- without a DISCONNECT in the stream no thread step changes the will flag -/
theorem noDisc_tstep (c : Cfg) (s s' : St) (t : Tid) (k : Nat) (h : tstep c s t k = some s') (hn : NoDisc s) :
    NoDisc s' ∧ s'.sh.willFlag = s.sh.willFlag := by
  cases t with
  | recv =>
    simp only [tstep] at h
    cases hr : rstep c s.sh k s.recv with
    | none => simp [hr] at h
    | some q =>
      obtain ⟨sh', pc'⟩ := q; simp [hr] at h; subst h
      obtain ⟨h1, h2⟩ := rstep_will c _ _ _ _ _ hr
      exact ⟨by intro p hp; exact hn p (by rw [← h2]; exact hp), h1⟩
  | send =>
    simp only [tstep] at h
    cases hr : sstep c s.sh s.send with
    | none => simp [hr] at h
    | some q =>
      obtain ⟨sh', pc'⟩ := q; simp [hr] at h; subst h
      obtain ⟨h1, h2⟩ := sstep_will c _ _ _ _ hr
      exact ⟨by intro p hp; exact hn p (by rw [← h2]; exact hp), h1⟩
  | proc =>
    simp only [tstep] at h
    cases hr : pstep c s.sh s.proc with
    | none => simp [hr] at h
    | some q =>
      obtain ⟨sh', pc'⟩ := q; simp [hr] at h; subst h
      obtain ⟨h1, h2⟩ := pstep_will c _ _ _ _ hr hn
      exact ⟨h2, h1⟩
  | k i =>
    simp only [tstep] at h
    cases hk : s.ks[i]? with
    | none => simp [hk] at h
    | some pc =>
      cases hr : kstep c s.sh (.k i) pc with
      | none => simp [hk, hr] at h
      | some q =>
        obtain ⟨sh', pc'⟩ := q
        simp [hk, hr] at h; subst h
        obtain ⟨h1, h2⟩ := kstep_will c _ _ _ _ _ hr
        exact ⟨by intro p hp; exact hn p (by rw [← h2]; exact hp), h1⟩
  | w i =>
    simp only [tstep] at h
    cases hk : s.ws[i]? with
    | none => simp [hk] at h
    | some w =>
      cases hr : wstep c s.sh (.w i) w with
      | none => simp [hk, hr] at h
      | some q =>
        obtain ⟨sh', w'⟩ := q
        simp [hk, hr] at h; subst h
        obtain ⟨h1, h2⟩ := wstep_will c _ _ _ _ _ hr
        exact ⟨by intro p hp; exact hn p (by rw [← h2]; exact hp), h1⟩

theorem noDisc_run (c : Cfg) (s : St) (sched : List Label) (hth : ∀ l, l ∈ sched → ∃ t k, l = .th t k)
    (hn : NoDisc s) : NoDisc (run c s sched) ∧ (run c s sched).sh.willFlag = s.sh.willFlag := by
  induction sched generalizing s with
  | nil => exact ⟨hn, rfl⟩
  | cons l ls ih =>
    have hls : ∀ l', l' ∈ ls → ∃ t k, l' = .th t k := fun l' hl' => hth l' (List.mem_cons_of_mem _ hl')
    simp only [run]
    cases h : step c s l with
    | none => exact ih s hls hn
    | some s' =>
      obtain ⟨t, k, rfl⟩ := hth l (List.mem_cons_self ..)
      obtain ⟨h1, h2⟩ := noDisc_tstep c s s' t k h hn
      obtain ⟨i1, i2⟩ := ih s' hls h1
      exact ⟨i1, by rw [i2, h2]⟩

end Mqtt.Proofs.Lifecycle
