/-
Transfer of the abstraction relation `R` across the two kinds of bookkeeping
changes an event on an established connection makes:

* `R_held`: the subscriptions of an in-process callback change (nothing else);
* `R_update`: the session object of one live connection is replaced (same
  reference and client identifier) together with its record in the reference
  broker, and the subscriptions of that connection may change.
-/
import Mqtt.Proofs.BrokerRefinePacket

set_option linter.unusedSimpArgs false

namespace Mqtt.Proofs.BrokerRefine
open Mqtt.Iface.Broker Mqtt.Model.Broker
open Mqtt.Model.Topics (MemTopics RMsg RNode)
open Mqtt.Proofs.Topics (WF RWF abs absR good entryLevels)
open Mqtt.Spec.Match (split validName validFilter topicMatches)
open Mqtt.Proofs.Broker (HeldInv RetInv heldEntry)
open Mqtt.Proofs.BrokerQos (toOpen2)
open Mqtt.Spec.Broker (Accepts SOut)

theorem R_held {b b' : B} {s s' : Spec.Broker.S} (h : R b s)
    (inv' : Mqtt.Proofs.Broker.Inv b') (linv' : Mqtt.Proofs.BrokerLife.Inv b') (qinv' : Mqtt.Proofs.BrokerQos.BInv b')
    (hc : b'.conns = b.conns) (hs : b'.sess = b.sess) (hst : b'.store = b.store)
    (hrr : b'.topics.rroot = b.topics.rroot)
    (hheld : HeldInv b'.topics.sroot s'.held) (hgood : ∀ x ∈ s'.held, good x.filter = true)
    (hown : ∀ x ∈ s'.held, x.owner < cbBase → b.alive x.owner = true)
    (hlive : ∀ c, b.alive c = true → Spec.Broker.heldOf s' c = Spec.Broker.heldOf s c)
    (hrets : s'.rets = s.rets) (hstored : s'.stored = s.stored) (hconns : s'.conns = s.conns)
    : R b' s' := by
  have hal : ∀ c, b'.alive c = b.alive c := Mqtt.Proofs.Broker.alive_congr b b' hc
  refine ⟨inv', linv', qinv', hheld, hgood, ?_, by rw [hrr, hrets]; exact h.rets,
    by rw [hrets]; exact h.retsOk, by unfold IdsOk; rw [hrr]; exact h.retIds, ?_, by rw [hc]; exact h.mconns, by rw [hconns]; exact h.sconns,
    ?_, ?_, ?_, ?_⟩
  · intro x hx hlt; rw [hal]; exact hown x hx hlt
  · intro c hc'; rw [hal] at hc'; exact h.connLt c hc'
  · intro c; rw [hal, spec_getConn_congr hconns]; exact h.connsIff c
  · intro c σ hl
    rw [liveSess_congr hc hs] at hl
    obtain ⟨k, hk, hrel⟩ := h.live c σ hl
    exact ⟨k, by rw [spec_getConn_congr hconns]; exact hk, hrel.congr hst (hlive c (liveSess_alive hl))⟩
  · intro c c' σ σ' h1 h2
    rw [liveSess_congr hc hs] at h1 h2
    exact h.cidUniq c c' σ σ' h1 h2
  · intro x hx hfree
    refine (h.stored x hx ?_).congr (resumable_congr hst hs x) (by rw [hstored])
    intro c σ hl
    exact hfree c σ (by rw [liveSess_congr hc hs]; exact hl)

/-! ### the reference broker's connection table -/

theorem spec_getConn_setConn_self (s : Spec.Broker.S) (k : Spec.Broker.Conn) :
    Spec.Broker.getConn (Spec.Broker.setConn s k) k.id = some k :=
  Mqtt.Proofs.BrokerQos.spec_getConn_setConn s k

theorem spec_getConn_setConn_ne (s : Spec.Broker.S) (k : Spec.Broker.Conn) (c : Nat) (h : c ≠ k.id) :
    Spec.Broker.getConn (Spec.Broker.setConn s k) c = Spec.Broker.getConn s c := by
  unfold Spec.Broker.getConn Spec.Broker.setConn
  simp only [List.find?_append]
  have h1 : (s.conns.filter (fun (x : Spec.Broker.Conn) => x.id != k.id)).find? (fun x => x.id == c) =
      s.conns.find? (fun x => x.id == c) := by
    induction s.conns with
    | nil => rfl
    | cons x xs ih =>
      rw [List.filter_cons]
      by_cases hx : x.id = k.id
      · have hxc : (x.id == c) = false := by
          rw [beq_eq_false_iff_ne]; intro e; exact h (e.symm.trans hx)
        have hxk : (x.id != k.id) = false := by simp [hx]
        simp only [hxk, Bool.false_eq_true, ↓reduceIte, List.find?_cons, hxc]
        exact ih
      · have : (x.id != k.id) = true := by simpa using hx
        simp only [this, ↓reduceIte, List.find?_cons, ih]
  rw [h1]
  have hk : (k.id == c) = false := by rw [beq_eq_false_iff_ne]; exact fun e => h e.symm
  cases s.conns.find? (fun x => x.id == c) <;> simp [hk]

theorem spec_setConn_nodup (s : Spec.Broker.S) (k : Spec.Broker.Conn) (h : (s.conns.map (·.id)).Nodup) :
    ((Spec.Broker.setConn s k).conns.map (·.id)).Nodup := by
  unfold Spec.Broker.setConn
  simp only [List.map_append, List.map_cons, List.map_nil]
  rw [List.nodup_append]
  refine ⟨?_, by simp, ?_⟩
  · exact (h.sublist ((List.filter_sublist).map _))
  · intro a ha b hb
    simp only [List.mem_singleton] at hb
    subst hb
    simp only [List.mem_map, List.mem_filter, bne_iff_ne, ne_eq] at ha
    obtain ⟨x, ⟨_, hx⟩, rfl⟩ := ha
    exact hx

theorem spec_getConn_setConn_if (s : Spec.Broker.S) (k' : Spec.Broker.Conn) (c : Nat) (hkid : k'.id = c) (c' : Nat) :
    Spec.Broker.getConn (Spec.Broker.setConn s k') c' = if c' = c then some k' else Spec.Broker.getConn s c' := by
  by_cases he : c' = c
  · subst he; simp only [↓reduceIte]; rw [← hkid]; exact spec_getConn_setConn_self s k'
  · simp only [he, ↓reduceIte]; exact spec_getConn_setConn_ne s k' c' (by rw [hkid]; exact he)

/-! ### replacing the session object of a live connection -/

section update
variable {b b' : B} {s s' : Spec.Broker.S} {c : Nat} {σ σ' : Sess}

theorem getSess_update (hs : b'.sess = (b.setSess σ').sess) (r : Nat) :
    b'.getSess r = if r = σ'.ref then some σ' else b.getSess r := by
  rw [Mqtt.Proofs.Broker.getSess_congr (b.setSess σ') b' hs]
  by_cases hr : r = σ'.ref
  · subst hr; simp [Mqtt.Proofs.BrokerLife.getSess_setSess]
  · simp [hr, Mqtt.Proofs.BrokerLife.getSess_setSess_ne b σ' r hr]

theorem liveSess_update (h : R b s) (hl : liveSess b c = some σ)
    (hc : b'.conns = b.conns) (hs : b'.sess = (b.setSess σ').sess) (href : σ'.ref = σ.ref) (c' : Nat) :
    liveSess b' c' = if c' = c then some σ' else liveSess b c' := by
  obtain ⟨cn, hcn, ha, hsσ⟩ := liveSess_some hl
  have hcnref : cn.sess = σ.ref := (Mqtt.Proofs.BrokerLife.getSess_ref hsσ).symm
  have hgc : b'.getConn c' = b.getConn c' := by unfold B.getConn; rw [hc]
  unfold liveSess
  rw [hgc]
  cases hc' : b.getConn c' with
  | none =>
    by_cases he : c' = c
    · subst he; rw [hcn] at hc'; cases hc'
    · simp [he]
  | some cn' =>
    simp only
    cases ha' : cn'.alive with
    | false =>
      by_cases he : c' = c
      · subst he; rw [hcn] at hc'; cases hc'; rw [ha] at ha'; cases ha'
      · simp [he]
    | true =>
      simp only [↓reduceIte]
      rw [getSess_update hs]
      by_cases hr : cn'.sess = σ'.ref
      · have hl' : liveSess b c' = some σ := by
          refine liveSess_eq hc' ha' ?_
          rw [hr, href, ← hcnref]; exact hsσ
        have : c' = c := h.cidUniq c' c σ σ hl' hl rfl
        simp [hr, this]
      · have hne : c' ≠ c := by
          intro he; subst he; rw [hcn] at hc'; cases hc'
          exact hr (by rw [href]; exact hcnref)
        simp [hr, hne]

theorem R_update (h : R b s) {k k' : Spec.Broker.Conn}
    (hl : liveSess b c = some σ) (hk : Spec.Broker.getConn s c = some k)
    (inv' : Mqtt.Proofs.Broker.Inv b') (linv' : Mqtt.Proofs.BrokerLife.Inv b') (qinv' : Mqtt.Proofs.BrokerQos.BInv b')
    (hc : b'.conns = b.conns) (hst : b'.store = b.store) (hs : b'.sess = (b.setSess σ').sess)
    (href : σ'.ref = σ.ref) (hcid : σ'.cid = σ.cid)
    (hrr : b'.topics.rroot = b.topics.rroot)
    (hheld : HeldInv b'.topics.sroot s'.held) (hgood : ∀ x ∈ s'.held, good x.filter = true)
    (hown : ∀ x ∈ s'.held, x.owner < cbBase → b.alive x.owner = true)
    (hother : ∀ c', c' ≠ c → Spec.Broker.heldOf s' c' = Spec.Broker.heldOf s c')
    (hrets : s'.rets = s.rets) (hstored : s'.stored = s.stored)
    (hnd : (s'.conns.map (·.id)).Nodup)
    (hgc : ∀ c', Spec.Broker.getConn s' c' = if c' = c then some k' else Spec.Broker.getConn s c')
    (hrel : LiveRel b' s' c σ' k') : R b' s' := by
  have hal : ∀ c, b'.alive c = b.alive c := Mqtt.Proofs.Broker.alive_congr b b' hc
  have hlu := liveSess_update h hl hc hs href
  -- client identifiers of live sessions are those of `b`
  have hback : ∀ c' τ, liveSess b' c' = some τ → ∃ τ0, liveSess b c' = some τ0 ∧ τ0.cid = τ.cid := by
    intro c' τ ht
    rw [hlu] at ht
    by_cases he : c' = c
    · subst he; simp only [↓reduceIte, Option.some.injEq] at ht; subst ht
      exact ⟨σ, hl, hcid.symm⟩
    · simp only [he, ↓reduceIte] at ht; exact ⟨τ, ht, rfl⟩
  refine ⟨inv', linv', qinv', hheld, hgood, ?_, by rw [hrr, hrets]; exact h.rets,
    by rw [hrets]; exact h.retsOk, by unfold IdsOk; rw [hrr]; exact h.retIds, ?_, by rw [hc]; exact h.mconns, ?_, ?_, ?_, ?_, ?_⟩
  · intro x hx hlt; rw [hal]; exact hown x hx hlt
  · intro c' hc'; rw [hal] at hc'; exact h.connLt c' hc'
  · exact hnd
  · intro c'
    rw [hal, hgc]
    by_cases he : c' = c
    · subst he; simp only [↓reduceIte, Option.isSome_some]; exact (liveSess_alive hl).symm
    · simp only [he, ↓reduceIte]; exact h.connsIff c'
  · intro c' τ ht
    rw [hlu] at ht
    rw [hgc]
    by_cases he : c' = c
    · subst he
      simp only [↓reduceIte, Option.some.injEq] at ht ⊢
      subst ht
      exact ⟨k', rfl, hrel⟩
    · simp only [he, ↓reduceIte] at ht ⊢
      obtain ⟨k0, hk0, hrel0⟩ := h.live c' τ ht
      exact ⟨k0, hk0, hrel0.congr hst (hother c' he)⟩
  · intro c1 c2 τ1 τ2 h1 h2 hcids
    obtain ⟨t1, l1, e1⟩ := hback c1 τ1 h1
    obtain ⟨t2, l2, e2⟩ := hback c2 τ2 h2
    exact h.cidUniq c1 c2 t1 t2 l1 l2 (by rw [e1, e2, hcids])
  · intro x hx hfree
    have hfree0 : ∀ c' τ, liveSess b c' = some τ → τ.cid ≠ x := by
      intro c' τ ht
      by_cases he : c' = c
      · subst he
        rw [hl] at ht; cases ht
        have := hfree c' σ' (by rw [hlu]; simp)
        rw [hcid] at this; exact this
      · exact hfree c' τ (by rw [hlu]; simp [he, ht])
    refine (h.stored x hx hfree0).congr ?_ (by rw [hstored])
    unfold resumable
    rw [storeGet_congr hst]
    cases hg : b.storeGet x with
    | none => rfl
    | some r =>
      simp only [Option.bind_some]
      rw [getSess_update hs]
      by_cases hr : r = σ'.ref
      · exfalso
        obtain ⟨t, ht, htc⟩ := h.linv.store (x, r) (Mqtt.Proofs.BrokerLife.mem_of_lookup (by exact hg))
        simp only at ht htc
        rw [hr, href, liveSess_ref hl] at ht
        cases ht
        exact hfree0 c σ hl htc
      · simp [hr]

end update

end Mqtt.Proofs.BrokerRefine
