/-
The subscription trie of the broker state stays well-formed (`WF`, unique map
keys) under every event, and `resubscribe` puts every subscribable entry of a
session's topic list into the trie for the new connection.  Uses the C06 trie
lemmas (`Proofs/TopicsStore.lean`).  Helper lemmas for C10.
-/
import Mqtt.Proofs.BrokerLifeSession
import Mqtt.Proofs.TopicsStore
import Mqtt.Proofs.TopicsLevels

namespace Mqtt.Proofs.BrokerLife
open Mqtt.Iface.Broker Mqtt.Model.Broker
open Mqtt.Model.Topics
open Mqtt.Proofs.Topics (WF abs Entry hit subHit sinsertL_WF sinsertL_abs sinsertL_abs_false sremoveL_WF WF_empty
  entryLevels)

/-! ### the trie operations on `MemTopics` -/

/-- the QoS `Subscribe` stores -/
def grant (mq q : Nat) : Nat := if q > mq then mq else q

theorem subscribe_sroot (mt : MemTopics) (mq : Nat) (t : List UInt8) (q c : Nat) :
    (mt.subscribe mq t q c).1.sroot =
      if validQos q then mt.sroot.sinsertL (entryLevels t).1 (entryLevels t).2 c (grant mq q) else mt.sroot := by
  rw [Mqtt.Proofs.Topics.subscribe_entry]
  unfold grant
  cases validQos q <;> rfl

theorem subscribe_WF (mt : MemTopics) (mq : Nat) (t : List UInt8) (q c : Nat) (h : WF mt.sroot) :
    WF (mt.subscribe mq t q c).1.sroot := by
  rw [subscribe_sroot]
  split
  · exact sinsertL_WF _ _ _ _ _ h
  · exact h

theorem unsubscribe_WF (mt : MemTopics) (t : List UInt8) (sub : Option Nat) (h : WF mt.sroot) :
    WF (mt.unsubscribe t sub).1.sroot := by
  rw [Mqtt.Proofs.Topics.unsubscribe_entry]
  exact sremoveL_WF _ _ _ _ h

theorem retain_sroot (mt : MemTopics) (m : RMsg) : (mt.retain m).1.sroot = mt.sroot := by
  rw [Mqtt.Proofs.Topics.retain_entry]
  split <;> rfl

/-- a successful `Subscribe` leaves its entry in the trie -/
theorem mem_abs_subscribe_new (mt : MemTopics) (mq : Nat) (t : List UInt8) (q c : Nat) (h : WF mt.sroot)
    (hq : validQos q = true) (hl : (entryLevels t).2 = true) :
    ((entryLevels t).1, c, grant mq q) ∈ abs (mt.subscribe mq t q c).1.sroot := by
  rw [subscribe_sroot, hq, hl]
  simp only [↓reduceIte]
  exact (sinsertL_abs _ _ _ _ h).mem_iff.mpr (by simp)

/-- any `Subscribe` keeps every entry of another path or another subscriber -/
theorem mem_abs_subscribe_keep (mt : MemTopics) (mq : Nat) (t : List UInt8) (q c : Nat) (h : WF mt.sroot)
    (e : Entry) (he : e ∈ abs mt.sroot) (hne : e.1 ≠ (entryLevels t).1 ∨ e.2.1 ≠ c) :
    e ∈ abs (mt.subscribe mq t q c).1.sroot := by
  rw [subscribe_sroot]
  split
  · cases hl : (entryLevels t).2 with
    | false => exact (sinsertL_abs_false _ _ _ _ h).mem_iff.mpr he
    | true =>
      refine (sinsertL_abs _ _ _ _ h).mem_iff.mpr ?_
      rw [List.mem_append]
      left
      rw [List.mem_filter]
      refine ⟨he, ?_⟩
      simp only [hit, subHit, Bool.not_eq_true', Bool.and_eq_false_iff, beq_eq_false_iff_ne]
      exact hne
  · exact he

/-! ### `resubscribe` -/

theorem resubscribe_WF (c : Nat) (l : List (Bytes × Nat)) : ∀ ts : MemTopics, WF ts.sroot →
    WF (resubscribe ts c l).sroot := by
  induction l with
  | nil => intro ts h; exact h
  | cons x xs ih =>
    intro ts h
    obtain ⟨t, q⟩ := x
    simp only [resubscribe]
    exact ih _ (subscribe_WF ts _ t q c h)

theorem resubscribe_keeps (c : Nat) (l : List (Bytes × Nat)) : ∀ ts : MemTopics, WF ts.sroot →
    ∀ e : Entry, e ∈ abs ts.sroot → (∀ p ∈ l, e.1 ≠ (entryLevels p.1).1 ∨ e.2.1 ≠ c) →
    e ∈ abs (resubscribe ts c l).sroot := by
  induction l with
  | nil => intro ts _ e he _; exact he
  | cons x xs ih =>
    intro ts h e he hne
    obtain ⟨t, q⟩ := x
    simp only [resubscribe]
    refine ih _ (subscribe_WF ts _ t q c h) e ?_ (fun p hp => hne p (List.mem_cons_of_mem _ hp))
    exact mem_abs_subscribe_keep ts _ t q c h e he (hne (t, q) (by simp))

/-- entries of the list the store accepts (`Subscribe` would not return an error:
QoS ≤ 2, the filter does not begin with '$' and its level walk succeeds -
`(entryLevels t).2 = (!checkSys t && (levels t).2)`, `Proofs.Topics.entryLevels_snd`) -/
def subscribable (p : Bytes × Nat) : Prop := validQos p.2 = true ∧ (entryLevels p.1).2 = true

/-- After `resubscribe`, every subscribable entry `(filter, qos)` of the list
whose path is not addressed again later in the list is held in the trie for
`c`, at the granted QoS. -/
theorem resubscribe_holds (c : Nat) (l : List (Bytes × Nat)) : ∀ ts : MemTopics, WF ts.sroot →
    l.Pairwise (fun p p' => (entryLevels p.1).1 ≠ (entryLevels p'.1).1) →
    ∀ p ∈ l, subscribable p →
      ((entryLevels p.1).1, c, grant Generated.maxQosAllowed p.2) ∈ abs (resubscribe ts c l).sroot := by
  induction l with
  | nil => intro ts _ _ p hp; simp at hp
  | cons x xs ih =>
    intro ts h hpw p hp hs
    obtain ⟨t, q⟩ := x
    rw [List.pairwise_cons] at hpw
    simp only [resubscribe]
    have hwf := subscribe_WF ts Generated.maxQosAllowed t q c h
    rcases List.mem_cons.mp hp with rfl | hp'
    · refine resubscribe_keeps c xs _ hwf _ (mem_abs_subscribe_new ts _ t q c h hs.1 hs.2) ?_
      intro p' hp'
      exact .inl (hpw.1 p' hp')
    · exact ih _ hwf hpw.2 p hp' hs

/-! ### well-formedness of the broker's trie is kept by every event -/

def TrieWF (b : B) : Prop := WF b.topics.sroot

theorem trieWF_init : TrieWF {} := WF_empty

theorem unsubAll_WF (c : Nat) (l : List (Bytes × Nat)) : ∀ ts : MemTopics, WF ts.sroot →
    WF (unsubAll ts c l).sroot := by
  induction l with
  | nil => intro ts h; exact h
  | cons x xs ih =>
    intro ts h
    obtain ⟨t, q⟩ := x
    simp only [unsubAll]
    exact ih _ (unsubscribe_WF ts t _ h)

theorem deliverConn_topics (b : B) (d : Nat) (m : Msg) : (deliverConn b d m).1.topics = b.topics := by
  unfold deliverConn
  dsimp only
  split
  · rfl
  · split <;> rfl

theorem fanout_topics (subs : List (Nat × Nat)) : ∀ (b : B) (m : Msg), (fanout b m subs).1.topics = b.topics := by
  induction subs with
  | nil => intro b m; rfl
  | cons x xs ih =>
    intro b m
    obtain ⟨s, eqos⟩ := x
    simp only [fanout]
    split
    · rw [ih, deliverConn_topics]
    · rw [ih]

theorem retainStep_sroot (b : B) (m : Msg) : (retainStep b m).1.topics.sroot = b.topics.sroot := by
  unfold retainStep
  split
  · rfl
  · split
    · exact retain_sroot _ _
    · split
      · exact retain_sroot _ _
      · split
        · rfl
        · exact retain_sroot _ _

theorem onPublish_sroot (b : B) (m : Msg) : (onPublish b m).1.topics.sroot = b.topics.sroot := by
  unfold onPublish
  dsimp only
  split
  · exact retainStep_sroot b m
  · show (fanout (retainStep b m).1 _ _).1.topics.sroot = _
    rw [fanout_topics]; exact retainStep_sroot b m

theorem releaseAll_sroot (l : List QEntry) : ∀ b : B, (releaseAll b l).1.topics.sroot = b.topics.sroot := by
  induction l with
  | nil => intro b; rfl
  | cons e es ih =>
    intro b
    simp only [releaseAll]
    rw [ih, onPublish_sroot]

theorem sendRetained_topics (c : Nat) (l : List Msg) : ∀ b : B, (sendRetained b c l).1.topics = b.topics := by
  induction l with
  | nil => intro b; rfl
  | cons m ms ih =>
    intro b
    simp only [sendRetained]
    split
    · rfl
    · split
      · rfl
      · rw [ih]

theorem subscribeLoop_WF (c : Nat) (l : List (Bytes × Nat)) :
    ∀ (b : B) (s : Sess) (codes : List Nat) (rms : List Msg), TrieWF b →
      TrieWF (subscribeLoop b c s l codes rms).1 := by
  induction l with
  | nil => intro b s codes rms h; exact h
  | cons x xs ih =>
    intro b s codes rms h
    obtain ⟨t, q⟩ := x
    simp only [subscribeLoop]
    have hw := subscribe_WF b.topics Generated.maxQosAllowed t q c h
    split
    · rename_i ts heq
      refine ih _ _ _ _ ?_
      show WF ts.sroot
      rw [show ts = (b.topics.subscribe Generated.maxQosAllowed t q c).1 by rw [heq]]
      exact hw
    · rename_i ts rq heq
      refine ih _ _ _ _ ?_
      show WF ts.sroot
      rw [show ts = (b.topics.subscribe Generated.maxQosAllowed t q c).1 by rw [heq]]
      exact hw

theorem foldl_unsub_WF (c : Nat) (l : List Bytes) : ∀ ts : MemTopics, WF ts.sroot →
    WF (l.foldl (fun ts t => (ts.unsubscribe t (some c)).1) ts).sroot := by
  induction l with
  | nil => intro ts h; exact h
  | cons t ts' ih => intro ts h; exact ih _ (unsubscribe_WF ts t _ h)

theorem trieWF_stop {b : B} (h : TrieWF b) (c : Nat) : TrieWF (stop b c).1 := by
  cases hal : b.alive c with
  | false => rw [stop_dead b c hal]; exact h
  | true =>
    obtain ⟨cn, hc, ha⟩ := (alive_true_iff b c).mp hal
    cases hs : b.getSess cn.sess with
    | none => rw [stop_live_nosess b c cn hc ha hs]; exact h
    | some s =>
      rw [stop_live b c cn s hc ha hs]
      have hb : TrieWF (stopBase b c s) := unsubAll_WF c s.topics b.topics h
      split
      · split
        · exact hb
        · rename_i w hw
          have h2 : WF (onPublish (stopBase b c s) w).1.topics.sroot := by rw [onPublish_sroot]; exact hb
          dsimp only
          split <;> exact h2
      · dsimp only
        split <;> exact hb

theorem trieWF_accepted {b : B} (h : TrieWF b) (c : Nat) (req : Connect) : TrieWF (accepted b c req).1 := by
  unfold accepted
  cases resumed b c req with
  | some s => exact resubscribe_WF c s.topics b.topics h
  | none => exact h

theorem trieWF_first {b : B} (h : TrieWF b) (c : Nat) (f : First) (a : Bool) : TrieWF (first b c f a).1 := by
  cases hacc : accepts f a with
  | false =>
    rcases first_refused b c f a hacc with h1 | ⟨k, _, h1⟩ <;> rw [h1] <;> exact h
  | true =>
    cases f with
    | garbage => simp [accepts] at hacc
    | other t => simp [accepts] at hacc
    | connect req => rw [first_accepted b c req a hacc]; exact trieWF_accepted h c req

theorem trieWF_packet {b : B} (h : TrieWF b) (c : Nat) (p : Packet) : TrieWF (packet b c p).1 := by
  cases hal : b.alive c with
  | false => rw [packet_dead b c p hal]; exact h
  | true =>
    obtain ⟨cn, hc, ha⟩ := (alive_true_iff b c).mp hal
    cases hs : b.getSess cn.sess with
    | none => unfold packet; simp only [hc, ha, hs]; exact h
    | some s =>
      cases p with
      | publish pub =>
        unfold packet
        simp only [hc, ha, hs, Bool.not_true, Bool.false_eq_true, ↓reduceIte]
        split
        · exact h
        · split
          · show WF (onPublish b _).1.topics.sroot; rw [onPublish_sroot]; exact h
          · show WF (onPublish b _).1.topics.sroot; rw [onPublish_sroot]; exact h
      | pubrel id =>
        unfold packet
        simp only [hc, ha, hs, Bool.not_true, Bool.false_eq_true, ↓reduceIte]
        show WF (releaseAll _ _).1.topics.sroot
        rw [releaseAll_sroot]; exact h
      | subscribe id topics =>
        unfold packet
        simp only [hc, ha, hs, Bool.not_true, Bool.false_eq_true, ↓reduceIte]
        show WF (sendRetained _ _ _).1.topics.sroot
        rw [sendRetained_topics]
        exact subscribeLoop_WF c topics b s [] [] h
      | unsubscribe id topics =>
        unfold packet
        simp only [hc, ha, hs, Bool.not_true, Bool.false_eq_true, ↓reduceIte]
        exact foldl_unsub_WF c topics b.topics h
      | disconnect =>
        rw [packet_disconnect_eq b c cn s hc ha hs]
        exact trieWF_stop (b := b.setSess { s with willFlag := false }) h c
      | connack sp code => unfold packet; simp only [hc, ha, hs]; exact h
      | puback id => unfold packet; simp only [hc, ha, hs]; exact h
      | pubrec id => unfold packet; simp only [hc, ha, hs]; exact h
      | pubcomp id => unfold packet; simp only [hc, ha, hs]; exact h
      | suback id codes => unfold packet; simp only [hc, ha, hs]; exact h
      | unsuback id => unfold packet; simp only [hc, ha, hs]; exact h
      | pingreq => unfold packet; simp only [hc, ha, hs]; exact h
      | pingresp => unfold packet; simp only [hc, ha, hs]; exact h
      | connectAgain => unfold packet; simp only [hc, ha, hs]; exact h

theorem trieWF_step {b : B} (h : TrieWF b) (e : Ev) : TrieWF (step b e).1 := by
  cases e with
  | first c f a =>
    exact Mqtt.Proofs.Connect.connect_state TrieWF (fun b c h => trieWF_stop h c) (fun b c f a h => trieWF_first h c f a) b c f a h
  | packet c p => exact trieWF_packet h c p
  | close c => exact trieWF_stop h c
  | srvPub p =>
    show WF (srvPub b p).1.topics.sroot
    unfold srvPub
    rw [onPublish_sroot]; exact h
  | srvSub cb f q =>
    show WF (srvSub b cb f q).1.topics.sroot
    have hw := subscribe_WF b.topics Generated.maxQosAllowed f q cb h
    unfold srvSub
    split
    · rename_i ts heq
      show WF ts.sroot
      rw [show ts = (b.topics.subscribe Generated.maxQosAllowed f q cb).1 by rw [heq]]; exact hw
    · rename_i ts rq heq
      show WF ts.sroot
      rw [show ts = (b.topics.subscribe Generated.maxQosAllowed f q cb).1 by rw [heq]]; exact hw
  | srvUnsub cb f => exact unsubscribe_WF b.topics f _ h

theorem trieWF_run (evs : List Ev) : ∀ {b : B}, TrieWF b → TrieWF (run b evs).1 := by
  induction evs with
  | nil => intro b h; exact h
  | cons e es ih => intro b h; simp only [run]; exact ih (trieWF_step h e)

theorem trieWF_reachable (evs : List Ev) : TrieWF (run {} evs).1 := trieWF_run evs trieWF_init

end Mqtt.Proofs.BrokerLife
