/-
Core B, subscription trie: `sinsertL` / `sremoveL` preserve `WF` and commute
with `abs` up to permutation (store refinement on level lists).  Helper
lemmas only.
-/
import Mqtt.Proofs.TopicsAbs

set_option linter.unusedSimpArgs false

namespace Mqtt.Proofs.Topics
open Mqtt.Model.Topics

/-- close a permutation goal between `++`-combinations of the same pieces -/
macro "perm_ac" : tactic =>
  `(tactic| (rw [List.perm_iff_count]; intro _x; simp only [List.count_append, List.count_nil, List.count_cons]; omega))

theorem flatMap_congr' {α β} (l : List α) (f g : α → List β) (h : ∀ a ∈ l, f a = g a) :
    l.flatMap f = l.flatMap g := by
  induction l with
  | nil => rfl
  | cons a rest ih =>
    rw [List.flatMap_cons, List.flatMap_cons, h a (by simp), ih (fun b hb => h b (by simp [hb]))]

/-! ### association lists with unique keys -/

section kids
variable {α : Type}

theorem kidGet_none_iff (kids : List (Level × α)) (l : Level) :
    kidGet kids l = none ↔ l ∉ kids.map (·.1) := by
  unfold kidGet
  rw [List.lookup_eq_none_iff]
  constructor
  · intro h hm
    obtain ⟨p, hp, rfl⟩ := List.mem_map.mp hm
    have := h p hp
    simp at this
  · intro h p hp
    have : p.1 ≠ l := fun e => h (e ▸ List.mem_map_of_mem hp)
    simpa using Ne.symm this

theorem kidGet_cons (kids : List (Level × α)) (a l : Level) (c : α) :
    kidGet ((a, c) :: kids) l = if l == a then some c else kidGet kids l := by
  unfold kidGet
  rw [List.lookup_cons]
  cases l == a <;> rfl

theorem kidGet_some_mem (kids : List (Level × α)) (l : Level) (c : α) (h : kidGet kids l = some c) :
    (l, c) ∈ kids := by
  induction kids with
  | nil => simp [kidGet] at h
  | cons p rest ih =>
    obtain ⟨a, d⟩ := p
    rw [kidGet_cons] at h
    by_cases e : l = a
    · subst e; simp at h; subst h; simp
    · have : (l == a) = false := by simp [e]
      rw [this] at h
      simp [ih h]

theorem kidGet_unique (kids : List (Level × α)) (l : Level) (c d : α) (hu : (kids.map (·.1)).Nodup)
    (h1 : (l, c) ∈ kids) (h2 : (l, d) ∈ kids) : c = d := by
  induction kids with
  | nil => simp at h1
  | cons p rest ih =>
    obtain ⟨a, x⟩ := p
    simp only [List.map_cons, List.nodup_cons] at hu
    simp only [List.mem_cons, Prod.mk.injEq] at h1 h2
    rcases h1 with ⟨e1, e1'⟩ | h1
    · rcases h2 with ⟨_, e2'⟩ | h2
      · rw [e1', e2']
      · exact absurd (e1 ▸ List.mem_map_of_mem (f := (·.1)) h2) hu.1
    · rcases h2 with ⟨e2, _⟩ | h2
      · exact absurd (e2 ▸ List.mem_map_of_mem (f := (·.1)) h1) hu.1
      · exact ih hu.2 h1 h2

theorem kidDel_cons (kids : List (Level × α)) (a l : Level) (c : α) :
    kidDel ((a, c) :: kids) l = if a == l then kidDel kids l else (a, c) :: kidDel kids l := by
  unfold kidDel
  rw [List.filter_cons]
  cases h : a == l <;> simp [bne, h]

theorem mem_kidDel (kids : List (Level × α)) (l : Level) (p : Level × α) :
    p ∈ kidDel kids l ↔ p ∈ kids ∧ p.1 ≠ l := by
  simp [kidDel]

theorem kidDel_of_not_mem (kids : List (Level × α)) (l : Level) (h : l ∉ kids.map (·.1)) :
    kidDel kids l = kids := by
  unfold kidDel
  rw [List.filter_eq_self]
  intro p hp
  have : p.1 ≠ l := fun e => h (e ▸ List.mem_map_of_mem hp)
  simpa using this

theorem kidDel_keys_sublist (kids : List (Level × α)) (l : Level) :
    ((kidDel kids l).map (·.1)).Sublist (kids.map (·.1)) :=
  List.Sublist.map _ List.filter_sublist

theorem kidDel_nodup (kids : List (Level × α)) (l : Level) (h : (kids.map (·.1)).Nodup) :
    ((kidDel kids l).map (·.1)).Nodup :=
  List.Nodup.sublist (kidDel_keys_sublist kids l) h

theorem not_mem_kidDel_keys (kids : List (Level × α)) (l : Level) : l ∉ (kidDel kids l).map (·.1) := by
  intro h
  obtain ⟨p, hp, e⟩ := List.mem_map.mp h
  exact ((mem_kidDel kids l p).mp hp).2 e

/-- the in-place replacement `kidSet` performs when the key is present -/
def kidRepl (kids : List (Level × α)) (l : Level) (v : α) : List (Level × α) :=
  kids.map (fun p => if p.1 == l then (l, v) else p)

theorem kidSet_of_mem (kids : List (Level × α)) (l : Level) (v : α) (h : l ∈ kids.map (·.1)) :
    kidSet kids l v = kidRepl kids l v := by
  have : (kids.lookup l).isSome = true := by
    cases hk : kids.lookup l with
    | some c => rfl
    | none => exact absurd h ((kidGet_none_iff kids l).mp hk)
  simp [kidSet, this, kidRepl]

theorem kidSet_of_not_mem (kids : List (Level × α)) (l : Level) (v : α) (h : l ∉ kids.map (·.1)) :
    kidSet kids l v = kids ++ [(l, v)] := by
  have : kids.lookup l = none := (kidGet_none_iff kids l).mpr h
  simp [kidSet, this]

theorem kidRepl_of_not_mem (kids : List (Level × α)) (l : Level) (v : α) (h : l ∉ kids.map (·.1)) :
    kidRepl kids l v = kids := by
  unfold kidRepl
  conv => rhs; rw [← List.map_id kids]
  apply List.map_congr_left
  intro p hp
  have : p.1 ≠ l := fun e => h (e ▸ List.mem_map_of_mem hp)
  simp [this]

theorem kidRepl_keys (kids : List (Level × α)) (l : Level) (v : α) :
    (kidRepl kids l v).map (·.1) = kids.map (·.1) := by
  unfold kidRepl
  rw [List.map_map]
  apply List.map_congr_left
  intro p _
  by_cases h : p.1 = l
  · simp [h]
  · simp [h]

theorem kidSet_nodup (kids : List (Level × α)) (l : Level) (v : α) (h : (kids.map (·.1)).Nodup) :
    ((kidSet kids l v).map (·.1)).Nodup := by
  by_cases hm : l ∈ kids.map (·.1)
  · rw [kidSet_of_mem kids l v hm, kidRepl_keys]; exact h
  · rw [kidSet_of_not_mem kids l v hm, List.map_append, List.nodup_append]
    refine ⟨h, by simp, ?_⟩
    intro a ha b hb
    simp only [List.map_cons, List.map_nil, List.mem_singleton] at hb
    subst hb
    exact fun e => hm (e ▸ ha)

theorem mem_kidSet (kids : List (Level × α)) (l : Level) (v : α) (p : Level × α)
    (hp : p ∈ kidSet kids l v) : p ∈ kids ∨ p = (l, v) := by
  by_cases hm : l ∈ kids.map (·.1)
  · rw [kidSet_of_mem kids l v hm] at hp
    obtain ⟨p', hp', e⟩ := List.mem_map.mp hp
    by_cases h : p'.1 == l
    · simp only [h, ↓reduceIte] at e; exact Or.inr e.symm
    · simp only [h] at e; exact Or.inl (e ▸ hp')
  · rw [kidSet_of_not_mem kids l v hm] at hp
    simpa using hp

theorem kidSet_ne_nil (kids : List (Level × α)) (l : Level) (v : α) : kidSet kids l v ≠ [] := by
  by_cases hm : l ∈ kids.map (·.1)
  · rw [kidSet_of_mem kids l v hm]
    intro e
    simp only [kidRepl, List.map_eq_nil_iff] at e
    subst e; simp at hm
  · rw [kidSet_of_not_mem kids l v hm]; simp

variable {β : Type} [DecidableEq β]

/-- with unique keys: all entries = the entries of the child at `l` (if any) + those of the other children -/
theorem flatMap_split (kids : List (Level × α)) (l : Level) (F : Level × α → List β)
    (hu : (kids.map (·.1)).Nodup) :
    (kids.flatMap F).Perm
      ((match kidGet kids l with | some c => F (l, c) | none => []) ++ (kidDel kids l).flatMap F) := by
  induction kids with
  | nil => simp [kidGet, kidDel]
  | cons p rest ih =>
    obtain ⟨a, c⟩ := p
    simp only [List.map_cons, List.nodup_cons] at hu
    rw [kidGet_cons, kidDel_cons, List.flatMap_cons]
    by_cases h : a = l
    · subst h
      simp only [beq_self_eq_true, ↓reduceIte]
      rw [kidDel_of_not_mem rest a hu.1]
    · have h1 : (a == l) = false := by simp [h]
      have h2 : (l == a) = false := by simp [Ne.symm h]
      simp only [h1, h2, Bool.false_eq_true, ↓reduceIte, List.flatMap_cons]
      have := ih hu.2
      refine (List.Perm.append_left (F (a, c)) this).trans ?_
      perm_ac

theorem flatMap_kidRepl (kids : List (Level × α)) (l : Level) (v : α) (F : Level × α → List β)
    (hu : (kids.map (·.1)).Nodup) (hm : l ∈ kids.map (·.1)) :
    ((kidRepl kids l v).flatMap F).Perm (F (l, v) ++ (kidDel kids l).flatMap F) := by
  induction kids with
  | nil => simp at hm
  | cons p rest ih =>
    obtain ⟨a, c⟩ := p
    simp only [List.map_cons, List.nodup_cons] at hu
    rw [kidDel_cons]
    simp only [kidRepl, List.map_cons, List.flatMap_cons]
    by_cases h : a = l
    · subst h
      simp only [beq_self_eq_true, ↓reduceIte]
      have := kidRepl_of_not_mem rest a v hu.1
      simp only [kidRepl] at this
      rw [this, kidDel_of_not_mem rest a hu.1]
    · have h1 : (a == l) = false := by simp [h]
      simp only [h1, Bool.false_eq_true, ↓reduceIte, List.flatMap_cons]
      have hm' : l ∈ rest.map (·.1) := by
        simp only [List.map_cons, List.mem_cons] at hm
        rcases hm with e | hm
        · exact absurd e.symm h
        · exact hm
      have := ih hu.2 hm'
      simp only [kidRepl] at this
      refine (List.Perm.append_left (F (a, c)) this).trans ?_
      perm_ac

/-- with unique keys: after `kidSet` the entries are those of the new child + those of the other children -/
theorem flatMap_kidSet (kids : List (Level × α)) (l : Level) (v : α) (F : Level × α → List β)
    (hu : (kids.map (·.1)).Nodup) :
    ((kidSet kids l v).flatMap F).Perm (F (l, v) ++ (kidDel kids l).flatMap F) := by
  by_cases hm : l ∈ kids.map (·.1)
  · rw [kidSet_of_mem kids l v hm]; exact flatMap_kidRepl kids l v F hu hm
  · rw [kidSet_of_not_mem kids l v hm, kidDel_of_not_mem kids l hm, List.flatMap_append]
    simp only [List.flatMap_cons, List.flatMap_nil, List.append_nil]
    exact List.perm_append_comm

end kids

/-! ### leaf updates -/

theorem subsRepl_perm (subs : List (Nat × Nat)) (s q : Nat) (hu : (subs.map (·.1)).Nodup)
    (hm : s ∈ subs.map (·.1)) :
    (subs.map (fun p => if p.1 == s then (s, q) else p)).Perm (subs.filter (fun p => p.1 != s) ++ [(s, q)]) := by
  induction subs with
  | nil => simp at hm
  | cons p rest ih =>
    obtain ⟨a, b⟩ := p
    simp only [List.map_cons, List.nodup_cons] at hu
    by_cases h : a = s
    · subst h
      have h1 : rest.map (fun p => if p.1 == a then (a, q) else p) = rest := by
        conv => rhs; rw [← List.map_id rest]
        apply List.map_congr_left
        intro p hp
        have : p.1 ≠ a := fun e => hu.1 (e ▸ List.mem_map_of_mem hp)
        simp [this]
      have h2 : rest.filter (fun p => p.1 != a) = rest := by
        rw [List.filter_eq_self]
        intro p hp
        have : p.1 ≠ a := fun e => hu.1 (e ▸ List.mem_map_of_mem hp)
        simpa using this
      simp only [List.map_cons, beq_self_eq_true, ↓reduceIte, List.filter_cons, bne_self_eq_false,
        Bool.false_eq_true, h1, h2]
      exact (List.perm_append_comm (l₁ := [(a, q)]) (l₂ := rest))
    · have h1 : (a == s) = false := by simp [h]
      have hm' : s ∈ rest.map (·.1) := by
        simp only [List.map_cons, List.mem_cons] at hm
        rcases hm with e | hm
        · exact absurd e.symm h
        · exact hm
      simp only [List.map_cons, h1, Bool.false_eq_true, ↓reduceIte, List.filter_cons, bne, Bool.not_false]
      exact List.Perm.cons _ (by simpa [bne] using ih hu.2 hm')

theorem subsInsert_perm (subs : List (Nat × Nat)) (s q : Nat) (hu : (subs.map (·.1)).Nodup) :
    (subsInsert subs s q).Perm (subs.filter (fun p => p.1 != s) ++ [(s, q)]) := by
  unfold subsInsert
  by_cases h : subs.any (fun p => p.1 == s) = true
  · simp only [h, ↓reduceIte]
    apply subsRepl_perm subs s q hu
    obtain ⟨p, hp, e⟩ := List.any_eq_true.mp h
    have : p.1 = s := by simpa using e
    exact this ▸ List.mem_map_of_mem hp
  · simp only [h, Bool.false_eq_true, ↓reduceIte]
    have : subs.filter (fun p => p.1 != s) = subs := by
      rw [List.filter_eq_self]
      intro p hp
      have : p.1 ≠ s := by
        intro e; apply h; rw [List.any_eq_true]; exact ⟨p, hp, by simp [e]⟩
      simpa using this
    rw [this]

theorem eraseP_eq_filter (subs : List (Nat × Nat)) (s : Nat) (hu : (subs.map (·.1)).Nodup) :
    subs.eraseP (fun p => p.1 == s) = subs.filter (fun p => p.1 != s) := by
  induction subs with
  | nil => rfl
  | cons p rest ih =>
    obtain ⟨a, b⟩ := p
    simp only [List.map_cons, List.nodup_cons] at hu
    rw [List.eraseP_cons, List.filter_cons]
    by_cases h : a = s
    · subst h
      have h2 : rest.filter (fun p => p.1 != a) = rest := by
        rw [List.filter_eq_self]
        intro p hp
        have : p.1 ≠ a := fun e => hu.1 (e ▸ List.mem_map_of_mem hp)
        simpa using this
      simp [h2]
    · have h1 : (a == s) = false := by simp [h]
      simp [h1, bne, ih hu.2]

/-- which subscribers a removal addresses: `none` = all of them -/
def subHit (sub : Option Nat) (s : Nat) : Bool :=
  match sub with
  | none => true
  | some x => s == x

theorem subsRemove_fst (subs : List (Nat × Nat)) (sub : Option Nat) (hu : (subs.map (·.1)).Nodup) :
    (subsRemove subs sub).1 = subs.filter (fun p => !subHit sub p.1) := by
  cases sub with
  | none => simp [subsRemove, subHit]
  | some s =>
    unfold subsRemove
    by_cases h : subs.any (fun p => p.1 == s) = true
    · simp only [h, ↓reduceIte, subHit]
      rw [eraseP_eq_filter subs s hu]
      apply List.filter_congr; intro p _; simp [bne]
    · simp only [h, Bool.false_eq_true, ↓reduceIte, subHit]
      symm
      rw [List.filter_eq_self]
      intro p hp
      have : p.1 ≠ s := by
        intro e; apply h; rw [List.any_eq_true]; exact ⟨p, hp, by simp [e]⟩
      simpa using this

theorem subsRemove_snd (subs : List (Nat × Nat)) (s : Nat) :
    (subsRemove subs (some s)).2 = subs.any (fun p => p.1 == s) := by
  unfold subsRemove
  by_cases h : subs.any (fun p => p.1 == s) = true
  · simp [h]
  · simp only [h, Bool.false_eq_true, ↓reduceIte]

theorem subsRemove_false (subs : List (Nat × Nat)) (sub : Option Nat)
    (h : (subsRemove subs sub).2 = false) : (subsRemove subs sub).1 = subs := by
  cases sub with
  | none => simp [subsRemove] at h
  | some s =>
    unfold subsRemove at h ⊢
    by_cases h' : subs.any (fun p => p.1 == s) = true
    · simp [h'] at h
    · simp [h']

/-! ### entries addressed by an operation -/

/-- does the entry belong to path `ls` and the addressed subscriber(s)? -/
def hit (ls : List Level) (sub : Option Nat) (e : Entry) : Bool := e.1 == ls && subHit sub e.2.1

theorem filter_subs_cons (subs : List (Nat × Nat)) (l : Level) (ls : List Level) (sub : Option Nat) :
    (subs.map (fun p => (([] : List Level), p.1, p.2))).filter (fun e => !hit (l :: ls) sub e) =
      subs.map (fun p => (([] : List Level), p.1, p.2)) := by
  rw [List.filter_eq_self]
  intro e he
  obtain ⟨p, _, rfl⟩ := List.mem_map.mp he
  simp [hit]

theorem filter_subs_nil (subs : List (Nat × Nat)) (sub : Option Nat) :
    (subs.map (fun p => (([] : List Level), p.1, p.2))).filter (fun e => !hit [] sub e) =
      (subs.filter (fun p => !subHit sub p.1)).map (fun p => (([] : List Level), p.1, p.2)) := by
  rw [List.filter_map]
  congr 1

theorem absKid_path_ne_nil (p : Level × SNode) (e : Entry) (he : e ∈ absKid p) : e.1 ≠ [] := by
  obtain ⟨e', _, rfl⟩ := List.mem_map.mp he
  simp

theorem filter_kids_nil (kids : List (Level × SNode)) (sub : Option Nat) :
    (kids.flatMap absKid).filter (fun e => !hit [] sub e) = kids.flatMap absKid := by
  rw [List.filter_eq_self]
  intro e he
  obtain ⟨p, _, hp⟩ := List.mem_flatMap.mp he
  have := absKid_path_ne_nil p e hp
  simp [hit, this]

theorem filter_absKid (p : Level × SNode) (l : Level) (ls : List Level) (sub : Option Nat) :
    (absKid p).filter (fun e => !hit (l :: ls) sub e) =
      if p.1 == l then ((abs p.2).filter (fun e => !hit ls sub e)).map (fun e => (p.1 :: e.1, e.2))
      else absKid p := by
  by_cases h : p.1 = l
  · simp only [h, beq_self_eq_true, ↓reduceIte, absKid]
    rw [List.filter_map]
    congr 1
    apply List.filter_congr
    intro e _
    simp [hit]
  · have h1 : (p.1 == l) = false := by simp [h]
    simp only [h1, Bool.false_eq_true, ↓reduceIte]
    rw [List.filter_eq_self]
    intro e he
    obtain ⟨e', _, rfl⟩ := List.mem_map.mp he
    simp [hit, h]

theorem filter_kidDel (kids : List (Level × SNode)) (l : Level) (ls : List Level) (sub : Option Nat) :
    ((kidDel kids l).flatMap absKid).filter (fun e => !hit (l :: ls) sub e) = (kidDel kids l).flatMap absKid := by
  rw [List.filter_flatMap]
  apply flatMap_congr'
  intro p hp
  have := ((mem_kidDel kids l p).mp hp).2
  rw [filter_absKid]
  simp [this]

/-- the entries of a node, split at the child `l`, after removing what (`l :: ls`, `sub`) addresses -/
theorem filter_abs_cons (subs : List (Nat × Nat)) (kids : List (Level × SNode)) (l : Level) (ls : List Level)
    (sub : Option Nat) (hu : (kids.map (·.1)).Nodup) :
    ((abs (.mk subs kids)).filter (fun e => !hit (l :: ls) sub e)).Perm
      (subs.map (fun p => (([] : List Level), p.1, p.2)) ++
        ((((abs ((kidGet kids l).getD SNode.empty)).filter (fun e => !hit ls sub e)).map (fun e => (l :: e.1, e.2))) ++
          (kidDel kids l).flatMap absKid)) := by
  rw [abs_mk, List.filter_append, filter_subs_cons]
  apply List.Perm.append_left
  refine ((flatMap_split kids l absKid hu).filter _).trans ?_
  rw [List.filter_append, filter_kidDel]
  apply List.Perm.append_right
  cases hk : kidGet kids l with
  | none => simp [abs_empty]
  | some c =>
    simp only [Option.getD_some]
    rw [filter_absKid]
    simp

theorem abs_kidSet (subs : List (Nat × Nat)) (kids : List (Level × SNode)) (l : Level) (c : SNode)
    (hu : (kids.map (·.1)).Nodup) :
    (abs (.mk subs (kidSet kids l c))).Perm
      (subs.map (fun p => (([] : List Level), p.1, p.2)) ++
        ((abs c).map (fun e => (l :: e.1, e.2)) ++ (kidDel kids l).flatMap absKid)) := by
  rw [abs_mk]
  apply List.Perm.append_left
  exact flatMap_kidSet kids l c absKid hu

theorem abs_kidDel (subs : List (Nat × Nat)) (kids : List (Level × SNode)) (l : Level) :
    abs (.mk subs (kidDel kids l)) =
      subs.map (fun p => (([] : List Level), p.1, p.2)) ++ (kidDel kids l).flatMap absKid := abs_mk _ _

/-! ### `sinsertL` -/

theorem WF_getD (kids : List (Level × SNode)) (l : Level) (h : ∀ p ∈ kids, WF p.2) :
    WF ((kidGet kids l).getD SNode.empty) := by
  cases hk : kidGet kids l with
  | none => exact WF_empty
  | some c => exact h _ (kidGet_some_mem kids l c hk)

theorem sinsertL_WF (ls : List Level) (ok : Bool) (s q : Nat) :
    ∀ n, WF n → WF (SNode.sinsertL ls ok s q n) := by
  induction ls with
  | nil =>
    intro n h
    obtain ⟨subs, kids⟩ := n
    rw [WF_mk] at h
    cases ok
    · simpa [SNode.sinsertL, WF_mk] using h
    · simp only [SNode.sinsertL, ↓reduceIte, WF_mk]
      exact ⟨(subsInsert_spec subs s q h.1).2.1, h.2⟩
  | cons l ls ih =>
    intro n h
    obtain ⟨subs, kids⟩ := n
    rw [WF_mk] at h
    simp only [SNode.sinsertL, WF_mk]
    refine ⟨h.1, kidSet_nodup kids l _ h.2.1, ?_⟩
    intro p hp
    rcases mem_kidSet kids l _ p hp with hp | hp
    · exact h.2.2 p hp
    · subst hp; exact ih _ (WF_getD kids l h.2.2)

/-- inserting (path, s, q) replaces the entry of (path, s) or adds it, and changes nothing else -/
theorem sinsertL_abs (ls : List Level) (s q : Nat) :
    ∀ n, WF n → (abs (SNode.sinsertL ls true s q n)).Perm
      ((abs n).filter (fun e => !hit ls (some s) e) ++ [(ls, s, q)]) := by
  induction ls with
  | nil =>
    intro n h
    obtain ⟨subs, kids⟩ := n
    rw [WF_mk] at h
    simp only [SNode.sinsertL, ↓reduceIte]
    rw [abs_mk, abs_mk, List.filter_append, filter_subs_nil, filter_kids_nil]
    have h1 := (subsInsert_perm subs s q h.1).map (fun p => (([] : List Level), p.1, p.2))
    have h2 : subs.filter (fun p => !subHit (some s) p.1) = subs.filter (fun p => p.1 != s) := by
      apply List.filter_congr; intro p _; simp [subHit, bne]
    rw [h2]
    refine (List.Perm.append_right _ h1).trans ?_
    rw [List.map_append]
    simp only [List.map_cons, List.map_nil]
    perm_ac
  | cons l ls ih =>
    intro n h
    obtain ⟨subs, kids⟩ := n
    rw [WF_mk] at h
    simp only [SNode.sinsertL]
    refine (abs_kidSet subs kids l _ h.2.1).trans ?_
    refine List.Perm.trans ?_ (List.Perm.append_right _ (filter_abs_cons subs kids l ls (some s) h.2.1).symm)
    have := (ih _ (WF_getD kids l h.2.2)).map (fun e => (l :: e.1, e.2))
    refine (List.Perm.append_left _ (List.Perm.append_right _ this)).trans ?_
    rw [List.map_append]
    simp only [List.map_cons, List.map_nil]
    perm_ac

/-- a failed walk leaves the entries as they are (the nodes created on the way hold nothing) -/
theorem sinsertL_abs_false (ls : List Level) (s q : Nat) :
    ∀ n, WF n → (abs (SNode.sinsertL ls false s q n)).Perm (abs n) := by
  induction ls with
  | nil => intro n _; obtain ⟨subs, kids⟩ := n; simp [SNode.sinsertL]
  | cons l ls ih =>
    intro n h
    obtain ⟨subs, kids⟩ := n
    rw [WF_mk] at h
    simp only [SNode.sinsertL]
    refine (abs_kidSet subs kids l _ h.2.1).trans ?_
    rw [abs_mk]
    apply List.Perm.append_left
    refine List.Perm.trans ?_ (flatMap_split kids l absKid h.2.1).symm
    apply List.Perm.append_right
    have := (ih _ (WF_getD kids l h.2.2)).map (fun e => (l :: e.1, e.2))
    refine this.trans ?_
    cases hk : kidGet kids l with
    | none => simp [abs_empty]
    | some c => simp [absKid]

/-! ### `sremoveL` -/

theorem sremoveL_nil (ok : Bool) (sub : Option Nat) (subs : List (Nat × Nat)) (kids : List (Level × SNode)) :
    SNode.sremoveL [] ok sub (.mk subs kids) =
      if ok then (.mk (subsRemove subs sub).1 kids, (subsRemove subs sub).2) else (.mk subs kids, false) := by
  simp only [SNode.sremoveL]

theorem sremoveL_cons_none (l : Level) (ls : List Level) (ok : Bool) (sub : Option Nat)
    (subs : List (Nat × Nat)) (kids : List (Level × SNode)) (hk : kidGet kids l = none) :
    SNode.sremoveL (l :: ls) ok sub (.mk subs kids) = (.mk subs kids, false) := by
  simp only [SNode.sremoveL, hk]

theorem sremoveL_cons_some (l : Level) (ls : List Level) (ok : Bool) (sub : Option Nat)
    (subs : List (Nat × Nat)) (kids : List (Level × SNode)) (c : SNode) (hk : kidGet kids l = some c) :
    SNode.sremoveL (l :: ls) ok sub (.mk subs kids) =
      if !(SNode.sremoveL ls ok sub c).2 then (.mk subs (kidSet kids l (SNode.sremoveL ls ok sub c).1), false)
      else if (SNode.sremoveL ls ok sub c).1.subs.isEmpty && (SNode.sremoveL ls ok sub c).1.kids.isEmpty then
        (.mk subs (kidDel kids l), true)
      else (.mk subs (kidSet kids l (SNode.sremoveL ls ok sub c).1), true) := by
  simp only [SNode.sremoveL, hk]

theorem abs_of_isEmpty (n : SNode) (h : (n.subs.isEmpty && n.kids.isEmpty) = true) : abs n = [] := by
  obtain ⟨subs, kids⟩ := n
  simp only [SNode.subs, SNode.kids, Bool.and_eq_true, List.isEmpty_iff] at h
  simp [abs_mk, h.1, h.2]

theorem sremoveL_WF (ls : List Level) (ok : Bool) (sub : Option Nat) :
    ∀ n, WF n → WF (SNode.sremoveL ls ok sub n).1 := by
  induction ls with
  | nil =>
    intro n h
    obtain ⟨subs, kids⟩ := n
    rw [sremoveL_nil]
    cases ok
    · exact h
    · rw [WF_mk] at h
      simp only [↓reduceIte, WF_mk]
      rw [subsRemove_fst subs sub h.1]
      exact ⟨List.Nodup.sublist (List.Sublist.map _ List.filter_sublist) h.1, h.2⟩
  | cons l ls ih =>
    intro n h
    obtain ⟨subs, kids⟩ := n
    cases hk : kidGet kids l with
    | none => rw [sremoveL_cons_none l ls ok sub subs kids hk]; exact h
    | some c =>
      rw [sremoveL_cons_some l ls ok sub subs kids c hk]
      rw [WF_mk] at h
      have hc : WF c := h.2.2 _ (kidGet_some_mem kids l c hk)
      have hset : WF (.mk subs (kidSet kids l (SNode.sremoveL ls ok sub c).1)) := by
        rw [WF_mk]
        refine ⟨h.1, kidSet_nodup kids l _ h.2.1, ?_⟩
        intro p hp
        rcases mem_kidSet kids l _ p hp with hp | hp
        · exact h.2.2 p hp
        · subst hp; exact ih c hc
      have hdel : WF (.mk subs (kidDel kids l)) := by
        rw [WF_mk]
        exact ⟨h.1, kidDel_nodup kids l h.2.1, fun p hp => h.2.2 p ((mem_kidDel kids l p).mp hp).1⟩
      split
      · exact hset
      · split
        · exact hdel
        · exact hset

/-- what the node looks like after the removal below child `l`, in all three branches -/
theorem sremoveL_cons_abs (l : Level) (ls : List Level) (ok : Bool) (sub : Option Nat)
    (subs : List (Nat × Nat)) (kids : List (Level × SNode)) (c : SNode) (hk : kidGet kids l = some c)
    (hu : (kids.map (·.1)).Nodup) :
    (abs (SNode.sremoveL (l :: ls) ok sub (.mk subs kids)).1).Perm
      (subs.map (fun p => (([] : List Level), p.1, p.2)) ++
        ((abs (SNode.sremoveL ls ok sub c).1).map (fun e => (l :: e.1, e.2)) ++ (kidDel kids l).flatMap absKid)) := by
  rw [sremoveL_cons_some l ls ok sub subs kids c hk]
  split
  · exact abs_kidSet subs kids l _ hu
  · split
    · rename_i _ he
      rw [abs_kidDel, abs_of_isEmpty _ he]
      simp
    · exact abs_kidSet subs kids l _ hu

/-- removing deletes exactly the addressed entries and leaves all others -/
theorem sremoveL_abs (ls : List Level) (sub : Option Nat) :
    ∀ n, WF n → (abs (SNode.sremoveL ls true sub n).1).Perm ((abs n).filter (fun e => !hit ls sub e)) := by
  induction ls with
  | nil =>
    intro n h
    obtain ⟨subs, kids⟩ := n
    rw [WF_mk] at h
    rw [sremoveL_nil]
    simp only [↓reduceIte]
    rw [abs_mk, abs_mk, List.filter_append, filter_subs_nil, filter_kids_nil, subsRemove_fst subs sub h.1]
  | cons l ls ih =>
    intro n h
    obtain ⟨subs, kids⟩ := n
    rw [WF_mk] at h
    cases hk : kidGet kids l with
    | none =>
      rw [sremoveL_cons_none l ls true sub subs kids hk]
      refine List.Perm.trans ?_ (filter_abs_cons subs kids l ls sub h.2.1).symm
      rw [hk, abs_mk, kidDel_of_not_mem kids l ((kidGet_none_iff kids l).mp hk)]
      simp [abs_empty]
    | some c =>
      refine (sremoveL_cons_abs l ls true sub subs kids c hk h.2.1).trans ?_
      refine List.Perm.trans ?_ (filter_abs_cons subs kids l ls sub h.2.1).symm
      rw [hk]
      simp only [Option.getD_some]
      have := (ih c (h.2.2 _ (kidGet_some_mem kids l c hk))).map (fun e => (l :: e.1, e.2))
      exact List.Perm.append_left _ (List.Perm.append_right _ this)

theorem sremoveL_false_snd (ls : List Level) (sub : Option Nat) :
    ∀ n, (SNode.sremoveL ls false sub n).2 = false := by
  induction ls with
  | nil => intro n; obtain ⟨subs, kids⟩ := n; simp [sremoveL_nil]
  | cons l ls ih =>
    intro n
    obtain ⟨subs, kids⟩ := n
    cases hk : kidGet kids l with
    | none => rw [sremoveL_cons_none l ls false sub subs kids hk]
    | some c => rw [sremoveL_cons_some l ls false sub subs kids c hk]; simp [ih c]

/-- the addressed entry exists iff the call reports success -/
theorem sremoveL_snd (ls : List Level) (s : Nat) :
    ∀ n, WF n → (SNode.sremoveL ls true (some s) n).2 = (abs n).any (hit ls (some s)) := by
  induction ls with
  | nil =>
    intro n _
    obtain ⟨subs, kids⟩ := n
    rw [sremoveL_nil]
    simp only [↓reduceIte]
    rw [subsRemove_snd, abs_mk, List.any_append]
    have h2 : (kids.flatMap absKid).any (hit [] (some s)) = false := by
      rw [List.any_eq_false]
      intro e he
      obtain ⟨p, _, hp⟩ := List.mem_flatMap.mp he
      have := absKid_path_ne_nil p e hp
      simp [hit, this]
    rw [h2, Bool.or_false, List.any_map]
    congr 1
  | cons l ls ih =>
    intro n h
    obtain ⟨subs, kids⟩ := n
    rw [WF_mk] at h
    have hsubs : (subs.map (fun p => (([] : List Level), p.1, p.2))).any (hit (l :: ls) (some s)) = false := by
      rw [List.any_eq_false]
      intro e he
      obtain ⟨p, _, rfl⟩ := List.mem_map.mp he
      simp [hit]
    have hdel : ((kidDel kids l).flatMap absKid).any (hit (l :: ls) (some s)) = false := by
      rw [List.any_eq_false]
      intro e he
      obtain ⟨p, hp, hp2⟩ := List.mem_flatMap.mp he
      obtain ⟨e', _, rfl⟩ := List.mem_map.mp hp2
      have := ((mem_kidDel kids l p).mp hp).2
      simp [hit, this]
    have hperm := (flatMap_split kids l absKid h.2.1)
    rw [abs_mk, List.any_append, hsubs, Bool.false_or, hperm.any_eq, List.any_append, hdel, Bool.or_false]
    cases hk : kidGet kids l with
    | none => rw [sremoveL_cons_none l ls true (some s) subs kids hk]; simp
    | some c =>
      rw [sremoveL_cons_some l ls true (some s) subs kids c hk]
      have hc := ih c (h.2.2 _ (kidGet_some_mem kids l c hk))
      have : (absKid (l, c)).any (hit (l :: ls) (some s)) = (abs c).any (hit ls (some s)) := by
        simp only [absKid, List.any_map]
        congr 1
        funext e
        simp [hit]
      simp only [this, ← hc]
      cases (SNode.sremoveL ls true (some s) c).2 <;> simp
      split <;> rfl

/-- a removal that reports failure changed nothing -/
theorem sremoveL_false_eq (ls : List Level) (ok : Bool) (sub : Option Nat) :
    ∀ n, WF n → (SNode.sremoveL ls ok sub n).2 = false → (SNode.sremoveL ls ok sub n).1 = n := by
  induction ls with
  | nil =>
    intro n _ hr
    obtain ⟨subs, kids⟩ := n
    rw [sremoveL_nil] at hr ⊢
    cases ok
    · rfl
    · simp only [↓reduceIte] at hr ⊢
      rw [subsRemove_false subs sub hr]
  | cons l ls ih =>
    intro n h hr
    obtain ⟨subs, kids⟩ := n
    rw [WF_mk] at h
    cases hk : kidGet kids l with
    | none => rw [sremoveL_cons_none l ls ok sub subs kids hk]
    | some c =>
      rw [sremoveL_cons_some l ls ok sub subs kids c hk] at hr ⊢
      have hc := h.2.2 _ (kidGet_some_mem kids l c hk)
      cases hr' : (SNode.sremoveL ls ok sub c).2 with
      | true =>
        rw [hr'] at hr
        simp only [Bool.not_true, Bool.false_eq_true, ↓reduceIte] at hr
        split at hr <;> simp at hr
      | false =>
        simp only [Bool.not_false, ↓reduceIte]
        rw [ih c hc hr']
        have hm : l ∈ kids.map (·.1) := by
          have := kidGet_some_mem kids l c hk
          exact List.mem_map_of_mem (f := (·.1)) this
        rw [kidSet_of_mem kids l c hm]
        congr 1
        unfold kidRepl
        conv => rhs; rw [← List.map_id kids]
        apply List.map_congr_left
        intro p hp
        by_cases e : p.1 = l
        · -- unique keys: `p` is the child found by `kidGet`
          have hpc : p = (l, c) := by
            have h1 := kidGet_some_mem kids l c hk
            obtain ⟨a, d⟩ := p
            simp only at e; subst e
            have := kidGet_unique kids a d c h.2.1 hp h1
            rw [this]
          simp [hpc]
        · simp [e]

theorem sremoveL_abs_false (ls : List Level) (sub : Option Nat) (n : SNode) (h : WF n) :
    (SNode.sremoveL ls false sub n).1 = n :=
  sremoveL_false_eq ls false sub n h (sremoveL_false_snd ls sub n)

/-! ### pruning invariant: no childless, subscriber-less node below the root -/

def isVoid (n : SNode) : Bool := n.subs.isEmpty && n.kids.isEmpty

mutual
  def Pruned : SNode → Prop
    | .mk _ kids => PrunedKids kids
  def PrunedKids : List (Level × SNode) → Prop
    | [] => True
    | (_, n) :: rest => (isVoid n = false ∧ Pruned n) ∧ PrunedKids rest
end

theorem PrunedKids_iff (kids : List (Level × SNode)) :
    PrunedKids kids ↔ ∀ p ∈ kids, isVoid p.2 = false ∧ Pruned p.2 := by
  induction kids with
  | nil => simp [PrunedKids]
  | cons p rest ih => obtain ⟨k, n⟩ := p; simp [PrunedKids, ih]

theorem Pruned_mk (subs : List (Nat × Nat)) (kids : List (Level × SNode)) :
    Pruned (.mk subs kids) ↔ ∀ p ∈ kids, isVoid p.2 = false ∧ Pruned p.2 := by
  rw [Pruned, PrunedKids_iff]

theorem Pruned_empty : Pruned SNode.empty := by simp [SNode.empty, Pruned_mk]

theorem subsInsert_ne_nil (subs : List (Nat × Nat)) (s q : Nat) : subsInsert subs s q ≠ [] := by
  unfold subsInsert
  split
  · rename_i h
    intro e
    simp only [List.map_eq_nil_iff] at e
    subst e; simp at h
  · simp

theorem sinsertL_not_void (ls : List Level) (s q : Nat) (n : SNode) :
    isVoid (SNode.sinsertL ls true s q n) = false := by
  obtain ⟨subs, kids⟩ := n
  cases ls with
  | nil =>
    have := subsInsert_ne_nil subs s q
    simp [SNode.sinsertL, isVoid, SNode.subs, this]
  | cons l ls =>
    have := kidSet_ne_nil kids l (SNode.sinsertL ls true s q ((kidGet kids l).getD SNode.empty))
    simp [SNode.sinsertL, isVoid, SNode.kids, this]

theorem sinsertL_Pruned (ls : List Level) (s q : Nat) :
    ∀ n, Pruned n → Pruned (SNode.sinsertL ls true s q n) := by
  induction ls with
  | nil => intro n h; obtain ⟨subs, kids⟩ := n; simpa [SNode.sinsertL, Pruned_mk] using h
  | cons l ls ih =>
    intro n h
    obtain ⟨subs, kids⟩ := n
    rw [Pruned_mk] at h
    simp only [SNode.sinsertL, Pruned_mk]
    intro p hp
    rcases mem_kidSet kids l _ p hp with hp | hp
    · exact h p hp
    · subst hp
      refine ⟨sinsertL_not_void _ _ _ _, ih _ ?_⟩
      cases hk : kidGet kids l with
      | none => exact Pruned_empty
      | some c => exact (h _ (kidGet_some_mem kids l c hk)).2

theorem sremoveL_Pruned (ls : List Level) (ok : Bool) (sub : Option Nat) :
    ∀ n, WF n → Pruned n → Pruned (SNode.sremoveL ls ok sub n).1 := by
  induction ls with
  | nil =>
    intro n _ h
    obtain ⟨subs, kids⟩ := n
    rw [sremoveL_nil]
    cases ok
    · exact h
    · simpa [Pruned_mk] using h
  | cons l ls ih =>
    intro n hwf h
    obtain ⟨subs, kids⟩ := n
    cases hk : kidGet kids l with
    | none => rw [sremoveL_cons_none l ls ok sub subs kids hk]; exact h
    | some c =>
      rw [sremoveL_cons_some l ls ok sub subs kids c hk]
      rw [WF_mk] at hwf
      rw [Pruned_mk] at h
      have hc := hwf.2.2 _ (kidGet_some_mem kids l c hk)
      have hpc := h _ (kidGet_some_mem kids l c hk)
      have hdel : Pruned (.mk subs (kidDel kids l)) := by
        rw [Pruned_mk]; exact fun p hp => h p ((mem_kidDel kids l p).mp hp).1
      have hset : isVoid (SNode.sremoveL ls ok sub c).1 = false →
          Pruned (.mk subs (kidSet kids l (SNode.sremoveL ls ok sub c).1)) := by
        intro hv
        rw [Pruned_mk]
        intro p hp
        rcases mem_kidSet kids l _ p hp with hp | hp
        · exact h p hp
        · subst hp; exact ⟨hv, ih c hc hpc.2⟩
      split
      · rename_i hr
        have hr' : (SNode.sremoveL ls ok sub c).2 = false := by simpa using hr
        apply hset
        rw [sremoveL_false_eq ls ok sub c hc hr']; exact hpc.1
      · split
        · exact hdel
        · rename_i hv
          apply hset
          simpa [isVoid] using hv

end Mqtt.Proofs.Topics
