/-
`handleConnection` = `takeOver` (disconnect the existing connections of the
client, MQTT-3.1.4-2) followed by `first` (getSession … CONNACK): induction
principles that carry state invariants and output predicates of `stop` and
`first` over to `connect`, the step of a `first` event.
-/
import Mqtt.Model.Broker

namespace Mqtt.Proofs.Connect
open Mqtt.Iface.Broker Mqtt.Model.Broker

theorem connect_eq (b : B) (c : Nat) (f : First) (a : Bool) :
    connect b c f a = ((first (takeOver b f a).1 c f a).1, (takeOver b f a).2 ++ (first (takeOver b f a).1 c f a).2) := rfl

theorem step_first_eq (b : B) (c : Nat) (f : First) (a : Bool) : step b (.first c f a) = connect b c f a := rfl

theorem stopAll_nil (b : B) : stopAll b [] = (b, []) := rfl

theorem stopAll_cons (b : B) (c : Nat) (cs : List Nat) :
    stopAll b (c :: cs) = ((stopAll (stop b c).1 cs).1, (stop b c).2 ++ (stopAll (stop b c).1 cs).2) := rfl

/-- what `takeOver` does: nothing, or `stopAll` of the client's live connections -/
theorem takeOver_cases (b : B) (f : First) (a : Bool) :
    takeOver b f a = (b, []) ∨
    ∃ req, f = .connect req ∧ connectDecode req = .inr true ∧ a = true ∧ req.clientId.isEmpty = false ∧
      takeOver b f a = stopAll b (sameClient b req.clientId) := by
  cases f with
  | garbage => exact .inl rfl
  | other t => exact .inl rfl
  | connect req =>
    unfold takeOver
    cases hd : connectDecode req with
    | inl k => left; simp [hd]
    | inr ok =>
      cases ok with
      | false => left; simp [hd]
      | true =>
        cases a with
        | false => left; simp [hd]
        | true =>
          cases he : req.clientId.isEmpty with
          | true => left; simp [hd, he]
          | false => exact .inr ⟨req, rfl, hd, rfl, he, by simp [he, hd]⟩

theorem stopAll_state (P : B → Prop) (hstop : ∀ b c, P b → P (stop b c).1) :
    ∀ (cs : List Nat) (b : B), P b → P (stopAll b cs).1 := by
  intro cs
  induction cs with
  | nil => intro b h; exact h
  | cons c cs ih => intro b h; rw [stopAll_cons]; exact ih _ (hstop b c h)

theorem stopAll_out (Q : Out → Prop) (hstop : ∀ b c, ∀ o ∈ (stop b c).2, Q o) :
    ∀ (cs : List Nat) (b : B), ∀ o ∈ (stopAll b cs).2, Q o := by
  intro cs
  induction cs with
  | nil => intro b o ho; cases ho
  | cons c cs ih =>
    intro b o ho
    rw [stopAll_cons] at ho
    rcases List.mem_append.mp ho with h | h
    · exact hstop b c o h
    · exact ih _ o h

theorem takeOver_state (P : B → Prop) (hstop : ∀ b c, P b → P (stop b c).1) (b : B) (f : First) (a : Bool)
    (h : P b) : P (takeOver b f a).1 := by
  rcases takeOver_cases b f a with h0 | ⟨req, _, _, _, _, h1⟩
  · rw [h0]; exact h
  · rw [h1]; exact stopAll_state P hstop _ b h

theorem takeOver_out (Q : Out → Prop) (hstop : ∀ b c, ∀ o ∈ (stop b c).2, Q o) (b : B) (f : First) (a : Bool) :
    ∀ o ∈ (takeOver b f a).2, Q o := by
  rcases takeOver_cases b f a with h0 | ⟨req, _, _, _, _, h1⟩
  · rw [h0]; intro o ho; cases ho
  · rw [h1]; exact stopAll_out Q hstop _ b

/-- a state invariant kept by `stop` and by `first` is kept by `connect` -/
theorem connect_state (P : B → Prop) (hstop : ∀ b c, P b → P (stop b c).1)
    (hfirst : ∀ b c f a, P b → P (first b c f a).1) (b : B) (c : Nat) (f : First) (a : Bool) (h : P b) :
    P (connect b c f a).1 := by
  rw [connect_eq]
  exact hfirst _ c f a (takeOver_state P hstop b f a h)

/-- a predicate of all outputs of `stop` and of `first` holds of all outputs of `connect` -/
theorem connect_out (Q : Out → Prop) (hstop : ∀ b c, ∀ o ∈ (stop b c).2, Q o)
    (hfirst : ∀ b c f a, ∀ o ∈ (first b c f a).2, Q o) (b : B) (c : Nat) (f : First) (a : Bool) :
    ∀ o ∈ (connect b c f a).2, Q o := by
  rw [connect_eq]
  intro o ho
  rcases List.mem_append.mp ho with h | h
  · exact takeOver_out Q hstop b f a o h
  · exact hfirst _ c f a o h

end Mqtt.Proofs.Connect
