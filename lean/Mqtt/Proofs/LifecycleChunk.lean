/-
Core F — helper lemmas for C16, part 6: the incoming ring and the receiver after 8f682d1.

* `inFit_run`      — the incoming ring never holds more than its size (if it did not at the start): only
                     the receiver's commit raises `inR.buf`, and what it commits was read into free space
* `Arr`, `arr_run` — a packet in pieces: while the processor waits for the rest of a packet, the bytes
                     still on the wire, those in the ring and those the receiver is about to commit add
                     up to the same number (nothing is lost on the way) unless the ring is closed; once
                     the processor has the packet it does not come back to wait for it
-/
import Mqtt.Proofs.LifecycleEnd

set_option linter.unusedSimpArgs false
set_option linter.unusedVariables false

namespace Mqtt.Proofs.Lifecycle
open Mqtt.Model.Lifecycle

/-- bytes the receiver has taken off the wire and not yet committed to the ring -/
def RPc.pend : RPc → Nat
  | .commit n => n
  | _ => 0

/-- what a receiver step does to the wire and the incoming ring: bytes move from the wire into the
receiver's hands and from there into the ring; they are dropped only when the ring is closed -/
theorem rstep_bytes (c : Cfg) (hw : WF c) (sh sh' : Sh) (k : Nat) (pc pc' : RPc)
    (hcm : ∀ n, pc = .commit n → sh.inR.buf + n ≤ c.cap)
    (h : rstep c sh k pc = some (sh', pc')) :
    sh'.stream = sh.stream ∧ (sh.inR.done = true → sh'.inR.done = true) ∧
    ((sh'.wire + sh'.inR.buf + RPc.pend pc' = sh.wire + sh.inR.buf + RPc.pend pc ∧
        (sh'.inR.buf = sh.inR.buf ∨ sh'.inR.buf = sh.inR.buf + RPc.pend pc)) ∨
      (sh'.inR.done = true ∧ sh'.inR.buf = sh.inR.buf)) := by
  cases pc with
  | space =>
    simp only [rstep] at h
    cases hs : sh.inR.waitSpace c c.spaceNeed with
    | none => simp [hs] at h
    | some q =>
      obtain ⟨ret, r⟩ := q
      obtain ⟨rfl, -⟩ := waitSpace_some c hw.d2 _ _ _ _ hs
      cases ret <;> simp [hs] at h <;> obtain ⟨rfl, rfl⟩ := h <;> simp [RPc.pend]
  | read =>
    simp only [rstep] at h
    by_cases h1 : sh.sock ≠ .open ∨ sh.timeout = true
    · simp [h1] at h; obtain ⟨rfl, rfl⟩ := h; simp [RPc.pend]
    · by_cases h2 : sh.wire = 0
      · simp [h1, h2] at h
      · simp only [h1, h2, if_false] at h; simp at h; obtain ⟨rfl, rfl⟩ := h
        refine ⟨rfl, id, Or.inl ⟨?_, Or.inl rfl⟩⟩
        simp only [RPc.pend]
        omega
  | commit n =>
    have hfit := hcm n rfl
    simp only [rstep] at h
    cases hs : sh.inR.commitP c n with
    | none => simp [hs] at h
    | some q =>
      obtain ⟨ret, r⟩ := q
      rcases commitP_some c hw.d2 _ _ _ _ hs with ⟨rfl, rfl, _⟩ | ⟨hne, rfl, hd⟩
      · simp [hs] at h; obtain ⟨rfl, rfl⟩ := h
        refine ⟨rfl, id, Or.inl ⟨?_, Or.inr rfl⟩⟩
        simp only [RPc.pend]; omega
      · -- the commit failed: the ring is closed (a request larger than the ring cannot occur)
        have hdone : sh.inR.done = true := by
          rcases hd with hd | hd
          · exact hd
          · exfalso; omega
        cases ret
        · exact absurd rfl hne
        all_goals
          simp [hs] at h; obtain ⟨rfl, rfl⟩ := h
          exact ⟨rfl, id, Or.inr ⟨hdone, rfl⟩⟩
  | close =>
    simp only [rstep, close_returns c hw.d2, hw.rc] at h; simp at h; obtain ⟨rfl, rfl⟩ := h
    simp [RPc.pend]
  | connClose => simp [rstep] at h; obtain ⟨rfl, rfl⟩ := h; simp [RPc.pend]
  | wgDone => simp [rstep] at h; obtain ⟨rfl, rfl⟩ := h; simp [RPc.pend]
  | exited => simp [rstep] at h

/-- the sender touches neither the incoming ring nor the wire nor the packet stream -/
theorem sstep_inR (c : Cfg) (sh sh' : Sh) (pc pc' : SPc)
    (h : sstep c sh pc = some (sh', pc')) : sh'.inR = sh.inR ∧ sh'.wire = sh.wire ∧ sh'.stream = sh.stream := by
  cases pc <;> simp only [sstep] at h <;> (repeat' split at h) <;>
    simp [Option.map_eq_some_iff] at h <;>
    first
    | (obtain ⟨rfl, rfl⟩ := h; exact ⟨rfl, rfl, rfl⟩)
    | (obtain ⟨_, _, rfl, rfl⟩ := h; exact ⟨rfl, rfl, rfl⟩)

/-- no environment event touches the incoming ring -/
theorem estep_inR (c : Cfg) (s s' : St) (e : Env) (h : estep c s e = some s') : s'.sh.inR = s.sh.inR := by
  cases e with
  | peerClose => simp only [estep] at h; by_cases h1 : s.sh.sock = .open ∨ s.sh.sock = .peerShut <;> simp [h1] at h; subst h; rfl
  | peerShut => simp only [estep] at h; by_cases h1 : s.sh.sock = .open <;> simp [h1] at h; subst h; rfl
  | kaExpire =>
    simp only [estep] at h
    by_cases h1 : s.recv = .read ∧ s.sh.sock = .open
    · rw [if_pos h1] at h; injection h with h; subst h; rfl
    · rw [if_neg h1] at h; cases h
  | peerReads b => simp [estep] at h; subst h; rfl
  | extBlock b => simp [estep] at h; subst h; rfl
  | serverClose i =>
    simp only [estep] at h
    cases hk : s.ks[i]? with
    | none => simp [hk] at h
    | some pc => cases pc <;> simp [hk] at h; subst h; rfl
  | preClose =>
    simp only [estep] at h
    cases hc : s.sh.outR.close c <;> simp [hc] at h
    subst h; rfl

/-- **the incoming ring never overflows**: no step takes `inR.buf` above the ring size -/
theorem inFit_step (c : Cfg) (hw : WF c) (s s' : St) (l : Label) (hi : InvA c s) (h : step c s l = some s')
    (hf : s.sh.inR.buf ≤ c.cap) : s'.sh.inR.buf ≤ c.cap := by
  cases l with
  | env e => simp only [step] at h; rw [estep_inR c s s' e h]; exact hf
  | th t k =>
    simp only [step] at h
    cases t with
    | recv =>
      simp only [tstep] at h
      cases hr : rstep c s.sh k s.recv with
      | none => simp [hr] at h
      | some q =>
        obtain ⟨sh', pc'⟩ := q; simp [hr] at h; subst h
        obtain ⟨_, _, hb⟩ := rstep_bytes c hw _ _ _ _ _ (fun n hn => hi.rcommit n hn) hr
        rcases hb with ⟨_, hb | hb⟩ | ⟨_, hb⟩
        · simp only; omega
        · cases hpc : s.recv with
          | commit n => have := hi.rcommit n hpc; simp [RPc.pend, hpc] at hb; simp only; omega
          | _ => simp [RPc.pend, hpc] at hb; simp only; omega
        · simp only; omega
    | send =>
      simp only [tstep] at h
      cases hr : sstep c s.sh s.send with
      | none => simp [hr] at h
      | some q =>
        obtain ⟨sh', pc'⟩ := q; simp [hr] at h; subst h
        simp only [(sstep_inR c _ _ _ _ hr).1]; exact hf
    | proc =>
      simp only [tstep] at h
      cases hr : pstep c s.sh s.proc with
      | none => simp [hr] at h
      | some q =>
        obtain ⟨sh', pc'⟩ := q; simp [hr] at h; subst h
        have := (pstep_frameA c hw _ _ _ _ hr).1
        simp only; omega
    | k i =>
      simp only [tstep] at h
      cases hk : s.ks[i]? with
      | none => simp [hk] at h
      | some pc =>
        cases hr : kstep c s.sh (.k i) pc with
        | none => simp [hk, hr] at h
        | some q =>
          obtain ⟨sh', pc'⟩ := q
          simp [hk, hr] at h; subst h
          have := (kstep_frameA c hw _ _ _ _ _ hr).2.1
          simp only; omega
    | w i =>
      simp only [tstep] at h
      cases hk : s.ws[i]? with
      | none => simp [hk] at h
      | some w =>
        cases hr : wstep c s.sh (.w i) w with
        | none => simp [hk, hr] at h
        | some q =>
          obtain ⟨sh', w'⟩ := q
          simp [hk, hr] at h; subst h
          simp only [(wstep_frameA c hw _ _ _ _ _ hr).2.1]; exact hf

theorem inFit_run (c : Cfg) (hw : WF c) (s : St) (sched : List Label) (hi : Inv c s)
    (hf : s.sh.inR.buf ≤ c.cap) : (run c s sched).sh.inR.buf ≤ c.cap := by
  induction sched generalizing s with
  | nil => exact hf
  | cons l ls ih =>
    simp only [run]
    cases h : step c s l with
    | none => exact ih s hi hf
    | some s' => exact ih s' (inv_step c hw s s' l hi h) (inFit_step c hw s s' l hi.a h hf)

/-! ## A packet that arrives in pieces -/

/-- the processor has got the head packet (it is past `peekMessage`) or has left its loop -/
def PPc.passed : PPc → Bool
  | .size => false | .msg => false | .check => false | _ => true

/-- what a processor step does to the packet stream and to "has the head packet" -/
theorem pstep_arr (c : Cfg) (hw : WF c) (sh sh' : Sh) (pc pc' : PPc)
    (h : pstep c sh pc = some (sh', pc')) :
    (sh'.stream = sh.stream ∨ ∃ p, sh.stream = p :: sh'.stream) ∧
    (pc = .msg → PPc.passed pc' = true) ∧
    (PPc.passed pc = true → sh.stream ≠ [] → PPc.passed pc' = true ∨ ∃ p, sh.stream = p :: sh'.stream) := by
  cases pc with
  | size =>
    simp only [pstep] at h
    (repeat' split at h) <;> simp at h <;> obtain ⟨rfl, rfl⟩ := h <;> simp [PPc.passed]
  | msg =>
    simp only [pstep] at h
    (repeat' split at h) <;> simp at h <;> obtain ⟨rfl, rfl⟩ := h <;> simp [PPc.passed]
  | acts as =>
    cases as with
    | nil => simp [pstep] at h; obtain ⟨rfl, rfl⟩ := h; simp [PPc.passed]
    | cons a rest =>
      cases a <;> simp only [pstep] at h <;> (repeat' split at h) <;> simp at h <;> obtain ⟨rfl, rfl⟩ := h <;>
        simp [PPc.passed]
  | ownWait l rest =>
    simp only [pstep] at h
    (repeat' split at h) <;> simp at h <;> obtain ⟨rfl, rfl⟩ := h <;> simp [PPc.passed]
  | ownCommit l rest =>
    simp only [pstep] at h
    (repeat' split at h) <;> simp at h <;> obtain ⟨rfl, rfl⟩ := h <;> simp [PPc.passed]
  | commit =>
    simp only [pstep] at h
    cases hst : sh.stream with
    | nil => simp [hst] at h; obtain ⟨rfl, rfl⟩ := h; simp [PPc.passed, hst]
    | cons p tl =>
      simp [hst, commitC_returns c hw.d2] at h; obtain ⟨rfl, rfl⟩ := h
      simp [PPc.passed]
  | check =>
    simp only [pstep] at h
    (repeat' split at h) <;> simp at h <;> obtain ⟨rfl, rfl⟩ := h <;> simp [PPc.passed]
  | wgDone => simp [pstep] at h; obtain ⟨rfl, rfl⟩ := h; simp [PPc.passed]
  | stop k =>
    simp only [pstep] at h
    cases hk : kstep c sh .proc k with
    | none => simp [hk] at h
    | some q =>
      obtain ⟨sh1, k1⟩ := q
      simp [hk] at h; obtain ⟨rfl, rfl⟩ := h
      simp [PPc.passed, (kstep_rank c _ _ _ _ _ hk).2.1]

/-- the packet stream `st0` (head packet of `total` bytes) in pieces: as long as the stream is still
`st0`, the processor either waits for the packet at `.msg` — and then the bytes on the wire, in the
ring and in the receiver's hands still add up to the packet unless the ring is closed — or has got
it; the stream only shrinks, so it never becomes `st0` again -/
def Arr (st0 : List Pkt) (total : Nat) (s : St) : Prop :=
  s.sh.stream.length ≤ st0.length ∧
  (s.sh.stream = st0 →
    (s.proc = .msg ∧ (s.sh.inR.done = true ∨ total ≤ s.sh.wire + s.sh.inR.buf + RPc.pend s.recv)) ∨
    PPc.passed s.proc = true)

theorem arr_tstep (c : Cfg) (hw : WF c) (st0 : List Pkt) (hne : st0 ≠ []) (total : Nat) (s s' : St) (t : Tid) (k : Nat)
    (hi : InvA c s) (h : tstep c s t k = some s') (ha : Arr st0 total s) : Arr st0 total s' := by
  obtain ⟨hlen, hst⟩ := ha
  -- steps that leave processor and stream alone and do not lose bytes
  have other : ∀ (sh' : Sh) (r' : RPc), sh'.stream = s.sh.stream → (s.sh.inR.done = true → sh'.inR.done = true) →
      (sh'.inR.done = true ∨ sh'.wire + sh'.inR.buf + RPc.pend r' = s.sh.wire + s.sh.inR.buf + RPc.pend s.recv) →
      (sh'.stream.length ≤ st0.length ∧
       (sh'.stream = st0 →
        (s.proc = .msg ∧ (sh'.inR.done = true ∨ total ≤ sh'.wire + sh'.inR.buf + RPc.pend r')) ∨
        PPc.passed s.proc = true)) := by
    intro sh' r' h1 h2 h3
    refine ⟨by rw [h1]; exact hlen, ?_⟩
    intro h0
    rcases hst (by rw [← h1]; exact h0) with ⟨hp, hb⟩ | hp
    · left
      refine ⟨hp, ?_⟩
      rcases hb with hb | hb
      · exact Or.inl (h2 hb)
      · rcases h3 with h3 | h3
        · exact Or.inl h3
        · right; omega
    · exact Or.inr hp
  cases t with
  | recv =>
    simp only [tstep] at h
    cases hr : rstep c s.sh k s.recv with
    | none => simp [hr] at h
    | some q =>
      obtain ⟨sh', pc'⟩ := q; simp [hr] at h; subst h
      obtain ⟨h1, h2, hb⟩ := rstep_bytes c hw _ _ _ _ _ (fun n hn => hi.rcommit n hn) hr
      exact other sh' pc' h1 h2 (by rcases hb with ⟨hb, _⟩ | ⟨hb, _⟩; exact Or.inr hb; exact Or.inl hb)
  | send =>
    simp only [tstep] at h
    cases hr : sstep c s.sh s.send with
    | none => simp [hr] at h
    | some q =>
      obtain ⟨sh', pc'⟩ := q; simp [hr] at h; subst h
      obtain ⟨h1, h2, h3⟩ := sstep_inR c _ _ _ _ hr
      exact other sh' s.recv h3 (by rw [h1]; exact id) (by rw [h1, h2]; exact Or.inr rfl)
  | k i =>
    simp only [tstep] at h
    cases hk : s.ks[i]? with
    | none => simp [hk] at h
    | some pc =>
      cases hr : kstep c s.sh (.k i) pc with
      | none => simp [hk, hr] at h
      | some q =>
        obtain ⟨sh', pc'⟩ := q
        simp [hk, hr] at h; subst h
        obtain ⟨a1, a2, _, _⟩ := kstep_rank c _ _ _ _ _ hr
        obtain ⟨_, b2, _, b4, _⟩ := kstep_frameA c hw _ _ _ _ _ hr
        exact other sh' s.recv a2 b4 (by rw [a1, b2]; exact Or.inr rfl)
  | w i =>
    simp only [tstep] at h
    cases hk : s.ws[i]? with
    | none => simp [hk] at h
    | some w =>
      cases hr : wstep c s.sh (.w i) w with
      | none => simp [hk, hr] at h
      | some q =>
        obtain ⟨sh', w'⟩ := q
        simp [hk, hr] at h; subst h
        obtain ⟨a1, a2, _, _⟩ := wstep_rank c hw _ _ _ _ _ hr
        obtain ⟨_, b2, _, _⟩ := wstep_frameA c hw _ _ _ _ _ hr
        exact other sh' s.recv a2 (by rw [b2]; exact id) (by rw [a1, b2]; exact Or.inr rfl)
  | proc =>
    simp only [tstep] at h
    cases hr : pstep c s.sh s.proc with
    | none => simp [hr] at h
    | some q =>
      obtain ⟨sh', pc'⟩ := q; simp [hr] at h; subst h
      obtain ⟨h1, h2, h3⟩ := pstep_arr c hw _ _ _ _ hr
      constructor
      · show sh'.stream.length ≤ st0.length
        rcases h1 with h1 | ⟨p, h1⟩
        · rw [h1]; exact hlen
        · rw [h1] at hlen; simp at hlen; omega
      · intro h0
        have h0' : sh'.stream = st0 := h0
        right
        show PPc.passed pc' = true
        rcases h1 with h1 | ⟨p, h1⟩
        · have hs0 : s.sh.stream = st0 := by rw [← h1]; exact h0'
          rcases hst hs0 with ⟨hp, _⟩ | hp
          · exact h2 hp
          · rcases h3 hp (by rw [hs0]; exact hne) with h3 | ⟨p, h3⟩
            · exact h3
            · exfalso
              have : sh'.stream.length = (p :: sh'.stream).length := by rw [← h3, h1]
              simp at this
        · exfalso
          rw [h1, h0'] at hlen; simp at hlen; omega

theorem arr_run (c : Cfg) (hw : WF c) (st0 : List Pkt) (hne : st0 ≠ []) (total : Nat) (s : St) (sched : List Label)
    (hth : ∀ l, l ∈ sched → ∃ t k, l = .th t k) (hi : Inv c s) (ha : Arr st0 total s) :
    Arr st0 total (run c s sched) := by
  induction sched generalizing s with
  | nil => exact ha
  | cons l ls ih =>
    have hls : ∀ l', l' ∈ ls → ∃ t k, l' = .th t k := fun l' hl' => hth l' (List.mem_cons_of_mem _ hl')
    simp only [run]
    cases h : step c s l with
    | none => exact ih s hls hi ha
    | some s' =>
      obtain ⟨t, k, rfl⟩ := hth l (List.mem_cons_self ..)
      exact ih s' hls (inv_step c hw s s' _ hi h) (arr_tstep c hw st0 hne total s s' t k hi.a h ha)

end Mqtt.Proofs.Lifecycle
