/-
What the statement orders of `Model/Takeover.lean` are for.  No generated name is mentioned here; the
equations with the regenerated source facts are in `Properties/C09Source.lean`, `C10Source.lean`,
`C16Source.lean`.
-/
import Mqtt.Model.Takeover

namespace Mqtt.Proofs.Takeover
open Mqtt.Model.Takeover

/-! ## `disconnectClient`: when it returns, every connection of the client has FINISHED its teardown -/

theorem collected_iff (cid : Nat) (s : Svc) :
    collected disconnectProgram cid s = (s.st != .stopped && s.cid == cid) := by
  cases s with | mk i c st => cases st <;> rfl

theorem finish_live : finish disconnectProgram .live = some .stopped := by decide
theorem finish_ending : finish disconnectProgram .ending = some .stopped := by decide

/-- For every population of connections - live ones, ones whose teardown somebody else has begun and not
finished (`ending`: parked in `wgStopped.Wait` or in the will publish), finished ones; in `svcs` or not -
`disconnectClient cid` returns, and then every connection with that client identifier is `stopped`:
its `stop()` is COMPLETE.  That is the state in which the broker model runs `first` (`Model.Broker.connect
= takeOver; first`, `takeOver = stopAll (sameClient ..)`: each `stop` of the model is the whole teardown).
The others are what they were. -/
theorem disconnect_complete (cid : Nat) (svcs : List Svc) :
    ∃ r, after disconnectProgram cid svcs = some r ∧ r.length = svcs.length ∧
      (∀ s ∈ r, s.cid = cid → s.st = .stopped) ∧ (∀ s ∈ svcs, s.cid ≠ cid → s ∈ r) := by
  induction svcs with
  | nil => exact ⟨[], rfl, rfl, by simp, by simp⟩
  | cons s t ih =>
    obtain ⟨r, hr, hl, h1, h2⟩ := ih
    by_cases hc : collected disconnectProgram cid s = true
    · have hc' := hc
      rw [collected_iff] at hc'
      simp only [Bool.and_eq_true, bne_iff_ne, ne_eq, beq_iff_eq] at hc'
      have hf : finish disconnectProgram s.st = some .stopped := by
        cases hst : s.st with
        | live => exact finish_live
        | ending => exact finish_ending
        | stopped => exact absurd hst hc'.1
      refine ⟨{ s with st := .stopped } :: r, ?_, by simp [hl], ?_, ?_⟩
      · simp only [after, hc, if_true, hf, Option.map_some, hr]
      · intro x hx hxc
        rcases List.mem_cons.mp hx with rfl | hx
        · rfl
        · exact h1 x hx hxc
      · intro x hx hxc
        rcases List.mem_cons.mp hx with rfl | hx
        · exact absurd hc'.2 hxc
        · exact List.mem_cons_of_mem _ (h2 x hx hxc)
    · have hc' := hc
      rw [collected_iff] at hc'
      refine ⟨s :: r, ?_, by simp [hl], ?_, ?_⟩
      · simp only [after, hc, hr]; rfl
      · intro x hx hxc
        rcases List.mem_cons.mp hx with rfl | hx
        · cases hst : x.st with
          | stopped => rfl
          | live => simp [hst, hxc] at hc'
          | ending => simp [hst, hxc] at hc'
        · exact h1 x hx hxc
      · intro x hx hxc
        rcases List.mem_cons.mp hx with rfl | hx
        · exact List.mem_cons_self
        · exact List.mem_cons_of_mem _ (h2 x hx hxc)

/-- `Server.svcs` afterwards: exactly the entries whose teardown had not finished when the scan ran -
finished connections do not accumulate, and a connection that is still ending stays findable -/
theorem registered_eq (svcs : List Svc) :
    registered disconnectProgram svcs = svcs.filter (fun s => s.st != .stopped) := by
  have : ∀ s : Svc, (!dropped disconnectProgram s) = (s.st != .stopped) := by
    intro s; cases s with | mk i c st => cases st <;> rfl
  have hk : (disconnectProgram.contains .keep && disconnectProgram.contains .truncate) = true := by decide
  unfold registered
  rw [if_pos hk]
  congr 1
  funext s
  exact this s

/-- the population the mutants are shown on: client 7 has a live connection, one whose teardown is in
progress and a finished one; client 8 has a live one -/
def probe : List Svc := [⟨1, 7, .live⟩, ⟨2, 7, .ending⟩, ⟨3, 7, .stopped⟩, ⟨4, 8, .live⟩]

/-- on the probe: all of client 7 finished, client 8 untouched, the finished entry dropped from `svcs` -/
theorem disconnect_probe :
    after disconnectProgram 7 probe = some [⟨1, 7, .stopped⟩, ⟨2, 7, .stopped⟩, ⟨3, 7, .stopped⟩, ⟨4, 8, .live⟩] ∧
    registered disconnectProgram probe = [⟨1, 7, .live⟩, ⟨2, 7, .ending⟩, ⟨4, 8, .live⟩] := by decide

/-- **pruning by the `closed` flag** (set when a teardown BEGINS) passes over the connection whose teardown
is in progress: it is neither stopped nor waited for, and the handshake goes on while it is still ending
(its late unsubscribe / will / session removal then hit the new connection's session) -/
theorem prune_by_closed_flag_leaves_one_ending :
    after [.lock, .pruneOther, .keep, .collect, .truncate, .unlock, .stop, .wait] 7 probe =
      some [⟨1, 7, .stopped⟩, ⟨2, 7, .ending⟩, ⟨3, 7, .stopped⟩, ⟨4, 8, .live⟩] := by decide

/-- without the wait a teardown somebody else has begun is not awaited; with the wait before the stop the
caller waits for ever for a live connection -/
theorem no_wait_leaves_one_ending_and_wait_first_hangs :
    after [.lock, .pruneStopped, .keep, .collect, .truncate, .unlock, .stop] 7 probe =
      some [⟨1, 7, .stopped⟩, ⟨2, 7, .ending⟩, ⟨3, 7, .stopped⟩, ⟨4, 8, .live⟩] ∧
    after [.lock, .pruneStopped, .keep, .collect, .truncate, .unlock, .wait, .stop] 7 probe = none := by decide

/-! ## `Server.mu` is not held while `disconnectClient` waits -/

/-- `stop()` and `<-stopped` run without `Server.mu` -/
theorem disconnect_waits_without_mu : waitsWithoutMu disconnectProgram = true := by decide

/-- wherever `disconnectClient` may be waiting for another goroutine - and the teardown it waits for may be
held by a third connection whose client does not read, for as long as that client likes -, `Server.Close`
gets `Server.mu`, copies `svcs` and reaches its loops (the first of which, `out.Close()` on every connection,
is what ends that wait: `C16_server_close`) -/
theorem close_gets_mu_while_disconnect_waits (i : Nat) (op : DcOp) (h : disconnectProgram[i]? = some op)
    (hw : op.mayWait = true) : closeReachesLoops disconnectProgram i closeProgram = true := by
  have : i < 8 := by
    rcases Nat.lt_or_ge i 8 with h8 | h8
    · exact h8
    · rw [List.getElem?_eq_none (by simpa [disconnectProgram] using h8)] at h; cases h
  have hall : ∀ j, j < 8 → ∀ o, disconnectProgram[j]? = some o → o.mayWait = true →
      closeReachesLoops disconnectProgram j closeProgram = true := by decide
  exact hall i this op h hw

/-- **`defer svr.mu.Unlock()` instead of the explicit unlock**: `Server.mu` is held at `stop()` and at the
wait, and `Server.Close` does not get past its first statement while `disconnectClient` waits -/
theorem deferred_unlock_blocks_close :
    waitsWithoutMu [.lock, .deferUnlock, .pruneStopped, .keep, .collect, .truncate, .stop, .wait] = false ∧
    closeReachesLoops [.lock, .deferUnlock, .pruneStopped, .keep, .collect, .truncate, .stop, .wait] 7 closeProgram = false := by
  decide

/-- `Server.Close` itself: `mu` only around the copy, every outgoing ring closed before the first `stop()` -/
theorem close_shape :
    closeProgram.idxOf .unlock < closeProgram.idxOf .closeOuts ∧
    closeProgram.idxOf .closeOuts < closeProgram.idxOf .stops ∧ closeProgram.contains .deferUnlock = false := by decide

/-! ## `handleConnection`: `connectMu` from the take-over to the registration -/

theorem connect_held_over : heldOver connectProgram = true := by decide

/-- released before the CONNACK / start / registration (the seeded change
C09-connectmu-released-before-registration has the lock in a closure around take-over and session lookup:
the statements outside the closure are not under it) -/
theorem connect_released_early_is_not_held_over :
    heldOver [.lock, .disconnect, .getSession, .unlock, .connack, .start, .register] = false ∧
    heldOver [.connack, .start, .register] = false := by decide

/-! ## `Resumable` -/

/-- a stored session is resumed iff it is initialized, has its CONNECT and that CONNECT had CleanSession = 0:
the filter `fun s => !s.clean` of `Model.Broker.first` (the model's stored sessions are initialized) -/
theorem resumable_eq (initted hasConnect clean : Bool) :
    resumable resumableProgram initted hasConnect clean = (initted && hasConnect && !clean) := by
  cases initted <;> cases hasConnect <;> cases clean <;> rfl

/-- without the third term the session of a CleanSession = 1 CONNECT that is still in the store - its
connection alive before the take-over repair, or its handshake failed after `getSession` - is resumed -/
theorem resumable_without_clean_resumes_clean :
    resumable [.initted, .hasConnect] true true true = true ∧ resumable resumableProgram true true true = false := by
  decide

/-- `getSession`: the store is consulted only for CleanSession = 0, SessionPresent = 1 and `Update` only
behind `Resumable()`, everything else gets a new session with SessionPresent = 0 -/
theorem getSession_shape :
    getSessionProgram.idxOf .ifNotClean < getSessionProgram.idxOf .get ∧
    getSessionProgram.idxOf .get < getSessionProgram.idxOf .ifResumable ∧
    getSessionProgram.idxOf .ifResumable < getSessionProgram.idxOf .presentTrue ∧
    getSessionProgram.idxOf .presentTrue < getSessionProgram.idxOf .new := by decide

/-! ## `stop()` reads the stored CONNECT after the wait -/

open Mqtt.Model.Lifecycle in
/-- the life-cycle model's `stop()`: the wait for the goroutines, then - and only then - the will flag, the
will, the CleanSession flag -/
theorem stop_reads : stopProgram.flatMap sessReads = [6, 21, 22, 23] ∧
    readsAfterWait (stopProgram.flatMap sessReads) = true := by decide

/-- the seeded change C09-stop-snapshots-will: flag and will read right after the CAS -/
theorem snapshot_reads_before_wait : readsAfterWait [21, 22, 6, 23] = false := by decide

end Mqtt.Proofs.Takeover
