/-
C17, wrap path — the invariant of `writeMessage` (both branches, scratch buffer included) run by
any number of goroutines under `wmu` against a ring of `size` cells with one consumer
(`Model/WriteWrap.lean`, shape `code`), its preservation by every thread and consumer step, and the
safety of every producer step.
-/
import Mqtt.Proofs.WriteWrapStep

namespace Mqtt.Proofs.WriteWrap
open Mqtt.Model.WriteWrap

/-! ## the ghost log -/

theorem done_snoc (e : Entry) (log : List Entry) :
    (((log ++ [e]).filter (·.ok)).map (·.pkt)) =
      ((log.filter (·.ok)).map (·.pkt)) ++ (if e.ok then [e.pkt] else []) := by
  cases h : e.ok <;> simp [List.filter_append, h]

theorem sent_snoc_self (log : List Entry) (t : Nat) (ok : Bool) (m : List UInt8) :
    sent (log ++ [{ t := t, ok := ok, pkt := m }]) t = sent log t ++ [m] := by
  simp [sent, List.filter_append]

theorem sent_snoc_other (log : List Entry) (t u : Nat) (ok : Bool) (m : List UInt8) (h : t ≠ u) :
    sent (log ++ [{ t := t, ok := ok, pkt := m }]) u = sent log u := by
  simp [sent, List.filter_append, h]

/-! ## the invariant -/

structure Inv (size : Nat) (todos : List (List (List UInt8))) (s : St) : Prop where
  len   : s.ths.length = todos.length
  logt  : ∀ e ∈ s.log, e.t < todos.length
  /-- a delivery fails exactly when the packet is longer than the ring -/
  logok : ∀ e ∈ s.log, (e.ok = true ↔ e.pkt.length ≤ size)
  /-- what thread `t` has finished, in order, followed by what it still has to do, is its list -/
  prov  : ∀ t th, s.ths[t]? = some th → todos[t]? = some (sent s.log t ++ th.todo)
  sh    : ShOk size s.sh (done s).flatten
  /-- every thread but the holder of `wmu` is outside `writeMessage` -/
  idle  : ∀ t th, s.ths[t]? = some th → s.holder ≠ some t → th.pc = .idle
  /-- the holder is inside, with a packet in hand, and its assertion holds -/
  held  : ∀ t, s.holder = some t → ∃ th m rest, s.ths[t]? = some th ∧ th.todo = m :: rest ∧
            PcOk size s.sh m th.pc

theorem lt_of_getElem? {α} {l : List α} {i : Nat} {a : α} (h : l[i]? = some a) : i < l.length := by
  rcases Nat.lt_or_ge i l.length with h1 | h1
  · exact h1
  · rw [List.getElem?_eq_none h1] at h; cases h

theorem inv_init (size : Nat) (tmp0 : List UInt8) (todos : List (List (List UInt8))) :
    Inv size todos (init size tmp0 todos) where
  len := by simp [init]
  logt := by intro e he; cases he
  logok := by intro e he; cases he
  prov := by
    intro t th h
    simp only [init, List.getElem?_map] at h
    cases ht : todos[t]? with
    | none => simp [ht] at h
    | some l => simp only [ht, Option.map_some, Option.some.injEq] at h; subst h; simp [sent, init]
  sh := { ringlen := by simp [init], le := Nat.le_refl _, room := Nat.le_add_right _ _, pseq := rfl,
          stream := rfl }
  idle := by
    intro t th h _
    simp only [init, List.getElem?_map] at h
    cases ht : todos[t]? with
    | none => simp [ht] at h
    | some l => simp only [ht, Option.map_some, Option.some.injEq] at h; subst h; rfl
  held := by intro t h; cases h

/-! ## inversion of `step code` -/

/-- the three kinds of enabled thread step of the program as it is -/
theorem step_cases {size : Nat} {s s' : St} {t : Nat} (h : step code size s t = some s') :
    ∃ th m rest, s.ths[t]? = some th ∧ th.todo = m :: rest ∧
      ((th.pc = .idle ∧ s.holder = none ∧
          s' = { s with holder := some t, ths := s.ths.set t { th with pc := .entered } }) ∨
       (th.pc ≠ .idle ∧ ∃ pc' sh', pcStep code size s.sh m th.pc = .goto pc' sh' ∧
          s' = { s with sh := sh', ths := s.ths.set t { th with pc := pc' } }) ∨
       (th.pc ≠ .idle ∧ ∃ ok sh', pcStep code size s.sh m th.pc = .ret ok sh' ∧
          s' = { sh := sh', holder := none, ths := s.ths.set t { pc := .idle, todo := rest },
                 log := s.log ++ [{ t := t, ok := ok, pkt := m }] })) := by
  unfold step at h
  split at h
  · cases h
  · rename_i th hth
    split at h
    · cases h
    · rename_i m rest htodo
      refine ⟨th, m, rest, hth, htodo, ?_⟩
      split at h
      · rename_i hpc
        simp only [code, ↓reduceIte] at h
        split at h
        · cases h
        · rename_i hh
          left
          refine ⟨hpc, ?_, (Option.some.inj h).symm⟩
          cases hs : s.holder with
          | none => rfl
          | some x => simp [hs] at hh
      · rename_i hpc
        split at h
        · cases h
        · rename_i pc' sh' hps
          right; left
          exact ⟨hpc, pc', sh', hps, (Option.some.inj h).symm⟩
        · rename_i ok sh' hps
          right; right
          refine ⟨hpc, ok, sh', hps, ?_⟩
          simp only [code, ↓reduceIte] at h
          exact (Option.some.inj h).symm

/-- a thread that is inside `writeMessage` holds `wmu` -/
theorem Inv.holder_of_busy {size todos s} (hI : Inv size todos s) {t : Nat} {th : Th}
    (hth : s.ths[t]? = some th) (hpc : th.pc ≠ .idle) : s.holder = some t := by
  by_cases hh : s.holder = some t
  · exact hh
  · exact absurd (hI.idle t th hth hh) hpc

/-- … and its assertion holds for the packet at the head of its list -/
theorem Inv.pcOk_of_busy {size todos s} (hI : Inv size todos s) {t : Nat} {th : Th} {m : List UInt8}
    {rest : List (List UInt8)} (hth : s.ths[t]? = some th) (htodo : th.todo = m :: rest)
    (hpc : th.pc ≠ .idle) : PcOk size s.sh m th.pc := by
  obtain ⟨th', m', rest', hth', htodo', hP⟩ := hI.held t (hI.holder_of_busy hth hpc)
  rw [hth] at hth'
  cases hth'
  rw [htodo] at htodo'
  cases htodo'
  exact hP

/-! ## preservation -/

theorem inv_lock {size todos s t th m rest} (hI : Inv size todos s) (hth : s.ths[t]? = some th)
    (htodo : th.todo = m :: rest) (hh : s.holder = none) :
    Inv size todos { s with holder := some t, ths := s.ths.set t { th with pc := .entered } } where
  len := by simp [hI.len]
  logt := hI.logt
  logok := hI.logok
  prov := by
    intro u thu hu
    by_cases htu : t = u
    · subst htu
      rw [List.getElem?_set_self (lt_of_getElem? hth)] at hu
      cases hu
      exact hI.prov t th hth
    · rw [List.getElem?_set_ne htu] at hu
      exact hI.prov u thu hu
  sh := hI.sh
  idle := by
    intro u thu hu hne
    have htu : t ≠ u := by intro c; subst c; exact hne rfl
    rw [List.getElem?_set_ne htu] at hu
    exact hI.idle u thu hu (by rw [hh]; intro c; cases c)
  held := by
    intro u hu
    cases hu
    refine ⟨{ th with pc := .entered }, m, rest, List.getElem?_set_self (lt_of_getElem? hth), htodo, trivial⟩

theorem inv_goto {size todos s t th m rest pc' sh'} (hsz : 0 < size) (hI : Inv size todos s)
    (hth : s.ths[t]? = some th) (htodo : th.todo = m :: rest) (hpc : th.pc ≠ .idle)
    (hps : pcStep code size s.sh m th.pc = .goto pc' sh') :
    Inv size todos { s with sh := sh', ths := s.ths.set t { th with pc := pc' } } := by
  have hh := hI.holder_of_busy hth hpc
  have hP := hI.pcOk_of_busy hth htodo hpc
  obtain ⟨hS', hP', _⟩ := pcStep_goto hsz hI.sh hP hps
  exact {
    len := by simp [hI.len]
    logt := hI.logt
    logok := hI.logok
    prov := by
      intro u thu hu
      by_cases htu : t = u
      · subst htu
        rw [List.getElem?_set_self (lt_of_getElem? hth)] at hu
        cases hu
        exact hI.prov t th hth
      · rw [List.getElem?_set_ne htu] at hu
        exact hI.prov u thu hu
    sh := hS'
    idle := by
      intro u thu hu hne
      have hne' : s.holder ≠ some u := hne
      have htu : t ≠ u := by intro c; subst c; exact hne' hh
      rw [List.getElem?_set_ne htu] at hu
      exact hI.idle u thu hu hne'
    held := by
      intro u hu
      have hu' : s.holder = some u := hu
      rw [hh] at hu'
      cases hu'
      exact ⟨{ th with pc := pc' }, m, rest, List.getElem?_set_self (lt_of_getElem? hth), htodo, hP'⟩ }

theorem inv_ret {size todos s t th m rest ok sh'} (hI : Inv size todos s)
    (hth : s.ths[t]? = some th) (htodo : th.todo = m :: rest) (hpc : th.pc ≠ .idle)
    (hps : pcStep code size s.sh m th.pc = .ret ok sh') :
    Inv size todos { sh := sh', holder := none, ths := s.ths.set t { pc := .idle, todo := rest },
                     log := s.log ++ [{ t := t, ok := ok, pkt := m }] } := by
  have hh := hI.holder_of_busy hth hpc
  have hP := hI.pcOk_of_busy hth htodo hpc
  have hr := pcStep_ret hI.sh hP hps
  exact {
    len := by simp [hI.len]
    logt := by
      intro e he
      rcases List.mem_append.mp he with he | he
      · exact hI.logt e he
      · simp only [List.mem_singleton] at he
        subst he
        rw [← hI.len]; exact lt_of_getElem? hth
    logok := by
      intro e he
      rcases List.mem_append.mp he with he | he
      · exact hI.logok e he
      · simp only [List.mem_singleton] at he
        subst he
        rcases hr with ⟨rfl, hle, _⟩ | ⟨rfl, hgt, _⟩
        · exact ⟨fun _ => hle, fun _ => rfl⟩
        · exact ⟨fun c => (by cases c), fun c => (by have c' : m.length ≤ size := c; omega)⟩
    prov := by
      intro u thu hu
      by_cases htu : t = u
      · subst htu
        rw [List.getElem?_set_self (lt_of_getElem? hth)] at hu
        cases hu
        rw [hI.prov t th hth, htodo, sent_snoc_self]
        simp
      · rw [List.getElem?_set_ne htu] at hu
        rw [sent_snoc_other _ _ _ _ _ htu]
        exact hI.prov u thu hu
    sh := by
      show ShOk size sh' (((s.log ++ [({ t := t, ok := ok, pkt := m } : Entry)]).filter (·.ok)).map (·.pkt)).flatten
      rw [done_snoc]
      rcases hr with ⟨rfl, _, hS', _⟩ | ⟨rfl, _, rfl⟩
      · simpa [List.flatten_append, done] using hS'
      · simpa [List.flatten_append, done] using hI.sh
    idle := by
      intro u thu hu _
      by_cases htu : t = u
      · subst htu
        rw [List.getElem?_set_self (lt_of_getElem? hth)] at hu
        cases hu
        rfl
      · rw [List.getElem?_set_ne htu] at hu
        exact hI.idle u thu hu (by rw [hh]; intro c; cases c; exact htu rfl)
    held := by intro u hu; cases hu }

theorem inv_step {size todos s s' t} (hsz : 0 < size) (hI : Inv size todos s)
    (h : step code size s t = some s') : Inv size todos s' := by
  obtain ⟨th, m, rest, hth, htodo, hc⟩ := step_cases h
  rcases hc with ⟨_, hh, rfl⟩ | ⟨hpc, pc', sh', hps, rfl⟩ | ⟨hpc, ok, sh', hps, rfl⟩
  · exact inv_lock hI hth htodo hh
  · exact inv_goto hsz hI hth htodo hpc hps
  · exact inv_ret hI hth htodo hpc hps

theorem consume_eq (size : Nat) (s : St) (k : Nat) :
    consume size s k = { s with sh := consumeSh size s.sh (min k (s.sh.pseq - s.sh.cseq)) } := rfl

theorem inv_consume {size todos s} (hI : Inv size todos s) (k : Nat) : Inv size todos (consume size s k) := by
  rw [consume_eq]
  exact {
    len := hI.len
    logt := hI.logt
    logok := hI.logok
    prov := hI.prov
    sh := consume_ok hI.sh _ (Nat.min_le_right _ _)
    idle := hI.idle
    held := by
      intro t ht
      obtain ⟨th, m, rest, hth, htodo, hP⟩ := hI.held t ht
      exact ⟨th, m, rest, hth, htodo, consume_pcOk hP _⟩ }

theorem inv_act {size todos s} (hsz : 0 < size) (hI : Inv size todos s) (a : Act) :
    Inv size todos (act code size s a) := by
  cases a with
  | th t =>
    simp only [act]
    cases h : step code size s t with
    | none => exact hI
    | some s' => exact inv_step hsz hI h
  | consume k => exact inv_consume hI k

theorem inv_run {size todos} (hsz : 0 < size) (sched : List Act) : ∀ {s}, Inv size todos s →
    Inv size todos (run code size s sched) := by
  induction sched with
  | nil => intro s h; exact h
  | cons a as ih => intro s h; exact ih (inv_act hsz h a)

/-- the invariant holds in every reachable state of the program as it is -/
theorem inv_reachable (size : Nat) (hsz : 0 < size) (tmp0 : List UInt8) (todos : List (List (List UInt8)))
    (sched : List Act) : Inv size todos (run code size (init size tmp0 todos) sched) :=
  inv_run hsz sched (inv_init size tmp0 todos)

/-! ## safety of the producer steps -/

/-- a thread step neither moves the consumer cursor, nor takes back the producer cursor, nor
changes the observed stream, nor writes a cell that holds an unread byte -/
theorem step_safe {size todos s s' t} (hsz : 0 < size) (hI : Inv size todos s)
    (h : step code size s t = some s') :
    s'.sh.cseq = s.sh.cseq ∧ s.sh.pseq ≤ s'.sh.pseq ∧ s'.sh.got = s.sh.got ∧
    s'.sh.ring.length = s.sh.ring.length ∧
    (∀ pos, s.sh.cseq ≤ pos → pos < s.sh.pseq → s'.sh.ring[pos % size]? = s.sh.ring[pos % size]?) := by
  obtain ⟨th, m, rest, hth, htodo, hc⟩ := step_cases h
  rcases hc with ⟨_, hh, rfl⟩ | ⟨hpc, pc', sh', hps, rfl⟩ | ⟨hpc, ok, sh', hps, rfl⟩
  · exact ⟨rfl, Nat.le_refl _, rfl, rfl, fun _ _ _ => rfl⟩
  · have hP := hI.pcOk_of_busy hth htodo hpc
    obtain ⟨_, _, h1, h2, h3, h4, h5⟩ := pcStep_goto hsz hI.sh hP hps
    exact ⟨h2, by show s.sh.pseq ≤ sh'.pseq; omega, h3, h4, h5⟩
  · have hP := hI.pcOk_of_busy hth htodo hpc
    rcases pcStep_ret hI.sh hP hps with ⟨_, _, _, h1, h2, h3, h4⟩ | ⟨_, _, rfl⟩
    · refine ⟨h2, by show s.sh.pseq ≤ sh'.pseq; omega, h4, by show sh'.ring.length = _; rw [h1], ?_⟩
      intro pos _ _
      show sh'.ring[pos % size]? = _
      rw [h1]
    · exact ⟨rfl, Nat.le_refl _, rfl, rfl, fun _ _ _ => rfl⟩

end Mqtt.Proofs.WriteWrap
