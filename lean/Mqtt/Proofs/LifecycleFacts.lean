/-
Core F — ties between the shape of the Go source (regenerated into `Generated/Facts.lean` by
`extract/facts_life.go`) and the life-cycle model.  The model side of every equation is read off
the model's own step functions on probe states, so an edit of the model that changes the order
changes these lists too; the Go side is regenerated on every check.  All by `decide`.
-/
import Mqtt.Model.Lifecycle
import Mqtt.Generated.Facts

namespace Mqtt.Proofs.Lifecycle
open Mqtt.Model.Lifecycle

def probeCfg : Cfg := { cap := 64, rblock := 8, wblock := 8 }

/-- run a stopper alone from `run 0` on `sh` and list the operations it performs, by their
effect on the shared state (`none` = it waits there) -/
def stopTrace (c : Cfg) : Nat → Sh → KPc → List Nat
  | 0, _, _ => []
  | n + 1, sh, pc =>
    match pc with
    | .run i =>
      match kstep c sh (.k 0) pc with
      | none => []
      | some (sh', pc') =>
        let code :=
          if sh'.closed != sh.closed then 1
          else if sh'.doneCh != sh.doneCh then 2
          else if sh'.sock != sh.sock then 3
          else if sh'.inR.done != sh.inR.done then 4
          else if sh'.outR.done != sh.outR.done then 5
          else if sh'.effects == sh.effects ++ [.unsub] then 7
          else if sh'.effects == sh.effects ++ [.will] then 8
          else if sh'.effects == sh.effects ++ [.sessDel] then 9
          else if sh'.ringsNil != sh.ringsNil then 10
          else if c.stopProg[i]? == some .wgWait then 6
          else 0
        (if code == 0 then [] else [code]) ++ stopTrace c n sh' pc'
    | _ => []

/-- a connection whose goroutines have exited, with a will and a clean session -/
def probeStopSh : Sh := { wg := 0, willFlag := true, clean := true }

/-- `stop()` performs, in this order: CAS, close(done), conn.Close, in.Close, out.Close,
wgStopped.Wait, unsubscribe, will, session removal — and the source has the same order -/
theorem facts_stop_order :
    Mqtt.Generated.lifeStopSeq = stopProgram.map StopOp.code ∧
    stopTrace probeCfg 20 probeStopSh (.run 0) = Mqtt.Generated.lifeStopSeq := by decide

/-- a second `stop()` returns at the CAS; the will is published only under the will flag, the
session deleted only under the clean-session flag -/
theorem facts_stop_guards :
    Mqtt.Generated.lifeStopCasReturns = true ∧ Mqtt.Generated.lifeStopWillGuarded = true ∧
    Mqtt.Generated.lifeStopCleanGuarded = true ∧
    stopTrace probeCfg 20 { probeStopSh with closed := true } (.run 0) = [] ∧
    stopTrace probeCfg 20 { probeStopSh with willFlag := false, clean := false } (.run 0) = [1, 2, 3, 4, 5, 6, 7] ∧
    stopTrace probeCfg 20 { probeStopSh with wg := 1 } (.run 0) = [1, 2, 3, 4, 5] := by decide

/-- processor, receiver, sender and stop start with a deferred recover -/
theorem facts_recover : Mqtt.Generated.lifeRecoverFirst = [true, true, true, true] := by decide

/-- what the model's goroutines do on leaving their loop: 1 = wgStopped.Done(), 2 = stop() -/
def procDeferModel : List Nat :=
  match pstep probeCfg { wg := 3 } .wgDone with
  | some (sh', .stop (.run 0)) => if sh'.wg == 2 then [1, 2] else [2]
  | _ => []

def recvDeferModel : List Nat :=
  match rstep probeCfg { wg := 3 } 1 .wgDone with
  | some (sh', .exited) => if sh'.wg == 2 then [1] else []
  | _ => []

def sendDeferModel : List Nat :=
  match sstep probeCfg { wg := 3 } .wgDone with
  | some (sh', .exited) => if sh'.wg == 2 then [1] else []
  | _ => []

/-- the processor's deferred function calls wgStopped.Done and THEN stop (the other order would
make stop wait for its own caller); receiver and sender only call Done -/
theorem facts_defers :
    Mqtt.Generated.lifeProcDefer = procDeferModel ∧ Mqtt.Generated.lifeRecvDefer = recvDeferModel ∧
    Mqtt.Generated.lifeSendDefer = sendDeferModel := by decide

def PPc.loopCode : PPc → List Nat
  | .size => [1] | .msg => [2] | .acts _ => [3] | .commit => [4] | .check => [5, 6] | _ => []

/-- program counters the processor visits for one complete packet -/
def procLoopVisit (c : Cfg) : Nat → Sh → PPc → List Nat
  | 0, _, _ => []
  | n + 1, sh, pc =>
    PPc.loopCode pc ++
    (match pstep c sh pc with
     | some (sh', pc') => procLoopVisit c n sh' pc'
     | none => [])

/-- the processor's loop: peekMessageSize, peekMessage, processIncoming, in.ReadCommit, then the
`isDone() && in.Len() == 0` test; the receiver loops over in.ReadFrom (and calls conn.Close: 3), the
sender over out.WriteTo (both with their deferred ring Close: `bufferLocks`, C15) -/
theorem facts_loops :
    procLoopVisit probeCfg 5 { inR := { buf := 4 }, stream := [⟨2, 4, .normal []⟩] } .size = Mqtt.Generated.lifeProcLoop ∧
    Mqtt.Generated.lifeRecvCalls = [1, 3] ∧ Mqtt.Generated.lifeSendCalls = [2] := by decide

def RPc.exitCode : RPc → List Nat
  | .connClose => [3] | .wgDone => [4] | _ => []

/-- what the model's receiver does from `pc` on: 3 = `conn.Close()`, 4 = return (deferred Done) -/
def recvExitVisit (c : Cfg) : Nat → Sh → RPc → List Nat
  | 0, _, _ => []
  | n + 1, sh, pc =>
    RPc.exitCode pc ++
    (match rstep c sh 1 pc with
     | some (sh', pc') => recvExitVisit c n sh' pc'
     | none => [])

/-- the socket after the model's receiver has run from `pc` to its end -/
def recvExitSock (c : Cfg) : Nat → Sh → RPc → Sock
  | 0, sh, _ => sh.sock
  | n + 1, sh, pc =>
    match rstep c sh 1 pc with
    | some (sh', pc') => recvExitSock c n sh' pc'
    | none => sh.sock

/-- **the receiver after a failed read** (b77088f): `if err != nil { …; conn.Close(); return }` —
the source has that shape, and the model's receiver, started inside a socket read that fails (the
peer has closed; the read deadline has fired), visits `conn.Close()` and then returns, leaving the
socket closed; the receiver before the repair (`recvCloses := false`) returned at once -/
theorem facts_receiver :
    Mqtt.Generated.lifeRecvOnError = [3, 4] ∧
    recvExitVisit probeCfg 8 { sock := .peerClosed } .read = Mqtt.Generated.lifeRecvOnError ∧
    recvExitVisit probeCfg 8 { timeout := true } .read = Mqtt.Generated.lifeRecvOnError ∧
    recvExitSock probeCfg 8 { timeout := true } .read = .closed ∧
    recvExitVisit { probeCfg with recvCloses := false } 8 { timeout := true } .read = [4] ∧
    recvExitSock { probeCfg with recvCloses := false } 8 { timeout := true } .read = .open := by decide

def WPc.code : WPc → List Nat
  | .check => [1] | .lock => [2, 3] | .wait => [4] | .commit => [5, 6] | _ => []

def writerVisit (c : Cfg) : Nat → Sh → WTh → List Nat
  | 0, _, _ => []
  | n + 1, sh, w =>
    WPc.code w.pc ++
    (match wstep c sh (.w 0) w with
     | some (sh', w') => writerVisit c n sh' w'
     | none => [])

/-- writeMessage: nil test, wmu.Lock with a deferred Unlock (the model releases `wmu` at every
return), WriteWait, then Write or WriteCommit -/
theorem facts_write_message :
    writerVisit probeCfg 6 {} ⟨.check, 3⟩ = Mqtt.Generated.lifeWriteMessage ∧
    (∀ sh w, wstep probeCfg {} (.w 0) ⟨.commit, 3⟩ = some (sh, w) → sh.wmu = none) := by
  refine ⟨by decide, ?_⟩
  intro sh w h
  simp [wstep, RingA.commitP, RingA.waitSpace, probeCfg] at h
  rw [← h.1]

/-- Server.Close: every outgoing ring is closed (1) before the first stop() (2) -/
theorem facts_server_close : Mqtt.Generated.lifeServerClose = [1, 2] := by decide

end Mqtt.Proofs.Lifecycle
