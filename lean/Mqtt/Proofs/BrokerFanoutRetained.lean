/-
Core E, helper lemmas: the retain step of `onPublish` against the retained trie
(C08 g), retained delivery at subscribe time (C08 h, i).
-/
import Mqtt.Proofs.BrokerFanoutOut

set_option linter.unusedSimpArgs false

namespace Mqtt.Proofs.Broker
open Mqtt.Iface.Broker Mqtt.Model.Broker
open Mqtt.Model.Topics (MemTopics RMsg SNode RNode levels validQos Level)
open Mqtt.Proofs.Topics (entryLevels)
open Mqtt.Proofs.Topics (WF RWF abs absR good REntry)
open Mqtt.Spec.Match (split validName validFilter)

/-! ### `MemTopics.retain` -/

theorem retain_sroot (mt : MemTopics) (r : RMsg) : (mt.retain r).1.sroot = mt.sroot := by
  rw [Mqtt.Proofs.Topics.retain_entry]
  split <;> rfl

theorem retain_rroot (mt : MemTopics) (r : RMsg) :
    (mt.retain r).1.rroot =
      if r.payload.isEmpty then (mt.rroot.rremoveL (entryLevels r.topic).1 (entryLevels r.topic).2).1
      else mt.rroot.rinsertL (entryLevels r.topic).1 (entryLevels r.topic).2 r := by
  rw [Mqtt.Proofs.Topics.retain_entry]
  split <;> rfl

theorem encode_some (m : Msg) (ctr : Nat) (ht : m.p.topic ≠ []) : ∃ r, m.encode ctr = some r := by
  unfold Msg.encode
  have hte : m.p.topic.isEmpty = false := by cases h : m.p.topic <;> simp_all
  simp only [hte]
  split
  · exact ⟨_, rfl⟩
  · split
    · rename_i h; simp at h
    · split <;> exact ⟨_, rfl⟩

/-! ### `retainStep` -/

theorem retainStep_noretain (b : B) (m : Msg) (hr : m.p.retain = false) : retainStep b m = (b, m) := by
  unfold retainStep; simp [hr]

/-- the parts of the state the retain step never touches -/
theorem retainStep_frame (b : B) (m : Msg) :
    (retainStep b m).1.topics.sroot = b.topics.sroot ∧ (retainStep b m).1.conns = b.conns ∧
    (retainStep b m).1.sess = b.sess ∧ (retainStep b m).1.store = b.store ∧
    (retainStep b m).1.nextRef = b.nextRef := by
  unfold retainStep
  split
  · exact ⟨rfl, rfl, rfl, rfl, rfl⟩
  · split
    · exact ⟨retain_sroot _ _, rfl, rfl, rfl, rfl⟩
    · split
      · exact ⟨retain_sroot _ _, rfl, rfl, rfl, rfl⟩
      · split
        · exact ⟨rfl, rfl, rfl, rfl, rfl⟩
        · exact ⟨retain_sroot _ _, rfl, rfl, rfl, rfl⟩

/-- of the message object the retain step changes at most the identifier (and only of a dirty object) -/
theorem retainStep_msg (b : B) (m : Msg) :
    (retainStep b m).2.p.retain = m.p.retain ∧ (retainStep b m).2.p.topic = m.p.topic ∧
    (retainStep b m).2.p.payload = m.p.payload ∧ (retainStep b m).2.p.qos = m.p.qos ∧
    (retainStep b m).2.p.dup = m.p.dup := by
  unfold retainStep
  split
  · exact ⟨rfl, rfl, rfl, rfl, rfl⟩
  · split
    · exact ⟨rfl, rfl, rfl, rfl, rfl⟩
    · split
      · exact ⟨rfl, rfl, rfl, rfl, rfl⟩
      · split
        · exact ⟨rfl, rfl, rfl, rfl, rfl⟩
        · rename_i w m' ctr he
          obtain ⟨_, _, _, _, _, h1, h2, h3, h4, h5⟩ := encode_fields _ _ _ _ _ he
          exact ⟨h1, h2, h3, h4, h5⟩

theorem encode_clean (m : Msg) (ctr : Nat) (hd : m.dirty = false) :
    ∃ w, m.encode ctr = some (w, m, ctr) := by
  unfold Msg.encode
  simp [hd]

/-- a decoded (non-dirty) message object comes back as it was, and the counter stays -/
theorem retainStep_clean (b : B) (m : Msg) (hd : m.dirty = false) :
    (retainStep b m).2 = m ∧ (retainStep b m).1.ctr = b.ctr := by
  unfold retainStep
  split
  · exact ⟨rfl, rfl⟩
  · split
    · exact ⟨rfl, rfl⟩
    · split
      · exact ⟨rfl, rfl⟩
      · obtain ⟨w, hw⟩ := encode_clean m b.ctr hd
        rw [hw]
        exact ⟨rfl, rfl⟩

/-- RETAIN = 1, empty payload: the topic's path is removed -/
theorem retainStep_clear (b : B) (m : Msg) (hr : m.p.retain = true) (hp : m.p.payload = []) :
    (retainStep b m).1.topics.rroot = (b.topics.rroot.rremoveL (entryLevels m.p.topic).1 (entryLevels m.p.topic).2).1 ∧
    (retainStep b m).2 = m := by
  unfold retainStep
  simp only [hr, hp, Bool.not_true, Bool.false_eq_true, ↓reduceIte, List.isEmpty_nil]
  rw [retain_rroot]
  simp [toRMsg, hp]

/-- RETAIN = 1, non-empty payload, a topic whose level walk succeeds: what the
encoder produced is stored under the topic's path -/
theorem retainStep_store (b : B) (m : Msg) (hr : m.p.retain = true) (hp : m.p.payload ≠ [])
    (hl : (entryLevels m.p.topic).2 = true) (ht : m.p.topic ≠ []) :
    ∃ r : RMsg, r.topic = m.p.topic ∧ r.qos = m.p.qos ∧ r.payload = m.p.payload ∧ r.retain = true ∧
      r.dup = m.p.dup ∧
      (retainStep b m).1.topics.rroot = b.topics.rroot.rinsertL (entryLevels m.p.topic).1 true r := by
  have hpe : m.p.payload.isEmpty = false := by cases h : m.p.payload <;> simp_all
  have hl' := hl
  rw [Mqtt.Proofs.Topics.entryLevels_snd, Bool.and_eq_true, Bool.not_eq_true'] at hl'
  obtain ⟨hsys, hlv⟩ := hl'
  obtain ⟨⟨w, m', ctr⟩, he⟩ := encode_some m b.ctr ht
  obtain ⟨h1, h2, h3, h4, h5, _⟩ := encode_fields _ _ _ _ _ he
  refine ⟨toRMsg w, h2, h4, h3, h1.trans hr, h5, ?_⟩
  unfold retainStep
  simp only [hr, hpe, hsys, hlv, Bool.not_true, Bool.or_self, Bool.false_eq_true, ↓reduceIte, he]
  rw [retain_rroot]
  have : (toRMsg w).payload.isEmpty = false := by simp only [toRMsg]; rw [h3]; exact hpe
  simp only [this, Bool.false_eq_true, ↓reduceIte]
  simp only [toRMsg, h2, hl]

/-! ### the retained trie against the abstract retained store -/

/-- what the specification keeps of a stored message -/
def retOf (e : REntry) : List Level × Mqtt.Spec.Broker.Ret := (e.1, ⟨e.2.topic, e.2.qos, e.2.payload⟩)

/-- the retained trie holds exactly the messages `rets`, each under the path of
its topic and with RETAIN = 1 -/
structure RetInv (root : RNode) (rets : List Mqtt.Spec.Broker.Ret) : Prop where
  wf : RWF root
  perm : ((absR root).map retOf).Perm (rets.map (fun r => (split r.topic, r)))
  flag : ∀ e ∈ absR root, e.2.retain = true


theorem RetInv_empty : RetInv RNode.empty [] :=
  ⟨Mqtt.Proofs.Topics.RWF_empty, by simp [Mqtt.Proofs.Topics.absR_empty], by simp [Mqtt.Proofs.Topics.absR_empty]⟩

theorem retOf_filter (es : List REntry) (ls : List Level) :
    (es.filter (fun e => !(e.1 == ls))).map retOf = (es.map retOf).filter (fun x => !(x.1 == ls)) := by
  rw [List.filter_map]; rfl

theorem rets_filter (rets : List Mqtt.Spec.Broker.Ret) (t : Bytes) :
    (rets.map (fun r => (split r.topic, r))).filter (fun x => !(x.1 == split t)) =
      (rets.filter (fun r => r.topic != t)).map (fun r => (split r.topic, r)) := by
  rw [List.filter_map]
  congr 1
  apply List.filter_congr
  intro r _
  simp only [Function.comp]
  by_cases h : r.topic = t
  · subst h; simp
  · have : split r.topic ≠ split t := fun hs => h (Mqtt.Proofs.Topics.split_inj _ _ hs)
    have hb : (split r.topic == split t) = false := by simpa using this
    have hb2 : (r.topic != t) = true := by simpa using h
    simp [hb, hb2]

/-- (g) one retain step against the specification's retained store, for a
topic name without empty levels that does not begin with '$' -/
theorem retainStep_refines (b : B) (m : Msg) (rets : List Mqtt.Spec.Broker.Ret)
    (h : RetInv b.topics.rroot rets) (hg : good m.p.topic = true) (hn : validName m.p.topic = true) :
    RetInv (retainStep b m).1.topics.rroot (Mqtt.Spec.Broker.retainStep { rets := rets } m.p).rets := by
  obtain ⟨e1, e2⟩ := Mqtt.Proofs.Topics.entryLevels_valid m.p.topic hg
    (Mqtt.Proofs.Topics.validName_validFilter _ hn)
  have ht : m.p.topic ≠ [] := by
    intro h0; rw [h0] at hn; exact absurd hn (by decide)
  cases hr : m.p.retain with
  | false =>
    rw [retainStep_noretain b m hr]
    simp only [Mqtt.Spec.Broker.retainStep, hr, Bool.not_false, ↓reduceIte]
    exact h
  | true =>
    by_cases hp : m.p.payload = []
    · obtain ⟨hroot, _⟩ := retainStep_clear b m hr hp
      rw [hroot, e1, e2]
      simp only [Mqtt.Spec.Broker.retainStep, hr, hp, Bool.not_true, Bool.false_eq_true, ↓reduceIte,
        List.isEmpty_nil]
      have hperm := Mqtt.Proofs.Topics.rremoveL_absR (split m.p.topic) b.topics.rroot h.wf
      refine ⟨Mqtt.Proofs.Topics.rremoveL_RWF _ _ _ h.wf, ?_, ?_⟩
      · refine (hperm.map retOf).trans ?_
        rw [retOf_filter, ← rets_filter]
        exact h.perm.filter _
      · intro e he
        have := (hperm.mem_iff).mp he
        exact h.flag e (List.mem_filter.mp this).1
    · obtain ⟨r, r1, r2, r3, r4, _, hroot⟩ := retainStep_store b m hr hp e2 ht
      have hpe : m.p.payload.isEmpty = false := by cases hx : m.p.payload <;> simp_all
      rw [hroot, e1]
      simp only [Mqtt.Spec.Broker.retainStep, hr, hpe, Bool.not_true, Bool.false_eq_true, ↓reduceIte]
      have hperm := Mqtt.Proofs.Topics.rinsertL_absR (split m.p.topic) r b.topics.rroot h.wf
      refine ⟨Mqtt.Proofs.Topics.rinsertL_RWF _ _ _ _ h.wf, ?_, ?_⟩
      · refine (hperm.map retOf).trans ?_
        simp only [List.map_append, List.map_cons, List.map_nil]
        rw [retOf_filter, ← rets_filter]
        have : retOf (split m.p.topic, r) = (split m.p.topic, ⟨m.p.topic, m.p.qos, m.p.payload⟩) := by
          simp [retOf, r1, r2, r3]
        rw [this]
        exact List.Perm.append_right _ (h.perm.filter _)
      · intro e he
        have := (hperm.mem_iff).mp he
        simp only [List.mem_append, List.mem_filter, List.mem_singleton] at this
        rcases this with hx | rfl
        · exact h.flag e hx.1
        · exact r4

end Mqtt.Proofs.Broker
