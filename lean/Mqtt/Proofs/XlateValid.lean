/-
Tie between the REGENERATED translations of the validators of package `message`
(and `topics.checkTopic`) — `Mqtt.Generated.Xlate`, produced from /repo's Go source
by extract/cmd/xlate on every check — and their hand-written model counterparts
in `Model/Codec.lean` and `Model/Topics.lean`.
-/
import Mqtt.Generated.Xlate
import Mqtt.Model.Codec
import Mqtt.Model.Topics

set_option maxRecDepth 100000

namespace Mqtt.Proofs.XlateValid

open Mqtt.Generated
open Mqtt.Generated.Xlate

/-- a predicate on bytes that holds for the 256 values holds for every byte -/
theorem forall_byte {p : UInt8 → Prop} (h : ∀ n : Fin 256, p (UInt8.ofNat n.val)) (b : UInt8) : p b := by
  have := h ⟨b.toNat, b.toNat_lt⟩
  simpa using this

/-- `message.ValidQos` ↔ the codec model's `validQos` -/
theorem ValidQos_is_source (q : UInt8) : Message.ValidQos q = Mqtt.Model.Codec.validQos q.toNat := by
  revert q
  apply forall_byte
  decide +kernel

/-- … and the topic store model's `validQos` (the same test, written there on naturals) -/
theorem ValidQos_is_topics (q : UInt8) : Message.ValidQos q = Mqtt.Model.Topics.validQos q.toNat := by
  revert q
  apply forall_byte
  decide +kernel

theorem indexByte_neg_iff (t : List UInt8) (c : UInt8) : (Go.indexByte t c == (-1 : Int)) = !t.contains c := by
  induction t with
  | nil => simp [Go.indexByte]
  | cons b rest ih =>
    have hnn : ∀ l : List UInt8, (-1 : Int) ≤ Go.indexByte l c := by
      intro l
      induction l with
      | nil => simp [Go.indexByte]
      | cons x xs ihx =>
        unfold Go.indexByte
        split
        · omega
        · show -1 ≤ (if Go.indexByte xs c < 0 then -1 else Go.indexByte xs c + 1)
          split <;> omega
    unfold Go.indexByte
    by_cases hb : b = c
    · subst hb
      simp
    · have hbc : (b == c) = false := by simpa using hb
      have hcb : (c == b) = false := by simpa using fun h => hb h.symm
      simp only [hbc, Bool.false_eq_true, ↓reduceIte, List.contains_cons, hcb, Bool.false_or]
      rw [← ih]
      have := hnn rest
      by_cases hr : Go.indexByte rest c < 0
      · have h1 : Go.indexByte rest c = -1 := by omega
        simp [h1]
      · have h2 : ¬ Go.indexByte rest c = -1 := by omega
        have h3 : ¬ Go.indexByte rest c + 1 = -1 := by omega
        have e1 : (Go.indexByte rest c + 1 == (-1 : Int)) = false := by simpa using h3
        have e2 : (Go.indexByte rest c == (-1 : Int)) = false := by simpa using h2
        simp only [hr, ↓reduceIte]
        rw [e1, e2]

/-- `message.ValidTopic` ↔ the codec model's `validTopic` -/
theorem ValidTopic_is_source (t : List UInt8) : Message.ValidTopic t = Mqtt.Model.Codec.validTopic t := by
  unfold Message.ValidTopic Mqtt.Model.Codec.validTopic
  rw [indexByte_neg_iff, indexByte_neg_iff]

/-- `message.ValidVersion` ↔ the model's `versionName` finds an entry
(`SupportedVersions` is regenerated twice: here as the map literal, in `Facts` as `supportedVersions`) -/
theorem ValidVersion_is_source (v : UInt8) :
    Message.ValidVersion v = (Mqtt.Model.Codec.versionName v.toNat).isSome := by
  revert v
  apply forall_byte
  decide +kernel

/-- the protocol names agree too -/
theorem SupportedVersions_is_source (v : UInt8) :
    Go.mapGet Message.SupportedVersions v = Mqtt.Model.Codec.versionName v.toNat := by
  revert v
  apply forall_byte
  decide +kernel

/-- `Type.Valid` ↔ the model's `validType` -/
theorem Type_Valid_is_source (t : UInt8) : Message.Type_.Valid t = Mqtt.Model.Codec.validType t.toNat := by
  revert t
  apply forall_byte
  decide +kernel

/-- `Type.DefaultFlags` ↔ the model's `defaultFlagsOf` (the `defaultFlags` table of `Facts`) -/
theorem Type_DefaultFlags_is_source (t : UInt8) :
    (Message.Type_.DefaultFlags t).toNat = Mqtt.Model.Codec.defaultFlagsOf t.toNat := by
  revert t
  apply forall_byte
  decide +kernel

/-- `ConnackCode.Valid` ↔ the bound the model's CONNACK decoder and encoder use -/
theorem ConnackCode_Valid_is_source (c : UInt8) :
    Message.ConnackCode.Valid c = decide (c.toNat ≤ connackMaxCode) := by
  revert c
  apply forall_byte
  decide +kernel

/-- `ValidConnackError`: exactly the five refusal codes, boxed as `error` -/
theorem ValidConnackError_char (e : Err) :
    Message.ValidConnackError e = true ↔ ∃ n, 1 ≤ n ∧ n ≤ 5 ∧ e = .val "message.ConnackCode" n := by
  unfold Message.ValidConnackError
  simp only [Bool.or_eq_true, beq_iff_eq]
  constructor
  · rintro ((((h | h) | h) | h) | h) <;> subst h
    · exact ⟨1, by omega, by omega, rfl⟩
    · exact ⟨2, by omega, by omega, rfl⟩
    · exact ⟨3, by omega, by omega, rfl⟩
    · exact ⟨4, by omega, by omega, rfl⟩
    · exact ⟨5, by omega, by omega, rfl⟩
  · rintro ⟨n, h1, h5, rfl⟩
    have : n = 1 ∨ n = 2 ∨ n = 3 ∨ n = 4 ∨ n = 5 := by omega
    rcases this with h | h | h | h | h <;> subst h <;> simp

/-- `topics.checkTopic` ↔ the topic store model's `checkTopic` (an error made by
`fmt.Errorf` exactly when the topic is empty or begins with '$'); never a panic:
the index `topic[0]` comes after the `len(topic) == 0` test -/
theorem checkTopic_is_source (t : List UInt8) :
    Topics.checkTopic t = .ok (if Mqtt.Model.Topics.checkTopic t then Err.dyn else Err.nil) := by
  unfold Topics.checkTopic Mqtt.Model.Topics.checkTopic Mqtt.Model.Topics.checkSys
  cases t with
  | nil => simp
  | cons b rest =>
    by_cases hb : b = 36 <;> simp [hb, Mqtt.Model.Topics.cSYS]

end Mqtt.Proofs.XlateValid
