/-
C17, wrap path — what one step inside `writeMessage` (`pcStep code`) and one consumer step do to
the ring and the scratch buffer: the ring-level invariant `ShOk` and the per-program-counter
assertion `PcOk` of the delivery in progress.
-/
import Mqtt.Proofs.WriteWrapRing

namespace Mqtt.Proofs.WriteWrap
open Mqtt.Model.WriteWrap

/-- the packet fits into the ring and its reservation `[pseq, pseq + |m|)` does not reach the
oldest unread byte (what `waitForWriteSpace` established; stable while the consumer advances) -/
def Fits (size : Nat) (sh : Sh) (m : List UInt8) : Prop :=
  m.length ≤ size ∧ sh.pseq + m.length ≤ sh.cseq + size

/-- what holds at program counter `pc` of a delivery of `m` under `wmu` -/
def PcOk (size : Nat) (sh : Sh) (m : List UInt8) : PC → Prop
  | .idle => False
  | .entered => True
  | .reserved st => st = sh.pseq ∧ Fits size sh m ∧ sh.pseq % size + m.length ≤ size
  | .encoded st => st = sh.pseq ∧ Fits size sh m ∧ readRing sh.ring size sh.pseq m.length = m
  | .commit st2 => st2 = sh.pseq ∧ Fits size sh m ∧ readRing sh.ring size sh.pseq m.length = m
  | .wrapped => Fits size sh m
  | .grown => Fits size sh m ∧ m.length ≤ sh.outtmp.length
  | .tmpEncoded n => n = m.length ∧ Fits size sh m ∧ sh.outtmp.take m.length = m
  | .copying st2 len => st2 = sh.pseq ∧ len = m.length ∧ Fits size sh m ∧ sh.outtmp.take m.length = m
  | .copied st2 len => st2 = sh.pseq ∧ len = m.length ∧ Fits size sh m ∧
      readRing sh.ring size sh.pseq m.length = m

/-- ring-level invariant; `D` = concatenation of the packets committed so far -/
structure ShOk (size : Nat) (sh : Sh) (D : List UInt8) : Prop where
  ringlen : sh.ring.length = size
  le      : sh.cseq ≤ sh.pseq
  room    : sh.pseq ≤ sh.cseq + size
  pseq    : sh.pseq = D.length
  /-- observed bytes followed by the unread bytes on the ring = the committed packets -/
  stream  : sh.got ++ readRing sh.ring size sh.cseq (sh.pseq - sh.cseq) = D

theorem PcOk.not_idle {size sh m pc} (h : PcOk size sh m pc) : pc ≠ .idle := by
  intro c; subst c; exact h

/-- a copy of `|m|` bytes to the reservation at `pseq`: the invariant stays, no cell of
`[cseq, pseq)` changes, and the bytes are read back -/
theorem put_ok {size : Nat} (hsz : 0 < size) {sh : Sh} {D m bs : List UInt8} (hS : ShOk size sh D)
    (hF : Fits size sh m) (hbs : bs.length = m.length) :
    let ring' := ringPut sh.ring bs (sh.pseq % size)
    ShOk size { sh with ring := ring' } D ∧
    ring'.length = sh.ring.length ∧
    (∀ pos, sh.cseq ≤ pos → pos < sh.pseq → ring'[pos % size]? = sh.ring[pos % size]?) ∧
    readRing ring' size sh.pseq m.length = bs := by
  intro ring'
  have hbl : bs.length ≤ size := by rw [hbs]; exact hF.1
  obtain ⟨hl, _, hu⟩ := ringPut_spec size hsz sh.ring bs sh.pseq hS.ringlen hbl
  have hle := hS.le
  refine ⟨⟨hl, hS.le, hS.room, hS.pseq, ?_⟩, by rw [hl, hS.ringlen], ?_, ?_⟩
  · show sh.got ++ readRing ring' size sh.cseq (sh.pseq - sh.cseq) = D
    rw [readRing_ringPut_other size hsz sh.ring bs sh.pseq sh.cseq (sh.pseq - sh.cseq) hS.ringlen hbl
      (by omega) (by have := hF.2; omega)]
    exact hS.stream
  · intro pos h1 h2
    apply hu
    intro j hj
    have := hF.2
    exact mod_ne_of_lt (by omega) (by omega)
  · rw [← hbs]
    exact readRing_ringPut_same size hsz sh.ring bs sh.pseq hS.ringlen hbl

/-- a step that stays inside `writeMessage`: invariant and assertion carry over, the cursors and
the observed stream do not move, and no cell holding an unread byte is written -/
theorem pcStep_goto {size : Nat} (hsz : 0 < size) {sh sh' : Sh} {D m : List UInt8} {pc pc' : PC}
    (hS : ShOk size sh D) (hP : PcOk size sh m pc) (h : pcStep code size sh m pc = .goto pc' sh') :
    ShOk size sh' D ∧ PcOk size sh' m pc' ∧ sh'.pseq = sh.pseq ∧ sh'.cseq = sh.cseq ∧ sh'.got = sh.got ∧
    sh'.ring.length = sh.ring.length ∧
    (∀ pos, sh.cseq ≤ pos → pos < sh.pseq → sh'.ring[pos % size]? = sh.ring[pos % size]?) := by
  cases pc with
  | idle => exact absurd hP id
  | entered =>
    simp only [pcStep] at h
    split at h
    · cases h
    · split at h
      · cases h
      · rename_i h1 h2
        split at h
        · cases h
          exact ⟨hS, ⟨by omega, by omega⟩, rfl, rfl, rfl, rfl, fun _ _ _ => rfl⟩
        · cases h
          exact ⟨hS, ⟨rfl, ⟨by omega, by omega⟩, by omega⟩, rfl, rfl, rfl, rfl, fun _ _ _ => rfl⟩
  | reserved st =>
    obtain ⟨rfl, hF, hnw⟩ := hP
    simp only [pcStep] at h
    cases h
    have hmod : sh.pseq % size < size := Nat.mod_lt _ hsz
    rw [encodeAt_eq_ringPut _ _ _ (by rw [hS.ringlen]; omega)]
    obtain ⟨h1, h2, h3, h4⟩ := put_ok hsz hS hF (rfl : m.length = m.length)
    exact ⟨h1, ⟨rfl, hF, h4⟩, rfl, rfl, rfl, h2, h3⟩
  | encoded st =>
    obtain ⟨rfl, hF, hb⟩ := hP
    simp only [pcStep] at h
    split at h
    · cases h
    · split at h
      · cases h
      · cases h
        exact ⟨hS, ⟨rfl, hF, hb⟩, rfl, rfl, rfl, rfl, fun _ _ _ => rfl⟩
  | commit st2 => simp only [pcStep] at h; cases h
  | wrapped =>
    have hF : Fits size sh m := hP
    simp only [pcStep] at h
    split at h
    · rename_i hc
      cases h
      refine ⟨⟨hS.ringlen, hS.le, hS.room, hS.pseq, hS.stream⟩, ⟨hF, ?_⟩, rfl, rfl, rfl, rfl, fun _ _ _ => rfl⟩
      show m.length ≤ (List.replicate m.length (0 : UInt8)).length
      simp
    · rename_i hc
      cases h
      refine ⟨hS, ⟨hF, ?_⟩, rfl, rfl, rfl, rfl, fun _ _ _ => rfl⟩
      simp only [code, Bool.true_and, decide_eq_true_eq] at hc
      omega
  | grown =>
    obtain ⟨hF, hlen⟩ := hP
    simp only [pcStep] at h
    split at h
    · cases h
    · cases h
      refine ⟨⟨hS.ringlen, hS.le, hS.room, hS.pseq, hS.stream⟩, ⟨rfl, hF, ?_⟩, rfl, rfl, rfl, rfl, fun _ _ _ => rfl⟩
      show (m ++ sh.outtmp.drop m.length).take m.length = m
      exact List.take_left
  | tmpEncoded n =>
    obtain ⟨rfl, hF, hb⟩ := hP
    simp only [pcStep, code, ↓reduceIte] at h
    split at h
    · cases h
    · split at h
      · cases h
      · cases h
        exact ⟨hS, ⟨rfl, rfl, hF, hb⟩, rfl, rfl, rfl, rfl, fun _ _ _ => rfl⟩
  | copying st2 len =>
    obtain ⟨rfl, rfl, hF, hb⟩ := hP
    simp only [pcStep] at h
    cases h
    rw [hb]
    obtain ⟨h1, h2, h3, h4⟩ := put_ok hsz hS hF (rfl : m.length = m.length)
    exact ⟨h1, ⟨rfl, rfl, hF, h4⟩, rfl, rfl, rfl, h2, h3⟩
  | copied st2 len => simp only [pcStep] at h; cases h

/-- the cursor store: the packet just written joins the committed stream -/
theorem commit_ok {size : Nat} {sh : Sh} {D m : List UInt8} (hS : ShOk size sh D) (hF : Fits size sh m)
    (hb : readRing sh.ring size sh.pseq m.length = m) :
    ShOk size { sh with pseq := sh.pseq + m.length } (D ++ m) := by
  have hle := hS.le
  refine ⟨hS.ringlen, ?_, hF.2, ?_, ?_⟩
  · show sh.cseq ≤ sh.pseq + m.length; omega
  · show sh.pseq + m.length = (D ++ m).length
    rw [List.length_append, hS.pseq]
  · show sh.got ++ readRing sh.ring size sh.cseq (sh.pseq + m.length - sh.cseq) = D ++ m
    have e : sh.pseq + m.length - sh.cseq = (sh.pseq - sh.cseq) + m.length := by omega
    have e2 : sh.cseq + (sh.pseq - sh.cseq) = sh.pseq := by omega
    rw [e, readRing_add, e2, hb, ← List.append_assoc, hS.stream]

/-- a step that leaves `writeMessage`: either the packet is committed — it fits, the ring cells are
not touched, the producer cursor advances by its length and the invariant holds with the packet
appended — or the call failed, which only happens to a packet longer than the ring and changes
nothing -/
theorem pcStep_ret {size : Nat} {sh sh' : Sh} {D m : List UInt8} {pc : PC} {ok : Bool}
    (hS : ShOk size sh D) (hP : PcOk size sh m pc) (h : pcStep code size sh m pc = .ret ok sh') :
    (ok = true ∧ m.length ≤ size ∧ ShOk size sh' (D ++ m) ∧ sh'.ring = sh.ring ∧ sh'.cseq = sh.cseq ∧
      sh'.pseq = sh.pseq + m.length ∧ sh'.got = sh.got) ∨
    (ok = false ∧ size < m.length ∧ sh' = sh) := by
  cases pc with
  | idle => exact absurd hP id
  | entered =>
    simp only [pcStep] at h
    split at h
    · rename_i hc
      cases h
      exact Or.inr ⟨rfl, hc, rfl⟩
    · split at h
      · cases h
      · split at h <;> cases h
  | reserved st => simp only [pcStep] at h; cases h
  | encoded st =>
    obtain ⟨rfl, hF, hb⟩ := hP
    simp only [pcStep] at h
    split at h
    · rename_i hc; exact absurd hF.1 (by omega)
    · split at h <;> cases h
  | commit st2 =>
    obtain ⟨rfl, hF, hb⟩ := hP
    simp only [pcStep] at h
    cases h
    exact Or.inl ⟨rfl, hF.1, commit_ok hS hF hb, rfl, rfl, rfl, rfl⟩
  | wrapped => simp only [pcStep] at h; split at h <;> cases h
  | grown =>
    obtain ⟨hF, hlen⟩ := hP
    simp only [pcStep] at h
    split at h
    · omega
    · cases h
  | tmpEncoded n =>
    obtain ⟨rfl, hF, hb⟩ := hP
    simp only [pcStep, code, ↓reduceIte] at h
    split at h
    · rename_i hc; exact absurd hF.1 (by omega)
    · split at h <;> cases h
  | copying st2 len => simp only [pcStep] at h; cases h
  | copied st2 len =>
    obtain ⟨rfl, rfl, hF, hb⟩ := hP
    simp only [pcStep] at h
    cases h
    exact Or.inl ⟨rfl, hF.1, commit_ok hS hF hb, rfl, rfl, rfl, rfl⟩

/-- the only place a delivery under `wmu` ever waits is `WriteWait`, for a packet that fits into
the ring, and then there are unread bytes for the consumer to take -/
theorem pcStep_blocked {size : Nat} {sh : Sh} {m : List UInt8} {pc : PC}
    (hP : PcOk size sh m pc) (h : pcStep code size sh m pc = .blocked) :
    pc = .entered ∧ m.length ≤ size ∧ sh.cseq < sh.pseq := by
  cases pc with
  | idle => exact absurd hP id
  | entered =>
    simp only [pcStep] at h
    split at h
    · cases h
    · split at h
      · exact ⟨rfl, by omega, by omega⟩
      · split at h <;> cases h
  | reserved st => simp only [pcStep] at h; cases h
  | encoded st =>
    obtain ⟨rfl, hF, hb⟩ := hP
    simp only [pcStep] at h
    split at h
    · cases h
    · split at h
      · rename_i hc; exact absurd hF.2 (by omega)
      · cases h
  | commit st2 => simp only [pcStep] at h; cases h
  | wrapped => simp only [pcStep] at h; split at h <;> cases h
  | grown => simp only [pcStep] at h; split at h <;> cases h
  | tmpEncoded n =>
    obtain ⟨rfl, hF, hb⟩ := hP
    simp only [pcStep, code, ↓reduceIte] at h
    split at h
    · cases h
    · split at h
      · rename_i hc; exact absurd hF.2 (by omega)
      · cases h
  | copying st2 len => simp only [pcStep] at h; cases h
  | copied st2 len => simp only [pcStep] at h; cases h

/-! ## the consumer -/

/-- the ring after the consumer has taken `n ≤ pseq - cseq` bytes -/
def consumeSh (size : Nat) (sh : Sh) (n : Nat) : Sh :=
  { sh with cseq := sh.cseq + n, got := sh.got ++ readRing sh.ring size sh.cseq n }

theorem consume_ok {size : Nat} {sh : Sh} {D : List UInt8} (hS : ShOk size sh D) (n : Nat)
    (hn : n ≤ sh.pseq - sh.cseq) : ShOk size (consumeSh size sh n) D := by
  have hle := hS.le
  have hroom := hS.room
  refine ⟨hS.ringlen, ?_, ?_, hS.pseq, ?_⟩
  · show sh.cseq + n ≤ sh.pseq; omega
  · show sh.pseq ≤ sh.cseq + n + size; omega
  · show (sh.got ++ readRing sh.ring size sh.cseq n) ++
        readRing sh.ring size (sh.cseq + n) (sh.pseq - (sh.cseq + n)) = D
    have e : sh.pseq - sh.cseq = n + (sh.pseq - (sh.cseq + n)) := by omega
    rw [List.append_assoc, ← readRing_add, ← e]
    exact hS.stream

theorem consume_pcOk {size : Nat} {sh : Sh} {m : List UInt8} {pc : PC} (hP : PcOk size sh m pc) (n : Nat) :
    PcOk size (consumeSh size sh n) m pc := by
  have hF : Fits size sh m → Fits size (consumeSh size sh n) m := by
    intro h
    refine ⟨h.1, ?_⟩
    show sh.pseq + m.length ≤ sh.cseq + n + size
    have := h.2; omega
  cases pc with
  | idle => exact hP
  | entered => exact hP
  | reserved st => exact ⟨hP.1, hF hP.2.1, hP.2.2⟩
  | encoded st => exact ⟨hP.1, hF hP.2.1, hP.2.2⟩
  | commit st2 => exact ⟨hP.1, hF hP.2.1, hP.2.2⟩
  | wrapped => exact hF hP
  | grown => exact ⟨hF hP.1, hP.2⟩
  | tmpEncoded n' => exact ⟨hP.1, hF hP.2.1, hP.2.2⟩
  | copying st2 len => exact ⟨hP.1, hP.2.1, hF hP.2.2.1, hP.2.2.2⟩
  | copied st2 len => exact ⟨hP.1, hP.2.1, hF hP.2.2.1, hP.2.2.2⟩

end Mqtt.Proofs.WriteWrap
