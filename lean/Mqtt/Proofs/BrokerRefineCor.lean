/-
Consequences of the refinement theorem in the form the property files use:
what `R` and one admitted step give for the individual kinds of events, stated
on states reached by an admitted history.
-/
import Mqtt.Proofs.BrokerRefine

set_option linter.unusedSimpArgs false

namespace Mqtt.Proofs.BrokerRefine
open Mqtt.Iface.Broker Mqtt.Model.Broker
open Mqtt.Model.Topics (MemTopics RMsg RNode)
open Mqtt.Proofs.Topics (WF RWF abs absR good entryLevels)
open Mqtt.Spec.Match (split validName validFilter topicMatches)
open Mqtt.Proofs.Broker (HeldInv RetInv heldEntry accepts specSubHeld)
open Mqtt.Proofs.BrokerQos (toOpen2 specReleaseAll)
open Mqtt.Spec.Broker (Accepts SOut Held addHeld subCode MatchGroup wild pubOf modelGroup specGroup)

/-- the states after an admitted history are related -/
theorem reach (es : List Ev) (hok : okRun {} es = true) : R (run {} es).1 (specRun {} es).1 :=
  (Broker_refines_spec es hok).1

/-- one more admitted event after an admitted history -/
theorem reach_step (es : List Ev) (hok : okRun {} es = true) (e : Ev) (he : okEv (run {} es).1 e = true) :
    R (step (run {} es).1 e).1 (Spec.Broker.step (specRun {} es).1 e).1 ∧
    Accepts (Spec.Broker.step (specRun {} es).1 e).2 (step (run {} es).1 e).2 ∧
    Spec.Broker.step (specRun {} es).1 e = Spec.Broker.step1 (specRun {} es).1 e :=
  ⟨(step_refines _ _ e (reach es hok) he).1, (step_refines _ _ e (reach es hok) he).2,
   spec_step_eq _ e⟩

/-! ### reading an answer off `Accepts` -/

theorem matchGroup_send_inv {cb : Bool} {c : Nat} {p q : Packet} (hq : ∀ w, q ≠ Packet.publish w)
    (hm : MatchGroup cb [.send c p] [.send c q]) : p = q := by
  generalize hss : [SOut.send c p] = ss at hm
  generalize hos : [Out.send c q] = os at hm
  induction hm with
  | nil => cases hss
  | send c' p' _ _ => cases hss; cases hos; rfl
  | closed => cases hss
  | sendOrClose_sent => cases hss
  | sendOrClose_closed => cases hss
  | refused_plain => cases hss
  | refused_code => cases hss
  | pool pool run hp _ hr _ _ _ ih =>
    -- the pool is empty (a `send` is no pool item), so is the run (a non-PUBLISH packet is no PUBLISH item)
    cases pool with
    | cons x xs =>
      simp only [List.cons_append, List.cons.injEq] at hss
      have := hp x (List.mem_cons_self ..)
      rw [← hss.1] at this; cases this
    | nil =>
      cases run with
      | cons y ys =>
        simp only [List.cons_append, List.cons.injEq] at hos
        have := hr y (List.mem_cons_self ..)
        rw [← hos.1] at this
        cases q <;> first | exact absurd rfl (hq _) | cases this
      | nil =>
        simp only [List.nil_append] at hss hos
        exact ih hss hos

/-- a single packet demanded of a connection, a single packet written to it: the same packet -/
theorem accepts_send_inv {c : Nat} {p q : Packet} (hq : ∀ w, q ≠ Packet.publish w)
    (h : Accepts [.send c p] [.send c q]) : p = q := by
  rcases h with h | ⟨_, h⟩
  · simp [Spec.Broker.isUnspecified] at h
  · have hg := h c
    have h1 : specGroup c [SOut.send c p] = [SOut.send c p] := by
      simp [specGroup, Spec.Broker.SOut.owner, Spec.Broker.isEmptyRetained]
    have h2 : modelGroup c [Out.send c q] = [Out.send c q] := by simp [modelGroup, Spec.Broker.outOwner]
    rw [h1, h2] at hg
    exact matchGroup_send_inv hq hg

/-! ### C01: who gets a PUBLISH -/

/-- the PUBLISH items the fan-out of `p` addresses to `g` are, with DUP and
identifier wildcarded and as a multiset, one copy per matching subscription the
reference broker holds for `g` (at the lower of the two QoS) - nothing if `g`
holds none -/
theorem publish_copies {b : B} {s : Spec.Broker.S} (h : R b s) (m : Msg)
    (hg : good m.p.topic = true) (hn : validName m.p.topic = true) (hq : m.p.qos ≤ 2)
    (hok : m.p.pktid ≠ 0 ∨ m.dirty = true ∨ m.p.qos = 0) (g : Nat) :
    (((modelGroup g (onPublish b m).2.2.1).filterMap pubOf).map wild).Perm
      ((s.held.filter (fun x => topicMatches x.filter m.p.topic && x.owner == g)).map
        (fun x => mkCopy m.p.topic m.p.payload (min m.p.qos x.qos))) ∧
    (∀ y ∈ (onPublish b m).2.2.1, okOut y = true) := by
  obtain ⟨_, _, _, fan⟩ := onPublish_refines b m s h.inv.wf h.held h.owners h.rets h.retIds hg hn hq hok
  refine ⟨?_, fan.outs⟩
  have := fan.perm g
  rw [spec_accept_snd, copies_fanout, matching_congr s _ (spec_retainStep_held s m.p)] at this
  refine this.trans ?_
  unfold Spec.Broker.matching
  rw [List.filter_filter]
  have : (fun (a : Held) => a.owner == g && topicMatches a.filter m.p.topic) =
      (fun x => topicMatches x.filter m.p.topic && x.owner == g) := by
    funext a; exact Bool.and_comm _ _
  rw [this]

/-- ... in particular nothing at all for somebody without a matching subscription -/
theorem publish_nobody_else {b : B} {s : Spec.Broker.S} (h : R b s) (m : Msg)
    (hg : good m.p.topic = true) (hn : validName m.p.topic = true) (hq : m.p.qos ≤ 2)
    (hok : m.p.pktid ≠ 0 ∨ m.dirty = true ∨ m.p.qos = 0) (g : Nat)
    (hno : ∀ x ∈ s.held, x.owner = g → topicMatches x.filter m.p.topic = false) :
    modelGroup g (onPublish b m).2.2.1 = [] := by
  obtain ⟨hp, hout⟩ := publish_copies h m hg hn hq hok g
  have hnil : (s.held.filter (fun x => topicMatches x.filter m.p.topic && x.owner == g)) = [] := by
    rw [List.filter_eq_nil_iff]
    intro x hx
    by_cases hxg : x.owner = g
    · simp [hno x hx hxg]
    · simp [hxg]
  rw [hnil] at hp
  have h0 : (modelGroup g (onPublish b m).2.2.1).filterMap pubOf = [] := by
    have := hp.length_eq
    simp only [List.map_nil, List.length_nil, List.length_map] at this
    exact List.length_eq_zero_iff.mp this
  cases hmg : modelGroup g (onPublish b m).2.2.1 with
  | nil => rfl
  | cons y ys =>
    exfalso
    have hy : y ∈ (onPublish b m).2.2.1 := (mem_modelGroup (by rw [hmg]; exact List.mem_cons_self ..)).1
    have := okOut_pub (hout y hy)
    rw [hmg, List.filterMap_cons] at h0
    cases hpy : pubOf y with
    | none => rw [hpy] at this; cases this
    | some w => rw [hpy] at h0; cases h0

/-! ### C07 / C08: SUBSCRIBE, UNSUBSCRIBE -/

theorem R.retTop {b : B} {s : Spec.Broker.S} (h : R b s) : ∀ e ∈ absR b.topics.rroot, e.2.topic ≠ [] := by
  intro e he
  have hm : Mqtt.Proofs.Broker.retOf e ∈ (absR b.topics.rroot).map Mqtt.Proofs.Broker.retOf :=
    List.mem_map.mpr ⟨e, he, rfl⟩
  have := h.rets.perm.mem_iff.mp hm
  obtain ⟨r, hr, hre⟩ := List.mem_map.mp this
  have hn := h.retsOk r hr
  have ht : r.topic = e.2.topic := by
    have := congrArg (fun x => x.2.topic) hre
    simpa [Mqtt.Proofs.Broker.retOf] using this
  intro h0
  rw [ht, h0] at hn
  exact absurd hn (by decide)

/-- SUBSCRIBE on a live connection: the SUBACK comes first and carries the
reference broker's return codes; afterwards the trie holds exactly the
subscriptions the reference broker holds; the PUBLISH items that follow are,
wildcarded and as a multiset, the retained messages the reference broker demands
for the granted filters (RETAIN = 1) -/
theorem subscribe_refines {b : B} {s : Spec.Broker.S} (h : R b s) (c : Nat) (hl : b.alive c = true) (id : Nat)
    (ts : List (Bytes × Nat)) (hg : ∀ tq ∈ ts, good tq.1 = true) :
    (∃ rest, (step b (.packet c (.subscribe id ts))).2 =
        .send c (.suback id (ts.map (fun t => subCode t.1 t.2))) :: rest ∧
      ((rest.filterMap pubOf).map wild).Perm
        ((((ts.zip (ts.map (fun t => subCode t.1 t.2))).filter (fun p => p.2 != 0x80)).map
          (fun p => Spec.Broker.retainedFor s p.1.1 p.2)).flatten) ∧
      ∀ y ∈ rest, ∃ w, y = .send c (.publish w) ∧ w.retain = true) ∧
    (Spec.Broker.step1 s (.packet c (.subscribe id ts))).1.held = specSubHeld c ts s.held ∧
    HeldInv (step b (.packet c (.subscribe id ts))).1.topics.sroot (specSubHeld c ts s.held) := by
  obtain ⟨cn, σ, k, hc, ha, hs, hk, hrel⟩ := h.liveConn hl
  have hstep : step b (.packet c (.subscribe id ts)) = packet b c (.subscribe id ts) := rfl
  have hheldeq : (Spec.Broker.step1 s (.packet c (.subscribe id ts))).1.held = specSubHeld c ts s.held := by
    simp only [Spec.Broker.step1, hk, Mqtt.Proofs.Broker.specSubHeld_eq]
  refine ⟨?_, hheldeq, ?_⟩
  · rw [hstep, Mqtt.Proofs.Broker.packet_subscribe_out b h.inv c id ts hl h.retTop]
    have hcodes : ts.map (fun tq => Mqtt.Proofs.Broker.modelCode tq.1 tq.2) = ts.map (fun t => subCode t.1 t.2) := by
      apply List.map_congr_left
      intro tq htq
      exact Mqtt.Proofs.Broker.modelCode_good tq.1 tq.2 (hg tq htq)
    rw [hcodes]
    refine ⟨_, rfl, ?_, ?_⟩
    · refine (subscribe_retained_perm b.topics s h.rets c ts hg).trans ?_
      have : ((ts.zip (ts.map (fun t => subCode t.1 t.2))).filter (fun p => p.2 != 0x80)).map
          (fun p => (Spec.Broker.retainedFor s p.1.1 p.2).map wild) =
          ((ts.zip (ts.map (fun t => subCode t.1 t.2))).filter (fun p => p.2 != 0x80)).map
          (fun p => Spec.Broker.retainedFor s p.1.1 p.2) := by
        apply List.map_congr_left
        intro p _
        exact map_wild_retainedFor s p.1.1 p.2
      rw [this]
    · intro y hy
      obtain ⟨tq, _, hy⟩ := List.mem_flatMap.mp hy
      split at hy
      · rename_i hacc
        obtain ⟨r, hr, rfl⟩ := List.mem_map.mp hy
        obtain ⟨e, he, rfl⟩ := Mqtt.Proofs.Broker.retainedOf_mem b.topics tq.1 h.inv.rwf
          (Mqtt.Proofs.Broker.accepts_levels _ _ hacc) r hr
        exact ⟨_, rfl, h.inv.rflag e he⟩
      · cases hy
  · have := (step_subscribe h c hl id ts hg).1.held
    rw [hheldeq] at this
    exact this

/-- UNSUBSCRIBE on a live connection -/
theorem unsubscribe_refines {b : B} {s : Spec.Broker.S} (h : R b s) (c : Nat) (hl : b.alive c = true) (id : Nat)
    (ts : List Bytes) (hg : ∀ t ∈ ts, good t = true) :
    (step b (.packet c (.unsubscribe id ts))).2 = [.send c (.unsuback id)] ∧
    (Spec.Broker.step1 s (.packet c (.unsubscribe id ts))).1.held =
      s.held.filter (fun x => !(x.owner == c && ts.contains x.filter)) ∧
    HeldInv (step b (.packet c (.unsubscribe id ts))).1.topics.sroot
      (s.held.filter (fun x => !(x.owner == c && ts.contains x.filter))) := by
  obtain ⟨cn, σ, k, hc, ha, hs, hk, hrel⟩ := h.liveConn hl
  have hheldeq : (Spec.Broker.step1 s (.packet c (.unsubscribe id ts))).1.held =
      s.held.filter (fun x => !(x.owner == c && ts.contains x.filter)) := by
    simp only [Spec.Broker.step1, hk]
  refine ⟨?_, hheldeq, ?_⟩
  · show (packet b c (.unsubscribe id ts)).2 = _
    rw [Mqtt.Proofs.Broker.packet_unsubscribe b c cn σ id ts hc ha hs]
    exact Mqtt.Proofs.BrokerQos.send_alive hl _
  · have := (step_unsubscribe h c hl id ts hg).1.held
    rw [hheldeq] at this
    exact this

/-! ### C09: the will -/

/-- the end of a live connection: DISCONNECT closes and publishes nothing; any
other end is accepted by the reference broker's `endConn`, which publishes the
will of the connection's own CONNECT - the record `k` the reference broker keeps
of the connection carries the will, flag and message object of the model's
session agree with it -/
theorem end_refines {b : B} {s : Spec.Broker.S} (h : R b s) (c : Nat) (hl : b.alive c = true) :
    (step b (.packet c .disconnect)).2 = [.closed c] ∧
    Accepts (Spec.Broker.endConn s c false).2 (step b (.close c)).2 ∧
    ∃ σ k, liveSess b c = some σ ∧ Spec.Broker.getConn s c = some k ∧
      σ.willFlag = k.will.isSome ∧ σ.will = k.will.map willMsg ∧
      (k.will = none → (step b (.close c)).2 = [.closed c]) ∧
      (∀ w, k.will = some w →
        (step b (.close c)).2 = .closed c :: (onPublish (Mqtt.Proofs.BrokerLife.stopBase b c σ) (willMsg w)).2.2.1 ∧
        (Spec.Broker.endConn s c false).2 = .closed c :: (Spec.Broker.accept (endSpec s c k)
          { qos := w.qos, retain := w.retain, topic := w.topic, payload := w.payload }).2) := by
  obtain ⟨cn, σ, k, hc, ha, hs, hk, hrel⟩ := h.liveConn hl
  refine ⟨Mqtt.Proofs.BrokerLife.packet_disconnect b c cn σ hc ha hs, (step_close h c).2,
    σ, k, liveSess_eq hc ha hs, hk, hrel.willFlag, hrel.will, ?_, ?_⟩
  · intro hw
    have : σ.willFlag = false := by rw [hrel.willFlag, hw]; rfl
    exact Mqtt.Proofs.BrokerLife.stop_out_nowill b c cn σ hc ha hs this
  · intro w hw
    have hf : σ.willFlag = true := by rw [hrel.willFlag, hw]; rfl
    have hσw : σ.will = some (willMsg w) := by rw [hrel.will, hw]; rfl
    refine ⟨Mqtt.Proofs.BrokerLife.stop_out_will b c cn σ (willMsg w) hc ha hs hf hσw, ?_⟩
    rw [spec_endConn_eq s c k false hk, hw]

/-! ### C10 / C11: the first packet -/

/-- the session a CleanSession=0 CONNECT finds in the reference broker -/
def specPrior (s : Spec.Broker.S) (c : Nat) (req : Connect) : Option (List (Bytes × Nat) × List (Nat × Bool × Pub)) :=
  if specClean req then none else s.stored.lookup (specCid c req)

theorem spec_first_out (s : Spec.Broker.S) (c : Nat) (req : Connect) (a : Bool)
    (h : Spec.Broker.refusals req a = []) :
    (Spec.Broker.first s c (.connect req) a).2 = [.send c (.connack (specPrior s c req).isSome 0)] ∧
    (Spec.Broker.first s c (.connect req) a).1.held =
      ((specPrior s c req).getD ([], [])).1.foldl (fun h p => addHeld h c p.1 p.2) s.held := by
  unfold specPrior specClean specCid anonSpec
  simp only [Spec.Broker.first, h, List.isEmpty_nil, Bool.not_true, Bool.false_eq_true, ↓reduceIte, Spec.Broker.setConn]
  trivial

/-- an accepted CONNECT (admitted by `okEv`): first the live connection that
carries the client identifier - if there is one - is ended on both sides
(`takeOver_refines`; states `b0`, `s0`); then the CONNACK: its SessionPresent flag
is the reference broker's - CleanSession = 0 and a session stored under the client
identifier *after the take-over* (so a persistent session taken over is resumed,
a clean one is not) -, and afterwards the trie holds exactly what the reference
broker holds, the stored subscriptions of the client re-established for the new
connection included -/
theorem connect_refines {b : B} {s : Spec.Broker.S} (h : R b s) (c : Nat) (req : Connect) (a : Bool)
    (hok : okEv b (.first c (.connect req) a) = true)
    (hacc : Mqtt.Proofs.BrokerLife.accepts (.connect req) a = true) :
    R (takeOver b (.connect req) a).1 (Spec.Broker.takeOver s (.connect req) a).1 ∧
    (step b (.first c (.connect req) a)).2 = (takeOver b (.connect req) a).2 ++
      [.send c (.connack (specPrior (Spec.Broker.takeOver s (.connect req) a).1 c req).isSome 0)] ∧
    (Spec.Broker.step1 s (.first c (.connect req) a)).2 = (Spec.Broker.takeOver s (.connect req) a).2 ++
      [.send c (.connack (specPrior (Spec.Broker.takeOver s (.connect req) a).1 c req).isSome 0)] ∧
    HeldInv (step b (.first c (.connect req) a)).1.topics.sroot
      (((specPrior (Spec.Broker.takeOver s (.connect req) a).1 c req).getD ([], [])).1.foldl
        (fun h p => addHeld h c p.1 p.2) (Spec.Broker.takeOver s (.connect req) a).1.held) := by
  have href : Spec.Broker.refusals req a = [] := (Mqtt.Proofs.BrokerLife.refusals_nil_iff req a).mpr hacc
  have hok' := hok
  simp only [okEv, Bool.and_eq_true, decide_eq_true_eq, Bool.not_eq_true'] at hok'
  obtain ⟨⟨hclt, hdead⟩, hreq⟩ := hok'
  simp only [hacc, Bool.not_true, Bool.false_or] at hreq
  have hwok : ∀ w, req.will = some w → willOk w = true := by
    intro w hw; rw [hw] at hreq; exact hreq
  obtain ⟨r0, hd0, hcf0, _⟩ := takeOver_refines h c req a hacc hdead
  obtain ⟨r1, sp, e1, e2⟩ := first_accepted_refines r0 c req a hacc hclt hd0 hwok hcf0
  obtain ⟨o1, o2⟩ := spec_first_out (Spec.Broker.takeOver s (.connect req) a).1 c req a href
  have hsp : sp = (specPrior (Spec.Broker.takeOver s (.connect req) a).1 c req).isSome := by
    rw [o1] at e2
    simpa using e2.symm
  refine ⟨r0, ?_, ?_, ?_⟩
  · rw [Mqtt.Proofs.Connect.step_first_eq, Mqtt.Proofs.Connect.connect_eq, e1, hsp]
  · rw [spec_step_first_eq, o1]
  · have := r1.held
    rw [o2] at this
    rw [Mqtt.Proofs.Connect.step_first_eq, Mqtt.Proofs.Connect.connect_eq]
    exact this

/-- SessionPresent after a take-over: the CONNECT finds a session of the client exactly when
the connection it took over had CleanSession = 0 (its session was kept at its end) - and
resumes it exactly when it has CleanSession = 0 itself -/
theorem takeOver_prior {b : B} {s : Spec.Broker.S} (h : R b s) (c : Nat) (req : Connect)
    (hne : req.clientId.isEmpty = false) (hreal : realCid req.clientId = true)
    (c0 : Nat) (σ : Sess) (hσ : liveSess b c0 = some σ) (hcid : σ.cid = req.clientId) :
    ∃ k, Spec.Broker.getConn s c0 = some k ∧ k.clean = σ.clean ∧
      (specPrior (Spec.Broker.endConn s c0 false).1 c req).isSome = (!req.clean && !k.clean) := by
  obtain ⟨k, hk, hrel⟩ := h.live c0 σ hσ
  have hkc : k.cid = req.clientId := by
    rcases hrel.cid with ⟨e1, _⟩ | ⟨e1, _, _⟩
    · rw [← e1, hcid]
    · rw [hcid] at e1; rw [e1, anonId_not_real] at hreal; cases hreal
  refine ⟨k, hk, hrel.clean.symm, ?_⟩
  have hst : (Spec.Broker.endConn s c0 false).1.stored = (endSpec s c0 k).stored := by
    rw [spec_endConn_eq s c0 k false hk]
    cases k.will with
    | none => rfl
    | some w => exact (spec_retainStep_frame _ _).2.1
  unfold specPrior specClean specCid
  simp only [hne, Bool.or_false, Bool.false_eq_true, ↓reduceIte, hst, endSpec, hkc]
  cases req.clean with
  | true => simp
  | false =>
    simp only [Bool.false_eq_true, ↓reduceIte, Bool.not_false, Bool.true_and]
    cases k.clean with
    | true => simp only [↓reduceIte]; rw [lookup_filter_self']; rfl
    | false => simp [List.lookup_cons]

/-- the reference broker's reasons to refuse a first packet -/
def reasons (f : First) (a : Bool) : List (Option Nat) :=
  match f with
  | .connect req => Spec.Broker.refusals req a
  | _ => [none]

/-- a first packet that is not an acceptable CONNECT (on a connection number not
in use): nothing changes, and the answer is one of those the reference broker's
list of reasons allows - a close without CONNACK where `none` is listed (always
for a non-CONNECT packet), or a CONNACK with one of the listed codes and a close -/
theorem refusal_refines {b : B} (c : Nat) (f : First) (a : Bool)
    (hacc : Mqtt.Proofs.BrokerLife.accepts f a = false) (s : Spec.Broker.S) :
    (step b (.first c f a)).1 = b ∧ (Spec.Broker.step1 s (.first c f a)).1 = s ∧
    ∃ codes, (Spec.Broker.step1 s (.first c f a)).2 = [.refused c codes] ∧
      codes = reasons f a ∧
      (((step b (.first c f a)).2 = [.closed c] ∧ none ∈ codes) ∨
       ∃ k, k ≠ 0 ∧ some k ∈ codes ∧ (step b (.first c f a)).2 = [.send c (.connack false k), .closed c]) := by
  cases f with
  | garbage => exact ⟨rfl, rfl, [none], rfl, rfl, .inl ⟨rfl, by simp⟩⟩
  | other t => exact ⟨rfl, rfl, [none], rfl, rfl, .inl ⟨rfl, by simp⟩⟩
  | connect req =>
    have hne : ∀ x, x ∈ Spec.Broker.refusals req a →
        Spec.Broker.step1 s (.first c (.connect req) a) = (s, [.refused c (Spec.Broker.refusals req a)]) := by
      intro x hx
      have : (!(Spec.Broker.refusals req a).isEmpty) = true := by
        cases hr : Spec.Broker.refusals req a with
        | nil => rw [hr] at hx; cases hx
        | cons _ _ => rfl
      rw [spec_step_first_eq, spec_takeOver_refused s _ a hacc]
      simp only [Spec.Broker.first, List.nil_append]
      rw [if_pos this]
    have hstep : step b (.first c (.connect req) a) = first b c (.connect req) a := by
      rw [Mqtt.Proofs.Connect.step_first_eq, Mqtt.Proofs.Connect.connect_eq,
        Mqtt.Proofs.BrokerLife.takeOver_refused b _ a hacc]
      simp
    rcases Mqtt.Proofs.BrokerLife.first_table b c req a hacc with ⟨h1, h2⟩ | ⟨k, hk, h2, h1⟩
    · rw [hstep, h1, hne _ h2]
      exact ⟨rfl, rfl, _, rfl, rfl, .inl ⟨rfl, h2⟩⟩
    · rw [hstep, h1, hne _ h2]
      exact ⟨rfl, rfl, _, rfl, rfl, .inr ⟨k, hk, h2, rfl⟩⟩

/-! ### C02: the inbound QoS 2 exchange -/

/-- PUBLISH with QoS 2 and PUBREL on a live connection: PUBREC at once and
nothing else; on PUBREL the hand-overs the reference broker demands - for the
exchanges it releases, which are the image of the model's queue - and then
PUBCOMP -/
theorem qos2_refines {b : B} {s : Spec.Broker.S} (h : R b s) (c : Nat) (hl : b.alive c = true) :
    ∃ σ k, liveSess b c = some σ ∧ Spec.Broker.getConn s c = some k ∧ k.open2 = toOpen2 σ.pub2in ∧
      (∀ p : Pub, p.qos = 2 → (step b (.packet c (.publish p))).2 = [.send c (.pubrec p.pktid)] ∧
        (Spec.Broker.step1 s (.packet c (.publish p))).2 = [.send c (.pubrec p.pktid)]) ∧
      (∀ id, ∃ outs,
        (step b (.packet c (.pubrel id))).2 = outs ++ [.send c (.pubcomp id)] ∧
        (Spec.Broker.step1 s (.packet c (.pubrel id))).2 =
          (specReleaseAll (Spec.Broker.setConn s { k with open2 := toOpen2 (q2Acked (q2Ack σ.pub2in id)).1 })
            ((q2Acked (q2Ack σ.pub2in id)).2.map (·.msg))).2 ++ [.send c (.pubcomp id)] ∧
        Fan (specReleaseAll (Spec.Broker.setConn s { k with open2 := toOpen2 (q2Acked (q2Ack σ.pub2in id)).1 })
            ((q2Acked (q2Ack σ.pub2in id)).2.map (·.msg))).2 outs) := by
  obtain ⟨cn, σ, k, hc, ha, hs, hk, hrel⟩ := h.liveConn hl
  refine ⟨σ, k, liveSess_eq hc ha hs, hk, hrel.open2, ?_, ?_⟩
  · intro p hq
    constructor
    · show (packet b c (.publish p)).2 = _
      rw [Mqtt.Proofs.BrokerQos.packet_publish2 hc ha hs p hq]
    · exact (Mqtt.Proofs.BrokerQos.spec_publish2 s c k σ.pub2in p hk hrel.open2 hq).1
  · intro id
    have hm : step b (.packet c (.pubrel id)) = _ := Mqtt.Proofs.BrokerQos.packet_pubrel hc ha hs id
    have hqi : Mqtt.Proofs.BrokerQos.QInv σ.pub2in := by
      have := h.qinv.queues cn.sess
      simpa only [Mqtt.Proofs.BrokerQos.pub2inOf, hs] using this
    have hmsg : ∀ e, e ∈ (q2Acked (q2Ack σ.pub2in id)).1 ∨ e ∈ (q2Acked (q2Ack σ.pub2in id)).2 → pubOk e.msg = true := by
      intro e he
      obtain ⟨e0, he0, hmm⟩ := mem_q2Ack (mem_q2Acked he)
      rw [hmm]; exact hrel.q2ok e0 he0
    have h1 := R_setQueue h hc ha hs hk hrel (q2Acked (q2Ack σ.pub2in id)).1
      (Mqtt.Proofs.BrokerQos.qInv_pubrel hqi id) (fun e he => hmsg e (.inl he))
    obtain ⟨_, r2⟩ := R_releaseAll (q2Acked (q2Ack σ.pub2in id)).2 h1 (fun e he => hmsg e (.inr he))
    refine ⟨_, by rw [hm], ?_, r2⟩
    rw [spec_pubrel_eq s c k σ.pub2in id hk hrel.open2]

end Mqtt.Proofs.BrokerRefine
