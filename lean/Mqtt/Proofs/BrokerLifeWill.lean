/-
Which events read the will message of a session: only `stop` with the will flag
set.  Formulated as non-interference: erasing every stored will message
(`eraseWills`) changes neither the outputs of any other event nor - up to the
erased field - the state it leads to.  Helper lemmas for C09.
-/
import Mqtt.Proofs.BrokerLifeInv

namespace Mqtt.Proofs.BrokerLife
open Mqtt.Iface.Broker Mqtt.Model.Broker
open Mqtt.Model.Topics (MemTopics)

def eraseWill (s : Sess) : Sess := { s with will := none }

/-- the same broker state with every stored will message removed (flags kept) -/
def eraseWills (b : B) : B := { b with sess := b.sess.map eraseWill }

theorem eraseWill_idem (s : Sess) : eraseWill (eraseWill s) = eraseWill s := rfl

theorem eraseWills_idem (b : B) : eraseWills (eraseWills b) = eraseWills b := by
  unfold eraseWills
  simp only [List.map_map]
  congr 1

theorem ew_alive (b : B) (c : Nat) : (eraseWills b).alive c = b.alive c := rfl
theorem ew_getConn (b : B) (c : Nat) : (eraseWills b).getConn c = b.getConn c := rfl
theorem ew_storeGet (b : B) (k : Bytes) : (eraseWills b).storeGet k = b.storeGet k := rfl

theorem ew_getSess (b : B) (r : Nat) : (eraseWills b).getSess r = (b.getSess r).map eraseWill := by
  unfold eraseWills B.getSess
  simp only
  induction b.sess with
  | nil => rfl
  | cons x xs ih =>
    rw [List.map_cons, List.find?_cons, List.find?_cons]
    have : (eraseWill x).ref = x.ref := rfl
    rw [this]
    cases x.ref == r
    · exact ih
    · rfl

theorem ew_setSess (b : B) (s : Sess) : (eraseWills b).setSess (eraseWill s) = eraseWills (b.setSess s) := by
  unfold eraseWills B.setSess
  have hany : (b.sess.map eraseWill).any (fun x => x.ref == (eraseWill s).ref) = b.sess.any (fun x => x.ref == s.ref) := by
    rw [List.any_map]; rfl
  simp only [hany]
  cases b.sess.any (fun x => x.ref == s.ref)
  · simp only [Bool.false_eq_true, ↓reduceIte, List.map_append, List.map_cons, List.map_nil]
  · simp only [↓reduceIte, List.map_map]
    congr 1
    apply List.map_congr_left
    intro x _
    show (if (eraseWill x).ref == (eraseWill s).ref then eraseWill s else eraseWill x) = eraseWill (if x.ref == s.ref then s else x)
    have h1 : (eraseWill x).ref = x.ref := rfl
    have h2 : (eraseWill s).ref = s.ref := rfl
    rw [h1, h2]
    split <;> rfl

/-- storing an object in the erased state, seen through the erasure -/
theorem ew_setSess' (b : B) (s : Sess) : eraseWills ((eraseWills b).setSess s) = eraseWills (b.setSess s) := by
  rw [← ew_setSess (eraseWills b) s, eraseWills_idem, ew_setSess]

theorem ew_storeDel (b : B) (k : Bytes) : (eraseWills b).storeDel k = eraseWills (b.storeDel k) := rfl
theorem ew_storeSet (b : B) (k : Bytes) (r : Nat) : (eraseWills b).storeSet k r = eraseWills (b.storeSet k r) := rfl
theorem ew_markDead (b : B) (c : Nat) : markDead (eraseWills b) c = eraseWills (markDead b c) := rfl

/-! ### the publish machinery does not look at session objects -/

theorem deliverConn_ew (b : B) (d : Nat) (m : Msg) :
    deliverConn (eraseWills b) d m = (eraseWills (deliverConn b d m).1, (deliverConn b d m).2) := by
  unfold deliverConn
  simp only [ew_alive]
  have hc : (eraseWills b).ctr = b.ctr := rfl
  rw [hc]
  split
  · rfl
  · split <;> rfl

theorem fanout_ew (subs : List (Nat × Nat)) : ∀ (b : B) (m : Msg),
    fanout (eraseWills b) m subs = (eraseWills (fanout b m subs).1, (fanout b m subs).2) := by
  induction subs with
  | nil => intro b m; rfl
  | cons x xs ih =>
    intro b m
    obtain ⟨s, eqos⟩ := x
    simp only [fanout]
    split
    · rw [deliverConn_ew, ih]
    · rw [ih]

theorem fanoutLive_ew (subs : List (Nat × Nat)) (b : B) (m : Msg) :
    fanoutLive (eraseWills b) m subs = (eraseWills (fanoutLive b m subs).1, (fanoutLive b m subs).2) := by
  unfold fanoutLive
  simp only
  rw [fanout_ew]

theorem retainStep_ew (b : B) (m : Msg) :
    retainStep (eraseWills b) m = (eraseWills (retainStep b m).1, (retainStep b m).2) := by
  unfold retainStep
  have hc : (eraseWills b).ctr = b.ctr := rfl
  have ht : (eraseWills b).topics = b.topics := rfl
  rw [hc, ht]
  split
  · rfl
  · split
    · rfl
    · split
      · rfl
      · split <;> rfl

theorem onPublish_ew (b : B) (m : Msg) :
    onPublish (eraseWills b) m = (eraseWills (onPublish b m).1, (onPublish b m).2) := by
  unfold onPublish
  rw [retainStep_ew]
  dsimp only
  have ht : (eraseWills (retainStep b m).1).topics = (retainStep b m).1.topics := rfl
  rw [ht]
  split
  · rfl
  · rw [fanoutLive_ew]

theorem releaseAll_ew (l : List QEntry) : ∀ b : B,
    releaseAll (eraseWills b) l = (eraseWills (releaseAll b l).1, (releaseAll b l).2) := by
  induction l with
  | nil => intro b; rfl
  | cons e es ih =>
    intro b
    simp only [releaseAll]
    rw [onPublish_ew, ih]

theorem sendRetained_ew (c : Nat) (l : List Msg) : ∀ b : B,
    sendRetained (eraseWills b) c l = (eraseWills (sendRetained b c l).1, (sendRetained b c l).2) := by
  induction l with
  | nil => intro b; rfl
  | cons m ms ih =>
    intro b
    simp only [sendRetained, ew_alive]
    have hc : (eraseWills b).ctr = b.ctr := rfl
    rw [hc]
    by_cases hal : b.alive c = true
    · simp only [hal, Bool.not_true, Bool.false_eq_true, ↓reduceIte]
      cases henc : m.encode b.ctr with
      | none => rfl
      | some r =>
        obtain ⟨wire, m', ctr⟩ := r
        have := ih { b with ctr := ctr }
        have he : eraseWills { b with ctr := ctr } = { eraseWills b with ctr := ctr } := rfl
        rw [he] at this
        simp only [this]
    · have hal' : b.alive c = false := by simpa using hal
      simp only [hal', Bool.not_false, ↓reduceIte]

theorem subscribeLoop_ew (c : Nat) (l : List (Bytes × Nat)) :
    ∀ (b : B) (s : Sess) (codes : List Nat) (rms : List Msg),
      subscribeLoop (eraseWills b) c (eraseWill s) l codes rms =
        (eraseWills (subscribeLoop b c s l codes rms).1, eraseWill (subscribeLoop b c s l codes rms).2.1,
          (subscribeLoop b c s l codes rms).2.2) := by
  induction l with
  | nil => intro b s codes rms; rfl
  | cons x xs ih =>
    intro b s codes rms
    obtain ⟨t, q⟩ := x
    simp only [subscribeLoop]
    have ht : (eraseWills b).topics = b.topics := rfl
    rw [ht]
    split
    · rename_i ts heq
      exact ih { b with topics := ts } s _ _
    · rename_i ts rq heq
      exact ih { b with topics := ts } { s with topics := (t, q) :: s.topics.filter (fun p => p.1 != t) } _ _

/-! ### `stop` without a will flag, `packet`, `first` -/

theorem send_ew (b : B) (c : Nat) (p : Packet) : send (eraseWills b) c p = send b c p := rfl

theorem stop_ew_noflag (b : B) (c : Nat) (cn : Conn) (s : Sess)
    (hc : b.getConn c = some cn) (ha : cn.alive = true) (hs : b.getSess cn.sess = some s)
    (hf : s.willFlag = false) :
    stop (eraseWills b) c = (eraseWills (stop b c).1, (stop b c).2) := by
  have hs' : (eraseWills b).getSess cn.sess = some (eraseWill s) := by rw [ew_getSess, hs]; rfl
  rw [stop_live b c cn s hc ha hs, stop_live (eraseWills b) c cn (eraseWill s) (by exact hc) ha hs']
  have hf' : (eraseWill s).willFlag = false := hf
  simp only [hf, hf', Bool.false_eq_true, ↓reduceIte]
  have hcl : (eraseWill s).clean = s.clean := rfl
  rw [hcl]
  cases s.clean <;> rfl

theorem packet_ew (b : B) (c : Nat) (p : Packet) :
    packet (eraseWills b) c p = (eraseWills (packet b c p).1, (packet b c p).2) := by
  cases hal : b.alive c with
  | false =>
    rw [packet_dead b c p hal, packet_dead (eraseWills b) c p (by exact hal)]
  | true =>
    obtain ⟨cn, hc, ha⟩ := (alive_true_iff b c).mp hal
    have hc' : (eraseWills b).getConn c = some cn := hc
    cases hs : b.getSess cn.sess with
    | none =>
      have hs' : (eraseWills b).getSess cn.sess = none := by rw [ew_getSess, hs]; rfl
      unfold packet
      simp only [hc, hc', ha, hs, hs', Bool.not_true, Bool.false_eq_true, ↓reduceIte]
    | some s =>
      have hs' : (eraseWills b).getSess cn.sess = some (eraseWill s) := by rw [ew_getSess, hs]; rfl
      cases p with
      | disconnect =>
        rw [packet_disconnect_eq b c cn s hc ha hs, packet_disconnect_eq (eraseWills b) c cn (eraseWill s) hc' ha hs']
        have h1 : (eraseWills b).setSess { eraseWill s with willFlag := false } =
            eraseWills (b.setSess { s with willFlag := false }) := ew_setSess b { s with willFlag := false }
        rw [h1]
        have hr : cn.sess = s.ref := (getSess_ref hs).symm
        refine stop_ew_noflag _ c cn { s with willFlag := false } (by exact hc) ha ?_ rfl
        rw [hr]; exact getSess_setSess b { s with willFlag := false }
      | publish pub =>
        unfold packet
        simp only [hc, hc', ha, hs, hs', Bool.not_true, Bool.false_eq_true, ↓reduceIte, send_ew, onPublish_ew]
        split
        · exact Prod.ext (ew_setSess b { s with pub2in := q2Wait s.pub2in pub }) rfl
        · split <;> rfl
      | pubrel id =>
        unfold packet
        simp only [hc, hc', ha, hs, hs', Bool.not_true, Bool.false_eq_true, ↓reduceIte]
        have h1 : (eraseWills b).setSess { eraseWill s with pub2in := (q2Acked (q2Ack (eraseWill s).pub2in id)).1 } =
            eraseWills (b.setSess { s with pub2in := (q2Acked (q2Ack s.pub2in id)).1 }) :=
          ew_setSess b { s with pub2in := (q2Acked (q2Ack s.pub2in id)).1 }
        rw [h1, releaseAll_ew]
        rfl
      | subscribe id topics =>
        unfold packet
        simp only [hc, hc', ha, hs, hs', Bool.not_true, Bool.false_eq_true, ↓reduceIte]
        rw [subscribeLoop_ew]
        dsimp only
        rw [ew_setSess, sendRetained_ew]
        rfl
      | unsubscribe id topics =>
        unfold packet
        simp only [hc, hc', ha, hs, hs', Bool.not_true, Bool.false_eq_true, ↓reduceIte, send_ew]
        exact Prod.ext (ew_setSess { b with topics := topics.foldl (fun ts t => (ts.unsubscribe t (some c)).1) b.topics }
          { s with topics := s.topics.filter (fun p => !topics.contains p.1) }) rfl
      | connack sp code => unfold packet; simp only [hc, hc', ha, hs, hs']; rfl
      | puback id => unfold packet; simp only [hc, hc', ha, hs, hs']; rfl
      | pubrec id => unfold packet; simp only [hc, hc', ha, hs, hs']; rfl
      | pubcomp id => unfold packet; simp only [hc, hc', ha, hs, hs']; rfl
      | suback id codes => unfold packet; simp only [hc, hc', ha, hs, hs']; rfl
      | unsuback id => unfold packet; simp only [hc, hc', ha, hs, hs']; rfl
      | pingreq => unfold packet; simp only [hc, hc', ha, hs, hs']; rfl
      | pingresp => unfold packet; simp only [hc, hc', ha, hs, hs']; rfl
      | connectAgain => unfold packet; simp only [hc, hc', ha, hs, hs']; rfl

theorem resumed_ew (b : B) (c : Nat) (req : Connect) :
    resumed (eraseWills b) c req = (resumed b c req).map eraseWill := by
  unfold resumed
  rw [ew_storeGet]
  cases effClean req
  · simp only [Bool.false_eq_true, ↓reduceIte]
    cases b.storeGet (effCid c req) with
    | none => rfl
    | some r =>
      simp only [Option.bind_some, ew_getSess]
      cases b.getSess r with
      | none => rfl
      | some s =>
        simp only [Option.map_some, Option.filter]
        show (if (!s.clean) = true then some (eraseWill s) else none) = _
        by_cases hcl : s.clean = true
        · simp [hcl]
        · simp [hcl]
  · rfl

theorem accepted_ew (b : B) (c : Nat) (req : Connect) :
    (accepted (eraseWills b) c req).2 = (accepted b c req).2 ∧
    eraseWills (accepted (eraseWills b) c req).1 = eraseWills (accepted b c req).1 := by
  unfold accepted
  rw [resumed_ew]
  cases resumed b c req with
  | none =>
    refine ⟨rfl, ?_⟩
    show addConn ((eraseWills ((B.setSess { eraseWills b with nextRef := b.nextRef + 1 } (newSess b c req)))).storeSet
        (effCid c req) b.nextRef) c b.nextRef =
      addConn ((eraseWills ((B.setSess { b with nextRef := b.nextRef + 1 } (newSess b c req)))).storeSet
        (effCid c req) b.nextRef) c b.nextRef
    have : ({ eraseWills b with nextRef := b.nextRef + 1 } : B) = eraseWills { b with nextRef := b.nextRef + 1 } := rfl
    rw [this, ew_setSess']
  | some s =>
    refine ⟨rfl, ?_⟩
    show ({ addConn (eraseWills ((eraseWills b).setSess (updSess s req))) c s.ref with
        topics := resubscribe b.topics c s.topics } : B) =
      { addConn (eraseWills (b.setSess (updSess s req))) c s.ref with topics := resubscribe b.topics c s.topics }
    rw [ew_setSess']

theorem first_ew (b : B) (c : Nat) (f : First) (a : Bool) :
    (first (eraseWills b) c f a).2 = (first b c f a).2 ∧
    eraseWills (first (eraseWills b) c f a).1 = eraseWills (first b c f a).1 := by
  cases f with
  | garbage => exact ⟨rfl, eraseWills_idem b⟩
  | other t => exact ⟨rfl, eraseWills_idem b⟩
  | connect req =>
    rw [first_connect, first_connect]
    have h := accepted_ew b c req
    cases levelOk req <;> cases flagsBad req <;> cases idBad req <;> cases a <;>
      first
      | exact ⟨rfl, eraseWills_idem b⟩
      | exact ⟨by simp only [Bool.not_true, Bool.false_eq_true, ↓reduceIte, h.1], h.2⟩

/-- the events that can run `stop`, the only reader of a will: the end of a
connection, and a CONNECT with a supplied client identifier (it ends an existing
connection of that client first, MQTT-3.1.4-2) -/
def mayStop : Ev → Bool
  | .close _ => true
  | .first _ (.connect req) _ => !req.clientId.isEmpty
  | _ => false

theorem takeOver_of_not_mayStop (b : B) (c : Nat) (f : First) (a : Bool) (h : mayStop (.first c f a) = false) :
    takeOver b f a = (b, []) := by
  rcases Mqtt.Proofs.Connect.takeOver_cases b f a with h0 | ⟨req, rfl, _, _, hne, _⟩
  · exact h0
  · simp [mayStop, hne] at h

/-- Every event that does not run `stop` produces the same
outputs whether or not the sessions hold will messages, and leads to the same
state up to the will messages. -/
theorem step_ew (b : B) (e : Ev) (h : mayStop e = false) :
    (step (eraseWills b) e).2 = (step b e).2 ∧
    eraseWills (step (eraseWills b) e).1 = eraseWills (step b e).1 := by
  cases e with
  | first c f a =>
    rw [Mqtt.Proofs.Connect.step_first_eq, Mqtt.Proofs.Connect.step_first_eq, Mqtt.Proofs.Connect.connect_eq,
      Mqtt.Proofs.Connect.connect_eq, takeOver_of_not_mayStop b c f a h, takeOver_of_not_mayStop (eraseWills b) c f a h]
    simpa using first_ew b c f a
  | packet c p =>
    show (packet (eraseWills b) c p).2 = (packet b c p).2 ∧
      eraseWills (packet (eraseWills b) c p).1 = eraseWills (packet b c p).1
    rw [packet_ew]
    exact ⟨rfl, eraseWills_idem _⟩
  | close c => simp [mayStop] at h
  | srvPub p =>
    show (srvPub (eraseWills b) p).2 = (srvPub b p).2 ∧
      eraseWills (srvPub (eraseWills b) p).1 = eraseWills (srvPub b p).1
    unfold srvPub
    rw [onPublish_ew]
    exact ⟨rfl, eraseWills_idem _⟩
  | srvSub cb f q =>
    show (srvSub (eraseWills b) cb f q).2 = (srvSub b cb f q).2 ∧
      eraseWills (srvSub (eraseWills b) cb f q).1 = eraseWills (srvSub b cb f q).1
    unfold srvSub
    have ht : (eraseWills b).topics = b.topics := rfl
    rw [ht]
    split
    · rename_i ts _
      exact ⟨rfl, eraseWills_idem { b with topics := ts }⟩
    · rename_i ts rq _
      exact ⟨rfl, eraseWills_idem { b with topics := ts }⟩
  | srvUnsub cb f =>
    exact ⟨rfl, eraseWills_idem { b with topics := (b.topics.unsubscribe f (some cb)).1 }⟩

/-- the same for a whole sequence of such events -/
theorem run_ew (evs : List Ev) (h : ∀ e ∈ evs, mayStop e = false) : ∀ b b' : B, eraseWills b' = eraseWills b →
    (run b' evs).2 = (run b evs).2 ∧ eraseWills (run b' evs).1 = eraseWills (run b evs).1 := by
  induction evs with
  | nil => intro b b' hb; exact ⟨rfl, hb⟩
  | cons e es ih =>
    intro b b' hb
    have he := h e (by simp)
    have h1 := step_ew b e he
    have h2 := step_ew b' e he
    rw [hb] at h2
    have hs : eraseWills (step b' e).1 = eraseWills (step b e).1 := h2.2.symm.trans h1.2
    have ho : (step b' e).2 = (step b e).2 := h2.1.symm.trans h1.1
    have := ih (fun e he => h e (by simp [he])) (step b e).1 (step b' e).1 hs
    simp only [run]
    exact ⟨by rw [ho, this.1], this.2⟩

end Mqtt.Proofs.BrokerLife
