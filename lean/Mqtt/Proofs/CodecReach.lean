/-
Core A (codec): messages reachable through the public API — `Type.New()` **or a
successful `Decode`**, followed by setter calls.  While a decoded message is not
dirty, `Encode` copies the decode buffer, which `SetDup` / `SetRetain` / `SetQoS`
(within QoS > 0) / `SetPacketID` have written through; the invariant `CleanInv`
says that buffer is the reference encoding of the *current* fields.
-/
import Mqtt.Proofs.CodecAlias

set_option linter.unusedSimpArgs false
set_option linter.unusedVariables false

namespace Mqtt.Proofs.Codec

open Mqtt.Model.Codec Mqtt.Iface.Codec Mqtt.Generated
open Mqtt.Spec

/-! ## layout of the reference encoding around the packet identifier -/

theorem pub_flags (h : Hdr) : Wire.b2n (pubDup h) * 8 + pubQoS h * 2 + Wire.b2n (pubRetain h) = h.flags := by
  unfold pubDup pubQoS pubRetain Wire.b2n
  have hfl : h.flags < 16 := by unfold Hdr.flags; omega
  by_cases h1 : h.flags / 8 % 2 = 1 <;> by_cases h2 : h.flags % 2 = 1 <;> simp [h1, h2] <;> omega

theorem u8_pubQoS (h : Hdr) : (UInt8.ofNat (pubQoS h)).toNat = pubQoS h := by
  have : pubQoS h < 4 := by unfold pubQoS; omega
  simp; omega

theorem u8_pubQoS_zero (h : Hdr) : (UInt8.ofNat (pubQoS h) = 0) ↔ pubQoS h = 0 := by
  constructor
  · intro e
    have := congrArg UInt8.toNat e
    rw [u8_pubQoS] at this
    exact this
  · intro e; rw [e]; rfl

/-- the reference encoding of a PUBLISH object, spelled out -/
theorem wire_publish (h : Hdr) (t p : Bytes) (ht : h.type = 3) :
    Wire.encode (absMsg (.publish h t p)) =
      h.tf :: (Wire.varint (2 + t.length + (if pubQoS h = 0 then 0 else 2) + p.length) ++
        (Wire.str t ++ ((if pubQoS h = 0 then [] else Wire.u16 (u16of h.pid)) ++ p))) := by
  simp only [absMsg, Wire.encode, Wire.Packet.type, Wire.Packet.flags, Wire.Packet.body]
  rw [u8_pubQoS, pub_flags, ← ht, tf_eq]
  by_cases hq : pubQoS h = 0
  · have : UInt8.ofNat (pubQoS h) = 0 := (u8_pubQoS_zero h).mpr hq
    simp only [hq, this, if_true]
    simp [Wire.str]
    congr 1; omega
  · have : ¬ UInt8.ofNat (pubQoS h) = 0 := fun e => hq ((u8_pubQoS_zero h).mp e)
    simp only [hq, this, if_false]
    simp [Wire.str, Wire.u16]
    congr 1; omega

theorem wire_ack (h : Hdr) (hs : Shape (.ack h)) :
    Wire.encode (absMsg (.ack h)) = h.tf :: 2 :: Wire.u16 (u16of h.pid) := by
  obtain ⟨ht, hf⟩ := hs
  rw [← tf_eq h, hf]
  rcases ht with ht | ht | ht | ht | ht
  all_goals
    rw [ht]
    simp [absMsg, ht, Wire.encode, Wire.Packet.type, Wire.Packet.flags, Wire.Packet.body, Wire.u16,
      defaultFlagsOf, defaultFlags, Wire.varint]

theorem wire_subscribe (h : Hdr) (ts : List Bytes) (qs : List UInt8) (ht : h.type = 8) (hf : h.flags = 2) :
    Wire.encode (absMsg (.subscribe h ts qs)) =
      h.tf :: (Wire.varint (2 + (encFilters (ts.zip qs)).length) ++ (Wire.u16 (u16of h.pid) ++ encFilters (ts.zip qs))) := by
  simp only [absMsg, Wire.encode, Wire.Packet.type, Wire.Packet.flags, Wire.Packet.body]
  rw [← tf_eq h, ht, hf]
  have e : (ts.zip qs).flatMap (fun f => Wire.str f.1 ++ [f.2]) = encFilters (ts.zip qs) := rfl
  rw [e]
  have l : (Wire.u16 (u16of h.pid) ++ encFilters (ts.zip qs)).length = 2 + (encFilters (ts.zip qs)).length := by
    simp [Wire.u16]; omega
  rw [l]

theorem wire_suback (h : Hdr) (codes : Bytes) (ht : h.type = 9) (hf : h.flags = 0) :
    Wire.encode (absMsg (.suback h codes)) =
      h.tf :: (Wire.varint (2 + codes.length) ++ (Wire.u16 (u16of h.pid) ++ codes)) := by
  simp only [absMsg, Wire.encode, Wire.Packet.type, Wire.Packet.flags, Wire.Packet.body]
  rw [← tf_eq h, ht, hf]
  simp [Wire.u16]
  congr 1; omega

theorem wire_unsubscribe (h : Hdr) (ts : List Bytes) (ht : h.type = 10) (hf : h.flags = 2) :
    Wire.encode (absMsg (.unsubscribe h ts)) =
      h.tf :: (Wire.varint (2 + (encTopics ts).length) ++ (Wire.u16 (u16of h.pid) ++ encTopics ts)) := by
  simp only [absMsg, Wire.encode, Wire.Packet.type, Wire.Packet.flags, Wire.Packet.body]
  rw [← tf_eq h, ht, hf]
  have e : ts.flatMap Wire.str = encTopics ts := rfl
  rw [e]
  have l : (Wire.u16 (u16of h.pid) ++ encTopics ts).length = 2 + (encTopics ts).length := by
    simp [Wire.u16]; omega
  rw [l]

/-- the bytes of the reference encoding in front of the packet identifier … -/
def wpre : Msg → Bytes
  | .publish h t p => h.tf :: (Wire.varint (2 + t.length + 2 + p.length) ++ Wire.str t)
  | .ack h => [h.tf, 2]
  | .subscribe h ts qs => h.tf :: Wire.varint (2 + (encFilters (ts.zip qs)).length)
  | .suback h codes => h.tf :: Wire.varint (2 + codes.length)
  | .unsubscribe h ts => h.tf :: Wire.varint (2 + (encTopics ts).length)
  | _ => []

/-- … and behind it -/
def wpost : Msg → Bytes
  | .publish _ _ p => p
  | .subscribe _ ts qs => encFilters (ts.zip qs)
  | .suback _ codes => codes
  | .unsubscribe _ ts => encTopics ts
  | _ => []

/-- the packet carries an identifier on the wire -/
def HasId : Msg → Prop
  | .publish h _ _ => pubQoS h ≠ 0
  | .ack _ | .subscribe _ _ _ | .suback _ _ | .unsubscribe _ _ => True
  | _ => False

theorem wire_split (m : Msg) (hs : Shape m) (hid : HasId m) (hp : m.hdr.pid.length = 2) :
    Wire.encode (absMsg m) = wpre m ++ (m.hdr.pid ++ wpost m) := by
  cases m with
  | publish h t p =>
    have hq : ¬ pubQoS h = 0 := hid
    rw [wire_publish h t p hs]
    simp only [hq, if_false, wpre, wpost, Msg.hdr]
    rw [← pid_two h hp]
    simp
  | ack h =>
    rw [wire_ack h hs]
    simp only [wpre, wpost, Msg.hdr]
    rw [← pid_two h hp]
    simp
  | subscribe h ts qs =>
    rw [wire_subscribe h ts qs hs.1 hs.2.1]
    simp only [wpre, wpost, Msg.hdr]
    rw [← pid_two h hp]
    simp
  | suback h codes =>
    rw [wire_suback h codes hs.1 hs.2]
    simp only [wpre, wpost, Msg.hdr]
    rw [← pid_two h hp]
    simp
  | unsubscribe h ts =>
    rw [wire_unsubscribe h ts hs.1 hs.2]
    simp only [wpre, wpost, Msg.hdr]
    rw [← pid_two h hp]
    simp
  | connect h c => exact absurd hid id
  | connack h a b => exact absurd hid id
  | bare h => exact absurd hid id

theorem set_two (pre post : Bytes) (a b a' b' : UInt8) :
    ((pre ++ (a :: b :: post)).set pre.length a').set (pre.length + 1) b' = pre ++ (a' :: b' :: post) := by
  induction pre with
  | nil => rfl
  | cons x pre ih => simp only [List.cons_append, List.length_cons, List.set_cons_succ]; rw [ih]

/-! ## setters keep the shape, whatever the dirty flag -/

theorem shape_connect (h : Hdr) (c' : ConnectF) (s1 : h.type = 1) (s2 : h.flags = 0)
    (hcf : c'.connectFlags.toNat % 2 = 0) (hka : c'.keepAlive < 65536) :
    Shape (.connect { h with dirty := true } c') := ⟨s1, s2, hcf, hka⟩

theorem shape_set (m : Msg) (s : Setter) (hs : Shape m) : Shape (applySetter m s).1 := by
  cases m with
  | connect h c =>
    obtain ⟨s1, s2, s3, s4⟩ := hs
    cases s <;> simp only [applySetter]
    all_goals try exact ⟨s1, s2, s3, s4⟩
    all_goals try (split <;> first | exact ⟨s1, s2, s3, s4⟩ | skip)
    all_goals try first
      | exact shape_connect h _ s1 s2 (setBit_even _ _ s3).1 s4
      | exact shape_connect h _ s1 s2 (setBit_even _ _ s3).2.1 s4
      | exact shape_connect h _ s1 s2 (setBit_even _ _ s3).2.2.1 s4
      | exact shape_connect h _ s1 s2 (setBit_even _ _ s3).2.2.2.1 s4
      | exact shape_connect h _ s1 s2 (setBit_even _ _ s3).2.2.2.2 s4
      | exact shape_connect h _ s1 s2 s3 (Nat.mod_lt _ (by omega))
      | (split <;> first
          | exact shape_connect h _ s1 s2 (setBit_even _ _ s3).2.1 s4
          | exact shape_connect h _ s1 s2 s3 s4)
    · rename_i q hq
      simp only [Bool.not_eq_true', Bool.not_eq_false] at hq
      unfold validQos at hq
      simp only [qosAtMostOnce, qosAtLeastOnce, qosExactlyOnce, Bool.or_eq_true, beq_iff_eq] at hq
      have hw := setWq_even c.connectFlags s3
      rcases hq with (hq | hq) | hq <;> rw [hq]
      · exact shape_connect h _ s1 s2 hw.1 s4
      · exact shape_connect h _ s1 s2 hw.2.1 s4
      · exact shape_connect h _ s1 s2 hw.2.2 s4
  | connack h sp rc =>
    cases s <;> simp only [applySetter]
    all_goals first
      | exact hs
      | (simp only [Msg.setHdr, Msg.hdr, Shape, Hdr.type, Hdr.flags, (setPacketID_keeps h _).1]
         exact hs)
  | ack h =>
    cases s <;> simp only [applySetter]
    all_goals first
      | exact hs
      | (simp only [Msg.setHdr, Msg.hdr, Shape, Hdr.type, Hdr.flags, (setPacketID_keeps h _).1]
         exact hs)
  | bare h =>
    cases s <;> simp only [applySetter]
    all_goals first
      | exact hs
      | (simp only [Msg.setHdr, Msg.hdr, Shape, Hdr.type, Hdr.flags, (setPacketID_keeps h _).1, (setPacketID_keeps h _).2.1]
         exact hs)
  | suback h codes =>
    cases s <;> simp only [applySetter]
    all_goals first
      | exact hs
      | (split <;> exact hs)
      | (simp only [Msg.setHdr, Msg.hdr, Shape, Hdr.type, Hdr.flags, (setPacketID_keeps h _).1]
         exact hs)
  | unsubscribe h ts =>
    cases s <;> simp only [applySetter]
    all_goals first
      | exact hs
      | (split <;> exact hs)
      | (simp only [Msg.setHdr, Msg.hdr, Shape, Hdr.type, Hdr.flags, (setPacketID_keeps h _).1]
         exact hs)
  | subscribe h ts qs =>
    obtain ⟨s1, s2, s3⟩ := hs
    have hrm : ∀ i, (removeAt ts i).length = (removeAt qs i).length := by
      intro i; unfold removeAt
      simp only [List.length_append, List.length_take, List.length_drop]; omega
    cases s <;> simp only [applySetter]
    all_goals try first
      | exact ⟨s1, s2, s3⟩
      | (simp only [Msg.setHdr, Msg.hdr, Shape, Hdr.type, Hdr.flags, (setPacketID_keeps h _).1]
         exact ⟨s1, s2, s3⟩)
    · -- AddTopic
      split
      · exact ⟨s1, s2, s3⟩
      · split
        · exact ⟨s1, s2, by simp only [List.length_set]; exact s3⟩
        · exact ⟨s1, s2, by simp only [List.length_append, List.length_cons, List.length_nil]; omega⟩
    · -- RemoveTopic
      split
      · exact ⟨s1, s2, hrm _⟩
      · exact ⟨s1, s2, s3⟩
  | publish h t p =>
    have hs' : h.tf.toNat / 16 = 3 := hs
    cases s <;> simp only [applySetter]
    all_goals try first
      | exact hs
      | (split <;> exact hs)
      | (simp only [Msg.setHdr, Msg.hdr, Shape, Hdr.type, Hdr.flags, (setPacketID_keeps h _).1]
         exact hs)
    · -- dup
      simp only [Shape, Hdr.type, (setTf_keeps h _).1, (setBit_hi _ h.tf).1]; exact hs'
    · -- retain
      simp only [Shape, Hdr.type, (setTf_keeps h _).1, (setBit_hi _ h.tf).2]; exact hs'
    · -- qos
      rename_i v
      split
      · exact hs
      · rename_i hv
        have hv3 : v % 256 = 0 ∨ v % 256 = 1 ∨ v % 256 = 2 := by omega
        have hq := setQos_hi h.tf
        have hty : ((h.tf &&& 249) ||| UInt8.ofNat (v % 256 * 2)).toNat / 16 = 3 := by
          rcases hv3 with e | e | e <;> rw [e]
          · rw [hq.1]; exact hs'
          · rw [hq.2.1]; exact hs'
          · rw [hq.2.2]; exact hs'
        simp only []
        split
        · simp only [Shape, Hdr.type, (setTf_keeps h _).1]; exact hty
        · simp only [Shape, Hdr.type, (setTf_keeps h _).1]; exact hty

/-! ## what one setter call does to a message object -/

theorem setBit_qos (v : Bool) : ∀ b : UInt8, (setBit b 8 v).toNat % 16 / 2 % 4 = b.toNat % 16 / 2 % 4 ∧
    (setBit b 1 v).toNat % 16 / 2 % 4 = b.toNat % 16 / 2 % 4 := by
  cases v <;> (apply forall_u8; decide +kernel)

theorem setQos_qos : ∀ b : UInt8, ((b &&& 249) ||| UInt8.ofNat (0 * 2)).toNat % 16 / 2 % 4 = 0 ∧
    ((b &&& 249) ||| UInt8.ofNat (1 * 2)).toNat % 16 / 2 % 4 = 1 ∧
    ((b &&& 249) ||| UInt8.ofNat (2 * 2)).toNat % 16 / 2 % 4 = 2 := by
  apply forall_u8; decide +kernel

/-- the effect of one setter call, as far as `Encode` can tell -/
inductive Step (m : Msg) : Msg → Prop where
  /-- nothing changed (value refused, or a setter the type does not have) -/
  | same : Step m m
  /-- the object is dirty afterwards: `Encode` rebuilds the bytes from the fields -/
  | dirty (m' : Msg) : m'.hdr.dirty = true → Step m m'
  /-- PUBLISH flags written through `mtypeflags[0]`, the QoS staying zero or staying non-zero -/
  | flags (h : Hdr) (t p : Bytes) (v : UInt8) : m = .publish h t p →
      (pubQoS (h.setTf v) = 0 ↔ pubQoS h = 0) → Step m (.publish (h.setTf v) t p)
  /-- `SetPacketID` -/
  | pid (v : Nat) : v < 65536 → (∀ h c, m ≠ .connect h c) → Step m (m.setHdr (m.hdr.setPacketID v))

theorem step_of_setter (m : Msg) (s : Setter) : Step m (applySetter m s).1 := by
  have hid : ∀ v : Nat, (∀ h c, m ≠ .connect h c) → Step m (m.setHdr (m.hdr.setPacketID (v % 65536))) :=
    fun v hm => Step.pid _ (Nat.mod_lt _ (by omega)) hm
  cases m with
  | connect h c =>
    cases s <;> simp only [applySetter]
    all_goals first
      | exact Step.same
      | exact Step.dirty _ rfl
      | (split <;> first | exact Step.same | exact Step.dirty _ rfl)
  | connack h sp rc =>
    cases s <;> simp only [applySetter]
    all_goals first
      | exact Step.same
      | exact Step.dirty _ rfl
      | exact hid _ (by intro _ _ e; cases e)
  | ack h =>
    cases s <;> simp only [applySetter]
    all_goals first
      | exact Step.same
      | exact hid _ (by intro _ _ e; cases e)
  | bare h =>
    cases s <;> simp only [applySetter]
    all_goals first
      | exact Step.same
      | exact hid _ (by intro _ _ e; cases e)
  | suback h codes =>
    cases s <;> simp only [applySetter]
    all_goals first
      | exact Step.same
      | exact hid _ (by intro _ _ e; cases e)
      | (split <;> first | exact Step.same | exact Step.dirty _ rfl)
  | unsubscribe h ts =>
    cases s <;> simp only [applySetter]
    all_goals first
      | exact Step.same
      | exact hid _ (by intro _ _ e; cases e)
      | (split <;> first | exact Step.same | exact Step.dirty _ rfl)
  | subscribe h ts qs =>
    cases s <;> simp only [applySetter]
    all_goals first
      | exact Step.same
      | exact hid _ (by intro _ _ e; cases e)
      | (split <;> first | exact Step.same | exact Step.dirty _ rfl)
      | (split <;> first | exact Step.same | (split <;> exact Step.dirty _ rfl))
  | publish h t p =>
    cases s <;> simp only [applySetter]
    all_goals try first
      | exact Step.same
      | exact Step.dirty _ rfl
      | exact hid _ (by intro _ _ e; cases e)
      | (split <;> first | exact Step.same | exact Step.dirty _ rfl)
    · -- dup
      refine Step.flags h t p _ rfl ?_
      simp only [pubQoS, Hdr.flags, (setTf_keeps h _).1, (setBit_qos _ h.tf).1]
    · -- retain
      refine Step.flags h t p _ rfl ?_
      simp only [pubQoS, Hdr.flags, (setTf_keeps h _).1, (setBit_qos _ h.tf).2]
    · -- qos
      rename_i v
      split
      · exact Step.same
      · rename_i hv
        simp only []
        split
        · exact Step.dirty _ rfl
        · rename_i hcls
          refine Step.flags h t p _ rfl ?_
          have hv3 : v % 256 = 0 ∨ v % 256 = 1 ∨ v % 256 = 2 := by omega
          have hq := setQos_qos h.tf
          have hnew : pubQoS (h.setTf ((h.tf &&& 249) ||| UInt8.ofNat (v % 256 * 2))) = v % 256 := by
            simp only [pubQoS, Hdr.flags, (setTf_keeps h _).1]
            rcases hv3 with e | e | e <;> rw [e]
            · exact hq.1
            · exact hq.2.1
            · exact hq.2.2
          rw [hnew]
          simp only [ne_eq, Decidable.not_not] at hcls
          have : (pubQoS h > 0) = (v % 256 > 0) := hcls
          constructor
          · intro e; rw [e] at this; simp at this; omega
          · intro e; rw [e] at this; simp at this; omega

/-! ## the invariant of a message that is not dirty -/

/-- while a message object is not dirty: its decode buffer is the reference encoding of its current
fields, the type/flags byte is a view of the buffer's first byte, and the packet identifier (if the packet
has one on the wire) is a view of the two identifier bytes of that encoding -/
structure CleanInv (m : Msg) : Prop where
  buf : m.hdr.dbuf = Wire.encode (absMsg m)
  tfIn : m.hdr.tfInBuf = true
  pidIn : HasId m → m.hdr.pid.length = 2 ∧ m.hdr.pidOff = some (wpre m).length
  pidOut : ¬ HasId m → m.hdr.pid.length ≠ 2

theorem setHdr_hdr (m : Msg) (h' : Hdr) : (m.setHdr h').hdr = h' := by cases m <;> rfl

theorem setHdr_wpre (m : Msg) (h' : Hdr) (e : h'.tf = m.hdr.tf) : wpre (m.setHdr h') = wpre m := by
  cases m <;> simp only [Msg.setHdr, wpre, Msg.hdr] at e ⊢ <;> rw [e]

theorem setHdr_wpost (m : Msg) (h' : Hdr) : wpost (m.setHdr h') = wpost m := by
  cases m <;> rfl

theorem setHdr_hasId (m : Msg) (h' : Hdr) (e : h'.tf = m.hdr.tf) : HasId (m.setHdr h') ↔ HasId m := by
  cases m <;> simp only [Msg.setHdr, HasId, Msg.hdr, pubQoS, Hdr.flags] at e ⊢
  rw [e]

theorem wire_hd (m : Msg) (hs : Shape m) : ∃ r, Wire.encode (absMsg m) = m.hdr.tf :: r := by
  cases m with
  | publish h t p => exact ⟨_, wire_publish h t p hs⟩
  | ack h => exact ⟨_, wire_ack h hs⟩
  | subscribe h ts qs => exact ⟨_, wire_subscribe h ts qs hs.1 hs.2.1⟩
  | suback h cs => exact ⟨_, wire_suback h cs hs.1 hs.2⟩
  | unsubscribe h ts => exact ⟨_, wire_unsubscribe h ts hs.1 hs.2⟩
  | connect h c =>
    refine ⟨Wire.varint (absMsg (.connect h c)).body.length ++ (absMsg (.connect h c)).body, ?_⟩
    show UInt8.ofNat (1 * 16 + 0) :: _ = h.tf :: _
    rw [← tf_eq h, hs.1, hs.2.1]
  | connack h a b =>
    refine ⟨Wire.varint (absMsg (.connack h a b)).body.length ++ (absMsg (.connack h a b)).body, ?_⟩
    show UInt8.ofNat (2 * 16 + 0) :: _ = h.tf :: _
    rw [← tf_eq h, hs.1, hs.2]
  | bare h =>
    obtain ⟨ht, hf, _⟩ := hs
    refine ⟨[0], ?_⟩
    simp only [Msg.hdr]
    rw [← tf_eq h, hf]
    rcases ht with ht | ht | ht <;> rw [ht] <;>
      simp [absMsg, ht, Wire.encode, Wire.Packet.type, Wire.Packet.flags, Wire.Packet.body, Wire.varint]

/-- `SetPacketID(v)` on an identifier slice that is a view of `dbuf[off:off+2]` -/
def writePid (h : Hdr) (v off : Nat) : Hdr :=
  { h with pid := putU16 v,
           dbuf := (h.dbuf.set off (UInt8.ofNat (v / 256))).set (off + 1) (UInt8.ofNat (v % 256)) }

/-- a setter call that leaves the object clean keeps the invariant -/
theorem clean_step {m m' : Msg} (st : Step m m') (hs : Shape m) (hs' : Shape m') (hc : CleanInv m)
    (hd' : m'.hdr.dirty = false) : CleanInv m' := by
  cases st with
  | same => exact hc
  | dirty _ h => rw [h] at hd'; cases hd'
  | flags h t p v hm hq =>
    subst hm
    have ht : h.type = 3 := hs
    have ht' : (h.setTf v).type = 3 := hs'
    have hb : h.dbuf = Wire.encode (absMsg (.publish h t p)) := hc.buf
    have hti : h.tfInBuf = true := hc.tfIn
    have hpid : (h.setTf v).pid = h.pid := rfl
    have hpo : (h.setTf v).pidOff = h.pidOff := rfl
    have htf : (h.setTf v).tf = v := rfl
    constructor
    · show (h.setTf v).dbuf = _
      rw [wire_publish _ t p ht', htf, hpid]
      have : (h.setTf v).dbuf = h.dbuf.set 0 v := by unfold Hdr.setTf; simp only [hti, if_true]
      rw [this, hb, wire_publish h t p ht]
      by_cases h0 : pubQoS h = 0
      · have h0' := hq.mpr h0
        simp only [h0, h0', if_true, List.set_cons_zero]
      · have h0' : ¬ pubQoS (h.setTf v) = 0 := fun e => h0 (hq.mp e)
        simp only [h0, h0', if_false, List.set_cons_zero]
    · exact hti
    · intro hid
      have hid0 : HasId (.publish h t p) := fun e => hid (hq.mpr e)
      obtain ⟨a, b⟩ := hc.pidIn hid0
      refine ⟨a, ?_⟩
      show (h.setTf v).pidOff = _
      have b' : h.pidOff = some (wpre (.publish h t p)).length := b
      rw [hpo, b']
      simp only [wpre, List.length_cons]
    · intro hid
      have hid0 : ¬ HasId (.publish h t p) := fun e => hid (fun e' => e (hq.mp e'))
      exact hc.pidOut hid0
  | pid v hv hm =>
    rw [setHdr_hdr] at hd'
    have hkeep := setPacketID_keeps m.hdr v
    by_cases hv0 : v = 0
    · have : m.hdr.setPacketID v = m.hdr := by unfold Hdr.setPacketID; rw [if_pos hv0]
      rw [this]
      have : m.setHdr m.hdr = m := by cases m <;> rfl
      rw [this]; exact hc
    · by_cases hl : m.hdr.pid.length ≠ 2
      · have : (m.hdr.setPacketID v).dirty = true := by
          unfold Hdr.setPacketID; rw [if_neg hv0, if_pos hl]
        rw [this] at hd'; cases hd'
      · simp only [ne_eq, Decidable.not_not] at hl
        have hid : HasId m := by
          by_cases hid : HasId m
          · exact hid
          · exact absurd hl (hc.pidOut hid)
        obtain ⟨_, hoff⟩ := hc.pidIn hid
        have hset : m.hdr.setPacketID v = writePid m.hdr v (wpre m).length := by
          unfold Hdr.setPacketID writePid
          rw [if_neg hv0, if_neg (by simp [hl]), hoff]
        rw [hset]
        generalize hH : writePid m.hdr v (wpre m).length = H
        have Htf : H.tf = m.hdr.tf := by rw [← hH]; rfl
        have Hpid : H.pid = putU16 v := by rw [← hH]; rfl
        have Hoff : H.pidOff = m.hdr.pidOff := by rw [← hH]; rfl
        have Hin : H.tfInBuf = m.hdr.tfInBuf := by rw [← hH]; rfl
        have Hbuf : H.dbuf = (m.hdr.dbuf.set (wpre m).length (UInt8.ofNat (v / 256))).set ((wpre m).length + 1) (UInt8.ofNat (v % 256)) := by
          rw [← hH]; rfl
        have hid' : HasId (m.setHdr H) := (setHdr_hasId m H Htf).mpr hid
        have hsH : Shape (m.setHdr H) := by rw [← hH, ← hset]; exact hs'
        constructor
        · rw [setHdr_hdr, Hbuf, hc.buf, wire_split m hs hid hl]
          rw [wire_split (m.setHdr H) hsH hid' (by rw [setHdr_hdr, Hpid]; rfl)]
          rw [setHdr_hdr, setHdr_wpre m H Htf, setHdr_wpost, Hpid]
          match hp : m.hdr.pid, hl with
          | [a, b], _ =>
            simp only [List.cons_append, List.nil_append]
            rw [set_two]
            rfl
        · rw [setHdr_hdr, Hin]; exact hc.tfIn
        · intro _
          rw [setHdr_hdr, Hpid, Hoff, hoff, setHdr_wpre m H Htf]
          exact ⟨rfl, rfl⟩
        · intro hn; exact absurd hid' hn

/-! ## reachable messages -/

/-- the invariant of every message object reachable through the API from `New()` or from a decoder
whose input was a reference encoding -/
def RInv (m : Msg) : Prop := Shape m ∧ (m.hdr.dirty = false → CleanInv m)

theorem step_dirty {m m' : Msg} (st : Step m m') (hd : m.hdr.dirty = true) : m'.hdr.dirty = true := by
  cases st with
  | same => exact hd
  | dirty _ h => exact h
  | flags h t p v hm _ => subst hm; exact hd
  | pid v _ _ => rw [setHdr_hdr]; exact (setPacketID_keeps m.hdr v).2.2 hd

theorem setter_dirty (m : Msg) (s : Setter) (hd : m.hdr.dirty = true) : (applySetter m s).1.hdr.dirty = true :=
  step_dirty (step_of_setter m s) hd

theorem rinv_set (m : Msg) (s : Setter) (hi : RInv m) : RInv (applySetter m s).1 := by
  obtain ⟨hs, hc⟩ := hi
  have hs' := shape_set m s hs
  refine ⟨hs', fun hd' => ?_⟩
  have hd : m.hdr.dirty = false := by
    cases hdm : m.hdr.dirty with
    | false => rfl
    | true => rw [setter_dirty m s hdm] at hd'; cases hd'
  exact clean_step (step_of_setter m s) hs hs' (hc hd) hd'

theorem rinv_new {t : Nat} {m : Msg} (h : Msg.new t = some m) : RInv m := by
  obtain ⟨hd, hs⟩ := freshInv_new h
  exact ⟨hs, fun hc => by rw [hd] at hc; cases hc⟩

/-- the bytes a decoder accepted are the reference encoding of the fields it returned
(minimal remaining-length encoding; every CONNECT field announced by a flag present) -/
def CanonicalSrc (src : Bytes) (d : Decoded) : Prop := Wire.encode (absMsg d.msg) = src.take d.n

instance (src : Bytes) (d : Decoded) : Decidable (CanonicalSrc src d) :=
  inferInstanceAs (Decidable (Wire.encode (absMsg d.msg) = src.take d.n))

theorem shape_dec {t : Nat} {src : Bytes} {d : Decoded} (h : decodeNew t src = .ok d) : Shape d.msg :=
  (decodeNew_alias h).shape

theorem ack_body_len (h : Hdr) : (absMsg (.ack h)).body.length = 2 := by
  simp only [absMsg]
  repeat' split
  all_goals rfl

theorem rinv_dec {t : Nat} {src : Bytes} {d : Decoded} (h : decodeNew t src = .ok d) (hcan : CanonicalSrc src d) :
    RInv d.msg := by
  have ok := (decodeNew_total t src).of_ok h
  obtain ⟨hs, htf, h', hn, hdec, hbuf, hpid⟩ := decodeNew_alias h
  refine ⟨hs, fun _ => ?_⟩
  have hh := hdr_decode_ok hdec
  have hn_eq : d.n = hn + h'.remlen := by
    have e1 : d.msg.hdr.dbuf = src.take d.n := ok.dbuf
    have e2 : h'.dbuf = src.take (hn + h'.remlen) := hh.dbuf
    have := congrArg List.length (e1.symm.trans (hbuf.trans e2))
    rw [List.length_take, List.length_take] at this
    have := ok.n_le
    have := hh.fits
    omega
  obtain ⟨hhn, hL⟩ := hn_of_canonical hdec (absMsg d.msg) d.n hcan.symm ok.n_le hn_eq
  refine ⟨ok.dbuf.trans hcan.symm, htf, ?_, ?_⟩
  · intro hid
    cases hm : d.msg with
    | publish hd t p =>
      rw [hm] at hid hpid hhn hs
      have hq : ¬ pubQoS hd = 0 := hid
      simp only [PidDec, hq, if_false] at hpid
      refine ⟨hpid.1, ?_⟩
      simp only [Msg.hdr]
      rw [hpid.2, hhn]
      have hbl : (absMsg (.publish hd t p)).body.length = 2 + t.length + 2 + p.length := by
        simp only [absMsg, Wire.Packet.body]
        have : ¬ UInt8.ofNat (pubQoS hd) = 0 := fun e => hq ((u8_pubQoS_zero hd).mp e)
        simp only [this, if_false]
        simp [Wire.str, Wire.u16]; omega
      rw [hbl]
      simp [wpre, Wire.str]; omega
    | ack hd =>
      rw [hm] at hid hpid hhn hs
      refine ⟨hpid.1, ?_⟩
      simp only [Msg.hdr]
      rw [hpid.2, hhn, ack_body_len]
      rfl
    | subscribe hd ts qs =>
      rw [hm] at hid hpid hhn hs
      refine ⟨hpid.1, ?_⟩
      simp only [Msg.hdr]
      rw [hpid.2, hhn]
      have hbl : (absMsg (.subscribe hd ts qs)).body.length = 2 + (encFilters (ts.zip qs)).length := by
        show (Wire.u16 _ ++ encFilters (ts.zip qs)).length = _
        simp [Wire.u16]; omega
      rw [hbl]
      simp [wpre]; omega
    | suback hd codes =>
      rw [hm] at hid hpid hhn hs
      refine ⟨hpid.1, ?_⟩
      simp only [Msg.hdr]
      rw [hpid.2, hhn]
      have hbl : (absMsg (.suback hd codes)).body.length = 2 + codes.length := by
        show (Wire.u16 _ ++ codes).length = _
        simp [Wire.u16]; omega
      rw [hbl]
      simp [wpre]; omega
    | unsubscribe hd ts =>
      rw [hm] at hid hpid hhn hs
      refine ⟨hpid.1, ?_⟩
      simp only [Msg.hdr]
      rw [hpid.2, hhn]
      have hbl : (absMsg (.unsubscribe hd ts)).body.length = 2 + (encTopics ts).length := by
        show (Wire.u16 _ ++ encTopics ts).length = _
        simp [Wire.u16]; omega
      rw [hbl]
      simp [wpre]; omega
    | connect hd c => rw [hm] at hid; exact absurd hid id
    | connack hd a b => rw [hm] at hid; exact absurd hid id
    | bare hd => rw [hm] at hid; exact absurd hid id
  · intro hid
    cases hm : d.msg with
    | publish hd t p =>
      rw [hm] at hid hpid
      have hq : pubQoS hd = 0 := Decidable.not_not.mp hid
      simp only [PidDec, hq, if_true] at hpid
      simp only [Msg.hdr]; rw [hpid]; simp
    | ack hd => rw [hm] at hid; exact absurd trivial hid
    | subscribe hd ts qs => rw [hm] at hid; exact absurd trivial hid
    | suback hd codes => rw [hm] at hid; exact absurd trivial hid
    | unsubscribe hd ts => rw [hm] at hid; exact absurd trivial hid
    | connect hd c => rw [hm] at hpid; simp only [Msg.hdr]; rw [show hd.pid = [] from hpid]; simp
    | connack hd a b => rw [hm] at hpid; simp only [Msg.hdr]; rw [show hd.pid = [] from hpid]; simp
    | bare hd => rw [hm] at hpid; simp only [Msg.hdr]; rw [show hd.pid = [] from hpid]; simp

end Mqtt.Proofs.Codec
