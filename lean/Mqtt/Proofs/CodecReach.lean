/-
Core A (codec): messages reachable through the public API — `Type.New()` **or a
successful `Decode`**, followed by setter calls.  While a decoded message is not
dirty, `Encode` copies the decode buffer, which `SetDup` / `SetRetain` / `SetQoS`
(within QoS > 0) / `SetPacketID` have written through; the invariant `CleanInv`
says that buffer is the reference encoding of the *current* fields.
-/
import Mqtt.Proofs.CodecAlias

set_option linter.unusedSimpArgs false
set_option linter.unusedVariables false

namespace Mqtt.Proofs.Codec

open Mqtt.Model.Codec Mqtt.Iface.Codec Mqtt.Generated
open Mqtt.Spec

/-! ## layout of an encoding around the packet identifier

`Wire.encodeV V p` is the type/flags byte, the remaining-length bytes `V`, and the body of `p`
(`Wire.encode p = Wire.encodeV (Wire.varint |body|) p`). -/

theorem pub_flags (h : Hdr) : Wire.b2n (pubDup h) * 8 + pubQoS h * 2 + Wire.b2n (pubRetain h) = h.flags := by
  unfold pubDup pubQoS pubRetain Wire.b2n
  have hfl : h.flags < 16 := by unfold Hdr.flags; omega
  by_cases h1 : h.flags / 8 % 2 = 1 <;> by_cases h2 : h.flags % 2 = 1 <;> simp [h1, h2] <;> omega

theorem u8_pubQoS (h : Hdr) : (UInt8.ofNat (pubQoS h)).toNat = pubQoS h := by
  have : pubQoS h < 4 := by unfold pubQoS; omega
  simp; omega

theorem u8_pubQoS_zero (h : Hdr) : (UInt8.ofNat (pubQoS h) = 0) ↔ pubQoS h = 0 := by
  constructor
  · intro e
    have := congrArg UInt8.toNat e
    rw [u8_pubQoS] at this
    exact this
  · intro e; rw [e]; rfl

/-- the first byte of every encoding of a message's fields is its type/flags byte -/
theorem head_tf (m : Msg) (hs : Shape m) :
    UInt8.ofNat ((absMsg m).type * 16 + (absMsg m).flags) = m.hdr.tf := by
  cases m with
  | publish h t p =>
    show UInt8.ofNat (3 * 16 + (Wire.b2n (pubDup h) * 8 + (UInt8.ofNat (pubQoS h)).toNat * 2 + Wire.b2n (pubRetain h))) = h.tf
    have ht : h.type = 3 := hs
    rw [u8_pubQoS, pub_flags, ← ht, tf_eq]
  | ack h =>
    obtain ⟨ht, hf⟩ := hs
    simp only [Msg.hdr]
    rw [← tf_eq h, hf]
    rcases ht with ht | ht | ht | ht | ht <;> rw [ht] <;>
      simp [absMsg, ht, Wire.Packet.type, Wire.Packet.flags, defaultFlagsOf, defaultFlags]
  | subscribe h ts qs =>
    show UInt8.ofNat (8 * 16 + 2) = h.tf
    rw [← tf_eq h, hs.1, hs.2.1]
  | suback h cs =>
    show UInt8.ofNat (9 * 16 + 0) = h.tf
    rw [← tf_eq h, hs.1, hs.2]
  | unsubscribe h ts =>
    show UInt8.ofNat (10 * 16 + 2) = h.tf
    rw [← tf_eq h, hs.1, hs.2]
  | connect h c =>
    show UInt8.ofNat (1 * 16 + 0) = h.tf
    rw [← tf_eq h, hs.1, hs.2.1]
  | connack h a b =>
    show UInt8.ofNat (2 * 16 + 0) = h.tf
    rw [← tf_eq h, hs.1, hs.2]
  | bare h =>
    obtain ⟨ht, hf, _⟩ := hs
    simp only [Msg.hdr]
    rw [← tf_eq h, hf]
    rcases ht with ht | ht | ht <;> rw [ht] <;>
      simp [absMsg, ht, Wire.Packet.type, Wire.Packet.flags]

theorem encV_hd (V : Bytes) (m : Msg) (hs : Shape m) :
    Wire.encodeV V (absMsg m) = m.hdr.tf :: (V ++ (absMsg m).body) := by
  unfold Wire.encodeV
  rw [head_tf m hs]

theorem body_publish (h : Hdr) (t p : Bytes) :
    (absMsg (.publish h t p)).body =
      Wire.str t ++ ((if pubQoS h = 0 then [] else Wire.u16 (u16of h.pid)) ++ p) := by
  simp only [absMsg, Wire.Packet.body]
  by_cases hq : pubQoS h = 0
  · have : UInt8.ofNat (pubQoS h) = 0 := (u8_pubQoS_zero h).mpr hq
    simp only [hq, this, if_true]
    simp
  · have : ¬ UInt8.ofNat (pubQoS h) = 0 := fun e => hq ((u8_pubQoS_zero h).mp e)
    simp only [hq, this, if_false]
    simp

theorem body_ack (h : Hdr) : (absMsg (.ack h)).body = Wire.u16 (u16of h.pid) := by
  simp only [absMsg]
  repeat' split
  all_goals rfl

/-- the bytes of the body in front of the packet identifier … -/
def bpre : Msg → Bytes
  | .publish _ t _ => Wire.str t
  | _ => []

/-- … and behind it -/
def bpost : Msg → Bytes
  | .publish _ _ p => p
  | .subscribe _ ts qs => encFilters (ts.zip qs)
  | .suback _ codes => codes
  | .unsubscribe _ ts => encTopics ts
  | _ => []

/-- the packet carries an identifier on the wire -/
def HasId : Msg → Prop
  | .publish h _ _ => pubQoS h ≠ 0
  | .ack _ | .subscribe _ _ _ | .suback _ _ | .unsubscribe _ _ => True
  | _ => False

theorem body_split (m : Msg) (hid : HasId m) (hp : m.hdr.pid.length = 2) :
    (absMsg m).body = bpre m ++ (m.hdr.pid ++ bpost m) := by
  cases m with
  | publish h t p =>
    have hq : ¬ pubQoS h = 0 := hid
    rw [body_publish]
    simp only [hq, if_false, bpre, bpost, Msg.hdr]
    rw [← pid_two h hp]
  | ack h =>
    rw [body_ack]
    simp only [bpre, bpost, Msg.hdr]
    rw [← pid_two h hp]
    simp
  | subscribe h ts qs =>
    show Wire.u16 (u16of h.pid) ++ encFilters (ts.zip qs) = _
    simp only [bpre, bpost, Msg.hdr]
    rw [← pid_two h hp]
    simp
  | suback h codes =>
    show Wire.u16 (u16of h.pid) ++ codes = _
    simp only [bpre, bpost, Msg.hdr]
    rw [← pid_two h hp]
    simp
  | unsubscribe h ts =>
    show Wire.u16 (u16of h.pid) ++ encTopics ts = _
    simp only [bpre, bpost, Msg.hdr]
    rw [← pid_two h hp]
    simp
  | connect h c => exact absurd hid id
  | connack h a b => exact absurd hid id
  | bare h => exact absurd hid id

/-- an encoding with remaining-length bytes `V`, cut at the packet identifier -/
theorem encV_split (V : Bytes) (m : Msg) (hs : Shape m) (hid : HasId m) (hp : m.hdr.pid.length = 2) :
    Wire.encodeV V (absMsg m) = (m.hdr.tf :: (V ++ bpre m)) ++ (m.hdr.pid ++ bpost m) := by
  rw [encV_hd V m hs, body_split m hid hp]
  simp

theorem set_two (pre post : Bytes) (a b a' b' : UInt8) :
    ((pre ++ (a :: b :: post)).set pre.length a').set (pre.length + 1) b' = pre ++ (a' :: b' :: post) := by
  induction pre with
  | nil => rfl
  | cons x pre ih => simp only [List.cons_append, List.length_cons, List.set_cons_succ]; rw [ih]

/-! ## setters keep the shape, whatever the dirty flag -/

theorem shape_connect (h : Hdr) (c' : ConnectF) (s1 : h.type = 1) (s2 : h.flags = 0)
    (hcf : c'.connectFlags.toNat % 2 = 0) (hka : c'.keepAlive < 65536) :
    Shape (.connect { h with dirty := true } c') := ⟨s1, s2, hcf, hka⟩

theorem shape_set (m : Msg) (s : Setter) (hs : Shape m) : Shape (applySetter m s).1 := by
  cases m with
  | connect h c =>
    obtain ⟨s1, s2, s3, s4⟩ := hs
    cases s <;> simp only [applySetter]
    all_goals try exact ⟨s1, s2, s3, s4⟩
    all_goals try (split <;> first | exact ⟨s1, s2, s3, s4⟩ | skip)
    all_goals try first
      | exact shape_connect h _ s1 s2 (setBit_even _ _ s3).1 s4
      | exact shape_connect h _ s1 s2 (setBit_even _ _ s3).2.1 s4
      | exact shape_connect h _ s1 s2 (setBit_even _ _ s3).2.2.1 s4
      | exact shape_connect h _ s1 s2 (setBit_even _ _ s3).2.2.2.1 s4
      | exact shape_connect h _ s1 s2 (setBit_even _ _ s3).2.2.2.2 s4
      | exact shape_connect h _ s1 s2 s3 (Nat.mod_lt _ (by omega))
      | (split <;> first
          | exact shape_connect h _ s1 s2 (setBit_even _ _ s3).2.1 s4
          | exact shape_connect h _ s1 s2 s3 s4)
    · rename_i q hq
      simp only [Bool.not_eq_true', Bool.not_eq_false] at hq
      unfold validQos at hq
      simp only [qosAtMostOnce, qosAtLeastOnce, qosExactlyOnce, Bool.or_eq_true, beq_iff_eq] at hq
      have hw := setWq_even c.connectFlags s3
      rcases hq with (hq | hq) | hq <;> rw [hq]
      · exact shape_connect h _ s1 s2 hw.1 s4
      · exact shape_connect h _ s1 s2 hw.2.1 s4
      · exact shape_connect h _ s1 s2 hw.2.2 s4
  | connack h sp rc =>
    cases s <;> simp only [applySetter]
    all_goals first
      | exact hs
      | (simp only [Msg.setHdr, Msg.hdr, Shape, Hdr.type, Hdr.flags, (setPacketID_keeps h _).1]
         exact hs)
  | ack h =>
    cases s <;> simp only [applySetter]
    all_goals first
      | exact hs
      | (simp only [Msg.setHdr, Msg.hdr, Shape, Hdr.type, Hdr.flags, (setPacketID_keeps h _).1]
         exact hs)
  | bare h =>
    cases s <;> simp only [applySetter]
    all_goals first
      | exact hs
      | (simp only [Msg.setHdr, Msg.hdr, Shape, Hdr.type, Hdr.flags, (setPacketID_keeps h _).1, (setPacketID_keeps h _).2.1]
         exact hs)
  | suback h codes =>
    cases s <;> simp only [applySetter]
    all_goals first
      | exact hs
      | (split <;> exact hs)
      | (simp only [Msg.setHdr, Msg.hdr, Shape, Hdr.type, Hdr.flags, (setPacketID_keeps h _).1]
         exact hs)
  | unsubscribe h ts =>
    cases s <;> simp only [applySetter]
    all_goals first
      | exact hs
      | (split <;> exact hs)
      | (simp only [Msg.setHdr, Msg.hdr, Shape, Hdr.type, Hdr.flags, (setPacketID_keeps h _).1]
         exact hs)
  | subscribe h ts qs =>
    obtain ⟨s1, s2, s3⟩ := hs
    have hrm : ∀ i, (removeAt ts i).length = (removeAt qs i).length := by
      intro i; unfold removeAt
      simp only [List.length_append, List.length_take, List.length_drop]; omega
    cases s <;> simp only [applySetter]
    all_goals try first
      | exact ⟨s1, s2, s3⟩
      | (simp only [Msg.setHdr, Msg.hdr, Shape, Hdr.type, Hdr.flags, (setPacketID_keeps h _).1]
         exact ⟨s1, s2, s3⟩)
    · -- AddTopic
      split
      · exact ⟨s1, s2, s3⟩
      · split
        · exact ⟨s1, s2, by simp only [List.length_set]; exact s3⟩
        · exact ⟨s1, s2, by simp only [List.length_append, List.length_cons, List.length_nil]; omega⟩
    · -- RemoveTopic
      split
      · exact ⟨s1, s2, hrm _⟩
      · exact ⟨s1, s2, s3⟩
  | publish h t p =>
    have hs' : h.tf.toNat / 16 = 3 := hs
    cases s <;> simp only [applySetter]
    all_goals try first
      | exact hs
      | (split <;> exact hs)
      | (simp only [Msg.setHdr, Msg.hdr, Shape, Hdr.type, Hdr.flags, (setPacketID_keeps h _).1]
         exact hs)
    · -- dup
      simp only [Shape, Hdr.type, (setTf_keeps h _).1, (setBit_hi _ h.tf).1]; exact hs'
    · -- retain
      simp only [Shape, Hdr.type, (setTf_keeps h _).1, (setBit_hi _ h.tf).2]; exact hs'
    · -- qos
      rename_i v
      split
      · exact hs
      · rename_i hv
        have hv3 : v % 256 = 0 ∨ v % 256 = 1 ∨ v % 256 = 2 := by omega
        have hq := setQos_hi h.tf
        have hty : ((h.tf &&& 249) ||| UInt8.ofNat (v % 256 * 2)).toNat / 16 = 3 := by
          rcases hv3 with e | e | e <;> rw [e]
          · rw [hq.1]; exact hs'
          · rw [hq.2.1]; exact hs'
          · rw [hq.2.2]; exact hs'
        simp only []
        split
        · simp only [Shape, Hdr.type, (setTf_keeps h _).1]; exact hty
        · simp only [Shape, Hdr.type, (setTf_keeps h _).1]; exact hty

/-! ## what one setter call does to a message object -/

theorem setBit_qos (v : Bool) : ∀ b : UInt8, (setBit b 8 v).toNat % 16 / 2 % 4 = b.toNat % 16 / 2 % 4 ∧
    (setBit b 1 v).toNat % 16 / 2 % 4 = b.toNat % 16 / 2 % 4 := by
  cases v <;> (apply forall_u8; decide +kernel)

theorem setQos_qos : ∀ b : UInt8, ((b &&& 249) ||| UInt8.ofNat (0 * 2)).toNat % 16 / 2 % 4 = 0 ∧
    ((b &&& 249) ||| UInt8.ofNat (1 * 2)).toNat % 16 / 2 % 4 = 1 ∧
    ((b &&& 249) ||| UInt8.ofNat (2 * 2)).toNat % 16 / 2 % 4 = 2 := by
  apply forall_u8; decide +kernel

/-- the effect of one setter call, as far as `Encode` can tell -/
inductive Step (m : Msg) : Msg → Prop where
  /-- nothing changed (value refused, or a setter the type does not have) -/
  | same : Step m m
  /-- the object is dirty afterwards: `Encode` rebuilds the bytes from the fields -/
  | dirty (m' : Msg) : m'.hdr.dirty = true → Step m m'
  /-- PUBLISH flags written through `mtypeflags[0]`, the QoS staying zero or staying non-zero -/
  | flags (h : Hdr) (t p : Bytes) (v : UInt8) : m = .publish h t p →
      (pubQoS (h.setTf v) = 0 ↔ pubQoS h = 0) → Step m (.publish (h.setTf v) t p)
  /-- `SetPacketID` -/
  | pid (v : Nat) : v < 65536 → (∀ h c, m ≠ .connect h c) → Step m (m.setHdr (m.hdr.setPacketID v))

theorem step_of_setter (m : Msg) (s : Setter) : Step m (applySetter m s).1 := by
  have hid : ∀ v : Nat, (∀ h c, m ≠ .connect h c) → Step m (m.setHdr (m.hdr.setPacketID (v % 65536))) :=
    fun v hm => Step.pid _ (Nat.mod_lt _ (by omega)) hm
  cases m with
  | connect h c =>
    cases s <;> simp only [applySetter]
    all_goals first
      | exact Step.same
      | exact Step.dirty _ rfl
      | (split <;> first | exact Step.same | exact Step.dirty _ rfl)
  | connack h sp rc =>
    cases s <;> simp only [applySetter]
    all_goals first
      | exact Step.same
      | exact Step.dirty _ rfl
      | exact hid _ (by intro _ _ e; cases e)
  | ack h =>
    cases s <;> simp only [applySetter]
    all_goals first
      | exact Step.same
      | exact hid _ (by intro _ _ e; cases e)
  | bare h =>
    cases s <;> simp only [applySetter]
    all_goals first
      | exact Step.same
      | exact hid _ (by intro _ _ e; cases e)
  | suback h codes =>
    cases s <;> simp only [applySetter]
    all_goals first
      | exact Step.same
      | exact hid _ (by intro _ _ e; cases e)
      | (split <;> first | exact Step.same | exact Step.dirty _ rfl)
  | unsubscribe h ts =>
    cases s <;> simp only [applySetter]
    all_goals first
      | exact Step.same
      | exact hid _ (by intro _ _ e; cases e)
      | (split <;> first | exact Step.same | exact Step.dirty _ rfl)
  | subscribe h ts qs =>
    cases s <;> simp only [applySetter]
    all_goals first
      | exact Step.same
      | exact hid _ (by intro _ _ e; cases e)
      | (split <;> first | exact Step.same | exact Step.dirty _ rfl)
      | (split <;> first | exact Step.same | (split <;> exact Step.dirty _ rfl))
  | publish h t p =>
    cases s <;> simp only [applySetter]
    all_goals try first
      | exact Step.same
      | exact Step.dirty _ rfl
      | exact hid _ (by intro _ _ e; cases e)
      | (split <;> first | exact Step.same | exact Step.dirty _ rfl)
    · -- dup
      refine Step.flags h t p _ rfl ?_
      simp only [pubQoS, Hdr.flags, (setTf_keeps h _).1, (setBit_qos _ h.tf).1]
    · -- retain
      refine Step.flags h t p _ rfl ?_
      simp only [pubQoS, Hdr.flags, (setTf_keeps h _).1, (setBit_qos _ h.tf).2]
    · -- qos
      rename_i v
      split
      · exact Step.same
      · rename_i hv
        simp only []
        split
        · exact Step.dirty _ rfl
        · rename_i hcls
          refine Step.flags h t p _ rfl ?_
          have hv3 : v % 256 = 0 ∨ v % 256 = 1 ∨ v % 256 = 2 := by omega
          have hq := setQos_qos h.tf
          have hnew : pubQoS (h.setTf ((h.tf &&& 249) ||| UInt8.ofNat (v % 256 * 2))) = v % 256 := by
            simp only [pubQoS, Hdr.flags, (setTf_keeps h _).1]
            rcases hv3 with e | e | e <;> rw [e]
            · exact hq.1
            · exact hq.2.1
            · exact hq.2.2
          rw [hnew]
          simp only [ne_eq, Decidable.not_not] at hcls
          have : (pubQoS h > 0) = (v % 256 > 0) := hcls
          constructor
          · intro e; rw [e] at this; simp at this; omega
          · intro e; rw [e] at this; simp at this; omega

end Mqtt.Proofs.Codec
