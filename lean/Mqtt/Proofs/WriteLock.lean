/-
Helper lemmas for C17 (a), (c): the invariant of `service.writeMessage` run by
any number of goroutines under `wmu` (`Model/WriteLock.lean`, `locked = true`).

Provenance of the committed packets is tracked by a ghost commit log
`log : List (Nat × List UInt8)` (thread, packet) that exists only in the
proofs: `log.map (·.2) = s.done`, and the packets of thread `t` in the log,
followed by what `t` still has to deliver, are `t`'s original list.
-/
import Mqtt.Model.WriteLock

namespace Mqtt.Proofs.WriteLock
open Mqtt.Model.WriteLock

/-! ## `writeAt` -/

theorem writeAt_take (buf : List UInt8) (a : Nat) (bs : List UInt8) (h : a ≤ buf.length) :
    (writeAt buf a bs).take a = buf.take a := by
  unfold writeAt
  simp only []
  have hl : ((buf ++ List.replicate (a + bs.length - buf.length) 0).take a).length = a := by
    simp only [List.length_take, List.length_append, List.length_replicate]; omega
  rw [List.append_assoc, List.take_append_of_le_length (by omega), List.take_of_length_le (by omega)]
  rw [List.take_append_of_le_length h]

theorem writeAt_window (buf : List UInt8) (a : Nat) (bs : List UInt8) :
    ((writeAt buf a bs).drop a).take bs.length = bs := by
  unfold writeAt
  simp only []
  have hl : ((buf ++ List.replicate (a + bs.length - buf.length) 0).take a).length = a := by
    simp only [List.length_take, List.length_append, List.length_replicate]; omega
  rw [List.append_assoc, List.drop_append_of_le_length (by omega), List.drop_of_length_le (by omega)]
  simp

theorem take_extend (buf : List UInt8) (a n : Nat) :
    buf.take (a + n) = buf.take a ++ (buf.drop a).take n := List.take_add

/-! ## provenance log -/

/-- the packets of the commit log that thread `t` committed, in commit order -/
def fromThread (log : List (Nat × List UInt8)) (t : Nat) : List (List UInt8) :=
  (log.filter (fun e => e.1 == t)).map (·.2)

theorem fromThread_snoc_self (log : List (Nat × List UInt8)) (t : Nat) (m : List UInt8) :
    fromThread (log ++ [(t, m)]) t = fromThread log t ++ [m] := by
  simp [fromThread, List.filter_append]

theorem fromThread_snoc_other (log : List (Nat × List UInt8)) (t u : Nat) (m : List UInt8)
    (h : t ≠ u) : fromThread (log ++ [(t, m)]) u = fromThread log u := by
  simp [fromThread, List.filter_append, h]

/-! ## the invariant -/

/-- what holds of thread `t` (record `th`) in state `s` -/
structure ThOk (s : St) (t : Nat) (th : Th) : Prop where
  /-- a thread inside `writeMessage` holds `wmu` -/
  holder : th.pc ≠ .idle → s.holder = some t
  /-- … and has a packet in hand -/
  work   : th.pc ≠ .idle → th.todo ≠ []
  /-- its reservation starts at the producer cursor -/
  start  : th.pc = .reserved ∨ th.pc = .encoded → th.start = s.pseq
  /-- after `Encode` the reserved bytes are the packet -/
  bytes  : th.pc = .encoded → ∀ m rest, th.todo = m :: rest →
             (s.buf.drop th.start).take m.length = m

structure Inv (todos : List (List (List UInt8))) (s : St) (log : List (Nat × List UInt8)) : Prop where
  len  : s.ths.length = todos.length
  logd : log.map (·.2) = s.done
  logt : ∀ e ∈ log, e.1 < todos.length
  prov : ∀ t th, s.ths[t]? = some th → todos[t]? = some (fromThread log t ++ th.todo)
  pseq : s.pseq = s.done.flatten.length
  vis  : s.buf.take s.pseq = s.done.flatten
  ths  : ∀ t th, s.ths[t]? = some th → ThOk s t th
  held : ∀ t, s.holder = some t → ∃ th, s.ths[t]? = some th ∧ th.pc ≠ .idle

theorem thOk_idle (s : St) (t : Nat) (th : Th) (h : th.pc = .idle) : ThOk s t th :=
  { holder := fun c => absurd h c
    work := fun c => absurd h c
    start := by intro c; rcases c with c | c <;> rw [h] at c <;> cases c
    bytes := by intro c; rw [h] at c; cases c }

theorem inv_init (todos : List (List (List UInt8))) : Inv todos (init todos) [] where
  len := by simp [init]
  logd := rfl
  logt := by intro e he; cases he
  prov := by
    intro t th h
    simp only [init, List.getElem?_map] at h
    cases ht : todos[t]? with
    | none => simp [ht] at h
    | some l => simp only [ht, Option.map_some, Option.some.injEq] at h; subst h; simp [fromThread]
  pseq := rfl
  vis := rfl
  ths := by
    intro t th h
    apply thOk_idle
    simp only [init, List.getElem?_map] at h
    cases ht : todos[t]? with
    | none => simp [ht] at h
    | some l => simp only [ht, Option.map_some, Option.some.injEq] at h; subst h; rfl
  held := by intro t h; cases h

/-- the cursor never runs ahead of the buffer -/
theorem Inv.pseq_le {todos s log} (h : Inv todos s log) : s.pseq ≤ s.buf.length := by
  have h1 := congrArg List.length h.vis
  rw [← h.pseq, List.length_take] at h1
  omega

/-- under the invariant every thread but the holder is idle -/
theorem Inv.others_idle {todos s log} (hI : Inv todos s log) {t : Nat}
    (hh : s.holder = some t) {u : Nat} {thu : Th} (hu : s.ths[u]? = some thu) (hne : u ≠ t) :
    thu.pc = .idle := by
  by_cases hc : thu.pc = .idle
  · exact hc
  · have := (hI.ths u thu hu).holder hc
    rw [hh] at this
    exact absurd (Option.some.inj this).symm hne

theorem Inv.all_idle {todos s log} (hI : Inv todos s log)
    (hh : s.holder = none) {u : Nat} {thu : Th} (hu : s.ths[u]? = some thu) :
    thu.pc = .idle := by
  by_cases hc : thu.pc = .idle
  · exact hc
  · have := (hI.ths u thu hu).holder hc
    rw [hh] at this; cases this

/-! ## inversion of `step` -/

/-- the four enabled moves of thread `t` (for either variant of the program) -/
theorem step_cases {locked : Bool} {s : St} {t : Nat} {s' : St} (h : step locked s t = some s') :
    ∃ th, s.ths[t]? = some th ∧
      ((∃ m rest, th.pc = .idle ∧ th.todo = m :: rest ∧
          (locked = true → s.holder = none) ∧
          s' = (if locked then { (setTh s t { th with pc := .entered }) with holder := some t }
                else setTh s t { th with pc := .entered })) ∨
       (th.pc = .entered ∧ s' = setTh s t { th with pc := .reserved, start := s.pseq }) ∨
       (∃ m rest, th.pc = .reserved ∧ th.todo = m :: rest ∧
          s' = { (setTh s t { th with pc := .encoded }) with buf := writeAt s.buf th.start m }) ∨
       (∃ m rest, th.pc = .encoded ∧ th.todo = m :: rest ∧
          s' = { (setTh s t { th with pc := .idle, todo := rest }) with
                 pseq := th.start + m.length, done := s.done ++ [m],
                 holder := if locked then none else s.holder })) := by
  unfold step at h
  split at h
  · cases h
  · rename_i th hth
    refine ⟨th, hth, ?_⟩
    split at h
    · cases h
    · rename_i m rest hpc htodo
      left
      refine ⟨m, rest, hpc, htodo, ?_, ?_⟩
      · intro hl
        subst hl
        simp only [↓reduceIte] at h
        cases hh : s.holder with
        | none => rfl
        | some x => simp [hh] at h
      · cases locked with
        | false => simp only [Bool.false_eq_true, ↓reduceIte, Option.some.injEq] at h ⊢; exact h.symm
        | true =>
          simp only [↓reduceIte] at h ⊢
          split at h
          · cases h
          · exact (Option.some.inj h).symm
    · rename_i hpc
      right; left
      exact ⟨hpc, (Option.some.inj h).symm⟩
    · rename_i m rest hpc htodo
      right; right; left
      exact ⟨m, rest, hpc, htodo, (Option.some.inj h).symm⟩
    · cases h
    · rename_i m rest hpc htodo
      right; right; right
      exact ⟨m, rest, hpc, htodo, (Option.some.inj h).symm⟩
    · cases h

/-! ## preservation by `step true` -/

theorem getElem?_setTh (s : St) (t : Nat) (th' : Th) (u : Nat) :
    (setTh s t th').ths[u]? = if t = u then (if t < s.ths.length then some th' else none) else s.ths[u]? := by
  simp only [setTh, List.getElem?_set]

theorem lt_of_getElem? {α} {l : List α} {i : Nat} {a : α} (h : l[i]? = some a) : i < l.length := by
  rcases Nat.lt_or_ge i l.length with h1 | h1
  · exact h1
  · rw [List.getElem?_eq_none h1] at h; cases h

/-- `Lock`: idle → entered -/
theorem inv_enter {todos s log t th m rest} (hI : Inv todos s log) (hth : s.ths[t]? = some th)
    (htodo : th.todo = m :: rest) (hh : s.holder = none) :
    Inv todos { (setTh s t { th with pc := .entered }) with holder := some t } log where
  len := by simp [setTh, hI.len]
  logd := hI.logd
  logt := hI.logt
  prov := by
    intro u thu hu
    have hu' : (setTh s t { th with pc := .entered }).ths[u]? = some thu := hu
    rw [getElem?_setTh] at hu'
    by_cases htu : t = u
    · subst htu
      simp only [↓reduceIte, lt_of_getElem? hth] at hu'
      cases hu'
      exact hI.prov t th hth
    · simp only [htu, ↓reduceIte] at hu'
      exact hI.prov u thu hu'
  pseq := hI.pseq
  vis := hI.vis
  ths := by
    intro u thu hu
    have hu' : (setTh s t { th with pc := .entered }).ths[u]? = some thu := hu
    rw [getElem?_setTh] at hu'
    by_cases htu : t = u
    · subst htu
      simp only [↓reduceIte, lt_of_getElem? hth] at hu'
      cases hu'
      exact { holder := fun _ => rfl
              work := by intro _; simp [htodo]
              start := by intro c; rcases c with c | c <;> cases c
              bytes := by intro c; cases c }
    · simp only [htu, ↓reduceIte] at hu'
      exact thOk_idle _ _ _ (hI.all_idle hh hu')
  held := by
    intro u hu
    cases hu
    refine ⟨{ th with pc := .entered }, ?_, by simp⟩
    show (setTh s t { th with pc := .entered }).ths[t]? = _
    rw [getElem?_setTh]; simp [lt_of_getElem? hth]

/-- `WriteWait`: entered → reserved, `start := pseq` -/
theorem inv_reserve {todos s log t th} (hI : Inv todos s log) (hth : s.ths[t]? = some th)
    (hpc : th.pc = .entered) :
    Inv todos (setTh s t { th with pc := .reserved, start := s.pseq }) log where
  len := by simp [setTh, hI.len]
  logd := hI.logd
  logt := hI.logt
  prov := by
    intro u thu hu
    rw [getElem?_setTh] at hu
    by_cases htu : t = u
    · subst htu
      simp only [↓reduceIte, lt_of_getElem? hth] at hu
      cases hu
      exact hI.prov t th hth
    · simp only [htu, ↓reduceIte] at hu
      exact hI.prov u thu hu
  pseq := hI.pseq
  vis := hI.vis
  ths := by
    intro u thu hu
    have hok := hI.ths t th hth
    have hne : th.pc ≠ .idle := by rw [hpc]; intro c; cases c
    rw [getElem?_setTh] at hu
    by_cases htu : t = u
    · subst htu
      simp only [↓reduceIte, lt_of_getElem? hth] at hu
      cases hu
      exact { holder := fun _ => hok.holder hne
              work := fun _ => hok.work hne
              start := fun _ => rfl
              bytes := by intro c; cases c }
    · simp only [htu, ↓reduceIte] at hu
      exact thOk_idle _ _ _ (hI.others_idle (hok.holder hne) hu (Ne.symm htu))
  held := by
    intro u hu
    have hok := hI.ths t th hth
    have hne : th.pc ≠ .idle := by rw [hpc]; intro c; cases c
    have : s.holder = some u := hu
    rw [hok.holder hne] at this
    cases this
    refine ⟨{ th with pc := .reserved, start := s.pseq }, ?_, by simp⟩
    rw [getElem?_setTh]; simp [lt_of_getElem? hth]

/-- `Encode` into the reserved bytes: reserved → encoded -/
theorem inv_encode {todos s log t th m rest} (hI : Inv todos s log) (hth : s.ths[t]? = some th)
    (hpc : th.pc = .reserved) (htodo : th.todo = m :: rest) :
    Inv todos { (setTh s t { th with pc := .encoded }) with buf := writeAt s.buf th.start m } log where
  len := by simp [setTh, hI.len]
  logd := hI.logd
  logt := hI.logt
  prov := by
    intro u thu hu
    have hu' : (setTh s t { th with pc := .encoded }).ths[u]? = some thu := hu
    rw [getElem?_setTh] at hu'
    by_cases htu : t = u
    · subst htu
      simp only [↓reduceIte, lt_of_getElem? hth] at hu'
      cases hu'
      exact hI.prov t th hth
    · simp only [htu, ↓reduceIte] at hu'
      exact hI.prov u thu hu'
  pseq := hI.pseq
  vis := by
    have hok := hI.ths t th hth
    have hst : th.start = s.pseq := hok.start (Or.inl hpc)
    show (writeAt s.buf th.start m).take s.pseq = s.done.flatten
    rw [hst, writeAt_take _ _ _ hI.pseq_le]
    exact hI.vis
  ths := by
    intro u thu hu
    have hok := hI.ths t th hth
    have hne : th.pc ≠ .idle := by rw [hpc]; intro c; cases c
    have hu' : (setTh s t { th with pc := .encoded }).ths[u]? = some thu := hu
    rw [getElem?_setTh] at hu'
    by_cases htu : t = u
    · subst htu
      simp only [↓reduceIte, lt_of_getElem? hth] at hu'
      cases hu'
      exact { holder := fun _ => hok.holder hne
              work := fun _ => hok.work hne
              start := fun _ => hok.start (Or.inl hpc)
              bytes := by
                intro _ m' rest' hm
                have hm' : th.todo = m' :: rest' := hm
                rw [htodo] at hm'
                cases hm'
                exact writeAt_window _ _ _ }
    · simp only [htu, ↓reduceIte] at hu'
      exact thOk_idle _ _ _ (hI.others_idle (hok.holder hne) hu' (Ne.symm htu))
  held := by
    intro u hu
    have hok := hI.ths t th hth
    have hne : th.pc ≠ .idle := by rw [hpc]; intro c; cases c
    have : s.holder = some u := hu
    rw [hok.holder hne] at this
    cases this
    refine ⟨{ th with pc := .encoded }, ?_, by simp⟩
    show (setTh s t { th with pc := .encoded }).ths[t]? = _
    rw [getElem?_setTh]; simp [lt_of_getElem? hth]

/-- `WriteCommit` + `Unlock`: encoded → idle, the packet joins the visible stream -/
theorem inv_commit {todos s log t th m rest} (hI : Inv todos s log) (hth : s.ths[t]? = some th)
    (hpc : th.pc = .encoded) (htodo : th.todo = m :: rest) :
    Inv todos { (setTh s t { th with pc := .idle, todo := rest }) with
                pseq := th.start + m.length, done := s.done ++ [m], holder := none }
      (log ++ [(t, m)]) where
  len := by simp [setTh, hI.len]
  logd := by simp [hI.logd]
  logt := by
    intro e he
    rcases List.mem_append.mp he with he | he
    · exact hI.logt e he
    · simp only [List.mem_singleton] at he
      subst he
      rw [← hI.len]; exact lt_of_getElem? hth
  prov := by
    intro u thu hu
    have hu' : (setTh s t { th with pc := .idle, todo := rest }).ths[u]? = some thu := hu
    rw [getElem?_setTh] at hu'
    by_cases htu : t = u
    · subst htu
      simp only [↓reduceIte, lt_of_getElem? hth] at hu'
      cases hu'
      rw [hI.prov t th hth, htodo, fromThread_snoc_self]
      simp
    · simp only [htu, ↓reduceIte] at hu'
      rw [fromThread_snoc_other _ _ _ _ htu]
      exact hI.prov u thu hu'
  pseq := by
    have hok := hI.ths t th hth
    have hst : th.start = s.pseq := hok.start (Or.inr hpc)
    show th.start + m.length = (s.done ++ [m]).flatten.length
    rw [hst, hI.pseq]; simp
  vis := by
    have hok := hI.ths t th hth
    have hst : th.start = s.pseq := hok.start (Or.inr hpc)
    have hb := hok.bytes hpc m rest htodo
    show s.buf.take (th.start + m.length) = (s.done ++ [m]).flatten
    rw [take_extend, hb, hst, hI.vis]; simp
  ths := by
    intro u thu hu
    have hok := hI.ths t th hth
    have hne : th.pc ≠ .idle := by rw [hpc]; intro c; cases c
    have hu' : (setTh s t { th with pc := .idle, todo := rest }).ths[u]? = some thu := hu
    rw [getElem?_setTh] at hu'
    by_cases htu : t = u
    · subst htu
      simp only [↓reduceIte, lt_of_getElem? hth] at hu'
      cases hu'
      exact thOk_idle _ _ _ rfl
    · simp only [htu, ↓reduceIte] at hu'
      exact thOk_idle _ _ _ (hI.others_idle (hok.holder hne) hu' (Ne.symm htu))
  held := by intro u hu; cases hu

/-- every enabled move of the locked program keeps the invariant; the log grows
by the committed packet, if any -/
theorem inv_step {todos s log t s'} (hI : Inv todos s log) (h : step true s t = some s') :
    ∃ log', Inv todos s' log' := by
  obtain ⟨th, hth, hc⟩ := step_cases h
  rcases hc with ⟨m, rest, hpc, htodo, hh, rfl⟩ | ⟨hpc, rfl⟩ | ⟨m, rest, hpc, htodo, rfl⟩ |
    ⟨m, rest, hpc, htodo, rfl⟩
  · exact ⟨log, inv_enter hI hth htodo (hh rfl)⟩
  · exact ⟨log, inv_reserve hI hth hpc⟩
  · exact ⟨log, inv_encode hI hth hpc htodo⟩
  · exact ⟨_, inv_commit hI hth hpc htodo⟩

theorem inv_run {todos} (sched : List Nat) : ∀ {s log}, Inv todos s log →
    ∃ log', Inv todos (run true s sched) log' := by
  induction sched with
  | nil => intro s log h; exact ⟨log, h⟩
  | cons t ts ih =>
    intro s log h
    unfold run
    cases hs : step true s t with
    | none => exact ih h
    | some s' =>
      obtain ⟨log', h'⟩ := inv_step h hs
      exact ih h'

/-- the invariant holds in every reachable state of the locked program -/
theorem inv_reachable (todos : List (List (List UInt8))) (sched : List Nat) :
    ∃ log, Inv todos (run true (init todos) sched) log := inv_run sched (inv_init todos)

/-! ## progress -/

/-- the holder of `wmu` can always take its next step -/
theorem holder_enabled {todos s log t} (hI : Inv todos s log) (hh : s.holder = some t) :
    (step true s t).isSome = true := by
  obtain ⟨th, hth, hne⟩ := hI.held t hh
  have hw := (hI.ths t th hth).work hne
  unfold step
  rw [hth]
  rcases th with ⟨pc, todo, start⟩
  simp only at hne hw ⊢
  cases pc with
  | idle => exact absurd rfl hne
  | entered => rfl
  | reserved =>
    cases todo with
    | nil => exact absurd rfl hw
    | cons m rest => rfl
  | encoded =>
    cases todo with
    | nil => exact absurd rfl hw
    | cons m rest => rfl

/-- with `wmu` free every thread that has a packet left can enter -/
theorem free_enabled {todos s log t th} (hI : Inv todos s log) (hh : s.holder = none)
    (hth : s.ths[t]? = some th) (hw : th.todo ≠ []) : (step true s t).isSome = true := by
  have hpc := hI.all_idle hh hth
  unfold step
  rw [hth]
  rcases th with ⟨pc, todo, start⟩
  simp only at hpc hw ⊢
  subst hpc
  cases todo with
  | nil => exact absurd rfl hw
  | cons m rest => simp [hh]

/-! ## a measure that every enabled step decreases -/

def rank : PC → Nat
  | .idle => 0 | .entered => 1 | .reserved => 2 | .encoded => 3

/-- own steps thread `th` still has to take: four per packet, minus those taken
for the packet in hand -/
def thWork (th : Th) : Nat := 4 * th.todo.length - rank th.pc

/-- steps left until every packet is delivered -/
def work (s : St) : Nat := (s.ths.map thWork).sum

theorem sum_set_dec (l : List Th) : ∀ (t : Nat) (a x : Th), l[t]? = some a → thWork x + 1 = thWork a →
    ((l.set t x).map thWork).sum + 1 = (l.map thWork).sum := by
  induction l with
  | nil => intro t a x h; cases h
  | cons b l ih =>
    intro t a x h hx
    cases t with
    | zero =>
      simp only [List.getElem?_cons_zero, Option.some.injEq] at h
      subst h
      simp only [List.set_cons_zero, List.map_cons, List.sum_cons]
      omega
    | succ t =>
      simp only [List.getElem?_cons_succ] at h
      have := ih t a x h hx
      simp only [List.set_cons_succ, List.map_cons, List.sum_cons]
      omega

theorem work_step {todos s log t s'} (hI : Inv todos s log) (h : step true s t = some s') :
    work s' + 1 = work s := by
  obtain ⟨th, hth, hc⟩ := step_cases h
  have hok := hI.ths t th hth
  rcases hc with ⟨m, rest, hpc, htodo, _, rfl⟩ | ⟨hpc, rfl⟩ | ⟨m, rest, hpc, htodo, rfl⟩ |
    ⟨m, rest, hpc, htodo, rfl⟩
  · apply sum_set_dec _ _ _ _ hth
    simp [thWork, hpc, htodo, rank]; omega
  · apply sum_set_dec _ _ _ _ hth
    have := hok.work (by rw [hpc]; intro c; cases c)
    cases htd : th.todo with
    | nil => exact absurd htd this
    | cons m rest => simp [thWork, hpc, htd, rank]; omega
  · apply sum_set_dec _ _ _ _ hth
    simp [thWork, hpc, htodo, rank]; omega
  · apply sum_set_dec _ _ _ _ hth
    simp [thWork, hpc, htodo, rank]; omega

theorem work_init (todos : List (List (List UInt8))) :
    work (init todos) = 4 * (todos.map List.length).sum := by
  simp only [work, init, List.map_map]
  induction todos with
  | nil => rfl
  | cons l ls ih =>
    simp only [List.map_cons, List.sum_cons, ih, Function.comp, thWork, rank]
    omega

theorem le_sum_of_mem : ∀ (l : List Nat) (a : Nat), a ∈ l → a ≤ l.sum := by
  intro l
  induction l with
  | nil => intro a h; cases h
  | cons b l ih =>
    intro a h
    simp only [List.sum_cons]
    rcases List.mem_cons.mp h with h | h
    · omega
    · have := ih a h; omega

/-- under the invariant no work left means every list is empty -/
theorem work_zero {todos s log} (hI : Inv todos s log) (h : work s = 0) :
    ∀ th ∈ s.ths, th.todo = [] := by
  intro th hm
  obtain ⟨t, ht, rfl⟩ := List.getElem_of_mem hm
  have hth : s.ths[t]? = some s.ths[t] := List.getElem?_eq_getElem ht
  have hok := hI.ths t _ hth
  have h0 : thWork s.ths[t] = 0 := by
    have : thWork s.ths[t] ∈ s.ths.map thWork := List.mem_map.mpr ⟨_, hm, rfl⟩
    have := le_sum_of_mem _ _ this
    unfold work at h; omega
  cases htd : s.ths[t].todo with
  | nil => rfl
  | cons m rest =>
    exfalso
    simp only [thWork, htd, List.length_cons] at h0
    have : rank s.ths[t].pc ≤ 3 := by cases s.ths[t].pc <;> simp [rank]
    omega

end Mqtt.Proofs.WriteLock
