/-
Core A (codec): the decoders accept every well-formed packet in **every** permitted form of the
remaining length (section 2.2.3: one to four bytes, not necessarily the shortest) and return its fields —
`Proofs/CodecWire.accepts_wf` for `Wire.encodeV V p` in place of `Wire.encode p`.
-/
import Mqtt.Proofs.CodecSpecDecode

set_option linter.unusedSimpArgs false
set_option linter.unusedVariables false

namespace Mqtt.Proofs.Codec

open Mqtt.Model.Codec Mqtt.Iface.Codec Mqtt.Generated
open Mqtt.Spec

theorem getVarint_lt : ∀ (fuel : Nat) (V : Bytes) (v : Nat) (r : Bytes),
    Wire.getVarint fuel V = some (v, r) → v < 128 ^ fuel ∧ 1 ≤ V.length - r.length ∧ V.length - r.length ≤ fuel ∧ r.length ≤ V.length := by
  intro fuel
  induction fuel with
  | zero => intro V v r h; simp [Wire.getVarint] at h
  | succ k ih =>
    intro V v r h
    cases V with
    | nil => simp [Wire.getVarint] at h
    | cons b t =>
      unfold Wire.getVarint at h
      split at h
      · rename_i hb
        injection h with h
        injection h with h1 h2
        subst h1; subst h2
        refine ⟨?_, by simp, by simp, by simp⟩
        have : 128 ^ 1 ≤ 128 ^ (k + 1) := Nat.pow_le_pow_right (by omega) (by omega)
        omega
      · cases hg : Wire.getVarint k t with
        | none => rw [hg] at h; simp at h
        | some y =>
          rw [hg] at h
          simp only [Option.some.injEq, Prod.mk.injEq] at h
          obtain ⟨h1, h2⟩ := h
          obtain ⟨i1, i2, i3, i4⟩ := ih t y.1 y.2 hg
          subst h2
          refine ⟨?_, by simp only [List.length_cons]; omega, by simp only [List.length_cons]; omega, by simp only [List.length_cons]; omega⟩
          rw [← h1, Nat.pow_succ]
          omega

/-- `binary.Uvarint` reads a remaining length exactly as the algorithm of section 2.2.3 does -/
theorem uvarintAux_getVarint_val : ∀ (fuel : Nat) (V : Bytes) (v : Nat) (tail : Bytes) (i x : Nat),
    Wire.getVarint fuel V = some (v, []) → i + fuel ≤ 9 →
    uvarintAux (V ++ tail) i x = ((x + v * 128 ^ i) % 2 ^ 64, (i : Int) + V.length) := by
  intro fuel
  induction fuel with
  | zero => intro V v tail i x h; simp [Wire.getVarint] at h
  | succ k ih =>
    intro V v tail i x h hi
    cases V with
    | nil => simp [Wire.getVarint] at h
    | cons b r =>
      unfold Wire.getVarint at h
      simp only [List.cons_append]
      unfold uvarintAux
      rw [if_neg (by omega)]
      split at h
      · rename_i hb
        injection h with h
        injection h with h1 h2
        subst h2
        rw [if_pos hb, if_neg (by omega), ← h1]
        simp
      · rename_i hb
        rw [if_neg hb]
        cases hg : Wire.getVarint k r with
        | none => rw [hg] at h; simp at h
        | some y =>
          rw [hg] at h
          simp only [Option.some.injEq, Prod.mk.injEq] at h
          have hy : Wire.getVarint k r = some (y.1, []) := by rw [hg, ← h.2]
          rw [ih r y.1 tail (i + 1) _ hy (by omega)]
          have e : x + b.toNat % 128 * 128 ^ i + y.1 * 128 ^ (i + 1) = x + v * 128 ^ i := by
            rw [← h.1, Nat.pow_succ, Nat.add_mul]
            have : y.1 * (128 ^ i * 128) = 128 * y.1 * 128 ^ i := by ac_rfl
            rw [this]
            omega
          rw [e]
          simp only [List.length_cons]
          congr 1
          omega

theorem uvarint_of_getVarint (V : Bytes) (v : Nat) (tail : Bytes) (h : Wire.getVarint 4 V = some (v, [])) :
    uvarint (V ++ tail) = (v, (V.length : Int)) ∧ v < 2 ^ 28 ∧ 1 ≤ V.length ∧ V.length ≤ 4 := by
  obtain ⟨hv, h1, h2, _⟩ := getVarint_lt 4 V v [] h
  simp only [List.length_nil, Nat.sub_zero] at h1 h2
  have hv' : v < 2 ^ 28 := by
    have : (128 : Nat) ^ 4 = 2 ^ 28 := by decide
    omega
  refine ⟨?_, hv', h1, h2⟩
  unfold uvarint
  rw [uvarintAux_getVarint_val 4 V v tail 0 0 h (by omega)]
  simp only [Nat.pow_zero, Nat.mul_one, Nat.zero_add, Int.natCast_zero, Int.zero_add]
  rw [Nat.mod_eq_of_lt (by omega)]

/-- the fixed header of a packet whose remaining length is written as `V`, decoded by `header.decode` -/
theorem hdr_decode_wireV (h : Hdr) (t fl : Nat) (body rest V : Bytes)
    (ht : h.type = t) (hv : validType t = true) (hfl : fl < 16)
    (hdf : t ≠ tPUBLISH → fl = defaultFlagsOf t) (hq : t = tPUBLISH → validQos (fl / 2 % 4) = true)
    (hV : Wire.getVarint 4 V = some (body.length, [])) :
    Hdr.decode h (UInt8.ofNat (t * 16 + fl) :: (V ++ (body ++ rest))) =
      .ok ({ h with tf := UInt8.ofNat (t * 16 + fl), tfInBuf := true, remlen := body.length,
                    dbuf := UInt8.ofNat (t * 16 + fl) :: (V ++ body) },
           1 + V.length) := by
  have ht15 : t < 15 := by
    unfold validType at hv
    simp only [typeValidAbove, typeValidBelow, Bool.and_eq_true] at hv
    exact of_decide_eq_true hv.2
  have htf : (UInt8.ofNat (t * 16 + fl)).toNat = t * 16 + fl := u8_ofNat_toNat (by omega)
  have hdiv : (t * 16 + fl) / 16 = t := by omega
  have hmod : (t * 16 + fl) % 16 = fl := by omega
  have ht' : h.tf.toNat / 16 = t := ht
  obtain ⟨huv, hb, hvl1, hvl4⟩ := uvarint_of_getVarint V body.length (body ++ rest) hV
  unfold Hdr.decode
  rw [if_neg (by simp)]
  rw [slice_eq (a := []) (m := [UInt8.ofNat (t * 16 + fl)]) (b := V ++ (body ++ rest)) (by simp) (by simp) (by simp)]
  simp only [bind_ok, List.headD_cons, Hdr.type, Hdr.flags, htf, hdiv, hmod, ht']
  rw [if_neg (by simp [hv])]
  rw [if_neg (by simp)]
  rw [if_neg (by
    simp only [Bool.and_eq_true, decide_eq_true_eq, not_and, Decidable.not_not]
    exact hdf)]
  rw [if_neg (by
    simp only [Bool.and_eq_true, decide_eq_true_eq, not_and, Bool.not_eq_true', Bool.not_eq_false]
    intro e; simpa using hq e)]
  rw [sliceFrom_eq (a := [UInt8.ofNat (t * 16 + fl)]) (b := V ++ (body ++ rest)) (by simp) (by simp)]
  simp only [bind_ok]
  rw [huv]
  simp only [Int.toNat_natCast]
  rw [if_neg (by simp only [maxVarintBytes]; omega)]
  rw [toInt32_small hb]
  rw [if_neg (by simp only [maxRemainingLength]; omega)]
  rw [sliceFrom_eq (a := UInt8.ofNat (t * 16 + fl) :: V) (b := body ++ rest) (by simp) (by simp; omega)]
  simp only [bind_ok]
  rw [if_neg (by simp; omega)]
  rw [sliceTo_eq (a := UInt8.ofNat (t * 16 + fl) :: (V ++ body)) (b := rest) (by simp) (by simp; omega)]
  simp only [bind_ok, Int.toNat_natCast]

theorem encodeV_append (V : Bytes) (p : Wire.Packet) (rest : Bytes) :
    Wire.encodeV V p ++ rest = UInt8.ofNat (p.type * 16 + p.flags) :: (V ++ (p.body ++ rest)) := by
  simp [Wire.encodeV]

/-- acceptance statement for every form of the remaining length -/
def AcceptsV (p : Wire.Packet) : Prop :=
  ∀ V : Bytes, Wire.getVarint 4 V = some (p.body.length, []) →
    ∀ rest : Bytes, ∃ d, decodeNew p.type (Wire.encodeV V p ++ rest) = .ok d ∧
      d.n = (Wire.encodeV V p).length ∧ absMsg d.msg = p

theorem varintV_len {V : Bytes} {n : Nat} (hV : Wire.getVarint 4 V = some (n, [])) :
    1 ≤ V.length ∧ V.length ≤ 4 ∧ n ≤ 268435455 := by
  obtain ⟨_, hb, h1, h4⟩ := uvarint_of_getVarint V n [] hV
  exact ⟨h1, h4, by omega⟩

theorem acceptsV_ack (t : Nat) (id : UInt16) (p : Wire.Packet)
    (ht : t = 4 ∨ t = 5 ∨ t = 6 ∨ t = 7 ∨ t = 11)
    (hp : p.type = t ∧ p.flags = defaultFlagsOf t ∧ p.body = Wire.u16 id)
    (habs : ∀ h : Hdr, h.type = t → (absMsg (.ack h) = p ↔ u16of h.pid = id)) : AcceptsV p := by
  intro V hV rest
  obtain ⟨hp1, hp2, hp3⟩ := hp
  obtain ⟨hV1, hV4, _⟩ := varintV_len hV
  have hnew : Msg.new t = some (.ack (Hdr.new t)) := by
    rcases ht with rfl | rfl | rfl | rfl | rfl <;> rfl
  have hbl : p.body.length = 2 := by rw [hp3]; rfl
  have hdec := hdr_decode_wireV (Hdr.new t) t (defaultFlagsOf t) p.body rest V
    (hdrNew_type t (by omega)) (by rcases ht with rfl | rfl | rfl | rfl | rfl <;> decide)
    (by rcases ht with rfl | rfl | rfl | rfl | rfl <;> decide) (fun _ => rfl)
    (by intro e; rcases ht with rfl | rfl | rfl | rfl | rfl <;> simp [tPUBLISH] at e) hV
  unfold decodeNew
  rw [hp1, hnew]
  simp only [decode, decodeAck]
  rw [sliceFrom_ok (Nat.zero_le _)]
  simp only [bind_ok, List.drop_zero]
  rw [encodeV_append, hp1, hp2, hdec]
  simp only [bind_ok]
  rw [if_neg (by omega)]
  rw [hp3]
  rw [slice_eq (a := UInt8.ofNat (t * 16 + defaultFlagsOf t) :: V) (m := Wire.u16 id) (b := rest) (by simp)
    (by simp; omega) (by simp [Wire.u16]; omega)]
  simp only [bind_ok]
  refine ⟨_, rfl, ?_, ?_⟩
  · simp [Wire.encodeV, hp3, Wire.u16]; omega
  · simp only []
    rw [habs]
    · simp only []; exact u16of_u16 id
    · simp only [Hdr.type]
      rw [u8_ofNat_toNat (by rcases ht with rfl | rfl | rfl | rfl | rfl <;> decide)]
      rcases ht with rfl | rfl | rfl | rfl | rfl <;> decide

theorem acceptsV_puback (id : UInt16) : AcceptsV (.puback id) :=
  acceptsV_ack 4 id _ (by omega) ⟨rfl, rfl, rfl⟩ (by intro h ht; simp [absMsg, ht])
theorem acceptsV_pubrec (id : UInt16) : AcceptsV (.pubrec id) :=
  acceptsV_ack 5 id _ (by omega) ⟨rfl, rfl, rfl⟩ (by intro h ht; simp [absMsg, ht])
theorem acceptsV_pubrel (id : UInt16) : AcceptsV (.pubrel id) :=
  acceptsV_ack 6 id _ (by omega) ⟨rfl, rfl, rfl⟩ (by intro h ht; simp [absMsg, ht])
theorem acceptsV_pubcomp (id : UInt16) : AcceptsV (.pubcomp id) :=
  acceptsV_ack 7 id _ (by omega) ⟨rfl, rfl, rfl⟩ (by intro h ht; simp [absMsg, ht])
theorem acceptsV_unsuback (id : UInt16) : AcceptsV (.unsuback id) :=
  acceptsV_ack 11 id _ (by omega) ⟨rfl, rfl, rfl⟩ (by intro h ht; simp [absMsg, ht])

theorem acceptsV_bare (t : Nat) (p : Wire.Packet) (ht : t = 12 ∨ t = 13 ∨ t = 14)
    (hp : p.type = t ∧ p.flags = 0 ∧ p.body = [])
    (habs : ∀ h : Hdr, h.type = t → absMsg (.bare h) = p) : AcceptsV p := by
  intro V hV rest
  obtain ⟨hp1, hp2, hp3⟩ := hp
  have hnew : Msg.new t = some (.bare (Hdr.new t)) := by
    rcases ht with rfl | rfl | rfl <;> rfl
  have hdec := hdr_decode_wireV (Hdr.new t) t 0 p.body rest V
    (hdrNew_type t (by omega)) (by rcases ht with rfl | rfl | rfl <;> decide)
    (by omega) (by intro _; rcases ht with rfl | rfl | rfl <;> decide)
    (by intro e; rcases ht with rfl | rfl | rfl <;> simp [tPUBLISH] at e) hV
  unfold decodeNew
  rw [hp1, hnew]
  simp only [decode, decodeBare]
  rw [encodeV_append, hp1, hp2, hdec]
  simp only [bind_ok]
  rw [if_neg (by rw [hp3]; simp)]
  refine ⟨_, rfl, ?_, ?_⟩
  · simp [Wire.encodeV, hp3]; omega
  · simp only []
    apply habs
    simp only [Hdr.type]
    rw [u8_ofNat_toNat (by rcases ht with rfl | rfl | rfl <;> decide)]
    omega

theorem acceptsV_pingreq : AcceptsV .pingreq :=
  acceptsV_bare 12 _ (by omega) ⟨rfl, rfl, rfl⟩ (by intro h ht; simp [absMsg, ht])
theorem acceptsV_pingresp : AcceptsV .pingresp :=
  acceptsV_bare 13 _ (by omega) ⟨rfl, rfl, rfl⟩ (by intro h ht; simp [absMsg, ht])
theorem acceptsV_disconnect : AcceptsV .disconnect :=
  acceptsV_bare 14 _ (by omega) ⟨rfl, rfl, rfl⟩ (by intro h ht; simp [absMsg, ht])

theorem acceptsV_connack (sp : Bool) (code : UInt8) (hc : code ≤ 5) : AcceptsV (.connack sp code) := by
  intro V hV rest
  obtain ⟨hV1, hV4, _⟩ := varintV_len hV
  have hdec := hdr_decode_wireV (Hdr.new 2) 2 0 (Wire.Packet.connack sp code).body rest V
    (by decide) (by decide) (by omega) (by intro _; decide) (by intro e; simp [tPUBLISH] at e) hV
  unfold decodeNew
  have hnew : Msg.new (Wire.Packet.connack sp code).type = some (.connack (Hdr.new 2) false 0) := rfl
  rw [hnew]
  simp only [decode, decodeConnack]
  rw [encodeV_append]
  have e1 : (Wire.Packet.connack sp code).type = 2 := rfl
  have e2 : (Wire.Packet.connack sp code).flags = 0 := rfl
  rw [e1, e2, hdec]
  simp only [bind_ok]
  rw [if_neg (by simp [Wire.Packet.body])]
  have hb : (Wire.Packet.connack sp code).body = [UInt8.ofNat (Wire.b2n sp), code] := rfl
  rw [hb]
  rw [index_eq (a := UInt8.ofNat (2 * 16 + 0) :: V) (b := code :: rest) (x := UInt8.ofNat (Wire.b2n sp)) (by simp) (by simp; omega)]
  simp only [bind_ok]
  have hsp : (UInt8.ofNat (Wire.b2n sp)).toNat = Wire.b2n sp := by cases sp <;> rfl
  rw [hsp]
  rw [if_neg (by cases sp <;> simp [Wire.b2n])]
  rw [index_eq (a := UInt8.ofNat (2 * 16 + 0) :: (V ++ [UInt8.ofNat (Wire.b2n sp)])) (b := rest) (x := code) (by simp) (by simp; omega)]
  simp only [bind_ok]
  have hc' : code.toNat ≤ 5 := hc
  rw [if_neg (by simp only [connackMaxCode]; omega)]
  refine ⟨_, rfl, ?_, ?_⟩
  · simp [Wire.encodeV, Wire.Packet.body]; omega
  · simp only [absMsg]
    cases sp <;> simp [Wire.b2n]

theorem acceptsV_suback (id : UInt16) (codes : List UInt8) (hwf : Wire.WF (.suback id codes)) :
    AcceptsV (.suback id codes) := by
  intro V hV0 rest
  obtain ⟨hV1, hV4, _⟩ := varintV_len hV0
  have hVl : 1 ≤ V.length ∧ V.length ≤ 4 := ⟨hV1, hV4⟩
  unfold Wire.WF Wire.wf at hwf
  simp only [Bool.and_eq_true, decide_eq_true_eq, Wire.maxRemaining] at hwf
  obtain ⟨⟨_, hcodes⟩, hlen⟩ := hwf
  have hb : (Wire.Packet.suback id codes).body = Wire.u16 id ++ codes := rfl
  have hlen := of_decide_eq_true hlen
  have hbl : (Wire.Packet.suback id codes).body.length = 2 + codes.length := by rw [hb]; simp [Wire.u16]; omega
  have hdec := hdr_decode_wireV (Hdr.new 9) 9 0 (Wire.Packet.suback id codes).body rest V
    (by decide) (by decide) (by omega) (by intro _; decide) (by intro e; simp [tPUBLISH] at e) hV0
  unfold decodeNew
  have hnew : Msg.new (Wire.Packet.suback id codes).type = some (.suback (Hdr.new 9) []) := rfl
  rw [hnew]
  simp only [decode, decodeSuback]
  rw [sliceFrom_ok (Nat.zero_le _)]
  simp only [bind_ok, List.drop_zero]
  rw [encodeV_append]
  have e1 : (Wire.Packet.suback id codes).type = 9 := rfl
  have e2 : (Wire.Packet.suback id codes).flags = 0 := rfl
  rw [e1, e2, hdec]
  simp only [bind_ok]
  rw [hb]
  rw [sliceTo_eq (a := UInt8.ofNat (9 * 16 + 0) :: (V ++ (Wire.u16 id ++ codes))) (b := rest) (by simp) (by simp [Wire.u16]; omega)]
  simp only [bind_ok]
  rw [if_neg (by simp [Wire.u16])]
  rw [slice_eq (a := UInt8.ofNat (9 * 16 + 0) :: V) (m := Wire.u16 id) (b := codes) (by simp) (by simp; omega) (by simp [Wire.u16]; omega)]
  simp only [bind_ok]
  rw [slice_eq (a := UInt8.ofNat (9 * 16 + 0) :: (V ++ Wire.u16 id)) (m := codes) (b := []) (by simp) (by simp [Wire.u16]; omega) (by simp [Wire.u16]; omega)]
  simp only [bind_ok]
  have hall : (codes.all fun c => c = 0 || c = 1 || c = 2 || c = 0x80) = true := by
    rw [List.all_eq_true] at hcodes ⊢
    intro c hc
    have := hcodes c hc
    simpa [Wire.returnCodeOk] using this
  rw [if_pos hall]
  refine ⟨_, rfl, ?_, ?_⟩
  · have : (Wire.encodeV V (.suback id codes)).length = 1 + V.length + (2 + codes.length) := by
      unfold Wire.encodeV; rw [List.length_cons, List.length_append, hbl]; omega
    rw [this]; simp only []; omega
  · simp only [absMsg]
    rw [u16of_u16]

theorem acceptsV_publish (dup : Bool) (qos : UInt8) (ret : Bool) (topic : Bytes) (id : UInt16) (payload : Bytes)
    (hwf : Wire.WF (.publish dup qos ret topic id payload)) :
    AcceptsV (.publish dup qos ret topic id payload) := by
  intro V hV0 rest
  obtain ⟨hV1, hV4, _⟩ := varintV_len hV0
  have hVl : 1 ≤ V.length ∧ V.length ≤ 4 := ⟨hV1, hV4⟩
  unfold Wire.WF Wire.wf at hwf
  simp only [Bool.and_eq_true, decide_eq_true_eq, Wire.maxRemaining, Wire.strOk] at hwf
  obtain ⟨⟨⟨⟨hq, hts⟩, htn⟩, hid⟩, hlen⟩ := hwf
  have hq' : qos.toNat ≤ 2 := hq
  have hlen := of_decide_eq_true hlen
  generalize hp : Wire.Packet.publish dup qos ret topic id payload = p at *
  have e1 : p.type = 3 := by rw [← hp]; rfl
  have e2 : p.flags = Wire.b2n dup * 8 + qos.toNat * 2 + Wire.b2n ret := by rw [← hp]; rfl
  have hb : p.body = Wire.str topic ++ ((if qos = 0 then [] else Wire.u16 id) ++ payload) := by
    rw [← hp]; simp [Wire.Packet.body]
  have hidl : (if qos = 0 then [] else Wire.u16 id).length = (if qos = 0 then 0 else 2) := by
    split <;> simp [Wire.u16]
  have hbl : p.body.length = 2 + topic.length + (if qos = 0 then 0 else 2) + payload.length := by
    rw [hb]; simp only [List.length_append, hidl, Wire.str, List.length_cons]; omega
  have hfl : p.flags < 16 := by rw [e2]; cases dup <;> cases ret <;> simp [Wire.b2n] <;> omega
  have hfq : p.flags / 2 % 4 = qos.toNat := by rw [e2]; cases dup <;> cases ret <;> simp [Wire.b2n] <;> omega
  have hdec := hdr_decode_wireV (Hdr.new 3) 3 p.flags p.body rest V
    (by decide) (by decide) hfl (by intro e; exact absurd rfl e)
    (by intro _; rw [hfq]; simp [validQos, qosAtMostOnce, qosAtLeastOnce, qosExactlyOnce]; omega) (by omega)
  unfold decodeNew
  have hnew : Msg.new p.type = some (.publish (Hdr.new 3) [] []) := by rw [e1]; rfl
  rw [hnew]
  simp only [decode, decodePublish]
  rw [sliceFrom_ok (Nat.zero_le _)]
  simp only [bind_ok, List.drop_zero]
  rw [encodeV_append, e1, hdec]
  simp only [bind_ok]
  rw [sliceTo_eq (a := UInt8.ofNat (3 * 16 + p.flags) :: (V ++ p.body)) (b := rest) (by simp) (by simp; omega)]
  simp only [bind_ok]
  rw [sliceFrom_eq (a := UInt8.ofNat (3 * 16 + p.flags) :: V) (b := p.body) (by simp) (by simp; omega)]
  simp only [bind_ok]
  rw [hb, readLP_wire _ _ hts]
  simp only [bind_ok]
  rw [if_neg (by simp [validTopic_of_topicNameOk topic htn])]
  have htfn : (UInt8.ofNat (3 * 16 + p.flags)).toNat = 3 * 16 + p.flags := u8_ofNat_toNat (by omega)
  have hmod : (3 * 16 + p.flags) % 16 = p.flags := by omega
  simp only [pubQoS, Hdr.flags, htfn, hmod, hfq]
  have henc : (Wire.encodeV V p).length = 1 + V.length + p.body.length := by
    unfold Wire.encodeV; rw [List.length_cons, List.length_append]; omega
  by_cases hq0 : qos = 0
  · have hqn : qos.toNat = 0 := by rw [hq0]; rfl
    have hz : UInt8.toNat 0 = 0 := rfl
    simp only [hqn, hq0, hz, if_true, ne_eq, not_true_eq_false, if_false, bind_ok, List.nil_append] at hbl hid ⊢
    rw [if_neg (by simp [Wire.str]; omega)]
    rw [slice_eq (a := UInt8.ofNat (3 * 16 + p.flags) :: (V ++ Wire.str topic)) (m := payload) (b := [])
      (by simp) (by simp [Wire.str]; omega) (by simp [Wire.str]; omega)]
    simp only [bind_ok]
    refine ⟨_, rfl, ?_, ?_⟩
    · rw [henc, hbl]; simp only []; omega
    · simp only [absMsg, pubQoS, pubDup, pubRetain, Hdr.flags, htfn, hmod, hfq, hqn]
      have hid' : id = 0 := of_decide_eq_true hid
      rw [e2, hqn, ← hp, hq0, hid']
      cases dup <;> cases ret <;> simp [Wire.b2n]
  · have hqn : qos.toNat ≠ 0 := by
      intro e; apply hq0; exact UInt8.toNat_inj.mp e
    simp only [hq0, if_false] at hbl hid ⊢
    rw [if_pos hqn]
    rw [sliceFrom_eq (a := UInt8.ofNat (3 * 16 + p.flags) :: (V ++ Wire.str topic)) (b := Wire.u16 id ++ payload)
      (by simp) (by simp [Wire.str]; omega)]
    simp only [bind_ok]
    rw [if_neg (by simp [Wire.u16])]
    rw [slice_eq (a := UInt8.ofNat (3 * 16 + p.flags) :: (V ++ Wire.str topic)) (m := Wire.u16 id) (b := payload)
      (by simp) (by simp [Wire.str]; omega) (by simp [Wire.str, Wire.u16]; omega)]
    simp only [bind_ok]
    rw [if_neg (by simp [Wire.str, Wire.u16]; omega)]
    rw [slice_eq (a := UInt8.ofNat (3 * 16 + p.flags) :: (V ++ (Wire.str topic ++ Wire.u16 id))) (m := payload) (b := [])
      (by simp) (by simp [Wire.str, Wire.u16]; omega) (by simp [Wire.str, Wire.u16]; omega)]
    simp only [bind_ok]
    refine ⟨_, rfl, ?_, ?_⟩
    · rw [henc, hbl]; simp only []; omega
    · simp only [absMsg, pubQoS, pubDup, pubRetain, Hdr.flags, htfn, hmod, hfq]
      have hqq : UInt8.ofNat qos.toNat = qos := by simp
      rw [if_neg hqn, u16of_u16, hqq, e2, ← hp]
      have h3 : qos.toNat = 1 ∨ qos.toNat = 2 := by omega
      rcases h3 with h3 | h3 <;> rw [h3] <;> cases dup <;> cases ret <;> simp [Wire.b2n]

theorem acceptsV_subscribe (id : UInt16) (fs : List (Bytes × UInt8)) (hwf : Wire.WF (.subscribe id fs)) :
    AcceptsV (.subscribe id fs) := by
  intro V hV0 rest
  obtain ⟨hV1, hV4, _⟩ := varintV_len hV0
  have hVl : 1 ≤ V.length ∧ V.length ≤ 4 := ⟨hV1, hV4⟩
  unfold Wire.WF Wire.wf at hwf
  simp only [Bool.and_eq_true, decide_eq_true_eq, Wire.maxRemaining, Wire.strOk] at hwf
  obtain ⟨⟨⟨_, hne⟩, hall⟩, hlen⟩ := hwf
  have hlen := of_decide_eq_true hlen
  generalize hp : Wire.Packet.subscribe id fs = p at *
  have e1 : p.type = 8 := by rw [← hp]; rfl
  have e2 : p.flags = 2 := by rw [← hp]; rfl
  have hb : p.body = Wire.u16 id ++ encFilters fs := by rw [← hp]; rfl
  have hbl : p.body.length = 2 + (encFilters fs).length := by rw [hb]; simp [Wire.u16]; omega
  have hs : ∀ f ∈ fs, f.1.length ≤ 65535 := by
    intro f hf
    rw [List.all_eq_true] at hall
    have := hall f hf
    simp only [Bool.and_eq_true, decide_eq_true_eq] at this
    exact this.1
  have hdec := hdr_decode_wireV (Hdr.new 8) 8 2 p.body rest V
    (by decide) (by decide) (by omega) (by intro _; decide) (by intro e; simp [tPUBLISH] at e) hV0
  unfold decodeNew
  have hnew : Msg.new p.type = some (.subscribe (Hdr.new 8) [] []) := by rw [e1]; rfl
  rw [hnew]
  simp only [decode, decodeSubscribe]
  rw [sliceFrom_ok (Nat.zero_le _)]
  simp only [bind_ok, List.drop_zero]
  rw [encodeV_append, e1, e2, hdec]
  simp only [bind_ok]
  rw [sliceTo_eq (a := UInt8.ofNat (8 * 16 + 2) :: (V ++ p.body)) (b := rest) (by simp) (by simp; omega)]
  simp only [bind_ok]
  rw [if_neg (by omega)]
  rw [hb]
  rw [slice_eq (a := UInt8.ofNat (8 * 16 + 2) :: V) (m := Wire.u16 id) (b := encFilters fs) (by simp) (by simp; omega) (by simp [Wire.u16]; omega)]
  simp only [bind_ok]
  obtain ⟨vs', hloop⟩ := subLoop_wire fs (UInt8.ofNat (8 * 16 + 2) :: (V ++ Wire.u16 id)) [] [] [] hs
  have ea : UInt8.ofNat (8 * 16 + 2) :: (V ++ (Wire.u16 id ++ encFilters fs)) = (UInt8.ofNat (8 * 16 + 2) :: (V ++ Wire.u16 id)) ++ encFilters fs := by simp
  have eb : 1 + V.length + 2 = (UInt8.ofNat (8 * 16 + 2) :: (V ++ Wire.u16 id)).length := by simp [Wire.u16]; omega
  have ec : (Wire.u16 id ++ encFilters fs).length - (1 + V.length + 2 - (1 + V.length)) = (encFilters fs).length := by simp [Wire.u16]
  have hloop' : subLoop (UInt8.ofNat (8 * 16 + 2) :: (V ++ (Wire.u16 id ++ encFilters fs))) (1 + V.length + 2)
      ((Wire.u16 id ++ encFilters fs).length - (1 + V.length + 2 - (1 + V.length))) [] [] [] =
      .ok ([] ++ fs.map (·.1), [] ++ fs.map (·.2), vs', (UInt8.ofNat (8 * 16 + 2) :: (V ++ (Wire.u16 id ++ encFilters fs))).length) := by
    rw [ec, ea, eb]; exact hloop
  rw [hloop']
  simp only [bind_ok, List.nil_append]
  have hne' : fs ≠ [] := by
    intro e; rw [e] at hne; simp at hne
  rw [if_neg (by simp [hne'])]
  have henc : (Wire.encodeV V p).length = 1 + V.length + p.body.length := by
    unfold Wire.encodeV; rw [List.length_cons, List.length_append]; omega
  refine ⟨_, rfl, ?_, ?_⟩
  · rw [henc, hbl]; simp [Wire.u16]; omega
  · simp only [absMsg]
    rw [u16of_u16, zip_map_fst_snd, hp]

theorem acceptsV_unsubscribe (id : UInt16) (fs : List Bytes) (hwf : Wire.WF (.unsubscribe id fs)) :
    AcceptsV (.unsubscribe id fs) := by
  intro V hV0 rest
  obtain ⟨hV1, hV4, _⟩ := varintV_len hV0
  have hVl : 1 ≤ V.length ∧ V.length ≤ 4 := ⟨hV1, hV4⟩
  unfold Wire.WF Wire.wf at hwf
  simp only [Bool.and_eq_true, decide_eq_true_eq, Wire.maxRemaining, Wire.strOk] at hwf
  obtain ⟨⟨⟨_, hne⟩, hall⟩, hlen⟩ := hwf
  have hlen := of_decide_eq_true hlen
  generalize hp : Wire.Packet.unsubscribe id fs = p at *
  have e1 : p.type = 10 := by rw [← hp]; rfl
  have e2 : p.flags = 2 := by rw [← hp]; rfl
  have hb : p.body = Wire.u16 id ++ encTopics fs := by rw [← hp]; rfl
  have hbl : p.body.length = 2 + (encTopics fs).length := by rw [hb]; simp [Wire.u16]; omega
  have hs : ∀ f ∈ fs, f.length ≤ 65535 := by
    intro f hf
    rw [List.all_eq_true] at hall
    have := hall f hf
    simpa [Wire.strOk] using this
  have hdec := hdr_decode_wireV (Hdr.new 10) 10 2 p.body rest V
    (by decide) (by decide) (by omega) (by intro _; decide) (by intro e; simp [tPUBLISH] at e) hV0
  unfold decodeNew
  have hnew : Msg.new p.type = some (.unsubscribe (Hdr.new 10) []) := by rw [e1]; rfl
  rw [hnew]
  simp only [decode, decodeUnsubscribe]
  rw [sliceFrom_ok (Nat.zero_le _)]
  simp only [bind_ok, List.drop_zero]
  rw [encodeV_append, e1, e2, hdec]
  simp only [bind_ok]
  rw [sliceTo_eq (a := UInt8.ofNat (10 * 16 + 2) :: (V ++ p.body)) (b := rest) (by simp) (by simp; omega)]
  simp only [bind_ok]
  rw [if_neg (by omega)]
  rw [hb]
  rw [slice_eq (a := UInt8.ofNat (10 * 16 + 2) :: V) (m := Wire.u16 id) (b := encTopics fs) (by simp) (by simp; omega) (by simp [Wire.u16]; omega)]
  simp only [bind_ok]
  obtain ⟨vs', hloop⟩ := unsubLoop_wire fs (UInt8.ofNat (10 * 16 + 2) :: (V ++ Wire.u16 id)) [] [] hs
  have ea : UInt8.ofNat (10 * 16 + 2) :: (V ++ (Wire.u16 id ++ encTopics fs)) = (UInt8.ofNat (10 * 16 + 2) :: (V ++ Wire.u16 id)) ++ encTopics fs := by simp
  have eb : 1 + V.length + 2 = (UInt8.ofNat (10 * 16 + 2) :: (V ++ Wire.u16 id)).length := by simp [Wire.u16]; omega
  have ec : (Wire.u16 id ++ encTopics fs).length - (1 + V.length + 2 - (1 + V.length)) = (encTopics fs).length := by simp [Wire.u16]
  have hloop' : unsubLoop (UInt8.ofNat (10 * 16 + 2) :: (V ++ (Wire.u16 id ++ encTopics fs))) (1 + V.length + 2)
      ((Wire.u16 id ++ encTopics fs).length - (1 + V.length + 2 - (1 + V.length))) [] [] =
      .ok ([] ++ fs, vs', (UInt8.ofNat (10 * 16 + 2) :: (V ++ (Wire.u16 id ++ encTopics fs))).length) := by
    rw [ec, ea, eb]; exact hloop
  rw [hloop']
  simp only [bind_ok, List.nil_append]
  have hne' : fs ≠ [] := by
    intro e; rw [e] at hne; simp at hne
  rw [if_neg (by simp [hne'])]
  have henc : (Wire.encodeV V p).length = 1 + V.length + p.body.length := by
    unfold Wire.encodeV; rw [List.length_cons, List.length_append]; omega
  refine ⟨_, rfl, ?_, ?_⟩
  · rw [henc, hbl]; simp [Wire.u16]; omega
  · simp only [absMsg]
    rw [u16of_u16, hp]

theorem acceptsV_connect (c : Wire.Connect) (hwf : Wire.WF (.connect c)) : AcceptsV (.connect c) := by
  intro V hV0 rest
  obtain ⟨hV1, hV4, _⟩ := varintV_len hV0
  have hVl : 1 ≤ V.length ∧ V.length ≤ 4 := ⟨hV1, hV4⟩
  have hble := connect_body_le c hwf
  generalize hp : Wire.Packet.connect c = p at *
  have e1 : p.type = 1 := by rw [← hp]; rfl
  have e2 : p.flags = 0 := by rw [← hp]; rfl
  have hdec := hdr_decode_wireV (Hdr.new 1) 1 0 p.body rest V
    (by decide) (by decide) (by omega) (by intro _; decide) (by intro e; simp [tPUBLISH] at e) hV0
  unfold decodeNew
  have hnew : Msg.new p.type = some (.connect (Hdr.new 1) {}) := by rw [e1]; rfl
  rw [hnew]
  simp only [decode, decodeConnect]
  rw [sliceFrom_ok (Nat.zero_le _)]
  simp only [bind_ok, List.drop_zero]
  rw [encodeV_append, e1, e2, hdec]
  simp only [bind_ok]
  rw [sliceTo_eq (a := UInt8.ofNat (1 * 16 + 0) :: (V ++ p.body)) (b := rest) (by simp) (by simp; omega)]
  simp only [bind_ok]
  rw [sliceFrom_eq (a := UInt8.ofNat (1 * 16 + 0) :: V) (b := p.body) (by simp) (by simp; omega)]
  simp only [bind_ok]
  rw [← hp] at hwf
  obtain ⟨c', vs, hm, a1, a2, a3, a4, a5, a6, a7⟩ := decodeConnectMessage_wire c (by rw [hp] at hwf; rw [← hp] at hwf; exact hwf) (1 + V.length)
  rw [hp] at hm
  rw [hm]
  simp only [bind_ok]
  rw [if_neg (by simp; omega)]
  have henc : (Wire.encodeV V p).length = 1 + V.length + p.body.length := by
    unfold Wire.encodeV; rw [List.length_cons, List.length_append]; omega
  refine ⟨_, rfl, ?_, ?_⟩
  · rw [henc]
  · rw [← hp]
    exact absConnect_eq _ c c' (willQos_le_of_wf c hwf) a1 a2 a3 a4 a5 a6 a7

/-- every decoder accepts every well-formed packet in every permitted form of the remaining length
(followed by arbitrary bytes) and returns exactly that packet's fields and length -/
theorem acceptsV_wf (p : Wire.Packet) (hwf : Wire.WF p) : AcceptsV p := by
  cases p with
  | connect c => exact acceptsV_connect c hwf
  | connack sp code =>
    apply acceptsV_connack
    unfold Wire.WF Wire.wf at hwf
    exact of_decide_eq_true hwf
  | publish dup qos ret topic id payload => exact acceptsV_publish _ _ _ _ _ _ hwf
  | puback id => exact acceptsV_puback id
  | pubrec id => exact acceptsV_pubrec id
  | pubrel id => exact acceptsV_pubrel id
  | pubcomp id => exact acceptsV_pubcomp id
  | subscribe id fs => exact acceptsV_subscribe id fs hwf
  | suback id codes => exact acceptsV_suback id codes hwf
  | unsubscribe id fs => exact acceptsV_unsubscribe id fs hwf
  | unsuback id => exact acceptsV_unsuback id
  | pingreq => exact acceptsV_pingreq
  | pingresp => exact acceptsV_pingresp
  | disconnect => exact acceptsV_disconnect

/-- every encoding (any permitted form of the remaining length) of a well-formed packet, followed by anything, is
accepted by the decoder of its type with exactly its length and fields -/
theorem accepts_encodes (p : Wire.Packet) (hwf : Wire.WF p) (bs : Bytes) (h : Wire.Encodes bs p) (rest : Bytes) :
    ∃ d, decodeNew p.type (bs ++ rest) = .ok d ∧ d.n = bs.length ∧ absMsg d.msg = p := by
  obtain ⟨V, hV, rfl⟩ := h
  exact acceptsV_wf p hwf V hV rest

end Mqtt.Proofs.Codec
