/-
Client role: the client-side topic trie (callback ids as subscribers) against
the abstract subscription store of the C06 development.  Helper lemmas only.
-/
import Mqtt.Proofs.Client
import Mqtt.Proofs.TopicsHistory

set_option linter.unusedSimpArgs false

namespace Mqtt.Proofs.Client
open Mqtt.Iface.Broker (Pub Packet Bytes)
open Mqtt.Iface.Client
open Mqtt.Iface.Topics (Op)
open Mqtt.Model.Client
open Mqtt.Model.Topics (MemTopics)
open Mqtt.Generated
open Mqtt.Proofs.Topics (Inv good specSubs specAnswer step_inv subscribers_refines)
open Mqtt.Spec.Match (split validFilter validName topicMatches dollar)
open Mqtt.Spec.TopicStore (Sub)
open Mqtt.Driver.Topics (modelStep)

/-- bridge: the maximum QoS the client's `Subscribe` wrapper passes to the topic store is the protocol's -/
theorem facts_maxQos : maxQosAllowed = 2 := rfl

/-- (callback, filter) pairs are unique in the abstract store -/
def KeysNodup (store : List Sub) : Prop := (store.map (fun e => (e.sub, e.filter))).Nodup

/-- the trie holds exactly the abstract store `store` -/
structure TI (mt : MemTopics) (store : List Sub) : Prop where
  inv : Inv mt.sroot store
  nodup : KeysNodup store

theorem ti_new : TI MemTopics.new [] :=
  ⟨⟨Mqtt.Proofs.Topics.WF_empty, by simp [MemTopics.new, Mqtt.Proofs.Topics.abs_empty, Mqtt.Proofs.Topics.absS],
    by simp⟩, by simp [KeysNodup]⟩

theorem keysNodup_filter (store : List Sub) (p : Sub → Bool) (h : KeysNodup store) : KeysNodup (store.filter p) := by
  unfold KeysNodup at *
  exact h.sublist ((List.filter_sublist).map _)

theorem keysNodup_specSubs (store : List Sub) (op : Op) (h : KeysNodup store) : KeysNodup (specSubs store op) := by
  cases op with
  | sub f q sub =>
    simp only [specSubs]
    split
    · exact h
    · split
      · exact h
      · split
        · exact h
        · have h1 := keysNodup_filter store (fun e => !(e.sub == sub && e.filter == f)) h
          unfold KeysNodup at *
          rw [List.map_append, List.nodup_append]
          refine ⟨h1, by simp, ?_⟩
          intro a ha b hb
          simp only [List.map_cons, List.map_nil, List.mem_singleton] at hb
          subst hb
          simp only [List.mem_map, List.mem_filter] at ha
          obtain ⟨e, ⟨_, he⟩, rfl⟩ := ha
          intro heq
          simp only [Prod.mk.injEq] at heq
          simp [heq.1, heq.2] at he
  | unsub f sub =>
    simp only [specSubs]
    split
    · exact h
    · exact keysNodup_filter _ _ h
  | unsubAll f => exact keysNodup_filter _ _ h
  | subs t q => exact h
  | retain t q p => exact h
  | retained f => exact h

theorem subscribe_eq_modelStep (mt : MemTopics) (f : List UInt8) (q s : Nat) :
    (mt.subscribe 2 f q s).1 = (modelStep mt (.sub f q s)).1 := by
  simp only [modelStep]
  split <;> simp_all

theorem unsubscribeAll_eq_modelStep (mt : MemTopics) (f : List UInt8) :
    (mt.unsubscribe f none).1 = (modelStep mt (.unsubAll f)).1 := by
  simp [modelStep]

theorem ti_subscribe (mt : MemTopics) (store : List Sub) (f : List UInt8) (q s : Nat) (hg : good f = true)
    (h : TI mt store) : TI (mt.subscribe maxQosAllowed f q s).1 (specSubs store (.sub f q s)) := by
  rw [facts_maxQos, subscribe_eq_modelStep]
  exact ⟨step_inv mt store (.sub f q s) hg h.inv, keysNodup_specSubs _ _ h.nodup⟩

theorem ti_unsubscribeAll (mt : MemTopics) (store : List Sub) (f : List UInt8) (hg : good f = true)
    (h : TI mt store) : TI (mt.unsubscribe f none).1 (specSubs store (.unsubAll f)) := by
  rw [unsubscribeAll_eq_modelStep]
  exact ⟨step_inv mt store (.unsubAll f) hg h.inv, keysNodup_specSubs _ _ h.nodup⟩

/-! ### the Subscribe and Unsubscribe completion wrappers -/

/-- the abstract store after the wrapper of a completed Subscribe has installed callback `cb` -/
def grantStore (cb : Nat) (store : List Sub) : List ((Bytes × Nat) × Nat) → List Sub
  | [] => store
  | tc :: rest => grantStore cb (if tc.2 == 0x80 then store else specSubs store (.sub tc.1.1 tc.2 cb)) rest

/-- the abstract store after the wrapper of a completed Unsubscribe -/
def dropStore (store : List Sub) : List (Bytes × Nat) → List Sub
  | [] => store
  | t :: rest => dropStore (specSubs store (.unsubAll t.1)) rest

def subFold (cb : Nat) (acc : MemTopics × Bool) (tc : (Bytes × Nat) × Nat) : MemTopics × Bool :=
  if tc.2 == 0x80 then (acc.1, true)
  else match acc.1.subscribe maxQosAllowed tc.1.1 tc.2 cb with
    | (ts, some _) => (ts, acc.2)
    | (ts, none) => (ts, true)

theorem subFold_fst (cb : Nat) (acc : MemTopics × Bool) (tc : (Bytes × Nat) × Nat) :
    (subFold cb acc tc).1 = if tc.2 == 0x80 then acc.1 else (acc.1.subscribe maxQosAllowed tc.1.1 tc.2 cb).1 := by
  unfold subFold
  split
  · rfl
  · split <;> simp_all

theorem subscribeDone_topics (c : C) (r : Req) :
    (subscribeDone c r).1.topics =
      if r.topics.length != r.codes.length then c.topics
      else ((r.topics.zip r.codes).foldl (subFold r.cb) (c.topics, false)).1 := by
  unfold subscribeDone
  split
  · rfl
  · rfl

theorem ti_subFold (cb : Nat) (tcs : List ((Bytes × Nat) × Nat)) (hg : ∀ tc ∈ tcs, good tc.1.1 = true) :
    ∀ (acc : MemTopics × Bool) (store : List Sub), TI acc.1 store →
      TI (tcs.foldl (subFold cb) acc).1 (grantStore cb store tcs) := by
  induction tcs with
  | nil => intro acc store h; exact h
  | cons tc tcs ih =>
    intro acc store h
    simp only [List.foldl_cons, grantStore]
    apply ih (fun x hx => hg x (by simp [hx]))
    rw [subFold_fst]
    split
    · exact h
    · exact ti_subscribe _ _ _ _ _ (hg tc (by simp)) h

theorem mem_zip_fst {α β} (l : List α) (m : List β) (x : α × β) (h : x ∈ l.zip m) : x.1 ∈ l :=
  (List.of_mem_zip h).1

/-- the Subscribe wrapper keeps the trie in step with the abstract store -/
theorem ti_subscribeDone (c : C) (r : Req) (store : List Sub) (hg : ∀ t ∈ r.topics, good t.1 = true)
    (h : TI c.topics store) :
    TI (subscribeDone c r).1.topics
      (if r.topics.length != r.codes.length then store else grantStore r.cb store (r.topics.zip r.codes)) := by
  rw [subscribeDone_topics]
  split
  · exact h
  · exact ti_subFold r.cb _ (fun tc htc => hg tc.1 (mem_zip_fst _ _ _ htc)) (c.topics, false) store h

def unsubFold (acc : MemTopics × Bool) (t : Bytes × Nat) : MemTopics × Bool :=
  ((acc.1.unsubscribe t.1 none).1, acc.2 || !(acc.1.unsubscribe t.1 none).2)

theorem unsubscribeDone_topics (c : C) (r : Req) :
    (unsubscribeDone c r).1.topics = (r.topics.foldl unsubFold (c.topics, false)).1 := rfl

theorem ti_unsubFold (ts : List (Bytes × Nat)) (hg : ∀ t ∈ ts, good t.1 = true) :
    ∀ (acc : MemTopics × Bool) (store : List Sub), TI acc.1 store →
      TI (ts.foldl unsubFold acc).1 (dropStore store ts) := by
  induction ts with
  | nil => intro acc store h; exact h
  | cons t ts ih =>
    intro acc store h
    simp only [List.foldl_cons, dropStore]
    apply ih (fun x hx => hg x (by simp [hx]))
    exact ti_unsubscribeAll _ _ _ (hg t (by simp)) h

theorem ti_unsubscribeDone (c : C) (r : Req) (store : List Sub) (hg : ∀ t ∈ r.topics, good t.1 = true)
    (h : TI c.topics store) : TI (unsubscribeDone c r).1.topics (dropStore store r.topics) := by
  rw [unsubscribeDone_topics]
  exact ti_unsubFold r.topics hg (c.topics, false) store h

/-! ### dispatch -/

/-- what `onPublish` hands to the callbacks: one invocation per (callback, filter) entry of the
abstract store whose filter matches the topic -/
theorem onPublish_perm (c : C) (store : List Sub) (h : TI c.topics store) (p : Pub) (hg : good p.topic = true)
    (hn : validName p.topic = true) (hq : p.qos ≤ 2) :
    ∃ r : List (Nat × Nat), onPublish c p = r.map (fun s => Out.deliver s.1 { p with qos := s.2 }) ∧
      r.Perm (specAnswer store p.topic p.qos) := by
  obtain ⟨r, hr, hp⟩ := subscribers_refines c.topics store p.topic p.qos h.inv hg hn hq
  exact ⟨r, by simp [onPublish, hr], hp⟩

/-- the messages handed to callback `cb` in a list of outputs -/
def deliveriesTo (cb : Nat) : List Out → List Pub
  | [] => []
  | .deliver cb' p :: rest => if cb' = cb then p :: deliveriesTo cb rest else deliveriesTo cb rest
  | _ :: rest => deliveriesTo cb rest

theorem deliveriesTo_map (cb : Nat) (p : Pub) (r : List (Nat × Nat)) :
    deliveriesTo cb (r.map (fun s => Out.deliver s.1 { p with qos := s.2 })) =
      (r.filter (fun s => s.1 == cb)).map (fun s => { p with qos := s.2 }) := by
  induction r with
  | nil => rfl
  | cons s r ih =>
    simp only [List.map_cons, deliveriesTo, List.filter_cons, ih]
    by_cases h : s.1 = cb <;> simp [h]

/-- the filters under which callback `cb` is held -/
def heldBy (cb : Nat) (store : List Sub) : List Bytes := (store.filter (fun e => e.sub == cb)).map (·.filter)

theorem heldBy_nodup (cb : Nat) (store : List Sub) (h : KeysNodup store) : (heldBy cb store).Nodup := by
  have h1 := keysNodup_filter store (fun e => e.sub == cb) h
  unfold KeysNodup at h1
  unfold heldBy
  rw [List.Nodup, List.pairwise_map] at h1 ⊢
  refine h1.imp_of_mem ?_
  intro a b ha hb hne heq
  have ha' : a.sub = cb := by simpa using (List.mem_filter.mp ha).2
  have hb' : b.sub = cb := by simpa using (List.mem_filter.mp hb).2
  exact hne (by rw [ha', hb', heq])

theorem count_matching (cb : Nat) (store : List Sub) (t : Bytes) (q : Nat) :
    ((specAnswer store t q).filter (fun s => s.1 == cb)).length =
      ((heldBy cb store).filter (fun f => topicMatches f t)).length := by
  unfold specAnswer heldBy
  induction store with
  | nil => rfl
  | cons e store ih =>
    simp only [List.filter_cons]
    by_cases hm : topicMatches e.filter t = true <;> by_cases hs : (e.sub == cb) = true <;>
      simp [hm, hs, List.filter_cons] <;> simpa using ih

theorem length_filter_unique {α} [DecidableEq α] (l : List α) (P : α → Bool) (hn : l.Nodup)
    (hu : ∀ a ∈ l, ∀ b ∈ l, P a = true → P b = true → a = b) :
    (l.filter P).length = if l.any P then 1 else 0 := by
  induction l with
  | nil => rfl
  | cons a l ih =>
    have hn' := (List.nodup_cons.mp hn)
    have ih' := ih hn'.2 (fun x hx y hy => hu x (by simp [hx]) y (by simp [hy]))
    simp only [List.filter_cons, List.any_cons]
    by_cases ha : P a = true
    · have hnone : l.any P = false := by
        rw [List.any_eq_false]
        intro b hb hPb
        have := hu a (by simp) b (by simp [hb]) ha hPb
        subst this
        exact hn'.1 hb
      rw [hnone] at ih'
      simp [ha, ih']
    · have ha' : P a = false := by simpa using ha
      simp [ha', ih']

/-- does the SUBACK grant the filter of this (filter, requested QoS, return code) triple? -/
def isGranted (tc : (Bytes × Nat) × Nat) : Bool := tc.2 != 0x80 && decide (tc.2 ≤ 2) && validFilter tc.1.1

/-- the filters of a Subscribe request that its SUBACK grants -/
def grantedOf (tcs : List ((Bytes × Nat) × Nat)) : List Bytes := (tcs.filter isGranted).map (·.1.1)

theorem mem_heldBy (cb : Nat) (store : List Sub) (f : Bytes) :
    f ∈ heldBy cb store ↔ ∃ e ∈ store, e.sub = cb ∧ e.filter = f := by
  simp [heldBy, List.mem_map, List.mem_filter, and_assoc]

theorem heldBy_sub (cb : Nat) (store : List Sub) (g : Bytes) (q : Nat) (hd : dollar g = false) (f : Bytes) :
    f ∈ heldBy cb (specSubs store (.sub g q cb)) ↔
      f ∈ heldBy cb store ∨ (f = g ∧ q ≤ 2 ∧ validFilter g = true) := by
  simp only [specSubs, hd, Bool.false_eq_true, ↓reduceIte]
  by_cases hq : q > 2
  · simp only [hq, ↓reduceIte]
    constructor
    · exact Or.inl
    · rintro (h | ⟨_, h, _⟩)
      · exact h
      · omega
  · simp only [hq, ↓reduceIte]
    cases hv : validFilter g with
    | false => simp
    | true =>
      simp only [Bool.not_true, Bool.false_eq_true, ↓reduceIte, mem_heldBy, List.mem_append, List.mem_filter,
        List.mem_singleton]
      constructor
      · rintro ⟨e, he | he, hs, hf⟩
        · exact Or.inl ⟨e, he.1, hs, hf⟩
        · subst he; exact Or.inr ⟨hf.symm, by omega, trivial⟩
      · rintro (⟨e, he, hs, hf⟩ | ⟨hfg, _, _⟩)
        · by_cases hfg : f = g
          · exact ⟨⟨cb, g, min q Mqtt.Spec.TopicStore.maxQos⟩, Or.inr rfl, rfl, hfg.symm⟩
          · refine ⟨e, Or.inl ⟨he, ?_⟩, hs, hf⟩
            have : e.filter ≠ g := by rw [hf]; exact hfg
            simp [this]
        · exact ⟨⟨cb, g, min q Mqtt.Spec.TopicStore.maxQos⟩, Or.inr rfl, rfl, hfg.symm⟩

theorem heldBy_grantStore (cb : Nat) (tcs : List ((Bytes × Nat) × Nat)) (hg : ∀ tc ∈ tcs, good tc.1.1 = true)
    (f : Bytes) : ∀ store : List Sub,
      f ∈ heldBy cb (grantStore cb store tcs) ↔ f ∈ heldBy cb store ∨ f ∈ grantedOf tcs := by
  induction tcs with
  | nil => intro store; simp [grantStore, grantedOf]
  | cons tc tcs ih =>
    intro store
    have hd : dollar tc.1.1 = false := Mqtt.Proofs.Topics.good_not_dollar _ (hg tc (by simp))
    rw [grantStore, ih (fun x hx => hg x (by simp [hx]))]
    have hmem : f ∈ grantedOf (tc :: tcs) ↔ (isGranted tc = true ∧ f = tc.1.1) ∨ f ∈ grantedOf tcs := by
      simp only [grantedOf, List.filter_cons]
      by_cases h : isGranted tc = true
      · simp only [h, ↓reduceIte, List.map_cons, List.mem_cons, true_and]
      · simp [h]
    rw [hmem]
    by_cases h80 : tc.2 = 128
    · have hb : (tc.2 == 0x80) = true := by simp [h80]
      have : isGranted tc = false := by simp [isGranted, h80]
      simp only [hb, ↓reduceIte, this, Bool.false_eq_true, false_and, false_or]
    · have h80' : (tc.2 == 0x80) = false := by simpa using h80
      simp only [h80', Bool.false_eq_true, ↓reduceIte, heldBy_sub cb store tc.1.1 tc.2 hd f]
      have : (isGranted tc = true ∧ f = tc.1.1) ↔ (f = tc.1.1 ∧ tc.2 ≤ 2 ∧ validFilter tc.1.1 = true) := by
        simp only [isGranted, bne, h80', Bool.not_false, Bool.true_and, Bool.and_eq_true, decide_eq_true_eq]
        constructor
        · rintro ⟨⟨a, b⟩, c⟩; exact ⟨c, a, b⟩
        · rintro ⟨c, a, b⟩; exact ⟨⟨a, b⟩, c⟩
      rw [this]
      constructor
      · rintro ((h | h) | h)
        · exact Or.inl h
        · exact Or.inr (Or.inl h)
        · exact Or.inr (Or.inr h)
      · rintro (h | h | h)
        · exact Or.inl (Or.inl h)
        · exact Or.inl (Or.inr h)
        · exact Or.inr h

/-- how often `onPublish` invokes callback `cb`: once per filter held for `cb` that matches the topic -/
theorem deliveries_count (c : C) (store : List Sub) (h : TI c.topics store) (p : Pub) (hg : good p.topic = true)
    (hn : validName p.topic = true) (hq : p.qos ≤ 2) (cb : Nat) :
    (deliveriesTo cb (onPublish c p)).length = ((heldBy cb store).filter (fun f => topicMatches f p.topic)).length ∧
    ∀ m ∈ deliveriesTo cb (onPublish c p), m.topic = p.topic ∧ m.payload = p.payload ∧ m.qos ≤ p.qos := by
  obtain ⟨r, hr, hp⟩ := onPublish_perm c store h p hg hn hq
  rw [hr, deliveriesTo_map]
  refine ⟨?_, ?_⟩
  · rw [List.length_map, ← count_matching cb store p.topic p.qos]
    exact (hp.filter _).length_eq
  · intro m hm
    simp only [List.mem_map, List.mem_filter] at hm
    obtain ⟨s, ⟨hs, _⟩, rfl⟩ := hm
    refine ⟨rfl, rfl, ?_⟩
    have := hp.subset hs
    simp only [specAnswer, List.mem_map] at this
    obtain ⟨e, _, rfl⟩ := this
    exact Nat.min_le_left _ _

/-! ### the SUBACK / UNSUBACK of the oldest request -/

theorem ack_head (r : Req) (rest : Queue) (t : Nat) (codes : List Nat) (hid : ∀ e ∈ rest, e.id ≠ r.id) :
    Queue.ack (r :: rest) t r.id codes = { r with state := t, codes := codes } :: rest := by
  simp only [Queue.ack, List.map_cons, BEq.rfl, ↓reduceIte, List.cons.injEq, true_and]
  conv => rhs; rw [← List.map_id rest]
  apply List.map_congr_left
  intro e he
  have : (e.id == r.id) = false := by simpa using hid e he
  simp [this]

theorem acked_head (r' : Req) (rest : Queue) (ht : terminal r'.state = true)
    (hh : ∀ e, rest.head? = some e → terminal e.state = false) :
    Queue.acked (r' :: rest) = (rest, [r']) := by
  cases rest with
  | nil => simp [Queue.acked, List.takeWhile_cons, List.dropWhile_cons, ht]
  | cons e rest =>
    have := hh e rfl
    simp [Queue.acked, List.takeWhile_cons, List.dropWhile_cons, ht, this]

theorem foldDone_single (f : C → Req → C × List Out) (c : C) (r : Req) : foldDone f c [r] = f c r := by
  simp [foldDone]

/-- the SUBACK for the oldest Subscribe runs exactly that request's wrapper -/
theorem peer_suback_head (c : C) (r : Req) (rest : Queue) (hq : c.suback = r :: rest)
    (hid : ∀ e ∈ rest, e.id ≠ r.id) (hh : ∀ e, rest.head? = some e → terminal e.state = false) (codes : List Nat) :
    peer c (.suback r.id codes) =
      subscribeDone { c with suback := rest } { r with state := tSUBACK, codes := codes } := by
  simp only [peer, hq]
  rw [ack_head r rest tSUBACK codes hid, acked_head _ rest terminal_SUBACK hh]
  exact foldDone_single _ _ _

/-- the UNSUBACK for the oldest Unsubscribe runs exactly that request's wrapper -/
theorem peer_unsuback_head (c : C) (r : Req) (rest : Queue) (hq : c.unsuback = r :: rest)
    (hid : ∀ e ∈ rest, e.id ≠ r.id) (hh : ∀ e, rest.head? = some e → terminal e.state = false) :
    peer c (.unsuback r.id) =
      unsubscribeDone { c with unsuback := rest } { r with state := tUNSUBACK, codes := [] } := by
  simp only [peer, hq]
  rw [ack_head r rest tUNSUBACK [] hid, acked_head _ rest terminal_UNSUBACK hh]
  exact foldDone_single _ _ _

/-! ### Unsubscribe -/

theorem dropStore_eq (ts : List (Bytes × Nat)) : ∀ store : List Sub,
    dropStore store ts = store.filter (fun e => !(ts.map (·.1)).contains e.filter) := by
  induction ts with
  | nil =>
    intro store
    simp only [dropStore, List.map_nil, List.contains_nil, Bool.not_false]
    exact (List.filter_eq_self.mpr (fun _ _ => rfl)).symm
  | cons t ts ih =>
    intro store
    rw [dropStore, ih]
    simp only [specSubs, List.filter_filter, List.map_cons, List.contains_cons]
    apply List.filter_congr
    intro e _
    cases h1 : (e.filter == t.1) <;> simp [h1]

theorem heldBy_filter (cb : Nat) (store : List Sub) (P : Bytes → Bool) :
    heldBy cb (store.filter (fun e => P e.filter)) = (heldBy cb store).filter P := by
  unfold heldBy
  rw [List.filter_filter, List.filter_map]
  congr 1
  rw [List.filter_filter]
  apply List.filter_congr
  intro e _
  simp [Bool.and_comm]

/-! ### deliveries over a whole inbound QoS 2 exchange -/

theorem deliveriesTo_append (cb : Nat) (a b : List Out) :
    deliveriesTo cb (a ++ b) = deliveriesTo cb a ++ deliveriesTo cb b := by
  induction a with
  | nil => rfl
  | cons x a ih =>
    cases x with
    | deliver cb' p =>
      simp only [List.cons_append, deliveriesTo]
      split <;> simp [ih]
    | _ => simpa [deliveriesTo] using ih

theorem deliveriesTo_exchange {α} (cb id : Nat) (dups : List α) (X : List Out) :
    deliveriesTo cb (([Out.wrote (.pubrec id)] :: dups.map (fun _ => [Out.wrote (.pubrec id)]) ++
      [X ++ [Out.wrote (.pubcomp id)]]).flatten) = deliveriesTo cb X := by
  have h1 : ∀ l : List α, deliveriesTo cb ((l.map (fun _ => [Out.wrote (.pubrec id)])).flatten) = [] := by
    intro l
    induction l with
    | nil => rfl
    | cons a l ih => simpa [deliveriesTo] using ih
  simp only [List.cons_append, List.flatten_cons, List.flatten_append, List.flatten_nil, List.append_nil,
    deliveriesTo_append, h1, List.singleton_append, deliveriesTo, List.nil_append, List.append_nil]

/-! ### a static sufficient condition for "no two filters of the request match the same topic" -/

open Mqtt.Spec.Match (matchLevels HASH PLUS) in
/-- can two filters (as level lists) match a common name?  (over-approximation: `true` whenever they can) -/
def overlapLevels : List (List UInt8) → List (List UInt8) → Bool
  | [], [] => true
  | [], g :: gs => g == [HASH] && gs.isEmpty
  | f :: fs, [] => f == [HASH] && fs.isEmpty
  | f :: fs, g :: gs =>
    if f == [HASH] || g == [HASH] then true
    else (f == [PLUS] || g == [PLUS] || f == g) && overlapLevels fs gs

/-- two filters overlap: some topic name may match both -/
def overlap (f g : Bytes) : Bool := overlapLevels (split f) (split g)

open Mqtt.Spec.Match (matchLevels HASH PLUS) in
theorem overlapLevels_sound (ns : List (List UInt8)) : ∀ (fs gs : List (List UInt8)),
    matchLevels fs ns = true → matchLevels gs ns = true → overlapLevels fs gs = true := by
  induction ns with
  | nil =>
    intro fs gs hf hg
    cases fs with
    | nil =>
      cases gs with
      | nil => rfl
      | cons g gs => simpa [matchLevels, overlapLevels] using hg
    | cons f fs =>
      cases gs with
      | nil => simpa [matchLevels, overlapLevels] using hf
      | cons g gs =>
        simp only [matchLevels, Bool.and_eq_true, beq_iff_eq] at hf
        simp [overlapLevels, hf.1]
  | cons n ns ih =>
    intro fs gs hf hg
    cases fs with
    | nil => simp [matchLevels] at hf
    | cons f fs =>
      cases gs with
      | nil => simp [matchLevels] at hg
      | cons g gs =>
        simp only [overlapLevels]
        by_cases hfh : f = [HASH]
        · simp [hfh]
        · by_cases hgh : g = [HASH]
          · simp [hgh]
          · have hfb : (f == [HASH]) = false := by simpa using hfh
            have hgb : (g == [HASH]) = false := by simpa using hgh
            simp only [matchLevels, hfb, hgb, Bool.false_eq_true, ↓reduceIte, Bool.and_eq_true, Bool.or_eq_true,
              beq_iff_eq] at hf hg
            simp only [hfb, hgb, Bool.or_self, Bool.false_eq_true, ↓reduceIte, Bool.and_eq_true, Bool.or_eq_true,
              beq_iff_eq]
            refine ⟨?_, ih fs gs hf.2 hg.2⟩
            rcases hf.1 with h | h
            · exact Or.inl (Or.inl h)
            · rcases hg.1 with h' | h'
              · exact Or.inl (Or.inr h')
              · exact Or.inr (h.trans h'.symm)

/-- filters that do not overlap never match the same topic -/
theorem overlap_sound (f g t : Bytes) (h : overlap f g = false) :
    ¬ (topicMatches f t = true ∧ topicMatches g t = true) := by
  rintro ⟨h1, h2⟩
  have := overlapLevels_sound (split t) (split f) (split g) h1 h2
  unfold overlap at h
  rw [this] at h
  cases h

/-- the filters of a list are pairwise non-overlapping -/
def nonOverlapping (l : List Bytes) : Bool := l.all (fun f => l.all (fun g => f == g || !overlap f g))

theorem nonOverlapping_unique (l : List Bytes) (h : nonOverlapping l = true) (t : Bytes) :
    ∀ f ∈ l, ∀ g ∈ l, topicMatches f t = true → topicMatches g t = true → f = g := by
  intro f hf g hg h1 h2
  simp only [nonOverlapping, List.all_eq_true, Bool.or_eq_true, beq_iff_eq, Bool.not_eq_true'] at h
  rcases h f hf g hg with h | h
  · exact h
  · exact absurd ⟨h1, h2⟩ (overlap_sound f g t h)

end Mqtt.Proofs.Client
